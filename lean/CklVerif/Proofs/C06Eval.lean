/-
  C06Eval — the bridge between the heap-level operations the evaluator runs (`rveq`, `rvlt`,
  `rrender`, `memR`, `mapGet`, `mapPut`, `mapDel`, `setAdd`, `sortedR`, …) and the tree-level
  functions for which C06 / C07 / C08 are proved (`veq`, `vlt`, `render`, `mkSet`, `mkMap`,
  `dedupKeepFirst`, `assocPut`, `sortBy`), and what follows from it for the natives.

  Assumptions, stated once:
  * "`a` reifies": `reify s a = some va`.  `reify` walks the heap with fuel `heap.size + 1`, so a
    value that contains a function, an object, a node, a control signal, a dangling reference or
    a cycle does not reify and is outside every theorem below.
  * `HeapOK s` (`Lemmas/C06EvalBridge.lean`): every set cell whose elements reify holds elements
    that are mutually of one ordered kind (`SameKind`, each one also with itself — so no NULL, no
    set, no map as an element) and pairwise different (`veq`); the same for the keys of every map
    cell.  `HeapOK` is needed: see the three witnesses `sBad`, `sMix`, `sSS` at the end, where
    `rveq` and `veq ∘ reify` disagree.
-/
import CklVerif.Lemmas.C06EvalNode
import CklVerif.Lemmas.C06EvalFuel
import CklVerif.Proofs.C06
namespace Ckl.C06Eval
open Ckl Ckl.C06E

/-! ## 1. the bridge -/

/-- equality -/
theorem rveq_bridge {s : State} (wf : HeapOK s) {a b : RVal} {va vb : Val}
    (ha : reify s a = some va) (hb : reify s b = some vb) : rveq s a b = veq va vb :=
  rveq_eq_veq wf ha hb

/-- equality when one side is not a reference: no heap condition -/
theorem rveq_bridge_scalar {s : State} {a b : RVal} {va vb : Val}
    (hs : (∀ x, a ≠ .ref x) ∨ (∀ y, b ≠ .ref y)) (ha : reify s a = some va)
    (hb : reify s b = some vb) : rveq s a b = veq va vb := rveq_scalar_eq hs ha hb

/-- order: `rvlt` is `some (vlt …)` on values that reify … -/
theorem rvlt_bridge {s : State} {a b : RVal} {va vb : Val} (ha : reify s a = some va)
    (hb : reify s b = some vb) : rvlt s a b = some (vlt va vb) := rvlt_eq_vlt ha hb

/-- … and `none` exactly when one of them does not -/
theorem rvlt_none (s : State) (a b : RVal) :
    rvlt s a b = none ↔ reify s a = none ∨ reify s b = none := rvlt_none_iff s a b

/-- rendering of scalars, set cells and map cells -/
theorem rrender_bridge_nonlist {s : State} {v : RVal} {va : Val} (hv : reify s v = some va)
    (hl : ∀ a xs, v = .ref a → s.heap[a]? ≠ some (.list xs)) : rrender s v = some (render va) :=
  rrender_eq_render_nonlist hv hl

/-- **the fuel lemma**: a value that reifies at all (with any fuel) reifies with fuel `heap.size`;
    `reify` (fuel `heap.size + 1`) never needs its last unit.  (Pigeonhole on the growing sets
    `{a | reifyF n (ref a) ≠ none} ⊆ {0, …, heap.size - 1}`.) -/
theorem reify_fuel_size {s : State} {n : Nat} {v : RVal} {w : Val}
    (hv : reifyF decRepr s.heap n v = some w) : reifyF decRepr s.heap s.heap.size v = some w :=
  reifyF_fuel_size decRepr s.heap hv

/-- from `heap.size` on, reification does not depend on the fuel at all (also for failures) -/
theorem reify_fuel_indep (s : State) {n m : Nat} (hn : s.heap.size ≤ n) (hm : s.heap.size ≤ m)
    (v : RVal) : reifyF decRepr s.heap n v = reifyF decRepr s.heap m v :=
  reifyF_fuel_indep decRepr s.heap hn hm v

/-- rendering, all values, at full strength (was `rrender_bridge_partial`; the fuel lemma removes
    the extra unit of fuel `rrenderF` spends on a scalar inside a list) -/
theorem rrender_bridge {s : State} {v : RVal} {va : Val} (hv : reify s v = some va) :
    rrender s v = some (render va) := rrender_eq_render_full hv

/-- old name, old (weaker) statement; kept as an alias -/
theorem rrender_bridge_partial {s : State} {v : RVal} {va : Val}
    (hv : reifyF decRepr s.heap s.heap.size v = some va) : rrender s v = some (render va) :=
  rrender_bridge (reifyF_mono decRepr s.heap _ v va hv)

/-- membership -/
theorem memR_bridge {s : State} (wf : HeapOK s) {x : RVal} {vx : Val} (hx : reify s x = some vx)
    {xs : List RVal} {A : List Val} (hA : xs.mapM (reify s) = some A) :
    memR s x xs = memV vx A := memR_eq_memV wf hx (mapM_forall2 hA)

/-- lookup: the value found reifies to the value `lookupM` finds, and absence agrees -/
theorem mapGet_bridge {s : State} (wf : HeapOK s) {k : RVal} {vk : Val} (hk : reify s k = some vk)
    {kvs : List (RVal × RVal)} {P : List (Val × Val)} (hP : kvs.mapM (pairF (reify s)) = some P) :
    (mapGet s k kvs).bind (reify s) = lookupM vk P ∧
      (mapGet s k kvs).isSome = (lookupM vk P).isSome :=
  C06E.mapGet_bridge wf hk (mapM_forall2 hP)

/-- enumeration: `sortedR` returns a permutation that reifies to the `vlt`-sorted list -/
theorem sortedR_bridge {s : State} {xs : List RVal} {A : List Val}
    (hA : xs.mapM (reify s) = some A) :
    ∃ ys, sortedR s xs = some ys ∧ ys.Perm xs ∧ ys.mapM (reify s) = some (sortBy vlt A) := by
  obtain ⟨ys, h1, h2, h3⟩ := C06E.sortedR_bridge (mapM_forall2 hA)
  exact ⟨ys, h1, h2, forall2_mapM h3⟩

/-- … which is what `mkSet` stores when the elements are well formed -/
theorem mkSet_of_keysOK {A : List Val} (h : KeysOK A) : mkSet decRepr A = .set (sortBy vlt A) := by
  unfold mkSet sortedItems
  rw [dedup_of_pairwise h.distinct]; rfl

theorem sortedEntriesR_bridge {s : State} {kvs : List (RVal × RVal)} {P : List (Val × Val)}
    (hP : kvs.mapM (pairF (reify s)) = some P) :
    ∃ es, sortedEntriesR s kvs = some es ∧ es.Perm kvs ∧
      es.mapM (pairF (reify s)) = some (sortedEntries decRepr P) := by
  obtain ⟨es, h1, h2, h3⟩ := C06E.sortedEntriesR_bridge (mapM_forall2 hP)
  exact ⟨es, h1, h2, forall2_mapM h3⟩

theorem mkMap_of_keysOK {P : List (Val × Val)} (h : KeysOK (P.map (·.1))) :
    mkMap decRepr P = .map (sortedEntries decRepr P) := by
  unfold mkMap
  rw [assocOfList_of_pairwise (List.pairwise_map.mp h.distinct)]

/-- `set.add` -/
theorem setAdd_bridge {s : State} (wf : HeapOK s) {x : RVal} {vx : Val} (hx : reify s x = some vx)
    {xs : List RVal} {A : List Val} (hA : xs.mapM (reify s) = some A)
    (hd : A.Pairwise (fun a b => veq a b = false)) :
    (setAdd s x xs).mapM (reify s) = some (dedupKeepFirst (A ++ [vx])) := by
  rw [← addV_eq_dedup hd]
  exact forall2_mapM (C06E.setAdd_bridge wf hx (mapM_forall2 hA))

/-- the set-literal / `set()` fold -/
theorem foldl_setAdd_bridge {s : State} (wf : HeapOK s) {items : List RVal} {I : List Val}
    (hI : items.mapM (reify s) = some I) :
    (items.foldl (fun acc x => setAdd s x acc) []).mapM (reify s) = some (dedupKeepFirst I) := by
  have := C06E.foldl_setAdd_bridge wf (mapM_forall2 hI) (acc := []) (Acc := []) List.Forall₂.nil
  rw [foldl_addV_eq_dedup I [] List.Pairwise.nil] at this
  exact forall2_mapM (by simpa using this)

/-- `dict[k] = v` -/
theorem mapPut_bridge {s : State} (wf : HeapOK s) {k v : RVal} {vk vv : Val}
    (hk : reify s k = some vk) (hv : reify s v = some vv) {kvs : List (RVal × RVal)}
    {P : List (Val × Val)} (hP : kvs.mapM (pairF (reify s)) = some P) :
    (mapPut s k v kvs).mapM (pairF (reify s)) = some (assocPut vk vv P) :=
  forall2_mapM (C06E.mapPut_bridge wf hk hv (mapM_forall2 hP))

/-- the map-literal fold -/
theorem foldl_mapPut_bridge {s : State} (wf : HeapOK s) {kvs : List (RVal × RVal)}
    {I : List (Val × Val)} (hI : kvs.mapM (pairF (reify s)) = some I) :
    (kvs.foldl (fun acc kv => mapPut s kv.1 kv.2 acc) []).mapM (pairF (reify s)) =
      some (assocOfList I) :=
  forall2_mapM (C06E.foldl_mapPut_bridge wf (mapM_forall2 hI) (acc := []) (Acc := [])
    List.Forall₂.nil)

/-- `del dict[k]` (`assocDel`, `Lemmas/C06EvalOps.lean`, is the tree-level mirror of `mapDel`) -/
theorem mapDel_bridge {s : State} (wf : HeapOK s) {k : RVal} {vk : Val} (hk : reify s k = some vk)
    {kvs : List (RVal × RVal)} {P : List (Val × Val)} (hP : kvs.mapM (pairF (reify s)) = some P) :
    (mapDel s k kvs).mapM (pairF (reify s)) = some (assocDel vk P) :=
  forall2_mapM (C06E.mapDel_bridge wf hk (mapM_forall2 hP))

/-! ### the cell condition is kept by the operations that build and change sets and maps -/

/-- a set cell that reifies: its value is `mkSet` of its reified elements -/
theorem reify_set_cell {s : State} {c : Nat} {xs : List RVal} {v : Val}
    (hc : s.cell c = some (.set xs)) (hv : reify s (.ref c) = some v) :
    ∃ A, xs.mapM (reify s) = some A ∧ v = mkSet decRepr A := by
  rw [reify_ref_eq] at hv
  unfold State.cell at hc
  rw [hc] at hv
  simp only [cellVal, Option.map_eq_some_iff] at hv
  obtain ⟨A, hA, rfl⟩ := hv
  exact ⟨A, mapM_option_mono (fun x _ v hx => reifyF_mono decRepr s.heap _ x v hx) hA, rfl⟩

theorem reify_map_cell {s : State} {c : Nat} {kvs : List (RVal × RVal)} {v : Val}
    (hc : s.cell c = some (.map kvs)) (hv : reify s (.ref c) = some v) :
    ∃ P, kvs.mapM (pairF (reify s)) = some P ∧ v = mkMap decRepr P := by
  rw [reify_ref_eq] at hv
  unfold State.cell at hc
  rw [hc] at hv
  simp only [cellVal, Option.map_eq_some_iff] at hv
  obtain ⟨P, hP, rfl⟩ := hv
  refine ⟨P, ?_, rfl⟩
  have f := mapM_forall2 (f := pairF (reifyF decRepr s.heap s.heap.size)) hP
  apply forall2_mapM
  refine forall2_mono ?_ f
  intro kv p hp
  have h1 := pairF_some hp
  exact pairF_of (reifyF_mono decRepr s.heap _ _ _ h1.1) (reifyF_mono decRepr s.heap _ _ _ h1.2)

/-- adding an element of the kind of the residents keeps the condition -/
theorem keysOK_add {A : List Val} (h : KeysOK A) {v : Val} (hv : SameKind v v)
    (hk : ∀ a ∈ A, SameKind v a) : KeysOK (dedupKeepFirst (A ++ [v])) := by
  rw [← addV_eq_dedup h.distinct]; exact h.addV hv hk

/-- a set built from items that are mutually of one ordered kind satisfies the condition -/
theorem keysOK_build {I : List Val} (hk : ∀ a ∈ I, ∀ b ∈ I, SameKind a b) :
    KeysOK (dedupKeepFirst I) := KeysOK.dedup hk

/-- `dict[k] = v` keeps it (the key list changes like a set under `add`) -/
theorem keysOK_put {P : List (Val × Val)} (h : KeysOK (P.map (·.1))) {k : Val} (v : Val)
    (hv : SameKind k k) (hk : ∀ a ∈ P.map (·.1), SameKind k a) :
    KeysOK ((assocPut k v P).map (·.1)) := by
  rw [assocPut_keys_addV]; exact h.addV hv hk

/-- deleting a key keeps it -/
theorem keysOK_del {P : List (Val × Val)} (h : KeysOK (P.map (·.1))) (k : Val) :
    KeysOK ((assocDel k P).map (·.1)) := h.sublist ((assocDel_sublist k P).map _)

/-- removing elements keeps it -/
theorem keysOK_filter {A : List Val} (h : KeysOK A) (p : Val → Bool) : KeysOK (A.filter p) :=
  h.sublist List.filter_sublist

/-- **a set cell built by the set-literal / `set()` path** (`addSet`): the new cell never holds
    two `equals` elements, and in the new state it reifies to `mkSet` of the reified items -/
theorem addSet_spec {s : State} (wf : HeapOK s) {items : List RVal} {I : List Val}
    (hI : items.mapM (reify s) = some I) :
    ∃ L, addSet items s = .ok (.ref s.heap.size) (s.alloc (.set L)).1 ∧
      L.Pairwise (fun x y => rveq s x y = false) ∧
      L.mapM (reify s) = some (dedupKeepFirst I) ∧
      reify (s.alloc (.set L)).1 (.ref s.heap.size) = some (mkSet decRepr I) := by
  refine ⟨_, addSet_eq items s, ?_, foldl_setAdd_bridge wf hI, ?_⟩
  · have hL := mapM_forall2 (foldl_setAdd_bridge wf hI)
    have hd := dedup_pairwise' I
    generalize items.foldl (fun acc x => setAdd s x acc) [] = L at hL
    generalize dedupKeepFirst I = D at hL hd
    induction hL with
    | nil => exact List.Pairwise.nil
    | @cons x v xs vs hx hrest ih =>
      rw [List.pairwise_cons] at hd
      refine List.Pairwise.cons ?_ (ih hd.2)
      intro y hy
      obtain ⟨w, hw, hyw⟩ : ∃ w ∈ vs, reify s y = some w := by
        clear ih hd
        induction hrest with
        | nil => simp at hy
        | cons hab _ ih2 =>
          rcases List.mem_cons.mp hy with rfl | hy
          · exact ⟨_, by simp, hab⟩
          · obtain ⟨w, hw, h⟩ := ih2 hy; exact ⟨w, List.mem_cons_of_mem _ hw, h⟩
      rw [rveq_eq_veq wf hx hyw]
      exact hd.1 w hw
  · have := reify_new_set (mapM_forall2 (foldl_setAdd_bridge wf hI))
    rw [this]
    unfold mkSet
    rw [dedup_of_pairwise (dedup_pairwise' I)]

/-- **`append` to a set cell**: the list written back never holds two `equals` elements -/
theorem append_set_distinct {s : State} (wf : HeapOK s) {x : RVal} {vx : Val}
    (hx : reify s x = some vx) {xs : List RVal} {A : List Val} (hA : xs.mapM (reify s) = some A)
    (hd : A.Pairwise (fun a b => veq a b = false)) :
    ∃ B, (setAdd s x xs).mapM (reify s) = some B ∧ B.Pairwise (fun a b => veq a b = false) :=
  ⟨_, setAdd_bridge wf hx hA hd, dedup_pairwise' _⟩

/-! ### `HeapOK` is an invariant of allocation

  `HeapClosed s` (`Lemmas/C06EvalFuel.lean`): no list / set / map cell holds a reference `≥ heap.size`.
  It is needed: on `#[set [ref 1, ref 1]]` (a dangling reference; `HeapOK` holds vacuously because the
  elements do not reify) allocating the list cell `[]` makes the two elements reify to equal values
  (witness `sDang` in §8). -/

/-- **`alloc` keeps `HeapOK`** when the new cell is well formed in the old state -/
theorem heapOK_alloc {s : State} (wf : HeapOK s) (cl : HeapClosed s) {c : Cell}
    (hc : CellClosed s.heap.size c) (ok : CellOK (reify s) c) :
    HeapOK (s.alloc c).1 ∧ HeapClosed (s.alloc c).1 :=
  ⟨C06E.heapOK_alloc wf cl hc ok, heapClosed_alloc cl hc⟩

/-- old values keep their reification under `alloc`, in both directions -/
theorem reify_alloc_iff {s : State} (cl : HeapClosed s) (c : Cell) {v : RVal}
    (hb : RefBelow s.heap.size v) (w : Val) :
    reify (s.alloc c).1 v = some w ↔ reify s v = some w := C06E.reify_alloc_iff cl c hb w

/-- a new list cell (list literal, `list()`, list comprehension result, `sorted`, slices …) -/
theorem heapOK_newList {s : State} (wf : HeapOK s) (cl : HeapClosed s) {xs : List RVal}
    (hx : ∀ x ∈ xs, RefBelow s.heap.size x) :
    ∃ s', newList xs s = .ok (.ref s.heap.size) s' ∧ s'.heap = s.heap.push (.list xs) ∧
      HeapOK s' ∧ HeapClosed s' := newList_inv wf cl hx

/-- `addSet` (set literal, `set(…)`, set comprehension result) on items of one ordered kind -/
theorem heapOK_addSet {s : State} (wf : HeapOK s) (cl : HeapClosed s) {items : List RVal}
    {I : List Val} (hI : items.mapM (reify s) = some I) (hk : ∀ a ∈ I, ∀ b ∈ I, SameKind a b) :
    ∃ s', addSet items s = .ok (.ref s.heap.size) s' ∧ HeapOK s' ∧ HeapClosed s' ∧
      reify s' (.ref s.heap.size) = some (mkSet decRepr I) := addSet_inv wf cl (mapM_forall2 hI) hk

/-- the empty `set()` -/
theorem heapOK_empty_set {s : State} (wf : HeapOK s) (cl : HeapClosed s) :
    HeapOK (s.alloc (.set [])).1 ∧ HeapClosed (s.alloc (.set [])).1 :=
  heapOK_alloc wf cl (by intro x hx; simp at hx)
    (by intro vs hvs; simp at hvs; subst hvs; exact KeysOK.nil)

/-- **the set literal keeps the invariant** (items of one ordered kind) -/
theorem set_literal_heapOK (ld : Loader) {fuel : Nat} {env : EnvId} {items : List Node} {pos : Pos}
    {s s1 : State} {vs : List RVal} (hi : evalSeq ld fuel env items s = .ok vs s1)
    (wf : HeapOK s1) (cl : HeapClosed s1) {I : List Val} (hI : vs.mapM (reify s1) = some I)
    (hk : ∀ a ∈ I, ∀ b ∈ I, SameKind a b) :
    ∃ s', eval ld (fuel + 1) env (.set items pos) s = .ok (.ref s1.heap.size) s' ∧ HeapOK s' ∧
      HeapClosed s' ∧ reify s' (.ref s1.heap.size) = some (mkSet decRepr I) := by
  obtain ⟨s', h1, h2, h3, h4⟩ := heapOK_addSet wf cl hI hk
  exact ⟨s', by rw [eval_set_lit ld hi, h1], h2, h3, h4⟩

/-- **the map literal keeps the invariant** (keys of one ordered kind) -/
theorem map_literal_heapOK (ld : Loader) {fuel : Nat} {env : EnvId} {keys values : List Node}
    {pos : Pos} {s s1 : State} {kvs : List (RVal × RVal)}
    (hi : evalPairs ld fuel env keys values s = .ok kvs s1) (wf : HeapOK s1) (cl : HeapClosed s1)
    {I : List (Val × Val)} (hI : kvs.mapM (pairF (reify s1)) = some I)
    (hk : ∀ a ∈ I.map (·.1), ∀ b ∈ I.map (·.1), SameKind a b) :
    ∃ s', eval ld (fuel + 1) env (.map keys values pos) s = .ok (.ref s1.heap.size) s' ∧
      HeapOK s' ∧ HeapClosed s' ∧ reify s' (.ref s1.heap.size) = some (mkMap decRepr I) := by
  obtain ⟨h2, h3, h4⟩ := allocMap_inv wf cl (mapM_forall2 hI) hk
  exact ⟨_, eval_map_lit ld hi, h2, h3, h4⟩

/-- **comprehension results keep the invariant**: `comprResult` builds a list cell, a set cell
    (`addSet`) or a map cell (`mapPut` fold) from the collected `(key, value)` pairs -/
theorem comprResult_heapOK {s : State} (wf : HeapOK s) (cl : HeapClosed s) (kind : ComprKind)
    {out : List (RVal × RVal)} {I : List (Val × Val)} (hI : out.mapM (pairF (reify s)) = some I)
    (hk : match kind with
      | .list => True
      | .set => ∀ a ∈ I.map (·.2), ∀ b ∈ I.map (·.2), SameKind a b
      | .map => ∀ a ∈ I.map (·.1), ∀ b ∈ I.map (·.1), SameKind a b) :
    ∃ s', comprResult kind out s = .ok (.ref s.heap.size) s' ∧ HeapOK s' ∧ HeapClosed s' := by
  have hM := mapM_forall2 hI
  cases kind with
  | list =>
    obtain ⟨s', h1, _, h2, h3⟩ := newList_inv wf cl (xs := out.map (·.2))
      (cellClosed_list_of_reifL (ReifM.vals hM))
    exact ⟨s', h1, h2, h3⟩
  | set =>
    obtain ⟨s', h1, h2, h3, _⟩ := addSet_inv wf cl (ReifM.vals hM) hk
    exact ⟨s', h1, h2, h3⟩
  | map =>
    obtain ⟨h2, h3, _⟩ := allocMap_inv wf cl hM hk
    exact ⟨_, rfl, h2, h3⟩

/-! ## 2. `equals` -/

/-- the native `equals` returns `rveq` (definitional) -/
theorem native_equals_eq (s : State) (a b : RVal) :
    runPure "equals" [("a", a), ("b", b)] s = some (.ok (.bool (rveq s a b)) s) := rfl

theorem equals_refl {s : State} (wf : HeapOK s) {a : RVal} {va : Val} (ha : reify s a = some va) :
    rveq s a a = true := by
  rw [rveq_eq_veq wf ha ha]; exact veq_refl' va

theorem equals_symm {s : State} (wf : HeapOK s) {a b : RVal} {va vb : Val}
    (ha : reify s a = some va) (hb : reify s b = some vb) : rveq s a b = rveq s b a := by
  rw [rveq_eq_veq wf ha hb, rveq_eq_veq wf hb ha]; exact veq_symm' va vb

theorem equals_trans {s : State} (wf : HeapOK s) {a b c : RVal} {va vb vc : Val}
    (ha : reify s a = some va) (hb : reify s b = some vb) (hc : reify s c = some vc)
    (h1 : rveq s a b = true) (h2 : rveq s b c = true) : rveq s a c = true := by
  rw [rveq_eq_veq wf ha hb] at h1
  rw [rveq_eq_veq wf hb hc] at h2
  rw [rveq_eq_veq wf ha hc]
  exact veq_trans' va vb vc h1 h2

/-- values of different kinds are never `equals` -/
theorem equals_cross_kind {s : State} (wf : HeapOK s) {a b : RVal} {va vb : Val}
    (ha : reify s a = some va) (hb : reify s b = some vb)
    (hk : C06.kindOf va ≠ C06.kindOf vb) : rveq s a b = false := by
  rw [rveq_eq_veq wf ha hb]; exact C06.veq_cross_kind_false hk

/-- the kind of a heap value can be read off without reifying -/
theorem kindOf_ref_set {s : State} {c : Nat} {xs : List RVal} {v : Val}
    (hc : s.cell c = some (.set xs)) (hv : reify s (.ref c) = some v) : C06.kindOf v = .set := by
  obtain ⟨A, _, rfl⟩ := reify_set_cell hc hv; rfl

/-- ints and decimals are `equals` iff they are the same rational number (every state) -/
theorem equals_int_dec_iff (s : State) (a m : Int) (e : Nat) :
    rveq s (.int a) (.dec m e) = true ↔ (a : ℚ) = (m : ℚ) / 2 ^ e := by
  rw [rveq_scalar_eq (s := s) (va := .int a) (vb := .dec m e) (Or.inl (by simp)) rfl rfl]
  exact C06.veq_int_dec_iff a m e

theorem equals_dec_int_iff (s : State) (m : Int) (e : Nat) (b : Int) :
    rveq s (.dec m e) (.int b) = true ↔ (m : ℚ) / 2 ^ e = (b : ℚ) := by
  rw [rveq_scalar_eq (s := s) (va := .dec m e) (vb := .int b) (Or.inl (by simp)) rfl rfl]
  exact C06.veq_dec_int_iff m e b

theorem equals_dec_dec_iff (s : State) (m : Int) (e : Nat) (m' : Int) (e' : Nat) :
    rveq s (.dec m e) (.dec m' e') = true ↔ (m : ℚ) / 2 ^ e = (m' : ℚ) / 2 ^ e' := by
  rw [rveq_scalar_eq (s := s) (va := .dec m e) (vb := .dec m' e') (Or.inl (by simp)) rfl rfl]
  exact C06.veq_dec_dec_iff m e m' e'

theorem equals_int_int_iff (s : State) (a b : Int) : rveq s (.int a) (.int b) = true ↔ a = b := by
  rw [rveq_scalar_eq (s := s) (va := .int a) (vb := .int b) (Or.inl (by simp)) rfl rfl]
  exact C06.veq_int_int_iff a b

/-! ## 3. sets and maps respect `equals` -/

/-- `a in coll` / `contains(coll, a)` give the same answer for `equals` representatives -/
theorem memR_congr {s : State} (wf : HeapOK s) {a a' : RVal} {va va' : Val}
    (ha : reify s a = some va) (ha' : reify s a' = some va') (he : rveq s a a' = true)
    {xs : List RVal} {A : List Val} (hA : xs.mapM (reify s) = some A) :
    memR s a xs = memR s a' xs := by
  rw [rveq_eq_veq wf ha ha'] at he
  rw [memR_bridge wf ha hA, memR_bridge wf ha' hA]
  exact memV_congr' he A

/-- `m[k]` finds the same entry (the very same heap value) for `equals` keys -/
theorem mapGet_congr {s : State} (wf : HeapOK s) {k k' : RVal} {vk vk' : Val}
    (hk : reify s k = some vk) (hk' : reify s k' = some vk') (he : rveq s k k' = true)
    {kvs : List (RVal × RVal)} {P : List (Val × Val)} (hP : kvs.mapM (pairF (reify s)) = some P) :
    mapGet s k kvs = mapGet s k' kvs := by
  rw [rveq_eq_veq wf hk hk'] at he
  have f := mapM_forall2 hP
  clear hP
  induction f with
  | nil => rfl
  | @cons kv p kvs P hx _ ih =>
    obtain ⟨k1, v1⟩ := kv
    have h1 := pairF_some hx
    simp only at h1
    simp only [mapGet, rveq_eq_veq wf hk h1.1, rveq_eq_veq wf hk' h1.1, veq_congr_left he, ih]

/-- `remove(set, a)` writes back the same list for `equals` representatives -/
theorem remove_set_congr {s : State} (wf : HeapOK s) {a a' : RVal} {va va' : Val}
    (ha : reify s a = some va) (ha' : reify s a' = some va') (he : rveq s a a' = true)
    {xs : List RVal} {A : List Val} (hA : xs.mapM (reify s) = some A) :
    xs.filter (fun y => !rveq s y a) = xs.filter (fun y => !rveq s y a') := by
  rw [rveq_eq_veq wf ha ha'] at he
  have f := mapM_forall2 hA
  clear hA
  induction f with
  | nil => rfl
  | cons hx _ ih =>
    simp only [List.filter_cons, rveq_eq_veq wf hx ha, rveq_eq_veq wf hx ha', veq_congr_right he, ih]

/-- `remove(map, k)` writes back the same list for `equals` keys -/
theorem mapDel_congr {s : State} (wf : HeapOK s) {k k' : RVal} {vk vk' : Val}
    (hk : reify s k = some vk) (hk' : reify s k' = some vk') (he : rveq s k k' = true)
    {kvs : List (RVal × RVal)} {P : List (Val × Val)} (hP : kvs.mapM (pairF (reify s)) = some P) :
    mapDel s k kvs = mapDel s k' kvs := by
  rw [rveq_eq_veq wf hk hk'] at he
  have f := mapM_forall2 hP
  clear hP
  induction f with
  | nil => rfl
  | @cons kv p kvs P hx _ ih =>
    obtain ⟨k1, v1⟩ := kv
    have h1 := pairF_some hx
    simp only at h1
    simp only [mapDel, rveq_eq_veq wf hk h1.1, rveq_eq_veq wf hk' h1.1, veq_congr_left he, ih]

/-- `dict[k] = v` writes back the same list for `equals` keys -/
theorem mapPut_congr {s : State} (wf : HeapOK s) {k k' : RVal} {vk vk' : Val}
    (hk : reify s k = some vk) (hk' : reify s k' = some vk') (he : rveq s k k' = true) (v : RVal)
    {kvs : List (RVal × RVal)} {P : List (Val × Val)} (hP : kvs.mapM (pairF (reify s)) = some P)
    (hin : (mapGet s k kvs).isSome = true) : mapPut s k v kvs = mapPut s k' v kvs := by
  rw [rveq_eq_veq wf hk hk'] at he
  have f := mapM_forall2 hP
  clear hP
  induction f with
  | nil => simp [mapGet] at hin
  | @cons kv p kvs P hx _ ih =>
    obtain ⟨k1, v1⟩ := kv
    have h1 := pairF_some hx
    simp only at h1
    simp only [mapGet, rveq_eq_veq wf hk h1.1] at hin
    simp only [mapPut, rveq_eq_veq wf hk h1.1, rveq_eq_veq wf hk' h1.1, veq_congr_left he]
    split
    · rfl
    · rename_i hne
      rw [← veq_congr_left he] at hne
      simp only [hne, Bool.false_eq_true, if_false] at hin
      rw [ih hin]

/-- the native `contains` on a set cell, for `equals` representatives -/
theorem native_contains_congr {s : State} (wf : HeapOK s) {c : Nat} {xs : List RVal}
    (hc : s.cell c = some (.set xs)) {A : List Val} (hA : xs.mapM (reify s) = some A)
    {a a' : RVal} {va va' : Val} (ha : reify s a = some va) (ha' : reify s a' = some va')
    (he : rveq s a a' = true) :
    runPure "contains" [("obj", .ref c), ("part", a)] s =
      runPure "contains" [("obj", .ref c), ("part", a')] s := by
  rw [native_contains_set hc, native_contains_set hc, memR_congr wf ha ha' he hA]

/-- membership in a set cell is membership (`memV`) in the reified set value -/
theorem memR_set_value {s : State} (wf : HeapOK s) {c : Nat} {xs : List RVal}
    (hc : s.cell c = some (.set xs)) {vs : List Val} (hv : reify s (.ref c) = some (.set vs))
    {x : RVal} {vx : Val} (hx : reify s x = some vx) : memR s x xs = memV vx vs := by
  obtain ⟨A, hA, hm⟩ := reify_set_cell hc hv
  rw [memR_bridge wf hx hA]
  have ok : KeysOK A := wf c _ hc A hA
  rw [mkSet_of_keysOK ok] at hm
  cases hm
  apply Bool.eq_iff_iff.mpr
  rw [memV_eq_true_iff, memV_eq_true_iff]
  constructor
  · rintro ⟨y, hy, h⟩; exact ⟨y, (sortBy_perm' _ A).mem_iff.mpr hy, h⟩
  · rintro ⟨y, hy, h⟩; exact ⟨y, (sortBy_perm' _ A).mem_iff.mp hy, h⟩

/-! ## 4. `less`, `less_equals`, `greater`, `greater_equals`, `compare` -/

theorem native_less_eq {s : State} {a b : RVal} {va vb : Val} (ha : reify s a = some va)
    (hb : reify s b = some vb) :
    runPure "less" [("a", a), ("b", b)] s = some (.ok (.bool (vlt va vb)) s) := native_less ha hb

theorem native_greater_eq {s : State} (wf : HeapOK s) {a b : RVal} {va vb : Val}
    (ha : reify s a = some va) (hb : reify s b = some vb) :
    runPure "greater" [("a", a), ("b", b)] s = some (.ok (.bool (vgtWith decRepr va vb)) s) :=
  native_greater wf ha hb

theorem native_less_equals_eq {s : State} (wf : HeapOK s) {a b : RVal} {va vb : Val}
    (ha : reify s a = some va) (hb : reify s b = some vb) :
    runPure "less_equals" [("a", a), ("b", b)] s = some (.ok (.bool (vleWith decRepr va vb)) s) :=
  native_less_equals wf ha hb

theorem native_greater_equals_eq {s : State} {a b : RVal} {va vb : Val} (ha : reify s a = some va)
    (hb : reify s b = some vb) :
    runPure "greater_equals" [("a", a), ("b", b)] s =
      some (.ok (.bool (vgeWith decRepr va vb)) s) := native_greater_equals ha hb

theorem native_compare_eq {s : State} (wf : HeapOK s) {a b : RVal} {va vb : Val}
    (ha : reify s a = some va) (hb : reify s b = some vb) :
    runPure "compare" [("a", a), ("b", b)] s = some (.ok (.int (compareM decRepr va vb)) s) :=
  native_compare wf ha hb

/-- the answer of `less` as a Boolean (for the statements below) -/
def lessB (s : State) (a b : RVal) : Bool := (rvlt s a b).getD false

theorem lessB_eq {s : State} {a b : RVal} {va vb : Val} (ha : reify s a = some va)
    (hb : reify s b = some vb) : lessB s a b = vlt va vb := by
  simp [lessB, rvlt_eq_vlt ha hb]

theorem less_irrefl {s : State} {a : RVal} {va : Val} (ha : reify s a = some va) :
    lessB s a a = false := by
  rw [lessB_eq ha ha]; exact vlt_irrefl_all decRepr va

theorem less_asymm {s : State} {a b : RVal} {va vb : Val} (ha : reify s a = some va)
    (hb : reify s b = some vb) (hk : SameKind va vb) (h : lessB s a b = true) :
    lessB s b a = false := by
  rw [lessB_eq ha hb] at h
  rw [lessB_eq hb ha]; exact vlt_asymm' decRepr va vb hk h

theorem less_trans {s : State} {a b c : RVal} {va vb vc : Val} (ha : reify s a = some va)
    (hb : reify s b = some vb) (hc : reify s c = some vc) (hab : SameKind va vb)
    (hbc : SameKind vb vc) (hac : SameKind va vc) (h1 : lessB s a b = true)
    (h2 : lessB s b c = true) : lessB s a c = true := by
  rw [lessB_eq ha hb] at h1
  rw [lessB_eq hb hc] at h2
  rw [lessB_eq ha hc]; exact vlt_trans' decRepr va vb vc hab hac hbc h1 h2

/-- inside one kind exactly one of `a < b`, `a == b`, `b < a` holds -/
theorem less_trichotomy {s : State} (wf : HeapOK s) {a b : RVal} {va vb : Val}
    (ha : reify s a = some va) (hb : reify s b = some vb) (hk : SameKind va vb) :
    (lessB s a b = true ∧ rveq s a b = false ∧ lessB s b a = false) ∨
    (lessB s a b = false ∧ rveq s a b = true ∧ lessB s b a = false) ∨
    (lessB s a b = false ∧ rveq s a b = false ∧ lessB s b a = true) := by
  rw [lessB_eq ha hb, lessB_eq hb ha, rveq_eq_veq wf ha hb]
  exact C07.vlt_trichotomy decRepr hk

/-- `equals` values are interchangeable under `less` -/
theorem less_congr_left {s : State} (wf : HeapOK s) {a b c : RVal} {va vb vc : Val}
    (ha : reify s a = some va) (hb : reify s b = some vb) (hc : reify s c = some vc)
    (hab : SameKind va vb) (hac : SameKind va vc) (hbc : SameKind vb vc)
    (he : rveq s a b = true) : lessB s a c = lessB s b c := by
  rw [rveq_eq_veq wf ha hb] at he
  rw [lessB_eq ha hc, lessB_eq hb hc]
  exact Ckl.vlt_congr_left decRepr va vb vc hab hac hbc he

/-- `compare` is -1 / 0 / 1 exactly for `<` / `==` / `>` -/
theorem compare_consistent {s : State} (wf : HeapOK s) {a b : RVal} {va vb : Val}
    (ha : reify s a = some va) (hb : reify s b = some vb) (hk : SameKind va vb) :
    ∃ r, runPure "compare" [("a", a), ("b", b)] s = some (.ok (.int r) s) ∧
      (r = -1 ↔ lessB s a b = true) ∧ (r = 0 ↔ rveq s a b = true) ∧
      (r = 1 ↔ lessB s b a = true) := by
  refine ⟨_, native_compare wf ha hb, ?_, ?_, ?_⟩
  · rw [lessB_eq ha hb]; exact C07.compare_neg_iff decRepr va vb
  · rw [rveq_eq_veq wf ha hb]; exact C07.compare_zero_iff decRepr hk
  · rw [lessB_eq hb ha]; exact C07.compare_pos_iff decRepr hk

/-- `a <= b` is `not (b < a)`, `a > b` is `b < a`, `a >= b` is `b <= a` (inside one kind) -/
theorem derived_consistent {s : State} (wf : HeapOK s) {a b : RVal} {va vb : Val}
    (ha : reify s a = some va) (hb : reify s b = some vb) (hk : SameKind va vb) :
    runPure "less_equals" [("a", a), ("b", b)] s = some (.ok (.bool (!lessB s b a)) s) ∧
    runPure "greater" [("a", a), ("b", b)] s = some (.ok (.bool (lessB s b a)) s) ∧
    runPure "greater_equals" [("a", a), ("b", b)] s = some (.ok (.bool (!lessB s a b)) s) := by
  rw [lessB_eq hb ha, lessB_eq ha hb]
  refine ⟨?_, ?_, ?_⟩
  · rw [native_less_equals wf ha hb, C07.vle_eq_not_gt decRepr hk]; rfl
  · rw [native_greater wf ha hb, C07.vgt_eq_flip decRepr hk]; rfl
  · rw [native_greater_equals ha hb, C07.vge_eq_not_lt]; rfl

/-! ## 5. enumeration order -/

theorem strict_of_sorted {A : List Val} (ok : KeysOK A) :
    (sortBy vlt A).Pairwise (fun a b => vlt a b = true) := by
  have hs : (sortBy vlt A).Pairwise (fun a b => vlt b a = false) :=
    C07.sortedItems_sorted decRepr ok.kind
  have hd : (sortBy vlt A).Pairwise (fun a b => veq a b = false) :=
    pairwise_false_perm (K := veq) (fun a b h => by rw [veq_symm']; exact h)
      (sortBy_perm' vlt A).symm ok.distinct
  refine (hs.and hd).imp_of_mem ?_
  intro a b ha hb h
  have ha' := (sortBy_perm' vlt A).mem_iff.mp ha
  have hb' := (sortBy_perm' vlt A).mem_iff.mp hb
  exact vlt_total' decRepr b a (ok.kind b hb' a ha') (by rw [veq_symm']; exact h.2) h.1

/-- **a `for` loop / comprehension over a set** (`collectionValues`, any `what`) visits a
    permutation of the cell's elements that reifies to the element list of the reified set value,
    and that list is strictly ascending for `<` -/
theorem enum_set {s : State} (wf : HeapOK s) {c : Nat} {xs : List RVal}
    (hc : s.cell c = some (.set xs)) {v : Val} (hv : reify s (.ref c) = some v)
    (what : Option String) (pos : Pos) :
    ∃ ys vs, collectionValues (.ref c) what pos s = .ok ys s ∧ ys.Perm xs ∧ v = .set vs ∧
      ys.mapM (reify s) = some vs ∧ vs.Pairwise (fun a b => vlt a b = true) := by
  obtain ⟨A, hA, rfl⟩ := reify_set_cell hc hv
  have ok : KeysOK A := wf c _ hc A hA
  obtain ⟨ys, h1, h2, h3⟩ := sortedR_bridge hA
  exact ⟨ys, sortBy vlt A, collectionValues_set hc h1 what pos, h2, mkSet_of_keysOK ok, h3,
    strict_of_sorted ok⟩

/-- the same for a spread `...set` -/
theorem spread_set {s : State} (wf : HeapOK s) {c : Nat} {xs : List RVal}
    (hc : s.cell c = some (.set xs)) {v : Val} (hv : reify s (.ref c) = some v) (pos : Pos) :
    ∃ ys vs, spreadValues (.ref c) pos s = .ok ys s ∧ ys.Perm xs ∧ v = .set vs ∧
      ys.mapM (reify s) = some vs ∧ vs.Pairwise (fun a b => vlt a b = true) := by
  obtain ⟨A, hA, rfl⟩ := reify_set_cell hc hv
  have ok : KeysOK A := wf c _ hc A hA
  obtain ⟨ys, h1, h2, h3⟩ := sortedR_bridge hA
  exact ⟨ys, sortBy vlt A, spreadValues_set hc h1 pos, h2, mkSet_of_keysOK ok, h3,
    strict_of_sorted ok⟩

theorem keys_of_reifM {s : State} {kvs : List (RVal × RVal)} {P : List (Val × Val)}
    (hP : kvs.mapM (pairF (reify s)) = some P) :
    (kvs.map (·.1)).mapM (reify s) = some (P.map (·.1)) :=
  forall2_mapM (ReifM.keys (mapM_forall2 hP))

theorem sortedEntries_keys (P : List (Val × Val)) :
    (sortedEntries decRepr P).map (·.1) = sortBy vlt (P.map (·.1)) :=
  sortBy_map (vltWith decRepr) (Prod.fst : Val × Val → Val) P

/-- **a `for` loop over the keys of a map** visits the keys in the order of the entries of the
    reified map value, strictly ascending for `<` -/
theorem enum_map_keys {s : State} (wf : HeapOK s) {c : Nat} {kvs : List (RVal × RVal)}
    (hc : s.cell c = some (.map kvs)) {v : Val} (hv : reify s (.ref c) = some v) (pos : Pos) :
    ∃ ys es, collectionValues (.ref c) (some "keys") pos s = .ok ys s ∧ ys.Perm (kvs.map (·.1)) ∧
      v = .map es ∧ ys.mapM (reify s) = some (es.map (·.1)) ∧
      (es.map (·.1)).Pairwise (fun a b => vlt a b = true) := by
  obtain ⟨P, hP, rfl⟩ := reify_map_cell hc hv
  have ok : KeysOK (P.map (·.1)) := wf c _ hc _ (keys_of_reifM hP)
  obtain ⟨es, h1, h2, h3⟩ := sortedEntriesR_bridge hP
  refine ⟨es.map (·.1), sortedEntries decRepr P, collectionValues_map_keys hc h1 pos, h2.map _,
    mkMap_of_keysOK ok, keys_of_reifM h3, ?_⟩
  rw [sortedEntries_keys]
  exact strict_of_sorted ok

/-! ## 6. what programs print -/

/-- **`string(v)`** of a value that is not a string, NULL or a pattern is `render` of its tree
    value; scalars, set cells and map cells -/
theorem native_string_nonlist {s : State} {v : RVal} {va : Val} (hv : reify s v = some va)
    (h1 : ∀ t, v ≠ .str t) (h2 : v ≠ .null) (h3 : ∀ t, v ≠ .pat t)
    (hl : ∀ a xs, v = .ref a → s.heap[a]? ≠ some (.list xs)) :
    runPure "string" [("obj", v)] s = some (.ok (.str (render va)) s) :=
  native_string hv h1 h2 h3 (rrender_eq_render_nonlist hv hl)

/-- **`string(v)`**, all values, at full strength (was `native_string_partial`) -/
theorem native_string_eq {s : State} {v : RVal} {va : Val} (hv : reify s v = some va)
    (h1 : ∀ t, v ≠ .str t) (h2 : v ≠ .null) (h3 : ∀ t, v ≠ .pat t) :
    runPure "string" [("obj", v)] s = some (.ok (.str (render va)) s) :=
  native_string hv h1 h2 h3 (rrender_bridge hv)

/-- old name, old (weaker) statement; kept as an alias -/
theorem native_string_partial {s : State} {v : RVal} {va : Val}
    (hv : reifyF decRepr s.heap s.heap.size v = some va)
    (h1 : ∀ t, v ≠ .str t) (h2 : v ≠ .null) (h3 : ∀ t, v ≠ .pat t) :
    runPure "string" [("obj", v)] s = some (.ok (.str (render va)) s) :=
  native_string_eq (reifyF_mono decRepr s.heap _ v va hv) h1 h2 h3

theorem forall2_mem_left {α β : Type} {R : α → β → Prop} {xs : List α} {ys : List β}
    (h : List.Forall₂ R xs ys) : ∀ x ∈ xs, ∃ y ∈ ys, R x y := by
  induction h with
  | nil => intro x hx; simp at hx
  | cons hab _ ih =>
    intro x hx
    rcases List.mem_cons.mp hx with rfl | hx
    · exact ⟨_, by simp, hab⟩
    · obtain ⟨y, hy, h⟩ := ih x hx; exact ⟨y, List.mem_cons_of_mem _ hy, h⟩

/-- **canonical rendering for what programs print** (C08 `render_set_perm` through the bridge):
    two set cells holding the same elements in different insertion orders print the same text -/
theorem string_set_perm {s : State} (wf : HeapOK s) {c d : Nat} {xs ys : List RVal}
    (hc : s.cell c = some (.set xs)) (hd : s.cell d = some (.set ys)) (hp : xs.Perm ys)
    {vc : Val} (hvc : reify s (.ref c) = some vc) :
    ∃ txt, runPure "string" [("obj", .ref c)] s = some (.ok (.str txt) s) ∧
      runPure "string" [("obj", .ref d)] s = some (.ok (.str txt) s) := by
  obtain ⟨A, hA, rfl⟩ := reify_set_cell hc hvc
  have ok : KeysOK A := wf c _ hc A hA
  -- the elements of `d` reify to a permutation of `A`
  obtain ⟨B, hB, hAB⟩ : ∃ B, ys.mapM (reify s) = some B ∧ A.Perm B := by
    have hg : ∀ x ∈ xs, reify s x = some ((reify s x).getD .null) := by
      intro x hx
      obtain ⟨v, _, hv⟩ := forall2_mem_left (mapM_forall2 hA) x hx
      simp [hv]
    have e1 := mapM_option_some hg
    rw [hA] at e1
    cases e1
    exact ⟨_, mapM_option_some (fun y hy => hg y (hp.mem_iff.mpr hy)), hp.map _⟩
  have hvd : reify s (.ref d) = some (mkSet decRepr B) := by
    rw [reify_ref_eq]
    unfold State.cell at hd
    rw [hd]
    -- fuel `heap.size` suffices for the elements because it does for those of `c`
    have hc' := hvc
    rw [reify_ref_eq] at hc'
    unfold State.cell at hc
    rw [hc] at hc'
    simp only [cellVal, Option.map_eq_some_iff] at hc'
    obtain ⟨A', hA', _⟩ := hc'
    have hg' : ∀ x ∈ xs, reifyF decRepr s.heap s.heap.size x = some ((reify s x).getD .null) := by
      intro x hx
      obtain ⟨v, _, hv⟩ := forall2_mem_left (mapM_forall2 hA') x hx
      have := reifyF_mono decRepr s.heap _ _ _ hv
      simp only [reify, this, Option.getD_some]; exact hv
    have e2 := mapM_option_some (fun y hy => hg' y (hp.mem_iff.mpr hy))
    simp only [cellVal, e2, Option.map_some]
    have e1 := mapM_option_some (f := reify s) (g := fun x => (reify s x).getD .null)
      (xs := ys) (fun y hy => by
        have := hg' y (hp.mem_iff.mpr hy)
        exact reifyF_mono decRepr s.heap _ _ _ this)
    rw [hB] at e1
    cases e1; rfl
  have hk : A.Pairwise SameKind := by
    have : A.Pairwise (fun _ _ => True) := List.pairwise_of_forall (fun _ _ => trivial)
    exact this.imp_of_mem (fun ha hb _ => ok.kind _ ha _ hb)
  have heq : mkSet decRepr A = mkSet decRepr B := C07.mkSet_perm decRepr hAB hk ok.distinct
  refine ⟨render (mkSet decRepr A), ?_, ?_⟩
  · exact native_string_nonlist hvc (by simp) (by simp) (by simp)
      (fun a l h => by cases h; unfold State.cell at hc; rw [hc]; simp)
  · rw [heq]
    exact native_string_nonlist hvd (by simp) (by simp) (by simp)
      (fun a l h => by cases h; unfold State.cell at hd; rw [hd]; simp)

/-! ## 6b. the evaluator's nodes: `a in c`, `m[k]`, set and map literals -/

/-- **`a in c`** on a set: membership by `veq` among the reified elements -/
theorem in_set_answer (ld : Loader) {fuel : Nat} {env : EnvId} {e cN : Node} {pos : Pos}
    {s s1 s2 : State} {v : RVal} {c : Nat} {xs : List RVal}
    (he : eval ld fuel env e s = .ok v s1) (hcN : eval ld fuel env cN s1 = .ok (.ref c) s2)
    (hc : s2.cell c = some (.set xs)) (wf : HeapOK s2) {vv : Val} (hv : reify s2 v = some vv)
    {A : List Val} (hA : xs.mapM (reify s2) = some A) :
    eval ld (fuel + 1) env (.isIn e cN pos) s = .ok (.bool (memV vv A)) s2 := by
  rw [eval_isIn_set ld he hcN hc, memR_bridge wf hv hA]

/-- `a in c` gives the same answer for `equals` representatives -/
theorem in_set_congr (ld : Loader) {fuel : Nat} {env : EnvId} {e e' cN : Node} {pos : Pos}
    {s s1 s1' s2 : State} {v v' : RVal} {c : Nat} {xs : List RVal}
    (he : eval ld fuel env e s = .ok v s1) (hcN : eval ld fuel env cN s1 = .ok (.ref c) s2)
    (he' : eval ld fuel env e' s = .ok v' s1') (hcN' : eval ld fuel env cN s1' = .ok (.ref c) s2)
    (hc : s2.cell c = some (.set xs)) (wf : HeapOK s2) {vv vv' : Val} (hv : reify s2 v = some vv)
    (hv' : reify s2 v' = some vv') {A : List Val} (hA : xs.mapM (reify s2) = some A)
    (heq : rveq s2 v v' = true) :
    eval ld (fuel + 1) env (.isIn e cN pos) s = eval ld (fuel + 1) env (.isIn e' cN pos) s := by
  rw [eval_isIn_set ld he hcN hc, eval_isIn_set ld he' hcN' hc, memR_congr wf hv hv' heq hA]

/-- **`m[k]`** returns the same entry for `equals` keys -/
theorem index_congr (ld : Loader) {fuel : Nat} {env : EnvId} {e idxN idxN' dflt : Node} {pos : Pos}
    {s s1 s1' s2 : State} {k k' x : RVal} {c : Nat} {kvs : List (RVal × RVal)}
    (hk : eval ld fuel env idxN s = .ok k s1) (he : eval ld fuel env e s1 = .ok (.ref c) s2)
    (hk' : eval ld fuel env idxN' s = .ok k' s1') (he' : eval ld fuel env e s1' = .ok (.ref c) s2)
    (hc : s2.cell c = some (.map kvs)) (wf : HeapOK s2) {vk vk' : Val} (hvk : reify s2 k = some vk)
    (hvk' : reify s2 k' = some vk') {P : List (Val × Val)} (hP : kvs.mapM (pairF (reify s2)) = some P)
    (heq : rveq s2 k k' = true) (hg : mapGet s2 k kvs = some x) :
    eval ld (fuel + 1) env (.deref e idxN dflt pos) s = .ok x s2 ∧
      eval ld (fuel + 1) env (.deref e idxN' dflt pos) s = .ok x s2 := by
  refine ⟨eval_deref_map ld hk he hc hg, eval_deref_map ld hk' he' hc ?_⟩
  rw [← mapGet_congr wf hvk hvk' heq hP]; exact hg

/-- **the set literal** `<<e1, …, en>>`: the new cell never holds two `equals` elements, and the
    result reifies to `mkSet` of the reified items -/
theorem set_literal_spec (ld : Loader) {fuel : Nat} {env : EnvId} {items : List Node} {pos : Pos}
    {s s1 : State} {vs : List RVal} (hi : evalSeq ld fuel env items s = .ok vs s1)
    (wf : HeapOK s1) {I : List Val} (hI : vs.mapM (reify s1) = some I) :
    ∃ L, eval ld (fuel + 1) env (.set items pos) s =
        .ok (.ref s1.heap.size) (s1.alloc (.set L)).1 ∧
      L.Pairwise (fun x y => rveq s1 x y = false) ∧
      reify (s1.alloc (.set L)).1 (.ref s1.heap.size) = some (mkSet decRepr I) := by
  obtain ⟨L, h1, h2, _, h4⟩ := addSet_spec wf hI
  exact ⟨L, by rw [eval_set_lit ld hi, h1], h2, h4⟩

theorem assocOfList_idem (I : List (Val × Val)) : assocOfList (assocOfList I) = assocOfList I :=
  assocOfList_of_pairwise (List.pairwise_map.mp (C06.assocOfList_keys_pairwise I))

/-- **the map literal**: the result reifies to `mkMap` of the reified entries -/
theorem map_literal_spec (ld : Loader) {fuel : Nat} {env : EnvId} {keys values : List Node}
    {pos : Pos} {s s1 : State} {kvs : List (RVal × RVal)}
    (hi : evalPairs ld fuel env keys values s = .ok kvs s1) (wf : HeapOK s1)
    {I : List (Val × Val)} (hI : kvs.mapM (pairF (reify s1)) = some I) :
    ∃ s', eval ld (fuel + 1) env (.map keys values pos) s = .ok (.ref s1.heap.size) s' ∧
      reify s' (.ref s1.heap.size) = some (mkMap decRepr I) := by
  refine ⟨_, eval_map_lit ld hi, ?_⟩
  rw [reify_new_map (mapM_forall2 (foldl_mapPut_bridge wf hI))]
  unfold mkMap
  rw [assocOfList_idem]

/-! ## 7. non-vacuity on a concrete state

  heap of `sEx` (`2/2 = 1.0`, `3/2 = 1.5`, `5/2 = 2.5`):
    0: [1, 1.0]           1: <<1, 1.5>>        2: <<1.5, 1.0>>
    3: [<<1, 1.5>>, [1, 1.0]]                  4: [<<1.5, 1.0>>, [1, 1.0]]
    5: <<<1 => 'a', 2.5 => <<1, 1.5>>>>>       6: <<<2.5 => <<1.5, 1.0>>, 1.0 => 'a'>>>
    7: [1.0, 1]           8: <<[1, 1.0], [2]>> 9: <<[2], [1.0, 1]>>     10: [2]
    11: <<1.5, 1>>  (cell 1 in another insertion order) -/

def sEx : State := { heap := #[
  .list [.int 1, .dec 2 1],
  .set [.int 1, .dec 3 1],
  .set [.dec 3 1, .dec 2 1],
  .list [.ref 1, .ref 0],
  .list [.ref 2, .ref 0],
  .map [(.int 1, .str ['a']), (.dec 5 1, .ref 1)],
  .map [(.dec 5 1, .ref 2), (.dec 2 1, .str ['a'])],
  .list [.dec 2 1, .int 1],
  .set [.ref 0, .ref 10],
  .set [.ref 10, .ref 7],
  .list [.int 2],
  .set [.dec 3 1, .int 1] ] }

theorem sEx_ok : HeapOK sEx := heapOKB_sound (by decide)

-- every cell reifies (so the hypotheses `reify s a = some va` are met)
example : (List.range 12).all (fun a => (reify sEx (.ref a)).isSome) = true := by decide

-- `1` and `1.0` as set elements, nested sets in lists, in maps, lists in sets: `equals` holds and
-- agrees with `veq` on the tree values
example : rveq sEx (.ref 1) (.ref 2) = true ∧ rveq sEx (.ref 3) (.ref 4) = true ∧
    rveq sEx (.ref 5) (.ref 6) = true ∧ rveq sEx (.ref 8) (.ref 9) = true ∧
    rveq sEx (.ref 0) (.ref 10) = false ∧ rveq sEx (.ref 1) (.ref 0) = false := by decide
example : (do let a ← reify sEx (.ref 8); let b ← reify sEx (.ref 9); pure (veq a b)) = some true := by
  decide
example : ∃ va vb, reify sEx (.ref 5) = some va ∧ reify sEx (.ref 6) = some vb ∧
    rveq sEx (.ref 5) (.ref 6) = veq va vb :=
  ⟨_, _, rfl, rfl, rveq_bridge sEx_ok rfl rfl⟩

-- `1` vs `1.0` as a member and as a map key
example : memR sEx (.dec 2 1) [.int 1, .dec 3 1] = true ∧ memR sEx (.int 1) [.dec 3 1, .dec 2 1] = true := by
  decide
example : mapGet sEx (.dec 2 1) [(.int 1, .str ['a']), (.dec 5 1, .ref 1)] = some (.str ['a']) := by
  rfl
example : mapPut sEx (.dec 2 1) (.str ['b']) [(.int 1, .str ['a'])] = [(.int 1, .str ['b'])] := by rfl
example : setAdd sEx (.dec 2 1) [.int 1, .dec 3 1] = [.int 1, .dec 3 1] := by rfl
example : (sortedR sEx [.dec 3 1, .dec 2 1, .int 0]) = some [.int 0, .dec 2 1, .dec 3 1] := by rfl
example : rveq sEx (.int 1) (.dec 2 1) = true ∧ rveq sEx (.int 1) (.dec 3 1) = false ∧
    rveq sEx (.int 1) (.str ['1']) = false := by decide

-- the theorems instantiated on `sEx`
example : rveq sEx (.ref 1) (.ref 1) = true := equals_refl sEx_ok (a := .ref 1) rfl
example : rveq sEx (.ref 8) (.ref 9) = rveq sEx (.ref 9) (.ref 8) :=
  equals_symm sEx_ok (a := .ref 8) (b := .ref 9) rfl rfl
example : rveq sEx (.ref 1) (.ref 11) = true :=
  equals_trans sEx_ok (a := .ref 1) (b := .ref 2) (c := .ref 11) rfl rfl rfl (by decide) (by decide)
example : rveq sEx (.ref 1) (.ref 0) = false :=
  equals_cross_kind sEx_ok (a := .ref 1) (b := .ref 0) rfl rfl (by decide)
example : memR sEx (.int 1) [.dec 3 1, .dec 2 1] = memR sEx (.dec 2 1) [.dec 3 1, .dec 2 1] :=
  memR_congr sEx_ok (a := .int 1) (a' := .dec 2 1) rfl rfl (by decide) rfl
example : mapGet sEx (.int 1) [(.dec 5 1, .ref 2), (.dec 2 1, .str ['a'])] =
    mapGet sEx (.dec 2 1) [(.dec 5 1, .ref 2), (.dec 2 1, .str ['a'])] :=
  mapGet_congr sEx_ok (k := .int 1) (k' := .dec 2 1) rfl rfl (by decide) rfl
example := native_contains_congr sEx_ok (c := 2) (a := .int 1) (a' := .dec 2 1) rfl rfl rfl rfl
  (by decide)
-- lists are one ordered kind: `[1, 1.0] == [1.0, 1] < [2]`
example := less_trichotomy sEx_ok (a := .ref 0) (b := .ref 7) rfl rfl (by simp [SameKind, SameKindL])
example : lessB sEx (.ref 0) (.ref 7) = false ∧ lessB sEx (.ref 7) (.ref 10) = true ∧
    rveq sEx (.ref 0) (.ref 7) = true := by decide
example := compare_consistent sEx_ok (a := .ref 7) (b := .ref 10) rfl rfl (by simp [SameKind, SameKindL])
example := derived_consistent sEx_ok (a := .ref 7) (b := .ref 10) rfl rfl (by simp [SameKind, SameKindL])
example := less_trans (s := sEx) (a := .int 1) (b := .dec 3 1) (c := .int 2) rfl rfl rfl
  (by simp [SameKind]) (by simp [SameKind]) (by simp [SameKind]) (by decide) (by decide)
-- enumeration of `<<1.5, 1.0>>` visits `1.0, 1.5`; of the keys of cell 6 `1.0, 2.5`
example := enum_set sEx_ok (c := 2) rfl rfl none {}
example : collectionValues (.ref 2) none {} sEx = .ok [.dec 2 1, .dec 3 1] sEx := rfl
example := spread_set sEx_ok (c := 2) rfl rfl {}
example := enum_map_keys sEx_ok (c := 6) rfl rfl {}
example : collectionValues (.ref 6) (some "keys") {} sEx = .ok [.dec 2 1, .dec 5 1] sEx := rfl
-- building a set from `1, 1.0, 1.5` keeps the resident `1`
example := addSet_spec sEx_ok (items := [.int 1, .dec 2 1, .dec 3 1]) rfl
example : [RVal.int 1, .dec 2 1, .dec 3 1].foldl (fun acc x => setAdd sEx x acc) [] =
    [.int 1, .dec 3 1] := rfl
example := append_set_distinct sEx_ok (x := .dec 2 1) (xs := [.int 1, .dec 3 1]) rfl rfl (by decide)
-- printing: cells 1 and 11 hold the same elements in different insertion orders
example := string_set_perm sEx_ok (c := 1) (d := 11) rfl rfl
  (List.Perm.swap (RVal.dec 3 1) (RVal.int 1) []) rfl
example := native_string_nonlist (s := sEx) (v := .ref 5) rfl (by simp) (by simp) (by simp)
  (by intro a xs h; cases h; simp [sEx])
example := native_string_partial (s := sEx) (v := .ref 3) rfl (by simp) (by simp) (by simp)
example := native_string_eq (s := sEx) (v := .ref 3) rfl (by simp) (by simp) (by simp)
example := rrender_bridge (s := sEx) (v := .ref 4) rfl
#guard (rrender sEx (.ref 3)).map String.ofList == some "[<<1, 1.5>>, [1, 1.0]]"
#guard (rrender sEx (.ref 5)).map String.ofList == some "<<<1 => 'a', 2.5 => <<1, 1.5>> >>>"
#guard (rrender sEx (.ref 1)) == (rrender sEx (.ref 11))

/-! ## 8. the condition `HeapOK` is needed (witnesses)

  * `sBad`: a set cell holding `1` and `1.0` (cannot be built by `setAdd`) against `<<1>>`:
    `rveq` says different (lengths), the tree values are equal.
  * `sMix`: a set of mixed kinds (`10`, a date, `3`): `<` across kinds compares rendered text and
    is not transitive (`10 < 20240101000000 < 3 < 10`), so the stored order of the tree value
    depends on the insertion order: `rveq` says equal (as CPython's `set.__eq__` does), the tree
    values differ.
  * `sSS`: sets of sets with `1` / `1.0`: sets are ordered by rendered text, `<<1>>` and `<<1.0>>`
    are equal but render differently; again `rveq` says equal and the tree values differ.
  In the last two cases the heap-level answer is the interpreter's; the tree-level theorems of
  C06 (`veq` on `.set`) describe the interpreter only on well-formed (`KeysOK`) sets. -/

def sBad : State := { heap := #[.set [.int 1, .dec 2 1], .set [.int 1]] }
def D0 : DT := { y := 2024, mo := 1, d := 1, h := 0, mi := 0, s := 0, us := 0 }
def sMix : State := { heap := #[.set [.int 10, .date D0, .int 3], .set [.int 3, .int 10, .date D0]] }
def sSS : State := { heap := #[.set [.int 1], .set [.dec 3 1], .set [.dec 2 1],
  .set [.ref 0, .ref 1], .set [.ref 2, .ref 1]] }

example : rveq sBad (.ref 0) (.ref 1) = false ∧
    (do let a ← reify sBad (.ref 0); let b ← reify sBad (.ref 1); pure (veq a b)) = some true := by
  decide
example : rveq sMix (.ref 0) (.ref 1) = true ∧
    (do let a ← reify sMix (.ref 0); let b ← reify sMix (.ref 1); pure (veq a b)) = some false := by
  decide
example : rveq sSS (.ref 3) (.ref 4) = true := by decide
-- (the tree side renders decimals with `decRepr`, whose loops `decide` does not unfold: evaluated)
#guard (do let a ← reify sSS (.ref 3); let b ← reify sSS (.ref 4); pure (veq a b)) == some false
example : heapOKB sBad = false ∧ heapOKB sMix = false := by decide
#guard heapOKB sSS == false

/-! ### `HeapClosed` is needed for `heapOK_alloc` (witness), and holds on `sEx` -/

def sDang : State := { heap := #[.set [.ref 1, .ref 1]] }

example : heapOKB sDang = true ∧ heapOKB (sDang.alloc (.list [])).1 = false := by decide
-- after the allocation cell 0 reifies with two equal elements: not `KeysOK`
example : ¬ HeapOK (sDang.alloc (.list [])).1 := by
  intro h
  have := (h 0 (.set [.ref 1, .ref 1]) rfl [.list [], .list []] rfl).distinct
  rw [List.pairwise_cons] at this
  exact absurd (this.1 (.list []) (by simp)) (by decide)

/-- executable check of `HeapClosed` -/
def refBelowB (N : Nat) : RVal → Bool
  | .ref a => decide (a < N)
  | _ => true

def cellClosedB (N : Nat) : Cell → Bool
  | .list xs => xs.all (refBelowB N)
  | .set xs => xs.all (refBelowB N)
  | .map kvs => kvs.all (fun kv => refBelowB N kv.1 && refBelowB N kv.2)
  | _ => true

theorem refBelowB_sound {N : Nat} {v : RVal} (h : refBelowB N v = true) : RefBelow N v := by
  cases v <;> simp_all [refBelowB, RefBelow]

theorem heapClosedB_sound {s : State} (h : s.heap.toList.all (cellClosedB s.heap.size) = true) :
    HeapClosed s := by
  intro a c hc
  have hm : c ∈ s.heap.toList := Array.mem_toList_iff.mpr (Array.mem_of_getElem? hc)
  have hb := List.all_eq_true.mp h c hm
  cases c <;> simp only [cellClosedB, List.all_eq_true, Bool.and_eq_true] at hb <;>
    simp only [CellClosed]
  · exact fun x hx => refBelowB_sound (hb x hx)
  · exact fun x hx => refBelowB_sound (hb x hx)
  · exact fun kv hkv => ⟨refBelowB_sound (hb kv hkv).1, refBelowB_sound (hb kv hkv).2⟩

theorem sEx_closed : HeapClosed sEx := heapClosedB_sound (by decide)

-- the allocation theorems instantiated on `sEx`
example := heapOK_addSet sEx_ok sEx_closed (items := [.int 1, .dec 2 1, .dec 3 1]) rfl
  (by intro a ha b hb; simp at ha hb; rcases ha with rfl | rfl | rfl <;>
      rcases hb with rfl | rfl | rfl <;> simp [SameKind])
example := heapOK_newList sEx_ok sEx_closed (xs := [.ref 1, .int 3])
  (by intro x hx; simp at hx; rcases hx with rfl | rfl <;> simp [RefBelow, sEx])
example := heapOK_empty_set sEx_ok sEx_closed
example : reifyF decRepr sEx.heap sEx.heap.size (.ref 3) = reify sEx (.ref 3) :=
  (reify_fuel_indep sEx (Nat.le_refl _) (Nat.le_succ _) _)

end Ckl.C06Eval
