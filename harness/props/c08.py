"""C08 Rendering is canonical and data literals round-trip through print and parse."""
import itertools
import re

from harness import core, proto, genvalues as G, session
from harness.props import common
from harness.props.c06 import ref_eq


def has_bad_pattern(av):
    """patterns whose text contains '//' or ends in '/' have no literal form (known finding C08:pattern-slashes)"""
    t = av[0]
    if t == 'p':
        return "//" in av[1] or av[1].endswith("/") or av[1] == ""
    if t in ('l', 'S'):
        return any(has_bad_pattern(x) for x in av[1])
    if t == 'm':
        return any(has_bad_pattern(k) or has_bad_pattern(v) for k, v in av[1])
    return False


def has_dates(av):
    t = av[0]
    if t == 'dt':
        return True
    if t in ('l', 'S'):
        return any(has_dates(x) for x in av[1])
    if t == 'm':
        return any(has_dates(k) or has_dates(v) for k, v in av[1])
    return False


def has_equal_distinct(av):
    """a set / map holding two equal-but-distinct numbers would be deduplicated; the surviving representative
    depends on insertion order (known finding C08:int-decimal-equal-pair)"""
    t = av[0]
    if t == 'S':
        xs = av[1]
        for i in range(len(xs)):
            for j in range(i + 1, len(xs)):
                if ref_eq(xs[i], xs[j]) and proto.canon(xs[i]) != proto.canon(xs[j]):
                    return True
        return any(has_equal_distinct(x) for x in xs)
    if t == 'm':
        ks = [k for k, _ in av[1]]
        for i in range(len(ks)):
            for j in range(i + 1, len(ks)):
                if ref_eq(ks[i], ks[j]) and proto.canon(ks[i]) != proto.canon(ks[j]):
                    return True
        return any(has_equal_distinct(k) or has_equal_distinct(v) for k, v in av[1])
    if t == 'l':
        return any(has_equal_distinct(x) for x in av[1])
    return False


def has_null_key(av):
    """a map with the key NULL renders `NULL => v`; a bare identifier key of a map literal is read back as
    the STRING 'NULL' (known finding C08:map-null-key)"""
    t = av[0]
    if t == 'm':
        return any(k == ('null',) or has_null_key(k) or has_null_key(v) for k, v in av[1])
    if t in ('l', 'S'):
        return any(has_null_key(x) for x in av[1])
    return False


def has_dup_keys(av):
    """maps / sets given with two equal keys / elements: the later entry wins, so another insertion order is another value"""
    t = av[0]
    if t == 'm':
        ks = [k for k, _ in av[1]]
        if any(ref_eq(ks[i], ks[j]) for i in range(len(ks)) for j in range(i + 1, len(ks))):
            return True
        return any(has_dup_keys(k) or has_dup_keys(v) for k, v in av[1])
    if t in ('l', 'S'):
        return any(has_dup_keys(x) for x in av[1])
    return False


def shuffled(av, rng):
    t = av[0]
    if t == 'l':
        return ('l', tuple(shuffled(x, rng) for x in av[1]))
    if t == 'S':
        xs = [shuffled(x, rng) for x in av[1]]
        rng.shuffle(xs)
        return ('S', tuple(xs))
    if t == 'm':
        kvs = [(shuffled(k, rng), shuffled(v, rng)) for k, v in av[1]]
        rng.shuffle(kvs)
        return ('m', tuple(kvs))
    return av


ADVERSARIAL_STRINGS = ["", "'", '"', "\\", "\\\\", "\\'", "a'b", 'a"b', "\n", "\r", "\t", "\r\n", "#", "# c", "//", "a//b", "{x}", "}", "é", "€", "\U0001F600", "\x00",
                       "\x01\x1f", "\\n", "\\x41", "\\x", "x\\", "'''", " ", "  a  ", "<<", ">>>", "=>", "end", "TRUE", "NULL", "1", "-1", "1.5", "[1]", "a\\'b", "\\\\'",
                       "tab\there", "nul\x00l", "\x7f", " ", "﻿"]


def gen_history(rng):
    """a container changed step by step through every mutating form, observed (rendered, spread, enumerated, compared) in between;
    returns (program, expected final rendering) with the expectation computed from a plain reference state"""
    kind = rng.choice(["map", "map", "set", "list"])
    keykind = rng.choice(["int", "str"])

    def key():
        return ('i', rng.choice([-20, -1, 0, 1, 2, 8, 9, 16, 100])) if keykind == "int" else ('s', rng.choice(["a", "b", "ab", "B", "", "z", "k1", "k0"]))

    def val():
        return rng.choice([('i', rng.randint(0, 9)), ('s', 'v'), ('null',), ('l', (('i', 1),))])
    lines = []
    observers = {"map": ["string(x)", "[...x]", "for k_ in keys x do k_ end", "length(x)", "x == x", "[e_ for e_ in entries x]", "print(x)", "sorted([...x])"],
                 "set": ["string(x)", "[...x]", "for k_ in x do k_ end", "length(x)", "list(x)", "print(x)", "<<e_ for e_ in x>>"],
                 "list": ["string(x)", "[...x]", "for k_ in x do k_ end", "length(x)", "print(x)"]}[kind]
    if kind == "map":
        state = {}
        lines.append("def x = <<<>>>")
        for _ in range(rng.randint(3, 12)):
            op = rng.choice(["idx", "idx", "put", "remove", "observe", "observe"])
            if op == "idx":
                k, v = key(), val()
                state[k] = v
                lines.append(f"x[{proto.show(k)}] = {proto.show(v)}")
            elif op == "put":
                k, v = key(), val()
                state[k] = v
                lines.append(f"put(x, {proto.show(k)}, {proto.show(v)})")
            elif op == "remove" and state:
                k = rng.choice(list(state))
                del state[k]
                lines.append(f"remove(x, {proto.show(k)})")
            else:
                lines.append(rng.choice(observers))
        final = ('m', tuple(state.items()))
    elif kind == "set":
        state = set()
        lines.append("def x = <<>>")
        for _ in range(rng.randint(3, 12)):
            op = rng.choice(["append", "append", "remove", "observe", "observe"])
            if op == "append":
                k = key()
                state.add(k)
                lines.append(f"append(x, {proto.show(k)})")
            elif op == "remove" and state:
                k = rng.choice(sorted(state))
                state.discard(k)
                lines.append(f"remove(x, {proto.show(k)})")
            else:
                lines.append(rng.choice(observers))
        final = ('S', tuple(state))
    else:
        state = []
        lines.append("def x = []")
        for _ in range(rng.randint(3, 12)):
            op = rng.choice(["append", "append", "insert", "delete", "set", "observe", "observe"])
            if op == "append":
                v = val()
                state.append(v)
                lines.append(f"append(x, {proto.show(v)})")
            elif op == "insert":
                v, i = val(), rng.randint(0, len(state))
                state.insert(i, v)
                lines.append(f"insert_at(x, {i}, {proto.show(v)})")
            elif op == "delete" and state:
                i = rng.randrange(len(state))
                del state[i]
                lines.append(f"delete_at(x, {i})")
            elif op == "set" and state:
                v, i = val(), rng.randrange(len(state))
                state[i] = v
                lines.append(f"x[{i}] = {proto.show(v)}")
            else:
                lines.append(rng.choice(observers))
        final = ('l', tuple(state))
    return "; ".join(lines) + "; string(x)", final


def run(ctx):
    from ckl import values as V
    rng = ctx.rng
    ctx.rule = ("generated data values to depth 3 (adversarial strings with quotes, backslashes, control characters, #, //, braces, non-ASCII; "
                "negative numbers; decimals across all binades by bit pattern; empty and nested collections): str(v), evaluation of the text, "
                "equality, type and re-rendering; all insertion orders of up to 5 elements render identically; maps, sets and lists changed step by step "
                "through every mutating form (element assignment, put, append, insert_at, delete_at, remove) and rendered / spread / enumerated in "
                "between, the final text compared with the rendering of the value; model render vs implementation; "
                "non-trivial = a container or a string/decimal needing escaping / exponent handling")
    values = []
    for s in ADVERSARIAL_STRINGS:
        values.append(('s', s))
    for x in G.INTS:
        values += [('i', x), ('i', -x)]
    for x in G.FLOATS:
        values += [('d', x), ('d', -x)] if x != 0 else [('d', x)]
    values += [('null',), ('b', True), ('b', False), ('l', ()), ('S', ()), ('m', ()), ('S', (('S', ()),)), ('m', ((('S', ()), ('m', ())),)),
               ('S', (('m', ((('i', 1), ('S', (('i', 2),))),)),)), ('l', (('S', (('l', ()),)),)), ('p', 'a+'), ('p', '[a-z]*'), ('p', '\\d+')]
    n_rand = 30000 if ctx.thorough else 6000
    while len(values) < len(ADVERSARIAL_STRINGS) + 150 + n_rand:
        v = G.rand_value(rng, depth=3, kinds=["null", "b", "i", "d", "s", "p"])
        if G.is_negzero(v):
            continue
        values.append(v)
    for _ in range(10000 if ctx.thorough else 2000):
        values.append(('d', G.rand_float(rng)))
        values.append(('s', "".join(rng.choice(G.ALPHABET + ["\\", "'", "\n", "x", "4", "1"]) for _ in range(rng.randint(0, 8)))))
    # decimals whose two shortest digit strings are equally near (the repr tie rule): k + 0.25 / 0.75 where the spacing is 0.25
    for _ in range(600 if ctx.thorough else 150):
        k = rng.randrange(2 ** 50, 2 ** 51)
        values.append(('d', rng.choice([1, -1]) * (k + rng.choice([0.25, 0.75]))))
    values.append(('d', 2214702772090829.75))
    # negative zero: equal to 0.0 but rendered '-0.0' (that half is the recorded finding C08:negative-zero); its text must still read
    # back to a value that renders the same text again
    values += [('d', -0.0), ('l', (('d', -0.0), ('i', 1))), ('m', ((('s', 'k'), ('d', -0.0)),)), ('l', (('l', (('d', -0.0),)),))]
    it, _ = common.fresh_interpreter(True, False)
    reqs, meta = [], []
    for av in values:
        if has_bad_pattern(av) or has_dates(av):
            ctx.count("skipped_no_literal_form")
            continue
        if has_null_key(av):
            ctx.count("skipped_known_finding_map_null_key")
            continue
        nontriv = av[0] in ('l', 'S', 'm') or (av[0] == 's' and re.search(r"['\\\n\r\t]", av[1]) is not None) or (av[0] == 'd')
        ctx.seen(proto.canon(av), nontrivial=nontriv)
        v = proto.to_ckl(av)
        text = str(v)
        rp = {"op": "roundtrip", "value": proto.to_sx(av), "text": text}
        # the text form: ints are integer numerals, decimals have a fraction, strings are quoted
        if av[0] == 'i' and not re.fullmatch(r"-?\d+", text):
            ctx.violation("oracle", f"int {av[1]} renders as {text!r}", rp)
        if av[0] == 'd' and not re.fullmatch(r"-?\d+\.\d+", text):
            ctx.violation("oracle", f"decimal {av[1]!r} renders as {text!r} (not a numeral with a fractional part)", rp)
        if av[0] == 's' and not (text.startswith("'") and text.endswith("'")):
            ctx.violation("oracle", f"string renders without quotes: {text!r}", rp)
        # there is ONE text form: what the language's own conversions produce for the value (string(v), string + v, print(v)) is the same text
        it.environment.put("v_", v)
        for form, expect in (("string(v_)", text), ("'' + v_", text), ("'<' + v_ + '>'", "<" + text + ">")):
            if av[0] in ('null', 'p'):
                break               # string(NULL) is '', string(pattern) is the pattern's source: conversions, not renderings
            if av[0] in ('l', 'S', 'm') and form != "string(v_)":
                continue            # `+` with a collection / NULL is not concatenation
            if av[0] == 's' and form != "string(v_)":
                expect = expect.replace(text, av[1])       # a string concatenates as itself, without quotes
            o_ = common.run_program(it, form, "c08")
            ctx.count("language_level_texts")
            want_ = av[1] if (av[0] == 's' and form == "string(v_)") else expect
            if o_[0] != 'val' or getattr(o_[2], "value", None) != want_:
                ctx.violation("oracle", f"`{form}` of {proto.show(av)[:120]} gives {str(o_[2])[:160] if o_[0] == 'val' else o_[:2]}, the text form of the value is {want_[:160]!r}", rp)
                break
        out = common.run_program(it, text, "c08")
        if out[0] != 'val':
            ctx.violation("oracle", f"the rendering {text[:200]!r} of {proto.show(av)[:120]} does not evaluate: {out[:3]}", rp)
            continue
        back = out[2]
        try:
            bav = proto.from_ckl(back)
        except proto.NotData as e:
            ctx.violation("oracle", f"evaluating the rendering of {proto.show(av)[:120]} yields a non-data value ({e})", rp)
            continue
        if not (back == v) or not (v == back) or back.type() != v.type() or not ref_eq(av, bav):
            ctx.violation("oracle", f"round trip of {proto.show(av)[:160]} through {text[:160]!r} yields {proto.show(bav)[:160]} (type {back.type()})", rp)
        elif str(back) != text:
            ctx.violation("oracle", f"re-rendering after the round trip differs: {str(back)[:160]!r} vs {text[:160]!r}", rp)
        # canonical: other insertion orders render identically (unless equal-but-distinct representatives are involved)
        if av[0] in ('l', 'S', 'm') and not has_equal_distinct(av) and not has_dup_keys(av):
            for _ in range(3):
                other = shuffled(av, rng)
                t2 = str(proto.to_ckl(other))
                ctx.count("insertion_orders")
                if t2 != text:
                    ctx.violation("oracle", f"equal values render differently by construction order: {text[:160]!r} vs {t2[:160]!r}", dict(rp, other=proto.to_sx(other)))
        if G.is_negzero(av):
            continue            # the model's decimals are exact dyadic rationals: no signed zero
        reqs.append(f"(render {proto.to_sx(av)})")
        meta.append((av, text))
    # all insertion orders of up to 5 elements
    elems = [('i', 3), ('s', 'b'), ('s', "a'"), ('d', 2.5), ('i', -1), ('null',), ('b', True), ('l', (('i', 1),))]
    for k in range(2, 6):
        for _ in range(8 if ctx.thorough else 3):
            pick = rng.sample(elems, k)
            texts = set()
            for perm in itertools.permutations(pick):
                texts.add(str(proto.to_ckl(('S', tuple(perm)))))
                texts.add("M" + str(proto.to_ckl(('m', tuple((x, ('i', i)) for i, x in enumerate(perm)))))[:0] or "")
                ctx.seen(("perm", perm))
            maps = {str(proto.to_ckl(('m', tuple((x, x) for x in perm)))) for perm in itertools.permutations(pick)}
            sets = {str(proto.to_ckl(('S', tuple(perm)))) for perm in itertools.permutations(pick)}
            if len(sets) != 1 or len(maps) != 1:
                ctx.violation("oracle", f"insertion orders of {[proto.show(x) for x in pick]} give {len(sets)} set renderings / {len(maps)} map renderings",
                              {"op": "insertion-orders", "items": [proto.to_sx(x) for x in pick]})
    # ---------------- the text depends only on the value: containers changed step by step and observed in between
    from harness import session
    hist = [gen_history(rng) for _ in range(3000 if ctx.thorough else 600)]
    hreqs = [session.model_request([src]) for src, _ in hist] if ctx.build.ok else []
    hresp = core.run_driver(hreqs) if hreqs else []
    impl = session.ImplSession()
    try:
        for k, (src, final) in enumerate(hist):
            impl.it.environment.map.clear()
            out, printed, _ = impl.run(src)
            ctx.seen(("history", src), nontrivial=True)
            ctx.count("mutation_histories")
            want = ('val', ('s', str(proto.to_ckl(final))))
            if out[:2] != want:
                ctx.violation("oracle", f"after the history `{src}` the container renders as {out[:2]}, its value renders as {want[1][1]!r}",
                              {"op": "program", "src": src, "expected": want[1][1]})
            if hresp:
                model, _g = session.parse_model_session(hresp[k])
                m = model[0]
                if m[0][0] == 'fail':
                    ctx.count("model_abstains")
                    continue
                d = session.compare((out, printed, ()), (m[0], m[1], ()))
                if d:
                    ctx.disagreements += 1
                    ctx.violation("correspondence", f"`{src}`: {d}", {"op": "program", "src": src, "correspondence": "Ckl.eval + Ckl.render vs Interpreter.interpret"})
    finally:
        impl.close()
    # ---------------- model render vs implementation
    if ctx.build.ok:
        resp = core.run_driver(reqs)
        for r, (av, text) in zip(resp, meta):
            x = proto.parse_sx(r)
            ctx.count("model_renders")
            if x[0] != "ok":
                raise RuntimeError("driver: " + r[:200])
            m = proto.sx_string(x[1])
            if m != text:
                ctx.disagreements += 1
                ctx.violation("correspondence", f"model render {m[:120]!r}, implementation {text[:120]!r} for {proto.show(av)[:120]}",
                              {"op": "render", "value": proto.to_sx(av), "correspondence": "Ckl.render (incl. decRepr) vs Value.__repr__"})
        # the model front end reads the text back to the literal (scalars, lists) — same AST as the implementation is covered by C01;
        # here: parse of the rendered text succeeds in the model too
        preqs = ["(parsesrc s:" + proto.enc_str(text) + ")" for _, text in meta[:400]]
        presp = core.run_driver(preqs)
        for r, (av, text) in zip(presp, meta[:400]):
            ctx.count("model_parses")
            if not r.startswith("(ast "):
                ctx.disagreements += 1
                ctx.violation("correspondence", f"the model front end rejects the rendering {text[:120]!r}", {"op": "parse-render", "text": text,
                              "correspondence": "Ckl.parseScript on rendered text"})
    ctx.sample({"value": "1e16", "text": "10000000000000000.0"})
    ctx.sample({"value": "<< <<>> >>", "text": "<< <<>> >>"})
    ctx.sample({"value": "'a\\'b\\n'", "roundtrip": True})
    common.replay_known(ctx)


def replay(ctx, payload):
    return common.generic_replay(ctx, payload)
