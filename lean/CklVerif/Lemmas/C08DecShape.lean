/-
  C08Dec — shape lemmas: the digit strings produced by `out` / `layout` (the last steps of
  `decRepr`) and how `parseDecimal` reads a token `digits '.' digits`.  Mathlib-free.
-/
import CklVerif.Lemmas.C08DecDefs
import CklVerif.Lemmas.C08Parser
import CklVerif.Lemmas.C08Lexer
namespace Ckl.C08D
open Ckl Ckl.Parser Ckl.Lexer

/-! ## 1. `digitsVal` -/

theorem digitsVal_foldl (acc : Nat) (l : List Char) :
    l.foldl (fun acc c => acc * 10 + (c.toNat - 48)) acc = acc * 10 ^ l.length + digitsVal l := by
  unfold digitsVal
  induction l generalizing acc with
  | nil => simp
  | cons c cs ih =>
    rw [List.foldl_cons, List.foldl_cons, ih, ih (0 * 10 + (c.toNat - 48))]
    rw [List.length_cons, Nat.pow_succ, Nat.zero_mul, Nat.zero_add, Nat.add_mul, Nat.add_assoc,
      Nat.mul_assoc, Nat.mul_comm 10]

theorem digitsVal_append (a b : List Char) :
    digitsVal (a ++ b) = digitsVal a * 10 ^ b.length + digitsVal b := by
  conv => lhs; unfold digitsVal
  rw [List.foldl_append, digitsVal_foldl]
  rfl

theorem digitsVal_replicate_zero (n : Nat) : digitsVal (List.replicate n '0') = 0 := by
  induction n with
  | zero => rfl
  | succ n ih =>
    rw [List.replicate_succ]
    have := digitsVal_append ['0'] (List.replicate n '0')
    rw [List.singleton_append] at this
    rw [this, ih]
    show 0 * 10 ^ (List.replicate n '0').length + 0 = 0
    omega

/-! ## 2. `strip0`, `out` -/

theorem mem_takeWhile_pos (q : Char → Bool) (l : List Char) :
    ∀ c ∈ l.takeWhile q, q c = true := by
  induction l with
  | nil => intro c hc; cases hc
  | cons x xs ih =>
    intro c hc
    by_cases hx : q x = true
    · rw [List.takeWhile_cons_of_pos hx] at hc
      rcases List.mem_cons.mp hc with h | h
      · rw [h]; exact hx
      · exact ih c h
    · rw [List.takeWhile_cons_of_neg hx] at hc; cases hc

theorem strip0_spec (ds : List Char) :
    ∃ z, ds = strip0 ds ++ List.replicate z '0' ∧
      (strip0 ds = [] ∨ (strip0 ds).getLast? ≠ some '0') := by
  refine ⟨(ds.reverse.takeWhile (· = '0')).length, ?_, ?_⟩
  · unfold strip0
    have h1 : ds.reverse = ds.reverse.takeWhile (· = '0') ++ ds.reverse.dropWhile (· = '0') :=
      (List.takeWhile_append_dropWhile).symm
    have h2 : ds.reverse.takeWhile (· = '0') =
        List.replicate (ds.reverse.takeWhile (· = '0')).length '0' := by
      rw [List.eq_replicate_iff]
      refine ⟨rfl, ?_⟩
      intro c hc
      have := mem_takeWhile_pos _ _ c hc
      simpa using this
    have h3 : ds = ds.reverse.reverse := (List.reverse_reverse ds).symm
    rw [h1, List.reverse_append] at h3
    conv => lhs; rw [h3]
    congr 1
    conv => lhs; rw [h2]
    rw [List.reverse_replicate]
  · unfold strip0
    right
    rw [List.getLast?_reverse]
    intro h
    have := List.head?_dropWhile_not (fun c => decide (c = '0')) ds.reverse
    rw [h] at this
    simp at this

theorem toDigits_ne_nil (n : Nat) : Nat.toDigits 10 n ≠ [] := Nat.toDigits_ne_nil

theorem toDigits_strip0_ne_nil (p : Nat) (hp : 0 < p) : strip0 (Nat.toDigits 10 p) ≠ [] := by
  intro h
  obtain ⟨z, hz, _⟩ := strip0_spec (Nat.toDigits 10 p)
  rw [h, List.nil_append] at hz
  have := Ckl.C08.digitsVal_toDigits p
  rw [hz, digitsVal_replicate_zero] at this
  omega

theorem out_spec (k : Int) (n p : Nat) (hp : 0 < p) :
    ∃ z, Nat.toDigits 10 p = (out k n p).1 ++ List.replicate z '0' ∧ (out k n p).1 ≠ [] ∧
      (∀ c ∈ (out k n p).1, c ∈ digits) ∧ digitsVal (out k n p).1 * 10 ^ z = p ∧
      (out k n p).2 = k + ((((out k n p).1.length + z : Nat) : Int) - (n : Int)) := by
  have hne := toDigits_strip0_ne_nil p hp
  obtain ⟨z, hz, _⟩ := strip0_spec (Nat.toDigits 10 p)
  have h1 : (out k n p).1 = strip0 (Nat.toDigits 10 p) := by
    simp only [out, if_neg hne]
  have h2 : (out k n p).2 = k + (((Nat.toDigits 10 p).length : Int) - (n : Int)) := rfl
  refine ⟨z, ?_, ?_, ?_, ?_, ?_⟩
  · rw [h1]; exact hz
  · rw [h1]; exact hne
  · rw [h1]
    intro c hc
    apply toDigits_mem_digits p
    rw [hz]; exact List.mem_append_left _ hc
  · rw [h1]
    have := Ckl.C08.digitsVal_toDigits p
    rw [hz, digitsVal_append, digitsVal_replicate_zero, List.length_replicate, Nat.add_zero] at this
    exact this
  · rw [h2, h1]
    have : (Nat.toDigits 10 p).length = (strip0 (Nat.toDigits 10 p)).length + z := by
      conv => lhs; rw [hz]
      rw [List.length_append, List.length_replicate]
    rw [this]

/-! ## 3. `layout` -/

theorem mem_digits_zero : '0' ∈ digits := by decide

theorem digitsVal_zero_cons (l : List Char) : digitsVal ('0' :: l) = digitsVal l := by
  have := digitsVal_append ['0'] l
  rw [List.singleton_append] at this
  rw [this]
  show 0 * 10 ^ l.length + digitsVal l = digitsVal l
  omega

theorem layout_spec (ds : List Char) (k : Int) (hne : ds ≠ []) (hd : ∀ c ∈ ds, c ∈ digits) :
    ∃ a b, layout ds k = a ++ '.' :: b ∧ a ≠ [] ∧ (∀ c ∈ a, c ∈ digits) ∧ (∀ c ∈ b, c ∈ digits) ∧
      digitsVal (a ++ b) * 10 ^ (ds.length + (-k).toNat) =
        digitsVal ds * 10 ^ (b.length + k.toNat) := by
  unfold layout
  by_cases h1 : k ≤ 0
  · rw [if_pos h1]
    refine ⟨['0'], List.replicate (-k).toNat '0' ++ ds, rfl, by simp, ?_, ?_, ?_⟩
    · intro c hc
      rw [List.mem_singleton] at hc; subst hc; exact mem_digits_zero
    · intro c hc
      rcases List.mem_append.mp hc with h | h
      · rw [List.mem_replicate] at h; rw [h.2]; exact mem_digits_zero
      · exact hd c h
    · rw [List.singleton_append, digitsVal_zero_cons, digitsVal_append, digitsVal_replicate_zero,
        Nat.zero_mul, Nat.zero_add, List.length_append, List.length_replicate]
      have : k.toNat = 0 := by omega
      rw [this, Nat.add_zero, Nat.add_comm]
  · rw [if_neg h1]
    by_cases h2 : k.toNat ≥ ds.length
    · rw [if_pos h2]
      refine ⟨ds ++ List.replicate (k.toNat - ds.length) '0', ['0'], ?_, ?_, ?_, ?_, ?_⟩
      · rw [List.append_assoc]
      · intro h; exact hne (List.append_eq_nil_iff.mp h).1
      · intro c hc
        rcases List.mem_append.mp hc with h | h
        · exact hd c h
        · rw [List.mem_replicate] at h; rw [h.2]; exact mem_digits_zero
      · intro c hc
        rw [List.mem_singleton] at hc; subst hc; exact mem_digits_zero
      · rw [List.append_assoc, digitsVal_append, digitsVal_append, digitsVal_replicate_zero]
        have hk : (-k).toNat = 0 := by omega
        rw [hk]
        simp only [List.length_append, List.length_replicate, List.length_singleton,
          Nat.zero_mul, Nat.add_zero]
        have : digitsVal ['0'] = 0 := rfl
        rw [this, Nat.add_zero, Nat.mul_assoc, ← Nat.pow_add]
        congr 2
        omega
    · rw [if_neg h2]
      have hk0 : 0 < k.toNat := by omega
      refine ⟨ds.take k.toNat, ds.drop k.toNat, rfl, ?_, ?_, ?_, ?_⟩
      · intro h
        rw [List.take_eq_nil_iff] at h
        rcases h with h | h
        · omega
        · exact hne h
      · intro c hc; exact hd c (List.mem_of_mem_take hc)
      · intro c hc; exact hd c (List.mem_of_mem_drop hc)
      · rw [List.take_append_drop, List.length_drop]
        have hk : (-k).toNat = 0 := by omega
        rw [hk]
        congr 2
        omega

/-! ## 4. `parseDecimal` -/

theorem isDigit_of_mem_digits : ∀ c ∈ digits, isDigit c = true := by decide

theorem parseDecimal_shape (a b : List Char) (hane : a ≠ []) (ha : ∀ c ∈ a, c ∈ digits)
    (hb : ∀ c ∈ b, c ∈ digits) :
    parseDecimal (a ++ '.' :: b) =
      (nearestDouble (digitsVal (a ++ b)) (10 ^ b.length)).map (fun p => ((p.1 : Int), p.2)) := by
  have ha' : ∀ c ∈ a, isDigit c = true := fun c hc => isDigit_of_mem_digits c (ha c hc)
  have hdot : isDigit '.' = false := by decide
  have htk : (a ++ '.' :: b).takeWhile isDigit = a := by
    rw [List.takeWhile_append_of_pos ha', List.takeWhile_cons_of_neg (by rw [hdot]; simp),
      List.append_nil]
  have hdr : (a ++ '.' :: b).dropWhile isDigit = '.' :: b := by
    rw [List.dropWhile_append_of_pos ha', List.dropWhile_cons_of_neg (by rw [hdot]; simp)]
  have hall : b.all isDigit = true := by
    rw [List.all_eq_true]; exact fun c hc => isDigit_of_mem_digits c (hb c hc)
  have hemp : a.isEmpty = false := by
    cases a with
    | nil => exact absurd rfl hane
    | cons _ _ => rfl
  unfold parseDecimal
  simp only [htk, hdr, hall, hemp, Bool.not_true, Bool.or_self, Bool.false_eq_true, if_false]
  cases nearestDouble (digitsVal (a ++ b)) (10 ^ b.length) with
  | none => rfl
  | some p => rfl

/-! ## non-vacuity / sanity (tests on samples, not theorems) -/

example : out 3 5 1200 = (['1', '2'], 2) := by decide
example : layout ['1', '2'] (-2) = ['0', '.', '0', '0', '1', '2'] := by decide
example : layout ['1', '2'] 4 = ['1', '2', '0', '0', '.', '0'] := by decide
example : layout ['1', '2', '3'] 1 = ['1', '.', '2', '3'] := by decide
example : strip0 ['1', '0', '2', '0', '0'] = ['1', '0', '2'] := by decide
example : ∃ a b, layout ['1', '2', '3'] 1 = a ++ '.' :: b ∧ a ≠ [] :=
  (layout_spec ['1', '2', '3'] 1 (by decide) (by decide)).imp fun _ h => h.imp fun _ h => ⟨h.1, h.2.1⟩

end Ckl.C08D
