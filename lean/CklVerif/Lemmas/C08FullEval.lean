/-
  C08 (full data literals) — evaluator part: the heap representation `Rep` of a data value, its
  reification, deep equality `rveq` on representations, and the evaluation of literal ASTs.
-/
import CklVerif.Lemmas.C08FullCanon
import CklVerif.Model.Eval
import Batteries.Data.List.Perm
namespace Ckl.C08F
open Ckl Ckl.C08

/-! ### heap representations -/

mutual
  /-- `Rep h v n r`: the runtime value `r` represents the data value `v` in the heap `h`, using only
      cells below `n`, every cell referring only to cells below itself; the elements of a set
      cell / the entries of a map cell are stored in the canonical order of `v` -/
  def Rep (h : Array Cell) : Val → Nat → RVal → Prop
    | .null, _, r => r = .null
    | .bool b, _, r => r = .bool b
    | .int n, _, r => r = .int n
    | .str s, _, r => r = .str s
    | .list vs, n, r => ∃ a rs, r = .ref a ∧ a < n ∧ h[a]? = some (.list rs) ∧ RepL h vs a rs
    | .set vs, n, r => ∃ a rs, r = .ref a ∧ a < n ∧ h[a]? = some (.set rs) ∧ RepL h vs a rs
    | .map kvs, n, r => ∃ a rs, r = .ref a ∧ a < n ∧ h[a]? = some (.map rs) ∧ RepM h kvs a rs
    | _, _, _ => False
  def RepL (h : Array Cell) : List Val → Nat → List RVal → Prop
    | [], _, rs => rs = []
    | v :: vs, n, rs => ∃ r rs', rs = r :: rs' ∧ Rep h v n r ∧ RepL h vs n rs'
  def RepM (h : Array Cell) : List (Val × Val) → Nat → List (RVal × RVal) → Prop
    | [], _, rs => rs = []
    | (k, v) :: rest, n, rs => ∃ rk rv rs', rs = (rk, rv) :: rs' ∧ Rep h k n rk ∧ Rep h v n rv ∧
        RepM h rest n rs'
end

mutual
  /-- representations survive heap growth and a larger bound -/
  theorem rep_mono {h h' : Array Cell} : ∀ (v : Val) {n n' : Nat} {r : RVal}, Rep h v n r → n ≤ n' →
      (∀ a, a < n → h'[a]? = h[a]?) → Rep h' v n' r
    | .null, _, _, _, hr, _, _ => hr
    | .bool _, _, _, _, hr, _, _ => hr
    | .int _, _, _, _, hr, _, _ => hr
    | .str _, _, _, _, hr, _, _ => hr
    | .list vs, n, n', r, hr, hn, hh => by
      obtain ⟨a, rs, rfl, ha, hc, hl⟩ := hr
      exact ⟨a, rs, rfl, by omega, by rw [hh a ha]; exact hc,
        repL_mono vs hl (Nat.le_refl _) (fun b hb => hh b (by omega))⟩
    | .set vs, n, n', r, hr, hn, hh => by
      obtain ⟨a, rs, rfl, ha, hc, hl⟩ := hr
      exact ⟨a, rs, rfl, by omega, by rw [hh a ha]; exact hc,
        repL_mono vs hl (Nat.le_refl _) (fun b hb => hh b (by omega))⟩
    | .map kvs, n, n', r, hr, hn, hh => by
      obtain ⟨a, rs, rfl, ha, hc, hl⟩ := hr
      exact ⟨a, rs, rfl, by omega, by rw [hh a ha]; exact hc,
        repM_mono kvs hl (Nat.le_refl _) (fun b hb => hh b (by omega))⟩
    | .dec _ _, _, _, _, hr, _, _ => by simp [Rep] at hr
    | .pat _, _, _, _, hr, _, _ => by simp [Rep] at hr
    | .date _, _, _, _, hr, _, _ => by simp [Rep] at hr
  theorem repL_mono {h h' : Array Cell} : ∀ (vs : List Val) {n n' : Nat} {rs : List RVal},
      RepL h vs n rs → n ≤ n' → (∀ a, a < n → h'[a]? = h[a]?) → RepL h' vs n' rs
    | [], _, _, _, hr, _, _ => hr
    | v :: vs, n, n', rs, hr, hn, hh => by
      obtain ⟨r, rs', rfl, h1, h2⟩ := hr
      exact ⟨r, rs', rfl, rep_mono v h1 hn hh, repL_mono vs h2 hn hh⟩
  theorem repM_mono {h h' : Array Cell} : ∀ (kvs : List (Val × Val)) {n n' : Nat}
      {rs : List (RVal × RVal)}, RepM h kvs n rs → n ≤ n' → (∀ a, a < n → h'[a]? = h[a]?) →
      RepM h' kvs n' rs
    | [], _, _, _, hr, _, _ => hr
    | (k, v) :: rest, n, n', rs, hr, hn, hh => by
      obtain ⟨rk, rv, rs', rfl, h1, h2, h3⟩ := hr
      exact ⟨rk, rv, rs', rfl, rep_mono k h1 hn hh, rep_mono v h2 hn hh, repM_mono rest h3 hn hh⟩
end

/-! ### reification -/

mutual
  /-- a representation reifies to the value it represents -/
  theorem rep_reify {h : Array Cell} : ∀ (v : Val), IsData' decRepr v → ∀ {n : Nat} {r : RVal},
      Rep h v n r → ∀ fuel, n ≤ fuel → reifyF decRepr h fuel r = some v
    | .null, _, _, _, hr, fuel, _ => by subst hr; cases fuel <;> rfl
    | .bool _, _, _, _, hr, fuel, _ => by subst hr; cases fuel <;> rfl
    | .int _, _, _, _, hr, fuel, _ => by subst hr; cases fuel <;> rfl
    | .str _, _, _, _, hr, fuel, _ => by subst hr; cases fuel <;> rfl
    | .list vs, hd, n, r, hr, fuel, hf => by
      obtain ⟨a, rs, rfl, ha, hc, hl⟩ := hr
      obtain ⟨f, rfl⟩ : ∃ f, fuel = f + 1 := ⟨fuel - 1, by omega⟩
      simp only [IsData'] at hd
      simp only [reifyF, hc, repL_reify vs hd hl f (by omega), Option.map_some]
    | .set vs, hd, n, r, hr, fuel, hf => by
      obtain ⟨a, rs, rfl, ha, hc, hl⟩ := hr
      obtain ⟨f, rfl⟩ : ∃ f, fuel = f + 1 := ⟨fuel - 1, by omega⟩
      have hd' := hd
      simp only [IsData'] at hd'
      simp only [reifyF, hc, repL_reify vs hd'.1 hl f (by omega), Option.map_some, mkSet_canon decRepr hd]
    | .map kvs, hd, n, r, hr, fuel, hf => by
      obtain ⟨a, rs, rfl, ha, hc, hl⟩ := hr
      obtain ⟨f, rfl⟩ : ∃ f, fuel = f + 1 := ⟨fuel - 1, by omega⟩
      have hd' := hd
      simp only [IsData'] at hd'
      simp only [reifyF, hc, repM_reify kvs hd'.1 hl f (by omega), Option.map_some, mkMap_canon decRepr hd]
    | .dec _ _, hd, _, _, _, _, _ => by simp [IsData'] at hd
    | .pat _, hd, _, _, _, _, _ => by simp [IsData'] at hd
    | .date _, hd, _, _, _, _, _ => by simp [IsData'] at hd
  theorem repL_reify {h : Array Cell} : ∀ (vs : List Val), IsDataL' decRepr vs → ∀ {n : Nat}
      {rs : List RVal}, RepL h vs n rs → ∀ fuel, n ≤ fuel →
      rs.mapM (reifyF decRepr h fuel) = some vs
    | [], _, _, _, hr, _, _ => by subst hr; rfl
    | v :: vs, hd, n, rs, hr, fuel, hf => by
      obtain ⟨r, rs', rfl, h1, h2⟩ := hr
      simp only [IsDataL'] at hd
      simp [List.mapM_cons, rep_reify v hd.1 h1 fuel hf, repL_reify vs hd.2 h2 fuel hf]
  theorem repM_reify {h : Array Cell} : ∀ (kvs : List (Val × Val)), IsDataM' decRepr kvs → ∀ {n : Nat}
      {rs : List (RVal × RVal)}, RepM h kvs n rs → ∀ fuel, n ≤ fuel →
      rs.mapM (fun (kv : RVal × RVal) => do
        let k ← reifyF decRepr h fuel kv.1; let v ← reifyF decRepr h fuel kv.2; pure (k, v)) = some kvs
    | [], _, _, _, hr, _, _ => by subst hr; rfl
    | (k, v) :: rest, hd, n, rs, hr, fuel, hf => by
      obtain ⟨rk, rv, rs', rfl, h1, h2, h3⟩ := hr
      simp only [IsDataM'] at hd
      have ih := repM_reify rest hd.2.2.2 h3 fuel hf
      simp at ih
      simp [List.mapM_cons, rep_reify k hd.2.1 h1 fuel hf, rep_reify v hd.2.2.1 h2 fuel hf, ih]
end

/-! ### deep equality on representations -/

/-- strictly ascending lists with the same length, one contained in the other, are equal -/
theorem eq_of_subset_sorted {α} {lt : α → α → Bool} {l1 l2 : List α}
    (hs : ∀ x ∈ l1, x ∈ l2) (hlen : l1.length = l2.length)
    (h1 : l1.Pairwise (fun a b => lt a b = true)) (h2 : l2.Pairwise (fun a b => lt a b = true))
    (hirr : ∀ a, lt a a = false) (hasym : ∀ a b, lt a b = true → lt b a = false) : l1 = l2 := by
  have nd : l1.Nodup := h1.imp (fun {a b} hab e => by subst e; rw [hirr] at hab; cases hab)
  have hp : l1.Perm l2 := (List.subperm_of_subset nd hs).perm_of_length_le (by omega)
  exact List.Perm.eq_of_pairwise
    (fun a b _ _ hab hba => by rw [hasym a b hab] at hba; cases hba) h1 h2 hp

/-- what `rveq` on two references looks at -/
theorem rveqF_ref {h : Array Cell} {fuel a b : Nat} (hab : rveqF h fuel (.ref a) (.ref b) = true) :
    ∃ f, fuel = f + 1 ∧ (a = b ∨
      (∃ xs ys, h[a]? = some (.list xs) ∧ h[b]? = some (.list ys) ∧ xs.length = ys.length ∧
        (xs.zip ys).all (fun p => rveqF h f p.1 p.2) = true) ∨
      (∃ xs ys, h[a]? = some (.set xs) ∧ h[b]? = some (.set ys) ∧ xs.length = ys.length ∧
        xs.all (fun x => ys.any (fun y => rveqF h f x y)) = true) ∨
      (∃ xs ys, h[a]? = some (.map xs) ∧ h[b]? = some (.map ys) ∧ xs.length = ys.length ∧
        xs.all (fun kv => ys.any (fun kv' => rveqF h f kv.1 kv'.1 && rveqF h f kv.2 kv'.2)) = true) ∨
      (∃ xs m, h[a]? = some (.obj xs m))) := by
  cases fuel with
  | zero => simp [rveqF] at hab
  | succ f =>
    refine ⟨f, rfl, ?_⟩
    simp only [rveqF] at hab
    split at hab
    · rename_i he; exact Or.inl (by simpa using he)
    · split at hab
      · rename_i xs ys h1 h2
        simp only [Bool.and_eq_true, beq_iff_eq] at hab
        exact Or.inr (Or.inl ⟨xs, ys, h1, h2, hab.1, hab.2⟩)
      · rename_i xs ys h1 h2
        simp only [Bool.and_eq_true, beq_iff_eq] at hab
        exact Or.inr (Or.inr (Or.inl ⟨xs, ys, h1, h2, hab.1, hab.2⟩))
      · rename_i xs ys h1 h2
        simp only [Bool.and_eq_true, beq_iff_eq] at hab
        exact Or.inr (Or.inr (Or.inr (Or.inl ⟨xs, ys, h1, h2, hab.1, hab.2⟩)))
      · rename_i xs m ys m' h1 h2
        exact Or.inr (Or.inr (Or.inr (Or.inr ⟨xs, m, h1⟩)))
      · cases hab

theorem repL_length {h : Array Cell} : ∀ {vs : List Val} {n : Nat} {rs : List RVal},
    RepL h vs n rs → rs.length = vs.length
  | [], _, _, hr => by simp only [RepL] at hr; subst hr; rfl
  | v :: vs, _, _, hr => by
    obtain ⟨r, rs', rfl, _, h2⟩ := hr
    simp [repL_length h2]

theorem repM_length {h : Array Cell} : ∀ {vs : List (Val × Val)} {n : Nat} {rs : List (RVal × RVal)},
    RepM h vs n rs → rs.length = vs.length
  | [], _, _, hr => by simp only [RepM] at hr; subst hr; rfl
  | (k, v) :: vs, _, _, hr => by
    obtain ⟨rk, rv, rs', rfl, _, _, h2⟩ := hr
    simp [repM_length h2]

theorem repL_mem {h : Array Cell} : ∀ {vs : List Val} {n : Nat} {rs : List RVal},
    RepL h vs n rs → ∀ y ∈ rs, ∃ v ∈ vs, Rep h v n y
  | [], _, _, hr, y, hy => by simp only [RepL] at hr; subst hr; simp at hy
  | v :: vs, _, _, hr, y, hy => by
    obtain ⟨r, rs', rfl, h1, h2⟩ := hr
    rcases List.mem_cons.mp hy with rfl | hy'
    · exact ⟨v, by simp, h1⟩
    · obtain ⟨v', hv', hr'⟩ := repL_mem h2 y hy'
      exact ⟨v', List.mem_cons_of_mem _ hv', hr'⟩

theorem repM_mem {h : Array Cell} : ∀ {vs : List (Val × Val)} {n : Nat} {rs : List (RVal × RVal)},
    RepM h vs n rs → ∀ y ∈ rs, ∃ e ∈ vs, Rep h e.1 n y.1 ∧ Rep h e.2 n y.2
  | [], _, _, hr, y, hy => by simp only [RepM] at hr; subst hr; simp at hy
  | (k, v) :: vs, _, _, hr, y, hy => by
    obtain ⟨rk, rv, rs', rfl, h1, h2, h3⟩ := hr
    rcases List.mem_cons.mp hy with rfl | hy'
    · exact ⟨(k, v), by simp, h1, h2⟩
    · obtain ⟨e, he, hr'⟩ := repM_mem h3 y hy'
      exact ⟨e, List.mem_cons_of_mem _ he, hr'⟩

/-- a scalar runtime value represents only itself -/
theorem rep_scalar {h : Array Cell} {v : Val} {n : Nat} {r : RVal} (hr : Rep h v n r)
    (hs : ∀ a, r ≠ .ref a) :
    (r = .null ∧ v = .null) ∨ (∃ b, r = .bool b ∧ v = .bool b) ∨ (∃ k, r = .int k ∧ v = .int k) ∨
      (∃ s, r = .str s ∧ v = .str s) := by
  cases v with
  | null => exact Or.inl ⟨hr, rfl⟩
  | bool b => exact Or.inr (Or.inl ⟨b, hr, rfl⟩)
  | int k => exact Or.inr (Or.inr (Or.inl ⟨k, hr, rfl⟩))
  | str s => exact Or.inr (Or.inr (Or.inr ⟨s, hr, rfl⟩))
  | list vs => obtain ⟨a, _, rfl, _⟩ := hr; exact absurd rfl (hs a)
  | set vs => obtain ⟨a, _, rfl, _⟩ := hr; exact absurd rfl (hs a)
  | map vs => obtain ⟨a, _, rfl, _⟩ := hr; exact absurd rfl (hs a)
  | dec _ _ => simp [Rep] at hr
  | pat _ => simp [Rep] at hr
  | date _ => simp [Rep] at hr

/-- a reference represents a container stored in its cell -/
theorem rep_ref {h : Array Cell} {v : Val} {n a : Nat} (hr : Rep h v n (.ref a)) :
    a < n ∧ ((∃ vs rs, v = .list vs ∧ h[a]? = some (.list rs) ∧ RepL h vs a rs) ∨
      (∃ vs rs, v = .set vs ∧ h[a]? = some (.set rs) ∧ RepL h vs a rs) ∨
      (∃ vs rs, v = .map vs ∧ h[a]? = some (.map rs) ∧ RepM h vs a rs)) := by
  cases v with
  | list vs =>
    obtain ⟨a', rs, e, ha, hc, hl⟩ := hr; cases e
    exact ⟨ha, Or.inl ⟨vs, rs, rfl, hc, hl⟩⟩
  | set vs =>
    obtain ⟨a', rs, e, ha, hc, hl⟩ := hr; cases e
    exact ⟨ha, Or.inr (Or.inl ⟨vs, rs, rfl, hc, hl⟩)⟩
  | map vs =>
    obtain ⟨a', rs, e, ha, hc, hl⟩ := hr; cases e
    exact ⟨ha, Or.inr (Or.inr ⟨vs, rs, rfl, hc, hl⟩)⟩
  | _ => simp [Rep] at hr

/-- a value is determined by its representation -/
theorem rep_fun {h : Array Cell} {v1 v2 : Val} {n : Nat} {r : RVal} (h1 : IsData' decRepr v1)
    (h2 : IsData' decRepr v2) (hr1 : Rep h v1 n r) (hr2 : Rep h v2 n r) : v1 = v2 := by
  have e1 := rep_reify v1 h1 hr1 n (Nat.le_refl _)
  have e2 := rep_reify v2 h2 hr2 n (Nat.le_refl _)
  rw [e1] at e2; exact Option.some.inj e2

theorem scalar_rveq {h : Array Cell} {fuel : Nat} {r1 r2 : RVal} (hs : ∀ a, r1 ≠ .ref a)
    (h1 : r1 = .null ∨ (∃ b, r1 = .bool b) ∨ (∃ k, r1 = .int k) ∨ (∃ s, r1 = .str s))
    (h2 : r2 = .null ∨ (∃ b, r2 = .bool b) ∨ (∃ k, r2 = .int k) ∨ (∃ s, r2 = .str s) ∨ (∃ a, r2 = .ref a))
    (he : rveqF h fuel r1 r2 = true) : r1 = r2 := by
  rcases h1 with rfl | ⟨b, rfl⟩ | ⟨k, rfl⟩ | ⟨s, rfl⟩ <;>
  rcases h2 with rfl | ⟨b', rfl⟩ | ⟨k', rfl⟩ | ⟨s', rfl⟩ | ⟨a', rfl⟩ <;>
  cases fuel <;> simp [rveqF] at he ⊢ <;> exact he

theorem rep_shape {h : Array Cell} {v : Val} {n : Nat} {r : RVal} (hr : Rep h v n r) :
    r = .null ∨ (∃ b, r = .bool b) ∨ (∃ k, r = .int k) ∨ (∃ s, r = .str s) ∨ (∃ a, r = .ref a) := by
  cases v with
  | null => exact Or.inl hr
  | bool b => exact Or.inr (Or.inl ⟨b, hr⟩)
  | int k => exact Or.inr (Or.inr (Or.inl ⟨k, hr⟩))
  | str s => exact Or.inr (Or.inr (Or.inr (Or.inl ⟨s, hr⟩)))
  | list vs => obtain ⟨a, _, rfl, _⟩ := hr; exact Or.inr (Or.inr (Or.inr (Or.inr ⟨a, rfl⟩)))
  | set vs => obtain ⟨a, _, rfl, _⟩ := hr; exact Or.inr (Or.inr (Or.inr (Or.inr ⟨a, rfl⟩)))
  | map vs => obtain ⟨a, _, rfl, _⟩ := hr; exact Or.inr (Or.inr (Or.inr (Or.inr ⟨a, rfl⟩)))
  | dec _ _ => simp [Rep] at hr
  | pat _ => simp [Rep] at hr
  | date _ => simp [Rep] at hr

theorem rveqF_ref_left {h : Array Cell} {fuel a : Nat} {r2 : RVal}
    (h2 : r2 = .null ∨ (∃ b, r2 = .bool b) ∨ (∃ k, r2 = .int k) ∨ (∃ s, r2 = .str s) ∨ (∃ a, r2 = .ref a))
    (he : rveqF h fuel (.ref a) r2 = true) : ∃ b, r2 = .ref b := by
  rcases h2 with rfl | ⟨b', rfl⟩ | ⟨k', rfl⟩ | ⟨s', rfl⟩ | ⟨a', rfl⟩
  · cases fuel <;> simp [rveqF] at he
  · cases fuel <;> simp [rveqF] at he
  · cases fuel <;> simp [rveqF] at he
  · cases fuel <;> simp [rveqF] at he
  · exact ⟨a', rfl⟩

/-- `rveq` on two represented containers: same cell, or same kind and the kind's comparison -/
theorem rveq_cells {h : Array Cell} {v1 v2 : Val} {n fuel a1 a2 : Nat} (hr1 : Rep h v1 n (.ref a1))
    (hr2 : Rep h v2 n (.ref a2)) (he : rveqF h fuel (.ref a1) (.ref a2) = true) :
    a1 = a2 ∨ ∃ f, fuel = f + 1 ∧
      ((∃ vs1 rs1 vs2 rs2, v1 = .list vs1 ∧ v2 = .list vs2 ∧ RepL h vs1 n rs1 ∧ RepL h vs2 n rs2 ∧
          rs1.length = rs2.length ∧ (rs1.zip rs2).all (fun p => rveqF h f p.1 p.2) = true) ∨
       (∃ vs1 rs1 vs2 rs2, v1 = .set vs1 ∧ v2 = .set vs2 ∧ RepL h vs1 n rs1 ∧ RepL h vs2 n rs2 ∧
          rs1.length = rs2.length ∧ rs1.all (fun x => rs2.any (fun y => rveqF h f x y)) = true) ∨
       (∃ vs1 rs1 vs2 rs2, v1 = .map vs1 ∧ v2 = .map vs2 ∧ RepM h vs1 n rs1 ∧ RepM h vs2 n rs2 ∧
          rs1.length = rs2.length ∧
          rs1.all (fun kv => rs2.any (fun kv' => rveqF h f kv.1 kv'.1 && rveqF h f kv.2 kv'.2)) = true)) := by
  obtain ⟨f, rfl, hcases⟩ := rveqF_ref he
  obtain ⟨hb1, hs1⟩ := rep_ref hr1
  obtain ⟨hb2, hs2⟩ := rep_ref hr2
  have mL : ∀ {vs rs a}, a < n → RepL h vs a rs → RepL h vs n rs :=
    fun ha hl => repL_mono _ hl (by omega) (fun _ _ => rfl)
  have mM : ∀ {vs rs a}, a < n → RepM h vs a rs → RepM h vs n rs :=
    fun ha hl => repM_mono _ hl (by omega) (fun _ _ => rfl)
  rcases hcases with e | ⟨xs, ys, hx, hy, hlen, hall⟩ | ⟨xs, ys, hx, hy, hlen, hall⟩ |
      ⟨xs, ys, hx, hy, hlen, hall⟩ | ⟨xs, m, hx⟩
  · exact Or.inl e
  · refine Or.inr ⟨f, rfl, Or.inl ?_⟩
    rcases hs1 with ⟨vs1, rs1, rfl, hc1, hl1⟩ | ⟨vs1, rs1, rfl, hc1, hl1⟩ | ⟨vs1, rs1, rfl, hc1, hl1⟩ <;>
      rw [hx] at hc1 <;> cases hc1
    rcases hs2 with ⟨vs2, rs2, rfl, hc2, hl2⟩ | ⟨vs2, rs2, rfl, hc2, hl2⟩ | ⟨vs2, rs2, rfl, hc2, hl2⟩ <;>
      rw [hy] at hc2 <;> cases hc2
    exact ⟨vs1, _, vs2, _, rfl, rfl, mL hb1 hl1, mL hb2 hl2, hlen, hall⟩
  · refine Or.inr ⟨f, rfl, Or.inr (Or.inl ?_)⟩
    rcases hs1 with ⟨vs1, rs1, rfl, hc1, hl1⟩ | ⟨vs1, rs1, rfl, hc1, hl1⟩ | ⟨vs1, rs1, rfl, hc1, hl1⟩ <;>
      rw [hx] at hc1 <;> cases hc1
    rcases hs2 with ⟨vs2, rs2, rfl, hc2, hl2⟩ | ⟨vs2, rs2, rfl, hc2, hl2⟩ | ⟨vs2, rs2, rfl, hc2, hl2⟩ <;>
      rw [hy] at hc2 <;> cases hc2
    exact ⟨vs1, _, vs2, _, rfl, rfl, mL hb1 hl1, mL hb2 hl2, hlen, hall⟩
  · refine Or.inr ⟨f, rfl, Or.inr (Or.inr ?_)⟩
    rcases hs1 with ⟨vs1, rs1, rfl, hc1, hl1⟩ | ⟨vs1, rs1, rfl, hc1, hl1⟩ | ⟨vs1, rs1, rfl, hc1, hl1⟩ <;>
      rw [hx] at hc1 <;> cases hc1
    rcases hs2 with ⟨vs2, rs2, rfl, hc2, hl2⟩ | ⟨vs2, rs2, rfl, hc2, hl2⟩ | ⟨vs2, rs2, rfl, hc2, hl2⟩ <;>
      rw [hy] at hc2 <;> cases hc2
    exact ⟨vs1, _, vs2, _, rfl, rfl, mM hb1 hl1, mM hb2 hl2, hlen, hall⟩
  · exfalso
    rcases hs1 with ⟨vs1, rs1, rfl, hc1, hl1⟩ | ⟨vs1, rs1, rfl, hc1, hl1⟩ | ⟨vs1, rs1, rfl, hc1, hl1⟩ <;>
      rw [hx] at hc1 <;> cases hc1

theorem rveq_scalar_case {h : Array Cell} {v1 v2 : Val} {n fuel : Nat} {r1 r2 : RVal}
    (hd1 : IsData' decRepr v1) (hd2 : IsData' decRepr v2) (hr1 : Rep h v1 n r1) (hr2 : Rep h v2 n r2)
    (hs : r1 = .null ∨ (∃ b, r1 = .bool b) ∨ (∃ k, r1 = .int k) ∨ (∃ s, r1 = .str s))
    (he : rveqF h fuel r1 r2 = true) : v1 = v2 := by
  have hne : ∀ a, r1 ≠ .ref a := by
    intro a e; subst e
    rcases hs with e | ⟨_, e⟩ | ⟨_, e⟩ | ⟨_, e⟩ <;> cases e
  have := scalar_rveq hne hs (rep_shape hr2) he
  subst this
  exact rep_fun hd1 hd2 hr1 hr2

mutual
  /-- **rveq_rep**: deep equality on two represented data values holds only if the values are the
      same (elements of sets and keys of maps are therefore never taken for one another) -/
  theorem rveq_rep {h : Array Cell} : ∀ (v1 : Val), IsData' decRepr v1 → ∀ {n : Nat} {r1 : RVal},
      Rep h v1 n r1 → ∀ (v2 : Val), IsData' decRepr v2 → ∀ {r2 : RVal}, Rep h v2 n r2 →
      ∀ fuel, rveqF h fuel r1 r2 = true → v1 = v2
    | .null, hd1, _, _, hr1, v2, hd2, _, hr2, fuel, he =>
      rveq_scalar_case hd1 hd2 hr1 hr2 (Or.inl hr1) he
    | .bool b, hd1, _, _, hr1, v2, hd2, _, hr2, fuel, he =>
      rveq_scalar_case hd1 hd2 hr1 hr2 (Or.inr (Or.inl ⟨b, hr1⟩)) he
    | .int k, hd1, _, _, hr1, v2, hd2, _, hr2, fuel, he =>
      rveq_scalar_case hd1 hd2 hr1 hr2 (Or.inr (Or.inr (Or.inl ⟨k, hr1⟩))) he
    | .str s, hd1, _, _, hr1, v2, hd2, _, hr2, fuel, he =>
      rveq_scalar_case hd1 hd2 hr1 hr2 (Or.inr (Or.inr (Or.inr ⟨s, hr1⟩))) he
    | .list vs1, hd1, n, r1, hr1, v2, hd2, r2, hr2, fuel, he => by
      obtain ⟨a1, e1⟩ : ∃ a, r1 = .ref a := by obtain ⟨a, _, e, _⟩ := hr1; exact ⟨a, e⟩
      subst e1
      obtain ⟨a2, e2⟩ := rveqF_ref_left (rep_shape hr2) he
      subst e2
      rcases rveq_cells hr1 hr2 he with e | ⟨f, rfl, hc⟩
      · subst e; exact rep_fun hd1 hd2 hr1 hr2
      · rcases hc with ⟨vs1', rs1, vs2, rs2, e1, e2, hl1, hl2, hlen, hall⟩ |
            ⟨vs1', rs1, vs2, rs2, e1, e2, hl1, hl2, hlen, hall⟩ |
            ⟨vs1', rs1, vs2, rs2, e1, e2, hl1, hl2, hlen, hall⟩ <;> cases e1
        subst e2
        simp only [IsData'] at hd1 hd2
        rw [rveq_repL vs1 hd1 hl1 vs2 hd2 hl2 f hall hlen]
    | .set vs1, hd1, n, r1, hr1, v2, hd2, r2, hr2, fuel, he => by
      obtain ⟨a1, e1⟩ : ∃ a, r1 = .ref a := by obtain ⟨a, _, e, _⟩ := hr1; exact ⟨a, e⟩
      subst e1
      obtain ⟨a2, e2⟩ := rveqF_ref_left (rep_shape hr2) he
      subst e2
      rcases rveq_cells hr1 hr2 he with e | ⟨f, rfl, hc⟩
      · subst e; exact rep_fun hd1 hd2 hr1 hr2
      · rcases hc with ⟨vs1', rs1, vs2, rs2, e1, e2, hl1, hl2, hlen, hall⟩ |
            ⟨vs1', rs1, vs2, rs2, e1, e2, hl1, hl2, hlen, hall⟩ |
            ⟨vs1', rs1, vs2, rs2, e1, e2, hl1, hl2, hlen, hall⟩ <;> cases e1
        subst e2
        simp only [IsData'] at hd1 hd2
        have hsub := rveq_repS vs1 hd1.1 hl1 vs2 hd2.1 hl2 f hall
        have hlen' : vs1.length = vs2.length := by
          rw [← repL_length hl1, ← repL_length hl2, hlen]
        rw [eq_of_subset_sorted hsub hlen' hd1.2 hd2.2 (vlt_irrefl_all decRepr)
          (vlt_asymm_all decRepr)]
    | .map vs1, hd1, n, r1, hr1, v2, hd2, r2, hr2, fuel, he => by
      obtain ⟨a1, e1⟩ : ∃ a, r1 = .ref a := by obtain ⟨a, _, e, _⟩ := hr1; exact ⟨a, e⟩
      subst e1
      obtain ⟨a2, e2⟩ := rveqF_ref_left (rep_shape hr2) he
      subst e2
      rcases rveq_cells hr1 hr2 he with e | ⟨f, rfl, hc⟩
      · subst e; exact rep_fun hd1 hd2 hr1 hr2
      · rcases hc with ⟨vs1', rs1, vs2, rs2, e1, e2, hl1, hl2, hlen, hall⟩ |
            ⟨vs1', rs1, vs2, rs2, e1, e2, hl1, hl2, hlen, hall⟩ |
            ⟨vs1', rs1, vs2, rs2, e1, e2, hl1, hl2, hlen, hall⟩ <;> cases e1
        subst e2
        simp only [IsData'] at hd1 hd2
        have hsub := rveq_repM vs1 hd1.1 hl1 vs2 hd2.1 hl2 f hall
        have hlen' : vs1.length = vs2.length := by
          rw [← repM_length hl1, ← repM_length hl2, hlen]
        rw [eq_of_subset_sorted (lt := fun a b : Val × Val => vltWith decRepr a.1 b.1) hsub hlen'
          hd1.2 hd2.2 (fun a => vlt_irrefl_all decRepr a.1)
          (fun a b => vlt_asymm_all decRepr a.1 b.1)]
    | .dec _ _, hd, _, _, _, _, _, _, _, _, _ => by simp [IsData'] at hd
    | .pat _, hd, _, _, _, _, _, _, _, _, _ => by simp [IsData'] at hd
    | .date _, hd, _, _, _, _, _, _, _, _, _ => by simp [IsData'] at hd
  /-- lists: position by position -/
  theorem rveq_repL {h : Array Cell} : ∀ (vs1 : List Val), IsDataL' decRepr vs1 → ∀ {n : Nat}
      {rs1 : List RVal}, RepL h vs1 n rs1 → ∀ (vs2 : List Val), IsDataL' decRepr vs2 →
      ∀ {rs2 : List RVal}, RepL h vs2 n rs2 → ∀ f,
      (rs1.zip rs2).all (fun p => rveqF h f p.1 p.2) = true → rs1.length = rs2.length → vs1 = vs2
    | [], _, _, _, hl1, vs2, _, _, hl2, _, _, hlen => by
      simp only [RepL] at hl1; subst hl1
      cases vs2 with
      | nil => rfl
      | cons v vs =>
        obtain ⟨r, rs', rfl, _, _⟩ := hl2
        simp at hlen
    | v1 :: vs1, hd1, _, _, hl1, vs2, hd2, _, hl2, f, hall, hlen => by
      obtain ⟨r1, rs1', rfl, hr1, hl1'⟩ := hl1
      cases vs2 with
      | nil => simp only [RepL] at hl2; subst hl2; simp at hlen
      | cons v2 vs2 =>
        obtain ⟨r2, rs2', rfl, hr2, hl2'⟩ := hl2
        simp only [IsDataL'] at hd1 hd2
        simp only [List.zip_cons_cons, List.all_cons, Bool.and_eq_true] at hall
        simp only [List.length_cons, Nat.add_right_cancel_iff] at hlen
        rw [rveq_rep v1 hd1.1 hr1 v2 hd2.1 hr2 f hall.1,
          rveq_repL vs1 hd1.2 hl1' vs2 hd2.2 hl2' f hall.2 hlen]
  /-- sets: every element of the first is an element of the second -/
  theorem rveq_repS {h : Array Cell} : ∀ (vs1 : List Val), IsDataL' decRepr vs1 → ∀ {n : Nat}
      {rs1 : List RVal}, RepL h vs1 n rs1 → ∀ (vs2 : List Val), IsDataL' decRepr vs2 →
      ∀ {rs2 : List RVal}, RepL h vs2 n rs2 → ∀ f,
      rs1.all (fun x => rs2.any (fun y => rveqF h f x y)) = true → ∀ v ∈ vs1, v ∈ vs2
    | [], _, _, _, _, _, _, _, _, _, _, v, hv => by simp at hv
    | v1 :: vs1, hd1, _, _, hl1, vs2, hd2, rs2, hl2, f, hall, v, hv => by
      obtain ⟨r1, rs1', rfl, hr1, hl1'⟩ := hl1
      simp only [IsDataL'] at hd1
      simp only [List.all_cons, Bool.and_eq_true] at hall
      rcases List.mem_cons.mp hv with hv0 | hv'
      · obtain ⟨y, hy, hey⟩ := List.any_eq_true.mp hall.1
        obtain ⟨v2, hv2, hr2⟩ := repL_mem hl2 y hy
        rw [hv0, rveq_rep v1 hd1.1 hr1 v2 (isDataL_mem decRepr hd2 v2 hv2) hr2 f hey]
        exact hv2
      · exact rveq_repS vs1 hd1.2 hl1' vs2 hd2 hl2 f hall.2 v hv'
  /-- maps: every entry of the first is an entry of the second -/
  theorem rveq_repM {h : Array Cell} : ∀ (vs1 : List (Val × Val)), IsDataM' decRepr vs1 → ∀ {n : Nat}
      {rs1 : List (RVal × RVal)}, RepM h vs1 n rs1 → ∀ (vs2 : List (Val × Val)),
      IsDataM' decRepr vs2 → ∀ {rs2 : List (RVal × RVal)}, RepM h vs2 n rs2 → ∀ f,
      rs1.all (fun kv => rs2.any (fun kv' => rveqF h f kv.1 kv'.1 && rveqF h f kv.2 kv'.2)) = true →
      ∀ e ∈ vs1, e ∈ vs2
    | [], _, _, _, _, _, _, _, _, _, _, v, hv => by simp at hv
    | (k1, v1) :: vs1, hd1, _, _, hl1, vs2, hd2, rs2, hl2, f, hall, e, he => by
      obtain ⟨rk1, rv1, rs1', rfl, hrk1, hrv1, hl1'⟩ := hl1
      simp only [IsDataM'] at hd1
      simp only [List.all_cons, Bool.and_eq_true] at hall
      rcases List.mem_cons.mp he with he0 | he'
      · rw [he0]
        obtain ⟨y, hy, hey⟩ := List.any_eq_true.mp hall.1
        simp only [Bool.and_eq_true] at hey
        obtain ⟨e2, he2, hrk2, hrv2⟩ := repM_mem hl2 y hy
        have hd2' := isDataM_keys decRepr hd2 e2 he2
        have ek := rveq_rep k1 hd1.2.1 hrk1 e2.1 hd2'.1 hrk2 f hey.1
        have ev := rveq_rep v1 hd1.2.2.1 hrv1 e2.2 hd2'.2.1 hrv2 f hey.2
        have : (k1, v1) = e2 := by rw [ek, ev]
        rw [this]; exact he2
      · exact rveq_repM vs1 hd1.2.2.2 hl1' vs2 hd2 hl2 f hall.2 e he'
end

end Ckl.C08F
