/-
  E2E (end to end) — `Interpreter.interpret(script, filename)` on a SOURCE TEXT: scan, parse, evaluate.

  `interpretSource` is, definition for definition, `Ckl.C14X.interpretSource` of `Proofs/C14EndToEnd.lean`
  (`Lemmas/E2EBridge.lean` proves the two equal by `rfl`); it is restated here so that the end-to-end
  files of C01 / C13 / C20 / C10 / C05 need not import the C14 proofs.

  This file: the definition, its case analysis (`cases`), the kinds of outcome, sessions of source texts.
-/
import CklVerif.Model.Front
import CklVerif.Driver.EvalCmd
namespace Ckl.E2E
open Ckl

/-- `Interpreter.interpret(script, filename)`: `parse_script` (scanner, then parser), then evaluation in the
    session frame `senv`; a `CklSyntaxError` of the front end is the outcome `.fail (.syn e)` in the UNCHANGED
    state -/
def interpretSource (ld : Loader) (fuel : Nat) (senv : EnvId) (src : List Char) (file : String := "-") : EvalM RVal :=
  fun s =>
    match parseScript src file with
    | .ok ast => interpretProg ld fuel senv ast s
    | .error e => .fail (.syn e) s

theorem interpretSource_ok {ld : Loader} {fuel : Nat} {senv : EnvId} {src : List Char} {file : String} {ast : Node}
    (h : parseScript src file = .ok ast) (s : State) :
    interpretSource ld fuel senv src file s = interpretProg ld fuel senv ast s := by
  simp only [interpretSource, h]

theorem interpretSource_error {ld : Loader} {fuel : Nat} {senv : EnvId} {src : List Char} {file : String} {e : SynErr}
    (h : parseScript src file = .error e) (s : State) :
    interpretSource ld fuel senv src file s = .fail (.syn e) s := by
  simp only [interpretSource, h]

/-- the front end, spelled out: the text does not scan, or scans and does not parse, or parses -/
theorem parseScript_cases (src : List Char) (file : String) :
    (∃ e, Lexer.scan src file = .error e ∧ parseScript src file = .error e) ∨
    (∃ toks e, Lexer.scan src file = .ok toks ∧ Parser.parse file toks = .error e ∧ parseScript src file = .error e) ∨
    (∃ toks ast, Lexer.scan src file = .ok toks ∧ Parser.parse file toks = .ok ast ∧ parseScript src file = .ok ast) := by
  unfold parseScript parseScriptWith Parser.parse
  cases hs : Lexer.scan src file with
  | error e => exact Or.inl ⟨e, rfl, rfl⟩
  | ok toks =>
    cases hp : Parser.parseWith (fun _ => true) file toks with
    | error e => exact Or.inr (Or.inl ⟨toks, e, rfl, hp, by simp only [bind, Except.bind, hp]⟩)
    | ok ast => exact Or.inr (Or.inr ⟨toks, ast, rfl, hp, by simp only [bind, Except.bind, hp]⟩)

theorem parseScript_of_scan_error {src : List Char} {file : String} {e : SynErr} (h : Lexer.scan src file = .error e) :
    parseScript src file = .error e := by
  unfold parseScript parseScriptWith; rw [h]; rfl

theorem parseScript_of_scan_ok {src : List Char} {file : String} {toks : List Token} (h : Lexer.scan src file = .ok toks) :
    parseScript src file = Parser.parse file toks := by
  unfold parseScript parseScriptWith Parser.parse; rw [h]; rfl

/-! ### the kinds of outcome -/

/-- the kind of an outcome; `syntaxError`: a `CklSyntaxError` — of the front end, or (during evaluation) of a
    `require`d module —, `outOfFuel` / `unsupported`: the two abstentions of the MODEL (no counterpart in the
    implementation), `host`: a host-language exception would escape -/
inductive Kind | value | runtimeError | syntaxError | outOfFuel | unsupported | host
deriving DecidableEq, Repr

def kind {α : Type} : Out α → Kind
  | .ok _ _ => .value
  | .err _ _ _ _ _ => .runtimeError
  | .fail (.syn _) _ => .syntaxError
  | .fail .oof _ => .outOfFuel
  | .fail (.unsupported _) _ => .unsupported
  | .fail (.host _) _ => .host

/-- the final state of an outcome -/
def finalState {α : Type} : Out α → State
  | .ok _ s => s
  | .err _ _ _ _ s => s
  | .fail _ s => s

/-- the model abstains: out of fuel, or a construct outside the modelled subset -/
def Abstains {α : Type} (o : Out α) : Prop := kind o = .outOfFuel ∨ kind o = .unsupported

instance {α : Type} (o : Out α) : Decidable (Abstains o) := by unfold Abstains; infer_instance

theorem bind_def {α β} (m : EvalM α) (f : α → EvalM β) (s : State) :
    (m >>= f) s = match m s with
      | .ok a s' => f a s'
      | .err v msg p t s' => .err v msg p t s'
      | .fail k s' => .fail k s' := rfl

/-- `Interpreter.interpret` after evaluation: a `return v` is unwrapped, a stray `break` / `continue` is the
    runtime error of `interpret` itself, everything else is passed on -/
theorem interpretProg_cases (ld : Loader) (fuel : Nat) (senv : EnvId) (ast : Node) (s : State) :
    (∃ v s', eval ld fuel senv ast s = .ok v s' ∧ (∀ p, v ≠ .brk p) ∧ (∀ p, v ≠ .cont p) ∧
      interpretProg ld fuel senv ast s = .ok (match v with | .ret w _ => w | w => w) s') ∨
    (∃ p s', eval ld fuel senv ast s = .ok (.brk p) s' ∧
      interpretProg ld fuel senv ast s = throwE "Cannot use break without surrounding loop" p s') ∨
    (∃ p s', eval ld fuel senv ast s = .ok (.cont p) s' ∧
      interpretProg ld fuel senv ast s = throwE "Cannot use continue without surrounding loop" p s') ∨
    (∃ v m p t s', eval ld fuel senv ast s = .err v m p t s' ∧ interpretProg ld fuel senv ast s = .err v m p t s') ∨
    (∃ f s', eval ld fuel senv ast s = .fail f s' ∧ interpretProg ld fuel senv ast s = .fail f s') := by
  unfold interpretProg
  rw [bind_def]
  cases hr : eval ld fuel senv ast s with
  | ok v s' =>
    cases v with
    | brk p => exact Or.inr (Or.inl ⟨p, s', rfl, rfl⟩)
    | cont p => exact Or.inr (Or.inr (Or.inl ⟨p, s', rfl, rfl⟩))
    | _ =>
      refine Or.inl ⟨_, s', rfl, ?_, ?_, rfl⟩
      · intro p h; cases h
      · intro p h; cases h
  | err v m p t s' => exact Or.inr (Or.inr (Or.inr (Or.inl ⟨v, m, p, t, s', rfl, rfl⟩)))
  | fail f s' => exact Or.inr (Or.inr (Or.inr (Or.inr ⟨f, s', rfl, rfl⟩)))

/-! ### sessions of source texts -/

/-- the state an outcome leaves behind; `none` when the model abstains (out of fuel, unsupported) -/
def nextState : Out RVal → Option State
  | .ok _ s' => some s'
  | .err _ _ _ _ s' => some s'
  | .fail (.syn _) s' => some s'
  | .fail (.host _) s' => some s'
  | .fail _ _ => none

theorem nextState_eq_some {o : Out RVal} {s' : State} (h : nextState o = some s') : s' = finalState o ∧ ¬ Abstains o := by
  cases o with
  | ok a t => cases h; exact ⟨rfl, by simp [Abstains, kind]⟩
  | err v m p t u => cases h; exact ⟨rfl, by simp [Abstains, kind]⟩
  | fail f t => cases f <;> cases h <;> exact ⟨rfl, by simp [Abstains, kind]⟩

theorem nextState_eq_none {o : Out RVal} : nextState o = none ↔ Abstains o := by
  cases o with
  | ok a t => simp [nextState, Abstains, kind]
  | err v m p t u => simp [nextState, Abstains, kind]
  | fail f t => cases f <;> simp [nextState, Abstains, kind]

theorem nextState_of_not_abstains {o : Out RVal} (h : ¬ Abstains o) : nextState o = some (finalState o) := by
  cases hn : nextState o with
  | none => exact absurd (nextState_eq_none.1 hn) h
  | some s' => rw [(nextState_eq_some hn).1]

/-- a session: the texts are handed to `interpret` one after the other on the same interpreter, each call
    continuing with the state the previous one left behind — whatever its outcome was (a value, a runtime error,
    a syntax error); `none`: the model abstains in one of the calls -/
def runSessionSrc (ld : Loader) (fuel : Nat) (senv : EnvId) (file : String) : List (List Char) → State → Option State
  | [], s => some s
  | src :: rest, s =>
    match nextState (interpretSource ld fuel senv src file s) with
    | some s' => runSessionSrc ld fuel senv file rest s'
    | none => none

theorem runSessionSrc_append (ld : Loader) (fuel : Nat) (senv : EnvId) (file : String) (as bs : List (List Char)) (s : State) :
    runSessionSrc ld fuel senv file (as ++ bs) s =
      match runSessionSrc ld fuel senv file as s with
      | some s1 => runSessionSrc ld fuel senv file bs s1
      | none => none := by
  induction as generalizing s with
  | nil => rfl
  | cons a as ih =>
    simp only [List.cons_append, runSessionSrc]
    cases nextState (interpretSource ld fuel senv a file s) with
    | none => rfl
    | some s1 => exact ih s1

/-- the texts of a session that the front end accepts, parsed -/
def parsedTexts (file : String) : List (List Char) → List Node
  | [] => []
  | src :: rest =>
    match parseScript src file with
    | .ok ast => ast :: parsedTexts file rest
    | .error _ => parsedTexts file rest

end Ckl.E2E
