/-
  Layer 1 — calendar functions of `src/ckl/date.py` (after the repairs):
  `is_leap_year`, `year_days`, `month_days`, `to_oa_date`, `to_date`.
  The day part is integer arithmetic and is modelled exactly; the time of day
  is modelled in integer milliseconds (the code computes it in binary floating
  point and rounds to the millisecond — validated by correspondence only).
-/
namespace Ckl.Date

def daysPerMonth : List Nat := [31, 28, 31, 30, 31, 30, 31, 31, 30, 31, 30, 31]

def isLeapYear (y : Nat) : Bool := y % 4 = 0 && (y % 100 ≠ 0 || y % 400 = 0)

def yearDays (y : Nat) : Nat := if isLeapYear y then 366 else 365

/-- `month` is 0-based as in the code -/
def monthDays (y : Nat) (month : Nat) : Nat :=
  if isLeapYear y && month = 1 then 29 else daysPerMonth.getD month 0

/-- sum of `year_days(y)` for y in range(1900, year) -/
def daysBeforeYear : Nat → Nat
  | 0 => 0
  | y + 1 => if y ≥ 1900 then daysBeforeYear y + yearDays y else 0

/-- sum of `month_days(year, m)` for m in range(month) -/
def daysBeforeMonth (y : Nat) : Nat → Nat
  | 0 => 0
  | m + 1 => daysBeforeMonth y m + monthDays y m

/-- integer part of `to_oa_date` for the calendar date y-m-d (m 1-based) -/
def toOaDay (y m d : Nat) : Nat := 1 + daysBeforeYear y + daysBeforeMonth y (m - 1) + d

/-- the year loop of `to_date`: `while value >= year_days(year): value -= …; year += 1`
    (fuel = value + 1 suffices because every year has ≥ 1 day) -/
def yearLoop : Nat → Nat → Nat → Nat × Nat
  | 0, year, value => (year, value)
  | fuel + 1, year, value =>
    if value ≥ yearDays year then yearLoop fuel (year + 1) (value - yearDays year) else (year, value)

/-- the month loop: `while value >= month_days(year, month): …` -/
def monthLoop (year : Nat) : Nat → Nat → Nat → Nat × Nat
  | 0, month, value => (month, value)
  | fuel + 1, month, value =>
    if month < 12 ∧ value ≥ monthDays year month then monthLoop year fuel (month + 1) (value - monthDays year month)
    else (month, value)

/-- `to_date` on a whole day number ≥ 2: (year, month 1-based, day) -/
def toDate (n : Nat) : Nat × Nat × Nat :=
  let value := n - 2
  let (year, v1) := yearLoop (value + 1) 1900 value
  let (month, v2) := monthLoop year 13 0 v1
  (year, month + 1, v2 + 1)

def validDate (y m d : Nat) : Bool :=
  y ≥ 1900 && 1 ≤ m && m ≤ 12 && 1 ≤ d && d ≤ monthDays y (m - 1)

/-- calendar successor -/
def nextDay (y m d : Nat) : Nat × Nat × Nat :=
  if d < monthDays y (m - 1) then (y, m, d + 1)
  else if m < 12 then (y, m + 1, 1)
  else (y + 1, 1, 1)

/-! time of day in milliseconds -/

def toMillis (h mi s ms : Nat) : Nat := ((h * 60 + mi) * 60 + s) * 1000 + ms

def ofMillis (t : Nat) : Nat × Nat × Nat × Nat :=
  let s := t / 1000; let ms := t % 1000
  let mi := s / 60; let s' := s % 60
  let h := mi / 60; let mi' := mi % 60
  (h, mi', s', ms)

/-! date-time stamps (milliseconds since day number 0) and `date - date` (`FuncSub`): whole days, truncated toward zero,
    computed on exact integers (`timedelta // timedelta(days = 1)` on the magnitude) -/

def msPerDay : Nat := 86400000

def stamp (y m d t : Nat) : Int := (toOaDay y m d : Int) * msPerDay + t

def diffDays (a b : Int) : Int :=
  if a - b < 0 then -((b - a) / msPerDay) else (a - b) / msPerDay

end Ckl.Date
