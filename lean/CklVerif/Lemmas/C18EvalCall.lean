/-
  C18Eval — the string natives through `eval` of a CALL NODE (identifier bound to the built-in, positional
  non-spread arguments), the operator nodes `+`, `>=` the parser writes as `fn(a = x, b = y)`, and the `in` node
  on two strings, for all fuel above an explicit bound.  Reuses C15Eval's positional-call machinery.
-/
import CklVerif.Lemmas.C18EvalNat
import CklVerif.Proofs.C15Eval
set_option linter.unusedSimpArgs false
namespace Ckl.C18Eval
open Ckl Ckl.C19Src Ckl.C15Eval

variable (ld : Loader)

section calls
variable {k : Nat} {env : EnvId} {fname : String} {p pos : Pos} {s s1 s2 : State} {inst : Nat} {e1 e2 : Node}

theorem call_contains_str {cs t : List Char}
    (hfn : s.lookup env fname = some (.native "contains" inst)) (hn1 : NotSpread e1) (hn2 : NotSpread e2)
    (h1 : Ev ld k env e1 s (.ok (.str cs) s1)) (h2 : Ev ld k env e2 s1 (.ok (.str t) s2)) :
    Ev ld (k + 4) env (.call (.ident fname p) [none, none] [e1, e2] pos) s
      (.ok (.bool (decide (0 ≤ Seq.find cs t 0))) s2) := by
  obtain ⟨m, hp⟩ : ∃ m, callPure "contains" [("obj", .str cs), ("part", .str t)]
      (div0Value s2 env) pos = some m := ⟨_, rfl⟩
  have := Ev.callPos2 ld (p := p) hfn hn1 hn2 h1 h2 (by rfl) (by decide) (addArgs_plain' _ (by decide)) hp
  rwa [contains_str hp rfl rfl, wrapCall_ok] at this

theorem call_contains_atom {o : RVal} {text t : List Char}
    (hfn : s.lookup env fname = some (.native "contains" inst)) (hn1 : NotSpread e1) (hn2 : NotSpread e2)
    (h1 : Ev ld k env e1 s (.ok o s1)) (h2 : Ev ld k env e2 s1 (.ok (.str t) s2)) (ho : atomText o = some text) :
    Ev ld (k + 4) env (.call (.ident fname p) [none, none] [e1, e2] pos) s
      (.ok (.bool (decide (0 ≤ Seq.find text t 0))) s2) := by
  obtain ⟨m, hp⟩ : ∃ m, callPure "contains" [("obj", o), ("part", .str t)]
      (div0Value s2 env) pos = some m := ⟨_, rfl⟩
  have := Ev.callPos2 ld (p := p) hfn hn1 hn2 h1 h2 (by rfl) (by decide) (addArgs_plain' _ (by decide)) hp
  rwa [contains_atom hp rfl ho rfl, wrapCall_ok] at this

theorem call_contains_null {v : RVal}
    (hfn : s.lookup env fname = some (.native "contains" inst)) (hn1 : NotSpread e1) (hn2 : NotSpread e2)
    (h1 : Ev ld k env e1 s (.ok .null s1)) (h2 : Ev ld k env e2 s1 (.ok v s2)) :
    Ev ld (k + 4) env (.call (.ident fname p) [none, none] [e1, e2] pos) s (.ok (.bool false) s2) := by
  obtain ⟨m, hp⟩ : ∃ m, callPure "contains" [("obj", .null), ("part", v)]
      (div0Value s2 env) pos = some m := ⟨_, rfl⟩
  have := Ev.callPos2 ld (p := p) hfn hn1 hn2 h1 h2 (by rfl) (by decide) (addArgs_plain' _ (by decide)) hp
  rwa [contains_null hp rfl, wrapCall_ok] at this

theorem call_starts_with {cs t : List Char}
    (hfn : s.lookup env fname = some (.native "starts_with" inst)) (hn1 : NotSpread e1) (hn2 : NotSpread e2)
    (h1 : Ev ld k env e1 s (.ok (.str cs) s1)) (h2 : Ev ld k env e2 s1 (.ok (.str t) s2)) :
    Ev ld (k + 4) env (.call (.ident fname p) [none, none] [e1, e2] pos) s
      (.ok (.bool (Seq.isPrefixB t cs)) s2) := by
  obtain ⟨m, hp⟩ : ∃ m, callPure "starts_with" [("str", .str cs), ("part", .str t)]
      (div0Value s2 env) pos = some m := ⟨_, rfl⟩
  have := Ev.callPos2 ld (p := p) hfn hn1 hn2 h1 h2 (by rfl) (by decide) (addArgs_plain' _ (by decide)) hp
  rwa [starts_with_str hp rfl rfl, wrapCall_ok] at this

theorem call_ends_with {cs t : List Char}
    (hfn : s.lookup env fname = some (.native "ends_with" inst)) (hn1 : NotSpread e1) (hn2 : NotSpread e2)
    (h1 : Ev ld k env e1 s (.ok (.str cs) s1)) (h2 : Ev ld k env e2 s1 (.ok (.str t) s2)) :
    Ev ld (k + 4) env (.call (.ident fname p) [none, none] [e1, e2] pos) s
      (.ok (.bool (Seq.isPrefixB t.reverse cs.reverse)) s2) := by
  obtain ⟨m, hp⟩ : ∃ m, callPure "ends_with" [("str", .str cs), ("part", .str t)]
      (div0Value s2 env) pos = some m := ⟨_, rfl⟩
  have := Ev.callPos2 ld (p := p) hfn hn1 hn2 h1 h2 (by rfl) (by decide) (addArgs_plain' _ (by decide)) hp
  rwa [ends_with_str hp rfl rfl, wrapCall_ok] at this

theorem call_chr_valid {n : Int}
    (hfn : s.lookup env fname = some (.native "chr" inst)) (hn1 : NotSpread e1)
    (h1 : Ev ld k env e1 s (.ok (.int n) s1)) (hv : ValidCode n) :
    Ev ld (k + 3) env (.call (.ident fname p) [none] [e1] pos) s (.ok (.str [Char.ofNat n.toNat]) s1) := by
  obtain ⟨m, hp⟩ : ∃ m, callPure "chr" [("n", .int n)] (div0Value s1 env) pos = some m := ⟨_, rfl⟩
  have := Ev.callPos1 ld (p := p) hfn hn1 h1 (by rfl) (addArgs_plain' _ (by decide)) hp
  rwa [chr_valid hp rfl hv, wrapCall_ok] at this

/-- outside `range(0x110000)`: the runtime error, raised at the call position, the call recorded in the trace -/
theorem call_chr_out_of_range {n : Int}
    (hfn : s.lookup env fname = some (.native "chr" inst)) (hn1 : NotSpread e1)
    (h1 : Ev ld k env e1 s (.ok (.int n) s1)) (hv : n < 0 ∨ 0x110000 ≤ n) :
    Ev ld (k + 3) env (.call (.ident fname p) [none] [e1] pos) s
      (.err ERR "chr failed: ValueError" pos [("chr", pos)] s1) := by
  obtain ⟨m, hp⟩ : ∃ m, callPure "chr" [("n", .int n)] (div0Value s1 env) pos = some m := ⟨_, rfl⟩
  have := Ev.callPos1 ld (p := p) hfn hn1 h1 (by rfl) (addArgs_plain' _ (by decide)) hp
  rwa [chr_out_of_range hp rfl hv, wrapCall_err] at this

theorem call_ord_cons {c : Char} {cs : List Char}
    (hfn : s.lookup env fname = some (.native "ord" inst)) (hn1 : NotSpread e1)
    (h1 : Ev ld k env e1 s (.ok (.str (c :: cs)) s1)) :
    Ev ld (k + 3) env (.call (.ident fname p) [none] [e1] pos) s (.ok (.int c.toNat) s1) := by
  obtain ⟨m, hp⟩ : ∃ m, callPure "ord" [("ch", .str (c :: cs))] (div0Value s1 env) pos = some m := ⟨_, rfl⟩
  have := Ev.callPos1 ld (p := p) hfn hn1 h1 (by rfl) (addArgs_plain' _ (by decide)) hp
  rwa [ord_cons hp rfl, wrapCall_ok] at this

theorem call_ord_empty
    (hfn : s.lookup env fname = some (.native "ord" inst)) (hn1 : NotSpread e1)
    (h1 : Ev ld k env e1 s (.ok (.str []) s1)) :
    Ev ld (k + 3) env (.call (.ident fname p) [none] [e1] pos) s
      (.err ERR "ord failed: IndexError" pos [("ord", pos)] s1) := by
  obtain ⟨m, hp⟩ : ∃ m, callPure "ord" [("ch", .str [])] (div0Value s1 env) pos = some m := ⟨_, rfl⟩
  have := Ev.callPos1 ld (p := p) hfn hn1 h1 (by rfl) (addArgs_plain' _ (by decide)) hp
  rwa [ord_empty hp rfl, wrapCall_err] at this

theorem call_string_atom {v : RVal} {t : List Char}
    (hfn : s.lookup env fname = some (.native "string" inst)) (hn1 : NotSpread e1)
    (h1 : Ev ld k env e1 s (.ok v s1)) (hv : atomText v = some t) :
    Ev ld (k + 3) env (.call (.ident fname p) [none] [e1] pos) s (.ok (.str t) s1) := by
  obtain ⟨m, hp⟩ : ∃ m, callPure "string" [("obj", v)] (div0Value s1 env) pos = some m := ⟨_, rfl⟩
  have := Ev.callPos1 ld (p := p) hfn hn1 h1 (by rfl) (addArgs_plain' _ (by decide)) hp
  rwa [string_atom hp rfl hv, wrapCall_ok] at this

theorem call_string_null
    (hfn : s.lookup env fname = some (.native "string" inst)) (hn1 : NotSpread e1)
    (h1 : Ev ld k env e1 s (.ok .null s1)) :
    Ev ld (k + 3) env (.call (.ident fname p) [none] [e1] pos) s (.ok (.str []) s1) := by
  obtain ⟨m, hp⟩ : ∃ m, callPure "string" [("obj", .null)] (div0Value s1 env) pos = some m := ⟨_, rfl⟩
  have := Ev.callPos1 ld (p := p) hfn hn1 h1 (by rfl) (addArgs_plain' _ (by decide)) hp
  rwa [string_null hp rfl, wrapCall_ok] at this

/-! ### operator nodes -/

/-- `x + v`, `x` a string, `v` atomic and not NULL -/
theorem op_add_str_atom {x t : List Char} {v : RVal}
    (hfn : s.lookup env "add" = some (.native "add" inst)) (hn1 : NotSpread e1) (hn2 : NotSpread e2)
    (h1 : Ev ld k env e1 s (.ok (.str x) s1)) (h2 : Ev ld k env e2 s1 (.ok v s2)) (hv : atomText v = some t) :
    Ev ld (k + 4) env (Ckl.Parser.funcCallAB "add" e1 e2 pos) s (.ok (.str (x ++ t)) s2) := by
  obtain ⟨m, hp⟩ : ∃ m, callPure "add" [("a", .str x), ("b", v)] (div0Value s2 env) pos = some m := ⟨_, rfl⟩
  have := Ev.callAB ld (p := pos) (pos := pos) hfn hn1 hn2 h1 h2 (by rfl) hp
  rwa [add_str_atom hp rfl rfl hv, wrapCall_ok] at this

theorem op_add_atom_str {y t : List Char} {v : RVal}
    (hfn : s.lookup env "add" = some (.native "add" inst)) (hn1 : NotSpread e1) (hn2 : NotSpread e2)
    (h1 : Ev ld k env e1 s (.ok v s1)) (h2 : Ev ld k env e2 s1 (.ok (.str y) s2)) (hv : atomText v = some t) :
    Ev ld (k + 4) env (Ckl.Parser.funcCallAB "add" e1 e2 pos) s (.ok (.str (t ++ y)) s2) := by
  obtain ⟨m, hp⟩ : ∃ m, callPure "add" [("a", v), ("b", .str y)] (div0Value s2 env) pos = some m := ⟨_, rfl⟩
  have := Ev.callAB ld (p := pos) (pos := pos) hfn hn1 hn2 h1 h2 (by rfl) hp
  rwa [add_atom_str hp rfl rfl hv, wrapCall_ok] at this

theorem op_add_str_null {x : List Char}
    (hfn : s.lookup env "add" = some (.native "add" inst)) (hn1 : NotSpread e1) (hn2 : NotSpread e2)
    (h1 : Ev ld k env e1 s (.ok (.str x) s1)) (h2 : Ev ld k env e2 s1 (.ok .null s2)) :
    Ev ld (k + 4) env (Ckl.Parser.funcCallAB "add" e1 e2 pos) s (.ok .null s2) := by
  obtain ⟨m, hp⟩ : ∃ m, callPure "add" [("a", .str x), ("b", .null)] (div0Value s2 env) pos = some m := ⟨_, rfl⟩
  have := Ev.callAB ld (p := pos) (pos := pos) hfn hn1 hn2 h1 h2 (by rfl) hp
  rwa [add_str_null hp rfl rfl, wrapCall_ok] at this

theorem op_add_int {x y : Int}
    (hfn : s.lookup env "add" = some (.native "add" inst)) (hn1 : NotSpread e1) (hn2 : NotSpread e2)
    (h1 : Ev ld k env e1 s (.ok (.int x) s1)) (h2 : Ev ld k env e2 s1 (.ok (.int y) s2)) :
    Ev ld (k + 4) env (Ckl.Parser.funcCallAB "add" e1 e2 pos) s (.ok (.int (x + y)) s2) := by
  obtain ⟨m, hp⟩ : ∃ m, callPure "add" [("a", .int x), ("b", .int y)] (div0Value s2 env) pos = some m := ⟨_, rfl⟩
  have := Ev.callAB ld (p := pos) (pos := pos) hfn hn1 hn2 h1 h2 (by rfl) hp
  rwa [add_int_int hp rfl rfl, wrapCall_ok] at this

theorem op_greater_equals_int {x y : Int}
    (hfn : s.lookup env "greater_equals" = some (.native "greater_equals" inst))
    (hn1 : NotSpread e1) (hn2 : NotSpread e2)
    (h1 : Ev ld k env e1 s (.ok (.int x) s1)) (h2 : Ev ld k env e2 s1 (.ok (.int y) s2)) :
    Ev ld (k + 4) env (Ckl.Parser.funcCallAB "greater_equals" e1 e2 pos) s (.ok (.bool (decide (y ≤ x))) s2) := by
  obtain ⟨m, hp⟩ : ∃ m, callPure "greater_equals" [("a", .int x), ("b", .int y)] (div0Value s2 env) pos = some m :=
    ⟨_, rfl⟩
  have := Ev.callAB ld (p := pos) (pos := pos) hfn hn1 hn2 h1 h2 (by rfl) hp
  rwa [greater_equals_int hp rfl rfl, wrapCall_ok] at this

/-! ### the `in` node (its own node, not a call of `contains`) -/

/-- `x in c` on two strings: element first, then container; the same decision as `contains(c, x)` -/
theorem in_str {x t : List Char}
    (h1 : Ev ld k env e1 s (.ok (.str x) s1)) (h2 : Ev ld k env e2 s1 (.ok (.str t) s2)) :
    Ev ld (k + 1) env (.isIn e1 e2 pos) s (.ok (.bool (decide (0 ≤ Seq.find t x 0))) s2) := by
  intro f hf; obtain ⟨g, rfl, hg⟩ := succ_of_lt hf
  rw [eval, EvalM.bind_apply, h1 g (by omega)]
  simp only [EvalM.bind_apply, h2 g (by omega), getS, EvalM.pure_apply]

/-- a non-string element is never `in` a string (no conversion, no error) -/
theorem in_str_not_string {v : RVal} {t : List Char} (hv : ∀ x, v ≠ .str x)
    (h1 : Ev ld k env e1 s (.ok v s1)) (h2 : Ev ld k env e2 s1 (.ok (.str t) s2)) :
    Ev ld (k + 1) env (.isIn e1 e2 pos) s (.ok (.bool false) s2) := by
  intro f hf; obtain ⟨g, rfl, hg⟩ := succ_of_lt hf
  rw [eval, EvalM.bind_apply, h1 g (by omega)]
  simp only [EvalM.bind_apply, h2 g (by omega), getS, EvalM.pure_apply]

end calls
end Ckl.C18Eval
