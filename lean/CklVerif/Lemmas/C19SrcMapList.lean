import CklVerif.Lemmas.C19SrcL1ForEach
import CklVerif.Lemmas.C18SrcJoin
import CklVerif.Lemmas.C19SrcSet

/-! C19Src — list.ckl `map_list(lst, f) = [f(element) for element in lst]` (after the guard that swaps the arguments when `lst` is a
    function): the rules for a single-variable LIST COMPREHENSION without filter (`comprLoop`, its own frame `lenv` under the current
    frame), and the function on a list cell with `f` a function value whose call on every element ends normally. -/
namespace Ckl.C19Src
open Ckl Ckl.C03 Ckl.Gen.LibSrc
variable (ld : Loader)

/-! ### the comprehension loop -/

/-- **Invariant rule for `[ve for x in xs]`** (`comprLoop`, kind list, no filter): `I i out s` — before the element with index `i`,
    `out` the values collected so far; every step evaluates `ve` in the comprehension frame after binding `x` -/
theorem comprLoop_list_inv {kb : Nat} {lenv : EnvId} {x : String} {ve ke : Node} {pos : Pos} (xs : List RVal)
    (I : Nat → List RVal → State → Prop)
    (hstep : ∀ i out s v, I i out s → xs[i]? = some v →
      ∃ r s', Ev ld kb lenv ve (s.put lenv x v) (.ok r s') ∧ I (i + 1) (out ++ [r]) s') :
    ∀ (n i : Nat) (acc : List (RVal × RVal)) (s : State), i + n = xs.length → I i (acc.map (·.2)) s →
      ∃ acc' s', I xs.length (acc'.map (·.2)) s' ∧
        ∀ f, kb + n + 2 < f → comprLoop ld f lenv .list ve ke .absent pos [(x, xs.drop i)] acc s = .ok acc' s' := by
  intro n
  induction n with
  | zero =>
    intro i acc s hi hI
    refine ⟨acc, s, by rw [← hi]; simpa using hI, fun f hf => ?_⟩
    obtain ⟨g, rfl, _⟩ := succ_of_lt hf
    have : xs.drop i = [] := by rw [List.drop_eq_nil_iff]; omega
    rw [this, comprLoop]
    · rfl
    · intro _ _ _ h; cases h
  | succ n ih =>
    intro i acc s hi hI
    have hlt : i < xs.length := by omega
    obtain ⟨r1, s1, hb, hI1⟩ := hstep i _ s xs[i] hI (List.getElem?_eq_getElem hlt)
    have hI1' : I (i + 1) ((acc ++ [(RVal.null, r1)]).map (·.2)) s1 := by simpa using hI1
    obtain ⟨acc2, s2, hI2, hloop⟩ := ih (i + 1) (acc ++ [(.null, r1)]) s1 (by omega) hI1'
    refine ⟨acc2, s2, hI2, fun f hf => ?_⟩
    obtain ⟨g, rfl, hg⟩ := succ_of_lt hf
    obtain ⟨g1, rfl, hg1⟩ := succ_of_lt (show 0 < g by omega)
    have hd : xs.drop i = xs[i] :: xs.drop (i + 1) := List.drop_eq_getElem_cons hlt
    rw [hd, comprLoop]
    simp only [EvalM.bind_apply, modifyS]
    rw [comprStep]
    · simp only [EvalM.bind_apply, EvalM.pure_apply, if_true, Bool.false_eq_true, if_false]
      simp only [hb g1 (by omega)]
      exact hloop (g1 + 1) (by omega)
    · intro h; cases h

/-- the comprehension node `[ve for x in l1]` over a list cell, given the loop proper: a new frame under the current one, the
    snapshot of the list, the loop, then a NEW list cell with the collected values -/
theorem Ev.comprList {k kl env x ve ke l1 w1 id2 l2 w2 pos s a s1 xs acc' s2}
    (he : Ev ld k env l1 (s.newEnv env).1 (.ok (.ref a) s1)) (hc : s1.cell a = some (.list xs))
    (hloop : ∀ f, kl < f → comprLoop ld f s.frames.size .list ve ke .absent pos [(x, xs)] [] s1 = .ok acc' s2) :
    Ev ld (max k kl + 1) env (.compr .list .single ve ke x l1 w1 id2 l2 w2 .absent pos) s
      (.ok (.ref s2.heap.size) (s2.alloc (.list (acc'.map (·.2)))).1) := by
  intro f hf; obtain ⟨g, rfl, hg⟩ := succ_of_lt hf
  rw [eval]
  simp only [EvalM.bind_apply, getS, setS]
  have he' := he g (by omega)
  simp only [State.newEnv] at he' ⊢
  rw [he']
  simp only [collectionValues, EvalM.bind_apply, getS, cellOf, hc, EvalM.pure_apply, hloop g (by omega), comprResult, newList,
    allocM]
  rfl

/-! ### lookups from the comprehension frame -/

/-- a name bound in the parent frame `c` and not in the comprehension frame `lenv` -/
theorem lookup_child {st : State} {lenv c : EnvId} {x : String} {v : RVal}
    (hx : dictGet x (st.frame lenv).vars = none) (hp : (st.frame lenv).parent = some c)
    (hv : dictGet x (st.frame c).vars = some v) (hc : c < st.frames.size) : st.lookup lenv x = some v := by
  unfold State.lookup
  have hpos : 0 < st.frames.size := Nat.lt_of_le_of_lt (Nat.zero_le c) hc
  obtain ⟨n, hn⟩ : ∃ n, st.frames.size = n + 1 := ⟨st.frames.size - 1, by omega⟩
  rw [hn, State.lookupF]; simp only [hx, hp]
  rw [State.lookupF]; simp only [hv]

theorem lookup_own {st : State} {lenv : EnvId} {x : String} {v : RVal}
    (hx : dictGet x (st.frame lenv).vars = some v) : st.lookup lenv x = some v := by
  unfold State.lookup
  rw [State.lookupF]; simp only [hx]

/-! ### list.ckl `map_list` -/

local notation "bp" => blockPos (lamBody list_map_list)

def mapListNats : List String := ["type", "equals"]

structure MapInv (s : State) (c m lenv : EnvId) (a : Nat) (fv : RVal) (g : RVal → RVal) (xs : List RVal) (i : Nat)
    (out : List RVal) (st : State) : Prop where
  ext : Ext s st
  out : out = (xs.take i).map g
  cvars : (st.frame c).vars = [("lst", .ref a), ("f", fv)]
  lpar : (st.frame lenv).parent = some c
  llt : lenv < st.frames.size
  lvars : (st.frame lenv).vars = [] ∨ ∃ w, (st.frame lenv).vars = [("element", w)]

/-- the body of `map_list` on a list cell; `f` a function value whose call on every element `v` yields `g v` and only extends the
    state -/
theorem map_list_body {s s0 : State} {M nats srcs m} {a : Nat} {xs : List RVal} {fv : RVal} {g : RVal → RVal} {kf : Nat}
    (ctx : Ctx s0 M nats srcs s.frames.size m [("lst", .ref a), ("f", fv)]) (e0 : Ext s s0)
    (hn : ∀ x ∈ mapListNats, x ∈ nats) (hc : s.cell a = some (.list xs))
    (hf : ∀ v ∈ xs, ∀ st, Ext s st → ∃ st', CallNode1_L1 ld kf fv v st (g v) st' ∧ Ext st st') :
    ∃ r s', Ev ld (kf + xs.length + 12) s.frames.size (lamBody list_map_list) s0 (.ok (.ref r) s') ∧
      (Ext s s' ∧ s.heap.size ≤ r ∧ s'.cell r = some (.list (xs.map g))) := by
  unfold lamBody list_map_list
  simp only []
  generalize hK : kf + xs.length + 9 = K
  have ha : a < s.heap.size := cell_lt hc
  have ctx0 : Ctx (ghostEnter s0 bp) M nats srcs s.frames.size m [("lst", .ref a), ("f", fv)] :=
    ctx.ext ((Ext.refl s0).ghostEnter _)
  have e0' : Ext s (ghostEnter s0 bp) := e0.ghostEnter _
  have hca0 : (ghostEnter s0 bp).cell a = some (.list xs) := by rw [e0'.cell a ha]; exact hc
  -- statement 1: the guard `if type(lst) == 'func' then …` is FALSE for a list cell
  have S1 : ∀ p1 p2 p3 p4 p5 p6 xn els p7, Ev ld K s.frames.size
      (.ite [.call (.ident "equals" p1) [some "a", some "b"]
          [.call (.ident "type" p2) [none] [.ident "lst" p3] p4, .lit (.str ['f', 'u', 'n', 'c']) p5] p6] [xn]
        (.lit (.bool true) els) p7) (ghostEnter s0 bp) (.ok (.bool true) (ghostEnter s0 bp)) := by
    intro p1 p2 p3 p4 p5 p6 xn els p7
    have A := C18Src.typeEq_ev ld (x := "lst") (tn := ['f', 'u', 'n', 'c']) (p1 := p1) (p2 := p2) (p3 := p3) (p4 := p4)
      (p5 := p5) (p6 := p6) ctx0 hn (by rfl) (by rfl) (by rfl)
    have hty : ((typeName (ghostEnter s0 bp) (.ref a)).toList == ['f', 'u', 'n', 'c']) = false := by
      simp [typeName, hca0]
    rw [hty] at A
    exact Ev.mono ld (Ev.ite ld (EvIf.false ld A (EvIf.else ld (Ev.litBool ld)))) (by omega)
  -- statement 2: the comprehension
  let t0 := ghostEnter s0 bp
  let lenv := t0.frames.size
  let t1 := (t0.newEnv s.frames.size).1
  have hclt0 : s.frames.size < t0.frames.size := ctx0.clt
  have E1 : Ext s t1 := e0'.newEnv _
  have hcv1 : (t1.frame s.frames.size).vars = [("lst", .ref a), ("f", fv)] := by
    rw [frame_newEnv_old _ _ hclt0]; exact ctx0.fr.vars
  have inv0 : MapInv s s.frames.size m lenv a fv g xs 0 [] t1 :=
    ⟨E1, rfl, hcv1, by rw [frame_newEnv_new], by rw [frames_size_newEnv]; exact Nat.lt_succ_self _,
      Or.inl (by rw [frame_newEnv_new])⟩
  have hne : (s.frames.size : Nat) ≠ lenv := Nat.ne_of_lt hclt0
  have hstep : ∀ q1 q2 q3, ∀ i out st v, MapInv s s.frames.size m lenv a fv g xs i out st → xs[i]? = some v →
      ∃ r s', Ev ld kf lenv (.call (.ident "f" q1) [none] [.ident "element" q2] q3) (st.put lenv "element" v) (.ok r s') ∧
        MapInv s s.frames.size m lenv a fv g xs (i + 1) (out ++ [r]) s' := by
    intro q1 q2 q3 i out st v inv hv
    have eu : Ext s (st.put lenv "element" v) := inv.ext.put (Nat.le_of_lt hclt0) _ _
    have hlv : ((st.put lenv "element" v).frame lenv).vars = [("element", v)] := by
      rw [vars_put_same _ _ _ inv.llt]
      rcases inv.lvars with h | ⟨w, h⟩ <;> rw [h] <;> simp [dictPut]
    have hlp : ((st.put lenv "element" v).frame lenv).parent = some s.frames.size := by rw [parent_put]; exact inv.lpar
    have hcv : ((st.put lenv "element" v).frame s.frames.size).vars = [("lst", .ref a), ("f", fv)] := by
      rw [frame_put_other _ _ _ hne]; exact inv.cvars
    have hllt : lenv < (st.put lenv "element" v).frames.size := by rw [frames_size_put]; exact inv.llt
    have hclt : s.frames.size < (st.put lenv "element" v).frames.size := Nat.lt_trans hclt0 hllt
    obtain ⟨st', hcall, e'⟩ := hf v (List.mem_of_getElem? hv) _ eu
    have hlf : (st.put lenv "element" v).lookup lenv "f" = some fv :=
      lookup_child (by rw [hlv]; rfl) hlp (by rw [hcv]; rfl) hclt
    have hle : (st.put lenv "element" v).lookup lenv "element" = some v := lookup_own (by rw [hlv]; rfl)
    refine ⟨g v, st', hcall lenv "f" q1 (.ident "element" q2) q3 hlf (by trivial) (Ev.ident ld hle),
      ⟨eu.trans e', ?_, ?_, ?_, Nat.lt_of_lt_of_le hllt e'.fsize, Or.inr ⟨v, ?_⟩⟩⟩
    · rw [inv.out, List.take_add_one, hv]; simp
    · rw [e'.frame _ hclt]; exact hcv
    · rw [e'.frame _ hllt]; exact hlp
    · rw [e'.frame _ hllt]; exact hlv
  have S2 : ∀ q1 q2 q3 p0 ke w1 id2 l2 w2 p9, ∃ r t3, Ev ld K s.frames.size
      (.compr .list .single (.call (.ident "f" q1) [none] [.ident "element" q2] q3) ke "element" (.ident "lst" p0) w1 id2 l2 w2
        .absent p9) t0 (.ok (.ref r) t3) ∧ Ext s t3 ∧ s.heap.size ≤ r ∧ t3.cell r = some (.list (xs.map g)) := by
    intro q1 q2 q3 p0 ke w1 id2 l2 w2 p9
    obtain ⟨acc', t2, inv, hloop⟩ := comprLoop_list_inv ld (kb := kf) (lenv := lenv) (x := "element") (ke := ke) (pos := p9) xs
      (MapInv s s.frames.size m lenv a fv g xs) (hstep q1 q2 q3) xs.length 0 [] t1 (by omega) inv0
    rw [List.drop_zero] at hloop
    have hl1 : t1.lookup s.frames.size "lst" = some (.ref a) := lookup_own (by rw [hcv1]; rfl)
    have hca1 : t1.cell a = some (.list xs) := by rw [E1.cell a ha]; exact hc
    have A := Ev.comprList ld (k := 0) (kl := kf + xs.length + 2) (w1 := w1) (id2 := id2) (l2 := l2) (w2 := w2)
      (Ev.ident ld (p := p0) hl1) hca1 hloop
    refine ⟨_, _, Ev.mono ld A (by omega), inv.ext.alloc _, Nat.le_trans inv.ext.hsize (Nat.le_refl _), ?_⟩
    rw [cell_alloc_new, inv.out, List.take_length]
  obtain ⟨r, t3, hS2, E3, hr, hcr⟩ := S2 _ _ _ _ _ _ _ _ _ _
  refine ⟨r, ghostFin t3 bp, ?_, E3.ghostFin _, hr, hcr⟩
  exact Ev.mono ld (k := K + 2 + 1) (Ev.block ld (b := false) (pos := bp)
    (EvBody.cons ld (Ev.mono ld (S1 _ _ _ _ _ _ _ _ _) (show K ≤ K + 1 by omega)) rfl
      (EvBody.cons ld hS2 rfl (EvBody.nil ld)))) (by omega)

/-- `fn.execute(lst = a list cell, f = fv)` of the function made from the source of `map_list` -/
theorem map_list_calls {s : State} {M nats srcs fn m} (h : LibEnv s M nats srcs) (hn : ∀ x ∈ mapListNats, x ∈ nats) (hm : M m)
    (hsrc : IsSrc s fn list_map_list m) (a : Nat) (xs : List RVal) (fv : RVal) (g : RVal → RVal) (kf : Nat)
    (hc : s.cell a = some (.list xs))
    (hf : ∀ v ∈ xs, ∀ st, Ext s st → ∃ st', CallNode1_L1 ld kf fv v st (g v) st' ∧ Ext st st') :
    ∃ r s', (Ext s s' ∧ s.heap.size ≤ r ∧ s'.cell r = some (.list (xs.map g))) ∧
      ∀ env pos, Calls ld (kf + xs.length + 13) fn [("lst", .ref a), ("f", fv)] env pos s (.ok (.ref r) s') := by
  obtain ⟨r, s', hQ, c⟩ := calls_of_body2E ld (src := list_map_list) (Q := fun r s' =>
      Ext s s' ∧ s.heap.size ≤ r ∧ s'.cell r = some (.list (xs.map g))) rfl rfl rfl (by omega) (by decide) h hm hsrc (.ref a) fv
    (fun s0 ctx e0 _ => map_list_body ld ctx e0 hn hc hf)
  exact ⟨r, s', hQ, c⟩

theorem mapListM_eq_map {α β} (f : α → β) (xs : List α) : Lib.mapListM f xs = xs.map f := by
  induction xs with
  | nil => rfl
  | cons x xs ih => simp [Lib.mapListM, ih]

end Ckl.C19Src
