/-
  C10 (sessions): the helper programs of the evaluator do not read the ghost counters.
-/
import CklVerif.Lemmas.C10SessGhost
namespace Ckl.C10S
open Ckl Ckl.C05


/-! ### EvalBase -/

theorem R2.bindNamed (sp : ArgSpec) (pos : Pos) (ns : List (Option String)) (vs : List RVal)
    (args : List (String × RVal)) : GI (bindNamed sp pos ns vs args) := by
  induction ns generalizing vs args with
  | nil => unfold Ckl.bindNamed; r2_auto
  | cons n ns ih =>
    cases vs with
    | nil => unfold Ckl.bindNamed; r2_auto
    | cons v vs => unfold Ckl.bindNamed; r2_auto
macro_rules | `(tactic| r2_lemma) => `(tactic| exact R2.bindNamed _ _ _ _ _)

theorem R2.bindPositional (sp : ArgSpec) (pos : Pos) (ns : List (Option String)) (vs : List RVal)
    (kw : Bool) (args : List (String × RVal)) (rest : List RVal) :
    GI (bindPositional sp pos ns vs kw args rest) := by
  induction ns generalizing vs kw args rest with
  | nil => unfold Ckl.bindPositional; r2_auto
  | cons n ns ih =>
    cases vs with
    | nil => unfold Ckl.bindPositional; r2_auto
    | cons v vs => unfold Ckl.bindPositional; r2_auto
macro_rules | `(tactic| r2_lemma) => `(tactic| exact R2.bindPositional _ _ _ _ _ _ _)

theorem R2.setArgs (ps : List String) (ns : List (Option String)) (vs : List RVal) (pos : Pos) :
    GI (setArgs ps ns vs pos) := by
  unfold Ckl.setArgs; r2_auto
macro_rules | `(tactic| r2_lemma) => `(tactic| exact R2.setArgs _ _ _ _)

theorem R2.argGet (args : List (String × RVal)) (n : String) (pos : Pos) : GI (argGet args n pos) := by
  unfold Ckl.argGet; r2_auto
macro_rules | `(tactic| r2_lemma) => `(tactic| exact R2.argGet _ _ _)

theorem R2.getIndex (v : RVal) (pos : Pos) : GI (getIndex v pos) := by
  unfold Ckl.getIndex; r2_auto
macro_rules | `(tactic| r2_lemma) => `(tactic| exact R2.getIndex _ _)

theorem R2.asStringM (v : RVal) (pos : Pos) : GI (asStringM v pos) := by
  unfold Ckl.asStringM; r2_auto
macro_rules | `(tactic| r2_lemma) => `(tactic| exact R2.asStringM _ _)


/-! ### Natives.lean helpers -/

theorem R2.floatResult (x : Float) (pos : Pos) (w : String) : GI (floatResult x pos w) := by
  unfold Ckl.floatResult; r2_auto
macro_rules | `(tactic| r2_lemma) => `(tactic| exact R2.floatResult _ _ _)

theorem R2.listItems (v : RVal) : GI (listItems v) := by
  unfold Ckl.listItems; r2_auto
macro_rules | `(tactic| r2_lemma) => `(tactic| exact R2.listItems _)

theorem R2.collAsList (c : Cell) : GI (collAsList c) := by
  unfold Ckl.collAsList; r2_auto
macro_rules | `(tactic| r2_lemma) => `(tactic| exact R2.collAsList _)

theorem R2.addSet (xs : List RVal) : GI (addSet xs) := by
  unfold Ckl.addSet; r2_auto
macro_rules | `(tactic| r2_lemma) => `(tactic| exact R2.addSet _)

theorem R2.cmpLt (a b : RVal) : GI (cmpLt a b) := by
  unfold Ckl.cmpLt; r2_auto
macro_rules | `(tactic| r2_lemma) => `(tactic| exact R2.cmpLt _ _)

theorem R2.cmpGt (a b : RVal) : GI (cmpGt a b) := by
  unfold Ckl.cmpGt; r2_auto
macro_rules | `(tactic| r2_lemma) => `(tactic| exact R2.cmpGt _ _)

theorem R2.asListArg (v : RVal) (pos : Pos) : GI (asListArg v pos) := by
  unfold Ckl.asListArg; r2_auto
macro_rules | `(tactic| r2_lemma) => `(tactic| exact R2.asListArg _ _)

theorem R2.asSetArg (v : RVal) (pos : Pos) : GI (asSetArg v pos) := by
  unfold Ckl.asSetArg; r2_auto
macro_rules | `(tactic| r2_lemma) => `(tactic| exact R2.asSetArg _ _)

/-! ### Eval.lean helpers -/

theorem R2.destructure (v : RVal) (n : Nat) (pos : Pos) : GI (destructure v n pos) := by
  unfold Ckl.destructure; r2_auto
macro_rules | `(tactic| r2_lemma) => `(tactic| exact R2.destructure _ _ _)

theorem R2.bindLoopVars (env : EnvId) (ids : List String) (v : RVal) (pos : Pos) :
    GI (bindLoopVars env ids v pos) := by
  unfold Ckl.bindLoopVars; r2_auto
macro_rules | `(tactic| r2_lemma) => `(tactic| exact R2.bindLoopVars _ _ _ _)

theorem R2.removeVars (env : EnvId) (ids : List String) : GI (removeVars env ids) := by
  unfold Ckl.removeVars; r2_auto
macro_rules | `(tactic| r2_lemma) => `(tactic| exact R2.removeVars _ _)

theorem R2.spreadValues (v : RVal) (pos : Pos) : GI (spreadValues v pos) := by
  unfold Ckl.spreadValues; r2_auto
macro_rules | `(tactic| r2_lemma) => `(tactic| exact R2.spreadValues _ _)

theorem R2.collectionValues (v : RVal) (w : Option String) (pos : Pos) :
    GI (collectionValues v w pos) := by
  unfold Ckl.collectionValues; r2_auto
macro_rules | `(tactic| r2_lemma) => `(tactic| exact R2.collectionValues _ _ _)

theorem R2.renameClosure (v : RVal) (n : String) : GI (renameClosure v n) := by
  unfold Ckl.renameClosure; r2_auto
macro_rules | `(tactic| r2_lemma) => `(tactic| exact R2.renameClosure _ _)

theorem R2.assignAll (env : EnvId) (xs : List String) (items : List RVal) (i : Nat) (last : RVal)
    (pos : Pos) : GI (assignAll env xs items i last pos) := by
  induction xs generalizing i last with
  | nil => unfold Ckl.assignAll; r2_auto
  | cons x xs ih => unfold Ckl.assignAll; r2_auto
macro_rules | `(tactic| r2_lemma) => `(tactic| exact R2.assignAll _ _ _ _ _ _)

theorem R2.defAll (env : EnvId) (xs : List String) (items : List RVal) (i : Nat) (last : RVal) :
    GI (defAll env xs items i last) := by
  induction xs generalizing i last with
  | nil => unfold Ckl.defAll; r2_auto
  | cons x xs ih => unfold Ckl.defAll; r2_auto
macro_rules | `(tactic| r2_lemma) => `(tactic| exact R2.defAll _ _ _ _ _)

theorem R2.comprResult (k : ComprKind) (out : List (RVal × RVal)) : GI (comprResult k out) := by
  unfold Ckl.comprResult; r2_auto
macro_rules | `(tactic| r2_lemma) => `(tactic| exact R2.comprResult _ _)

end Ckl.C10S
