import CklVerif.Proofs.C19Src
import CklVerif.Lemmas.C19SrcAnyL2
import CklVerif.Lemmas.C19SrcChunksBodyL2

/-!
  C19Src (worker L2) — property theorems about the SOURCE of core.ckl `any`, `all`, `chunks` (`Gen/LibSrc.lean`:
  `core_any`, `core_all`, `core_chunks`).  Same form as `Proofs/C19Src.lean`: under `LibEnv s M nats srcs`, `IsSrc s fn <def> m`,
  `M m`: `∃ s', Ext s s' ∧ … ∧ ∀ fuel env pos, K < fuel → callFn ld fuel fn args env pos s = .ok v s'`.
-/
namespace Ckl.C19Src
open Ckl Ckl.Lib Ckl.Gen.LibSrc
variable (ld : Loader)

/-! ## L2.1  core.ckl `any`, `all` — a `return` inside a `for`, a LAMBDA as parameter default -/

theorem anyM_eq_any_L2 {α} (p : α → Bool) (xs : List α) : anyM p xs = xs.any p := by
  induction xs with
  | nil => rfl
  | cons x xs ih => simp only [anyM, List.any_cons, ih]; cases p x <;> rfl

theorem allM_eq_all_L2 {α} (p : α → Bool) (xs : List α) : allM p xs = xs.all p := by
  induction xs with
  | nil => rfl
  | cons x xs ih => simp only [allM, List.all_cons, ih]; cases p x <;> rfl

/-- **`any(lst)` with the DEFAULT predicate** (`pred` not passed: `fn(x) x` is evaluated in the callee frame): on a cell holding a
    list of booleans the result is `bs.any id` (the loop `return`s TRUE at the first TRUE element, else FALSE after the loop);
    nothing that existed is changed; fuel bound `bs.length + 14`.  No built-in and no other library function is needed. -/
theorem any_src_default {s : State} {M nats srcs fn m} (h : LibEnv s M nats srcs) (hm : M m) (hsrc : IsSrc s fn core_any m)
    (a : Nat) (bs : List Bool) (hc : s.cell a = some (.list (bs.map .bool))) :
    ∃ s', Ext s s' ∧ s'.cell a = some (.list (bs.map .bool)) ∧
      ∀ fuel env pos, bs.length + 14 < fuel → callFn ld fuel fn [("lst", .ref a)] env pos s = .ok (.bool (bs.any id)) s' := by
  obtain ⟨s', e, c⟩ := any_calls_default ld h hm hsrc a bs hc
  exact ⟨s', e, by rw [e.cell a (cell_lt hc)]; exact hc, fun fuel env pos hf => c env pos fuel hf⟩

/-- … which is the hand-written mirror `Lib.anyM` -/
theorem any_src_default_eq_mirror {s : State} {M nats srcs fn m} (h : LibEnv s M nats srcs) (hm : M m)
    (hsrc : IsSrc s fn core_any m) (a : Nat) (bs : List Bool) (hc : s.cell a = some (.list (bs.map .bool))) :
    ∃ s', Ext s s' ∧ s'.cell a = some (.list (bs.map .bool)) ∧
      ∀ fuel env pos, bs.length + 14 < fuel → callFn ld fuel fn [("lst", .ref a)] env pos s = .ok (.bool (anyM id bs)) s' := by
  rw [anyM_eq_any_L2]; exact any_src_default ld h hm hsrc a bs hc

/-- **`all(lst)` with the default predicate**: `bs.all id`; fuel bound `bs.length + 14` -/
theorem all_src_default {s : State} {M nats srcs fn m} (h : LibEnv s M nats srcs) (hm : M m) (hsrc : IsSrc s fn core_all m)
    (a : Nat) (bs : List Bool) (hc : s.cell a = some (.list (bs.map .bool))) :
    ∃ s', Ext s s' ∧ s'.cell a = some (.list (bs.map .bool)) ∧
      ∀ fuel env pos, bs.length + 14 < fuel → callFn ld fuel fn [("lst", .ref a)] env pos s = .ok (.bool (bs.all id)) s' := by
  obtain ⟨s', e, c⟩ := all_calls_default ld h hm hsrc a bs hc
  exact ⟨s', e, by rw [e.cell a (cell_lt hc)]; exact hc, fun fuel env pos hf => c env pos fuel hf⟩

theorem all_src_default_eq_mirror {s : State} {M nats srcs fn m} (h : LibEnv s M nats srcs) (hm : M m)
    (hsrc : IsSrc s fn core_all m) (a : Nat) (bs : List Bool) (hc : s.cell a = some (.list (bs.map .bool))) :
    ∃ s', Ext s s' ∧ s'.cell a = some (.list (bs.map .bool)) ∧
      ∀ fuel env pos, bs.length + 14 < fuel → callFn ld fuel fn [("lst", .ref a)] env pos s = .ok (.bool (allM id bs)) s' := by
  rw [allM_eq_all_L2]; exact all_src_default ld h hm hsrc a bs hc

/-- **`any(lst, pred)` with an explicitly passed unary built-in** `pred = .native nm i` that computes the boolean `g v` on every
    element of the list (`BoolOp_L2`; instance below: `is_null`): the result is `xs.any g`; fuel bound `xs.length + 14`. -/
theorem any_src_native {s : State} {M nats srcs fn m} (h : LibEnv s M nats srcs) (hm : M m) (hsrc : IsSrc s fn core_any m)
    (a : Nat) (xs : List RVal) (hc : s.cell a = some (.list xs)) {nm q : String} {rest : List String} {g : RVal → Bool}
    (hop : BoolOp_L2 nm q rest g xs) (i : Nat) :
    ∃ s', Ext s s' ∧ s'.cell a = some (.list xs) ∧
      ∀ fuel env pos, xs.length + 14 < fuel →
        callFn ld fuel fn [("lst", .ref a), ("pred", .native nm i)] env pos s = .ok (.bool (xs.any g)) s' := by
  obtain ⟨s', e, c⟩ := any_calls_pred ld h hm hsrc a xs hc (predOK_native_L2 ld hop i) (fun _ _ => trivial)
  exact ⟨s', e, by rw [e.cell a (cell_lt hc)]; exact hc, fun fuel env pos hf => c env pos fuel hf⟩

/-- `all(lst, pred)` with an explicitly passed unary built-in: `xs.all g` -/
theorem all_src_native {s : State} {M nats srcs fn m} (h : LibEnv s M nats srcs) (hm : M m) (hsrc : IsSrc s fn core_all m)
    (a : Nat) (xs : List RVal) (hc : s.cell a = some (.list xs)) {nm q : String} {rest : List String} {g : RVal → Bool}
    (hop : BoolOp_L2 nm q rest g xs) (i : Nat) :
    ∃ s', Ext s s' ∧ s'.cell a = some (.list xs) ∧
      ∀ fuel env pos, xs.length + 14 < fuel →
        callFn ld fuel fn [("lst", .ref a), ("pred", .native nm i)] env pos s = .ok (.bool (xs.all g)) s' := by
  obtain ⟨s', e, c⟩ := all_calls_pred ld h hm hsrc a xs hc (predOK_native_L2 ld hop i) (fun _ _ => trivial)
  exact ⟨s', e, by rw [e.cell a (cell_lt hc)]; exact hc, fun fuel env pos hf => c env pos fuel hf⟩

/-- an instance of `BoolOp_L2`: the built-in `is_null` on ANY list -/
theorem boolOp_is_null_L2 (xs : List RVal) : BoolOp_L2 "is_null" "obj" [] RVal.isNull xs :=
  ⟨by rfl, by decide, fun v _ d pos s => ⟨_, pure_is_null v d pos, rfl⟩⟩

/-! ## L2.2  core.ckl `chunks` on a list — `while` with invariant and variant, assignment to the parameter `obj` -/

/-- **The source of `chunks` on a list cell, `chunk_size > 0`** (the REPAIRED source: the last chunk is the copy
    `obj !> sublist(0)`).  `obj` a cell `a` holding `xs`: the value is a reference to a FRESH cell `b` (`s.heap.size ≤ b`) holding
    references to cells `cs` that are all FRESH, pairwise different, different from `b` and from the argument cell `a`, and whose
    contents are, in order, the chunks `chunksGo k xs` (`xs.take k`, then the chunks of `xs.drop k`, … the last one the rest, also
    when it is empty); the argument cell still holds `xs` and nothing else that existed is changed (`Ext`).
    Fuel bound `2 * xs.length + 24`.  Needs the built-ins `chunksNats` and the library function `is_list`. -/
theorem chunks_src_list {s : State} {M nats srcs fn m} (h : LibEnv s M nats srcs) (hn : ∀ x ∈ chunksNats, x ∈ nats)
    (hs : ∀ p ∈ firstSrcs, p ∈ srcs) (hm : M m) (hsrc : IsSrc s fn core_chunks m) (a : Nat) (xs : List RVal) (k : Int)
    (hk : 0 < k) (hc : s.cell a = some (.list xs)) :
    ∃ (s' : State) (b : Nat) (cs : List Nat), Ext s s' ∧ s.heap.size ≤ b ∧ b ≠ a ∧ s'.cell b = some (.list (cs.map .ref)) ∧
      (∀ ci ∈ cs, s.heap.size ≤ ci ∧ ci ≠ b ∧ ci ≠ a) ∧ cs.Nodup ∧
      cs.map s'.cell = (chunksGo k.toNat xs).map (fun ch => some (.list ch)) ∧
      s'.cell a = some (.list xs) ∧
      ∀ fuel env pos, 2 * xs.length + 24 < fuel →
        callFn ld fuel fn [("obj", .ref a), ("chunk_size", .int k)] env pos s = .ok (.ref b) s' := by
  obtain ⟨s', cs, e, res, c⟩ := chunks_calls_list ld h hn hs hm hsrc a xs k hk hc
  have ha : a < s.heap.size := cell_lt hc
  refine ⟨s', s.heap.size, cs, e, Nat.le_refl _, by omega, res.cellb, ?_, res.nodup, res.cells,
    by rw [e.cell a ha]; exact hc, fun fuel env pos hf => c env pos fuel hf⟩
  intro ci hci
  obtain ⟨h1, h2⟩ := res.fresh ci hci
  exact ⟨h1, h2, by omega⟩

/-- … stated with the hand-written mirror `Lib.chunksM` -/
theorem chunks_src_eq_mirror {s : State} {M nats srcs fn m} (h : LibEnv s M nats srcs) (hn : ∀ x ∈ chunksNats, x ∈ nats)
    (hs : ∀ p ∈ firstSrcs, p ∈ srcs) (hm : M m) (hsrc : IsSrc s fn core_chunks m) (a : Nat) (xs : List RVal) (k : Int)
    (chs : List (List RVal)) (hchs : chunksM xs k = some chs) (hc : s.cell a = some (.list xs)) :
    ∃ (s' : State) (b : Nat) (cs : List Nat), Ext s s' ∧ s.heap.size ≤ b ∧ b ≠ a ∧ s'.cell b = some (.list (cs.map .ref)) ∧
      (∀ ci ∈ cs, s.heap.size ≤ ci ∧ ci ≠ b ∧ ci ≠ a) ∧ cs.Nodup ∧
      cs.map s'.cell = chs.map (fun ch => some (.list ch)) ∧
      s'.cell a = some (.list xs) ∧
      ∀ fuel env pos, 2 * xs.length + 24 < fuel →
        callFn ld fuel fn [("obj", .ref a), ("chunk_size", .int k)] env pos s = .ok (.ref b) s' := by
  unfold chunksM at hchs
  by_cases hk : k ≤ 0
  · rw [if_pos hk] at hchs; cases hchs
  · rw [if_neg hk] at hchs; cases hchs
    exact chunks_src_list ld h hn hs hm hsrc a xs k (by omega) hc

/-- **`chunk_size <= 0`** (any `obj`): exactly the runtime error `chunk_size must be positive` (the error VALUE is the message),
    raised at the `error` node of the guard; fuel bound 10.  (`chunksM xs k = none` in this case.) -/
theorem chunks_src_nonpositive {s : State} {M nats srcs fn m} (h : LibEnv s M nats srcs) (hn : ∀ x ∈ chunksNats, x ∈ nats)
    (hm : M m) (hsrc : IsSrc s fn core_chunks m) (v : RVal) (k : Int) (hk : k ≤ 0) :
    ∃ s', Ext s s' ∧ ∀ fuel env pos, 10 < fuel →
      callFn ld fuel fn [("obj", v), ("chunk_size", .int k)] env pos s =
        .err (.str "chunk_size must be positive".toList) "" (chunksErrPos_L2 (lamBody core_chunks)) [] s' := by
  obtain ⟨s', e, c⟩ := chunks_calls_err ld h hn hm hsrc v k hk
  exact ⟨s', e, fun fuel env pos hf => c env pos fuel hf⟩

/-! ## L2.3  the hypotheses are satisfiable -/

/-- the definitions of this file's functions (and `is_list`, which `chunks` calls) -/
def defs_L2 : List Node := [type_is_list, core_any, core_all, core_chunks]

theorem defs_L2_names : defs_L2.map defName = ["is_list", "any", "all", "chunks"] := rfl

/-- a state satisfying every hypothesis of the theorems above: the driver's initial state with the built-ins `chunksNats`, the
    generated definitions `defs_L2` loaded into the session frame 1 (`load_defs_establishes_libEnv`), plus two list cells -/
example (secure : Bool) : ∃ (s : State) (f1 f2 f3 : RVal) (a1 a2 : Nat),
    LibEnv s (· = 1) chunksNats (defs_L2.map (fun d => (defName d, d))) ∧
    IsSrc s f1 core_any 1 ∧ IsSrc s f2 core_all 1 ∧ IsSrc s f3 core_chunks 1 ∧
    s.cell a1 = some (.list ([true, false].map .bool)) ∧ s.cell a2 = some (.list [.int 1, .int 2, .int 3]) := by
  obtain ⟨v, s1, _, hlib, _⟩ := load_defs_establishes_libEnv default defs_L2
    (by intro d hd; simp only [defs_L2, List.mem_cons, List.not_mem_nil, or_false] at hd
        rcases hd with rfl | rfl | rfl | rfl <;> exact ⟨_, _, _, _, _, _, _, rfl⟩)
    (by rw [defs_L2_names]; decide) chunksNats (by rw [defs_L2_names]; decide)
    (initialState secure chunksNats).1 1 (by rw [initialState_frames_size]; exact Nat.lt_succ_self 1)
    (initialState_null secure chunksNats (by decide)) (fun x hx => initialState_nat secure chunksNats hx) .null
  have src : ∀ d ∈ defs_L2, ∃ f, IsSrc s1 f d 1 := by
    intro d hd
    obtain ⟨f, m', _, h2, h3⟩ := hlib.src 1 rfl (defName d, d) (List.mem_map.mpr ⟨d, hd, rfl⟩)
    subst h2; exact ⟨f, h3⟩
  obtain ⟨f1, h1⟩ := src core_any (by simp [defs_L2])
  obtain ⟨f2, h2⟩ := src core_all (by simp [defs_L2])
  obtain ⟨f3, h3⟩ := src core_chunks (by simp [defs_L2])
  have e1 : Ext s1 (s1.alloc (.list ([true, false].map .bool))).1 := (Ext.refl s1).alloc _
  have e2 : Ext s1 ((s1.alloc (.list ([true, false].map .bool))).1.alloc (.list [.int 1, .int 2, .int 3])).1 := e1.alloc _
  refine ⟨_, f1, f2, f3, s1.heap.size, s1.heap.size + 1, hlib.ext e2, h1.ext e2, h2.ext e2, h3.ext e2, ?_, ?_⟩
  · rw [cell_alloc_old _ _ (by rw [heap_size_alloc]; omega)]; exact cell_alloc_new _ _
  · rw [← heap_size_alloc s1 (.list ([true, false].map .bool))]; exact cell_alloc_new _ _

/-- the `srcs` requirement of `chunks` is met by `defs_L2`; `chunksNats` are names of pure built-ins of the model -/
example : ∀ p ∈ firstSrcs, p ∈ defs_L2.map (fun d => (defName d, d)) := by
  intro p hp
  simp only [firstSrcs, List.mem_cons, List.not_mem_nil, or_false] at hp
  subst hp
  exact List.mem_map.2 ⟨type_is_list, by simp [defs_L2], rfl⟩

example : BoolOp_L2 "is_null" "obj" [] RVal.isNull [.null, .int 1] := boolOp_is_null_L2 _

/-- tests (not theorems) of the mirror the `chunks` statement refers to -/
example : chunksGo 2 [1, 2, 3, 4, 5] = [[1, 2], [3, 4], [5]] := by
  simp [chunksGo]
example : chunksGo 2 [1, 2, 3, 4] = [[1, 2], [3, 4]] := by
  simp [chunksGo]
example : ([true, false].any id, [true, false].all id, ([] : List Bool).any id, ([] : List Bool).all id)
    = (true, false, false, true) := by decide

end Ckl.C19Src
