/-
  C03Sugar — parser level, part 3: from `parse_primary_expr` up to `parse_expression` / `parse`
  when the primary expression is followed by a token that no operator level consumes
  (`,`, `)`, `;`, the end of the input …), and how `parse_primary_expr` enters the postfix loop.
-/
import CklVerif.Lemmas.C03SugarErase
namespace Ckl.C03S
open Ckl Ckl.Parser Ckl.C02P Ckl.C14P

local notation "kw" => (some TokType.keyword)
local notation "ip" => (some TokType.interpunction)
local notation "op" => (some TokType.operator)
local notation "idt" => (some TokType.identifier)

/-- an interpunction token other than `(` and `[` is consumed by no operator level -/
theorem stops_interpunction {t : Token} (ht : t.type = .interpunction) (h1 : t.value ≠ c!"(")
    (h2 : t.value ≠ c!"[") (k : Nat) : stops k t = true := by
  simp [stops, stop7, isMulOp, isAddOp, Parser.isRelop, St.tokIs, ht, h1, h2]

theorem follow_comma {t : Token} {rest : List Token} (h : Is t c!"," .interpunction) (k : Nat) :
    Follow k (t :: rest) :=
  stops_interpunction h.2 (by rw [h.1]; decide) (by rw [h.1]; decide) k

theorem follow_close {t : Token} {rest : List Token} (h : Is t c!")" .interpunction) (k : Nat) :
    Follow k (t :: rest) :=
  stops_interpunction h.2 (by rw [h.1]; decide) (by rw [h.1]; decide) k

theorem follow_semi {t : Token} {rest : List Token} (h : Is t c!";" .interpunction) (k : Nat) :
    Follow k (t :: rest) :=
  stops_interpunction h.2 (by rw [h.1]; decide) (by rw [h.1]; decide) k

/-- the tower `parse_or_expr … parse_pred_expr` adds nothing to a primary expression that is followed
    by a token no operator level consumes -/
theorem pOr_of_primary (c : Ctx) (p : Pos) (t : Token) (tl : List Token) (n : Node) (q : Pos) (rest : List Token)
    (hop : t.type ≠ .operator) (hnot : sp t ≠ notSp)
    (hp : plain (pPrimary c false ⟨p, t :: tl⟩) = .ok (n, ⟨q, rest⟩)) (hf : Follow 0 rest) :
    plain (pOr c ⟨p, t :: tl⟩) = .ok (n, ⟨q, rest⟩) := by
  have h6 := pPred_of_primary c false _ _ _ _ hp (hf.mono (by omega))
  have h5 : plain (pUnary c ⟨p, t :: tl⟩) = .ok (n, ⟨q, rest⟩) := by
    rw [pUnary_plain c p t tl hop]; exact h6
  have h4 : plain (pMul c ⟨p, t :: tl⟩) = .ok (n, ⟨q, rest⟩) := by
    rw [pMul_plain, h5]; exact mulLoop_stop c q rest _ (hf.mono (by omega))
  have h3 : plain (pAdd c ⟨p, t :: tl⟩) = .ok (n, ⟨q, rest⟩) := by
    rw [pAdd_plain, h4]; exact addLoop_stop c q rest _ (hf.mono (by omega))
  have h2 : plain (pRel c ⟨p, t :: tl⟩) = .ok (n, ⟨q, rest⟩) := by
    rw [pRel_plain, h3]; simp [Except.bind, relGuard_stop q rest (hf.mono (by omega))]
  have h1 : plain (pNot c ⟨p, t :: tl⟩) = .ok (n, ⟨q, rest⟩) := by
    rw [pNot_plain c p t tl hnot]; exact h2
  have h0 : plain (pAnd c ⟨p, t :: tl⟩) = .ok (n, ⟨q, rest⟩) := by
    rw [pAnd_plain, h1]; simp [Except.bind, (and_stop (q := q) (hf.mono (by omega))).1]
  rw [pOr_plain, h0]; simp [Except.bind, (or_stop (q := q) hf).1]

/-- an identifier token is an expression head that is neither a sign nor `not` -/
theorem ident_head {t : Token} (ht : t.type = .identifier) :
    exprHead t = true ∧ t.type ≠ .operator ∧ sp t ≠ notSp := by
  refine ⟨by simp [exprHead, ht], by rw [ht]; decide, ?_⟩
  intro h
  have := congrArg Prod.snd h
  simp [sp, notSp, ht] at this

theorem pExpression_of_primary (c : Ctx) (p : Pos) (t : Token) (tl : List Token) (n : Node) (q : Pos)
    (rest : List Token) (hh : exprHead t = true) (hop : t.type ≠ .operator) (hnot : sp t ≠ notSp)
    (hp : plain (pPrimary c false ⟨p, t :: tl⟩) = .ok (n, ⟨q, rest⟩)) (hf : Follow 0 rest) :
    plain (pExpression c ⟨p, t :: tl⟩) = .ok (n, ⟨q, rest⟩) := by
  rw [pExpression_plain c p t tl hh]
  exact pOr_of_primary c p t tl n q rest hop hnot hp hf

/-- the first token after an identifier is none of `=`, `+=`, `-=`, `*=`, `/=`, `%=` -/
def NoAssign (rest : List Token) : Prop :=
  ∀ t tl, rest = t :: tl → t.type = .operator →
    t.value ≠ c!"=" ∧ t.value ≠ c!"+=" ∧ t.value ≠ c!"-=" ∧ t.value ≠ c!"*=" ∧ t.value ≠ c!"/=" ∧ t.value ≠ c!"%="

theorem noAssign_of_Is {t : Token} {rest : List Token} {v : List Char} {ty : TokType} (h : Is t v ty)
    (hv : ty ≠ .operator ∨ (v ≠ c!"=" ∧ v ≠ c!"+=" ∧ v ≠ c!"-=" ∧ v ≠ c!"*=" ∧ v ≠ c!"/=" ∧ v ≠ c!"%=")) :
    NoAssign (t :: rest) := by
  intro t' tl' e hop
  cases e
  rcases hv with hv | hv
  · exact absurd (h.2 ▸ hop) hv
  · rw [h.1]; exact hv

theorem noAssign_nil : NoAssign [] := by intro t tl e; cases e

/-- an identifier that is not the target of an assignment enters `deref_or_call_or_invoke` -/
theorem pPrimary_ident_postfix (c : Ctx) (um : Bool) (p : Pos) (t : Token) (rest : List Token)
    (ht : t.type = .identifier) (hna : NoAssign rest) :
    plain (pPrimary c um ⟨p, t :: rest⟩) =
      plainLe (postfixLoop c true true ⟨t.pos, rest⟩ (.ident (str t.value) t.pos)) := by
  rw [pPrimary]
  have heq : St.matchIf ⟨t.pos, rest⟩ c!"=" op = none ∧ matchOpTable ⟨t.pos, rest⟩ compoundOps = none := by
    cases rest with
    | nil => exact ⟨rfl, matchOpTable_nil _ _⟩
    | cons t2 tl =>
      by_cases hop : t2.type = .operator
      · obtain ⟨h1, h2, h3, h4, h5, h6⟩ := hna t2 tl rfl hop
        simp [matchOpTable, compoundOps, St.matchIf, St.tokIs, h1, h2, h3, h4, h5, h6]
      · simp [matchOpTable, compoundOps, St.matchIf, St.tokIs, hop]
  simp [St.hasNext, St.next, ht, bind, Except.bind, heq.1, heq.2]

/-- an `int` literal enters `invoke` (only `!>` is possible after it) -/
theorem pPrimary_int_postfix (c : Ctx) (um : Bool) (p : Pos) (t : Token) (rest : List Token) (n : Nat)
    (ht : t.type = .int) (hv : parseIntLit t.value = some n) :
    plain (pPrimary c um ⟨p, t :: rest⟩) =
      plainLe (postfixLoop c false false ⟨t.pos, rest⟩
        (.lit (.int (if um then -(n : Int) else (n : Int))) t.pos)) := by
  rw [pPrimary]
  simp [St.hasNext, St.next, ht, hv, bind, Except.bind]

/-- a string literal enters `deref_or_invoke` -/
theorem pPrimary_string_postfix (c : Ctx) (um : Bool) (p : Pos) (t : Token) (rest : List Token)
    (ht : t.type = .string) :
    plain (pPrimary c um ⟨p, t :: rest⟩) =
      plainLe (postfixLoop c false true ⟨t.pos, rest⟩ (strLit t.value t.pos)) := by
  rw [pPrimary]
  simp [St.hasNext, St.next, ht, bind, Except.bind]

/-- a parenthesised bare block enters `deref_or_call_or_invoke` -/
theorem pPrimary_paren_postfix (c : Ctx) (um : Bool) (p : Pos) (t t2 : Token) (tl rest : List Token) (n : Node)
    (q : Pos) (ht : Is t c!"(" .interpunction)
    (hb : plain (pBareBlock c false ⟨t.pos, tl⟩) = .ok (n, ⟨q, t2 :: rest⟩))
    (h2 : Is t2 c!")" .interpunction) :
    plain (pPrimary c um ⟨p, t :: tl⟩) = plainLe (postfixLoop c true true ⟨t2.pos, rest⟩ n) := by
  obtain ⟨hl, hb⟩ := plain_eq_ok hb
  rw [pPrimary]
  simp only [St.hasNext, St.next, ht.1, ht.2, bind, Except.bind, hb, expect_cons h2]
  cases postfixLoop c true true ⟨t2.pos, rest⟩ n with
  | error e => simp
  | ok o => simp [pure, Except.pure]

end Ckl.C03S
