import CklVerif.Model.Seq
import CklVerif.Lemmas.C15Slice
import CklVerif.Lemmas.C15Find
import CklVerif.Lemmas.C15FindLastList
import CklVerif.Lemmas.C15Insert

/-!
  C15 — indexing, slicing and sub-sequence search of the sequence model
  (`Ckl.Seq`), for ALL lists and ALL (unbounded) integer indices.

  Auxiliary vocabulary (defined in `CklVerif/Lemmas/C15*.lean`):
  * `adj n i      = if i < 0 then i + n else i`
  * `sliceLo n a  = max 0 (adj n a)`
  * `sliceHi n b  = min n (max 0 (adj n (b.getD n)))`
  * `OccursAt s t p  :=  (s.drop p).take t.length = t ∧ p + t.length ≤ s.length`
  * `HitAt eq x l q  :=  ∃ y, l[q]? = some y ∧ eq y x = true`
  * `findLastListLim l start = min (start.getD (len - 1)) (len - 1)`
-/
namespace Ckl.C15
open Ckl.Seq

variable {α : Type}

/-! ## 1. `deref` -/

/-- `0 ≤ i < n`: plain indexing, and the element exists -/
theorem deref_nonneg (s : List α) (i : Int) (h0 : 0 ≤ i) (h1 : i < s.length) :
    deref s i = s[i.toNat]? ∧ (deref s i).isSome = true := by
  have e : deref s i = s[i.toNat]? := by
    unfold deref
    simp only []
    rw [if_neg (by omega), if_neg (by omega)]
  refine ⟨e, ?_⟩
  rw [e, List.getElem?_eq_getElem (by omega)]
  rfl

/-- `-n ≤ i < 0`: counts from the end exactly once, and the element exists -/
theorem deref_neg (s : List α) (i : Int) (h0 : -(s.length : Int) ≤ i) (h1 : i < 0) :
    deref s i = s[(i + s.length).toNat]? ∧ (deref s i).isSome = true := by
  have e : deref s i = s[(i + s.length).toNat]? := by
    unfold deref
    simp only []
    rw [if_pos h1, if_neg (by omega)]
  refine ⟨e, ?_⟩
  rw [e, List.getElem?_eq_getElem (by omega)]
  rfl

/-- `i ≥ n` or `i < -n`: the runtime error; never wraps around twice -/
theorem deref_out_of_range (s : List α) (i : Int)
    (h : (s.length : Int) ≤ i ∨ i < -(s.length : Int)) : deref s i = none := by
  unfold deref
  simp only []
  by_cases hi : i < 0
  · rw [if_pos hi, if_pos (by omega)]
  · rw [if_neg hi, if_pos (by omega)]

/-- all three cases in one statement -/
theorem deref_spec (s : List α) (i : Int) :
    (0 ≤ i ∧ i < s.length → deref s i = s[i.toNat]?) ∧
    (-(s.length : Int) ≤ i ∧ i < 0 → deref s i = s[(i + s.length).toNat]?) ∧
    ((s.length : Int) ≤ i ∨ i < -(s.length : Int) → deref s i = none) :=
  ⟨fun h => (deref_nonneg s i h.1 h.2).1, fun h => (deref_neg s i h.1 h.2).1,
    deref_out_of_range s i⟩

/-- `deref` succeeds exactly on `-n ≤ i < n` -/
theorem deref_isSome_iff (s : List α) (i : Int) :
    (deref s i).isSome = true ↔ -(s.length : Int) ≤ i ∧ i < s.length := by
  constructor
  · intro h
    by_cases hr : (s.length : Int) ≤ i ∨ i < -(s.length : Int)
    · rw [deref_out_of_range s i hr] at h; cases h
    · omega
  · rintro ⟨h0, h1⟩
    by_cases hi : i < 0
    · exact (deref_neg s i h0 hi).2
    · exact (deref_nonneg s i (by omega) h1).2

example : deref [10, 20, 30] 1 = some 20 := by decide
example : deref [10, 20, 30] (-3) = some 10 := by decide
example : deref [10, 20, 30] (-4) = (none : Option Nat) := by decide
example : deref [10, 20, 30] 3 = (none : Option Nat) := by decide
example : (0 : Int) ≤ 1 ∧ (1 : Int) < ([10, 20, 30] : List Nat).length := by decide
example : -(([10, 20, 30] : List Nat).length : Int) ≤ -3 ∧ (-3 : Int) < 0 := by decide

/-! ## 2. `slice` / `substr` closed form -/

/-- `slice` is Python's `s[lo:hi]` with the clamped bounds, spelled out -/
theorem slice_spec (s : List α) (a : Int) (b : Option Int) :
    slice s a b =
      (s.drop (max 0 (if a < 0 then a + (s.length : Int) else a)).toNat).take
        ((min (s.length : Int)
            (max 0 (if b.getD (s.length : Int) < 0 then b.getD (s.length : Int) + (s.length : Int)
              else b.getD (s.length : Int)))).toNat
          - (max 0 (if a < 0 then a + (s.length : Int) else a)).toNat) :=
  slice_eq s a b

/-- the same, with the named bounds `sliceLo` / `sliceHi` -/
theorem slice_spec' (s : List α) (a : Int) (b : Option Int) :
    slice s a b = (s.drop (sliceLo s.length a).toNat).take
      ((sliceHi s.length b).toNat - (sliceLo s.length a).toNat) :=
  slice_eq s a b

/-- `substr` / `sublist` compute exactly the same thing as `slice` -/
theorem substr_eq_slice' (s : List α) (a : Int) (b : Option Int) : substr s a b = slice s a b :=
  substr_eq_slice s a b

theorem substr_spec (s : List α) (a : Int) (b : Option Int) :
    substr s a b = (s.drop (sliceLo s.length a).toNat).take
      ((sliceHi s.length b).toNat - (sliceLo s.length a).toNat) := by
  rw [substr_eq_slice, slice_eq]

/-- exact length of a slice -/
theorem slice_length (s : List α) (a : Int) (b : Option Int) :
    ((slice s a b).length : Int) = (sliceHi s.length b - sliceLo s.length a).toNat := by
  rw [slice_eq]
  have h1 := sliceLo_nonneg s.length a
  have h2 := sliceHi_le s.length b
  have h3 := sliceHi_nonneg s.length (by omega) b
  simp only [List.length_take, List.length_drop]
  omega

theorem slice_length_le (s : List α) (a : Int) (b : Option Int) :
    (slice s a b).length ≤ s.length := by
  rw [slice_eq]
  simp only [List.length_take, List.length_drop]
  omega

theorem slice_eq_nil (s : List α) (a : Int) (b : Option Int)
    (h : sliceHi s.length b ≤ sliceLo s.length a) : slice s a b = [] := by
  rw [slice_eq]
  have : (sliceHi s.length b).toNat - (sliceLo s.length a).toNat = 0 := by omega
  rw [this, List.take_zero]

/-- the result is a contiguous infix of the input -/
theorem slice_infix (s : List α) (a : Int) (b : Option Int) :
    ∃ p q, s = p ++ slice s a b ++ q := by
  rw [slice_eq]; exact drop_take_infix s _ _

theorem slice_isInfix (s : List α) (a : Int) (b : Option Int) : slice s a b <:+: s := by
  obtain ⟨p, q, h⟩ := slice_infix s a b
  exact ⟨p, q, h.symm⟩

theorem substr_length (s : List α) (a : Int) (b : Option Int) :
    ((substr s a b).length : Int) = (sliceHi s.length b - sliceLo s.length a).toNat := by
  rw [substr_eq_slice]; exact slice_length s a b

theorem substr_length_le (s : List α) (a : Int) (b : Option Int) :
    (substr s a b).length ≤ s.length := by
  rw [substr_eq_slice]; exact slice_length_le s a b

theorem substr_eq_nil (s : List α) (a : Int) (b : Option Int)
    (h : sliceHi s.length b ≤ sliceLo s.length a) : substr s a b = [] := by
  rw [substr_eq_slice]; exact slice_eq_nil s a b h

theorem substr_infix (s : List α) (a : Int) (b : Option Int) :
    ∃ p q, s = p ++ substr s a b ++ q := by
  rw [substr_eq_slice]; exact slice_infix s a b

example : slice [1, 2, 3, 4, 5] 1 (some (-1)) = [2, 3, 4] := by decide
example : slice [1, 2, 3, 4, 5] (-2) none = [4, 5] := by decide
example : slice [1, 2, 3, 4, 5] 4 (some 2) = ([] : List Nat) := by decide
example : sliceHi (([1, 2, 3, 4, 5] : List Nat).length) (some 2)
    ≤ sliceLo (([1, 2, 3, 4, 5] : List Nat).length) 4 := by decide
example : substr [1, 2, 3, 4, 5] 7 (some 9) = ([] : List Nat) := by decide

/-! ## 3. Identities -/

theorem slice_full (s : List α) : slice s 0 none = s := by
  rw [slice_eq, sliceHi_none _ (by omega)]
  have : sliceLo (s.length : Int) 0 = 0 := by unfold sliceLo adj; simp
  rw [this]
  simp

theorem substr_full (s : List α) : substr s 0 none = s := by
  rw [substr_eq_slice]; exact slice_full s

/-- splitting at ANY integer `k` (non-negative, negative in range, or out of range either way)
    and re-joining gives the sequence back -/
theorem slice_split (s : List α) (k : Int) :
    slice s 0 (some k) ++ slice s k none = s := by
  rw [slice_eq, slice_eq, sliceHi_none _ (by omega)]
  have h0 : sliceLo (s.length : Int) 0 = 0 := by unfold sliceLo adj; simp
  rw [h0]
  have hk : (sliceHi (s.length : Int) (some k)).toNat = min s.length (sliceLo (s.length : Int) k).toNat := by
    unfold sliceHi sliceLo
    simp only [Option.getD_some]
    omega
  rw [hk]
  simp only [Int.toNat_zero, List.drop_zero, Nat.sub_zero, Int.toNat_natCast]
  rw [List.take_of_length_le (l := List.drop _ s) (by simp)]
  generalize (sliceLo (s.length : Int) k).toNat = m
  by_cases hm : m ≤ s.length
  · rw [Nat.min_eq_right hm, List.take_append_drop]
  · rw [Nat.min_eq_left (by omega), List.take_length, List.drop_eq_nil_of_le (by omega),
      List.append_nil]

/-- the non-negative case asked for -/
theorem slice_split_nonneg (s : List α) (k : Int) (_ : 0 ≤ k) :
    slice s 0 (some k) ++ slice s k none = s := slice_split s k

/-- the negative in-range case: the split point is `k + n` -/
theorem slice_split_neg (s : List α) (k : Int) (h0 : -(s.length : Int) ≤ k) (h1 : k < 0) :
    slice s 0 (some k) = s.take (k + s.length).toNat ∧
    slice s k none = s.drop (k + s.length).toNat := by
  rw [slice_eq, slice_eq, sliceHi_none _ (by omega)]
  have h00 : sliceLo (s.length : Int) 0 = 0 := by unfold sliceLo adj; simp
  have hlo : sliceLo (s.length : Int) k = k + s.length := by
    unfold sliceLo adj; rw [if_pos h1]; omega
  have hhi : sliceHi (s.length : Int) (some k) = k + s.length := by
    unfold sliceHi adj; simp only [Option.getD_some]; rw [if_pos h1]; omega
  rw [h00, hlo, hhi]
  constructor
  · simp
  · rw [List.take_of_length_le]
    simp only [List.length_drop]; omega

example : slice [1, 2, 3, 4, 5] 0 (some (-2)) ++ slice [1, 2, 3, 4, 5] (-2) none
    = [1, 2, 3, 4, 5] := by decide
example : slice [1, 2, 3] 0 (some (-7)) ++ slice [1, 2, 3] (-7) none = [1, 2, 3] := by decide
example : -((([1, 2, 3, 4, 5] : List Nat).length : Int)) ≤ -2 ∧ (-2 : Int) < 0 := by decide

/-! ## 4. `find` on strings -/

section find
variable [BEq α] [LawfulBEq α]

private theorem findStart_le (start : Int) (q : Nat) :
    (if start < 0 then 0 else start.toNat) ≤ 0 + q ↔ max 0 start ≤ (q : Int) := by
  split <;> omega

/-- master disjunction: `-1` and no occurrence from `max 0 start` on, or the least such occurrence -/
theorem find_cases (s t : List α) (start : Int) :
    (find s t start = -1 ∧ ∀ q : Nat, max 0 start ≤ (q : Int) → ¬ OccursAt s t q) ∨
    (∃ p : Nat, find s t start = (p : Int) ∧ max 0 start ≤ (p : Int) ∧ OccursAt s t p ∧
      ∀ q : Nat, max 0 start ≤ (q : Int) → q < p → ¬ OccursAt s t q) := by
  unfold find
  rcases findFrom_spec t s 0 (if start < 0 then 0 else start.toNat) with ⟨h1, h2⟩ | ⟨q, h1, h2, h3, h4⟩
  · left
    exact ⟨h1, fun q hq => h2 q ((findStart_le start q).mpr hq)⟩
  · right
    refine ⟨q, ?_, (findStart_le start q).mp h2, h3,
      fun q' hq' hlt => h4 q' hlt ((findStart_le start q').mpr hq')⟩
    rw [h1, Nat.zero_add]

/-- `find` returns `p ≥ 0` iff `p` is the LEAST position `≥ max 0 start` at which `t` occurs -/
theorem find_spec (s t : List α) (start : Int) (p : Nat) :
    find s t start = (p : Int) ↔
      OccursAt s t p ∧ max 0 start ≤ (p : Int) ∧
      ∀ q : Nat, max 0 start ≤ (q : Int) → q < p → ¬ OccursAt s t q := by
  rcases find_cases s t start with ⟨h1, h2⟩ | ⟨p', h1, h2, h3, h4⟩
  · rw [h1]
    constructor
    · intro h; omega
    · rintro ⟨ho, hs, _⟩; exact absurd ho (h2 p hs)
  · rw [h1]
    constructor
    · intro h
      have : p' = p := by omega
      subst this
      exact ⟨h3, h2, h4⟩
    · rintro ⟨ho, hs, hm⟩
      have a1 : ¬ p < p' := fun hlt => h4 p hs hlt ho
      have a2 : ¬ p' < p := fun hlt => hm p' h2 hlt h3
      omega

/-- `find` returns `-1` iff `t` occurs at no position `≥ max 0 start` -/
theorem find_eq_neg_one_iff (s t : List α) (start : Int) :
    find s t start = -1 ↔ ∀ q : Nat, max 0 start ≤ (q : Int) → ¬ OccursAt s t q := by
  rcases find_cases s t start with ⟨h1, h2⟩ | ⟨p', h1, h2, h3, h4⟩
  · exact ⟨fun _ => h2, fun _ => h1⟩
  · rw [h1]
    constructor
    · intro h; omega
    · intro h; exact absurd h3 (h p' h2)

/-- the result is `-1` or a genuine position -/
theorem find_range (s t : List α) (start : Int) :
    find s t start = -1 ∨
      (max 0 start ≤ find s t start ∧ find s t start + t.length ≤ s.length) := by
  rcases find_cases s t start with ⟨h1, _⟩ | ⟨p', h1, h2, h3, _⟩
  · exact Or.inl h1
  · right
    rw [h1]
    have := h3.2
    omega

theorem find_nonneg_iff_infix (s t : List α) : 0 ≤ find s t 0 ↔ t <:+: s := by
  rcases find_cases s t 0 with ⟨h1, h2⟩ | ⟨p', h1, h2, h3, h4⟩
  · rw [h1]
    constructor
    · intro h; omega
    · rintro ⟨a, b, hab⟩
      exact absurd (occursAt_iff_append.mpr ⟨a, b, hab.symm, rfl⟩) (h2 a.length (by omega))
  · rw [h1]
    constructor
    · intro _
      obtain ⟨a, b, hab, _⟩ := occursAt_iff_append.mp h3
      exact ⟨a, b, hab.symm⟩
    · intro _; omega

/-- the first occurrence is found, and not later than any known occurrence -/
theorem find_append_le (a t b : List α) :
    0 ≤ find (a ++ t ++ b) t 0 ∧ find (a ++ t ++ b) t 0 ≤ a.length := by
  have ho : OccursAt (a ++ t ++ b) t a.length := occursAt_iff_append.mpr ⟨a, b, rfl, rfl⟩
  rcases find_cases (a ++ t ++ b) t 0 with ⟨_, h2⟩ | ⟨p', h1, h2, _, h4⟩
  · exact absurd ho (h2 a.length (by omega))
  · rw [h1]
    have : ¬ a.length < p' := fun hlt => h4 a.length (by omega) hlt ho
    omega

omit [LawfulBEq α] in
/-- negative `start` behaves like `0` (the repair) -/
theorem find_neg_start (s t : List α) (start : Int) (h : start < 0) :
    find s t start = find s t 0 := by
  unfold find; rw [if_pos h]; rfl

example : find ['a', 'b', 'c', 'a', 'b'] ['a', 'b'] 1 = 3 := by decide
example : find ['a', 'b', 'c', 'a', 'b'] ['a', 'b'] (-9) = 0 := by decide
example : find ['a', 'b', 'c', 'a', 'b'] ['b', 'a'] 0 = -1 := by decide
example : find ['a', 'b'] ([] : List Char) 2 = 2 := by decide
example : find ['a', 'b'] ([] : List Char) 3 = -1 := by decide
example : OccursAt ['a', 'b', 'c', 'a', 'b'] ['a', 'b'] 3 := by
  unfold OccursAt; decide

end find

/-! ## 5. `find_last` on strings -/

section findLast
variable [BEq α] [LawfulBEq α]

/-- master disjunction for `findLast` (limit `L = start.getD len`) -/
theorem findLast_cases (s t : List α) (start : Option Int) :
    (findLast s t start = -1 ∧
      ∀ q : Nat, (q : Int) ≤ start.getD (s.length : Int) → ¬ OccursAt s t q) ∨
    (∃ p : Nat, findLast s t start = (p : Int) ∧ (p : Int) ≤ start.getD (s.length : Int) ∧
      OccursAt s t p ∧
      ∀ q : Nat, p < q → (q : Int) ≤ start.getD (s.length : Int) → ¬ OccursAt s t q) := by
  unfold findLast
  simp only []
  generalize start.getD (s.length : Int) = L
  by_cases hL : L < 0
  · rw [if_pos hL]
    left
    exact ⟨rfl, fun q hq => by omega⟩
  · rw [if_neg hL]
    rcases rfindUpTo_spec t s 0 L.toNat (-1) with ⟨h1, h2⟩ | ⟨q, h1, h2, h3, h4⟩
    · left
      exact ⟨h1, fun q hq => h2 q (by omega)⟩
    · right
      refine ⟨q, ?_, by omega, h3, fun q' hlt hq' => h4 q' hlt (by omega)⟩
      rw [h1, Nat.zero_add]

/-- `findLast` returns `p` iff `p` is the GREATEST position `≤ start` (default: `len`)
    at which `t` occurs -/
theorem findLast_spec (s t : List α) (start : Option Int) (p : Nat) :
    findLast s t start = (p : Int) ↔
      OccursAt s t p ∧ (p : Int) ≤ start.getD (s.length : Int) ∧
      ∀ q : Nat, p < q → (q : Int) ≤ start.getD (s.length : Int) → ¬ OccursAt s t q := by
  rcases findLast_cases s t start with ⟨h1, h2⟩ | ⟨p', h1, h2, h3, h4⟩
  · rw [h1]
    constructor
    · intro h; omega
    · rintro ⟨ho, hs, _⟩; exact absurd ho (h2 p hs)
  · rw [h1]
    constructor
    · intro h
      have : p' = p := by omega
      subst this
      exact ⟨h3, h2, h4⟩
    · rintro ⟨ho, hs, hm⟩
      have a1 : ¬ p' < p := fun hlt => h4 p hlt hs ho
      have a2 : ¬ p < p' := fun hlt => hm p' hlt h2 h3
      omega

theorem findLast_eq_neg_one_iff (s t : List α) (start : Option Int) :
    findLast s t start = -1 ↔
      ∀ q : Nat, (q : Int) ≤ start.getD (s.length : Int) → ¬ OccursAt s t q := by
  rcases findLast_cases s t start with ⟨h1, h2⟩ | ⟨p', h1, h2, h3, h4⟩
  · exact ⟨fun _ => h2, fun _ => h1⟩
  · rw [h1]
    constructor
    · intro h; omega
    · intro h; exact absurd h3 (h p' h2)

/-- without `start`: the greatest occurrence overall -/
theorem findLast_none_spec (s t : List α) (p : Nat) :
    findLast s t none = (p : Int) ↔
      OccursAt s t p ∧ ∀ q : Nat, p < q → ¬ OccursAt s t q := by
  rw [findLast_spec]
  simp only [Option.getD_none]
  constructor
  · rintro ⟨h1, _, h3⟩
    exact ⟨h1, fun q hlt ho => h3 q hlt (by have := ho.le_length; omega) ho⟩
  · rintro ⟨h1, h3⟩
    exact ⟨h1, by have := h1.le_length; omega, fun q hlt _ => h3 q hlt⟩

/-- without `start`: `-1` iff `t` occurs nowhere, i.e. iff `t` is not an infix -/
theorem findLast_none_eq_neg_one_iff (s t : List α) :
    findLast s t none = -1 ↔ ¬ t <:+: s := by
  rw [findLast_eq_neg_one_iff]
  simp only [Option.getD_none]
  constructor
  · rintro h ⟨a, b, hab⟩
    have ho : OccursAt s t a.length := occursAt_iff_append.mpr ⟨a, b, hab.symm, rfl⟩
    exact h a.length (by have := ho.le_length; omega) ho
  · intro h q _ ho
    obtain ⟨a, b, hab, _⟩ := occursAt_iff_append.mp ho
    exact h ⟨a, b, hab.symm⟩

/-- the empty needle is found at the very end -/
theorem findLast_nil (s : List α) : findLast s [] none = (s.length : Int) := by
  rw [findLast_none_spec]
  refine ⟨(occursAt_nil_right s _).mpr (Nat.le_refl _), fun q hlt ho => ?_⟩
  have := ho.le_length
  omega

omit [LawfulBEq α] in
theorem findLast_neg_start (s t : List α) (st : Int) (h : st < 0) :
    findLast s t (some st) = -1 := by
  unfold findLast
  simp only [Option.getD_some]
  rw [if_pos h]

/-- the result is `-1` or a genuine position not above the limit -/
theorem findLast_range (s t : List α) (start : Option Int) :
    findLast s t start = -1 ∨
      (0 ≤ findLast s t start ∧ findLast s t start ≤ start.getD (s.length : Int) ∧
        findLast s t start + t.length ≤ s.length) := by
  rcases findLast_cases s t start with ⟨h1, _⟩ | ⟨p', h1, h2, h3, _⟩
  · exact Or.inl h1
  · right
    rw [h1]
    have := h3.2
    omega

example : findLast ['a', 'b', 'c', 'a', 'b'] ['a', 'b'] none = 3 := by decide
example : findLast ['a', 'b', 'c', 'a', 'b'] ['a', 'b'] (some 2) = 0 := by decide
example : findLast ['a', 'b', 'c', 'a', 'b'] ['a', 'b'] (some (-1)) = -1 := by decide
example : findLast ['a', 'b', 'c'] ([] : List Char) none = 3 := by decide

end findLast

/-! ## 6. `find` / `find_last` on lists, arbitrary equality test -/

theorem not_hitAt_iff (eq : α → α → Bool) (x : α) (l : List α) (q : Nat) :
    ¬ HitAt eq x l q ↔ ∀ y, l[q]? = some y → eq y x = false := by
  unfold HitAt
  constructor
  · intro h y hy
    cases he : eq y x with
    | false => rfl
    | true => exact absurd ⟨y, hy, he⟩ h
  · rintro h ⟨y, hy, he⟩
    rw [h y hy] at he
    cases he

theorem findList_cases (eq : α → α → Bool) (l : List α) (x : α) (start : Int) :
    (findList eq l x start = -1 ∧ ∀ q : Nat, max 0 start ≤ (q : Int) → ¬ HitAt eq x l q) ∨
    (∃ p : Nat, findList eq l x start = (p : Int) ∧ max 0 start ≤ (p : Int) ∧ HitAt eq x l p ∧
      ∀ q : Nat, max 0 start ≤ (q : Int) → q < p → ¬ HitAt eq x l q) := by
  unfold findList
  have hle : ∀ q : Nat, (if start < 0 then 0 else start.toNat) ≤ 0 + q ↔ max 0 start ≤ (q : Int) := by
    intro q; split <;> omega
  rcases findIdx_spec eq x l 0 (if start < 0 then 0 else start.toNat) with
    ⟨h1, h2⟩ | ⟨q, h1, h2, h3, h4⟩
  · left
    exact ⟨h1, fun q hq => h2 q ((hle q).mpr hq)⟩
  · right
    refine ⟨q, ?_, (hle q).mp h2, h3, fun q' hq' hlt => h4 q' hlt ((hle q').mpr hq')⟩
    rw [h1, Nat.zero_add]

/-- `findList` returns `p` iff `p` is the FIRST index `≥ max 0 start` whose element `y`
    satisfies `eq y x` -/
theorem findList_spec (eq : α → α → Bool) (l : List α) (x : α) (start : Int) (p : Nat) :
    findList eq l x start = (p : Int) ↔
      HitAt eq x l p ∧ max 0 start ≤ (p : Int) ∧
      ∀ q : Nat, max 0 start ≤ (q : Int) → q < p → ¬ HitAt eq x l q := by
  rcases findList_cases eq l x start with ⟨h1, h2⟩ | ⟨p', h1, h2, h3, h4⟩
  · rw [h1]
    constructor
    · intro h; omega
    · rintro ⟨ho, hs, _⟩; exact absurd ho (h2 p hs)
  · rw [h1]
    constructor
    · intro h
      have : p' = p := by omega
      subst this
      exact ⟨h3, h2, h4⟩
    · rintro ⟨ho, hs, hm⟩
      have a1 : ¬ p < p' := fun hlt => h4 p hs hlt ho
      have a2 : ¬ p' < p := fun hlt => hm p' h2 hlt h3
      omega

theorem findList_eq_neg_one_iff (eq : α → α → Bool) (l : List α) (x : α) (start : Int) :
    findList eq l x start = -1 ↔ ∀ q : Nat, max 0 start ≤ (q : Int) → ¬ HitAt eq x l q := by
  rcases findList_cases eq l x start with ⟨h1, h2⟩ | ⟨p', h1, h2, h3, h4⟩
  · exact ⟨fun _ => h2, fun _ => h1⟩
  · rw [h1]
    constructor
    · intro h; omega
    · intro h; exact absurd h3 (h p' h2)

theorem findList_range (eq : α → α → Bool) (l : List α) (x : α) (start : Int) :
    findList eq l x start = -1 ∨
      (max 0 start ≤ findList eq l x start ∧ findList eq l x start < l.length) := by
  rcases findList_cases eq l x start with ⟨h1, _⟩ | ⟨p', h1, h2, h3, _⟩
  · exact Or.inl h1
  · right
    rw [h1]
    have := h3.lt_length
    omega

/-- `findLastList` returns `p` iff `p` is the LAST index `≤ min(start, len-1)` whose element
    satisfies `eq y x` -/
theorem findLastList_spec' (eq : α → α → Bool) (l : List α) (x : α) (start : Option Int)
    (p : Nat) :
    findLastList eq l x start = (p : Int) ↔
      HitAt eq x l p ∧ (p : Int) ≤ findLastListLim l start ∧
      ∀ q : Nat, p < q → (q : Int) ≤ findLastListLim l start → ¬ HitAt eq x l q := by
  rw [findLastList_eq_iff]
  simp only [not_hitAt_iff]
  rfl

theorem findLastList_eq_neg_one_iff' (eq : α → α → Bool) (l : List α) (x : α)
    (start : Option Int) :
    findLastList eq l x start = -1 ↔
      ∀ q : Nat, (q : Int) ≤ findLastListLim l start → ¬ HitAt eq x l q := by
  rw [findLastList_eq_neg_one_iff]
  simp only [not_hitAt_iff]

example : findList (fun a b => a == b) [1, 2, 1, 3] 1 1 = 2 := by decide
example : findList (fun a b => a == b) [1, 2, 1, 3] 2 2 = -1 := by decide
example : HitAt (fun a b => a == b) 1 [1, 2, 1, 3] 2 := ⟨1, by decide, by decide⟩

/-! ## 7. `insert_at` -/

/-- the insertion position for index `i` in a list of length `n` -/
def insertPos (n i : Int) : Int := if i < 0 then n + i + 1 else i

/-- in range (`0 ≤ i ≤ n`, or `-(n+1) ≤ i < 0` with position `n + i + 1`) -/
theorem insertAt_in_range (l : List α) (i : Int) (v : α)
    (h0 : 0 ≤ insertPos l.length i) (h1 : insertPos l.length i ≤ l.length) :
    insertAt l i v =
      l.take (insertPos l.length i).toNat ++ v :: l.drop (insertPos l.length i).toNat := by
  unfold insertPos at *
  unfold insertAt
  simp only []
  by_cases hi : i < 0
  · rw [if_pos hi] at h0 h1 ⊢
    rw [if_pos hi, if_neg (by omega)]
  · rw [if_neg hi] at h0 h1 ⊢
    rw [if_neg hi, if_neg (by omega)]

theorem insertAt_nonneg (l : List α) (i : Int) (v : α) (h0 : 0 ≤ i) (h1 : i ≤ l.length) :
    insertAt l i v = l.take i.toNat ++ v :: l.drop i.toNat := by
  have hp : insertPos l.length i = i := by unfold insertPos; rw [if_neg (by omega)]
  have := insertAt_in_range l i v (by omega) (by omega)
  rwa [hp] at this

theorem insertAt_neg (l : List α) (i : Int) (v : α) (h0 : -((l.length : Int) + 1) ≤ i)
    (h1 : i < 0) :
    insertAt l i v =
      l.take ((l.length : Int) + i + 1).toNat ++ v :: l.drop ((l.length : Int) + i + 1).toNat := by
  have hp : insertPos l.length i = (l.length : Int) + i + 1 := by
    unfold insertPos; rw [if_pos h1]
  have := insertAt_in_range l i v (by omega) (by omega)
  rwa [hp] at this

/-- out of range (`i > n` or `i < -(n+1)`): unchanged -/
theorem insertAt_out_of_range (l : List α) (i : Int) (v : α)
    (h : (l.length : Int) < i ∨ i < -((l.length : Int) + 1)) : insertAt l i v = l := by
  unfold insertAt
  simp only []
  by_cases hi : i < 0
  · rw [if_pos hi, if_pos (by omega)]
  · rw [if_neg hi, if_pos (by omega)]

/-- in range, `insertAt` is core's `List.insertIdx` at the position -/
theorem insertAt_eq_insertIdx (l : List α) (i : Int) (v : α)
    (h0 : 0 ≤ insertPos l.length i) (h1 : insertPos l.length i ≤ l.length) :
    insertAt l i v = l.insertIdx (insertPos l.length i).toNat v := by
  rw [insertAt_in_range l i v h0 h1, take_cons_drop_eq_insertIdx l _ v (by omega)]

theorem insertAt_length (l : List α) (i : Int) (v : α)
    (h0 : 0 ≤ insertPos l.length i) (h1 : insertPos l.length i ≤ l.length) :
    (insertAt l i v).length = l.length + 1 := by
  rw [insertAt_eq_insertIdx l i v h0 h1, List.length_insertIdx_of_le_length (by omega)]

/-- the element at the insertion position is `v` -/
theorem insertAt_getElem_self (l : List α) (i : Int) (v : α)
    (h0 : 0 ≤ insertPos l.length i) (h1 : insertPos l.length i ≤ l.length) :
    (insertAt l i v)[(insertPos l.length i).toNat]? = some v := by
  rw [insertAt_eq_insertIdx l i v h0 h1, List.getElem?_insertIdx_self, if_pos (by omega)]

/-- elements before the position are untouched -/
theorem insertAt_getElem_lt (l : List α) (i : Int) (v : α)
    (h0 : 0 ≤ insertPos l.length i) (h1 : insertPos l.length i ≤ l.length)
    (k : Nat) (hk : k < (insertPos l.length i).toNat) :
    (insertAt l i v)[k]? = l[k]? := by
  rw [insertAt_eq_insertIdx l i v h0 h1, List.getElem?_insertIdx_of_lt hk]

/-- elements from the position on are shifted by exactly one, in order -/
theorem insertAt_getElem_ge (l : List α) (i : Int) (v : α)
    (h0 : 0 ≤ insertPos l.length i) (h1 : insertPos l.length i ≤ l.length)
    (k : Nat) (hk : (insertPos l.length i).toNat ≤ k) :
    (insertAt l i v)[k + 1]? = l[k]? := by
  rw [insertAt_eq_insertIdx l i v h0 h1, List.getElem?_insertIdx_of_gt (by omega)]
  rfl

/-- "changes exactly one position": removing the inserted element gives the original back -/
theorem insertAt_eraseIdx (l : List α) (i : Int) (v : α)
    (h0 : 0 ≤ insertPos l.length i) (h1 : insertPos l.length i ≤ l.length) :
    (insertAt l i v).eraseIdx (insertPos l.length i).toNat = l := by
  rw [insertAt_eq_insertIdx l i v h0 h1, List.eraseIdx_insertIdx_self]

/-- out-of-range characterisation of the hypotheses used above -/
theorem insertPos_in_range_iff (n i : Int) (hn : 0 ≤ n) :
    (0 ≤ insertPos n i ∧ insertPos n i ≤ n) ↔ (-(n + 1) ≤ i ∧ i ≤ n) := by
  unfold insertPos; split <;> omega

example : insertAt [1, 2, 3] 1 9 = [1, 9, 2, 3] := by decide
example : insertAt [1, 2, 3] 3 9 = [1, 2, 3, 9] := by decide
example : insertAt [1, 2, 3] (-1) 9 = [1, 2, 3, 9] := by decide
example : insertAt [1, 2, 3] (-4) 9 = [9, 1, 2, 3] := by decide
example : insertAt [1, 2, 3] (-5) 9 = [1, 2, 3] := by decide
example : insertAt [1, 2, 3] 4 9 = [1, 2, 3] := by decide
example : 0 ≤ insertPos (([1, 2, 3] : List Nat).length) (-4) ∧
    insertPos (([1, 2, 3] : List Nat).length) (-4) ≤ (([1, 2, 3] : List Nat).length : Int) := by
  decide

/-! ## 8. `delete_at` -/

/-- in range (`0 ≤ i < n`, or `-n ≤ i < 0` with position `i + n`), with `pos = adj n i` -/
theorem deleteAt_in_range (l : List α) (i : Int)
    (h0 : 0 ≤ adj l.length i) (h1 : adj l.length i < l.length) :
    deleteAt l i = (l[(adj l.length i).toNat]?, l.eraseIdx (adj l.length i).toNat) := by
  unfold adj at *
  unfold deleteAt
  simp only []
  by_cases hi : i < 0
  · rw [if_pos hi] at h0 h1 ⊢
    rw [if_pos hi, if_neg (by omega)]
    have : (l.length : Int) + i = i + l.length := by omega
    rw [this]
  · rw [if_neg hi] at h0 h1 ⊢
    rw [if_neg hi, if_neg (by omega)]

theorem deleteAt_nonneg (l : List α) (i : Int) (h0 : 0 ≤ i) (h1 : i < l.length) :
    deleteAt l i = (l[i.toNat]?, l.eraseIdx i.toNat) := by
  have hp : adj l.length i = i := by unfold adj; rw [if_neg (by omega)]
  have := deleteAt_in_range l i (by omega) (by omega)
  rwa [hp] at this

theorem deleteAt_neg (l : List α) (i : Int) (h0 : -(l.length : Int) ≤ i) (h1 : i < 0) :
    deleteAt l i = (l[(i + l.length).toNat]?, l.eraseIdx (i + l.length).toNat) := by
  have hp : adj l.length i = i + l.length := by unfold adj; rw [if_pos h1]
  have := deleteAt_in_range l i (by omega) (by omega)
  rwa [hp] at this

/-- out of range: NULL and the list unchanged -/
theorem deleteAt_out_of_range (l : List α) (i : Int)
    (h : (l.length : Int) ≤ i ∨ i < -(l.length : Int)) : deleteAt l i = (none, l) := by
  unfold deleteAt
  simp only []
  by_cases hi : i < 0
  · rw [if_pos hi, if_pos (by omega)]
  · rw [if_neg hi, if_pos (by omega)]

/-- in range, an element really is removed and the list gets shorter by one -/
theorem deleteAt_in_range_some (l : List α) (i : Int)
    (h0 : 0 ≤ adj l.length i) (h1 : adj l.length i < l.length) :
    ∃ x, (deleteAt l i).1 = some x ∧ l[(adj l.length i).toNat]? = some x ∧
      (deleteAt l i).2.length + 1 = l.length := by
  rw [deleteAt_in_range l i h0 h1]
  have hlt : (adj l.length i).toNat < l.length := by omega
  refine ⟨l[(adj l.length i).toNat], List.getElem?_eq_getElem hlt, List.getElem?_eq_getElem hlt, ?_⟩
  simp only [List.length_eraseIdx_of_lt hlt]
  omega

/-- re-inserting the removed element at the same position restores the list -/
theorem insertAt_deleteAt (l : List α) (i : Int) (x : α)
    (h0 : 0 ≤ adj l.length i) (h1 : adj l.length i < l.length)
    (hx : (deleteAt l i).1 = some x) :
    insertAt (deleteAt l i).2 (adj l.length i) x = l := by
  rw [deleteAt_in_range l i h0 h1] at hx ⊢
  have hlt : (adj l.length i).toNat < l.length := by omega
  simp only [] at hx ⊢
  rw [List.getElem?_eq_getElem hlt] at hx
  have hx' : l[(adj l.length i).toNat] = x := Option.some.inj hx
  have hlen : (l.eraseIdx (adj l.length i).toNat).length = l.length - 1 :=
    List.length_eraseIdx_of_lt hlt
  rw [insertAt_nonneg _ _ _ h0 (by rw [hlen]; omega),
    take_cons_drop_eq_insertIdx _ _ _ (by rw [hlen]; omega), ← hx']
  exact insertIdx_eraseIdx_getElem l _ hlt

/-- deleting what was just inserted (same non-negative position) is the identity -/
theorem deleteAt_insertAt (l : List α) (i : Int) (v : α) (h0 : 0 ≤ i) (h1 : i ≤ l.length) :
    deleteAt (insertAt l i v) i = (some v, l) := by
  have hp : insertPos l.length i = i := by unfold insertPos; rw [if_neg (by omega)]
  have hlen := insertAt_length l i v (by omega) (by omega)
  have hs := insertAt_getElem_self l i v (by omega) (by omega)
  have he := insertAt_eraseIdx l i v (by omega) (by omega)
  rw [hp] at hs he
  rw [deleteAt_nonneg _ _ h0 (by rw [hlen]; omega), hs, he]

example : deleteAt [1, 2, 3] 1 = (some 2, [1, 3]) := by decide
example : deleteAt [1, 2, 3] (-3) = (some 1, [2, 3]) := by decide
example : deleteAt [1, 2, 3] 3 = (none, [1, 2, 3]) := by decide
example : deleteAt [1, 2, 3] (-4) = (none, [1, 2, 3]) := by decide
example : 0 ≤ adj (([1, 2, 3] : List Nat).length) (-3) ∧
    adj (([1, 2, 3] : List Nat).length) (-3) < (([1, 2, 3] : List Nat).length : Int) := by decide
example : insertAt (deleteAt [1, 2, 3] (-3)).2 (adj (([1, 2, 3] : List Nat).length) (-3)) 1
    = [1, 2, 3] := by decide

end Ckl.C15
