/-
  C08 (all containers, decimals included) — scanner part: the text of every data value
  (`IsDataP`: NULL, booleans, ints, strings, decimals, and lists / sets / maps of them) scans to
  `tokensOfP v`.  The `Pre` / `Scans` algebra of `Lemmas/C08FullScan.lean` is reused; the new
  scalar case is `Scans (decRepr m e) (decToks m e)` (`C08DL.dec_tokens`; the decimal text never
  ends with `>`, and `dec_tokens` needs no condition on the terminator).

  `decRepr m e` is never evaluated here.
-/
import CklVerif.Lemmas.C08DecFullDefs
import CklVerif.Lemmas.C08FullScan
namespace Ckl.C08DF
open Ckl Ckl.Lexer Ckl.C08 Ckl.C08D Ckl.C08F

/-- the text of a double scans to `decToks m e` -/
theorem scans_dec (m : Int) (e : Nat) (hd : IsDouble m e) :
    Scans (decRepr m e) (C08DL.decToks m e) := by
  intro name σ h0 htok t ht _ tail
  exact C08DL.dec_tokens name m e hd σ h0 htok t ht tail

theorem scans_scalarP (v : Val)
    (hv : v = .null ∨ (∃ b, v = .bool b) ∨ (∃ n, v = .int n) ∨ (∃ s, v = .str s)) :
    Scans (renderWith decRepr v) (dataToks v) :=
  scans_scalar decRepr v hv

mutual
  /-- the text of a data value scans to `tokensOfP v` (in any context: `Scans`) -/
  theorem scans_valW : ∀ v, IsDataP v → Scans (renderWith decRepr v) (tokensOfP v)
    | .null, _ => scans_scalarP .null (Or.inl rfl)
    | .bool true, _ => scans_scalarP (.bool true) (Or.inr (Or.inl ⟨_, rfl⟩))
    | .bool false, _ => scans_scalarP (.bool false) (Or.inr (Or.inl ⟨_, rfl⟩))
    | .int n, _ => scans_scalarP (.int n) (Or.inr (Or.inr (Or.inl ⟨n, rfl⟩)))
    | .str s, _ => scans_scalarP (.str s) (Or.inr (Or.inr (Or.inr ⟨s, rfl⟩)))
    | .dec m e, h => by
      simp only [renderWith, tokensOfP]
      exact scans_dec m e (by simpa only [IsDataP] using h)
    | .list xs, h => by
      simp only [renderWith, tokensOfP]
      exact scans_list (scans_joinSep (scans_valsW xs (by simpa only [IsDataP] using h)))
    | .set xs, h => by
      simp only [renderWith, tokensOfP]
      exact scans_set (scans_joinSep (scans_valsW xs (by simpa only [IsDataP] using h)))
    | .map kvs, h => by
      simp only [renderWith, tokensOfP]
      exact scans_map (scans_joinSep (scans_entriesW kvs (by simpa only [IsDataP] using h)))
    | .pat _, h => by simp [IsDataP] at h
    | .date _, h => by simp [IsDataP] at h
  theorem scans_valsW : ∀ xs, IsDataPL xs →
      List.Forall₂ Scans (renderL decRepr xs) (tokensLsP xs)
    | [], _ => by simp [renderL, tokensLsP]
    | x :: xs, h => by
      simp only [IsDataPL] at h
      simp only [renderL, tokensLsP]
      exact List.Forall₂.cons (scans_valW x h.1) (scans_valsW xs h.2)
  theorem scans_entriesW : ∀ kvs, IsDataPM kvs →
      List.Forall₂ Scans (renderM decRepr kvs) (tokensMsP kvs)
    | [], _ => by simp [renderM, tokensMsP]
    | (k, v) :: rest, h => by
      simp only [IsDataPM] at h
      simp only [renderM, tokensMsP]
      exact List.Forall₂.cons (scans_entry (scans_valW k h.2.1) (scans_valW v h.2.2.1))
        (scans_entriesW rest h.2.2.2)
end

/-- **scans_valP**: the text of a data value scans to `tokensOfP v`, in any context -/
theorem scans_valP (v : Val) (hv : IsDataP v) : Scans (render v) (tokensOfP v) :=
  scans_valW v hv

/-- **data_tokensP** (general form, any context): at a token boundary, the text of a data value
    followed by a number terminator `t` (not `>` directly after a text that ends with `>`) makes
    the scanner emit exactly the tokens `tokensOfP v`; `t` is then read at a token boundary. -/
theorem data_tokensP_ctx (name : String) (v : Val) (hv : IsDataP v) (σ : LexSt)
    (h0 : σ.core.state = .s0) (htok : σ.core.token = []) (t : Char) (ht : t ∈ numEnd)
    (hgt : (render v).getLast? = some '>' → t ≠ '>') (tail : List Char) :
    ∃ σ', run name σ (render v ++ t :: tail) = run name σ' (t :: tail) ∧ σ'.core = σ.core ∧
      outTV σ' = outTV σ ++ tokensOfP v :=
  scans_valP v hv name σ h0 htok t ht hgt tail

/-- **data_tokensP**: the text of a data value, alone or followed by whitespace, scans without
    error to exactly `tokensOfP v`. -/
theorem data_tokensP (name : String) (v : Val) (hv : IsDataP v) (w : List Char)
    (hw : ∀ c ∈ w, c ∈ [' ', '\t', '\r', '\n']) :
    scanTV (render v ++ w) name = some (tokensOfP v) := by
  obtain ⟨t, tl, htl, ht, htg⟩ : ∃ t tl, w ++ [' '] = t :: tl ∧ t ∈ numEnd ∧ t ≠ '>' := by
    cases w with
    | nil => exact ⟨' ', [], rfl, by decide, by decide⟩
    | cons a w' =>
      refine ⟨a, w' ++ [' '], rfl, whitespace_numEnd a (hw a (by simp)), ?_⟩
      have := hw a (by simp)
      intro e; subst e; revert this; decide
  obtain ⟨σ', hr, hk, ho⟩ := data_tokensP_ctx name v hv {} rfl rfl t ht (fun _ => htg) tl
  rw [← htl] at hr
  unfold scanTV
  rw [scan_finish hw hr (by rw [hk])]
  have : outTV σ' = tokensOfP v := by rw [ho]; rfl
  simp only [← this, outTV, List.map_map]
  rfl

end Ckl.C08DF
