/-
  C14 (spelling, ANYWHERE in a program) — the spelling of a literal never changes the result, the
  output or the error value of a program, wherever in the program the literal stands:

  1. `int_spelling_scan` / `int_spelling_tokens`: for texts `u ++ lit₁ ++ v` and `u ++ lit₂ ++ v`, `lit₁`
     and `lit₂` two spellings of the same int (`IntSpelling`: decimal / `0x…` either case, mixed case,
     leading zeros / `0b…`, `_` anywhere the scanner allows), `u` ending at a token boundary, `v`
     starting with a number terminator (or empty): the scans give token lists that are equal up to
     positions — the same tokens before the literal (with the SAME positions), the `int` token with the
     same normalised text on the same line, tokens with the same values and types after it — or fail
     with the same message.
  2. `quote_style_scan_anywhere` / `string_spelling_scan` / `string_spelling_tokens`: the same for a
     string literal in either quote style; `ne_spelling_scan_anywhere`: `!=` / `<>` (two different
     operator tokens at the same place).
  3. `interpret_int_spelling_anywhere`, `interpret_quote_style_anywhere`, `interpret_spellEq`
     (any number of spelling and layout changes), with the corollaries for output, result, runtime error
     and syntax error.
-/
import CklVerif.Lemmas.C14SpellAnyNum
import CklVerif.Lemmas.C14SpellAnyStr
import CklVerif.Proofs.C14EndToEnd
namespace Ckl.C14A
open Ckl Ckl.Lexer Ckl.C14S Ckl.C14E Ckl.C14X

/-! ## Part 0: replacing one token's text, in context -/

/-- read at a token boundary and followed by `cont`, the text `lit` makes the scanner emit exactly
    one token — value `val`, type `ty`, on the current line — and leaves it at the same token
    boundary, on the same line, in front of `cont` -/
def EmitsOne (name : String) (lit cont val : List Char) (ty : TokType) : Prop :=
  ∀ σ : LexSt, σ.core.state = .s0 → σ.core.token = [] → σ.core.tempbuf = [] →
    ∃ σ' col, run name σ (lit ++ cont) = run name σ' cont ∧ σ'.core = σ.core ∧
      σ'.out = (⟨val, ty, ⟨name, σ.line, col⟩⟩, σ.pos) :: σ.out ∧ σ'.line = σ.line

/-- two texts that emit the same single token are interchangeable at a token boundary: the
    (value, type) sequence of the tokens, or the message of the scanner's syntax error, is the same -/
theorem replace_scanTV {name : String} {u v lit₁ lit₂ val : List Char} {ty : TokType}
    (hu : C14.AtBoundary name u) (h1 : EmitsOne name lit₁ (v ++ [' ']) val ty)
    (h2 : EmitsOne name lit₂ (v ++ [' ']) val ty) :
    scanTV (scan (u ++ lit₁ ++ v) name) = scanTV (scan (u ++ lit₂ ++ v) name) := by
  rw [scanTV_scan, scanTV_scan]
  have e : ∀ l : List Char, u ++ l ++ v ++ [' '] = u ++ (l ++ (v ++ [' '])) := by intro l; simp
  rw [e, e]
  cases hr : run name {} u with
  | error err => rw [run_append_error _ hr, run_append_error _ hr]
  | ok σu =>
    have h0 := hu σu hr
    have htok := C14.boundary_token_empty name u σu hr h0
    have htb := boundary_tempbuf_empty name u σu hr h0
    rw [run_append_ok _ hr, run_append_ok _ hr]
    obtain ⟨σ1, c1, hr1, hk1, ho1, _⟩ := h1 σu h0 htok htb
    obtain ⟨σ2, c2, hr2, hk2, ho2, _⟩ := h2 σu h0 htok htb
    rw [hr1, hr2]
    exact runTVm_of_simM (sim_run_msg _ ⟨hk1.trans hk2.symm, by rw [ho1, ho2]; rfl⟩)

theorem run_split_out (name : String) (σ : LexSt) (l : List Char) :
    run name σ l = (run name { σ with out := [] } l).map (addOut σ.out) := by
  have e : σ = addOut σ.out { σ with out := [] } := by simp [addOut]
  conv => lhs; rw [e]
  exact run_addOut name σ.out l _

/-- … spelled out on the token lists: both scans fail with the same message, or the two token lists
    are `pre ++ tok :: post` and `pre ++ tok' :: post'` with the SAME tokens `pre` (positions
    included), `tok` and `tok'` the token `(val, ty)` on the same line (the columns may differ), and
    `post`, `post'` equal up to positions -/
theorem replace_tokens {name : String} {u v lit₁ lit₂ val : List Char} {ty : TokType}
    (hu : C14.AtBoundary name u) (h1 : EmitsOne name lit₁ (v ++ [' ']) val ty)
    (h2 : EmitsOne name lit₂ (v ++ [' ']) val ty) :
    (∃ e e', scan (u ++ lit₁ ++ v) name = .error e ∧ scan (u ++ lit₂ ++ v) name = .error e' ∧
      e.msg = e'.msg) ∨
    (∃ pre post post' ln c c',
      scan (u ++ lit₁ ++ v) name = .ok (pre ++ ⟨val, ty, ⟨name, ln, c⟩⟩ :: post) ∧
      scan (u ++ lit₂ ++ v) name = .ok (pre ++ ⟨val, ty, ⟨name, ln, c'⟩⟩ :: post') ∧
      post.map tv = post'.map tv) := by
  have e : ∀ l : List Char, u ++ l ++ v ++ [' '] = u ++ (l ++ (v ++ [' '])) := by intro l; simp
  cases hr : run name {} u with
  | error err =>
    refine Or.inl ⟨err, err, scan_of_run_error ?_, scan_of_run_error ?_, rfl⟩
    · rw [e, run_append_error _ hr]
    · rw [e, run_append_error _ hr]
  | ok σu =>
    have h0 := hu σu hr
    have htok := C14.boundary_token_empty name u σu hr h0
    have htb := boundary_tempbuf_empty name u σu hr h0
    obtain ⟨σ1, c1, hr1, hk1, ho1, _⟩ := h1 σu h0 htok htb
    obtain ⟨σ2, c2, hr2, hk2, ho2, _⟩ := h2 σu h0 htok htb
    have r1 : run name {} (u ++ lit₁ ++ v ++ [' ']) =
        (run name { σ1 with out := [] } (v ++ [' '])).map (addOut σ1.out) := by
      rw [e, run_append_ok _ hr, hr1]; exact run_split_out name σ1 _
    have r2 : run name {} (u ++ lit₂ ++ v ++ [' ']) =
        (run name { σ2 with out := [] } (v ++ [' '])).map (addOut σ2.out) := by
      rw [e, run_append_ok _ hr, hr2]; exact run_split_out name σ2 _
    have hsim : SimM (run name { σ1 with out := [] } (v ++ [' ']))
        (run name { σ2 with out := [] } (v ++ [' '])) :=
      sim_run_msg _ ⟨hk1.trans hk2.symm, rfl⟩
    revert hsim r1 r2
    cases run name { σ1 with out := [] } (v ++ [' ']) with
    | error e1 =>
      cases run name { σ2 with out := [] } (v ++ [' ']) with
      | ok τ2 => intro _ _ hsim; exact hsim.elim
      | error e2 =>
        intro r1 r2 hsim
        exact Or.inl ⟨e1, e2, scan_of_run_error r1, scan_of_run_error r2, hsim⟩
    | ok τ1 =>
      cases run name { σ2 with out := [] } (v ++ [' ']) with
      | error e2 => intro _ _ hsim; exact hsim.elim
      | ok τ2 =>
        intro r1 r2 hsim
        have hs : Sim τ1 τ2 := hsim
        refine Or.inr ⟨σu.out.reverse.map Prod.fst, τ1.out.reverse.map Prod.fst,
          τ2.out.reverse.map Prod.fst, σu.line, c1, c2, ?_, ?_, ?_⟩
        · rw [scan_of_run_ok r1]; simp [addOut, ho1]
        · rw [scan_of_run_ok r2]; simp [addOut, ho2]
        · have := congrArg List.reverse hs.2
          simpa [List.map_reverse, List.map_map, Function.comp_def] using this

/-! ## Part 1: int numerals anywhere -/

/-- `lit` is a spelling of the int `n`:
    * the decimal numeral of `n` with `_` anywhere but in front (`1_000`, `10__00_`);
    * `0x` and hex digits of either case — also mixed, also with leading zeros — with `_` anywhere
      (`0xff`, `0xFF`, `0x_fF`, `0x00ff`);
    * `0b` and binary digits with `_` anywhere.
    (An upper-case prefix `0X` / `0B` is not a numeral but an identifier; a decimal numeral with
    leading zeros, `007`, is scanned to the token `007`: same int, other token text — not covered.) -/
inductive IntSpelling (n : Nat) : List Char → Prop
  | dec {u : List Char} (hu : Underscored (decDigits n) u) (hhead : u.head? ≠ some '_') : IntSpelling n u
  | hex {u : List Char} (hu : ∀ c ∈ u, c ∈ hexDigits ∨ c = '_') (hne : dropUnderscores u ≠ [])
      (hv : ofDigits 16 (dropUnderscores u) = n) : IntSpelling n ('0' :: 'x' :: u)
  | bin {u : List Char} (hu : ∀ c ∈ u, c ∈ ['0', '1'] ∨ c = '_') (hne : dropUnderscores u ≠ [])
      (hv : ofDigits 2 (dropUnderscores u) = n) : IntSpelling n ('0' :: 'b' :: u)

/-- the canonical lower-case hex numeral with `_` anywhere (the form of `parseScript_int_spellings`) -/
theorem IntSpelling.hexLower {n : Nat} {u : List Char} (hu : Underscored (hexLower n) u) :
    IntSpelling n ('0' :: 'x' :: u) :=
  .hex (mem_of_dropUnderscores hu (toDigits16_mem n)) (by rw [hu]; exact Nat.toDigits_ne_nil)
    (by rw [hu]; exact ofDigits_toDigits 16 (by decide) (by decide) n)

/-- the canonical upper-case hex numeral with `_` anywhere -/
theorem IntSpelling.hexUpper {n : Nat} {u : List Char} (hu : Underscored (hexUpper n) u) :
    IntSpelling n ('0' :: 'x' :: u) :=
  .hex (mem_of_dropUnderscores hu (toDigits16_upper_mem n)) (by rw [hu]; simp [C14S.hexUpper])
    (by rw [hu]; exact ofDigits_toDigits_upper n)

/-- the canonical binary numeral with `_` anywhere -/
theorem IntSpelling.binDigits {n : Nat} {u : List Char} (hu : Underscored (binDigits n) u) :
    IntSpelling n ('0' :: 'b' :: u) :=
  .bin (mem_of_dropUnderscores hu (toDigits2_mem n)) (by rw [hu]; exact Nat.toDigits_ne_nil)
    (by rw [hu]; exact ofDigits_toDigits 2 (by decide) (by decide) n)

/-- the plain decimal numeral -/
theorem IntSpelling.plain (n : Nat) : IntSpelling n (decDigits n) :=
  .dec (Underscored.refl (decDigits_no_underscore n)) (by
    intro h
    have : '_' ∈ decDigits n := by
      cases hd : decDigits n with
      | nil => rw [hd] at h; cases h
      | cons a b => rw [hd] at h; simp at h; subst h; simp
    exact decDigits_no_underscore n this)

/-- `v` is empty or starts with a character that ends a number (`numEnd`: `( ) [ ] < > = !`, white
    space, `+ - * / %`, `,` `;` `#`) -/
def NumTerminated (v : List Char) : Prop := ∀ t, v.head? = some t → t ∈ numEnd

theorem numTerminated_cont {v : List Char} (hv : NumTerminated v) :
    ∃ t tail, v ++ [' '] = t :: tail ∧ t ∈ numEnd := by
  cases v with
  | nil => exact ⟨' ', [], rfl, by decide⟩
  | cons a w => exact ⟨a, w ++ [' '], rfl, hv a rfl⟩

/-- **int_spelling_token**: every spelling of `n`, read at a token boundary in front of a number
    terminator, makes the scanner emit the one `int` token whose text is the decimal numeral of `n` -/
theorem int_spelling_token {n : Nat} (hlim : n < litLimit) {lit : List Char} (h : IntSpelling n lit)
    (name : String) {t : Char} (ht : t ∈ numEnd) (tail : List Char) :
    EmitsOne name lit (t :: tail) (Nat.toDigits 10 n) .int := by
  intro σ h0 htok _
  cases h with
  | dec hu hhead =>
    obtain ⟨d, rest, rfl, hdd, hrest⟩ := dec_shape hu hhead
    obtain ⟨σ', col, hr, hk, ho, hl⟩ := run_int_gen (name := name) h0 htok hdd hrest ht tail
    refine ⟨σ', col, by simpa using hr, hk, ?_, hl⟩
    rw [ho, show dropUnderscores (d :: rest) = Nat.toDigits 10 n from hu]
  | hex hu hne hv =>
    obtain ⟨σ', col, hr, hk, ho, hl⟩ := run_radix_gen (name := name) radix16 numEnd_not_hex 'x'
      (by decide) step70_x h0 htok hu hne (by rw [hv]; exact hlim) ht tail
    refine ⟨σ', col, by simpa using hr, hk, ?_, hl⟩
    rw [ho, hv]
  | bin hu hne hv =>
    obtain ⟨σ', col, hr, hk, ho, hl⟩ := run_radix_gen (name := name) radix2 numEnd_not_bin 'b'
      (by decide) step70_b h0 htok hu hne (by rw [hv]; exact hlim) ht tail
    refine ⟨σ', col, by simpa using hr, hk, ?_, hl⟩
    rw [ho, hv]

theorem int_spelling_emits {n : Nat} (hlim : n < litLimit) {lit : List Char} (h : IntSpelling n lit)
    (name : String) {v : List Char} (hv : NumTerminated v) :
    EmitsOne name lit (v ++ [' ']) (Nat.toDigits 10 n) .int := by
  obtain ⟨t, tail, e, ht⟩ := numTerminated_cont hv
  rw [e]; exact int_spelling_token hlim h name ht tail

/-- **int_spelling_scan** (scanner level, in context): two spellings of the same int, anywhere in a
    text: the same (value, type) sequence of tokens, or the same error message -/
theorem int_spelling_scan (name : String) (n : Nat) (hlim : n < litLimit) (u v lit₁ lit₂ : List Char)
    (hu : C14.AtBoundary name u) (h1 : IntSpelling n lit₁) (h2 : IntSpelling n lit₂)
    (hv : NumTerminated v) :
    scanTV (scan (u ++ lit₁ ++ v) name) = scanTV (scan (u ++ lit₂ ++ v) name) :=
  replace_scanTV hu (int_spelling_emits hlim h1 name hv) (int_spelling_emits hlim h2 name hv)

/-- **int_spelling_tokens**: … spelled out: the same tokens in front (same positions), the `int` token
    with the normalised text `Nat.toDigits 10 n` on the same line, the same values and types behind -/
theorem int_spelling_tokens (name : String) (n : Nat) (hlim : n < litLimit) (u v lit₁ lit₂ : List Char)
    (hu : C14.AtBoundary name u) (h1 : IntSpelling n lit₁) (h2 : IntSpelling n lit₂)
    (hv : NumTerminated v) :
    (∃ e e', scan (u ++ lit₁ ++ v) name = .error e ∧ scan (u ++ lit₂ ++ v) name = .error e' ∧
      e.msg = e'.msg) ∨
    (∃ pre post post' ln c c',
      scan (u ++ lit₁ ++ v) name = .ok (pre ++ ⟨Nat.toDigits 10 n, .int, ⟨name, ln, c⟩⟩ :: post) ∧
      scan (u ++ lit₂ ++ v) name = .ok (pre ++ ⟨Nat.toDigits 10 n, .int, ⟨name, ln, c'⟩⟩ :: post') ∧
      post.map tv = post'.map tv) :=
  replace_tokens hu (int_spelling_emits hlim h1 name hv) (int_spelling_emits hlim h2 name hv)

/-- the terminator is needed: a letter behind the numeral continues it (`1a` is one word, `0xffg` too) -/
example : C14.tokTV (scan ['2', '5', '5', 'g'] "f") ≠ C14.tokTV (scan ['0', 'x', 'f', 'f', 'g'] "f") := by
  decide

/-! ## Part 2: string literals anywhere, `!=` / `<>` anywhere (scanner level) -/

/-- either quote style -/
theorem quoted_emits {q : Char} {a b c d : Lexer.St} (hq : Style q a b c d) (name : String)
    (s cont : List Char) : EmitsOne name (quoteWith q s) cont s .string := by
  intro σ h0 htok _
  exact string_token_spelling hq name σ h0 htok s cont

/-- either quote style, the control characters written `\xHH` -/
theorem quotedHex_emits {q : Char} {a b c d : Lexer.St} (hq : Style q a b c d) (name : String)
    (s cont : List Char) : EmitsOne name (quoteHexWith q s) cont s .string := by
  intro σ h0 htok htb
  obtain ⟨σ', col, hr, hk, ho, hl⟩ := run_quotedHex (name := name) hq.quote h0 htok htb s
  exact ⟨σ', col, run_append_ok _ hr, hk, ho, hl⟩

/-- `lit` is a spelling of the string `s`: single or double quotes (`quoteWith`: backslash, the
    delimiter, CR / LF / TAB escaped), the other control characters raw or as `\xHH` (`quoteHexWith`) -/
inductive StrSpelling (s : List Char) : List Char → Prop
  | single : StrSpelling s (quoteWith '\'' s)
  | double : StrSpelling s (quoteWith '"' s)
  | singleHex : StrSpelling s (quoteHexWith '\'' s)
  | doubleHex : StrSpelling s (quoteHexWith '"' s)

theorem string_spelling_emits {s lit : List Char} (h : StrSpelling s lit) (name : String) (cont : List Char) :
    EmitsOne name lit cont s .string := by
  cases h
  · exact quoted_emits .single name s cont
  · exact quoted_emits .double name s cont
  · exact quotedHex_emits .single name s cont
  · exact quotedHex_emits .double name s cont

/-- **string_spelling_scan**: any two of the four spellings of a string, anywhere in a text -/
theorem string_spelling_scan (name : String) (u v s lit₁ lit₂ : List Char) (hu : C14.AtBoundary name u)
    (h1 : StrSpelling s lit₁) (h2 : StrSpelling s lit₂) :
    scanTV (scan (u ++ lit₁ ++ v) name) = scanTV (scan (u ++ lit₂ ++ v) name) :=
  replace_scanTV hu (string_spelling_emits h1 name _) (string_spelling_emits h2 name _)

/-- … spelled out on the token lists -/
theorem string_spelling_tokens (name : String) (u v s lit₁ lit₂ : List Char) (hu : C14.AtBoundary name u)
    (h1 : StrSpelling s lit₁) (h2 : StrSpelling s lit₂) :
    (∃ e e', scan (u ++ lit₁ ++ v) name = .error e ∧ scan (u ++ lit₂ ++ v) name = .error e' ∧
      e.msg = e'.msg) ∨
    (∃ pre post post' ln c c',
      scan (u ++ lit₁ ++ v) name = .ok (pre ++ ⟨s, .string, ⟨name, ln, c⟩⟩ :: post) ∧
      scan (u ++ lit₂ ++ v) name = .ok (pre ++ ⟨s, .string, ⟨name, ln, c'⟩⟩ :: post') ∧
      post.map tv = post'.map tv) :=
  replace_tokens hu (string_spelling_emits h1 name _) (string_spelling_emits h2 name _)

/-- **quote_style_scan_anywhere**: `quote_style_in_context` with the message of a syntax error: the
    quote style of a string literal anywhere in a text changes neither the (value, type) sequence of
    the tokens nor the message of the scanner's syntax error -/
theorem quote_style_scan_anywhere (name : String) (u v s : List Char) (hu : C14.AtBoundary name u) :
    scanTV (scan (u ++ quoteWith '\'' s ++ v) name) = scanTV (scan (u ++ quoteWith '"' s ++ v) name) :=
  replace_scanTV hu (quoted_emits .single name s _) (quoted_emits .double name s _)

/-- … spelled out on the token lists -/
theorem quote_style_tokens (name : String) (u v s : List Char) (hu : C14.AtBoundary name u) :
    (∃ e e', scan (u ++ quoteWith '\'' s ++ v) name = .error e ∧
      scan (u ++ quoteWith '"' s ++ v) name = .error e' ∧ e.msg = e'.msg) ∨
    (∃ pre post post' ln c c',
      scan (u ++ quoteWith '\'' s ++ v) name = .ok (pre ++ ⟨s, .string, ⟨name, ln, c⟩⟩ :: post) ∧
      scan (u ++ quoteWith '"' s ++ v) name = .ok (pre ++ ⟨s, .string, ⟨name, ln, c'⟩⟩ :: post') ∧
      post.map tv = post'.map tv) :=
  replace_tokens hu (quoted_emits .single name s _) (quoted_emits .double name s _)

/-- **ne_spelling_scan_anywhere**: `!=` and `<>` anywhere in a text (at a token boundary): both scans
    fail with the same error, or the token lists differ in exactly that one operator token's value
    (and column): the tokens before and after are IDENTICAL, positions included -/
theorem ne_spelling_scan_anywhere (name : String) (u v : List Char) (hu : C14.AtBoundary name u) :
    (∃ e, scan (u ++ '!' :: '=' :: v) name = .error e ∧ scan (u ++ '<' :: '>' :: v) name = .error e) ∨
    (∃ pre post ln c1 c2,
      scan (u ++ '!' :: '=' :: v) name = .ok (pre ++ ⟨['!', '='], .operator, ⟨name, ln, c1⟩⟩ :: post) ∧
      scan (u ++ '<' :: '>' :: v) name = .ok (pre ++ ⟨['<', '>'], .operator, ⟨name, ln, c2⟩⟩ :: post)) :=
  ne_spelling_scan name u v hu

/-! ## Part 3: end to end -/

/-- texts whose scans agree up to positions (same (value, type) sequence, or same error message)
    have the same parse up to positions -/
theorem srcSim_of_scanTV {file : String} {a b : List Char}
    (h : scanTV (scan a file) = scanTV (scan b file)) : SrcSim file a b := by
  unfold SrcSim parseScript parseScriptWith
  revert h
  cases Lexer.scan a file with
  | error e =>
    cases Lexer.scan b file with
    | error e' =>
      intro hl
      simp only [Lexer.scanTV, Except.error.injEq] at hl
      simp only [bind, Except.bind, C14P.scriptOutcome, hl]
    | ok l' => intro hl; cases hl
  | ok l =>
    cases Lexer.scan b file with
    | error e' => intro hl; cases hl
    | ok l' =>
      intro hl
      simp only [Lexer.scanTV, Except.ok.injEq] at hl
      have hts : C14P.TokSim l l' := hl
      have ho := C14P.outcome_eq (fun _ => true) file hts
      simp only [bind, Except.bind]
      revert ho
      cases Parser.parseWith (fun _ => true) file l <;> cases Parser.parseWith (fun _ => true) file l' <;>
        intro ho <;>
        simp only [C14P.outcome, Except.ok.injEq, Except.error.injEq, Prod.mk.injEq, reduceCtorEq] at ho <;>
        simp only [C14P.scriptOutcome, ho]

/-- one int literal respelled, anywhere -/
theorem srcSim_int_spelling (file : String) (n : Nat) (hlim : n < litLimit) (u v lit₁ lit₂ : List Char)
    (hu : C14.AtBoundary file u) (h1 : IntSpelling n lit₁) (h2 : IntSpelling n lit₂) (hv : NumTerminated v) :
    SrcSim file (u ++ lit₁ ++ v) (u ++ lit₂ ++ v) :=
  srcSim_of_scanTV (int_spelling_scan file n hlim u v lit₁ lit₂ hu h1 h2 hv)

/-- one string literal in the other quote style, anywhere -/
theorem srcSim_quote_style (file : String) (u v s : List Char) (hu : C14.AtBoundary file u) :
    SrcSim file (u ++ quoteWith '\'' s ++ v) (u ++ quoteWith '"' s ++ v) :=
  srcSim_of_scanTV (quote_style_scan_anywhere file u v s hu)

/-- one string literal in another of its four spellings, anywhere -/
theorem srcSim_string_spelling (file : String) (u v s lit₁ lit₂ : List Char) (hu : C14.AtBoundary file u)
    (h1 : StrSpelling s lit₁) (h2 : StrSpelling s lit₂) : SrcSim file (u ++ lit₁ ++ v) (u ++ lit₂ ++ v) :=
  srcSim_of_scanTV (string_spelling_scan file u v s lit₁ lit₂ hu h1 h2)

/-- **C14, end to end (int spelling anywhere)**: for every loader whose unmodelled built-ins respect
    similarity, every fuel, session frame and pair of similar states (in particular: the same state): two
    texts that differ in the spelling of ONE int literal, anywhere in the program (`u` ends at a token
    boundary, `v` is empty or starts with a number terminator), have similar outcomes: the same value (up
    to positions inside control / node values), the same printed output, the same error value, message
    and function names of the trace, the same kind of failure, or a syntax error with the same message.
    Positions (of the error, of node values) may differ: only in the column — see `int_spelling_tokens`. -/
theorem interpret_int_spelling_anywhere (ld : Loader) (hn : NativeSim ld) (fuel : Nat) (senv : EnvId)
    (file : String) (n : Nat) (hlim : n < litLimit) (u v lit₁ lit₂ : List Char) {s s' : State}
    (hu : C14.AtBoundary file u) (h1 : IntSpelling n lit₁) (h2 : IntSpelling n lit₂) (hv : NumTerminated v)
    (hs : StateSim s s') :
    OutSimX (interpretSource ld fuel senv (u ++ lit₁ ++ v) file s)
      (interpretSource ld fuel senv (u ++ lit₂ ++ v) file s') :=
  interpretSource_srcSim ld hn fuel senv file (srcSim_int_spelling file n hlim u v lit₁ lit₂ hu h1 h2 hv) hs

/-- **C14, end to end (quote style anywhere)**: the same for ONE string literal written `'…'` or `"…"`
    (each with its own escapes: `quoteWith`), anywhere in the program, for ALL string contents -/
theorem interpret_quote_style_anywhere (ld : Loader) (hn : NativeSim ld) (fuel : Nat) (senv : EnvId)
    (file : String) (u v x : List Char) {s s' : State} (hu : C14.AtBoundary file u) (hs : StateSim s s') :
    OutSimX (interpretSource ld fuel senv (u ++ quoteWith '\'' x ++ v) file s)
      (interpretSource ld fuel senv (u ++ quoteWith '"' x ++ v) file s') :=
  interpretSource_srcSim ld hn fuel senv file (srcSim_quote_style file u v x hu) hs

/-- … and with the `\xHH` spellings of control characters: any two of the four spellings -/
theorem interpret_string_spelling_anywhere (ld : Loader) (hn : NativeSim ld) (fuel : Nat) (senv : EnvId)
    (file : String) (u v x lit₁ lit₂ : List Char) {s s' : State} (hu : C14.AtBoundary file u)
    (h1 : StrSpelling x lit₁) (h2 : StrSpelling x lit₂) (hs : StateSim s s') :
    OutSimX (interpretSource ld fuel senv (u ++ lit₁ ++ v) file s)
      (interpretSource ld fuel senv (u ++ lit₂ ++ v) file s') :=
  interpretSource_srcSim ld hn fuel senv file (srcSim_string_spelling file u v x lit₁ lit₂ hu h1 h2) hs

/-! ### any number of spelling (and layout) changes -/

/-- texts that differ by the spelling of literals and by layout only: any number of int literals
    respelled, string literals re-quoted, fillers inserted or removed -/
inductive SpellEq (file : String) : List Char → List Char → Prop
  | refl (a : List Char) : SpellEq file a a
  | int (n : Nat) (hlim : n < litLimit) (u v lit₁ lit₂ : List Char) (hu : C14.AtBoundary file u)
      (h1 : IntSpelling n lit₁) (h2 : IntSpelling n lit₂) (hv : NumTerminated v) :
      SpellEq file (u ++ lit₁ ++ v) (u ++ lit₂ ++ v)
  | quote (u v x : List Char) (hu : C14.AtBoundary file u) :
      SpellEq file (u ++ quoteWith '\'' x ++ v) (u ++ quoteWith '"' x ++ v)
  | str (u v x lit₁ lit₂ : List Char) (hu : C14.AtBoundary file u) (h1 : StrSpelling x lit₁)
      (h2 : StrSpelling x lit₂) : SpellEq file (u ++ lit₁ ++ v) (u ++ lit₂ ++ v)
  | layout {a b : List Char} : LayoutEq file a b → SpellEq file a b
  | symm {a b : List Char} : SpellEq file a b → SpellEq file b a
  | trans {a b c : List Char} : SpellEq file a b → SpellEq file b c → SpellEq file a c

theorem SpellEq.srcSim {file : String} {a b : List Char} (h : SpellEq file a b) : SrcSim file a b := by
  induction h with
  | refl a => exact SrcSim.refl file a
  | int n hlim u v l1 l2 hu h1 h2 hv => exact srcSim_int_spelling file n hlim u v l1 l2 hu h1 h2 hv
  | quote u v x hu => exact srcSim_quote_style file u v x hu
  | str u v x l1 l2 hu h1 h2 => exact srcSim_string_spelling file u v x l1 l2 hu h1 h2
  | layout h => exact h.srcSim
  | symm _ ih => exact ih.symm
  | trans _ _ ih1 ih2 => exact ih1.trans ih2

/-- **interpret_spellEq**: any number of spelling and layout changes, anywhere -/
theorem interpret_spellEq (ld : Loader) (hn : NativeSim ld) (fuel : Nat) (senv : EnvId) (file : String)
    {a b : List Char} {s s' : State} (h : SpellEq file a b) (hs : StateSim s s') :
    OutSimX (interpretSource ld fuel senv a file s) (interpretSource ld fuel senv b file s') :=
  interpretSource_srcSim ld hn fuel senv file h.srcSim hs

/-! ### corollaries: output, result, error, syntax error -/

/-- the same printed output, whatever the outcome -/
theorem output_spelling_irrelevant (ld : Loader) (hn : NativeSim ld) (fuel : Nat) (senv : EnvId) (file : String)
    {a b : List Char} {s s' : State} (h : SpellEq file a b) (hs : StateSim s s') :
    (interpretSource ld fuel senv a file s).finalState.out = (interpretSource ld fuel senv b file s').finalState.out :=
  (interpret_spellEq ld hn fuel senv file h hs).state.out_eq

/-- the same result: when one text evaluates to `v`, the other evaluates to a similar value (the same
    value when it is not a node value) with the same rendering -/
theorem result_spelling_irrelevant (ld : Loader) (hn : NativeSim ld) (fuel : Nat) (senv : EnvId) (file : String)
    {a b : List Char} {s s' : State} (h : SpellEq file a b) (hs : StateSim s s') {v : RVal} {t : State}
    (hr : interpretSource ld fuel senv a file s = .ok v t) :
    ∃ v' t', interpretSource ld fuel senv b file s' = .ok v' t' ∧ RValSim v v' ∧ (¬ IsPosV v → v' = v) ∧
      rrender t v = rrender t' v' ∧ StateSim t t' := by
  have hx := interpret_spellEq ld hn fuel senv file h hs
  rw [hr] at hx
  rcases hx.cases with ⟨a1, a', s1, s1', h1, h2, h3, h4⟩ | ⟨_, _, _, _, _, _, _, _, _, h1, _⟩ |
    ⟨_, _, _, _, h1, _⟩ | ⟨_, _, _, _, h1, _⟩
  · cases h1
    exact ⟨a', s1', h2, h3, fun hv => (RValSim.eq_of_not_pos h3 hv).symm, result_pos_irrelevant h3 h4, h4⟩
  all_goals cases h1

/-- the same runtime error: the same message, a similar error value (the same when it is a data value)
    with the same rendering, a trace with the same function names -/
theorem error_spelling_irrelevant (ld : Loader) (hn : NativeSim ld) (fuel : Nat) (senv : EnvId) (file : String)
    {a b : List Char} {s s' : State} (h : SpellEq file a b) (hs : StateSim s s') {v : RVal} {m : String} {p : Pos}
    {t : List (String × Pos)} {u : State} (hr : interpretSource ld fuel senv a file s = .err v m p t u) :
    ∃ v' p' t' u', interpretSource ld fuel senv b file s' = .err v' m p' t' u' ∧ RValSim v v' ∧
      (¬ IsPosV v → v' = v) ∧ rrender u v = rrender u' v' ∧ t.map (·.1) = t'.map (·.1) ∧ StateSim u u' := by
  have hx := interpret_spellEq ld hn fuel senv file h hs
  rw [hr] at hx
  rcases hx.cases with ⟨_, _, _, _, h1, _⟩ | ⟨v1, v', m1, q, q', t1, t', s1, s1', h1, h2, h3, h4, h5⟩ |
    ⟨_, _, _, _, h1, _⟩ | ⟨_, _, _, _, h1, _⟩
  · cases h1
  · cases h1
    exact ⟨v', q', t', s1', h2, h3, fun hv => (RValSim.eq_of_not_pos h3 hv).symm, result_pos_irrelevant h3 h5, h4, h5⟩
  all_goals cases h1

/-- the same syntax error message -/
theorem syntax_error_spelling_irrelevant (ld : Loader) (hn : NativeSim ld) (fuel : Nat) (senv : EnvId) (file : String)
    {a b : List Char} {s s' : State} (h : SpellEq file a b) (hs : StateSim s s') {e : SynErr} {u : State}
    (hr : interpretSource ld fuel senv a file s = .fail (.syn e) u) :
    ∃ e' u', interpretSource ld fuel senv b file s' = .fail (.syn e') u' ∧ e.msg = e'.msg ∧ StateSim u u' := by
  have hx := interpret_spellEq ld hn fuel senv file h hs
  rw [hr] at hx
  rcases hx.cases with ⟨_, _, _, _, h1, _⟩ | ⟨_, _, _, _, _, _, _, _, _, h1, _⟩ |
    ⟨e1, e', s1, s1', h1, h2, h3, h4⟩ | ⟨f, f', s1, s1', h1, h2, h3, h4⟩
  · cases h1
  · cases h1
  · cases h1; exact ⟨e', s1', h2, h3, h4⟩
  · cases h1
    cases f' <;> simp only [ers_fsyn, ers_foof, ers_funsupported, ers_fhost, reduceCtorEq, Fail.syn.injEq] at h3
    subst h3
    exact ⟨_, s1', h2, rfl, h4⟩

/-- a whole session of texts, each respelled: similar final states, the same printed output -/
theorem session_spelling_irrelevant (ld : Loader) (hn : NativeSim ld) (fuel : Nat) (senv : EnvId) (file : String) :
    ∀ {as bs : List (List Char)} {s s' : State}, List.Forall₂ (SpellEq file) as bs → StateSim s s' →
      ers (runSessionSrc ld fuel senv file as s) = ers (runSessionSrc ld fuel senv file bs s') := by
  intro as bs s s' h
  induction h generalizing s s' with
  | nil => intro hs; simp only [runSessionSrc, ers_some, show ers s = ers s' from hs]
  | cons hab _ ih =>
    intro hs
    have h1 := nextState_simX (interpret_spellEq ld hn fuel senv file hab hs)
    simp only [runSessionSrc]
    generalize nextState (interpretSource ld fuel senv _ file s) = o at h1 ⊢
    generalize nextState (interpretSource ld fuel senv _ file s') = o' at h1 ⊢
    rcases Option.sim_cases h1 with ⟨rfl, rfl⟩ | ⟨x, x', rfl, rfl, h2⟩
    · rfl
    · exact ih h2

theorem numTerminated_nil : NumTerminated [] := fun _ h => nomatch h
theorem numTerminated_cons {t : Char} {tl : List Char} (h : t ∈ numEnd) : NumTerminated (t :: tl) := by
  intro t' h'; cases h'; exact h

/-! ## Part 4: `!=` / `<>` — what is covered, and the exact gap -/

/-- **`!=` versus `<>`** (partial).  Covered: the operator anywhere in the TEXT (at a token boundary), in a
    program that is ONE comparison `l != r` whose operands are token lists that `parse_add_expr` reads
    (`AddStable`: atoms, lists of literals, parenthesised stable expressions); `l` are the tokens of `u`
    (`hl`).  The full statement would allow the comparison anywhere in ANY program; that needs the
    congruence "replacing one `!=` token by `<>` in any token list gives ASTs equal up to positions", a
    simultaneous induction over the 49 productions like `C14P.production_equivariant`.  That congruence
    can only hold for token lists that PARSE: the message of a syntax error quotes the offending token, so
    `1 + != 1` and `1 + <> 1` are rejected with DIFFERENT messages (see the `#guard` below) — the relation
    of `production_equivariant` (`PRel`: same message) has to be weakened, not just re-instantiated. -/
theorem interpret_ne_spelling_stable_partial (ld : Loader) (hn : NativeSim ld) (fuel : Nat) (senv : EnvId)
    (file : String) (u v : List Char) (hu : C14.AtBoundary file u) {l r : List Token} {t : Token}
    {el er : Node} (hl : AddStable l el) (hr : AddStable r er)
    (hscan : Lexer.scan (u ++ '!' :: '=' :: v) file = .ok (l ++ t :: r))
    (hlen : ∀ σ, run file {} u = .ok σ → σ.out.length = l.length)
    {s s' : State} (hs : StateSim s s') :
    OutSim (interpretSource ld fuel senv (u ++ '!' :: '=' :: v) file s)
      (interpretSource ld fuel senv (u ++ '<' :: '>' :: v) file s') := by
  have e : ∀ a b : Char, (u ++ a :: b :: v) ++ [' '] = u ++ ([a, b] ++ (v ++ [' '])) := by intro a b; simp
  cases hr0 : run file {} u with
  | error err =>
    have : scan (u ++ '!' :: '=' :: v) file = .error err := scan_of_run_error (by rw [e, run_append_error _ hr0])
    rw [this] at hscan; cases hscan
  | ok σu =>
    have h0 := hu σu hr0
    have htok := C14.boundary_token_empty file u σu hr0 h0
    have r1 : run file {} ((u ++ '!' :: '=' :: v) ++ [' ']) =
        run file (afterOp file σu ['!', '='] (σu.column + 1 + 1 - 2 - 1)) (v ++ [' ']) := by
      rw [e, run_append_ok _ hr0, run_append_ok _ (run_bang_eq h0 htok)]
    have r2 : run file {} ((u ++ '<' :: '>' :: v) ++ [' ']) =
        run file (afterOp file σu ['<', '>'] (σu.column + 1 + 1 - 1)) (v ++ [' ']) := by
      rw [e, run_append_ok _ hr0, run_append_ok _ (run_lt_gt h0 htok)]
    have a1 : ∀ (w : List Char) (col : Int), afterOp file σu w col =
        { afterOp file σu [] 0 with
          out := (⟨w, .operator, ⟨file, σu.line, col⟩⟩, σu.pos) :: σu.out } := fun _ _ => rfl
    rw [a1] at r1 r2
    rcases run_out_irrelevant file (afterOp file σu [] 0)
      ((⟨['!', '='], .operator, ⟨file, σu.line, σu.column + 1 + 1 - 2 - 1⟩⟩, σu.pos) :: σu.out)
      ((⟨['<', '>'], .operator, ⟨file, σu.line, σu.column + 1 + 1 - 1⟩⟩, σu.pos) :: σu.out)
      (v ++ [' ']) with ⟨err, h1, _⟩ | ⟨τ, h1, h2⟩
    · rw [scan_of_run_error (r1.trans h1)] at hscan; cases hscan
    · have s1 := scan_of_run_ok (r1.trans h1)
      have s2 := scan_of_run_ok (r2.trans h2)
      simp only [addOut, List.reverse_append, List.reverse_cons, List.map_append, List.map_cons,
        List.append_assoc, List.cons_append, List.nil_append] at s1 s2
      rw [s1] at hscan
      have hinj := List.append_inj (Except.ok.inj hscan) (by simp [hlen σu hr0])
      obtain ⟨hpre, hrest⟩ := hinj
      simp only [List.cons.injEq] at hrest
      obtain ⟨ht, hpost⟩ := hrest
      rw [hpre, hpost] at s1 s2
      obtain ⟨p1, p2⟩ := parse_ne_spelling (fun _ => true) file hl hr
        ⟨['!', '='], .operator, ⟨file, σu.line, σu.column + 1 + 1 - 2 - 1⟩⟩
        ⟨['<', '>'], .operator, ⟨file, σu.line, σu.column + 1 + 1 - 1⟩⟩ ⟨rfl, rfl⟩ ⟨rfl, rfl⟩
      have q1 : parseScript (u ++ '!' :: '=' :: v) file =
          .ok (Parser.funcCallAB "not_equals" el er (⟨file, σu.line, σu.column + 1 + 1 - 2 - 1⟩ : Pos)) := by
        rw [C08.parseScript_eq, s1]; exact p1
      have q2 : parseScript (u ++ '<' :: '>' :: v) file =
          .ok (Parser.funcCallAB "not_equals" el er (⟨file, σu.line, σu.column + 1 + 1 - 1⟩ : Pos)) := by
        rw [C08.parseScript_eq, s2]; exact p2
      exact interpret_of_parse_sim ld hn fuel senv file q1 q2 (nodeSim_funcCallAB _ _ _ _ _) hs

/-! ## Part 5: non-vacuity -/

namespace Ex
open Ckl.Parser

abbrev st0 := C14E.Demo.st0
abbrev summary := C14E.Demo.summary
def runSrc (src : List Char) : Out RVal := interpretSource {} 200 st0.2 src "-" st0.1

theorem boundary_of_run {u : List Char} {τ : LexSt} (h : run "-" {} u = .ok τ) (h0 : τ.core.state = .s0) :
    C14.AtBoundary "-" u := by
  intro σ hσ; rw [h] at hσ; cases hσ; exact h0

/-! `def a = 0xff; def b = 1_000; a + b`  versus  `def a = 255; def b = 1000; a + b` -/

def A1 : List Char := c!"def a = "
def A2 : List Char := c!"; def b = "
def A3 : List Char := c!"; a + b"

theorem A1_boundary : C14.AtBoundary "-" A1 := by
  intro σ h; have : σ = _ := (Except.ok.inj h).symm; subst this; decide
theorem A12_boundary : C14.AtBoundary "-" (A1 ++ c!"255" ++ A2) := by
  intro σ h; have : σ = _ := (Except.ok.inj h).symm; subst this; decide

theorem sp255_hex : IntSpelling 255 c!"0xff" := .hex (u := c!"ff") (by decide) (by decide) (by decide)
theorem sp255_HEX : IntSpelling 255 c!"0x_F_f" := .hex (u := c!"_F_f") (by decide) (by decide) (by decide)
theorem sp255_bin : IntSpelling 255 c!"0b1111_1111" := .bin (u := c!"1111_1111") (by decide) (by decide) (by decide)
theorem sp255_dec : IntSpelling 255 c!"255" := .dec (by decide) (by decide)
theorem sp1000_us : IntSpelling 1000 c!"1_000" := .dec (by decide) (by decide)
theorem sp1000_dec : IntSpelling 1000 c!"1000" := .dec (by decide) (by decide)
theorem sp1000_hex : IntSpelling 1000 c!"0x03E8" := .hex (u := c!"03E8") (by decide) (by decide) (by decide)

/-- two literals respelled, one after the other -/
theorem A_spellEq : SpellEq "-" (A1 ++ c!"0xff" ++ (A2 ++ c!"1_000" ++ A3)) (A1 ++ c!"255" ++ (A2 ++ c!"1000" ++ A3)) := by
  refine SpellEq.trans (SpellEq.int 255 (lt_litLimit (by decide)) A1 _ _ c!"255" A1_boundary sp255_hex sp255_dec
    (numTerminated_cons (by decide))) ?_
  have h := SpellEq.int (file := "-") 1000 (lt_litLimit (by decide)) (A1 ++ c!"255" ++ A2) A3 c!"1_000" c!"1000"
    A12_boundary sp1000_us sp1000_dec (numTerminated_cons (by decide))
  simpa [List.append_assoc] using h

#guard summary (runSrc (A1 ++ c!"0xff" ++ (A2 ++ c!"1_000" ++ A3))) == ("ok", some c!"1255", "", [], [])
#guard summary (runSrc (A1 ++ c!"255" ++ (A2 ++ c!"1000" ++ A3))) == ("ok", some c!"1255", "", [], [])
#guard summary (runSrc (A1 ++ c!"0b1111_1111" ++ (A2 ++ c!"0x03E8" ++ A3))) == ("ok", some c!"1255", "", [], [])
#guard A1 ++ c!"0xff" ++ (A2 ++ c!"1_000" ++ A3) == "def a = 0xff; def b = 1_000; a + b".toList

example : OutSimX (runSrc (A1 ++ c!"0xff" ++ (A2 ++ c!"1_000" ++ A3))) (runSrc (A1 ++ c!"255" ++ (A2 ++ c!"1000" ++ A3))) :=
  interpret_spellEq {} nativeSim_empty 200 st0.2 "-" A_spellEq (StateSim.refl _)

example : OutSimX (runSrc (A1 ++ c!"0x_F_f" ++ A3)) (runSrc (A1 ++ c!"0b1111_1111" ++ A3)) :=
  interpret_int_spelling_anywhere {} nativeSim_empty 200 st0.2 "-" 255 (lt_litLimit (by decide)) A1 A3 _ _
    A1_boundary sp255_HEX sp255_bin (numTerminated_cons (by decide)) (StateSim.refl _)

/-- the scanner statement on it: the tokens in front are the same, the `int` token is `255` on line 1 -/
example : (∃ e e', scan (A1 ++ c!"0xff" ++ A3) "-" = .error e ∧ scan (A1 ++ c!"255" ++ A3) "-" = .error e' ∧ e.msg = e'.msg) ∨
    (∃ pre post post' ln c c', scan (A1 ++ c!"0xff" ++ A3) "-" = .ok (pre ++ ⟨Nat.toDigits 10 255, .int, ⟨"-", ln, c⟩⟩ :: post) ∧
      scan (A1 ++ c!"255" ++ A3) "-" = .ok (pre ++ ⟨Nat.toDigits 10 255, .int, ⟨"-", ln, c'⟩⟩ :: post') ∧
      post.map tv = post'.map tv) :=
  int_spelling_tokens "-" 255 (lt_litLimit (by decide)) A1 A3 _ _ A1_boundary sp255_hex sp255_dec (numTerminated_cons (by decide))

#guard (scan (A1 ++ c!"0xff" ++ A3) "-").toOption.map (·.map fun t => (t.value, t.pos.line, t.pos.col)) ==
  some [(c!"def", 1, 1), (c!"a", 1, 5), (c!"=", 1, 7), (c!"255", 1, 11), (c!";", 1, 13), (c!"a", 1, 15), (c!"+", 1, 18), (c!"b", 1, 19)]
#guard (scan (A1 ++ c!"255" ++ A3) "-").toOption.map (·.map fun t => (t.value, t.pos.line, t.pos.col)) ==
  some [(c!"def", 1, 1), (c!"a", 1, 5), (c!"=", 1, 7), (c!"255", 1, 9), (c!";", 1, 12), (c!"a", 1, 14), (c!"+", 1, 17), (c!"b", 1, 18)]

/-! a runtime error: `def a = 0x10; error 'bad ' + string(a)` versus `def a = 16; error "bad " + string(a)`:
    the same error value, other column -/

def B1 : List Char := c!"def a = "
def B2 : List Char := c!"; error "
def B3 : List Char := c!" + string(a)"

theorem sp16_hex : IntSpelling 16 c!"0x10" := .hex (u := c!"10") (by decide) (by decide) (by decide)
theorem sp16_dec : IntSpelling 16 c!"16" := .dec (by decide) (by decide)
theorem B12_boundary : C14.AtBoundary "-" (B1 ++ c!"16" ++ B2) := by
  intro σ h; have : σ = _ := (Except.ok.inj h).symm; subst this; decide

example : quoteWith '\'' c!"bad " = c!"'bad '" ∧ quoteWith '"' c!"bad " = c!"\"bad \"" := by decide

theorem B_spellEq : SpellEq "-" (B1 ++ c!"0x10" ++ (B2 ++ quoteWith '\'' c!"bad " ++ B3))
    (B1 ++ c!"16" ++ (B2 ++ quoteWith '"' c!"bad " ++ B3)) := by
  refine SpellEq.trans (SpellEq.int 16 (lt_litLimit (by decide)) B1 _ _ c!"16" A1_boundary sp16_hex sp16_dec
    (numTerminated_cons (by decide))) ?_
  have h := SpellEq.quote (file := "-") (B1 ++ c!"16" ++ B2) B3 c!"bad " B12_boundary
  simpa [List.append_assoc] using h

#guard summary (runSrc (B1 ++ c!"0x10" ++ (B2 ++ quoteWith '\'' c!"bad " ++ B3))) == ("err", some c!"'bad 16'", "", [], [])
#guard summary (runSrc (B1 ++ c!"16" ++ (B2 ++ quoteWith '"' c!"bad " ++ B3))) == ("err", some c!"'bad 16'", "", [], [])
#guard (C14E.Demo.errPos (runSrc (B1 ++ c!"0x10" ++ (B2 ++ quoteWith '\'' c!"bad " ++ B3)))).map (fun p => (p.1.line, p.1.col)) == some (1, 15)
#guard (C14E.Demo.errPos (runSrc (B1 ++ c!"16" ++ (B2 ++ quoteWith '"' c!"bad " ++ B3)))).map (fun p => (p.1.line, p.1.col)) == some (1, 13)

example {v m p t w} (h : runSrc (B1 ++ c!"0x10" ++ (B2 ++ quoteWith '\'' c!"bad " ++ B3)) = .err v m p t w) :
    ∃ v' p' t' w', runSrc (B1 ++ c!"16" ++ (B2 ++ quoteWith '"' c!"bad " ++ B3)) = .err v' m p' t' w' ∧ RValSim v v' ∧
      (¬ IsPosV v → v' = v) ∧ rrender w v = rrender w' v' ∧ t.map (·.1) = t'.map (·.1) ∧ StateSim w w' :=
  error_spelling_irrelevant {} nativeSim_empty 200 st0.2 "-" B_spellEq (StateSim.refl _) h

/-! strings with escapes in both styles, inside a call and inside a list:
    `println('it\'s'); ['a\tb', "q\"x"]`  versus  `println("it's"); ["a\tb", 'q"x']` -/

def C1 : List Char := c!"println("
def C2 : List Char := c!"); ["
def C3 : List Char := c!", "
def C4 : List Char := c!"]"
def sIts : List Char := ['i', 't', '\'', 's']
def sTab : List Char := ['a', '\t', 'b']
def sQx : List Char := ['q', '"', 'x']

example : quoteWith '\'' sIts = c!"'it\\'s'" ∧ quoteWith '"' sIts = c!"\"it's\"" ∧
    quoteWith '\'' sTab = c!"'a\\tb'" ∧ quoteWith '"' sTab = c!"\"a\\tb\"" ∧
    quoteWith '\'' sQx = c!"'q\"x'" ∧ quoteWith '"' sQx = c!"\"q\\\"x\"" := by decide

def progC (q1 q2 q3 : Char) : List Char :=
  C1 ++ quoteWith q1 sIts ++ (C2 ++ quoteWith q2 sTab ++ (C3 ++ quoteWith q3 sQx ++ C4))

theorem C1_boundary : C14.AtBoundary "-" C1 := by
  intro σ h; have : σ = _ := (Except.ok.inj h).symm; subst this; decide
theorem C12_boundary : C14.AtBoundary "-" (C1 ++ quoteWith '"' sIts ++ C2) := by
  intro σ h; have : σ = _ := (Except.ok.inj h).symm; subst this; decide
theorem C123_boundary : C14.AtBoundary "-" (C1 ++ quoteWith '"' sIts ++ C2 ++ quoteWith '"' sTab ++ C3) := by
  intro σ h; have : σ = _ := (Except.ok.inj h).symm; subst this; decide

/-- all three literals re-quoted -/
theorem C_spellEq : SpellEq "-" (progC '\'' '\'' '\'') (progC '"' '"' '"') := by
  have h1 := SpellEq.quote (file := "-") C1 (C2 ++ quoteWith '\'' sTab ++ (C3 ++ quoteWith '\'' sQx ++ C4)) sIts C1_boundary
  have h2 := SpellEq.quote (file := "-") (C1 ++ quoteWith '"' sIts ++ C2) (C3 ++ quoteWith '\'' sQx ++ C4) sTab C12_boundary
  have h3 := SpellEq.quote (file := "-") (C1 ++ quoteWith '"' sIts ++ C2 ++ quoteWith '"' sTab ++ C3) C4 sQx C123_boundary
  have h2' : SpellEq "-" (C1 ++ quoteWith '"' sIts ++ (C2 ++ quoteWith '\'' sTab ++ (C3 ++ quoteWith '\'' sQx ++ C4)))
      (C1 ++ quoteWith '"' sIts ++ (C2 ++ quoteWith '"' sTab ++ (C3 ++ quoteWith '\'' sQx ++ C4))) := by
    simpa [List.append_assoc] using h2
  have h3' : SpellEq "-" (C1 ++ quoteWith '"' sIts ++ (C2 ++ quoteWith '"' sTab ++ (C3 ++ quoteWith '\'' sQx ++ C4)))
      (progC '"' '"' '"') := by
    simpa [progC, List.append_assoc] using h3
  exact h1.trans (h2'.trans h3')

#guard progC '\'' '"' '\'' == "println('it\\'s'); [\"a\\tb\", 'q\"x']".toList
#guard summary (runSrc (progC '\'' '\'' '\'')) == ("ok", some c!"['a\\tb', 'q\"x']", "", [], ['i', 't', '\'', 's', '\n'])
#guard summary (runSrc (progC '"' '"' '"')) == summary (runSrc (progC '\'' '\'' '\''))
#guard summary (runSrc (progC '\'' '"' '\'')) == summary (runSrc (progC '"' '\'' '"'))

example : OutSimX (runSrc (progC '\'' '\'' '\'')) (runSrc (progC '"' '"' '"')) :=
  interpret_spellEq {} nativeSim_empty 200 st0.2 "-" C_spellEq (StateSim.refl _)

example : (runSrc (progC '\'' '\'' '\'')).finalState.out = (runSrc (progC '"' '"' '"')).finalState.out :=
  output_spelling_irrelevant {} nativeSim_empty 200 st0.2 "-" C_spellEq (StateSim.refl _)

example : OutSimX (runSrc (C1 ++ quoteWith '\'' sQx ++ c!")")) (runSrc (C1 ++ quoteWith '"' sQx ++ c!")")) :=
  interpret_quote_style_anywhere {} nativeSim_empty 200 st0.2 "-" C1 c!")" sQx C1_boundary (StateSim.refl _)

/-- a control character raw in `'…'` and as `\x07` in `"…"`: `println('a⍾')` versus `println("a\x07")` -/
example : quoteHexWith '"' ['a', '\x07'] = c!"\"a\\x07\"" ∧ quoteWith '\'' ['a', '\x07'] = ['\'', 'a', '\x07', '\''] := by decide
example : OutSimX (runSrc (C1 ++ quoteWith '\'' ['a', '\x07'] ++ c!")")) (runSrc (C1 ++ quoteHexWith '"' ['a', '\x07'] ++ c!")")) :=
  interpret_string_spelling_anywhere {} nativeSim_empty 200 st0.2 "-" C1 c!")" _ _ _ C1_boundary .single .doubleHex (StateSim.refl _)
#guard summary (runSrc (C1 ++ quoteWith '\'' ['a', '\x07'] ++ c!")")) == summary (runSrc (C1 ++ quoteHexWith '"' ['a', '\x07'] ++ c!")"))
#guard (match runSrc (C1 ++ quoteHexWith '"' ['a', '\x07'] ++ c!")") with | .ok _ s => s.out == ['a', '\x07', '\n'] | _ => false)

/-! a text that is rejected: the same message -/
#guard (match runSrc (A1 ++ c!"0xff" ++ c!" )"), runSrc (A1 ++ c!"255" ++ c!" )") with
  | .fail (.syn e) _, .fail (.syn e') _ => e.msg == e'.msg && e.pos.col != e'.pos.col && e.pos.line == e'.pos.line
  | _, _ => false)

/-! `!=` / `<>` inside a larger program: evaluated (not covered by a theorem, see `interpret_ne_spelling_stable_partial`) -/
#guard summary (runSrc c!"def f(x) do if x != 0b11 then 'ne' else \"eq\"; end; [f(3), f(0x4)]") ==
  summary (runSrc c!"def f(x) do if x <> 3 then \"ne\" else 'eq'; end; [f(0x3), f(4)]")
#guard summary (runSrc c!"def f(x) do if x <> 3 then \"ne\" else 'eq'; end; [f(0x3), f(4)]") == ("ok", some c!"['eq', 'ne']", "", [], [])

/-! the gap of the `!=` / `<>` congruence is not only a missing proof: for a REJECTED program the message
    quotes the token, so the two spellings give different syntax error messages -/
#guard (match parseScript c!"1 + != 1" "-", parseScript c!"1 + <> 1" "-" with
    | .error e, .error e' => (e.msg, e'.msg) | _, _ => ("", "")) ==
    ("Invalid syntax at '!= (operator)'", "Invalid syntax at '<> (operator)'")

/-- `interpret_ne_spelling_stable_partial` on `(x) != 1` versus `(x) <> 1` (a parenthesised operand) -/
example : OutSim (runSrc (c!"(x) " ++ '!' :: '=' :: c!" 1")) (runSrc (c!"(x) " ++ '<' :: '>' :: c!" 1")) :=
  interpret_ne_spelling_stable_partial {} nativeSim_empty 200 st0.2 "-" c!"(x) " c!" 1"
    (by intro σ h; have : σ = _ := (Except.ok.inj h).symm; subst this; decide)
    (l := [⟨c!"(", .interpunction, ⟨"-", 1, 1⟩⟩, ⟨c!"x", .identifier, ⟨"-", 1, 2⟩⟩, ⟨c!")", .interpunction, ⟨"-", 1, 3⟩⟩])
    (t := ⟨c!"!=", .operator, ⟨"-", 1, 3⟩⟩) (r := [⟨c!"1", .int, ⟨"-", 1, 8⟩⟩])
    ((Stable.of_lit (.ident _ rfl)).paren_add ⟨rfl, rfl⟩ ⟨rfl, rfl⟩) (Atom.addStable (.int _ 1 rfl (by decide)))
    rfl (by intro σ h; have : σ = _ := (Except.ok.inj h).symm; subst this; decide) (StateSim.refl _)

#guard summary (runSrc (c!"(x) " ++ '!' :: '=' :: c!" 1")) == summary (runSrc (c!"(x) " ++ '<' :: '>' :: c!" 1"))

end Ex

end Ckl.C14A
