/-
  C14 (redundant parentheses) — extension lemmas, part B: primary expressions and the list / set /
  map / object literals and comprehensions.
-/
import CklVerif.Lemmas.C14ParensHyp
namespace Ckl.C14X
open Ckl Ckl.Parser

local notation "kw" => (some TokType.keyword)
local notation "ip" => (some TokType.interpunction)
local notation "op" => (some TokType.operator)
local notation "idt" => (some TokType.identifier)

set_option linter.unusedSimpArgs false
set_option linter.unusedVariables false

variable {x : Ext}

/-- a step that is the same term in both runs (`mkAssign`, `mkAssignD`) -/
theorem ERel_same {A : Type} (y : Except PErr A) : ERel (fun a a' => a = a') y y := by
  cases y with
  | error e => exact ERel.err
  | ok a => exact rfl

theorem sim_pPrimary {c c' : Ctx} {st st' : St} (um : Bool) (H : Hyp x (st.toks.length * 16 + 1))
    (hc : CRel c c') (hs : SRel x st st') : ERel (OLt x) (pPrimary c um st) (pPrimary c' um st') := by
  by_cases hn0 : st.toks = []
  · rw [pPrimary_nil hn0]; exact ERel.err
  rw [pPrimary, pPrimary]
  simp only [hasNext_rel hs hn0, hs.prev]
  bif hb : (!st.hasNext)
  · exact ERel.err
  · ebind (next_rel hs) with t s1 h1 s1' h1' hs1
    bif hp : (t.value == c!"(" && t.type == .interpunction)
    · ebindw (H.pBareBlock false hc hs1 (by omega)) with r s2 h2 s2' h2' hs2 hnil
      · exact ⟨errEof s2.prev, by simp [expect_nil hnil]⟩
      sbind (expect_rel hs2 _ _) with s3 h3 s3' h3' hs3
      ebind (H.postfixLoop true true hc hs3 (by omega)) with r' s4 h4 s4' h4' hs4
      exact ⟨rfl, hs4⟩
    · have hkw : ERel (OLt x)
          (if (t.value == c!"do" && t.type == .keyword) = true then pBlock c st else leLt h1 (pPrimaryKw c t s1))
          (if (t.value == c!"do" && t.type == .keyword) = true then pBlock c' st'
            else leLt h1' (pPrimaryKw c' t s1')) := by
        bif hd : (t.value == c!"do" && t.type == .keyword)
        · exact H.pBlock hc hs (by omega)
        · exact ERel_leLt (H.pPrimaryKw t hc hs1 (by omega))
      obtain ⟨tv, tty, tp⟩ := t
      cases tty <;> dsimp only at hkw ⊢
      case identifier =>
        mif hs1 c!"=" op with s2 h2 s2' h2' hs2
        · mtab (matchOpTable_cases hs1 compoundOps compoundOps_tab) with fn s2 h2 s2' h2' hs2
          · exact ERel_leLt (H.postfixLoop true true hc hs1 (by omega))
          · ebind (H.pExpression hc hs2 (by omega)) with v s3 h3 s3' h3' hs3
            refine ERel.bind (ERel_same _) ?_
            rintro n _ rfl
            exact ⟨rfl, hs3⟩
        · ebind (H.pExpression hc hs2 (by omega)) with e s3 h3 s3' h3' hs3
          refine ERel.bind (ERel_same _) ?_
          rintro n _ rfl
          exact ⟨rfl, hs3⟩
      case string =>
        exact ERel_leLt (H.postfixLoop false true hc hs1 (by omega))
      case int =>
        cases parseIntLit tv with
        | none => exact ERel.err
        | some n =>
          exact ERel_leLt (H.postfixLoop false false hc hs1 (by omega))
      case decimal =>
        rcases parseDecimal tv with _ | ⟨m, e⟩
        · exact ERel.err
        · exact ERel_leLt (H.postfixLoop false false hc hs1 (by omega))
      case boolean =>
        exact ERel_leLt (H.postfixLoop false false hc hs1 (by omega))
      case pattern =>
        simp only [hc.validRe]
        bif hv : c.validRe ((tv.take (tv.length - 2)).drop 2)
        · exact ERel_leLt (H.postfixLoop false false hc hs1 (by omega))
        · exact ERel.err
      case keyword => exact hkw
      case operator => exact hkw
      case interpunction => exact hkw

theorem sim_pPrimaryKw {c c' : Ctx} {st st' : St} (t : Token) (H : Hyp x (st.toks.length * 16 + 15))
    (hc : CRel c c') (hs : SRel x st st') :
    ERel (OLe x) (pPrimaryKw c t st) (pPrimaryKw c' t st') := by
  rw [pPrimaryKw, pPrimaryKw]
  dsimp only
  bif h1 : (t.type == .keyword)
  · bif h2 : (t.value == c!"fn")
    · exact ERel_ltLe (H.pFn _ hc hs (by omega))
    bif h3 : (t.value == c!"break")
    · exact ⟨rfl, hs⟩
    bif h4 : (t.value == c!"continue")
    · exact ⟨rfl, hs⟩
    bif h5 : (t.value == c!"return")
    · pk3 hs c!";" ip with hnil
      · bif hp : st.peekn 1 c!";" ip
        · exact ⟨rfl, hs⟩
        · ebind (H.pExpression hc hs (by omega)) with e s1 h1 s1' h1' hs1
          exact ⟨rfl, hs1⟩
      · nil_tac hnil
    bif h6 : (t.value == c!"error")
    · ebind (H.pExpression hc hs (by omega)) with e s1 h1 s1' h1' hs1
      exact ⟨rfl, hs1⟩
    · exact ERel.err
  bif h2 : (t.type == .interpunction)
  · bif h3 : (t.value == c!"[")
    · ebind (H.pListLiteral _ hc hs (by omega)) with r s1 h1 s1' h1' hs1
      simp only [peekn1_tab hs1 (v := c!"=") (ty := op) (by tab)]
      bif hp : s1.peekn 1 c!"=" op
      · cases r with
        | list items p =>
          dsimp only
          cases identNames items with
          | error e => exact ERel.err
          | ok names =>
            dsimp only
            sbind (expect_rel hs1 _ _) with s2 h2 s2' h2' hs2
            ebind (H.pExpression hc hs2 (by omega)) with e s3 h3 s3' h3' hs3
            refine ERel.bind (ERel_same _) ?_
            rintro n _ rfl
            exact ⟨rfl, hs3⟩
        | _ => exact ERel.err
      · exact ⟨rfl, hs1⟩
    bif h4 : (t.value == c!"<<")
    · exact ERel_ltLe (H.pSetLiteral _ hc hs (by omega))
    bif h5 : (t.value == c!"<<<")
    · exact ERel_ltLe (H.pMapLiteral _ hc hs (by omega))
    bif h6 : (t.value == c!"<*")
    · exact ERel_ltLe (H.pObjectLiteral _ hc hs (by omega))
    bif h7 : (t.value == c!"...")
    · ebind (next_rel hs) with t2 s1 h1 s1' h1' hs1
      bif h8 : (t2.value == c!"[" && t2.type == .interpunction)
      · ebind (H.pListLiteral _ hc hs1 (by omega)) with r s2 h2 s2' h2' hs2
        exact ⟨rfl, hs2⟩
      bif h9 : (t2.value == c!"<<<" && t2.type == .interpunction)
      · ebind (H.pMapLiteral _ hc hs1 (by omega)) with r s2 h2 s2' h2' hs2
        exact ⟨rfl, hs2⟩
      bif h10 : (t2.type == .identifier)
      · exact ⟨rfl, hs1⟩
      · exact ERel.err
    · exact ERel.err
  · exact ERel.err

theorem sim_pListLiteral {c c' : Ctx} {st st' : St} (tpos : Pos) (H : Hyp x (st.toks.length * 16 + 11))
    (hc : CRel c c') (hs : SRel x st st') :
    ERel (OLt x) (pListLiteral c tpos st) (pListLiteral c' tpos st') := by
  rw [pListLiteral, pListLiteral]
  mif3 hs c!"]" ip with s1 h1 s1' h1' hs1 hnil
  · ebind (H.pExpression hc hs (by omega)) with e s1 h1 s1' h1' hs1
    mif hs1 c!"for" kw with s2 h2 s2' h2' hs2
    · ebind (H.listLoop (pending := some e) hc hs1 (by omega)) with items s2 h2 s2' h2' hs2
      sbind (expect_rel hs2 _ _) with s3 h3 s3' h3' hs3
      ebind (H.postfixLoop false true hc hs3 (by omega)) with r s4 h4 s4' h4' hs4
      exact ⟨rfl, hs4⟩
    · ebind (H.pComprRest .list true c!"]" tpos hc hs2 (by omega)) with r s3 h3 s3' h3' hs3
      exact ⟨rfl, hs3⟩
  · exact ERel_leLt (H.postfixLoop false true hc hs1 (by omega))
  · nil_tac hnil

theorem sim_listLoop {c c' : Ctx} {st st' : St} {items : List Node} {pending : Option Node}
    (H : Hyp x (st.toks.length * 16 + 0)) (hc : CRel c c') (hs : SRel x st st') :
    ERel (OLe x) (listLoop c st items pending) (listLoop c' st' items pending) := by
  rw [listLoop, listLoop]
  pk3 hs c!"]" ip with hnil
  · bif hb : st.peekn 1 c!"]" ip
    · exact ⟨rfl, hs⟩
    · sbind (expect_rel hs _ _) with s1 h1 s1' h1' hs1
      pk3 hs1 c!"]" ip with hnil1
      · bif hb2 : s1.peekn 1 c!"]" ip
        · exact ⟨rfl, hs1⟩
        · ebind (H.pExpression hc hs1 (by omega)) with e s2 h2 s2' h2' hs2
          ebind (H.listLoop (pending := some e) hc hs2 (by omega)) with r s3 h3 s3' h3' hs3
          exact ⟨rfl, hs3⟩
      · nil_tac hnil1
  · nil_tac hnil

theorem sim_comprClause {c c' : Ctx} {st st' : St} (H : Hyp x (st.toks.length * 16 + 0))
    (hc : CRel c c') (hs : SRel x st st') : ERel (OLt x) (comprClause c st) (comprClause c' st') := by
  rw [comprClause, comprClause]
  ebind (matchIdentifier_rel hs) with name s1 h1 s1' h1' hs1
  sbind (expect_rel hs1 _ _) with s2 h2 s2' h2' hs2
  mwhat hs2 with what s3 h3 s3' h3' hs3
  ebind (H.pOr hc hs3 (by omega)) with l s4 h4 s4' h4' hs4
  exact ⟨rfl, hs4⟩

theorem sim_comprFinish {c c' : Ctx} {st st' : St} {mk : Node → Node} (closer : List Char)
    (H : Hyp x (st.toks.length * 16 + 0)) (hc : CRel c c') (hs : SRel x st st') :
    ERel (OLt x) (comprFinish c mk closer st) (comprFinish c' mk closer st') := by
  rw [comprFinish, comprFinish]
  ebindr (OLe x) with cond s1 h1 s1' h1' hs1
  · mif hs c!"if" kw with s h s' h' hs'
    · exact ⟨rfl, hs⟩
    · exact ERel_ltLe (H.pOr hc hs' (by omega))
  sbind (expect_rel hs1 _ _) with s2 h2 s2' h2' hs2
  ebind (H.postfixLoop false true hc hs2 (by omega)) with r s3 h3 s3' h3' hs3
  exact ⟨rfl, hs3⟩

theorem sim_pComprRest {c c' : Ctx} {st st' : St} {v ke : Node} (kind : ComprKind) (multi : Bool)
    (closer : List Char) (tpos : Pos) (H : Hyp x (st.toks.length * 16 + 1)) (hc : CRel c c')
    (hs : SRel x st st') :
    ERel (OLt x) (pComprRest c kind multi closer tpos v ke st)
      (pComprRest c' kind multi closer tpos v ke st') := by
  rw [pComprRest, pComprRest]
  ebind (H.comprClause hc hs (by omega)) with r1 s1 h1 s1' h1' hs1
  obtain ⟨id1, what1, l1⟩ := r1
  dsimp only
  mifg multi hs1 c!"for" kw with s2 h2 s2' h2' hs2
  · mifg2 multi hs1 c!"also" kw c!"for" kw with s2 h2 s2' h2' hs2
    · ebind (H.comprFinish closer hc hs1 (by omega)) with r s4 h4 s4' h4' hs4
      exact ⟨rfl, hs4⟩
    · ebind (H.comprClause hc hs2 (by omega)) with r2 s3 h3 s3' h3' hs3
      obtain ⟨id2, what2, l2⟩ := r2
      dsimp only
      ebind (H.comprFinish closer hc hs3 (by omega)) with r s4 h4 s4' h4' hs4
      exact ⟨rfl, hs4⟩
  · ebind (H.comprClause hc hs2 (by omega)) with r2 s3 h3 s3' h3' hs3
    obtain ⟨id2, what2, l2⟩ := r2
    dsimp only
    ebind (H.comprFinish closer hc hs3 (by omega)) with r s4 h4 s4' h4' hs4
    exact ⟨rfl, hs4⟩

theorem sim_pSetLiteral {c c' : Ctx} {st st' : St} (tpos : Pos) (H : Hyp x (st.toks.length * 16 + 11))
    (hc : CRel c c') (hs : SRel x st st') :
    ERel (OLt x) (pSetLiteral c tpos st) (pSetLiteral c' tpos st') := by
  rw [pSetLiteral, pSetLiteral]
  mif3 hs c!">>" ip with s1 h1 s1' h1' hs1 hnil
  · ebind (H.pExpression hc hs (by omega)) with e s1 h1 s1' h1' hs1
    mif hs1 c!"for" kw with s2 h2 s2' h2' hs2
    · sbind (sepUnless_rel hs1 _) with s2 h2 s2' h2' hs2
      ebind (H.setLoop hc hs2 (by omega)) with items s3 h3 s3' h3' hs3
      sbind (expect_rel hs3 _ _) with s4 h4 s4' h4' hs4
      ebind (H.postfixLoop false true hc hs4 (by omega)) with r s5 h5 s5' h5' hs5
      exact ⟨rfl, hs5⟩
    · ebind (H.pComprRest .set true c!">>" tpos hc hs2 (by omega)) with r s3 h3 s3' h3' hs3
      exact ⟨rfl, hs3⟩
  · exact ERel_leLt (H.postfixLoop false true hc hs1 (by omega))
  · nil_tac hnil

theorem sim_setLoop {c c' : Ctx} {st st' : St} {items : List Node} (H : Hyp x (st.toks.length * 16 + 11))
    (hc : CRel c c') (hs : SRel x st st') :
    ERel (OLe x) (setLoop c st items) (setLoop c' st' items) := by
  rw [setLoop, setLoop]
  pk3 hs c!">>" ip with hnil
  · bif hb : st.peekn 1 c!">>" ip
    · exact ⟨rfl, hs⟩
    · ebind (H.pExpression hc hs (by omega)) with e s1 h1 s1' h1' hs1
      sbind (sepUnless_rel hs1 _) with s2 h2 s2' h2' hs2
      ebind (H.setLoop hc hs2 (by omega)) with r s3 h3 s3' h3' hs3
      exact ⟨rfl, hs3⟩
  · nil_tac hnil

theorem sim_pMapLiteral {c c' : Ctx} {st st' : St} (tpos : Pos) (H : Hyp x (st.toks.length * 16 + 11))
    (hc : CRel c c') (hs : SRel x st st') :
    ERel (OLt x) (pMapLiteral c tpos st) (pMapLiteral c' tpos st') := by
  rw [pMapLiteral, pMapLiteral]
  mif3 hs c!">>>" ip with s1 h1 s1' h1' hs1 hnil
  · ebind (H.pExpression hc hs (by omega)) with k s1 h1 s1' h1' hs1
    sbind (expect_rel hs1 _ _) with s2 h2 s2' h2' hs2
    ebind (H.pExpression hc hs2 (by omega)) with v s3 h3 s3' h3' hs3
    mif hs3 c!"for" kw with s4 h4 s4' h4' hs4
    · sbind (sepUnless_rel hs3 _) with s4 h4 s4' h4' hs4
      ebind2 (H.mapLoop hc hs4 (by omega)) with ks vs s5 h5 s5' h5' hs5
      sbind (expect_rel hs5 _ _) with s6 h6 s6' h6' hs6
      ebind (H.postfixLoop false true hc hs6 (by omega)) with r s7 h7 s7' h7' hs7
      exact ⟨rfl, hs7⟩
    · ebind (H.pComprRest .map false c!">>>" tpos hc hs4 (by omega)) with r s5 h5 s5' h5' hs5
      exact ⟨rfl, hs5⟩
  · exact ERel_leLt (H.postfixLoop false true hc hs1 (by omega))
  · nil_tac hnil

theorem sim_mapLoop {c c' : Ctx} {st st' : St} {ks vs : List Node} (H : Hyp x (st.toks.length * 16 + 11))
    (hc : CRel c c') (hs : SRel x st st') :
    ERel (OLe x) (mapLoop c st ks vs) (mapLoop c' st' ks vs) := by
  rw [mapLoop, mapLoop]
  pk3 hs c!">>>" ip with hnil
  · bif hb : st.peekn 1 c!">>>" ip
    · exact ⟨rfl, hs⟩
    · ebind (H.pExpression hc hs (by omega)) with k s1 h1 s1' h1' hs1
      sbind (expect_rel hs1 _ _) with s2 h2 s2' h2' hs2
      ebind (H.pExpression hc hs2 (by omega)) with v s3 h3 s3' h3' hs3
      sbind (sepUnless_rel hs3 _) with s4 h4 s4' h4' hs4
      ebind (H.mapLoop hc hs4 (by omega)) with r s5 h5 s5' h5' hs5
      exact ⟨rfl, hs5⟩
  · nil_tac hnil

theorem sim_pObjectLiteral {c c' : Ctx} {st st' : St} (tpos : Pos) (H : Hyp x (st.toks.length * 16 + 1))
    (hc : CRel c c') (hs : SRel x st st') :
    ERel (OLt x) (pObjectLiteral c tpos st) (pObjectLiteral c' tpos st') := by
  rw [pObjectLiteral, pObjectLiteral]
  ebind2 (H.objLoop [] hc hs (by omega)) with ks vs s1 h1 s1' h1' hs1
  sbind (expect_rel hs1 _ _) with s2 h2 s2' h2' hs2
  ebind (H.postfixLoop false true hc hs2 (by omega)) with r s3 h3 s3' h3' hs3
  exact ⟨rfl, hs3⟩

theorem sim_objLoop {c c' : Ctx} {st st' : St} {vs : List Node} (ks : List String)
    (H : Hyp x (st.toks.length * 16 + 0)) (hc : CRel c c') (hs : SRel x st st') :
    ERel (OLe x) (objLoop c st ks vs) (objLoop c' st' ks vs) := by
  rw [objLoop, objLoop]
  pk3 hs c!"*>" ip with hnil
  · bif hb : st.peekn 1 c!"*>" ip
    · exact ⟨rfl, hs⟩
    · ebind (matchIdentifier_rel hs) with key s1 h1 s1' h1' hs1
      ebindr (OLt x) with v s2 h2 s2' h2' hs2
      · simp only [peekn1_tab hs1 (v := c!"(") (ty := ip) (by tab), hs1.prev]
        bif hp : s1.peekn 1 c!"(" ip
        · exact H.pFn _ hc hs1 (by omega)
        · sbind (expect_rel hs1 _ _) with sa ha sa' ha' hsa
          ebind (H.pExpression hc hsa (by omega)) with v sb hb sb' hb' hsb
          exact ⟨rfl, hsb⟩
      sbind (sepUnless_rel hs2 _) with s3 h3 s3' h3' hs3
      ebind (H.objLoop _ hc hs3 (by omega)) with r s4 h4 s4' h4' hs4
      exact ⟨rfl, hs4⟩
  · nil_tac hnil

end Ckl.C14X
