import CklVerif.Lemmas.C19SrcSymDiff
import CklVerif.Lemmas.C19SrcLoad

/-!
  C19Src — theorems about the SOURCE of set.ckl (`union`, `intersection`, `diff`, `symmetric_diff`) and of list.ckl `append_all`
  on a SET cell, about the regenerated ASTs of `Gen/LibSrc.lean`.

  Arguments: `Coll s v en` — `v` is a reference to a LIST cell or to a SET cell of scalar data values (`liftV`), `en` its
  enumeration (the items of the list in order / the elements of the set in sorted order: what `for x in v` and `list(v)` visit).
  Results: a reference `r` to a FRESH set cell (`s.heap.size ≤ r`) holding the mirror of Model/Lib.lean (`Lib.unionM`, …) applied
  to the enumerations; `Ext s s'` — every frame, every heap cell (in particular BOTH ARGUMENT CELLS) and the output of `s` are
  unchanged.  (A past defect had `union` mutate its first argument: `union_src` excludes it for the current source.)
  Every theorem: all collections of scalars, all states satisfying the hypotheses, every fuel above the explicit bound, exact
  outcome `.ok (.ref r) s'`.
-/
namespace Ckl.C19Src
open Ckl Ckl.C03 Ckl.Gen.LibSrc Ckl.Lib Ckl.C19
variable (ld : Loader)

/-! ## 1  `intersection`, `diff` -/

/-- **set.ckl `intersection(seta, setb)`** (source: `for a in seta do if a in setb then result !> append(a)`), for list cells and
    set cells of scalars in any combination.  Fuel bound `enA.length + 16`. -/
theorem intersection_src {s : State} {M nats srcs fn m} (h : LibEnv s M nats srcs) (hn : ∀ x ∈ setNats, x ∈ nats)
    (hm : M m) (hsrc : IsSrc s fn set_intersection m) (va vb : RVal) (enA enB : List Val)
    (CA : Coll s va enA) (CB : Coll s vb enB) :
    ∃ r s', Ext s s' ∧ s.heap.size ≤ r ∧ s'.cell r = some (.set ((intersectionM enA enB).map liftV)) ∧
      Coll s' va enA ∧ Coll s' vb enB ∧
      ∀ fuel env pos, enA.length + 16 < fuel →
        callFn ld fuel fn [("seta", va), ("setb", vb)] env pos s = .ok (.ref r) s' := by
  obtain ⟨r, s', ⟨e, _, hr, hc⟩, c⟩ := intersection_calls ld h hn hm hsrc va vb enA enB CA CB
  exact ⟨r, s', e, hr, hc, CA.ext e, CB.ext e, fun fuel env pos hf => c env pos fuel hf⟩

/-- **set.ckl `diff(seta, setb)`** (source: `… if a not in setb then result !> append(a)`).  Fuel bound `enA.length + 16`. -/
theorem diff_src {s : State} {M nats srcs fn m} (h : LibEnv s M nats srcs) (hn : ∀ x ∈ setNats, x ∈ nats)
    (hm : M m) (hsrc : IsSrc s fn set_diff m) (va vb : RVal) (enA enB : List Val)
    (CA : Coll s va enA) (CB : Coll s vb enB) :
    ∃ r s', Ext s s' ∧ s.heap.size ≤ r ∧ s'.cell r = some (.set ((diffM enA enB).map liftV)) ∧
      Coll s' va enA ∧ Coll s' vb enB ∧
      ∀ fuel env pos, enA.length + 16 < fuel →
        callFn ld fuel fn [("seta", va), ("setb", vb)] env pos s = .ok (.ref r) s' := by
  obtain ⟨r, s', ⟨e, _, hr, hc⟩, c⟩ := diff_calls ld h hn hm hsrc va vb enA enB CA CB
  exact ⟨r, s', e, hr, hc, CA.ext e, CB.ext e, fun fuel env pos hf => c env pos fuel hf⟩

/-- the set-theoretic reading (Proofs/C19.lean transported to the source): the result set has no `veq`-duplicates, its members
    are exactly the members of both arguments, and it is a sublist of the enumeration of the first argument -/
theorem intersection_src_spec {s : State} {M nats srcs fn m} (h : LibEnv s M nats srcs) (hn : ∀ x ∈ setNats, x ∈ nats)
    (hm : M m) (hsrc : IsSrc s fn set_intersection m) (va vb : RVal) (enA enB : List Val)
    (CA : Coll s va enA) (CB : Coll s vb enB) :
    ∃ r s' rs, Ext s s' ∧ s.heap.size ≤ r ∧ s'.cell r = some (.set (rs.map liftV)) ∧ NoDupV rs ∧
      (∀ x, memV x rs = (memV x enA && memV x enB)) ∧ rs.Sublist enA ∧
      ∀ fuel env pos, enA.length + 16 < fuel →
        callFn ld fuel fn [("seta", va), ("setb", vb)] env pos s = .ok (.ref r) s' := by
  obtain ⟨r, s', e, hr, hc, _, _, c⟩ := intersection_src ld h hn hm hsrc va vb enA enB CA CB
  exact ⟨r, s', _, e, hr, hc, C19.noDupV_intersectionM _ _, fun x => C19.memV_intersectionM x _ _,
    C19.intersectionM_sublist _ _, c⟩

theorem diff_src_spec {s : State} {M nats srcs fn m} (h : LibEnv s M nats srcs) (hn : ∀ x ∈ setNats, x ∈ nats)
    (hm : M m) (hsrc : IsSrc s fn set_diff m) (va vb : RVal) (enA enB : List Val)
    (CA : Coll s va enA) (CB : Coll s vb enB) :
    ∃ r s' rs, Ext s s' ∧ s.heap.size ≤ r ∧ s'.cell r = some (.set (rs.map liftV)) ∧ NoDupV rs ∧
      (∀ x, memV x rs = (memV x enA && !memV x enB)) ∧ rs.Sublist enA ∧
      ∀ fuel env pos, enA.length + 16 < fuel →
        callFn ld fuel fn [("seta", va), ("setb", vb)] env pos s = .ok (.ref r) s' := by
  obtain ⟨r, s', e, hr, hc, _, _, c⟩ := diff_src ld h hn hm hsrc va vb enA enB CA CB
  exact ⟨r, s', _, e, hr, hc, C19.noDupV_diffM _ _, fun x => C19.memV_diffM x _ _, C19.diffM_sublist _ _, c⟩

/-! ## 2  `append_all` on a set cell (the documented mutator) -/

/-- **list.ckl `append_all(lst, items)` with `lst` a SET cell** `a` holding `acc` and `items` a list cell or a set cell
    (`items = lst` allowed): returns `.ref a`; afterwards cell `a` holds the set with the items added in enumeration order
    (`Lib.appendAllSet`: `set.add` keeps the resident element); **`ExtBut a s s'`**: every frame, the output and every OTHER
    cell that existed are unchanged — `append_all` changes exactly its first argument.  Fuel bound `en.length + 14`. -/
theorem append_all_src_set {s : State} {M nats srcs fn m} (h : LibEnv s M nats srcs) (hn : ∀ x ∈ appendSetNats, x ∈ nats)
    (hm : M m) (hsrc : IsSrc s fn list_append_all m) (a : Nat) (vb : RVal) (acc en : List Val)
    (hacc : ScalarL acc) (hca : s.cell a = some (.set (acc.map liftV))) (CB : Coll s vb en) :
    ∃ s', ExtBut a s s' ∧ s'.cell a = some (.set ((appendAllSet acc en).map liftV)) ∧
      ∀ fuel env pos, en.length + 14 < fuel →
        callFn ld fuel fn [("lst", .ref a), ("items", vb)] env pos s = .ok (.ref a) s' := by
  obtain ⟨s', e, ⟨_, hc⟩, c⟩ := append_all_calls_set ld h hn hm hsrc a vb acc en hacc hca CB
  exact ⟨s', e, hc, fun fuel env pos hf => c env pos fuel hf⟩

/-! ## 3  `union` (starts with `require List import [append_all]`), `symmetric_diff` -/

/-- **set.ckl `union(seta, setb)`** under `ListMod s M` (the module `List` is in the module cache and exports the generated
    `append_all`; the `require` statement binds it in the call frame): a FRESH set cell holding `Lib.unionM` of the enumerations;
    `Ext s s'` — NEITHER ARGUMENT CELL CHANGES (the mutations of `append_all` hit the fresh cell only).
    Fuel bound `enA.length + enB.length + 25`. -/
theorem union_src {s : State} {M nats srcs fn m} (h : LibEnv s M nats srcs) (hn : ∀ x ∈ unionNats, x ∈ nats)
    (LM : ListMod s M) (hm : M m) (hsrc : IsSrc s fn set_union m) (va vb : RVal) (enA enB : List Val)
    (CA : Coll s va enA) (CB : Coll s vb enB) :
    ∃ r s', Ext s s' ∧ s.heap.size ≤ r ∧ s'.cell r = some (.set ((unionM enA enB).map liftV)) ∧
      Coll s' va enA ∧ Coll s' vb enB ∧ ListMod s' M ∧
      ∀ fuel env pos, enA.length + enB.length + 25 < fuel →
        callFn ld fuel fn [("seta", va), ("setb", vb)] env pos s = .ok (.ref r) s' := by
  obtain ⟨r, s', ⟨e, hmods, hr, hc⟩, c⟩ := union_calls ld h hn LM hm hsrc va vb enA enB CA CB
  exact ⟨r, s', e, hr, hc, CA.ext e, CB.ext e, LM.ext h.lt e hmods, fun fuel env pos hf => c env pos fuel hf⟩

/-- `union` of two LIST cells: `union([1, 2, 3], [2, 3, 4])` -/
theorem union_src_lists {s : State} {M nats srcs fn m} (h : LibEnv s M nats srcs) (hn : ∀ x ∈ unionNats, x ∈ nats)
    (LM : ListMod s M) (hm : M m) (hsrc : IsSrc s fn set_union m) (a b : Nat) (xs ys : List Val)
    (hxs : ScalarL xs) (hys : ScalarL ys)
    (hca : s.cell a = some (.list (xs.map liftV))) (hcb : s.cell b = some (.list (ys.map liftV))) :
    ∃ r s', Ext s s' ∧ s.heap.size ≤ r ∧ s'.cell r = some (.set ((unionM xs ys).map liftV)) ∧
      s'.cell a = some (.list (xs.map liftV)) ∧ s'.cell b = some (.list (ys.map liftV)) ∧
      ∀ fuel env pos, xs.length + ys.length + 25 < fuel →
        callFn ld fuel fn [("seta", .ref a), ("setb", .ref b)] env pos s = .ok (.ref r) s' := by
  obtain ⟨r, s', e, hr, hc, _, _, _, c⟩ := union_src ld h hn LM hm hsrc (.ref a) (.ref b) xs ys
    (Coll.ofList hxs hca) (Coll.ofList hys hcb)
  exact ⟨r, s', e, hr, hc, by rw [e.cell a (cell_lt hca)]; exact hca, by rw [e.cell b (cell_lt hcb)]; exact hcb, c⟩

/-- `union` of two SET cells (`union(<<1, 2, 3>>, <<2, 3, 4>>)`): the elements are visited in sorted order -/
theorem union_src_sets {s : State} {M nats srcs fn m} (h : LibEnv s M nats srcs) (hn : ∀ x ∈ unionNats, x ∈ nats)
    (LM : ListMod s M) (hm : M m) (hsrc : IsSrc s fn set_union m) (a b : Nat) (xs ys : List Val)
    (hxs : ScalarL xs) (hys : ScalarL ys)
    (hca : s.cell a = some (.set (xs.map liftV))) (hcb : s.cell b = some (.set (ys.map liftV))) :
    ∃ r s', Ext s s' ∧ s.heap.size ≤ r ∧
      s'.cell r = some (.set ((unionM (sortedItems decRepr xs) (sortedItems decRepr ys)).map liftV)) ∧
      s'.cell a = some (.set (xs.map liftV)) ∧ s'.cell b = some (.set (ys.map liftV)) ∧
      ∀ fuel env pos, xs.length + ys.length + 25 < fuel →
        callFn ld fuel fn [("seta", .ref a), ("setb", .ref b)] env pos s = .ok (.ref r) s' := by
  obtain ⟨r, s', e, hr, hc, _, _, _, c⟩ := union_src ld h hn LM hm hsrc (.ref a) (.ref b) _ _
    (Coll.ofSet hxs hca) (Coll.ofSet hys hcb)
  rw [length_sortedItems, length_sortedItems] at c
  exact ⟨r, s', e, hr, hc, by rw [e.cell a (cell_lt hca)]; exact hca, by rw [e.cell b (cell_lt hcb)]; exact hcb, c⟩

/-- the set-theoretic reading of `union` (`C19.memV_unionM`, `noDupV_unionM`, `unionM_sublist`) -/
theorem union_src_spec {s : State} {M nats srcs fn m} (h : LibEnv s M nats srcs) (hn : ∀ x ∈ unionNats, x ∈ nats)
    (LM : ListMod s M) (hm : M m) (hsrc : IsSrc s fn set_union m) (va vb : RVal) (enA enB : List Val)
    (CA : Coll s va enA) (CB : Coll s vb enB) :
    ∃ r s' rs, Ext s s' ∧ s.heap.size ≤ r ∧ s'.cell r = some (.set (rs.map liftV)) ∧ NoDupV rs ∧
      (∀ x, memV x rs = (memV x enA || memV x enB)) ∧ rs.Sublist (enA ++ enB) ∧
      ∀ fuel env pos, enA.length + enB.length + 25 < fuel →
        callFn ld fuel fn [("seta", va), ("setb", vb)] env pos s = .ok (.ref r) s' := by
  obtain ⟨r, s', e, hr, hc, _, _, _, c⟩ := union_src ld h hn LM hm hsrc va vb enA enB CA CB
  exact ⟨r, s', _, e, hr, hc, C19.noDupV_unionM _ _, fun x => C19.memV_unionM x _ _, C19.unionM_sublist _ _, c⟩

/-- **set.ckl `symmetric_diff(seta, setb) = union(diff(seta, setb), diff(setb, seta))`**: `union` and `diff` are resolved through
    the environment (`symDiffSrcs`); the result is `Lib.symmetricDiffM decRepr` of the enumerations (the two differences are
    set VALUES, which `append_all` enumerates in sorted order); a FRESH set cell; `Ext`.
    Fuel bound `enA.length + enB.length + 32`. -/
theorem symmetric_diff_src {s : State} {M nats srcs fn m} (h : LibEnv s M nats srcs) (hn : ∀ x ∈ unionNats, x ∈ nats)
    (hs : ∀ p ∈ symDiffSrcs, p ∈ srcs) (LM : ListMod s M) (hm : M m) (hsrc : IsSrc s fn set_symmetric_diff m)
    (va vb : RVal) (enA enB : List Val) (CA : Coll s va enA) (CB : Coll s vb enB) :
    ∃ r s', Ext s s' ∧ s.heap.size ≤ r ∧ s'.cell r = some (.set ((symmetricDiffM decRepr enA enB).map liftV)) ∧
      Coll s' va enA ∧ Coll s' vb enB ∧
      ∀ fuel env pos, enA.length + enB.length + 32 < fuel →
        callFn ld fuel fn [("seta", va), ("setb", vb)] env pos s = .ok (.ref r) s' := by
  obtain ⟨r, s', ⟨e, _, hr, hc⟩, c⟩ := symmetric_diff_calls ld h hn hs LM hm hsrc va vb enA enB CA CB
  exact ⟨r, s', e, hr, hc, CA.ext e, CB.ext e, fun fuel env pos hf => c env pos fuel hf⟩

/-- the set-theoretic reading: membership in the result is the exclusive or (`C19.memV_symmetricDiffM`) -/
theorem symmetric_diff_src_spec {s : State} {M nats srcs fn m} (h : LibEnv s M nats srcs) (hn : ∀ x ∈ unionNats, x ∈ nats)
    (hs : ∀ p ∈ symDiffSrcs, p ∈ srcs) (LM : ListMod s M) (hm : M m) (hsrc : IsSrc s fn set_symmetric_diff m)
    (va vb : RVal) (enA enB : List Val) (CA : Coll s va enA) (CB : Coll s vb enB) :
    ∃ r s' rs, Ext s s' ∧ s.heap.size ≤ r ∧ s'.cell r = some (.set (rs.map liftV)) ∧ NoDupV rs ∧
      (∀ x, memV x rs = xor (memV x enA) (memV x enB)) ∧
      ∀ fuel env pos, enA.length + enB.length + 32 < fuel →
        callFn ld fuel fn [("seta", va), ("setb", vb)] env pos s = .ok (.ref r) s' := by
  obtain ⟨r, s', e, hr, hc, _, _, c⟩ := symmetric_diff_src ld h hn hs LM hm hsrc va vb enA enB CA CB
  exact ⟨r, s', _, e, hr, hc, C19.noDupV_symmetricDiffM _ _ _, fun x => C19.memV_symmetricDiffM _ x _ _, c⟩

/-! ## 4  the `require` rule as a statement about the node -/

/-- **`require List import [append_all]` in a state where the module is cached** (any frame `env` from which the identifier is
    unbound): value NULL, the ONLY change is the binding `append_all ↦ w` in frame `env` (`w` the module frame's own value);
    for every fuel > 2.  (General rule: `Ev.requireCached` in Lemmas/C19SrcSetRules.lean.) -/
theorem require_cached_node {env : EnvId} {n : String} {p pos : Pos} {name : Option String} {sym al : String} {s : State}
    {ml : EnvId} {w : RVal}
    (hlook : s.lookup env n = none) (hstack : s.modstack.contains (modKey n) = false)
    (hcache : s.modules.lookup (modKey n) = some ml) (hval : dictGet sym (s.frame ml).vars = some w)
    (hpub : sym.startsWith "_" = false) :
    ∀ fuel, 2 < fuel →
      eval ld fuel env (.require (.ident n p) name false (some [(sym, al)]) pos) s = .ok .null (s.put env al w) :=
  Ev.requireCached ld (k := 0) hlook hstack hcache hval hpub

/-! ## 5  the hypotheses are satisfiable; end to end -/

/- test: the key the evaluator computes for the identifier `List` is `"List"` (`String.splitOn` does not reduce by `decide`, hence
   `modKey` in the statements; PROVED as `modKey_List_D4` in Lemmas/C19SrcD4Keys.lean by unrolling `splitOnAux`) -/
#guard modKey "List" == "List"

/-- the built-ins the set functions need -/
def setLoadNats : List String := ["list", "sublist", "append"]

/-- the generated definitions of this group -/
def setDefs : List Node := [list_append_all, set_union, set_intersection, set_diff, set_symmetric_diff]

theorem setDefs_names : setDefs.map defName = ["append_all", "union", "intersection", "diff", "symmetric_diff"] := rfl

example : (∀ x ∈ setNats, x ∈ setLoadNats) ∧ (∀ x ∈ unionNats, x ∈ setLoadNats) ∧ (∀ x ∈ appendSetNats, x ∈ setLoadNats) := by
  decide

/-- a base state: frame 0 with NULL and the three built-ins, an empty module frame 1 -/
def setBase : State :=
  { frames := #[{ vars := [("NULL", .null), ("list", .native "list" 0), ("sublist", .native "sublist" 1),
                           ("append", .native "append" 2)], parent := none },
               { vars := [], parent := some 0 }] }

/-- **satisfiability of all hypotheses of this file**: evaluate the generated definitions in frame 1 of `setBase` (the module
    frame of `List`/`Set`), register frame 1 as the cached module `List`, allocate a list cell and a set cell: the resulting
    state satisfies `LibEnv`, `ListMod`, and has the function values and two collection arguments. -/
theorem set_hyps_satisfiable : ∃ (s : State) (fU fI fD fS fA : RVal) (a b : Nat),
    LibEnv s (· = 1) setLoadNats (setDefs.map (fun d => (defName d, d))) ∧ ListMod s (· = 1) ∧
    IsSrc s fU set_union 1 ∧ IsSrc s fI set_intersection 1 ∧ IsSrc s fD set_diff 1 ∧ IsSrc s fS set_symmetric_diff 1 ∧
    IsSrc s fA list_append_all 1 ∧
    Coll s (.ref a) [.int 1, .int 2, .int 3] ∧ Coll s (.ref b) (sortedItems decRepr [.int 4, .int 2, .int 7]) := by
  have hall : ∀ d ∈ setDefs, IsDefLam d := by
    intro d hd
    simp only [setDefs, List.mem_cons, List.not_mem_nil, or_false] at hd
    rcases hd with rfl | rfl | rfl | rfl | rfl <;> exact ⟨_, _, _, _, _, _, _, rfl⟩
  have hnd : (setDefs.map defName).Nodup := by rw [setDefs_names]; decide
  obtain ⟨v, s1, hev, hpar, hfr, hsz, _, _, _, hget, hdefs⟩ := load_defs_aux default 1 setDefs hall hnd setBase
    (by decide) .null
  obtain ⟨v', s1', hev', hlib, _⟩ := load_defs_libEnv default setDefs hall hnd setLoadNats
    (by rw [setDefs_names]; decide) setBase 1 (by decide)
    (Or.inr ⟨rfl, rfl, rfl⟩) (fun x hx => by
      simp only [setLoadNats, List.mem_cons, List.not_mem_nil, or_false] at hx
      rcases hx with rfl | rfl | rfl
      · exact ⟨0, Or.inr ⟨rfl, rfl, rfl⟩⟩
      · exact ⟨1, Or.inr ⟨rfl, rfl, rfl⟩⟩
      · exact ⟨2, Or.inr ⟨rfl, rfl, rfl⟩⟩) .null
  -- both runs are the same evaluation
  have hsame : s1' = s1 := by
    have h1 := hev (setDefs.length + 2) (by omega)
    have h2 := hev' (setDefs.length + 2) (by omega)
    rw [h1] at h2; cases h2; rfl
  subst hsame
  let s2 : State := { s1' with modules := [(modKey "List", 1)], modstack := [] }
  have e12 : Ext s1' s2 := ⟨Nat.le_refl _, fun _ _ => rfl, Nat.le_refl _, fun _ _ => rfl, rfl⟩
  let s3 := (s2.alloc (.list (([.int 1, .int 2, .int 3] : List Val).map liftV))).1
  let s4 := (s3.alloc (.set (([.int 4, .int 2, .int 7] : List Val).map liftV))).1
  have e24 : Ext s2 s4 := ((Ext.refl s2).alloc _).alloc _
  have e14 : Ext s1' s4 := e12.trans e24
  have hsrc : ∀ d ∈ setDefs, ∃ f, dictGet (defName d) (s1'.frame 1).vars = some f ∧ IsSrc s1' f d 1 := by
    intro d hd
    obtain ⟨a, nm, h1, h2⟩ := hdefs d hd
    exact ⟨.closure a, h1, a, nm, rfl, h2⟩
  obtain ⟨fA, hA1, hA2⟩ := hsrc list_append_all (by simp [setDefs])
  obtain ⟨fU, _, hU⟩ := hsrc set_union (by simp [setDefs])
  obtain ⟨fI, _, hI⟩ := hsrc set_intersection (by simp [setDefs])
  obtain ⟨fD, _, hD⟩ := hsrc set_diff (by simp [setDefs])
  obtain ⟨fS, _, hS⟩ := hsrc set_symmetric_diff (by simp [setDefs])
  have hLM2 : ListMod s2 (· = 1) := by
    refine ⟨1, fA, 1, by simp [s2, List.lookup], rfl, hA1, hA2.ext e12, rfl, ?_⟩
    intro m hm; subst hm
    refine ⟨?_, Or.inr ⟨?_, ?_, ?_⟩⟩
    · show dictGet "List" (s1'.frame 1).vars = none
      rw [hget "List" (by rw [setDefs_names]; decide)]; rfl
    · show (s1'.frame 1).parent = some 0
      rw [hpar]; rfl
    · show dictGet "List" (s1'.frame 0).vars = none
      rw [hfr 0 (by decide)]; rfl
    · show (s1'.frame 0).parent = none
      rw [hfr 0 (by decide)]; rfl
  have hlt2 : ∀ m, (· = 1) m → m < s2.frames.size := fun m hm => (hlib.ext e12).lt m hm
  refine ⟨s4, fU, fI, fD, fS, fA, s2.heap.size, s3.heap.size, hlib.ext e14, hLM2.ext hlt2 e24 ⟨rfl, rfl⟩,
    hU.ext e14, hI.ext e14, hD.ext e14, hS.ext e14, hA2.ext e14, ?_, ?_⟩
  · exact Coll.ofList (fun v hv => by simp at hv; rcases hv with rfl | rfl | rfl <;> exact trivial) (by
      show s4.cell s2.heap.size = _
      rw [cell_alloc_old _ _ (by rw [heap_size_alloc]; exact Nat.lt_succ_self _)]; exact cell_alloc_new _ _)
  · exact Coll.ofSet (fun v hv => by simp at hv; rcases hv with rfl | rfl | rfl <;> exact trivial) (cell_alloc_new _ _)

/-- the mirrors evaluated on the example arguments (tests): the model's `union([1,2,3], <<4, 2, 7>>)` etc. -/
example : unionM [.int 1, .int 2, .int 3] (sortedItems decRepr [.int 4, .int 2, .int 7])
    = [.int 1, .int 2, .int 3, .int 4, .int 7] := by rfl
example : intersectionM [.int 1, .int 2, .int 3] (sortedItems decRepr [.int 4, .int 2, .int 7]) = [.int 2] := by rfl
example : diffM [.int 1, .int 2, .int 3] (sortedItems decRepr [.int 4, .int 2, .int 7]) = [.int 1, .int 3] := by rfl

/-- **end to end on the example state**: `union` of the list cell and the set cell of `set_hyps_satisfiable` returns a fresh set
    cell holding `<<1, 2, 3, 4, 7>>`; both arguments are the same collections afterwards -/
theorem union_example : ∃ (s : State) (fU va vb : RVal),
    Coll s va [.int 1, .int 2, .int 3] ∧ Coll s vb (sortedItems decRepr [.int 4, .int 2, .int 7]) ∧
    ∃ r s', Ext s s' ∧ s.heap.size ≤ r ∧
      Coll s' va [.int 1, .int 2, .int 3] ∧ Coll s' vb (sortedItems decRepr [.int 4, .int 2, .int 7]) ∧
      s'.cell r = some (.set (([.int 1, .int 2, .int 3, .int 4, .int 7] : List Val).map liftV)) ∧
      ∀ fuel env pos, 31 < fuel → callFn ld fuel fU [("seta", va), ("setb", vb)] env pos s = .ok (.ref r) s' := by
  obtain ⟨s, fU, _, _, _, _, a, b, hlib, hLM, hU, _, _, _, _, CA, CB⟩ := set_hyps_satisfiable
  obtain ⟨r, s', e, hr, hc, CA', CB', _, c⟩ := union_src ld hlib (by decide) hLM rfl hU (.ref a) (.ref b) _ _ CA CB
  refine ⟨s, fU, .ref a, .ref b, CA, CB, r, s', e, hr, CA', CB', ?_, fun fuel env pos hf => c fuel env pos ?_⟩
  · rw [hc]; rfl
  · rw [length_sortedItems]; exact hf

end Ckl.C19Src
