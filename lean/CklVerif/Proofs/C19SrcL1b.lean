/-
  C19Src (worker L1, second part) — math.ckl `lcm`; the error branch of list.ckl `first` / `last`.
  Same form as `Proofs/C19Src.lean`.
-/
import CklVerif.Lemmas.C19SrcLcmL1
import CklVerif.Lemmas.C19SrcIndexErrL1
import CklVerif.Lemmas.C19SrcLoad
namespace Ckl.C19Src
open Ckl Ckl.Lib Ckl.Gen.LibSrc
variable (ld : Loader)

/-! ## 1  math.ckl `lcm(a, b) = abs(a * b) / gcd(a, b)` -/

/-- **The source of `lcm` computes `Int.lcm`** for all ints `a`, `b` (any signs) that are not both zero (`Int.gcd a b ≠ 0`):
    `abs` and `gcd` are resolved through the environment, `mul` and `div` are built-ins (`div` on ints is the truncating division,
    exact here because `gcd(a, b)` divides `|a * b|`).  Nothing that existed is changed; fuel bound `gcdFuel b + 7`
    (`gcdFuel b = 30 * (|b| + 1) + 1`). -/
theorem lcm_src_int {s : State} {M nats srcs fn m} (h : LibEnv s M nats srcs) (hn : ∀ x ∈ lcmNats, x ∈ nats)
    (hs : ∀ p ∈ gcdSrcs, p ∈ srcs) (hm : M m) (hsrc : IsSrc s fn math_lcm m) (a b : Int) (hg : Int.gcd a b ≠ 0) :
    ∃ s', Ext s s' ∧ ∀ fuel env pos, gcdFuel b + 7 < fuel →
      callFn ld fuel fn [("a", .int a), ("b", .int b)] env pos s = .ok (.int (Int.lcm a b : Nat)) s' :=
  let ⟨s', e, c⟩ := lcm_calls_int ld h hn hs hm hsrc a b hg; ⟨s', e, fun fuel env pos hf => c env pos fuel hf⟩

/-- … stated through the mirror `Lib.lcmM` of C19 (`C19.lcmM_eq_lcm`): whenever the mirror is defined, the source returns its value -/
theorem lcm_src_eq_mirror {s : State} {M nats srcs fn m} (h : LibEnv s M nats srcs) (hn : ∀ x ∈ lcmNats, x ∈ nats)
    (hs : ∀ p ∈ gcdSrcs, p ∈ srcs) (hm : M m) (hsrc : IsSrc s fn math_lcm m) (a b : Int) (r : Int)
    (hr : lcmM a b = some r) :
    ∃ s', Ext s s' ∧ ∀ fuel env pos, gcdFuel b + 7 < fuel →
      callFn ld fuel fn [("a", .int a), ("b", .int b)] env pos s = .ok (.int r) s' := by
  by_cases h0 : a = 0 ∧ b = 0
  · obtain ⟨rfl, rfl⟩ := h0
    rw [C19.lcmM_zero_zero] at hr; cases hr
  · rw [C19.lcmM_eq_lcm a b h0] at hr
    have hg : Int.gcd a b ≠ 0 := by
      intro hz; rw [Int.gcd_eq_zero_iff] at hz; exact h0 hz
    cases hr
    exact lcm_src_int ld h hn hs hm hsrc a b hg

/-- **`lcm(0, 0)` when `DIV_0_VALUE` is not defined** (`NoDiv0_L1 s m`: not bound in the module frame nor in the base frame): the
    runtime error `divide by zero` raised by the built-in `div`, value `"ERROR"`, at the position of the division node; the stack
    trace holds the call of `div` (appended by `invoke`).  No `ok` outcome, no out-of-fuel. -/
theorem lcm_src_zero_zero {s : State} {M nats srcs fn m} (h : LibEnv s M nats srcs) (hn : ∀ x ∈ lcmNats, x ∈ nats)
    (hs : ∀ p ∈ gcdSrcs, p ∈ srcs) (hm : M m) (hsrc : IsSrc s fn math_lcm m) (hd : NoDiv0_L1 s m) :
    ∃ s', Ext s s' ∧ ∀ fuel env pos, gcdFuel 0 + 7 < fuel →
      callFn ld fuel fn [("a", .int 0), ("b", .int 0)] env pos s =
        .err (.str "ERROR".toList) "divide by zero" (callPos_L1 (lamBody math_lcm))
          [("div", callPos_L1 (lamBody math_lcm))] s' :=
  let ⟨s', e, c⟩ := lcm_calls_zero_err ld h hn hs hm hsrc hd; ⟨s', e, fun fuel env pos hf => c env pos fuel hf⟩

/-- **`lcm(0, 0)` when `DIV_0_VALUE` resolves (from the module frame) to a value `v`**: the result is `v` (the model's `div` returns
    the value of `DIV_0_VALUE` for a zero divisor).  `isCtl v = false`: control signals are storable values of the model and
    `fn.execute` would unwrap a stored `return`. -/
theorem lcm_src_zero_zero_div0 {s : State} {M nats srcs fn m} (h : LibEnv s M nats srcs) (hn : ∀ x ∈ lcmNats, x ∈ nats)
    (hs : ∀ p ∈ gcdSrcs, p ∈ srcs) (hm : M m) (hsrc : IsSrc s fn math_lcm m) {v : RVal}
    (hd : Res s m "DIV_0_VALUE" v) (hv : isCtl v = false) :
    ∃ s', Ext s s' ∧ ∀ fuel env pos, gcdFuel 0 + 7 < fuel →
      callFn ld fuel fn [("a", .int 0), ("b", .int 0)] env pos s = .ok v s' := by
  obtain ⟨s', e, c⟩ := lcm_calls_zero_div0 ld h hn hs hm hsrc hd
  refine ⟨s', e, fun fuel env pos hf => ?_⟩
  rw [c env pos fuel hf]
  cases v <;> first | rfl | (simp [isCtl, RVal.isReturn, RVal.isBreak, RVal.isContinue] at hv)

example : gcdFuel 0 + 7 = 38 ∧ gcdFuel 18 + 7 = 578 := by decide
example : Int.lcm 24 36 = 72 ∧ Int.lcm (-4) 6 = 12 ∧ Int.gcd 0 0 = 0 ∧ truncDiv 7 (-2) = -3 := by decide
example : (callPos_L1 (lamBody math_lcm)).file = "mod:math" := by decide

/-! ## 2  list.ckl `first` / `last` on a value that is neither NULL nor a list -/

/-- **`first(v)`** for `v` neither NULL nor a list (a number, a string, a set, a function, …): the runtime error raised by
    `error(…)`, whose VALUE is the text `argument is not a list (<type of v>)`, at the position of the `error` node; the heap is
    not touched. -/
theorem first_src_not_list {s : State} {M nats srcs fn m} (h : LibEnv s M nats srcs) (hn : ∀ x ∈ firstNats, x ∈ nats)
    (hs : ∀ p ∈ firstSrcs, p ∈ srcs) (hm : M m) (hsrc : IsSrc s fn list_first m)
    (v : RVal) (h0 : v.isNull = false) (h1 : isListR s v = false) :
    ∃ s', Ext s s' ∧ s'.heap = s.heap ∧ ∀ fuel env pos, 16 < fuel → callFn ld fuel fn [("lst", v)] env pos s =
      .err (.str (notListMsg_L1 (typeName s v))) "" (errPos (lamBody list_first)) [] s' :=
  let ⟨s', e, hh, c⟩ := first_calls_err ld h hn hs hm hsrc v h0 h1; ⟨s', e, hh, fun fuel env pos hf => c env pos fuel hf⟩

/-- **`last(v)`** for `v` neither NULL nor a list -/
theorem last_src_not_list {s : State} {M nats srcs fn m} (h : LibEnv s M nats srcs) (hn : ∀ x ∈ firstNats, x ∈ nats)
    (hs : ∀ p ∈ firstSrcs, p ∈ srcs) (hm : M m) (hsrc : IsSrc s fn list_last m)
    (v : RVal) (h0 : v.isNull = false) (h1 : isListR s v = false) :
    ∃ s', Ext s s' ∧ s'.heap = s.heap ∧ ∀ fuel env pos, 16 < fuel → callFn ld fuel fn [("lst", v)] env pos s =
      .err (.str (notListMsg_L1 (typeName s v))) "" (errPos (lamBody list_last)) [] s' :=
  let ⟨s', e, hh, c⟩ := last_calls_err ld h hn hs hm hsrc v h0 h1; ⟨s', e, hh, fun fuel env pos hf => c env pos fuel hf⟩

example (s : State) : (RVal.str ['x']).isNull = false ∧ isListR s (.str ['x']) = false ∧
    notListMsg_L1 (typeName s (.str ['x'])) = "argument is not a list (string)".toList ∧
    (errPos (lamBody list_first)).file = "mod:list" ∧ (errPos (lamBody list_last)).file = "mod:list" := by
  refine ⟨rfl, rfl, ?_, by decide, by decide⟩
  show notListMsg_L1 "string" = _; decide

/-! ## 3  the hypotheses are satisfiable -/

def lcmLoadNats_L1 : List String := lcmNats
def lcmLoadDefs_L1 : List Node := [type_is_int, type_is_decimal, type_is_numeric, math_abs, math_gcd, math_lcm]

/-- the driver's initial state with the built-ins `lcmNats` (no `DIV_0_VALUE`), then the generated definitions, satisfies `LibEnv` -/
theorem initialState_lcm_libEnv_L1 (secure : Bool) (last : RVal) :
    ∃ v s', (∀ fuel, lcmLoadDefs_L1.length + 1 < fuel →
        evalBody ld fuel 1 lcmLoadDefs_L1 last (initialState secure lcmLoadNats_L1).1 = .ok v s') ∧
      LibEnv s' (· = 1) lcmLoadNats_L1 (lcmLoadDefs_L1.map (fun d => (defName d, d))) := by
  have hnames : lcmLoadDefs_L1.map defName = ["is_int", "is_decimal", "is_numeric", "abs", "gcd", "lcm"] := rfl
  obtain ⟨v, s', h1, h2, _⟩ := load_defs_libEnv ld lcmLoadDefs_L1
    (by
      intro d hd
      simp only [lcmLoadDefs_L1, List.mem_cons, List.not_mem_nil, or_false] at hd
      rcases hd with rfl | rfl | rfl | rfl | rfl | rfl <;> exact ⟨_, _, _, _, _, _, _, rfl⟩)
    (by rw [hnames]; decide) lcmLoadNats_L1 (by rw [hnames]; decide)
    (initialState secure lcmLoadNats_L1).1 1 (by rw [initialState_frames_size]; exact Nat.lt_succ_self 1)
    (initialState_null secure lcmLoadNats_L1 (by decide)) (fun x hx => initialState_nat secure lcmLoadNats_L1 hx) last
  exact ⟨v, s', h1, h2⟩

example : ∀ p ∈ gcdSrcs, p ∈ lcmLoadDefs_L1.map (fun d => (defName d, d)) := by
  intro p hp
  simp only [gcdSrcs, mathSrcs, List.cons_append, List.nil_append, List.mem_cons, List.not_mem_nil, or_false] at hp
  rcases hp with rfl | rfl | rfl | rfl | rfl
  · exact List.mem_map.2 ⟨type_is_numeric, by simp [lcmLoadDefs_L1], rfl⟩
  · exact List.mem_map.2 ⟨type_is_int, by simp [lcmLoadDefs_L1], rfl⟩
  · exact List.mem_map.2 ⟨type_is_decimal, by simp [lcmLoadDefs_L1], rfl⟩
  · exact List.mem_map.2 ⟨math_abs, by simp [lcmLoadDefs_L1], rfl⟩
  · exact List.mem_map.2 ⟨math_gcd, by simp [lcmLoadDefs_L1], rfl⟩

/-- `NoDiv0_L1` and `Res … "DIV_0_VALUE"` are both satisfiable -/
example : NoDiv0_L1 exState 1 := by
  refine ⟨by decide, Or.inr ⟨by decide, by decide, by decide⟩⟩

end Ckl.C19Src
