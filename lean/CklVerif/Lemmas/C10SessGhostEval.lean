/-
  C10 (sessions): no function of the evaluator reads the ghost counters — the induction step for
  `eval` itself, and the assembled induction.
-/
import CklVerif.Lemmas.C10SessGhostMutual
namespace Ckl.C10S
open Ckl Ckl.C05

theorem er_ghostEnter (s : State) (p : Pos) : er (ghostEnter s p) = er s := rfl
theorem er_ghostFin (s : State) (p : Pos) : er (ghostFin s p) = er s := rfl

theorem er_restoreVars (env : EnvId) (hidden : List (String × RVal)) {t t' : State} (h : er t = er t') :
    er (restoreVars env hidden t) = er (restoreVars env hidden t') := by
  rw [eq_wg_of_er h]
  unfold restoreVars
  rw [foldl_wg _ (fun _ _ _ => rfl)]; rfl

theorem er_removeAll (env : EnvId) (ids : List String) {t t' : State} (h : er t = er t') :
    er (ids.foldl (fun s x => s.remove env x) t) = er (ids.foldl (fun s x => s.remove env x) t') := by
  rw [eq_wg_of_er h, foldl_wg _ (fun _ _ _ => rfl)]; rfl

/-! the finally stage of a block, for each kind of pending outcome -/

theorem fin_ok {α} (v : α) {q q' : Out Unit} (h : erO q = erO q') :
    erO (match q with
      | .ok _ s'' => Out.ok v s''
      | .err v2 m2 p2 t2 s'' => .err v2 m2 p2 t2 s''
      | .fail f s'' => .fail f s'') =
    erO (match q' with
      | .ok _ s'' => Out.ok v s''
      | .err v2 m2 p2 t2 s'' => .err v2 m2 p2 t2 s''
      | .fail f s'' => .fail f s'') := by
  cases q <;> cases q' <;> simp only [erO, Out.ok.injEq, Out.err.injEq, Out.fail.injEq, reduceCtorEq] at h ⊢
  · exact ⟨trivial, h.2⟩
  · exact h
  · exact h

theorem fin_err {α} (v : RVal) (m : String) (p : Pos) (t : List (String × Pos)) {q q' : Out Unit}
    (h : erO q = erO q') :
    erO (match q with
      | .ok _ s'' => (Out.err v m p t s'' : Out α)
      | .err v2 m2 p2 t2 s'' => .err v2 m2 p2 t2 s''
      | .fail f s'' => .fail f s'') =
    erO (match q' with
      | .ok _ s'' => (Out.err v m p t s'' : Out α)
      | .err v2 m2 p2 t2 s'' => .err v2 m2 p2 t2 s''
      | .fail f s'' => .fail f s'') := by
  cases q <;> cases q' <;> simp only [erO, Out.ok.injEq, Out.err.injEq, Out.fail.injEq, reduceCtorEq] at h ⊢
  · exact ⟨trivial, trivial, trivial, trivial, h.2⟩
  · exact h
  · exact h

theorem fin_fail {α} (k : Fail) {q q' : Out Unit} (h : erO q = erO q') :
    erO (match q with
      | .ok _ s'' => (Out.fail k s'' : Out α)
      | .err v2 m2 p2 t2 s'' => .err v2 m2 p2 t2 s''
      | .fail f s'' => .fail f s'') =
    erO (match q' with
      | .ok _ s'' => (Out.fail k s'' : Out α)
      | .err v2 m2 p2 t2 s'' => .err v2 m2 p2 t2 s''
      | .fail f s'' => .fail f s'') := by
  cases q <;> cases q' <;> simp only [erO, Out.ok.injEq, Out.err.injEq, Out.fail.injEq, reduceCtorEq] at h ⊢
  · exact ⟨trivial, h.2⟩
  · exact h
  · exact h

section
variable {ld : Loader} {fuel : Nat}

theorem gstep_eval_block (ih : AllR ld fuel) (env : EnvId) (es ce ch fin : List Node) (tl : Bool) (pos : Pos) :
    GI (eval ld (fuel+1) env (.block es ce ch fin tl pos)) := by
  simp only [Ckl.eval]
  refine ⟨fun s s' h => ?_⟩
  have hB := (ih.evalBody env es (.bool true)).run (ghostEnter s pos) (ghostEnter s' pos)
    (by rw [er_ghostEnter, er_ghostEnter, h])
  have hT := fun v msg p t a b (hab : er a = er b) => (ih.tryHandlers env ce ch v msg p t).run a b hab
  have hF := fun a b (hab : er a = er b) =>
    (ih.evalFinally env fin).run (ghostFin a pos) (ghostFin b pos) (by rw [er_ghostFin, er_ghostFin, hab])
  revert hB
  generalize evalBody ld fuel env es (RVal.bool true) (ghostEnter s pos) = r
  generalize evalBody ld fuel env es (RVal.bool true) (ghostEnter s' pos) = r'
  intro hB
  cases r with
  | ok v s1 =>
    cases r' with
    | ok v' s1' =>
      simp only [erO, Out.ok.injEq] at hB
      obtain ⟨rfl, h5⟩ := hB
      exact fin_ok v (hF s1 s1' h5)
    | err _ _ _ _ _ => cases hB
    | fail _ _ => cases hB
  | err v msg p t s1 =>
    cases r' with
    | ok _ _ => cases hB
    | fail _ _ => cases hB
    | err v' msg' p' t' s1' =>
      simp only [erO, Out.err.injEq] at hB
      obtain ⟨rfl, rfl, rfl, rfl, h5⟩ := hB
      have h2 := hT v msg p t s1 s1' h5
      revert h2
      dsimp only
      generalize tryHandlers ld fuel env ce ch v msg p t s1 = r2
      generalize tryHandlers ld fuel env ce ch v msg p t s1' = r2'
      intro h2
      cases r2 with
      | ok hv s2 =>
        cases r2' with
        | ok hv' s2' =>
          simp only [erO, Out.ok.injEq] at h2
          obtain ⟨rfl, h6⟩ := h2
          exact fin_ok hv (hF s2 s2' h6)
        | err _ _ _ _ _ => cases h2
        | fail _ _ => cases h2
      | err v2 m2 p2 t2 s2 =>
        cases r2' with
        | ok _ _ => cases h2
        | fail _ _ => cases h2
        | err v2' m2' p2' t2' s2' =>
          simp only [erO, Out.err.injEq] at h2
          obtain ⟨rfl, rfl, rfl, rfl, h6⟩ := h2
          exact fin_err v2 m2 p2 t2 (hF s2 s2' h6)
      | fail f s2 =>
        cases r2' with
        | ok _ _ => cases h2
        | err _ _ _ _ _ => cases h2
        | fail f' s2' =>
          have h2' := h2
          simp only [erO, Out.fail.injEq] at h2
          obtain ⟨rfl, h6⟩ := h2
          cases f with
          | oof => exact h2'
          | unsupported w => exact h2'
          | host k => exact fin_fail (.host k) (hF s2 s2' h6)
          | syn e => exact fin_fail (.syn e) (hF s2 s2' h6)
  | fail f s1 =>
    cases r' with
    | ok _ _ => cases hB
    | err _ _ _ _ _ => cases hB
    | fail f' s1' =>
      have hB' := hB
      simp only [erO, Out.fail.injEq] at hB
      obtain ⟨rfl, h5⟩ := hB
      cases f with
      | oof => exact hB'
      | unsupported w => exact hB'
      | host k => exact fin_fail (.host k) (hF s1 s1' h5)
      | syn e => exact fin_fail (.syn e) (hF s1 s1' h5)

theorem gstep_eval (ih : AllR ld fuel) : ∀ env n, GI (eval ld (fuel+1) env n) := by
  have ihEval := ih.eval; have ihAnd := ih.evalAnd; have ihOr := ih.evalOr; have ihIf := ih.evalIf
  have ihSeq := ih.evalSeq; have ihItems := ih.evalItems; have ihPairs := ih.evalPairs
  have ihBody := ih.evalBody; have ihFin := ih.evalFinally; have ihTry := ih.tryHandlers
  have ihInvoke := ih.invoke; have ihFor := ih.evalFor; have ihWhile := ih.whileLoop
  have ihCL := ih.comprLoop; have ihCP := ih.comprProduct; have ihCPar := ih.comprParallel
  have ihReq := ih.evalRequire
  intro env n
  cases n with
  | lit v pos => cases v <;> simp only [Ckl.eval] <;> r2_auto
  | block es ce ch fin tl pos => exact gstep_eval_block ih env es ce ch fin tl pos
  | «for» ids c body what pos =>
    simp only [Ckl.eval]
    refine ⟨fun s s' h => ?_⟩
    have hm := (ihFor env ids c body what pos).run s s' h
    have hh : hiddenVars s' env ids = hiddenVars s env ids := by rw [eq_wg_of_er h]; rfl
    rw [hh]
    revert hm
    generalize evalFor ld fuel env ids c body what pos s = o
    generalize evalFor ld fuel env ids c body what pos s' = o'
    intro hm
    cases o with
    | ok v t =>
      cases o' with
      | ok v' t' =>
        simp only [erO, Out.ok.injEq] at hm ⊢
        exact ⟨hm.1, er_restoreVars env _ hm.2⟩
      | err _ _ _ _ _ => cases hm
      | fail _ _ => cases hm
    | err v m p t1 t =>
      cases o' with
      | ok _ _ => cases hm
      | err v' m' p' t1' t' =>
        simp only [erO, Out.err.injEq] at hm ⊢
        exact ⟨hm.1, hm.2.1, hm.2.2.1, hm.2.2.2.1, er_restoreVars env _ (er_removeAll env ids hm.2.2.2.2)⟩
      | fail _ _ => cases hm
    | fail f t =>
      cases o' with
      | ok _ _ => cases hm
      | err _ _ _ _ _ => cases hm
      | fail f' t' =>
        simp only [erO, Out.fail.injEq] at hm
        obtain ⟨rfl, hm2⟩ := hm
        cases f with
        | syn se =>
          simp only [erO, Out.fail.injEq]
          exact ⟨trivial, er_restoreVars env _ (er_removeAll env ids hm2)⟩
        | oof => simp only [erO, Out.fail.injEq]; exact ⟨trivial, hm2⟩
        | unsupported w => simp only [erO, Out.fail.injEq]; exact ⟨trivial, hm2⟩
        | host k => simp only [erO, Out.fail.injEq]; exact ⟨trivial, hm2⟩
  | lambda ps ds body pos =>
    simp only [Ckl.eval]
    exact R2.of_wg (fun _ _ => rfl)
  | compr kind shape ve ke id1 l1 w1 id2 l2 w2 cond pos =>
    cases shape <;> simp only [Ckl.eval] <;> r2_auto
  | slice c a b pos =>
    by_cases hb : b = Node.absent
    · subst hb; simp only [Ckl.eval]; r2_auto
    · simp only [Ckl.eval]; r2_auto
  | ret c pos =>
    by_cases hb : c = Node.absent
    · subst hb; simp only [Ckl.eval]; r2_auto
    · simp only [Ckl.eval]; r2_auto
  | deref c i d pos =>
    by_cases hb : d = Node.absent
    · subst hb; simp only [Ckl.eval]; r2_auto
    · simp only [Ckl.eval]; r2_auto
  | _ => simp only [Ckl.eval] <;> r2_auto

end

/-- no function of the evaluator reads the ghost counters, for every fuel -/
theorem allR {ld : Loader} (hN : NativeGhostFree ld) : ∀ fuel, AllR ld fuel := by
  intro fuel
  induction fuel with
  | zero => exact allR_zero ld
  | succ k ih =>
    exact {
      eval := gstep_eval ih
      evalAnd := gstep_evalAnd ih
      evalOr := gstep_evalOr ih
      evalIf := gstep_evalIf ih
      evalSeq := gstep_evalSeq ih
      evalItems := gstep_evalItems ih
      evalPairs := gstep_evalPairs ih
      evalBody := gstep_evalBody ih
      evalFinally := gstep_evalFinally ih
      tryHandlers := gstep_tryHandlers ih
      invoke := gstep_invoke ih
      evalArgs := gstep_evalArgs ih
      callFn := gstep_callFn hN ih
      bindParams := gstep_bindParams ih
      evalFor := gstep_evalFor ih
      forItems := gstep_forItems ih
      forListLive := gstep_forListLive ih
      forString := gstep_forString ih
      whileLoop := gstep_whileLoop ih
      comprStep := gstep_comprStep ih
      comprLoop := gstep_comprLoop ih
      comprProduct := gstep_comprProduct ih
      comprParallel := gstep_comprParallel ih
      nativeSorted := gstep_nativeSorted ih
      sortedOuter := gstep_sortedOuter ih
      sortedInner := gstep_sortedInner ih
      call1 := gstep_call1 ih
      call2 := gstep_call2 ih
      evalRequire := gstep_evalRequire ih
      loadModule := gstep_loadModule ih }

end Ckl.C10S
