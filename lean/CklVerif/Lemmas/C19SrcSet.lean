import CklVerif.Lemmas.C19SrcSetRules
import CklVerif.Proofs.C19

/-! C19Src — set.ckl `intersection`, `diff`: one loop `for a in seta do if <cond> then result !> append(a)` over a list cell or a
    set cell, result a FRESH set cell; arguments unchanged (`Ext`) -/
namespace Ckl.C19Src
open Ckl Ckl.C03 Ckl.Gen.LibSrc
variable (ld : Loader)

/-! ### from a body to `fn.execute`, result a reference, with a fact about value and state -/

theorem calls_of_body2E {src : Node} {q1 q2 : String} {body : Node} {k : Nat} {Q : Nat → State → Prop}
    (hps : lamParams src = [q1, q2]) (hds : lamDefaults src = [.absent, .absent]) (hbody : lamBody src = body)
    (hk : 2 ≤ k) (hne : q1 ≠ q2)
    {s : State} {M nats srcs fn m} (h : LibEnv s M nats srcs) (hm : M m) (hsrc : IsSrc s fn src m)
    (v1 v2 : RVal)
    (hb : ∀ s0, Ctx s0 M nats srcs s.frames.size m [(q1, v1), (q2, v2)] → Ext s s0 → SameMods s s0 →
      ∃ r s', Ev ld k s.frames.size body s0 (.ok (.ref r) s') ∧ Q r s') :
    ∃ r s', Q r s' ∧ ∀ env pos, Calls ld (k + 1) fn [(q1, v1), (q2, v2)] env pos s (.ok (.ref r) s') := by
  obtain ⟨a, nm, rfl, hcell⟩ := hsrc
  rw [hps, hds, hbody] at hcell
  obtain ⟨r, s', hev, hQ⟩ := hb _ (Ctx.callee2 h hm q1 q2 v1 v2 hne) (calleeState_ext s m [(q1, v1), (q2, v2)] [q1, q2])
    (calleeState_mods s m [(q1, v1), (q2, v2)] [q1, q2])
  refine ⟨r, s', hQ, fun env pos => ?_⟩
  have hqp : ¬ q2 = q1 := fun h => hne h.symm
  exact Calls.closure ld hcell rfl hk
    (by intro p hp; simp at hp; rcases hp with rfl | rfl <;> simp [dictGet, hqp]) hev

/-! ### collections: what the evaluator sees -/

/-- the cell behind a collection argument: a list cell or a set cell of scalars with the same members as the enumeration -/
theorem Coll.content {s v en} (h : Coll s v en) : ∃ a ys, v = .ref a ∧ a < s.heap.size ∧ ScalarL ys ∧
    (s.cell a = some (.list (ys.map liftV)) ∨ s.cell a = some (.set (ys.map liftV))) ∧ ∀ x, memV x ys = memV x en := by
  obtain ⟨hs, a, rfl, h⟩ := h
  rcases h with h | ⟨els, h1, h2, rfl⟩
  · exact ⟨a, en, rfl, cell_lt h, hs, Or.inl h, fun _ => rfl⟩
  · exact ⟨a, els, rfl, cell_lt h2, h1, Or.inr h2, fun x => (C19.memV_sortedItems decRepr x els).symm⟩

/-- what a loop over a collection argument enumerates -/
theorem Coll.enum {s v en} (h : Coll s v en) : ∃ a, v = .ref a ∧ a < s.heap.size ∧
    (s.cell a = some (.list (en.map liftV)) ∨ ∃ els, s.cell a = some (.set els) ∧ sortedR s els = some (en.map liftV)) := by
  obtain ⟨hs, a, rfl, h⟩ := h
  rcases h with h | ⟨els, h1, h2, rfl⟩
  · exact ⟨a, rfl, cell_lt h, Or.inl h⟩
  · exact ⟨a, rfl, cell_lt h2, Or.inr ⟨_, h2, sortedR_liftV s h1⟩⟩

/-! ### the filter loop -/

/-- the mirror of `for a in seta do if g(a) then result !> append(a)` starting from the empty set (`Lib.intersectionM`, `Lib.diffM`
    are instances) -/
def filtAcc (g : Val → Bool) (en : List Val) : List Val :=
  en.foldl (fun acc x => if g x then Lib.setAdd acc x else acc) []

theorem scalarL_foldl_filt (g : Val → Bool) (en acc : List Val) (he : ScalarL en) (ha : ScalarL acc) :
    ScalarL (en.foldl (fun acc x => if g x then Lib.setAdd acc x else acc) acc) := by
  induction en generalizing acc with
  | nil => exact ha
  | cons x xs ih =>
    rw [List.foldl_cons]
    refine ih _ (fun v hv => he v (List.mem_cons_of_mem _ hv)) ?_
    split
    · exact scalarL_setAdd (he x (by simp)) ha
    · exact ha

theorem scalarL_filtAcc (g : Val → Bool) {en : List Val} (he : ScalarL en) : ScalarL (filtAcc g en) :=
  scalarL_foldl_filt g en [] he ScalarL.nil

theorem filtAcc_take_succ (g : Val → Bool) (en : List Val) (i : Nat) (x : Val) (h : en[i]? = some x) :
    filtAcc g (en.take (i + 1)) = if g x then Lib.setAdd (filtAcc g (en.take i)) x else filtAcc g (en.take i) := by
  unfold filtAcc
  rw [List.take_add_one, h]
  simp [List.foldl_append]

def setNats : List String := ["append"]

structure FiltInv (s : State) (c m : EnvId) (va vb : RVal) (b : Nat) (g : Val → Bool) (enA : List Val) (i : Nat)
    (st : State) : Prop where
  ext : Ext s st
  mods : SameMods s st
  cellb : st.cell b = some (.set ((filtAcc g (enA.take i)).map liftV))
  hsize : st.heap.size = b + 1
  parent : (st.frame c).parent = some m
  clt : c < st.frames.size
  vars : (st.frame c).vars = [("seta", va), ("setb", vb), ("result", .ref b)] ∨
    ∃ w, (st.frame c).vars = [("seta", va), ("setb", vb), ("result", .ref b), ("a", w)]

/-- the body `do def result = <<>>; for a in seta do if <cond> then result !> append(a); end; result end` where the condition
    evaluates (without changing the state) to `g a` -/
theorem setFilter_body {s s0 : State} {M nats srcs m} {va vb : RVal} {enA : List Val} {g : Val → Bool} {cond : Node}
    {p1 p2 p3 q1 q2 q3 q4 q5 q6 p7 p8 bp : Pos} {info what : String} {b0 : Bool}
    (h : LibEnv s M nats srcs) (hm : M m)
    (ctx : Ctx s0 M nats srcs s.frames.size m [("seta", va), ("setb", vb)]) (e0 : Ext s s0) (m0 : SameMods s s0)
    (hn : ∀ x ∈ setNats, x ∈ nats) (CA : Coll s va enA)
    (hcond : ∀ u vars x, Ctx u M nats srcs s.frames.size m vars → Ext s u → dictGet "a" vars = some (liftV x) →
      dictGet "setb" vars = some vb → ScalarV x → Ev ld 2 s.frames.size cond u (.ok (.bool (g x)) u)) :
    ∃ r s', Ev ld (enA.length + 15) s.frames.size
      (.block [.defn "result" (.set [] p1) info p2,
        .for ["a"] (.ident "seta" p3)
          (.ite [cond] [.call (.ident "append" q1) [none, none] [.ident "result" q2, .ident "a" q3] q4]
            (.lit (.bool true) q5) q6) what p7,
        .ident "result" p8] [] [] [] b0 bp) s0 (.ok (.ref r) s') ∧
      (Ext s s' ∧ SameMods s s' ∧ s.heap.size ≤ r ∧ s'.cell r = some (.set ((filtAcc g enA).map liftV))) := by
  generalize hK : enA.length + 11 = K
  have hcge : s.frames.size ≤ s.frames.size := Nat.le_refl _
  have ctx0 : Ctx (ghostEnter s0 bp) M nats srcs s.frames.size m [("seta", va), ("setb", vb)] :=
    ctx.ext ((Ext.refl s0).ghostEnter _)
  have e0' : Ext s (ghostEnter s0 bp) := e0.ghostEnter _
  have hsA : ScalarL enA := CA.1
  -- statement 1: `def result = <<>>`
  let b := (ghostEnter s0 bp).heap.size
  let t2 := ((ghostEnter s0 bp).alloc (.set [])).1.put s.frames.size "result" (.ref b)
  have S1 : Ev ld K s.frames.size (.defn "result" (.set [] p1) info p2) (ghostEnter s0 bp) (.ok (.ref b) t2) :=
    Ev.mono ld (Ev.defn ld (k := 1) (by intro a h; cases h) (Ev.setNil ld (k := 0))) (by omega)
  have hclt0 : s.frames.size < (ghostEnter s0 bp).frames.size := ctx0.clt
  have E2 : Ext s t2 := (e0'.alloc _).put hcge _ _
  have hbge : s.heap.size ≤ b := e0'.hsize
  have hvars2 : (t2.frame s.frames.size).vars = [("seta", va), ("setb", vb), ("result", .ref b)] := by
    show ((((ghostEnter s0 bp).alloc (.set [])).1.put _ _ _).frame _).vars = _
    rw [vars_put_same ((ghostEnter s0 bp).alloc (.set [])).1 "result" (.ref b) hclt0, frame_alloc, ctx0.fr.vars]; rfl
  have inv0 : FiltInv s s.frames.size m va vb b g enA 0 t2 := by
    refine ⟨E2, m0, ?_, ?_, ?_, ?_, Or.inl hvars2⟩
    · show (((ghostEnter s0 bp).alloc (.set [])).1.put _ _ _).cell b = _
      rw [cell_put, cell_alloc_new]; rfl
    · show (((ghostEnter s0 bp).alloc (.set [])).1.put _ _ _).heap.size = _
      rw [heap_put, heap_size_alloc]
    · show ((((ghostEnter s0 bp).alloc (.set [])).1.put _ _ _).frame _).parent = _
      rw [parent_put, frame_alloc]; exact ctx0.fr.parent
    · show _ < (((ghostEnter s0 bp).alloc (.set [])).1.put _ _ _).frames.size
      rw [frames_size_put]; exact hclt0
  -- the iterated collection
  obtain ⟨a, rfl, halt, hcA⟩ := (CA.ext E2).enum
  have ha : a < s.heap.size := by
    obtain ⟨_, a', h1, h2⟩ := CA
    cases h1
    rcases h2 with h2 | ⟨_, _, h2, _⟩ <;> exact cell_lt h2
  -- one iteration
  have hstep : ∀ i (r : RVal) st v, FiltInv s s.frames.size m (.ref a) vb b g enA i st → (enA.map liftV)[i]? = some v →
      ∃ r' s', Ev ld 7 s.frames.size
          (.ite [cond] [.call (.ident "append" q1) [none, none] [.ident "result" q2, .ident "a" q3] q4]
            (.lit (.bool true) q5) q6) (st.put s.frames.size "a" v) (.ok r' s') ∧
        isCtl r' = false ∧ FiltInv s s.frames.size m (.ref a) vb b g enA (i + 1) s' := by
    intro i r st v inv hv
    obtain ⟨x, hx, rfl⟩ : ∃ x, enA[i]? = some x ∧ v = liftV x := by
      rw [List.getElem?_map] at hv
      cases hxi : enA[i]? with
      | none => rw [hxi] at hv; cases hv
      | some x => rw [hxi] at hv; exact ⟨x, rfl, by cases hv; rfl⟩
    have hxs : ScalarV x := hsA x (List.mem_of_getElem? hx)
    have hvars : ((st.put s.frames.size "a" (liftV x)).frame s.frames.size).vars =
        [("seta", .ref a), ("setb", vb), ("result", .ref b), ("a", liftV x)] := by
      rw [vars_put_same _ _ _ inv.clt]
      rcases inv.vars with h | ⟨w, h⟩ <;> rw [h] <;> simp [dictPut]
    have hpar : ((st.put s.frames.size "a" (liftV x)).frame s.frames.size).parent = some m := by
      rw [parent_put]; exact inv.parent
    have eu : Ext s (st.put s.frames.size "a" (liftV x)) := inv.ext.put hcge _ _
    have cu : Ctx (st.put s.frames.size "a" (liftV x)) M nats srcs s.frames.size m
        [("seta", .ref a), ("setb", vb), ("result", .ref b), ("a", liftV x)] :=
      Ctx.ofExt h hm eu hvars hpar (by rw [frames_size_put]; exact inv.clt)
    have hC := hcond _ _ x cu eu (by rfl) (by rfl) hxs
    have hacc : ScalarL (filtAcc g (enA.take i)) :=
      scalarL_filtAcc g (hsA.sub (fun v hv => List.mem_of_mem_take hv))
    cases hg : g x with
    | false =>
      rw [hg] at hC
      refine ⟨.bool true, _, Ev.mono ld (Ev.ite ld (EvIf.false ld hC (EvIf.else ld (Ev.litBool ld)))) (by omega), rfl,
        ⟨eu, inv.mods, ?_, ?_, hpar, by rw [frames_size_put]; exact inv.clt, Or.inr ⟨liftV x, hvars⟩⟩⟩
      · rw [cell_put, filtAcc_take_succ g enA i x hx, hg]; exact inv.cellb
      · rw [heap_put]; exact inv.hsize
    | true =>
      rw [hg] at hC
      obtain ⟨j, hlk⟩ := cu.nat (x := "append") (hn _ (by decide)) (by rfl)
      have hcu : (st.put s.frames.size "a" (liftV x)).cell b = some (.set ((filtAcc g (enA.take i)).map liftV)) := by
        rw [cell_put]; exact inv.cellb
      obtain ⟨mm, hm1, hm2⟩ := append_set b _ (liftV x) (div0Value (st.put s.frames.size "a" (liftV x)) s.frames.size) q4 _ hcu
      have A := Ev.nat2 ld (k := 1) (p := q1) (pos := q4) hlk (by rfl) (by decide) (by decide) (by trivial) (by trivial)
        (Ev.ident ld (p := q2) (cu.var (x := "result") (by rfl)))
        (Ev.ident ld (p := q3) (cu.var (x := "a") (by rfl))) hm1 hm2
      rw [wrapCall_ok, setAdd_liftV _ hxs hacc] at A
      have hblt : b < (st.put s.frames.size "a" (liftV x)).heap.size := cell_lt hcu
      refine ⟨_, _, Ev.ite ld (EvIf.true ld (Ev.mono ld hC (by omega)) A), rfl,
        ⟨eu.setCell hbge _, inv.mods, ?_, ?_, ?_, ?_, Or.inr ⟨liftV x, ?_⟩⟩⟩
      · rw [cell_setCell_same _ _ hblt, filtAcc_take_succ g enA i x hx, hg]; rfl
      · rw [heap_size_setCell, heap_put]; exact inv.hsize
      · rw [frame_setCell]; exact hpar
      · show _ < (st.put s.frames.size "a" (liftV x)).frames.size
        rw [frames_size_put]; exact inv.clt
      · rw [frame_setCell]; exact hvars
  -- statement 2: the loop
  obtain ⟨r, st, ⟨hctl, inv⟩, hF⟩ := Ev.forColl ld (k := 0) (kb := 7) (env := s.frames.size) (x := "a") (what := what)
    (pos := p7) (e := .ident "seta" p3) (s := t2) (a := a) (s1 := t2) (xs := enA.map liftV)
    (by rw [hvars2]; rfl)
    (Ev.ident ld (lookup_local (x := "seta") (callFrame_self inv0.parent (h.lt m hm)) (by rw [hvars2]; rfl)))
    hcA (fun i r st => isCtl r = false ∧ FiltInv s s.frames.size m (.ref a) vb b g enA i st)
    (fun i r st hI => by rw [hI.2.ext.cell a ha, E2.cell a ha])
    (fun i r st v hI hv => by
      obtain ⟨r', s', h1, h2, h3⟩ := hstep i r st v hI.2 hv
      exact ⟨r', s', h1, h2, h2, h3⟩)
    ⟨rfl, inv0⟩
  rw [List.length_map] at hF inv
  have hcb : st.cell b = some (.set ((filtAcc g enA).map liftV)) := by
    have := inv.cellb; rwa [List.take_length] at this
  -- the state after the loop
  have hfin : ∃ t3, t3 = (if (enA.map liftV).isEmpty then st else st.remove s.frames.size "a") ∧
      Ext s t3 ∧ SameMods s t3 ∧ t3.cell b = some (.set ((filtAcc g enA).map liftV)) ∧
      ∃ vars, CallFrame t3 s.frames.size m vars ∧ dictGet "result" vars = some (.ref b) := by
    refine ⟨_, rfl, ?_⟩
    cases hxs : (enA.map liftV).isEmpty with
    | true =>
      simp only [if_true]
      refine ⟨inv.ext, inv.mods, hcb, (st.frame s.frames.size).vars, callFrame_self inv.parent (h.lt m hm), ?_⟩
      rcases inv.vars with h | ⟨w, h⟩ <;> rw [h] <;> rfl
    | false =>
      simp only [Bool.false_eq_true, if_false]
      refine ⟨inv.ext.remove hcge _, inv.mods, by rw [cell_remove]; exact hcb,
        ((st.remove s.frames.size "a").frame s.frames.size).vars,
        callFrame_self (by rw [frame_remove_same _ _ inv.clt]; exact inv.parent) (h.lt m hm), ?_⟩
      rw [frame_remove_same _ _ inv.clt]
      rcases inv.vars with h | ⟨w, h⟩ <;> rw [h] <;> rfl
  obtain ⟨t3, ht3, E3, M3, hcb3, vars3, hfr3, hres3⟩ := hfin
  rw [← ht3] at hF
  have S3 : Ev ld K s.frames.size (.ident "result" p8) t3 (.ok (.ref b) t3) := Ev.ident ld (lookup_local hfr3 hres3)
  refine ⟨b, ghostFin t3 bp, ?_, E3.ghostFin _, M3, hbge, hcb3⟩
  exact Ev.mono ld (k := K + 3 + 1) (Ev.block ld (b := b0) (pos := bp)
    (EvBody.cons ld (Ev.mono ld S1 (show K ≤ K + 2 by omega)) rfl
      (EvBody.cons ld (Ev.mono ld hF (show max 0 (7 + enA.length + 1) + 2 ≤ K + 1 by omega)) hctl
        (EvBody.cons ld S3 rfl (EvBody.nil ld))))) (by omega)

/-! ### set.ckl `intersection`, `diff` -/

/-- the membership test `a in setb` in a frame where `a` is a scalar and `setb` a collection argument -/
theorem isIn_setb {s u : State} {M nats srcs c m vars} {vb : RVal} {enB : List Val} {x : Val} {pa pb pc : Pos}
    (cu : Ctx u M nats srcs c m vars) (eu : Ext s u) (CB : Coll s vb enB)
    (ha : dictGet "a" vars = some (liftV x)) (hb : dictGet "setb" vars = some vb) (hx : ScalarV x) :
    Ev ld 1 c (.isIn (.ident "a" pa) (.ident "setb" pb) pc) u (.ok (.bool (memV x enB)) u) := by
  obtain ⟨bb, ys, rfl, _, hys, hcell, hmem⟩ := (CB.ext eu).content
  have A := Ev.isInCell ld (k := 0) (pos := pc) (Ev.ident ld (p := pa) (cu.var ha)) (Ev.ident ld (p := pb) (cu.var hb)) hcell
  rw [memR_liftV u hx hys, hmem x] at A
  exact A

theorem intersection_calls {s : State} {M nats srcs fn m} (h : LibEnv s M nats srcs) (hn : ∀ x ∈ setNats, x ∈ nats)
    (hm : M m) (hsrc : IsSrc s fn set_intersection m) (va vb : RVal) (enA enB : List Val)
    (CA : Coll s va enA) (CB : Coll s vb enB) :
    ∃ r s', (Ext s s' ∧ SameMods s s' ∧ s.heap.size ≤ r ∧
        s'.cell r = some (.set ((Lib.intersectionM enA enB).map liftV))) ∧
      ∀ env pos, Calls ld (enA.length + 16) fn [("seta", va), ("setb", vb)] env pos s (.ok (.ref r) s') :=
  calls_of_body2E ld (src := set_intersection) rfl rfl rfl (by omega) (by decide) h hm hsrc va vb
    (fun s0 ctx e0 m0 => setFilter_body ld (g := fun x => memV x enB) h hm ctx e0 m0 hn CA
      (fun u vars x cu eu ha hb hx => Ev.mono ld (isIn_setb ld cu eu CB ha hb hx) (by omega)))

theorem diff_calls {s : State} {M nats srcs fn m} (h : LibEnv s M nats srcs) (hn : ∀ x ∈ setNats, x ∈ nats)
    (hm : M m) (hsrc : IsSrc s fn set_diff m) (va vb : RVal) (enA enB : List Val)
    (CA : Coll s va enA) (CB : Coll s vb enB) :
    ∃ r s', (Ext s s' ∧ SameMods s s' ∧ s.heap.size ≤ r ∧
        s'.cell r = some (.set ((Lib.diffM enA enB).map liftV))) ∧
      ∀ env pos, Calls ld (enA.length + 16) fn [("seta", va), ("setb", vb)] env pos s (.ok (.ref r) s') :=
  calls_of_body2E ld (src := set_diff) rfl rfl rfl (by omega) (by decide) h hm hsrc va vb
    (fun s0 ctx e0 m0 => setFilter_body ld (g := fun x => !memV x enB) h hm ctx e0 m0 hn CA
      (fun u vars x cu eu ha hb hx => Ev.not ld (isIn_setb ld cu eu CB ha hb hx)))

end Ckl.C19Src
