"""C13 Only language-level errors escape evaluation."""
import itertools
import multiprocessing as mp
import os
import shutil
import tempfile
import warnings

warnings.filterwarnings("ignore", category=FutureWarning)

from harness import core, proto, session
from harness.props import common

SKIP_FUNCS = {"execute", "run", "readln", "read", "read_all", "process_lines", "timestamp", "now", "random", "set_seed",
              "exit", "sleep"}

# ------------------------------------------------------------------ value pool (factories: mutators get fresh values)

POOL_SRC = [
    "NULL", "TRUE", "FALSE", "0", "1", "-1", "3", "0.0", "1.5", "-2.5", "0.00001", "''", "'a'", "'abc'", "'12'", "'123456789'", "' '",
    "date('20200229')", "//a+//", "[]", "[1, 2]", "['a']", "[[1, 2], [3, 4]]", "[1, 1, 1]", "'aaa'", "<<>>", "<<1, 2>>", "<<<>>>",
    "<<<'a' => 1>>>", "<**>", "<*a = 1*>", "fn(x) x", "fn(a, b) a",
    # collections mixing kinds (their enumeration order needs the cross-kind order)
    "<<1, 'a'>>", "<<NULL, TRUE, 'x', 2.5>>", "<<<1 => 'a', 'b' => 2>>>", "<<[1], 2, fn(y) y>>",
    # objects whose prototype chain is cyclic: through the object itself, and a cycle further up that does not contain it
    "(fn() do def o = <*k = 1*>; o->_proto_ = o; o end)()",
    "(fn() do def b = <*n = 1*>; def c = <*_proto_ = b*>; b->_proto_ = c; <*_proto_ = b, own = 2*> end)()",
    # objects whose user-defined rendering member is not a function, does not return a string, or fails; an output stream
    "<*_str_ = 5*>", "<*_str_ = fn(self) 5*>", "<*_str_ = fn(self) error 'inner'*>", "(fn() do require IO; IO->str_output() end)()",
]
BIG = "9007199254740993"


def setup_scratch():
    d = tempfile.mkdtemp(prefix="c13")
    os.makedirs(os.path.join(d, "home", ".ckl", "modules"))
    os.environ["HOME"] = os.path.join(d, "home")
    os.chdir(d)
    return d


def make_interpreter(legacy):
    from ckl.interpreter import Interpreter
    from ckl.values import StringInput, StringOutput
    it = Interpreter(False, legacy)
    it.setStandardOutput(StringOutput())
    it.setStandardInput(StringInput("line1\nline2\n"))
    return it


def callable_symbols(it, legacy):
    """(label, program text that evaluates to the function) for every function of the base environment
    and of every bundled module"""
    out = []
    base = it.base_environment
    for name in base.getSymbols():
        v = base.get(name)
        if v.isFunc() and name not in SKIP_FUNCS:
            out.append((name, name))
    if not legacy:
        mods = ["Bitwise", "Core", "Date", "IO", "List", "Math", "OS", "Predicate", "Random", "Set", "String", "Stat", "Sys", "Type"]
        for m in mods:
            it.interpret(f"require {m}", "req")
            obj = it.environment.get(m)
            for member, v in obj.value.items():
                if v.isFunc() and member not in SKIP_FUNCS:
                    out.append((f"{m}->{member}", f"{m}->{member}"))
    return out


_hang = {"n": 0, "skip": 0}


class Runner:
    def __init__(self, legacy):
        from ckl.parser import parse_script
        self.it = make_interpreter(legacy)
        self.parse = parse_script
        self.nodes = {}
        self.pool_nodes = [parse_script(s, "pool") for s in POOL_SRC]
        self.env = self.it.environment
        self.legacy = legacy
        if not legacy:
            for m in ["Bitwise", "Core", "Date", "IO", "List", "Math", "OS", "Predicate", "Random", "Set", "String", "Stat", "Sys", "Type"]:
                self.it.interpret(f"require {m}", "req")

    def fresh(self, i):
        return self.pool_nodes[i].evaluate(self.env)

    def run(self, src, binds, limit=2):
        from ckl.errors import CklRuntimeError, CklSyntaxError
        node = self.nodes.get(src)
        if node is None:
            node = self.nodes[src] = self.parse(src, "c13")
        try:
            for k, i in binds.items():
                self.env.put(k, self.fresh(i))
        except BaseException as e:  # noqa  (building an operand value is evaluation of a literal: no host exception there either)
            return ('host', 'building the operand ' + POOL_SRC[i] + ' raises ' + type(e).__name__ + ": " + str(e)[:80])
        # a tree on which evaluation hangs for many operand tuples would cost 2 s of CPU for each: after a few time-outs in this worker
        # the bound shrinks, after many the remaining tuples are only sampled (hanging tuples are already in hand and are re-run generously)
        if limit == 2 and _hang["n"] >= 6:
            limit = 0.4
            if _hang["n"] >= 60:
                _hang["skip"] += 1
                if _hang["skip"] % 20:
                    return ('val',)
        try:
            with core.time_limit(limit):
                v = node.evaluate(self.env)
                if v is None:
                    return ('host', 'evaluate returned None')
                return ('val',)
        except core.Timeout:
            _hang["n"] += 1
            return ('timeout',)
        except CklRuntimeError as e:
            if e.value is None or not hasattr(e.value, "isString"):
                return ('host', 'CklRuntimeError without an error value')
            return ('rt',)
        except CklSyntaxError as e:
            return ('host', 'CklSyntaxError at run time: ' + str(e.msg)[:80])
        except RecursionError:
            return ('host', 'RecursionError')
        except BaseException as e:  # noqa
            return ('host', type(e).__name__ + ": " + str(e)[:100])


_runner = {}


def _reworker(job):
    """second opinion on a time-out: the same operands again under a generous CPU bound. An input whose evaluation ends (with
    whatever outcome) is judged by that outcome; only one that is still running after 30 s of CPU time is reported as not returning"""
    legacy, src, binds = job
    core.use_repo()
    if "dir" not in _runner:
        _runner["dir"] = setup_scratch()
    key = ("r", legacy)
    if key not in _runner:
        _runner[key] = Runner(legacy)
    out = _runner[key].run(src, binds, limit=30)
    if out[0] == 'rt':
        out2 = _runner[key].run("do " + src + " catch all '__caught__' end", binds, limit=30)
        if out2[0] != 'val':
            out = ('host', 'runtime error not intercepted by catch all: ' + str(out2))
    return legacy, src, binds, out


def _worker(job):
    legacy, items = job
    core.use_repo()
    if "dir" not in _runner:
        _runner["dir"] = setup_scratch()
    key = ("r", legacy)
    if key not in _runner:
        _runner[key] = Runner(legacy)
    r = _runner[key]
    res = []
    for src, binds in items:
        out = r.run(src, binds)
        if out[0] == 'rt':
            # the runtime error must be interceptable by catch
            out2 = r.run("do " + src + " catch all '__caught__' end", binds)
            if out2[0] != 'val':
                out = ('host', 'runtime error not intercepted by catch all: ' + str(out2))
        if out[0] in ('host', 'timeout') or (out[0] == 'host' and 'timeout' in out[1]):
            res.append((src, binds, out, legacy))
    return len(items), res


SYNTAX_FORMS_1 = ["-a", "not a", "a[0]", "a[-1]", "a['x']", "a[0 to 1]", "a[1 to *]", "a->x", "a->x()", "a !> identity()",
                  "for x in a do x end", "for [x, y] in a do x end", "for x in keys a do x end", "for x in entries a do x end",
                  "[x for x in a]", "<<x for x in a>>", "<<<x => x for x in a>>>", "[x for x in keys a]", "[x for x in entries a]",
                  "[...a]", "identity(...a)", "def [x1, y1] = a", "def p1 = NULL; def q1 = NULL; [p1, q1] = a",
                  "if a then 1 else 2", "while a do break end", "error a", "a()", "a(1)", "a(1, 2, 3)", "string(a)", "length(a)",
                  "<<a>>", "<<<a => a>>>", "[a, a]", "def t1 = a; t1 += a", "do error a catch a 1 end", "a is empty", "a is not string",
                  "a is zero", "a is numerical", "require a", "return a",
                  # statement forms without an operand, alone and as the last statement of a body
                  "return;", "def r1() return; r1()", "def r2() do if a then return; 5 end; r2()", "def r3() do a; return; end; r3()", "(fn() do return; end)()",
                  "if a then return;", "do return; end", "for x in a do return; end", "do a finally return; end", "break", "continue", "for x in a do break; end",
                  "for x in a do continue; end", "while TRUE do break; end", "do break; end", "(fn() break)()", "(fn() do continue; end)()"]
SYNTAX_FORMS_2 = ["a + b", "a - b", "a * b", "a / b", "a % b", "a == b", "a != b", "a < b", "a <= b", "a > b", "a >= b", "a and b", "a or b",
                  "a in b", "a not in b", "a is b", "a[b]", "a[b to *]", "a[0 to b]", "a[b, 0]", "a->x = b", "def c1 = a; c1[b] = 1",
                  "def c2 = a; c2[0] = b", "a starts with b", "a ends with b", "a contains b", "a matches b", "a !> b()", "a(b)",
                  "a(...b)", "a(x = b)", "[x + b for x in a]", "[x for x in a also for y in b]", "[x for x in a for y in b]",
                  "for x in a do b end", "do error a catch b 1 end", "def d1 = a; d1 += b", "a < b <= a", "compare(a, b)"]
SYNTAX_FORMS_3 = ["a[b to c]", "def e1 = a; e1[b] = c", "a[b, c]", "if a then b else c", "a(b, c)", "[x for x in a if b == c]",
                  "a < b < c", "a + b * c", "def m1 = a; m1[b, c] += 1"]


def native_correspondence(ctx):
    """the driver's interpretation of the built-ins the evaluator model leaves open (Driver/NativeSem.lean: bit functions, pow, int /
    decimal / boolean conversions, trim / upper / lower, the regex natives on a regex fragment, s, round, sqrt, …) against the
    implementation: every call where the driver does not abstain must agree in outcome, value and output"""
    from harness import validate_natives_agent as VN
    from harness import session as S
    cases = VN.build_cases()
    natives = sorted(cases)
    flat = [(n, p) for n in natives for p in cases[n] if not VN.resource_risk(p)]
    if not ctx.thorough:
        flat = ctx.rng.sample(flat, min(len(flat), 6000))
    bind = "; ".join(f"bind_native('{n}')" for n in natives)
    batches = [flat[i:i + 250] for i in range(0, len(flat), 250)]
    impl_results, requests = [], []
    for batch in batches:
        progs = [bind] + [p for _, p in batch]
        sess = S.ImplSession(secure=True, legacy=True)
        try:
            impl_results.append([sess.run(p, limit=20) for p in progs])
        finally:
            sess.close()
        requests.append(S.model_request(progs, secure=True, fuel=20000, legacy=True))
    responses = core.run_driver(requests)
    import sys as _sys
    old_limit = _sys.get_int_max_str_digits()
    _sys.set_int_max_str_digits(0)
    try:
        for batch, impl, resp in zip(batches, impl_results, responses):
            model, _g = S.parse_model_session(resp)
            for (n, p), i_res, m_res in zip(batch, impl[1:], model[1:]):
                mo = m_res[0]
                ctx.seen(("native", p), nontrivial=True)
                if mo[0] == 'fail' and mo[1] in ('unsupported', 'oof'):
                    ctx.count("driver_natives_abstain")
                    continue
                ctx.count("driver_natives_checked")
                d = S.compare(i_res, m_res)
                if d is not None:
                    ctx.disagreements += 1
                    ctx.violation("correspondence", f"`{p[:160]}`: {d[:300]}", {"op": "native", "program": bind + "; " + p,
                                  "correspondence": "Ckl.driverNativeSem (Driver/NativeSem.lean) vs the built-in " + n})
    finally:
        _sys.set_int_max_str_digits(old_limit)


def run(ctx):
    rng = ctx.rng
    n = len(POOL_SRC)
    ctx.rule = ("every function of the base environment (legacy and non-legacy) and of every bundled module x all argument tuples "
                f"of arity <= 2 from a pool of {n} representative values (every kind; 0, negative, empty, NULL, callables), arity 3 "
                "sampled (thorough: exhaustive for base functions); every syntactic operator / indexing / slicing / iteration / spread / "
                "destructuring form x all operand tuples; outcome must be a value or a CklRuntimeError that carries a value and is "
                "intercepted by `catch all`, within 2 s; non-trivial = every tuple counts once (ill-typed or edge arguments dominate)")
    jobs = []
    total = 0

    def add_jobs(legacy, items, chunk=1500):
        nonlocal total
        for i in range(0, len(items), chunk):
            jobs.append((legacy, items[i:i + chunk]))
        total += len(items)

    core.use_repo()
    d0 = os.getcwd()
    scratch = setup_scratch()
    try:
        for legacy in (False, True):
            it = make_interpreter(legacy)
            syms = callable_symbols(it, legacy)
            ctx.count("functions_legacy" if legacy else "functions", len(syms))
            items = []
            for label, fexpr in syms:
                items.append((f"{fexpr}()", {}))
                for i in range(n):
                    items.append((f"{fexpr}(a)", {"a": i}))
                for i in range(n):
                    for j in range(n):
                        items.append((f"{fexpr}(a, b)", {"a": i, "b": j}))
                for i in range(n):
                    items.append((f"{fexpr}(a, a)", {"a": i}))      # the SAME value in both places (append_all(l, l), union(s, s), …)
                k3 = (n ** 3 if (ctx.thorough and not legacy and "->" not in fexpr) else (60 if ctx.thorough else 12))
                if k3 >= n ** 3:
                    for i, j, k in itertools.product(range(n), repeat=3):
                        items.append((f"{fexpr}(a, b, c)", {"a": i, "b": j, "c": k}))
                else:
                    for _ in range(k3):
                        items.append((f"{fexpr}(a, b, c)", {"a": rng.randrange(n), "b": rng.randrange(n), "c": rng.randrange(n)}))
            if legacy and not ctx.thorough:
                items = rng.sample(items, len(items) // 4)
            add_jobs(legacy, items)
        forms = []
        for f in SYNTAX_FORMS_1:
            for i in range(n):
                forms.append((f, {"a": i}))
        for f in SYNTAX_FORMS_2:
            for i in range(n):
                for j in range(n):
                    forms.append((f, {"a": i, "b": j}))
            for i in range(n):
                forms.append((f.replace("b", "a") if " b" in f or "b)" in f or "[b" in f or "b]" in f else f, {"a": i}))
        for f in SYNTAX_FORMS_3:
            for i in range(n):
                for j in range(n):
                    for k in (range(n) if ctx.thorough else rng.sample(range(n), 6)):
                        forms.append((f, {"a": i, "b": j, "c": k}))
        # slices with both bounds written as literals: every combination of in-range / beyond-the-front / beyond-the-end on either side, on
        # every operand (the two clamps are separate statements in the implementation, and the sampled `c` above reaches a particular
        # pair of bounds only now and then)
        lits = ["-7", "-3", "-1", "0", "1", "2", "3", "7", BIG, "-" + BIG]
        for b_ in lits:
            for c_ in lits:
                for i in range(n):
                    forms.append((f"a[{b_} to {c_}]", {"a": i}))
        add_jobs(False, forms)
        ctx.count("syntactic_form_evaluations", len(forms))
        bad = []
        with mp.Pool(16) as pool:
            for cnt, res in pool.imap_unordered(_worker, jobs):
                ctx.evaluations += cnt
                bad += res
        # time-outs get a second, generous run (at most 48 of them; a tree on which evaluation really hangs times out again)
        slow = [b for b in bad if b[2][0] == 'timeout' or 'timeout' in str(b[2][1:])]
        bad = [b[:3] for b in bad if b not in slow]
        ctx.count("timeouts_first_pass", len(slow))
        redo, rest = slow[:48], slow[48:]
        if redo:
            with mp.Pool(16) as pool:
                for legacy, src, binds, out in pool.imap_unordered(_reworker, [(b[3], b[0], b[1]) for b in redo]):
                    if out[0] in ('host', 'timeout'):
                        bad.append((src, binds, out))
                    else:
                        ctx.count("timeouts_cleared_by_second_run")
        bad += [b[:3] for b in rest]
        ctx.nontrivial = set(range(total))      # every tuple is a distinct case by construction
        seen_sites = set()
        cyclic = {i for i, p_ in enumerate(POOL_SRC) if "_proto_ = " in p_ and "(fn()" in p_}
        for src, binds, out in sorted(bad, key=lambda x: (x[0], sorted(x[1].items()))):
            if out[0] == 'host' and 'RecursionError' in out[1] and any(i in cyclic for i in binds.values()):
                # recorded finding: hashing / comparing / rendering a value that contains a reference cycle recurses without bound
                ctx.violation("oracle", "cyclic value", {"finding_key": "C13:cyclic-value-recursion"})
                ctx.count("known_cyclic_value_recursions")
                continue
            site = (src.split("(")[0] if "(" in src and src[0].isalpha() else src, out[0], out[1].split(":")[0] if len(out) > 1 else "")
            if site in seen_sites:
                ctx.count("further_failing_tuples")
                continue
            seen_sites.add(site)
            args = {k: POOL_SRC[i] for k, i in binds.items()}
            what = "does not return (2 s of CPU time, then 30 s on a second run)" if out[0] == 'timeout' else f"escapes with {out[1]}"
            ctx.violation("oracle", f"`{src}` with {args} {what}", {"op": "call", "src": src, "args": args, "outcome": list(out)})
    finally:
        os.chdir(d0)
        shutil.rmtree(scratch, ignore_errors=True)
    # ---------------- outcome class vs the model evaluator on operator forms over data values
    if ctx.build.ok:
        data_idx = [i for i, s in enumerate(POOL_SRC) if not s.startswith(("fn(", "(fn(", "<*", "date(", "//"))]
        progs = []
        for f in ["a + b", "a - b", "a * b", "a / b", "a % b", "a == b", "a < b", "a >= b", "a and b", "a in b", "a[b]", "a[b to *]",
                  "[x for x in a]", "for x in a do x end", "[...a]", "not a", "-a", "a[0 to b]", "def [x1, y1] = a"]:
            for i in data_idx:
                for j in (data_idx if " b" in f or "[b" in f or "b]" in f else [0]):
                    src = "def a = " + POOL_SRC[i] + "; def b = " + POOL_SRC[j] + "; " + f
                    progs.append(src)
        progs += [f"{BIG} / 1", f"{BIG} % 7", f"{BIG} * {BIG}", f"-{BIG} / 3", f"{BIG} + 1.5", f"{BIG} == {BIG}.0"]
        reqs = [session.model_request([p]) for p in progs]
        resp = core.run_driver(reqs)
        impl = session.ImplSession()
        try:
            for p, r in zip(progs, resp):
                model, _ = session.parse_model_session(r)
                impl.it.environment.map.clear()
                i = impl.run(p)
                ctx.count("model_programs")
                m = model[0]
                if m[0][0] == 'fail':
                    ctx.count("model_abstains")
                    continue
                d = session.compare((i[0], i[1], ()), (m[0], m[1], ()))
                if d:
                    ctx.disagreements += 1
                    ctx.violation("correspondence", f"`{p}`: {d}", {"op": "program", "src": p, "correspondence": "Ckl.eval vs Interpreter.interpret"})
        finally:
            impl.close()
    ctx.sample({"call": "substr(a, b)", "a": "'abc'", "b": "NULL", "outcome": "runtime error, caught by catch all"})
    ctx.sample({"form": "a[b to *]", "a": "[1, 2]", "b": "'a'", "outcome": "runtime error"})
    ctx.sample({"form": "for [x, y] in a do x end", "a": "[[1, 2], [3, 4]]", "outcome": "value"})
    if ctx.build.ok:
        native_correspondence(ctx)
    common.replay_known(ctx)


def replay(ctx, payload):
    return common.generic_replay(ctx, payload)
