/-
  C17 — calendar arithmetic of `src/ckl/date.py` (model: `CklVerif/Model/Date.lean`).

  All theorems hold for ALL years ≥ 1900, with no upper bound.
  * `toDate` and `toOaDay` are mutually inverse bijections between valid calendar dates and
    day numbers ≥ 2,
  * the day number grows by exactly one per calendar day (Gregorian leap rule),
  * `toOaDay` is strictly monotone w.r.t. the lexicographic order on (y, m, d),
  * the fuel of the two loops of `to_date` is sufficient and the extra guard `month < 12`
    of the model's month loop is redundant,
  * day arithmetic (`addDays`) and the time of day in milliseconds.
-/
import CklVerif.Lemmas.C17

namespace Ckl.C17
open Ckl.Date

/-! ## valid dates -/

theorem validDate_iff {y m d : Nat} :
    validDate y m d = true ↔
      1900 ≤ y ∧ 1 ≤ m ∧ m ≤ 12 ∧ 1 ≤ d ∧ d ≤ monthDays y (m - 1) := by
  simp [validDate, and_assoc]

/-- day number of a triple -/
def oaOf (p : Nat × Nat × Nat) : Nat := toOaDay p.1 p.2.1 p.2.2

/-- validity of a triple -/
def validT (p : Nat × Nat × Nat) : Bool := validDate p.1 p.2.1 p.2.2

/-! ## 5. anchors (closed facts) -/

theorem toOaDay_1900_01_01 : toOaDay 1900 1 1 = 2 := by
  simp [toOaDay, daysBeforeYear_1900, daysBeforeMonth]

theorem toOaDay_1970_01_01 : toOaDay 1970 1 1 = 25569 := by
  have := daysBeforeYear_closed (y := 1970) (by omega)
  simp only [toOaDay, Nat.sub_self, daysBeforeMonth_zero]
  generalize daysBeforeYear 1970 = x at *
  omega

theorem toOaDay_2000_03_01 : toOaDay 2000 3 1 = 36586 := by
  have := daysBeforeYear_closed (y := 2000) (by omega)
  have hl : isLeapYear 2000 = true := by decide
  have hm : daysBeforeMonth 2000 (3 - 1) = 60 := by
    simp [daysBeforeMonth, monthDays, daysPerMonth, hl]
  simp only [toOaDay, hm]
  generalize daysBeforeYear 2000 = x at *
  omega

theorem toOaDay_2023_03_15 : toOaDay 2023 3 15 = 45000 := by
  have := daysBeforeYear_closed (y := 2023) (by omega)
  have hl : isLeapYear 2023 = false := by decide
  have hm : daysBeforeMonth 2023 (3 - 1) = 59 := by
    simp [daysBeforeMonth, monthDays, daysPerMonth, hl]
  simp only [toOaDay, hm]
  generalize daysBeforeYear 2023 = x at *
  omega

/-! ## 6. fuel sufficiency of the two loops -/

/-- The year loop, started at 1900 (or any later year) with `fuel ≥ value + 1`, stops because
    the remainder is smaller than the year reached — never because it ran out of fuel — and
    it has subtracted exactly the days of the years skipped. -/
theorem yearLoop_stops {fuel year value : Nat} (hy : 1900 ≤ year) (hf : value + 1 ≤ fuel) :
    (yearLoop fuel year value).2 < yearDays (yearLoop fuel year value).1 ∧
    year ≤ (yearLoop fuel year value).1 ∧
    daysBeforeYear (yearLoop fuel year value).1 + (yearLoop fuel year value).2
      = daysBeforeYear year + value :=
  yearLoop_spec fuel year value hy hf

/-- `yearLoop_fuel`: with `fuel ≥ value + 1` the result does not depend on the fuel and the
    returned remainder is `< yearDays year`. -/
theorem yearLoop_fuel {fuel value : Nat} (hf : value + 1 ≤ fuel) :
    yearLoop fuel 1900 value = yearLoop (value + 1) 1900 value ∧
    (yearLoop fuel 1900 value).2 < yearDays (yearLoop fuel 1900 value).1 := by
  obtain ⟨h1, h2, h3⟩ := yearLoop_spec fuel 1900 value (Nat.le_refl _) hf
  obtain ⟨g1, g2, g3⟩ := yearLoop_spec (value + 1) 1900 value (Nat.le_refl _) (Nat.le_refl _)
  refine ⟨?_, h1⟩
  have := year_decomp_unique h2 g2 h1 g1 (by omega)
  exact Prod.ext this.1 this.2

/-- any two sufficient fuels agree, from any start year ≥ 1900 -/
theorem yearLoop_fuel_irrelevant {fuel fuel' year value : Nat} (hy : 1900 ≤ year)
    (hf : value + 1 ≤ fuel) (hf' : value + 1 ≤ fuel') :
    yearLoop fuel year value = yearLoop fuel' year value := by
  obtain ⟨h1, h2, h3⟩ := yearLoop_spec fuel year value hy hf
  obtain ⟨g1, g2, g3⟩ := yearLoop_spec fuel' year value hy hf'
  have := year_decomp_unique (Nat.le_trans hy h2) (Nat.le_trans hy g2) h1 g1 (by omega)
  exact Prod.ext this.1 this.2

/-- `monthLoop_fuel`: for a day-in-year `v < yearDays year`, with fuel ≥ 13 the result of the
    month loop does not depend on the fuel, the returned month is `< 12` (0-based) and the
    remainder is `< monthDays year month`, i.e. the loop stopped because of the *value* test. -/
theorem monthLoop_fuel {year fuel v : Nat} (hv : v < yearDays year) (hf : 13 ≤ fuel) :
    monthLoop year fuel 0 v = monthLoop year 13 0 v ∧
    (monthLoop year fuel 0 v).1 < 12 ∧
    (monthLoop year fuel 0 v).2 < monthDays year (monthLoop year fuel 0 v).1 ∧
    daysBeforeMonth year (monthLoop year fuel 0 v).1 + (monthLoop year fuel 0 v).2 = v := by
  have hv' : daysBeforeMonth year 0 + v < yearDays year := by
    rw [daysBeforeMonth_zero]; omega
  obtain ⟨h1, h2, _, h4⟩ := monthLoop_spec year fuel 0 v (by omega) (by omega) hv'
  obtain ⟨g1, g2, _, g4⟩ := monthLoop_spec year 13 0 v (by omega) (by omega) hv'
  rw [daysBeforeMonth_zero] at h4 g4
  refine ⟨?_, h1, h2, by omega⟩
  have := month_decomp_unique h2 g2 (by omega)
  exact Prod.ext this.1 this.2

/-- non-vacuity of the fuel hypotheses (`value + 1 ≤ fuel`, `v < yearDays year`, `13 ≤ fuel`) -/
example : (400 : Nat) + 1 ≤ 500 ∧ (59 : Nat) < yearDays 2024 ∧ (13 : Nat) ≤ 20 ∧
    yearLoop 500 1900 400 = (1901, 35) ∧ monthLoop 2024 20 0 59 = (1, 28) := by decide

/-- The month loop exactly as in the Python code, *without* the model's extra guard
    `month < 12` (fuel only makes it a total function). -/
def monthLoopU (year : Nat) : Nat → Nat → Nat → Nat × Nat
  | 0, month, value => (month, value)
  | fuel + 1, month, value =>
    if value ≥ monthDays year month then
      monthLoopU year fuel (month + 1) (value - monthDays year month)
    else (month, value)

/-- The guard `month < 12` is redundant: whenever the day-in-year is inside the year, the
    guarded and the unguarded loop perform exactly the same iterations. -/
theorem monthLoop_guard_redundant (year fuel : Nat) : ∀ (month value : Nat), month ≤ 12 →
    daysBeforeMonth year month + value < yearDays year →
    monthLoop year fuel month value = monthLoopU year fuel month value := by
  induction fuel with
  | zero => intro month value _ _; rfl
  | succ fuel ih =>
    intro month value hm hlt
    have hm12 : month < 12 := by
      rcases Nat.lt_or_ge month 12 with h | h
      · exact h
      · have : month = 12 := by omega
        subst this
        have := daysBeforeMonth_twelve year
        omega
    unfold monthLoop monthLoopU
    by_cases hc : value ≥ monthDays year month
    · rw [if_pos ⟨hm12, hc⟩, if_pos hc]
      exact ih (month + 1) (value - monthDays year month) (by omega)
        (by rw [daysBeforeMonth_succ]; omega)
    · rw [if_neg (fun h => hc h.2), if_neg hc]

/-- `to_date` with the unguarded month loop (literally the Python code) -/
def toDateU (n : Nat) : Nat × Nat × Nat :=
  let value := n - 2
  let (year, v1) := yearLoop (value + 1) 1900 value
  let (month, v2) := monthLoopU year 13 0 v1
  (year, month + 1, v2 + 1)

theorem toDate_eq (n : Nat) :
    toDate n =
      ((yearLoop (n - 2 + 1) 1900 (n - 2)).1,
       (monthLoop (yearLoop (n - 2 + 1) 1900 (n - 2)).1 13 0 (yearLoop (n - 2 + 1) 1900 (n - 2)).2).1 + 1,
       (monthLoop (yearLoop (n - 2 + 1) 1900 (n - 2)).1 13 0 (yearLoop (n - 2 + 1) 1900 (n - 2)).2).2 + 1) :=
  rfl

/-- for every day number the model's guarded `toDate` coincides with the unguarded one -/
theorem toDate_guard_redundant (n : Nat) : toDate n = toDateU n := by
  obtain ⟨h1, _, _⟩ := yearLoop_spec (n - 2 + 1) 1900 (n - 2) (Nat.le_refl _) (Nat.le_refl _)
  have := monthLoop_guard_redundant (yearLoop (n - 2 + 1) 1900 (n - 2)).1 13 0
    (yearLoop (n - 2 + 1) 1900 (n - 2)).2 (by omega) (by rw [daysBeforeMonth_zero]; omega)
  unfold toDate toDateU
  simp only [this]

/-! ## 2. `toOaDay ∘ toDate = id` on day numbers ≥ 2 -/

theorem toDate_spec {n : Nat} (h : 2 ≤ n) :
    validT (toDate n) = true ∧ oaOf (toDate n) = n := by
  obtain ⟨h1, h2, h3⟩ := yearLoop_spec (n - 2 + 1) 1900 (n - 2) (Nat.le_refl _) (Nat.le_refl _)
  obtain ⟨_, g1, g2, g3⟩ := monthLoop_fuel (fuel := 13) h1 (Nat.le_refl _)
  rw [daysBeforeYear_1900] at h3
  rw [toDate_eq]
  simp only [validT, oaOf, validDate_iff, toOaDay, Nat.add_sub_cancel]
  refine ⟨⟨h2, by omega, by omega, by omega, by omega⟩, by omega⟩

theorem toOaDay_toDate {n : Nat} (h : 2 ≤ n) :
    let (y, m, d) := toDate n
    validDate y m d = true ∧ toOaDay y m d = n := by
  have := toDate_spec h
  generalize toDate n = r at this
  obtain ⟨y, m, d⟩ := r
  exact this

/-- non-vacuity: a concrete instance of `toOaDay_toDate` (hypothesis `2 ≤ 45000`) is
    `toDate_anchors` below: `toDate 45000 = (2023, 3, 15)`, `toOaDay 2023 3 15 = 45000`. -/
example : (2 : Nat) ≤ 45000 := by decide

/-! ## 4. strict monotonicity and injectivity -/

/-- lexicographic order on (year, month, day) -/
def dateLt (y m d y' m' d' : Nat) : Prop :=
  y < y' ∨ (y = y' ∧ (m < m' ∨ (m = m' ∧ d < d')))

theorem dateLt_iff_lex (y m d y' m' d' : Nat) :
    dateLt y m d y' m' d' ↔
      Prod.Lex (· < ·) (Prod.Lex (· < ·) (· < ·)) (y, m, d) (y', m', d') := by
  simp only [dateLt, Prod.lex_def]

theorem dateLt_trichotomy (y m d y' m' d' : Nat) :
    dateLt y m d y' m' d' ∨ (y = y' ∧ m = m' ∧ d = d') ∨ dateLt y' m' d' y m d := by
  unfold dateLt; omega

theorem dayInYear_succ_month {y m : Nat} (hm : 1 ≤ m) :
    daysBeforeMonth y (m - 1) + monthDays y (m - 1) = daysBeforeMonth y m := by
  have : m = (m - 1) + 1 := by omega
  conv => rhs; rw [this]
  rfl

theorem toOaDay_lt_of_dateLt {y m d y' m' d' : Nat}
    (hv : validDate y m d = true) (hv' : validDate y' m' d' = true)
    (hlt : dateLt y m d y' m' d') : toOaDay y m d < toOaDay y' m' d' := by
  rw [validDate_iff] at hv hv'
  obtain ⟨hy, hm1, hm12, hd1, hd⟩ := hv
  obtain ⟨hy', hm1', hm12', hd1', hd'⟩ := hv'
  unfold toOaDay
  rcases hlt with hyy | ⟨rfl, hmm | ⟨rfl, hdd⟩⟩
  · have h1 := dayInYear_lt hm1 hm12 hd
    have h2 := daysBeforeYear_succ_le hy hyy
    omega
  · have h1 := dayInYear_succ_month (y := y) hm1
    have h2 := daysBeforeMonth_mono y (show m ≤ m' - 1 by omega)
    omega
  · omega

/-- `toOaDay_strictMono`: on valid dates the day number is strictly monotone w.r.t. the
    lexicographic order of (y, m, d), and conversely. -/
theorem toOaDay_strictMono {y m d y' m' d' : Nat}
    (hv : validDate y m d = true) (hv' : validDate y' m' d' = true) :
    dateLt y m d y' m' d' ↔ toOaDay y m d < toOaDay y' m' d' := by
  constructor
  · exact toOaDay_lt_of_dateLt hv hv'
  · intro h
    rcases dateLt_trichotomy y m d y' m' d' with h1 | ⟨rfl, rfl, rfl⟩ | h3
    · exact h1
    · omega
    · have := toOaDay_lt_of_dateLt hv' hv h3; omega

theorem toOaDay_inj {y m d y' m' d' : Nat}
    (hv : validDate y m d = true) (hv' : validDate y' m' d' = true)
    (h : toOaDay y m d = toOaDay y' m' d') : (y, m, d) = (y', m', d') := by
  rcases dateLt_trichotomy y m d y' m' d' with h1 | ⟨rfl, rfl, rfl⟩ | h3
  · have := toOaDay_lt_of_dateLt hv hv' h1; omega
  · rfl
  · have := toOaDay_lt_of_dateLt hv' hv h3; omega

/-- every valid date has day number ≥ 2 -/
theorem two_le_toOaDay {y m d : Nat} (hv : validDate y m d = true) : 2 ≤ toOaDay y m d := by
  rw [validDate_iff] at hv
  unfold toOaDay; omega

example : validDate 1999 12 31 = true ∧ validDate 2000 1 1 = true ∧
    dateLt 1999 12 31 2000 1 1 := by
  refine ⟨by decide, by decide, ?_⟩
  unfold dateLt; omega

/-! ## 1. `toDate ∘ toOaDay = id` on valid dates -/

theorem toDate_toOaDay {y m d : Nat} (hv : validDate y m d = true) :
    toDate (toOaDay y m d) = (y, m, d) := by
  obtain ⟨h1, h2⟩ := toDate_spec (two_le_toOaDay hv)
  generalize toDate (toOaDay y m d) = r at h1 h2
  obtain ⟨y', m', d'⟩ := r
  exact toOaDay_inj h1 hv h2


/-- the anchors, the other way round -/
theorem toDate_anchors :
    toDate 2 = (1900, 1, 1) ∧ toDate 25569 = (1970, 1, 1) ∧ toDate 36586 = (2000, 3, 1) ∧
    toDate 45000 = (2023, 3, 15) := by
  refine ⟨?_, ?_, ?_, ?_⟩
  · rw [← toOaDay_1900_01_01]; exact toDate_toOaDay (by decide)
  · rw [← toOaDay_1970_01_01]; exact toDate_toOaDay (by decide)
  · rw [← toOaDay_2000_03_01]; exact toDate_toOaDay (by decide)
  · rw [← toOaDay_2023_03_15]; exact toDate_toOaDay (by decide)

example : validDate 2024 2 29 = true := by decide
example : validDate 2100 2 29 = false := by decide

/-! ## 3. one calendar day = one day number -/

theorem nextDay_spec {y m d : Nat} (hv : validDate y m d = true) :
    validT (nextDay y m d) = true ∧ oaOf (nextDay y m d) = toOaDay y m d + 1 := by
  rw [validDate_iff] at hv
  obtain ⟨hy, hm1, hm12, hd1, hd⟩ := hv
  unfold nextDay
  split
  · simp only [validT, oaOf, validDate_iff, toOaDay]; omega
  · split
    · have hpos := monthDays_pos y (m := m) (by omega)
      have hs := dayInYear_succ_month (y := y) hm1
      simp only [validT, oaOf, validDate_iff, toOaDay, Nat.add_sub_cancel]; omega
    · have hm : m = 12 := by omega
      subst hm
      have hpos := monthDays_pos (y + 1) (m := 0) (by omega)
      have hs := dayInYear_succ_month (y := y) (m := 12) (by omega)
      have h12 := daysBeforeMonth_twelve y
      have hsy := daysBeforeYear_succ hy
      simp only [validT, oaOf, validDate_iff, toOaDay, Nat.sub_self, daysBeforeMonth_zero] at *
      omega

theorem toOaDay_nextDay {y m d : Nat} (hv : validDate y m d = true) :
    let (y', m', d') := nextDay y m d
    validDate y' m' d' = true ∧ toOaDay y' m' d' = toOaDay y m d + 1 := by
  have := nextDay_spec hv
  generalize nextDay y m d = r at this
  obtain ⟨y', m', d'⟩ := r
  exact this

/-- `nextDay` is the successor in the enumeration of valid dates by `toDate` -/
theorem nextDay_eq_toDate {y m d : Nat} (hv : validDate y m d = true) :
    nextDay y m d = toDate (toOaDay y m d + 1) := by
  obtain ⟨h1, h2⟩ := nextDay_spec hv
  generalize nextDay y m d = r at h1 h2
  obtain ⟨y', m', d'⟩ := r
  rw [← h2]
  exact (toDate_toOaDay h1).symm

example : nextDay 2024 2 28 = (2024, 2, 29) ∧ nextDay 2023 2 28 = (2023, 3, 1) ∧
    nextDay 1900 2 28 = (1900, 3, 1) ∧ nextDay 2000 2 28 = (2000, 2, 29) ∧
    nextDay 2023 12 31 = (2024, 1, 1) := by decide

/-! ## 7. day arithmetic -/

def addDays (y m d : Nat) (k : Int) : Nat × Nat × Nat :=
  toDate ((toOaDay y m d : Int) + k).toNat

/-- `addDays` on a triple -/
def addDaysT (p : Nat × Nat × Nat) (k : Int) : Nat × Nat × Nat := addDays p.1 p.2.1 p.2.2 k

/-- the result of `addDays` is a valid date with day number `toOaDay y m d + k`
    (validity of the start date is not even needed here) -/
theorem addDays_spec {y m d : Nat} {k : Int} (hk : 2 ≤ (toOaDay y m d : Int) + k) :
    validT (addDays y m d k) = true ∧
    (oaOf (addDays y m d k) : Int) = (toOaDay y m d : Int) + k := by
  have h2 : 2 ≤ ((toOaDay y m d : Int) + k).toNat := by omega
  obtain ⟨h, h'⟩ := toDate_spec h2
  refine ⟨h, ?_⟩
  unfold addDays
  rw [h']; omega

theorem toOaDay_addDays {y m d : Nat} {k : Int} (_hv : validDate y m d = true)
    (hk : 2 ≤ (toOaDay y m d : Int) + k) :
    let (y', m', d') := addDays y m d k
    validDate y' m' d' = true ∧ (toOaDay y' m' d' : Int) = (toOaDay y m d : Int) + k := by
  have := addDays_spec hk
  generalize addDays y m d k = r at this
  obtain ⟨y', m', d'⟩ := r
  exact this

theorem addDays_addDays_neg {y m d : Nat} {k : Int} (hv : validDate y m d = true)
    (hk : 2 ≤ (toOaDay y m d : Int) + k) :
    addDaysT (addDays y m d k) (-k) = (y, m, d) := by
  obtain ⟨_, h⟩ := addDays_spec hk
  unfold addDaysT
  unfold oaOf at h
  generalize addDays y m d k = r at h
  obtain ⟨y', m', d'⟩ := r
  simp only at h ⊢
  unfold addDays
  have : ((toOaDay y' m' d' : Int) + -k).toNat = toOaDay y m d := by omega
  rw [this]
  exact toDate_toOaDay hv

theorem addDays_diff {y m d : Nat} {k : Int} (_hv : validDate y m d = true)
    (hk : 2 ≤ (toOaDay y m d : Int) + k) :
    (oaOf (addDays y m d k) : Int) - (toOaDay y m d : Int) = k := by
  obtain ⟨_, h⟩ := addDays_spec hk
  omega

theorem addDays_zero {y m d : Nat} (hv : validDate y m d = true) :
    addDays y m d 0 = (y, m, d) := by
  unfold addDays
  have : ((toOaDay y m d : Int) + 0).toNat = toOaDay y m d := by omega
  rw [this]; exact toDate_toOaDay hv

theorem addDays_one {y m d : Nat} (hv : validDate y m d = true) :
    addDays y m d 1 = nextDay y m d := by
  unfold addDays
  have : ((toOaDay y m d : Int) + 1).toNat = toOaDay y m d + 1 := by omega
  rw [this]; exact (nextDay_eq_toDate hv).symm

/-- adding days composes -/
theorem addDays_addDays {y m d : Nat} {j k : Int}
    (hj : 2 ≤ (toOaDay y m d : Int) + j) :
    addDaysT (addDays y m d j) k = addDays y m d (j + k) := by
  obtain ⟨_, h⟩ := addDays_spec hj
  unfold addDaysT
  unfold oaOf at h
  generalize addDays y m d j = r at h
  obtain ⟨y', m', d'⟩ := r
  simp only at h ⊢
  unfold addDays
  rw [h, Int.add_assoc]

example : validDate 2024 2 29 = true ∧ (2 : Int) ≤ (toOaDay 2024 2 29 : Int) + (-366) := by
  refine ⟨by decide, ?_⟩
  have := two_le_toOaDay (y := 2024) (m := 2) (d := 29) (by decide)
  have := daysBeforeYear_ge (y := 2024) (by omega)
  unfold toOaDay at *
  omega

/-! ## 8. time of day -/

theorem toMillis_lt {h mi s ms : Nat} (hh : h < 24) (hmi : mi < 60) (hs : s < 60)
    (hms : ms < 1000) : toMillis h mi s ms < 86400000 := by
  unfold toMillis; omega

theorem ofMillis_toMillis {h mi s ms : Nat} (_hh : h < 24) (hmi : mi < 60) (hs : s < 60)
    (hms : ms < 1000) : ofMillis (toMillis h mi s ms) = (h, mi, s, ms) := by
  simp only [ofMillis, toMillis, Prod.mk.injEq]
  omega

theorem ofMillis_spec {t : Nat} (ht : t < 86400000) :
    toMillis (ofMillis t).1 (ofMillis t).2.1 (ofMillis t).2.2.1 (ofMillis t).2.2.2 = t ∧
    (ofMillis t).1 < 24 ∧ (ofMillis t).2.1 < 60 ∧ (ofMillis t).2.2.1 < 60 ∧
    (ofMillis t).2.2.2 < 1000 := by
  simp only [ofMillis, toMillis]
  omega

theorem toMillis_ofMillis {t : Nat} (ht : t < 86400000) :
    let (h, mi, s, ms) := ofMillis t
    toMillis h mi s ms = t ∧ h < 24 ∧ mi < 60 ∧ s < 60 ∧ ms < 1000 := by
  have := ofMillis_spec ht
  generalize ofMillis t = r at this
  obtain ⟨h, mi, s, ms⟩ := r
  exact this

example : (23 : Nat) < 24 ∧ (59 : Nat) < 60 ∧ (999 : Nat) < 1000 ∧ (86399999 : Nat) < 86400000 := by
  decide

example : ofMillis (toMillis 23 59 59 999) = (23, 59, 59, 999) ∧
    toMillis 23 59 59 999 = 86399999 := by decide

/-! ## 9. date − date (whole days between two date-times) -/

/-- a date-time: calendar date and time of day in milliseconds -/
def stampT (p : Nat × Nat × Nat) (t : Nat) : Int := stamp p.1 p.2.1 p.2.2 t

/-- `(d + k) - d = k` for every date-time `d` and every whole number of days `k` that stays in range:
    adding whole days keeps the time of day, so the stamps differ by exactly `k` days. -/
theorem diffDays_addDays {y m d t : Nat} {k : Int} (_hv : validDate y m d = true)
    (hk : 2 ≤ (toOaDay y m d : Int) + k) :
    diffDays (stampT (addDays y m d k) t) (stamp y m d t) = k := by
  obtain ⟨_, h⟩ := addDays_spec hk
  unfold stampT stamp diffDays msPerDay
  unfold oaOf at h
  generalize addDays y m d k = r at h
  obtain ⟨y', m', d'⟩ := r
  simp only at h ⊢
  rw [h]
  split <;> omega

/-- `d - (d + k) = -k` -/
theorem diffDays_addDays_rev {y m d t : Nat} {k : Int} (_hv : validDate y m d = true)
    (hk : 2 ≤ (toOaDay y m d : Int) + k) :
    diffDays (stamp y m d t) (stampT (addDays y m d k) t) = -k := by
  obtain ⟨_, h⟩ := addDays_spec hk
  unfold stampT stamp diffDays msPerDay
  unfold oaOf at h
  generalize addDays y m d k = r at h
  obtain ⟨y', m', d'⟩ := r
  simp only at h ⊢
  rw [h]
  split <;> omega

/-- antisymmetry: `a - b = -(b - a)` (truncation toward zero, unlike floor division) -/
theorem diffDays_antisymm (a b : Int) : diffDays a b = - diffDays b a := by
  unfold diffDays msPerDay
  split <;> split <;> omega

theorem diffDays_self (a : Int) : diffDays a a = 0 := by
  unfold diffDays msPerDay
  simp

/-- the difference counts whole days: it is the unique `q` with `q` days ≤ |a − b| < `q + 1` days, signed -/
theorem diffDays_spec {a b : Int} (h : b ≤ a) :
    diffDays a b * msPerDay ≤ a - b ∧ a - b < (diffDays a b + 1) * msPerDay := by
  unfold diffDays msPerDay
  split <;> omega

/-- two date-times on the same calendar day are zero days apart; one at the same time of day on the next
    calendar day is exactly one day later -/
theorem diffDays_same_day {y m d t t' : Nat} (ht : t < msPerDay) (ht' : t' < msPerDay) :
    diffDays (stamp y m d t) (stamp y m d t') = 0 := by
  unfold diffDays stamp msPerDay at *
  split <;> omega

theorem diffDays_nextDay {y m d t : Nat} (hv : validDate y m d = true) :
    diffDays (stampT (nextDay y m d) t) (stamp y m d t) = 1 := by
  have h := toOaDay_nextDay hv
  unfold stampT stamp diffDays msPerDay
  generalize nextDay y m d = r at h
  obtain ⟨y', m', d'⟩ := r
  simp only at h ⊢
  split <;> omega

example : diffDays (stamp 1990 7 31 21833000) (stamp 1987 11 4 21833000) = 1000 := by decide +kernel
example : diffDays (stamp 1987 11 4 0) (stamp 1987 11 5 1) = -1 ∧ diffDays (stamp 1987 11 4 1) (stamp 1987 11 5 0) = 0 := by decide +kernel

end Ckl.C17
