/-
  C14 (spelling of a literal ANYWHERE in a program) helper lemmas, part 1: the scanner on a radix
  numeral (`0x…` / `0b…`, `_` anywhere) that is followed by an ARBITRARY number terminator
  (`numEnd`: brackets, operators, `,` `;` `#`, white space) and arbitrary further text — the
  counterpart of `run_int_gen` (decimal numerals) for states 71 / 72.
-/
import CklVerif.Lemmas.C14SpellNum
import CklVerif.Lemmas.C14ParseLex
namespace Ckl.C14A
open Ckl Ckl.Lexer Ckl.C14S

theorem numEnd_not_hex : ∀ t ∈ numEnd, t ∉ hexDigits := by decide
theorem numEnd_not_bin : ∀ t ∈ numEnd, t ∉ ['0', '1'] := by decide

/-- a number terminator in state 71 / 72 emits the re-spelled `int` token and is then read afresh
    in state 0 -/
theorem feed_radix_end_gen {name : String} {st : St} {base : Nat} {al : List Char} {what : String}
    (R : Radix st base al what) (hal : ∀ t ∈ numEnd, t ∉ al) {σ : LexSt} {t : Char} {v : List Char}
    (hs : σ.core.state = st) (ht : t ∈ numEnd) (hv : respell base σ.core.token = some v) :
    ∃ col, feed name σ t = feed name
      { σ with core := { σ.core with token := [], state := .s0 },
               out := (⟨v, .int, ⟨name, σ.startline, col⟩⟩, σ.startOff) :: σ.out } t := by
  obtain ⟨_, _, hu, _, _⟩ := numEnd_props t ht
  refine ⟨(σ.count t).column - len σ.core.token, ?_⟩
  apply feed_unread (colf := fun col => col - len σ.core.token) (by rw [hs]; exact R.ne0) rfl
  intro col
  rw [R.step_eq _ _ _ hs]
  simp only [stepRadix, hal t ht, hu, or_self, ht, if_false, if_true, hv]

/-- **radix literal, any terminator**: `0` `p` (digits and `_`) started at a token boundary and
    followed by a number terminator `t`: the `int` token with the decimal re-spelling is emitted, and
    the scan continues with `t` at the same token boundary, on the same line -/
theorem run_radix_gen {name : String} {st : St} {base : Nat} {al : List Char} {what : String}
    (R : Radix st base al what) (hal : ∀ t ∈ numEnd, t ∉ al) (p : Char) (hpn : p ≠ '\n')
    (hp : ∀ (k : Core) (col : Int), k.state = .s70 → step k col p = .ok ⟨{ k with state := st }, none, false⟩)
    {σ : LexSt} (h0 : σ.core.state = .s0) (htok : σ.core.token = [])
    {u : List Char} (hu : ∀ c ∈ u, c ∈ al ∨ c = '_') (hne : dropUnderscores u ≠ [])
    (hlim : ofDigits base (dropUnderscores u) < litLimit)
    {t : Char} (ht : t ∈ numEnd) (tail : List Char) :
    ∃ σ' col, run name σ ('0' :: p :: (u ++ t :: tail)) = run name σ' (t :: tail) ∧ σ'.core = σ.core ∧
      σ'.out = (⟨Nat.toDigits 10 (ofDigits base (dropUnderscores u)), .int, ⟨name, σ.line, col⟩⟩, σ.pos)
        :: σ.out ∧ σ'.line = σ.line := by
  obtain ⟨σ1, hf1, hk1, ho1, hsl1, hso1, hl1⟩ := feed_start (name := name) (c := '0')
    (k' := { σ.core with state := .s70 }) h0 (by decide) (by intro col; simp [step0])
  obtain ⟨σ2, hf2, hk2, hfr2⟩ := feed_inner (name := name) (σ := σ1) (c := p)
    (k' := { σ1.core with state := st }) (by rw [hk1]; simp) hpn
    (fun col => hp _ col (by rw [hk1]))
  have hs2 : σ2.core.state = st := by rw [hk2]
  obtain ⟨σ3, hr3, hk3, hfr3⟩ := run_accum (name := name) (accum_radixU R) u hs2 hu
  have hs3 : σ3.core.state = st := by rw [hk3]; exact hs2
  have htok3 : σ3.core.token = u := by rw [hk3, hk2, hk1]; simp [htok]
  obtain ⟨col, hf4⟩ := feed_radix_end_gen (name := name) R hal hs3 ht
    (v := Nat.toDigits 10 (ofDigits base (dropUnderscores u)))
    (by rw [htok3]; exact respell_eq hne hlim)
  have hfr := hfr2.trans hfr3
  refine ⟨{ σ3 with core := { σ3.core with token := [], state := .s0 },
                    out := (⟨Nat.toDigits 10 (ofDigits base (dropUnderscores u)), .int,
                      ⟨name, σ3.startline, col⟩⟩, σ3.startOff) :: σ3.out }, col, ?_, ?_, ?_, ?_⟩
  · rw [run_cons_ok _ hf1, run_cons_ok _ hf2, run_append_ok _ hr3]
    simp only [run, hf4]
  · simp only [hk3, hk2, hk1]
    cases hσ : σ.core with
    | mk s tk tb =>
      rw [hσ] at h0 htok; simp only at h0 htok; subst h0; subst htok; rfl
  · simp only [hfr.out, hfr.startline, hfr.startOff, ho1, hsl1, hso1]
  · show σ3.line = σ.line
    rw [hfr.line, hl1]

end Ckl.C14A
