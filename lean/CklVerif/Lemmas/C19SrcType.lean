import CklVerif.Lemmas.C19SrcNat

/-! C19Src — type.ckl: `is_int`, `is_decimal`, `is_numeric`, `is_list`, … (all of the shape `type(obj) == '<name>'`) -/
namespace Ckl.C19Src
open Ckl Ckl.C03 Ckl.Gen.LibSrc
variable (ld : Loader)

/-- `type(obj) == 'tn'` evaluated in a call frame that binds `obj` -/
theorem typeTest_body {s : State} {c m : EnvId} {v : RVal} {tn : List Char} {p1 p2 p3 p4 p5 p6 : Pos}
    (hf : CallFrame s c m [("obj", v)])
    (hty : ∃ i, Res s m "type" (.native "type" i)) (heq : ∃ i, Res s m "equals" (.native "equals" i)) :
    Ev ld 6 c (.call (.ident "equals" p1) [some "a", some "b"]
        [.call (.ident "type" p2) [none] [.ident "obj" p3] p4, .lit (.str tn) p5] p6) s
      (.ok (.bool ((typeName s v).toList == tn)) s) := by
  obtain ⟨i, hty⟩ := hty; obtain ⟨j, heq⟩ := heq
  have h1 : Ev ld 3 c (.call (.ident "type" p2) [none] [.ident "obj" p3] p4) s (.ok (.str (typeName s v).toList) s) :=
    Ev.callNative ld (k := 1) (lookup_global hf (by rfl) hty)
      (EvArgs.cons ld (by trivial) (Ev.ident ld (lookup_local hf (by rfl))) (EvArgs.nil ld))
      (by rfl) (setArgs_pos1 (addArgs_plain' _ (by decide))) (pure_type _ _ _)
  have h2 := Ev.callNative ld (k := 4) (p := p1) (pos := p6) (lookup_global hf (by rfl) heq)
    (EvArgs.cons ld (n := some "a") (by trivial) h1
      (EvArgs.cons ld (n := some "b") (by trivial) (Ev.litStr ld (p := p5) (t := tn)) (EvArgs.nil ld)))
    (by rfl) setArgs_ab (pure_equals _ _ _ _)
  simpa [rveq_str] using h2

/-- the built-ins the type tests use -/
def typeNats : List String := ["type", "equals"]

/-- `fn.execute(obj = v)` for a function whose definition is `def f(obj) type(obj) == 'tn'` -/
theorem typeTest_calls {src : Node} {tn : List Char} {p1 p2 p3 p4 p5 p6 : Pos}
    (hps : lamParams src = ["obj"]) (hds : lamDefaults src = [.absent])
    (hbody : lamBody src = .call (.ident "equals" p1) [some "a", some "b"]
        [.call (.ident "type" p2) [none] [.ident "obj" p3] p4, .lit (.str tn) p5] p6)
    {s : State} {M nats srcs fn m} (h : LibEnv s M nats srcs) (hn : ∀ x ∈ typeNats, x ∈ nats) (hm : M m)
    (hsrc : IsSrc s fn src m) (v : RVal) :
    ∃ s', Ext s s' ∧ ∀ env pos, Calls ld 7 fn [("obj", v)] env pos s (.ok (.bool ((typeName s v).toList == tn)) s') := by
  obtain ⟨a, nm, rfl, hcell⟩ := hsrc
  rw [hps, hds, hbody] at hcell
  have ctx := Ctx.callee1 h hm "obj" v
  refine ⟨_, calleeState_ext s m [("obj", v)] ["obj"], fun env pos => ?_⟩
  have hb := typeTest_body ld (tn := tn) (p1 := p1) (p2 := p2) (p3 := p3) (p4 := p4) (p5 := p5) (p6 := p6) ctx.fr
    (ctx.env.nat m hm "type" (hn _ (by decide))) (ctx.env.nat m hm "equals" (hn _ (by decide)))
  rw [typeName_heap (calleeState_heap ..)] at hb
  exact Calls.closure ld hcell rfl (by decide) (by intro p hp; simp at hp; subst hp; rfl) hb

theorem typeName_int (s : State) (v : RVal) : ((typeName s v).toList == ['i', 'n', 't']) = v.isInt := by
  cases v <;> try (simp only [typeName, RVal.isInt]; decide)
  simp only [typeName, RVal.isInt]; split <;> decide

theorem typeName_decimal (s : State) (v : RVal) :
    ((typeName s v).toList == ['d', 'e', 'c', 'i', 'm', 'a', 'l']) = v.isDecimal := by
  cases v <;> try (simp only [typeName, RVal.isDecimal]; decide)
  simp only [typeName, RVal.isDecimal]; split <;> decide

/-- the value is a reference to a list cell -/
def isListR (s : State) : RVal → Bool
  | .ref a => match s.cell a with
    | some (.list _) => true
    | _ => false
  | _ => false

theorem typeName_list (s : State) (v : RVal) : ((typeName s v).toList == ['l', 'i', 's', 't']) = isListR s v := by
  cases v <;> try (simp only [typeName, isListR]; decide)
  simp only [typeName, isListR]; split <;> first | decide | (simp_all; done)

theorem is_int_calls {s : State} {M nats srcs fn m} (h : LibEnv s M nats srcs) (hn : ∀ x ∈ typeNats, x ∈ nats) (hm : M m)
    (hsrc : IsSrc s fn type_is_int m) (v : RVal) :
    ∃ s', Ext s s' ∧ ∀ env pos, Calls ld 7 fn [("obj", v)] env pos s (.ok (.bool v.isInt) s') := by
  have := typeTest_calls ld (src := type_is_int) rfl rfl rfl h hn hm hsrc v
  rwa [typeName_int] at this

theorem is_decimal_calls {s : State} {M nats srcs fn m} (h : LibEnv s M nats srcs) (hn : ∀ x ∈ typeNats, x ∈ nats)
    (hm : M m) (hsrc : IsSrc s fn type_is_decimal m) (v : RVal) :
    ∃ s', Ext s s' ∧ ∀ env pos, Calls ld 7 fn [("obj", v)] env pos s (.ok (.bool v.isDecimal) s') := by
  have := typeTest_calls ld (src := type_is_decimal) rfl rfl rfl h hn hm hsrc v
  rwa [typeName_decimal] at this

theorem is_list_calls {s : State} {M nats srcs fn m} (h : LibEnv s M nats srcs) (hn : ∀ x ∈ typeNats, x ∈ nats)
    (hm : M m) (hsrc : IsSrc s fn type_is_list m) (v : RVal) :
    ∃ s', Ext s s' ∧ ∀ env pos, Calls ld 7 fn [("obj", v)] env pos s (.ok (.bool (isListR s v)) s') := by
  have := typeTest_calls ld (src := type_is_list) rfl rfl rfl h hn hm hsrc v
  rwa [typeName_list] at this

/-- `f(a)` where `f` resolves to a function value made from a one-parameter library definition, given what its
    `execute` does on the value of `a` -/
theorem Ev.callSrc1 {k env fname p a pos s x s1 fn src m q r}
    (hfn : s.lookup env fname = some fn) (hsrc : IsSrc s1 fn src m)
    (hps : lamParams src = [q]) (hq : ¬ ("...".toList <:+ q.toList))
    (hns : NotSpread a) (ha : Ev ld k env a s (.ok x s1))
    (hcall : Calls ld (k + 1) fn [(q, x)] env pos s1 r) :
    Ev ld (k + 3) env (.call (.ident fname p) [none] [a] pos) s (wrapCall fn pos r) := by
  obtain ⟨c, nm, rfl, hcell⟩ := hsrc
  rw [hps] at hcell
  exact Ev.callClosure ld (k := k + 1) hfn (EvArgs.cons ld hns ha (EvArgs.nil ld)) hcell
    (setArgs_pos1 (addArgs_plain' _ (by intro p hp; simp at hp; subst hp; exact hq))) hcall

/-- from the body to `fn.execute`, one parameter: if the body, evaluated in ANY state in which the callee frame is set up,
    gives `r s'`, then so does the call (with `return` unwrapped) -/
theorem calls_of_body1 {src : Node} {q : String} {body : Node} {k : Nat} {r : State → Out RVal}
    (hps : lamParams src = [q]) (hds : lamDefaults src = [.absent]) (hbody : lamBody src = body) (hk : 1 ≤ k)
    {s : State} {M nats srcs fn m} (h : LibEnv s M nats srcs) (hm : M m) (hsrc : IsSrc s fn src m)
    (v : RVal)
    (hb : ∀ s0, Ctx s0 M nats srcs s.frames.size m [(q, v)] → Ext s s0 →
      ∃ s', Ext s0 s' ∧ Ev ld k s.frames.size body s0 (r s')) :
    ∃ s', Ext s s' ∧ ∀ env pos, Calls ld (k + 1) fn [(q, v)] env pos s (postCall (r s')) := by
  obtain ⟨a, nm, rfl, hcell⟩ := hsrc
  rw [hps, hds, hbody] at hcell
  obtain ⟨s', e', hev⟩ := hb _ (Ctx.callee1 h hm q v) (calleeState_ext s m [(q, v)] [q])
  refine ⟨s', (calleeState_ext s m [(q, v)] [q]).trans e', fun env pos => ?_⟩
  exact Calls.closure ld hcell rfl hk (by intro p hp; simp at hp; subst hp; simp [dictGet]) hev

theorem calls_of_body2 {src : Node} {q1 q2 : String} {body : Node} {k : Nat} {r : State → Out RVal}
    (hps : lamParams src = [q1, q2]) (hds : lamDefaults src = [.absent, .absent]) (hbody : lamBody src = body)
    (hk : 2 ≤ k) (hne : q1 ≠ q2)
    {s : State} {M nats srcs fn m} (h : LibEnv s M nats srcs) (hm : M m) (hsrc : IsSrc s fn src m)
    (v1 v2 : RVal)
    (hb : ∀ s0, Ctx s0 M nats srcs s.frames.size m [(q1, v1), (q2, v2)] → Ext s s0 →
      ∃ s', Ext s0 s' ∧ Ev ld k s.frames.size body s0 (r s')) :
    ∃ s', Ext s s' ∧ ∀ env pos, Calls ld (k + 1) fn [(q1, v1), (q2, v2)] env pos s (postCall (r s')) := by
  obtain ⟨a, nm, rfl, hcell⟩ := hsrc
  rw [hps, hds, hbody] at hcell
  obtain ⟨s', e', hev⟩ := hb _ (Ctx.callee2 h hm q1 q2 v1 v2 hne) (calleeState_ext s m [(q1, v1), (q2, v2)] [q1, q2])
  refine ⟨s', (calleeState_ext s m _ _).trans e', fun env pos => ?_⟩
  have hqp : ¬ q2 = q1 := fun h => hne h.symm
  exact Calls.closure ld hcell rfl hk
    (by intro p hp; simp at hp; rcases hp with rfl | rfl <;> simp [dictGet, hqp]) hev

theorem Ev.congr {k env n s r r'} (h : Ev ld k env n s r) (hr : r = r') : Ev ld k env n s r' := hr ▸ h

/-- `f(a)`, `f` a pure built-in taking its first parameter positionally -/
theorem Ev.nat1 {k env fname p a pos s nm i q rest x s1 m r}
    (hfn : s.lookup env fname = some (.native nm i)) (hps : nativeArgNames nm = some (q :: rest))
    (hsp : ∀ p ∈ q :: rest, ¬ ("...".toList <:+ p.toList))
    (hns : NotSpread a) (ha : Ev ld k env a s (.ok x s1))
    (hpure : callPure nm [(q, x)] (div0Value s1 env) pos = some m) (hm : m s1 = r) :
    Ev ld (k + 3) env (.call (.ident fname p) [none] [a] pos) s (wrapCall (.native nm i) pos r) :=
  hm ▸ Ev.callNative ld (k := k + 1) hfn (EvArgs.cons ld hns ha (EvArgs.nil ld)) hps
    (setArgs_pos1 (addArgs_plain' _ hsp)) hpure

/-- `a OP b`: the parser's `f(a = x, b = y)` for a pure binary built-in -/
theorem Ev.natAB {k env fname p a b pos s nm i x s1 y s2 m r}
    (hfn : s.lookup env fname = some (.native nm i)) (hps : nativeArgNames nm = some ["a", "b"])
    (hna : NotSpread a) (hnb : NotSpread b)
    (ha : Ev ld k env a s (.ok x s1)) (hb : Ev ld k env b s1 (.ok y s2))
    (hpure : callPure nm [("a", x), ("b", y)] (div0Value s2 env) pos = some m) (hm : m s2 = r) :
    Ev ld (k + 4) env (.call (.ident fname p) [some "a", some "b"] [a, b] pos) s (wrapCall (.native nm i) pos r) :=
  hm ▸ Ev.callNative ld (k := k + 2) hfn
    (EvArgs.cons ld hna (Ev.mono ld ha (Nat.le_succ k)) (EvArgs.cons ld hnb hb (EvArgs.nil ld))) hps setArgs_ab hpure

/-- what `is_numeric` needs besides the built-ins -/
def numericSrcs : List (String × Node) := [("is_int", type_is_int), ("is_decimal", type_is_decimal)]

/-- `is_int(obj) or is_decimal(obj)` in a call frame binding `obj` -/
theorem numeric_body {s : State} {M nats srcs c m} {v : RVal} {p1 p2 p3 p4 p5 p6 p7 : Pos}
    (ctx : Ctx s M nats srcs c m [("obj", v)]) (hn : ∀ x ∈ typeNats, x ∈ nats) (hs : ∀ p ∈ numericSrcs, p ∈ srcs) :
    ∃ s', Ext s s' ∧ Ev ld 12 c (.or [.call (.ident "is_int" p1) [none] [.ident "obj" p2] p3,
        .call (.ident "is_decimal" p4) [none] [.ident "obj" p5] p6] p7) s (.ok (.bool v.isNumerical) s') := by
  obtain ⟨f1, m1, hl1, hm1, hsrc1⟩ := ctx.src (x := "is_int") (src := type_is_int) (hs _ (by simp [numericSrcs])) (by rfl)
  obtain ⟨s1, e1, c1⟩ := is_int_calls ld ctx.env hn hm1 hsrc1 v
  have E1 := Ev.callSrc1 ld (k := 6) (p := p1) hl1 hsrc1 rfl (by decide) (by trivial)
    (Ev.ident ld (p := p2) (ctx.var (x := "obj") (by rfl))) (c1 c p3)
  rw [wrapCall_ok] at E1
  cases hi : v.isInt with
  | true =>
    rw [hi] at E1
    refine ⟨s1, e1, ?_⟩
    have hb := Ev.or_true ld (es := [.call (.ident "is_decimal" p4) [none] [.ident "obj" p5] p6]) (p := p7) E1
    simpa [RVal.isNumerical, hi] using Ev.mono ld (k' := 12) hb (by decide)
  | false =>
    rw [hi] at E1
    have ctx1 := ctx.ext e1
    obtain ⟨f2, m2, hl2, hm2, hsrc2⟩ := ctx1.src (x := "is_decimal") (src := type_is_decimal) (hs _ (by simp [numericSrcs])) (by rfl)
    obtain ⟨s2, e2, c2⟩ := is_decimal_calls ld ctx1.env hn hm2 hsrc2 v
    have E2 := Ev.callSrc1 ld (k := 6) (p := p4) hl2 hsrc2 rfl (by decide) (by trivial)
      (Ev.ident ld (p := p5) (ctx1.var (x := "obj") (by rfl))) (c2 c p6)
    rw [wrapCall_ok] at E2
    refine ⟨s2, e1.trans e2, ?_⟩
    have hb := Ev.or_false2 ld (p := p7) E1 E2
    simpa [RVal.isNumerical, hi] using hb

theorem is_numeric_calls {s : State} {M nats srcs fn m} (h : LibEnv s M nats srcs) (hn : ∀ x ∈ typeNats, x ∈ nats)
    (hs : ∀ p ∈ numericSrcs, p ∈ srcs) (hm : M m)
    (hsrc : IsSrc s fn type_is_numeric m) (v : RVal) :
    ∃ s', Ext s s' ∧ ∀ env pos, Calls ld 13 fn [("obj", v)] env pos s (.ok (.bool v.isNumerical) s') :=
  calls_of_body1 ld (src := type_is_numeric) (r := fun s' => .ok (.bool v.isNumerical) s') rfl rfl rfl (by decide)
    h hm hsrc v (fun s0 ctx _ => numeric_body ld ctx hn hs)

end Ckl.C19Src
