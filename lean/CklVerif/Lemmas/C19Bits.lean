/-
  C19 — the 32-bit functions: Python `& | ^ ~ << >>` on unbounded ints against `BitVec 32`.
-/
import CklVerif.Model.Lib
namespace Ckl.C19
open Ckl Ckl.Lib

theorem pyAnd_natCast (m n : Nat) : pyAnd (m : Int) (n : Int) = ((m &&& n : Nat) : Int) := rfl
theorem pyOr_natCast (m n : Nat) : pyOr (m : Int) (n : Int) = ((m ||| n : Nat) : Int) := rfl
theorem pyXor_natCast (m n : Nat) : pyXor (m : Int) (n : Int) = ((m ^^^ n : Nat) : Int) := rfl
theorem pyShl_natCast (m s : Nat) : pyShl (m : Int) s = ((m <<< s : Nat) : Int) := rfl
theorem pyShr_natCast (m s : Nat) : pyShr (m : Int) s = ((m >>> s : Nat) : Int) := rfl

theorem testBit_natAndNot (m n i : Nat) :
    (natAndNot m n).testBit i = (m.testBit i && !n.testBit i) := by
  unfold natAndNot
  rw [Nat.testBit_bitwise (by rfl)]

theorem natAndNot_mask (m : Nat) : natAndNot (2 ^ 32 - 1) m = 2 ^ 32 - (m % 2 ^ 32 + 1) := by
  apply Nat.eq_of_testBit_eq
  intro i
  rw [testBit_natAndNot, Nat.testBit_two_pow_sub_one,
    Nat.testBit_two_pow_sub_succ (Nat.mod_lt _ (by decide)), Nat.testBit_mod_two_pow]
  by_cases h : i < 32 <;> simp [h]

/-- `a & 0xFFFFFFFF` is the residue of `a` modulo `2^32` (also for negative `a`) -/
theorem pyAnd_mask32 (a : Int) : pyAnd a mask32 = a % 2 ^ 32 := by
  cases a with
  | ofNat m =>
    show pyAnd (m : Int) ((4294967295 : Nat) : Int) = _
    rw [pyAnd_natCast]
    have : m &&& 4294967295 = m % 2 ^ 32 := Nat.and_two_pow_sub_one_eq_mod m 32
    rw [this]
    rfl
  | negSucc m =>
    show Int.ofNat (natAndNot (2 ^ 32 - 1) m) = _
    rw [natAndNot_mask, Int.negSucc_emod m (by decide)]
    have := Nat.mod_lt m (by decide : 2 ^ 32 > 0)
    simp only [Int.ofNat_eq_natCast]
    omega

theorem bitAnd_eq_bitvec {a b : Int} (ha : 0 ≤ a) (ha' : a < 2 ^ 32) (hb : 0 ≤ b) (hb' : b < 2 ^ 32) :
    bitAnd a b = ((BitVec.ofNat 32 a.toNat &&& BitVec.ofNat 32 b.toNat).toNat : Int) := by
  obtain ⟨m, rfl⟩ := Int.eq_ofNat_of_zero_le ha
  obtain ⟨n, rfl⟩ := Int.eq_ofNat_of_zero_le hb
  have hm : m < 2 ^ 32 := by omega
  have hn : n < 2 ^ 32 := by omega
  simp only [bitAnd, pyAnd_natCast, Int.toNat_natCast, BitVec.toNat_and, BitVec.toNat_ofNat,
    Nat.mod_eq_of_lt hm, Nat.mod_eq_of_lt hn]

theorem bitOr_eq_bitvec {a b : Int} (ha : 0 ≤ a) (ha' : a < 2 ^ 32) (hb : 0 ≤ b) (hb' : b < 2 ^ 32) :
    bitOr a b = ((BitVec.ofNat 32 a.toNat ||| BitVec.ofNat 32 b.toNat).toNat : Int) := by
  obtain ⟨m, rfl⟩ := Int.eq_ofNat_of_zero_le ha
  obtain ⟨n, rfl⟩ := Int.eq_ofNat_of_zero_le hb
  have hm : m < 2 ^ 32 := by omega
  have hn : n < 2 ^ 32 := by omega
  simp only [bitOr, pyOr_natCast, Int.toNat_natCast, BitVec.toNat_or, BitVec.toNat_ofNat,
    Nat.mod_eq_of_lt hm, Nat.mod_eq_of_lt hn]

theorem bitXor_eq_bitvec {a b : Int} (ha : 0 ≤ a) (ha' : a < 2 ^ 32) (hb : 0 ≤ b) (hb' : b < 2 ^ 32) :
    bitXor a b = ((BitVec.ofNat 32 a.toNat ^^^ BitVec.ofNat 32 b.toNat).toNat : Int) := by
  obtain ⟨m, rfl⟩ := Int.eq_ofNat_of_zero_le ha
  obtain ⟨n, rfl⟩ := Int.eq_ofNat_of_zero_le hb
  have hm : m < 2 ^ 32 := by omega
  have hn : n < 2 ^ 32 := by omega
  simp only [bitXor, pyXor_natCast, Int.toNat_natCast, BitVec.toNat_xor, BitVec.toNat_ofNat,
    Nat.mod_eq_of_lt hm, Nat.mod_eq_of_lt hn]

theorem not_eq (a : Int) : ~~~a = -a - 1 := by
  cases a with
  | ofNat m => show Int.negSucc m = _; rw [Int.negSucc_eq]; simp only [Int.ofNat_eq_natCast]; omega
  | negSucc m => show Int.ofNat m = _; rw [Int.negSucc_eq]; simp only [Int.ofNat_eq_natCast]; omega

/-- `bit_not(a)` literally: `-a - 1`, plus `2^32` when that is negative -/
theorem bitNot_def (a : Int) : bitNot a = if 0 ≤ a then 2 ^ 32 - 1 - a else -a - 1 := by
  unfold bitNot
  simp only [not_eq]
  split <;> split <;> omega

theorem bitNot_eq {a : Int} (ha : 0 ≤ a) (_ha' : a < 2 ^ 32) : bitNot a = 2 ^ 32 - 1 - a := by
  rw [bitNot_def, if_pos ha]

theorem bitNot_eq_bitvec {a : Int} (ha : 0 ≤ a) (ha' : a < 2 ^ 32) :
    bitNot a = ((~~~ BitVec.ofNat 32 a.toNat).toNat : Int) := by
  rw [bitNot_eq ha ha']
  obtain ⟨m, rfl⟩ := Int.eq_ofNat_of_zero_le ha
  have hm : m < 2 ^ 32 := by omega
  simp only [Int.toNat_natCast, BitVec.toNat_not, BitVec.toNat_ofNat, Nat.mod_eq_of_lt hm]
  omega

/-! ### rotations -/

theorem fmod32 (n : Int) : Int.fmod n 32 = n % 32 := Int.fmod_eq_emod_of_nonneg n (by decide)

theorem rotl_eq_nat (k : Nat) (n : Int) :
    rotl k n = (((k % 2 ^ 32) <<< (n % 32).toNat ||| (k % 2 ^ 32) >>> (32 - (n % 32).toNat)) % 2 ^ 32 : Nat) := by
  have h1 := Int.emod_nonneg n (by decide : (32 : Int) ≠ 0)
  have h2 := Int.emod_lt_of_pos n (by decide : (0 : Int) < 32)
  unfold rotl
  simp only [pyAnd_mask32, fmod32]
  have e1 : ((k : Int) % 2 ^ 32) = ((k % 2 ^ 32 : Nat) : Int) := by norm_cast
  have e2 : (32 - n % 32).toNat = 32 - (n % 32).toNat := by omega
  rw [e1, e2, pyShl_natCast, pyShr_natCast, pyOr_natCast]
  norm_cast

theorem rotr_eq_nat (k : Nat) (n : Int) :
    rotr k n = (((k % 2 ^ 32) >>> (n % 32).toNat ||| (k % 2 ^ 32) <<< (32 - (n % 32).toNat)) % 2 ^ 32 : Nat) := by
  have h1 := Int.emod_nonneg n (by decide : (32 : Int) ≠ 0)
  have h2 := Int.emod_lt_of_pos n (by decide : (0 : Int) < 32)
  unfold rotr
  simp only [pyAnd_mask32, fmod32]
  have e1 : ((k : Int) % 2 ^ 32) = ((k % 2 ^ 32 : Nat) : Int) := by norm_cast
  have e2 : (32 - n % 32).toNat = 32 - (n % 32).toNat := by omega
  rw [e1, e2, pyShl_natCast, pyShr_natCast, pyOr_natCast]
  norm_cast

/-- masking first: the rotations only see `a mod 2^32` -/
theorem rotl_mask (a n : Int) : rotl a n = rotl (a % 2 ^ 32) n := by
  unfold rotl
  simp only [pyAnd_mask32, Int.emod_emod_of_dvd a (Int.dvd_refl _)]

theorem rotr_mask (a n : Int) : rotr a n = rotr (a % 2 ^ 32) n := by
  unfold rotr
  simp only [pyAnd_mask32, Int.emod_emod_of_dvd a (Int.dvd_refl _)]

theorem shiftRight_lt {k t : Nat} (hk : k < 2 ^ 32) : k >>> t < 2 ^ 32 :=
  Nat.lt_of_le_of_lt (Nat.shiftRight_le k t) hk

/-- `bit_rotate_left(a, n)` for EVERY int `a` and EVERY int `n`: the `BitVec 32` rotation of the
    low 32 bits of `a` by `n mod 32` (the non-negative residue, as Python's `%`) -/
theorem rotl_eq_bitvec (a n : Int) :
    rotl a n = (((BitVec.ofNat 32 (a % 2 ^ 32).toNat).rotateLeft (n % 32).toNat).toNat : Int) := by
  have ha := Int.emod_nonneg a (by decide : (2 ^ 32 : Int) ≠ 0)
  have ha' := Int.emod_lt_of_pos a (by decide : (0 : Int) < 2 ^ 32)
  have h1 := Int.emod_nonneg n (by decide : (32 : Int) ≠ 0)
  have h2 := Int.emod_lt_of_pos n (by decide : (0 : Int) < 32)
  rw [rotl_mask]
  obtain ⟨k, hk⟩ := Int.eq_ofNat_of_zero_le ha
  rw [hk] at ha' ⊢
  have hk' : k < 2 ^ 32 := by omega
  have hs : (n % 32).toNat < 32 := by omega
  rw [rotl_eq_nat]
  simp only [Int.toNat_natCast, BitVec.toNat_rotateLeft, BitVec.toNat_ofNat, Nat.mod_eq_of_lt hk',
    Nat.mod_eq_of_lt hs, Nat.or_mod_two_pow, Nat.mod_eq_of_lt (shiftRight_lt (t := 32 - (n % 32).toNat) hk')]

theorem rotr_eq_bitvec (a n : Int) :
    rotr a n = (((BitVec.ofNat 32 (a % 2 ^ 32).toNat).rotateRight (n % 32).toNat).toNat : Int) := by
  have ha := Int.emod_nonneg a (by decide : (2 ^ 32 : Int) ≠ 0)
  have ha' := Int.emod_lt_of_pos a (by decide : (0 : Int) < 2 ^ 32)
  have h1 := Int.emod_nonneg n (by decide : (32 : Int) ≠ 0)
  have h2 := Int.emod_lt_of_pos n (by decide : (0 : Int) < 32)
  rw [rotr_mask]
  obtain ⟨k, hk⟩ := Int.eq_ofNat_of_zero_le ha
  rw [hk] at ha' ⊢
  have hk' : k < 2 ^ 32 := by omega
  have hs : (n % 32).toNat < 32 := by omega
  rw [rotr_eq_nat]
  simp only [Int.toNat_natCast, BitVec.toNat_rotateRight, BitVec.toNat_ofNat, Nat.mod_eq_of_lt hk',
    Nat.mod_eq_of_lt hs, Nat.or_mod_two_pow, Nat.mod_eq_of_lt (shiftRight_lt (t := (n % 32).toNat) hk')]

/-! ### shifts -/

theorem shl_eq (a : Int) (n : Nat) : shl a n = some (a * 2 ^ n) := by
  simp [shl, pyShl, Int.shiftLeft_eq]

theorem shr_eq (a : Int) (n : Nat) : shr a n = some (a / 2 ^ n) := by
  simp [shr, pyShr, Int.shiftRight_eq_div_pow]

theorem shl_neg (a : Int) {n : Int} (h : n < 0) : shl a n = none := by simp [shl, h]
theorem shr_neg (a : Int) {n : Int} (h : n < 0) : shr a n = none := by simp [shr, h]

end Ckl.C19
