import CklVerif.Proofs.C14Parens
/-! axiom audit of the C14Parens family (redundant parentheses, optional semicolons) -/
open Ckl.C14X
#print axioms production_extends
#print axioms parse_expr_extends
#print axioms parse_or_extends
#print axioms parse_statement_extends
#print axioms parse_block_extends
#print axioms parens_primary
#print axioms parens_primary_stop
#print axioms parens_primary_call
#print axioms parens_primary_of_expr
#print axioms paren_at_levels
#print axioms paren_expr_stop
#print axioms paren_expr_end
#print axioms paren_cond_stop
#print axioms paren_statement_stop
#print axioms paren_nest
#print axioms parse_expr_script
#print axioms parse_redundant_parens_general
#print axioms parse_parens_outcome
#print axioms interpret_parens_irrelevant
#print axioms trailing_semi_general
#print axioms bare_block_trailing_semi
#print axioms parseScript_trailing_semi_general
#print axioms interpret_trailing_semi_irrelevant
#print axioms suf_all
#print axioms pStatement_suffix
