/-
  C09 at the level of the evaluator model: the vocabulary.

  `Clean E v`     : the value `v` is not (and does not wrap) a native whose name is in `E`.
  `Cl.cl E x`     : the same, lifted to every type the evaluator passes around
                    (lists, options, pairs, arrays, heap cells).
  `Inv E b s`     : the state has `secure = b`, and every frame variable and every heap cell is clean.
  `PresA E b m m'`: started in any state satisfying `Inv E b`, the programs `m` and `m'` produce the
                    SAME outcome, the final state satisfies `Inv E b`, and the returned value (or the
                    error value) is clean.  (`m' = m` gives plain preservation.)
-/
import CklVerif.Lemmas.C09EvalAttr
import CklVerif.Lemmas.C05Tr
import CklVerif.Lemmas.C12Sort
namespace Ckl.C09E
open Ckl

/-! ### clean values -/

/-- `v` is not a native with a name in `E` (control values are looked through) -/
def Clean (E : List String) : RVal → Prop
  | .native nm _ => nm ∉ E
  | .ret v _ => Clean E v
  | _ => True

class Cl (α : Type) where
  cl : List String → α → Prop

instance : Cl RVal := ⟨Clean⟩
instance : Cl Unit := ⟨fun _ _ => True⟩
instance : Cl Bool := ⟨fun _ _ => True⟩
instance : Cl Int := ⟨fun _ _ => True⟩
instance : Cl Nat := ⟨fun _ _ => True⟩
instance : Cl String := ⟨fun _ _ => True⟩
instance : Cl Char := ⟨fun _ _ => True⟩
/-- (not reducible, so that `apply` does not look through the quantifier) -/
def clList {α} [Cl α] (E : List String) (l : List α) : Prop := ∀ x ∈ l, Cl.cl E x
def clArray {α} [Cl α] (E : List String) (l : Array α) : Prop := ∀ x ∈ l.toList, Cl.cl E x
def clOption {α} [Cl α] (E : List String) (o : Option α) : Prop := ∀ x, o = some x → Cl.cl E x
def clProd {α β} [Cl α] [Cl β] (E : List String) (p : α × β) : Prop := Cl.cl E p.1 ∧ Cl.cl E p.2
instance {α} [Cl α] : Cl (List α) := ⟨clList⟩
instance {α} [Cl α] : Cl (Array α) := ⟨clArray⟩
instance {α} [Cl α] : Cl (Option α) := ⟨clOption⟩
instance {α β} [Cl α] [Cl β] : Cl (α × β) := ⟨clProd⟩

/-- the values stored in a heap cell are clean (closures store an environment id and syntax only) -/
def CellClean (E : List String) : Cell → Prop
  | .list xs => Cl.cl E xs
  | .set xs => Cl.cl E xs
  | .map kvs => Cl.cl E kvs
  | .obj kvs _ => Cl.cl E kvs
  | .closure _ _ _ _ _ => True

instance : Cl Cell := ⟨CellClean⟩

section simp
variable {E : List String}

theorem cl_rval (v : RVal) : Cl.cl E v = Clean E v := rfl
@[clsimp] theorem clean_null : Cl.cl E RVal.null = True := rfl
@[clsimp] theorem clean_bool (b) : Cl.cl E (RVal.bool b) = True := rfl
@[clsimp] theorem clean_boolV (b) : Cl.cl E (boolV b) = True := rfl
@[clsimp] theorem clean_int (n) : Cl.cl E (RVal.int n) = True := rfl
@[clsimp] theorem clean_dec (m e) : Cl.cl E (RVal.dec m e) = True := rfl
@[clsimp] theorem clean_str (s) : Cl.cl E (RVal.str s) = True := rfl
@[clsimp] theorem clean_pat (s) : Cl.cl E (RVal.pat s) = True := rfl
@[clsimp] theorem clean_date (d) : Cl.cl E (RVal.date d) = True := rfl
@[clsimp] theorem clean_ref (a) : Cl.cl E (RVal.ref a) = True := rfl
@[clsimp] theorem clean_closure (a) : Cl.cl E (RVal.closure a) = True := rfl
@[clsimp] theorem clean_node (n) : Cl.cl E (RVal.node n) = True := rfl
@[clsimp] theorem clean_brk (p) : Cl.cl E (RVal.brk p) = True := rfl
@[clsimp] theorem clean_cont (p) : Cl.cl E (RVal.cont p) = True := rfl
@[clsimp] theorem clean_ret (v p) : Cl.cl E (RVal.ret v p) = Cl.cl E v := rfl
@[clsimp] theorem clean_native (n i) : Cl.cl E (RVal.native n i) = (n ∉ E) := rfl

@[clsimp] theorem cl_unit (x : Unit) : Cl.cl E x = True := rfl
@[clsimp] theorem cl_bool (x : Bool) : Cl.cl E x = True := rfl
@[clsimp] theorem cl_int (x : Int) : Cl.cl E x = True := rfl
@[clsimp] theorem cl_nat (x : Nat) : Cl.cl E x = True := rfl
@[clsimp] theorem cl_string (x : String) : Cl.cl E x = True := rfl
@[clsimp] theorem cl_char (x : Char) : Cl.cl E x = True := rfl

theorem cl_list_iff {α} [Cl α] (l : List α) : Cl.cl E l ↔ ∀ x ∈ l, Cl.cl E x := Iff.rfl
theorem cl_array_iff {α} [Cl α] (l : Array α) : Cl.cl E l ↔ Cl.cl E l.toList := Iff.rfl
theorem cl_option_iff {α} [Cl α] (o : Option α) : Cl.cl E o ↔ ∀ x, o = some x → Cl.cl E x := Iff.rfl
theorem cl_prod_iff {α β} [Cl α] [Cl β] (p : α × β) : Cl.cl E p ↔ Cl.cl E p.1 ∧ Cl.cl E p.2 := Iff.rfl
@[clsimp] theorem cl_pair {α β} [Cl α] [Cl β] (a : α) (b : β) :
    Cl.cl E (a, b) = (Cl.cl E a ∧ Cl.cl E b) := rfl
@[clsimp] theorem cl_toArray {α} [Cl α] (l : List α) : Cl.cl E l.toArray = Cl.cl E l := rfl
@[clsimp] theorem cl_toList {α} [Cl α] (l : Array α) : Cl.cl E l.toList = Cl.cl E l := rfl
attribute [irreducible] clList clArray clOption

@[clsimp] theorem cl_nil {α} [Cl α] : Cl.cl E ([] : List α) = True := by
  apply propext; rw [cl_list_iff]; simp
@[clsimp] theorem cl_cons {α} [Cl α] (x : α) (xs : List α) :
    Cl.cl E (x :: xs) = (Cl.cl E x ∧ Cl.cl E xs) := by
  apply propext; simp only [cl_list_iff, List.mem_cons]
  constructor
  · intro h; exact ⟨h x (Or.inl rfl), fun y hy => h y (Or.inr hy)⟩
  · rintro ⟨h1, h2⟩ y (rfl | hy); exact h1; exact h2 y hy
@[clsimp] theorem cl_append {α} [Cl α] (xs ys : List α) :
    Cl.cl E (xs ++ ys) = (Cl.cl E xs ∧ Cl.cl E ys) := by
  apply propext; simp only [cl_list_iff, List.mem_append]
  constructor
  · intro h; exact ⟨fun y hy => h y (Or.inl hy), fun y hy => h y (Or.inr hy)⟩
  · rintro ⟨h1, h2⟩ y (hy | hy); exact h1 y hy; exact h2 y hy
@[clsimp] theorem cl_chars (cs : List Char) : Cl.cl E cs = True := by
  apply propext; simp only [cl_list_iff, iff_true]; intro _ _; trivial
@[clsimp] theorem cl_strings (cs : List String) : Cl.cl E cs = True := by
  apply propext; simp only [cl_list_iff, iff_true]; intro _ _; trivial
@[clsimp] theorem cl_optStrings (cs : List (Option String)) : Cl.cl E cs = True := by
  apply propext; simp only [cl_list_iff, cl_option_iff, iff_true]; intro _ _ _ _; trivial
@[clsimp] theorem cl_optString (o : Option String) : Cl.cl E o = True := by
  apply propext; simp only [cl_option_iff, iff_true]; intro _ _; trivial
@[clsimp] theorem cl_none {α} [Cl α] : Cl.cl E (none : Option α) = True := by
  apply propext; simp only [iff_true, cl_option_iff]; intro x h; cases h
@[clsimp] theorem cl_some {α} [Cl α] (x : α) : Cl.cl E (some x) = Cl.cl E x := by
  apply propext; rw [cl_option_iff]; constructor
  · intro h; exact h x rfl
  · intro h y e; cases e; exact h
@[clsimp] theorem cl_cell_list (xs) : Cl.cl E (Cell.list xs) = Cl.cl E xs := rfl
@[clsimp] theorem cl_cell_set (xs) : Cl.cl E (Cell.set xs) = Cl.cl E xs := rfl
@[clsimp] theorem cl_cell_map (xs) : Cl.cl E (Cell.map xs) = Cl.cl E xs := rfl
@[clsimp] theorem cl_cell_obj (xs m) : Cl.cl E (Cell.obj xs m) = Cl.cl E xs := rfl
@[clsimp] theorem cl_cell_closure (a b c d e) : Cl.cl E (Cell.closure a b c d e) = True := rfl

theorem cl_fst {α β} [Cl α] [Cl β] {p : α × β} (h : Cl.cl E p) : Cl.cl E p.1 := ((cl_prod_iff p).mp h).1
theorem cl_snd {α β} [Cl α] [Cl β] {p : α × β} (h : Cl.cl E p) : Cl.cl E p.2 := ((cl_prod_iff p).mp h).2
theorem cl_of_mem {α} [Cl α] {l : List α} {x : α} (hx : x ∈ l) (h : Cl.cl E l) : Cl.cl E x :=
  (cl_list_iff l).mp h x hx
theorem cl_of_some {α} [Cl α] {o : Option α} {x : α} (hx : o = some x) (h : Cl.cl E o) : Cl.cl E x :=
  (cl_option_iff o).mp h x hx

theorem cl_of_subset {α} [Cl α] {l l' : List α} (hs : ∀ x ∈ l', x ∈ l) (h : Cl.cl E l) : Cl.cl E l' :=
  (cl_list_iff _).mpr fun x hx => (cl_list_iff _).mp h x (hs x hx)

theorem cl_nil' {α} [Cl α] : Cl.cl E ([] : List α) := cl_nil.mpr trivial
theorem cl_none' {α} [Cl α] : Cl.cl E (none : Option α) := cl_none.mpr trivial

/-- with no name to avoid, every value is clean -/
theorem clean_nil_all (v : RVal) : Clean [] v := by
  induction v with
  | native n i => simp [Clean]
  | ret v p ih => exact ih
  | _ => trivial

end simp

end Ckl.C09E
