import CklVerif.Lemmas.C14EvalStep7

/-! C14 (evaluator part) — the induction on the fuel -/
namespace Ckl.C14E
open Ckl
set_option linter.unusedVariables false

variable {ld : Loader} {fuel : Nat}

theorem eval_step1 (ih : SAll ld fuel) (env : EnvId) (n : Node) :
    Resp (eval ld (fuel + 1) env n) (eval ld (fuel + 1) env (ers n)) := by
  cases n with
  | absent => exact eval_absent_step1 ih env
  | catchAll => exact eval_catchAll_step1 ih env
  | null => exact eval_null_step1 ih env
  | lit => exact eval_lit_step1 ih env
  | ident => exact eval_ident_step1 ih env
  | and => exact eval_and_step1 ih env
  | or => exact eval_or_step1 ih env
  | not => exact eval_not_step1 ih env
  | assign => exact eval_assign_step1 ih env
  | assignD => exact eval_assignD_step1 ih env
  | block => exact eval_block_step1 ih env
  | brk => exact eval_brk_step1 ih env
  | cont => exact eval_cont_step1 ih env
  | cls => exact eval_cls_step1 ih env
  | defn => exact eval_defn_step1 ih env
  | defD => exact eval_defD_step1 ih env
  | deref => exact eval_deref_step1 ih env
  | derefAssign => exact eval_derefAssign_step1 ih env
  | derefInvoke => exact eval_derefInvoke_step1 ih env
  | slice => exact eval_slice_step1 ih env
  | error => exact eval_error_step1 ih env
  | «for» => exact eval_for_step1 ih env
  | call => exact eval_call_step1 ih env
  | ite => exact eval_ite_step1 ih env
  | isIn => exact eval_isIn_step1 ih env
  | lambda => exact eval_lambda_step1 ih env
  | list => exact eval_list_step1 ih env
  | compr => exact eval_compr_step1 ih env
  | map => exact eval_map_step1 ih env
  | object => exact eval_object_step1 ih env
  | require => exact eval_require_step1 ih env
  | ret => exact eval_ret_step1 ih env
  | set => exact eval_set_step1 ih env
  | spread => exact eval_spread_step1 ih env
  | «while» => exact eval_while_step1 ih env

theorem sAll_succ (hn : NativeSim ld) (ih : SAll ld fuel) : SAll ld (fuel + 1) where
  eval := fun env n n' h => (eval_step1 ih env n).trans (h ▸ (eval_step1 ih env n').symm)
  evalAnd := fun env es es' p p' h => (evalAnd_step1 ih env es p p').trans (h ▸ (evalAnd_step1 ih env es' p' p').symm)
  evalOr := fun env es es' p p' h => (evalOr_step1 ih env es p p').trans (h ▸ (evalOr_step1 ih env es' p' p').symm)
  evalIf := fun env cs cs' xs xs' el el' p p' h1 h2 h3 =>
    (evalIf_step1 ih env cs xs el p p').trans (h1 ▸ h2 ▸ h3 ▸ (evalIf_step1 ih env cs' xs' el' p' p').symm)
  evalSeq := fun env ns ns' h => (evalSeq_step1 ih env ns).trans (h ▸ (evalSeq_step1 ih env ns').symm)
  evalItems := fun env ns ns' p p' h =>
    (evalItems_step1 ih env ns p p').trans (h ▸ (evalItems_step1 ih env ns' p' p').symm)
  evalPairs := fun env ks ks' vs vs' h1 h2 =>
    (evalPairs_step1 ih env ks vs).trans (h1 ▸ h2 ▸ (evalPairs_step1 ih env ks' vs').symm)
  evalBody := fun env ns ns' l l' h1 h2 =>
    (evalBody_step1 ih env ns h2).trans (h1 ▸ (evalBody_step1 ih env ns' (rfl : ers l' = ers l')).symm)
  evalFinally := fun env ns ns' h => (evalFinally_step1 ih env ns).trans (h ▸ (evalFinally_step1 ih env ns').symm)
  tryHandlers := by
    intro env cs cs' hs hs' v v' msg p p' t t' h1 h2 h3 h4
    exact (tryHandlers_step1 ih env cs hs msg h3 h4).trans
      (h1 ▸ h2 ▸ (tryHandlers_step1 ih env cs' hs' msg (rfl : ers v' = ers v') (p := p') (p' := p') (t := t') (t' := t') rfl).symm)
  invoke := by
    intro fn fn' pre pre' names args args' env p p' h1 h2 h3
    exact (invoke_step1 ih names args env h1 h2).trans
      (h3 ▸ (invoke_step1 ih names args' env (rfl : ers fn' = ers fn') (rfl : ers pre' = ers pre') (p := p') (p' := p')).symm)
  evalArgs := fun env names args args' p p' h =>
    (evalArgs_step1 ih env names args p p').trans (h ▸ (evalArgs_step1 ih env names args' p' p').symm)
  callFn := by intro fn fn' b b' env p p' h1 h2; exact callFn_step1 hn ih env h1 h2
  bindParams := fun lenv ps ds ds' b b' p p' h1 h2 =>
    (bindParams_step1 ih lenv ps ds h2).trans
      (h1 ▸ (bindParams_step1 ih lenv ps ds' (rfl : ers b' = ers b') (p := p') (p' := p')).symm)
  evalFor := fun env ids e e' body body' what p p' h1 h2 =>
    (evalFor_step1 ih env ids e body what p p').trans (h1 ▸ h2 ▸ (evalFor_step1 ih env ids e' body' what p' p').symm)
  forItems := fun env ids xs xs' body body' r r' p p' h1 h2 h3 =>
    (forItems_step1 ih env ids body h1 h3).trans
      (h2 ▸ (forItems_step1 ih env ids body' (rfl : ers xs' = ers xs') (rfl : ers r' = ers r') (p := p') (p' := p')).symm)
  forListLive := fun env ids a i body body' r r' p p' h1 h2 =>
    (forListLive_step1 ih env ids a i body h2).trans
      (h1 ▸ (forListLive_step1 ih env ids a i body' (rfl : ers r' = ers r') (p := p') (p' := p')).symm)
  forString := fun env x cs body body' r r' h1 h2 =>
    (forString_step1 ih env x cs body h2).trans (h1 ▸ (forString_step1 ih env x cs body' (rfl : ers r' = ers r')).symm)
  whileLoop := fun env c c' body body' p p' h1 h2 =>
    (whileLoop_step1 ih env c body p p').trans (h1 ▸ h2 ▸ (whileLoop_step1 ih env c' body' p' p').symm)
  comprStep := fun lenv kind ve ve' ke ke' cond cond' p p' h1 h2 h3 =>
    (comprStep_step1 ih lenv kind ve ke cond p p').trans
      (h1 ▸ h2 ▸ h3 ▸ (comprStep_step1 ih lenv kind ve' ke' cond' p' p').symm)
  comprLoop := fun lenv kind ve ve' ke ke' cond cond' p p' l l' acc acc' h1 h2 h3 h4 h5 =>
    (comprLoop_step1 ih lenv kind ve ke cond p p' h4 h5).trans
      (h1 ▸ h2 ▸ h3 ▸ (comprLoop_step1 ih lenv kind ve' ke' cond' p' p' (rfl : ers l' = ers l')
        (rfl : ers acc' = ers acc')).symm)
  comprProduct := fun lenv kind ve ve' ke ke' cond cond' p p' x1 vs vs' x2 ws ws' acc acc' h1 h2 h3 h4 h5 h6 =>
    (comprProduct_step1 ih lenv kind ve ke cond p p' x1 x2 h4 h5 h6).trans
      (h1 ▸ h2 ▸ h3 ▸ (comprProduct_step1 ih lenv kind ve' ke' cond' p' p' x1 x2 (rfl : ers vs' = ers vs')
        (rfl : ers ws' = ers ws') (rfl : ers acc' = ers acc')).symm)
  comprParallel := fun lenv kind ve ve' ke ke' cond cond' p p' x1 vs vs' x2 ws ws' acc acc' h1 h2 h3 h4 h5 h6 =>
    (comprParallel_step1 ih lenv kind ve ke cond p p' x1 x2 h4 h5 h6).trans
      (h1 ▸ h2 ▸ h3 ▸ (comprParallel_step1 ih lenv kind ve' ke' cond' p' p' x1 x2 (rfl : ers vs' = ers vs')
        (rfl : ers ws' = ers ws') (rfl : ers acc' = ers acc')).symm)
  nativeSorted := by intro b b' env p p' h; exact nativeSorted_step1 ih env h
  sortedOuter := by intro c c' k k' senv p p' a a' i h1 h2 h3; exact sortedOuter_step1 ih senv i h1 h2 h3
  sortedInner := by intro c c' k k' senv p p' a a' v v' j h1 h2 h3 h4; exact sortedInner_step1 ih senv j h1 h2 h3 h4
  call1 := by intro f f' x x' env p p' h1 h2; exact call1_step1 ih env h1 h2
  call2 := by intro f f' x x' y y' env p p' h1 h2 h3; exact call2_step1 ih env h1 h2 h3
  evalRequire := fun env spec spec' name unq syms p p' h =>
    (evalRequire_step1 ih env spec name unq syms p p').trans
      (h ▸ (evalRequire_step1 ih env spec' name unq syms p' p').symm)
  loadModule := fun env ident modulefile p p' => loadModule_step1 ih env ident modulefile p p'

/-- the simulation holds for every function of the mutual block at every fuel -/
theorem sAll (hn : NativeSim ld) : ∀ fuel, SAll ld fuel
  | 0 => sAll_zero ld
  | fuel + 1 => sAll_succ hn (sAll hn fuel)

/-- the abstaining interpretation of the unmodelled built-ins respects similarity -/
theorem nativeSim_default (ld : Loader)
    (h : ld.nativeSem = fun name _ s => .fail (.unsupported ("native " ++ name)) s) : NativeSim ld := by
  intro name b b' hb
  rw [h]
  exact ⟨fun s s' hs => by simp only [ers_fail, ers_funsupported, hs]⟩

end Ckl.C14E
