import CklVerif.Gen.LibSrcCheck
import CklVerif.Proofs.C19Src
import CklVerif.Proofs.C19SrcSet
import CklVerif.Proofs.C19SrcL1
import CklVerif.Proofs.C19SrcL1b
import CklVerif.Proofs.C19SrcMapList
import CklVerif.Proofs.C19SrcD4Set
import CklVerif.Proofs.C19SrcL2
import CklVerif.Proofs.C19SrcL2b
import CklVerif.Proofs.C19SrcL3
import CklVerif.Proofs.C19SrcD4

#print axioms Ckl.C19Src.def_creates_isSrc
#print axioms Ckl.C19Src.libEnv_satisfiable
#print axioms Ckl.C19Src.is_int_src
#print axioms Ckl.C19Src.is_decimal_src
#print axioms Ckl.C19Src.is_list_src
#print axioms Ckl.C19Src.is_numeric_src
#print axioms Ckl.C19Src.abs_src_int
#print axioms Ckl.C19Src.abs_src_eq_mirror
#print axioms Ckl.C19Src.abs_src_null
#print axioms Ckl.C19Src.sign_src_int
#print axioms Ckl.C19Src.sign_src_eq_mirror
#print axioms Ckl.C19Src.sign_src_null
#print axioms Ckl.C19Src.abs_src_not_numeric
#print axioms Ckl.C19Src.sign_src_not_numeric
#print axioms Ckl.C19Src.rest_src
#print axioms Ckl.C19Src.abs_call_node
#print axioms Ckl.C19Src.sign_call_node
#print axioms Ckl.C19Src.first_src
#print axioms Ckl.C19Src.first_src_empty
#print axioms Ckl.C19Src.first_src_null
#print axioms Ckl.C19Src.last_src
#print axioms Ckl.C19Src.last_src_empty
#print axioms Ckl.C19Src.last_src_null
#print axioms Ckl.C19Src.is_even_src_int
#print axioms Ckl.C19Src.is_even_src_eq_mirror
#print axioms Ckl.C19Src.is_odd_src_int
#print axioms Ckl.C19Src.is_even_src_not_numeric
#print axioms Ckl.C19Src.is_odd_src_not_numeric
#print axioms Ckl.C19Src.is_zero_src
#print axioms Ckl.C19Src.is_negative_src
#print axioms Ckl.C19Src.is_positive_src
#print axioms Ckl.C19Src.non_empty_src
#print axioms Ckl.C19Src.const_src
#print axioms Ckl.C19Src.non_zero_src_partial
#print axioms Ckl.C19Src.reverse_list_src
#print axioms Ckl.C19Src.reverse_list_src_eq_mirror
#print axioms Ckl.C19Src.reverse_list_src_not_list
#print axioms Ckl.C19Src.gcd_src_int
#print axioms Ckl.C19Src.gcd_src_eq_mirror
#print axioms Ckl.C19Src.load_defs_establishes_libEnv
#print axioms Ckl.C19Src.initialState_loaded_libEnv
#print axioms Ckl.C19Src.loaded_gcd
#print axioms Ckl.C19Src.loaded_abs
#print axioms Ckl.C19Src.append_all_src
#print axioms Ckl.C19Src.append_all_src_eq_mirror
#print axioms Ckl.C19Src.reduce_src_ints
#print axioms Ckl.C19Src.reduce_src_eq_mirror
#print axioms Ckl.C19Src.reduce_src_empty
#print axioms Ckl.C19Src.reduce_src_null
#print axioms Ckl.C19Src.prod_src_ints
#print axioms Ckl.C19Src.prod_src_eq_mirror
-- set.ckl (Proofs/C19SrcSet.lean)
#print axioms Ckl.C19Src.intersection_src
#print axioms Ckl.C19Src.diff_src
#print axioms Ckl.C19Src.intersection_src_spec
#print axioms Ckl.C19Src.diff_src_spec
#print axioms Ckl.C19Src.append_all_src_set
#print axioms Ckl.C19Src.union_src
#print axioms Ckl.C19Src.union_src_lists
#print axioms Ckl.C19Src.union_src_sets
#print axioms Ckl.C19Src.union_src_spec
#print axioms Ckl.C19Src.symmetric_diff_src
#print axioms Ckl.C19Src.symmetric_diff_src_spec
#print axioms Ckl.C19Src.require_cached_node
#print axioms Ckl.C19Src.set_hyps_satisfiable
#print axioms Ckl.C19Src.union_example
-- list.ckl first_n / last_n / for_each / reverse (Proofs/C19SrcL1.lean)
#print axioms Ckl.C19Src.first_n_src
#print axioms Ckl.C19Src.first_n_src_take
#print axioms Ckl.C19Src.first_n_src_neg
#print axioms Ckl.C19Src.last_n_src
#print axioms Ckl.C19Src.last_n_src_drop
#print axioms Ckl.C19Src.last_n_src_zero
#print axioms Ckl.C19Src.last_n_src_neg
#print axioms Ckl.C19Src.for_each_src
#print axioms Ckl.C19Src.for_each_src_native
#print axioms Ckl.C19Src.for_each_src_closure
#print axioms Ckl.C19Src.reverse_src_string
#print axioms Ckl.C19Src.reverse_src_string_eq_mirror
#print axioms Ckl.C19Src.reverse_src_list
#print axioms Ckl.C19Src.reverse_src_list_eq_mirror
#print axioms Ckl.C19Src.reverse_src_error
#print axioms Ckl.C19Src.initialState_libEnv_L1
#print axioms Ckl.C19Src.loaded_reverse
-- list.ckl filter / flatten / unique (Proofs/C19SrcL3.lean)
#print axioms Ckl.C19Src.filter_src_default
#print axioms Ckl.C19Src.filter_src_eq_mirror
#print axioms Ckl.C19Src.filter_src_is_not_null
#print axioms Ckl.C19Src.flatten_src
#print axioms Ckl.C19Src.flatten_src_no_list
#print axioms Ckl.C19Src.flatten_src_eq_mirror
#print axioms Ckl.C19Src.unique_src_ints
#print axioms Ckl.C19Src.unique_src_eq_mirror
#print axioms Ckl.C19Src.uniqInts_spec_L3
-- decimals of abs / sign; the multi-frame library state (Proofs/C19SrcD4.lean)
#print axioms Ckl.C19Src.sign_src_dec
#print axioms Ckl.C19Src.sign_src_dec_numerator
#print axioms Ckl.C19Src.abs_src_dec_nonneg
#print axioms Ckl.C19Src.abs_src_dec_numerator
#print axioms Ckl.C19Src.predicates_dec_numerator_D4
#print axioms Ckl.C19Src.loadMods_establishes_libEnv_D4
#print axioms Ckl.C19Src.libState_libEnv_D4
#print axioms Ckl.C19Src.libState_abs_D4
#print axioms Ckl.C19Src.libState_sign_dec_D4
-- core.ckl any / all / chunks (Proofs/C19SrcL2.lean)
#print axioms Ckl.C19Src.any_src_default
#print axioms Ckl.C19Src.any_src_default_eq_mirror
#print axioms Ckl.C19Src.all_src_default
#print axioms Ckl.C19Src.all_src_default_eq_mirror
#print axioms Ckl.C19Src.any_src_native
#print axioms Ckl.C19Src.all_src_native
#print axioms Ckl.C19Src.chunks_src_list
#print axioms Ckl.C19Src.chunks_src_eq_mirror
#print axioms Ckl.C19Src.chunks_src_nonpositive
-- math.ckl lcm; first / last on a non-list (Proofs/C19SrcL1b.lean)
#print axioms Ckl.C19Src.lcm_src_int
#print axioms Ckl.C19Src.lcm_src_eq_mirror
#print axioms Ckl.C19Src.lcm_src_zero_zero
#print axioms Ckl.C19Src.lcm_src_zero_zero_div0
#print axioms Ckl.C19Src.first_src_not_list
#print axioms Ckl.C19Src.last_src_not_list
#print axioms Ckl.C19Src.initialState_lcm_libEnv_L1
-- list.ckl map_list (Proofs/C19SrcMapList.lean)
#print axioms Ckl.C19Src.map_list_src
#print axioms Ckl.C19Src.map_list_src_native
#print axioms Ckl.C19Src.map_list_src_eq_mirror
#print axioms Ckl.C19Src.map_list_src_is_null
-- the registered multi-frame library state: ListMod, union / symmetric_diff end to end (Proofs/C19SrcD4Set.lean)
#print axioms Ckl.C19Src.modKey_List_D4
#print axioms Ckl.C19Src.modKey_Core_ne_List_D4
#print axioms Ckl.C19Src.loadModsReg_inv_D4
#print axioms Ckl.C19Src.libState_listMod_D4
#print axioms Ckl.C19Src.libState_union_D4
#print axioms Ckl.C19Src.libState_union_example_D4
#print axioms Ckl.C19Src.libState_symmetric_diff_D4
-- core.ckl pairs; chunks on a string (Proofs/C19SrcL2b.lean)
#print axioms Ckl.C19Src.pairs_src_list
#print axioms Ckl.C19Src.pairs_src_contents
#print axioms Ckl.C19Src.chunks_src_string
#print axioms Ckl.C19Src.chunks_src_string_eq_mirror
