/-
  C10 (sessions): the simultaneous induction on the fuel over all functions of the evaluator for
  the relation `Mono e ·` — part 1: everything except `eval` itself.

  Every function is uniform (`KTr e X`, for every exception set `X`) except the two that unbind loop
  identifiers: `forString` (the variable of a string iteration is removed after every iteration and
  re-bound at the start of the next) and `evalFor` (the identifiers are removed when the loop ends).
  Their exception set contains the identifiers — for values and runtime errors; a hard failure can
  only come out of the loop body, where the identifiers are bound.
-/
import CklVerif.Lemmas.C10SessNatives
namespace Ckl.C10S
open Ckl Ckl.C05 Ckl.C03

macro_rules | `(tactic| k_lemma) => `(tactic| exact KTr.callPure _ _ _ _ _ (by assumption))

/-- hypothesis on the (arbitrary) interpretation of the unmodelled natives: they lose nothing -/
def NativeGrows (ld : Loader) : Prop := ∀ name args s, Grow s (stOf (ld.nativeSem name args s))

/-- `X` plus the loop identifiers `ids` when the loop runs in the watched frame -/
def cover (e : EnvId) (X : String → Prop) (env : EnvId) (ids : List String) : String → Prop :=
  fun y => X y ∨ (env = e ∧ y ∈ ids)
/-- `X` plus the variable of a string iteration -/
def cover1 (e : EnvId) (X : String → Prop) (env : EnvId) (x : String) : String → Prop :=
  fun y => X y ∨ (env = e ∧ y = x)

theorem HTr.pure_gen {α} {e : EnvId} {P H : String → Prop} {s0 : State} (a : α) :
    HTr e P P H s0 (pure a : EvalM α) := ⟨fun _ h => h⟩

theorem HTr.oof_gen {α} {e : EnvId} {P Q H : String → Prop} {s0 : State} :
    HTr e P Q H s0 (failM .oof : EvalM α) := ⟨fun _ h => ⟨fun hf => hf.elim, h.weaken_all⟩⟩

section
variable (e : EnvId) (ld : Loader)

/-- the statement proved by induction on `fuel`, one field per function of the mutual block -/
structure AllK (fuel : Nat) : Prop where
  eval : ∀ X s0 env n, KTr e X s0 (eval ld fuel env n)
  evalAnd : ∀ X s0 env es pos, KTr e X s0 (evalAnd ld fuel env es pos)
  evalOr : ∀ X s0 env es pos, KTr e X s0 (evalOr ld fuel env es pos)
  evalIf : ∀ X s0 env cs xs els pos, KTr e X s0 (evalIf ld fuel env cs xs els pos)
  evalSeq : ∀ X s0 env ns, KTr e X s0 (evalSeq ld fuel env ns)
  evalItems : ∀ X s0 env ns pos, KTr e X s0 (evalItems ld fuel env ns pos)
  evalPairs : ∀ X s0 env ks vs, KTr e X s0 (evalPairs ld fuel env ks vs)
  evalBody : ∀ X s0 env ns last, KTr e X s0 (evalBody ld fuel env ns last)
  evalFinally : ∀ X s0 env ns, KTr e X s0 (evalFinally ld fuel env ns)
  tryHandlers : ∀ X s0 env cs hs v msg p t, KTr e X s0 (tryHandlers ld fuel env cs hs v msg p t)
  invoke : ∀ X s0 fn pre names args env pos, KTr e X s0 (invoke ld fuel fn pre names args env pos)
  evalArgs : ∀ X s0 env names args pos, KTr e X s0 (evalArgs ld fuel env names args pos)
  callFn : ∀ X s0 fn bound env pos, KTr e X s0 (callFn ld fuel fn bound env pos)
  bindParams : ∀ X s0 lenv ps ds bound pos, KTr e X s0 (bindParams ld fuel lenv ps ds bound pos)
  evalFor : ∀ X s0 env ids c body what pos, HTr e X (cover e X env ids) X s0 (evalFor ld fuel env ids c body what pos)
  forItems : ∀ X s0 env ids xs body r pos, KTr e X s0 (forItems ld fuel env ids xs body r pos)
  forListLive : ∀ X s0 env ids a i body r pos, KTr e X s0 (forListLive ld fuel env ids a i body r pos)
  forString : ∀ X s0 env x cs body r, HTr e (cover1 e X env x) (cover1 e X env x) X s0 (forString ld fuel env x cs body r)
  whileLoop : ∀ X s0 env c body pos, KTr e X s0 (whileLoop ld fuel env c body pos)
  comprStep : ∀ X s0 lenv kind ve ke cond pos, KTr e X s0 (comprStep ld fuel lenv kind ve ke cond pos)
  comprLoop : ∀ X s0 lenv kind ve ke cond pos l acc, KTr e X s0 (comprLoop ld fuel lenv kind ve ke cond pos l acc)
  comprProduct : ∀ X s0 lenv kind ve ke cond pos x1 vs x2 ws acc,
    KTr e X s0 (comprProduct ld fuel lenv kind ve ke cond pos x1 vs x2 ws acc)
  comprParallel : ∀ X s0 lenv kind ve ke cond pos x1 vs x2 ws acc,
    KTr e X s0 (comprParallel ld fuel lenv kind ve ke cond pos x1 vs x2 ws acc)
  nativeSorted : ∀ X s0 bound env pos, KTr e X s0 (nativeSorted ld fuel bound env pos)
  sortedOuter : ∀ X s0 cmp key senv pos arr i, KTr e X s0 (sortedOuter ld fuel cmp key senv pos arr i)
  sortedInner : ∀ X s0 cmp key senv pos arr v j, KTr e X s0 (sortedInner ld fuel cmp key senv pos arr v j)
  call1 : ∀ X s0 f x env pos, KTr e X s0 (call1 ld fuel f x env pos)
  call2 : ∀ X s0 f x y env pos, KTr e X s0 (call2 ld fuel f x y env pos)
  evalRequire : ∀ X s0 env spec name unq syms pos, KTr e X s0 (evalRequire ld fuel env spec name unq syms pos)
  loadModule : ∀ X s0 env ident file pos, KTr e X s0 (loadModule ld fuel env ident file pos)


theorem allK_zero : AllK e ld 0 := by
  constructor
  all_goals (intros; simp only [eval, evalAnd, evalOr, evalIf, evalSeq, evalItems, evalPairs, evalBody, evalFinally,
        tryHandlers, invoke, evalArgs, callFn, bindParams, evalFor, forItems, forListLive, forString,
        whileLoop, comprStep, comprLoop, comprProduct, comprParallel, nativeSorted, sortedOuter,
        sortedInner, call1, call2, evalRequire, loadModule]; first | exact KTr.failM _ | exact HTr.oof_gen)

variable {e} {ld} {fuel : Nat}

theorem step_evalAnd (ih : AllK e ld fuel) : ∀ X s0 env es pos, KTr e X s0 (evalAnd ld (fuel+1) env es pos) := by
  have ihEval := ih.eval; have ihAnd := ih.evalAnd
  intro X s0 env es pos
  cases es <;> simp only [Ckl.evalAnd] <;> k_auto

theorem step_evalOr (ih : AllK e ld fuel) : ∀ X s0 env es pos, KTr e X s0 (evalOr ld (fuel+1) env es pos) := by
  have ihEval := ih.eval; have ihOr := ih.evalOr
  intro X s0 env es pos
  cases es <;> simp only [Ckl.evalOr] <;> k_auto

theorem step_evalIf (ih : AllK e ld fuel) :
    ∀ X s0 env cs xs els pos, KTr e X s0 (evalIf ld (fuel+1) env cs xs els pos) := by
  have ihEval := ih.eval; have ihIf := ih.evalIf
  intro X s0 env cs xs els pos
  cases cs <;> cases xs <;> simp only [Ckl.evalIf] <;> k_auto

theorem step_evalSeq (ih : AllK e ld fuel) : ∀ X s0 env ns, KTr e X s0 (evalSeq ld (fuel+1) env ns) := by
  have ihEval := ih.eval; have ihSeq := ih.evalSeq
  intro X s0 env ns
  cases ns <;> simp only [Ckl.evalSeq] <;> k_auto

theorem step_evalItems (ih : AllK e ld fuel) : ∀ X s0 env ns pos, KTr e X s0 (evalItems ld (fuel+1) env ns pos) := by
  have ihEval := ih.eval; have ihItems := ih.evalItems
  intro X s0 env ns pos
  cases ns with
  | nil => simp only [Ckl.evalItems]; k_auto
  | cons n ns => cases n <;> simp only [Ckl.evalItems] <;> k_auto

theorem step_evalPairs (ih : AllK e ld fuel) : ∀ X s0 env ks vs, KTr e X s0 (evalPairs ld (fuel+1) env ks vs) := by
  have ihEval := ih.eval; have ihPairs := ih.evalPairs
  intro X s0 env ks vs
  cases ks <;> cases vs <;> simp only [Ckl.evalPairs] <;> k_auto

theorem step_evalBody (ih : AllK e ld fuel) : ∀ X s0 env ns last, KTr e X s0 (evalBody ld (fuel+1) env ns last) := by
  have ihEval := ih.eval; have ihBody := ih.evalBody
  intro X s0 env ns last
  cases ns <;> simp only [Ckl.evalBody] <;> k_auto

theorem step_evalFinally (ih : AllK e ld fuel) : ∀ X s0 env ns, KTr e X s0 (evalFinally ld (fuel+1) env ns) := by
  have ihEval := ih.eval; have ihFin := ih.evalFinally
  intro X s0 env ns
  cases ns <;> simp only [Ckl.evalFinally] <;> k_auto

theorem step_tryHandlers (ih : AllK e ld fuel) :
    ∀ X s0 env cs hs v msg p t, KTr e X s0 (tryHandlers ld (fuel+1) env cs hs v msg p t) := by
  have ihEval := ih.eval; have ihTry := ih.tryHandlers
  intro X s0 env cs hs v msg p t
  cases cs with
  | nil => simp only [Ckl.tryHandlers]; exact ⟨fun _ h => h⟩
  | cons c cs =>
    cases hs with
    | nil => simp only [Ckl.tryHandlers]; exact ⟨fun _ h => h⟩
    | cons h hs => cases c <;> simp only [Ckl.tryHandlers] <;> k_auto

theorem step_evalArgs (ih : AllK e ld fuel) :
    ∀ X s0 env names args pos, KTr e X s0 (evalArgs ld (fuel+1) env names args pos) := by
  have ihEval := ih.eval; have ihArgs := ih.evalArgs
  intro X s0 env names args pos
  cases names with
  | nil => simp only [Ckl.evalArgs]; k_auto
  | cons n ns =>
    cases args with
    | nil => simp only [Ckl.evalArgs]; k_auto
    | cons a as => cases a <;> simp only [Ckl.evalArgs] <;> k_auto

theorem step_bindParams (ih : AllK e ld fuel) :
    ∀ X s0 lenv ps ds bound pos, KTr e X s0 (bindParams ld (fuel+1) lenv ps ds bound pos) := by
  have ihEval := ih.eval; have ihBP := ih.bindParams
  intro X s0 lenv ps ds bound pos
  cases ps with
  | nil => simp only [Ckl.bindParams]; k_auto
  | cons p ps =>
    cases ds with
    | nil => simp only [Ckl.bindParams]; k_auto
    | cons d ds =>
      by_cases hd : d = Node.absent
      · subst hd; simp only [Ckl.bindParams]; k_auto
      · simp only [Ckl.bindParams]; k_auto

theorem step_forItems (ih : AllK e ld fuel) :
    ∀ X s0 env ids xs body r pos, KTr e X s0 (forItems ld (fuel+1) env ids xs body r pos) := by
  have ihEval := ih.eval; have ih1 := ih.forItems
  intro X s0 env ids xs body r pos
  cases xs <;> simp only [Ckl.forItems] <;> k_auto

theorem step_forListLive (ih : AllK e ld fuel) :
    ∀ X s0 env ids a i body r pos, KTr e X s0 (forListLive ld (fuel+1) env ids a i body r pos) := by
  have ihEval := ih.eval; have ih1 := ih.forListLive
  intro X s0 env ids a i body r pos
  simp only [Ckl.forListLive]; k_auto

/-! ### the two loop functions that unbind identifiers -/

/-- mixed mode: goals `HTr e X Y X s0 m` (`hXY : X ⊆ Y` in the context).  A `bind` is first tried
    with a uniform first part (closed by `k_auto`), then with a uniform second part. -/
syntax "h_lemma" : tactic
set_option hygiene false in
macro_rules | `(tactic| h_lemma) => `(tactic| (refine HTr.weaken_post ?_ hXY; with_reducible k_lemma))
set_option hygiene false in
macro_rules | `(tactic| h_lemma) => `(tactic| (refine HTr.weaken_post ?_ hXY; k_hyp))

set_option hygiene false in
macro "h_step" : tactic => `(tactic| first
  | h_lemma
  | (refine HTr.bind_pre ?_ hXY ?_; (focus (k_auto; done)))
  | refine HTr.bind_post ?_ ?_
  | ((with_reducible apply HTr.getS_bind_gen); intro _ _)
  | tr_beta
  | intro _
  | split)

macro "h_auto" : tactic => `(tactic| repeat' h_step)

theorem step_forString (ih : AllK e ld fuel) :
    ∀ X s0 env x cs body r,
      HTr e (cover1 e X env x) (cover1 e X env x) X s0 (forString ld (fuel+1) env x cs body r) := by
  have ihEval := ih.eval; have ih1 := ih.forString
  intro X s0 env x cs body r
  have hXY : ∀ y, y ≠ "" → X y → cover1 e X env x y := fun _ _ h => Or.inl h
  cases cs with
  | nil => simp only [Ckl.forString]; exact ⟨fun _ h => h⟩
  | cons c cs =>
    simp only [Ckl.forString]
    -- binding the variable re-establishes `X`
    refine HTr.bind_gen (Q := X) (HTr.modifyS_gen (fun s hs => hs.put_cover env x _ (fun _ _ h => h))) hXY ?_
    intro _
    -- the body is uniform
    refine HTr.bind_pre (ihEval X s0 env body) hXY ?_
    intro rv
    have hrm : HTr e X (cover1 e X env x) X s0 (Ckl.modifyS (fun s => s.remove env x)) :=
      HTr.modifyS_gen (fun s hs => (hs.weaken hXY).remove env x (fun he => Or.inr (Or.inr ⟨he, rfl⟩)))
    split
    · exact HTr.weaken_post (KTr.pure _) hXY
    · split
      · exact HTr.weaken_post (KTr.pure _) hXY
      · exact HTr.bind_post hrm (fun _ => ih1 X s0 env x cs body _)

theorem step_evalFor (ih : AllK e ld fuel) :
    ∀ X s0 env ids c body what pos,
      HTr e X (cover e X env ids) X s0 (evalFor ld (fuel+1) env ids c body what pos) := by
  have ihEval := ih.eval; have ih1 := ih.forItems; have ih2 := ih.forListLive; have ih3 := ih.forString
  intro X s0 env ids c body what pos
  have hXY : ∀ y, y ≠ "" → X y → cover e X env ids y := fun _ _ h => Or.inl h
  -- the string iteration: its exception set is contained in `cover`
  have hStr : ∀ cs r, HTr e X (cover e X env ids) X s0 (forString ld fuel env (ids.headD "") cs body r) :=
    fun cs r => HTr.weaken_post (HTr.weaken_pre (ih3 X s0 env (ids.headD "") cs body r) (fun _ _ h => Or.inl h))
      (fun y h0 hy => hy.elim Or.inl (fun ⟨he, hx⟩ => Or.inr ⟨he, headD_mem hx h0⟩))
  -- the removal at the end of the loop
  have hRm : HTr e X (cover e X env ids) X s0 (removeVars env ids) :=
    HTr.removeVars env ids hXY (fun he x hx => Or.inr (Or.inr ⟨he, hx⟩))
  simp only [Ckl.evalFor]
  h_auto
  all_goals first | exact hStr _ _ | exact hRm | exact HTr.pure_gen _

theorem step_whileLoop (ih : AllK e ld fuel) :
    ∀ X s0 env c body pos, KTr e X s0 (whileLoop ld (fuel+1) env c body pos) := by
  have ihEval := ih.eval; have ih1 := ih.whileLoop
  intro X s0 env c body pos
  simp only [Ckl.whileLoop]; k_auto

theorem step_comprStep (ih : AllK e ld fuel) :
    ∀ X s0 lenv kind ve ke cond pos, KTr e X s0 (comprStep ld (fuel+1) lenv kind ve ke cond pos) := by
  have ihEval := ih.eval
  intro X s0 lenv kind ve ke cond pos
  by_cases hd : cond = Node.absent
  · subst hd; cases kind <;> simp only [Ckl.comprStep] <;> k_auto
  · cases kind <;> simp only [Ckl.comprStep] <;> k_auto

theorem step_comprLoop (ih : AllK e ld fuel) :
    ∀ X s0 lenv kind ve ke cond pos l acc, KTr e X s0 (comprLoop ld (fuel+1) lenv kind ve ke cond pos l acc) := by
  have ih1 := ih.comprStep; have ih2 := ih.comprLoop
  intro X s0 lenv kind ve ke cond pos l acc
  match l with
  | [] => simp only [Ckl.comprLoop]; k_auto
  | [(x, [])] => simp only [Ckl.comprLoop]; k_auto
  | [(x, v :: vs)] => simp only [Ckl.comprLoop]; k_auto
  | _ :: _ :: _ => simp only [Ckl.comprLoop]; k_auto

theorem step_comprProduct (ih : AllK e ld fuel) :
    ∀ X s0 lenv kind ve ke cond pos x1 vs x2 ws acc,
      KTr e X s0 (comprProduct ld (fuel+1) lenv kind ve ke cond pos x1 vs x2 ws acc) := by
  have ih1 := ih.comprLoop; have ih2 := ih.comprProduct
  intro X s0 lenv kind ve ke cond pos x1 vs x2 ws acc
  cases vs <;> simp only [Ckl.comprProduct] <;> k_auto

theorem step_comprParallel (ih : AllK e ld fuel) :
    ∀ X s0 lenv kind ve ke cond pos x1 vs x2 ws acc,
      KTr e X s0 (comprParallel ld (fuel+1) lenv kind ve ke cond pos x1 vs x2 ws acc) := by
  have ih1 := ih.comprStep; have ih2 := ih.comprParallel
  intro X s0 lenv kind ve ke cond pos x1 vs x2 ws acc
  cases vs <;> cases ws <;> simp only [Ckl.comprParallel] <;> k_auto

theorem step_nativeSorted (ih : AllK e ld fuel) :
    ∀ X s0 bound env pos, KTr e X s0 (nativeSorted ld (fuel+1) bound env pos) := by
  have ih1 := ih.sortedOuter
  intro X s0 bound env pos
  simp only [Ckl.nativeSorted]; k_auto

theorem step_sortedOuter (ih : AllK e ld fuel) :
    ∀ X s0 cmp key senv pos arr i, KTr e X s0 (sortedOuter ld (fuel+1) cmp key senv pos arr i) := by
  have ih1 := ih.sortedOuter; have ih2 := ih.sortedInner; have ih3 := ih.call1
  intro X s0 cmp key senv pos arr i
  simp only [Ckl.sortedOuter]; k_auto

theorem step_sortedInner (ih : AllK e ld fuel) :
    ∀ X s0 cmp key senv pos arr v j, KTr e X s0 (sortedInner ld (fuel+1) cmp key senv pos arr v j) := by
  have ih2 := ih.sortedInner; have ih3 := ih.call1; have ih4 := ih.call2
  intro X s0 cmp key senv pos arr v j
  cases j <;> simp only [Ckl.sortedInner] <;> k_auto

theorem step_call1 (ih : AllK e ld fuel) : ∀ X s0 f x env pos, KTr e X s0 (call1 ld (fuel+1) f x env pos) := by
  have ih1 := ih.callFn
  intro X s0 f x env pos
  simp only [Ckl.call1]; k_auto

theorem step_call2 (ih : AllK e ld fuel) : ∀ X s0 f x y env pos, KTr e X s0 (call2 ld (fuel+1) f x y env pos) := by
  have ih1 := ih.callFn
  intro X s0 f x y env pos
  simp only [Ckl.call2]; k_auto

theorem step_invoke (ih : AllK e ld fuel) :
    ∀ X s0 fn pre names args env pos, KTr e X s0 (invoke ld (fuel+1) fn pre names args env pos) := by
  have ih1 := ih.evalArgs; have ih2 := ih.callFn
  intro X s0 fn pre names args env pos
  simp only [Ckl.invoke]
  k_auto
  all_goals exact KTr.invokeTail (ih2 _ _ _ _ _ _) _ _

theorem step_callFn (hN : NativeGrows ld) (ih : AllK e ld fuel) :
    ∀ X s0 fn bound env pos, KTr e X s0 (callFn ld (fuel+1) fn bound env pos) := by
  have ih1 := ih.eval; have ih2 := ih.bindParams; have ih3 := ih.nativeSorted
  have hN' : ∀ X s0 name args, KTr e X s0 (ld.nativeSem name args) := fun X s0 name args => KTr.of_grow (hN name args)
  intro X s0 fn bound env pos
  cases fn <;> simp only [Ckl.callFn] <;> k_auto

theorem step_evalRequire (ih : AllK e ld fuel) :
    ∀ X s0 env spec name unq syms pos, KTr e X s0 (evalRequire ld (fuel+1) env spec name unq syms pos) := by
  have ih1 := ih.eval; have ih2 := ih.loadModule
  intro X s0 env spec name unq syms pos
  by_cases h : ∃ n p, spec = Node.ident n p
  · obtain ⟨n, p, rfl⟩ := h
    simp only [Ckl.evalRequire]
    k_auto
    all_goals
      (refine ⟨fun s1 hs1 => ?_⟩
       split <;> rename_i heq
       · exact HPost.mapOk (g := fun s => { s with modstack := s.modstack.dropLast })
           (KTr.post_eq (ih2 _ _ _ _ _ _) hs1 heq) (Grow.of_eq rfl rfl)
       · exact HPost.mapErr (g := fun s => { s with modstack := s.modstack.dropLast })
           (KTr.post_eq (ih2 _ _ _ _ _ _) hs1 heq) (Grow.of_eq rfl rfl)
       · exact HPost.mapFail (g := fun s => { s with modstack := s.modstack.dropLast })
           (KTr.post_eq (ih2 _ _ _ _ _ _) hs1 heq) (Grow.of_eq rfl rfl))
  · have h' : ∀ n p, spec = Node.ident n p → False := fun n p e => h ⟨n, p, e⟩
    simp only [Ckl.evalRequire]
    k_auto
    all_goals
      (refine ⟨fun s1 hs1 => ?_⟩
       split <;> rename_i heq
       · exact HPost.mapOk (g := fun s => { s with modstack := s.modstack.dropLast })
           (KTr.post_eq (ih2 _ _ _ _ _ _) hs1 heq) (Grow.of_eq rfl rfl)
       · exact HPost.mapErr (g := fun s => { s with modstack := s.modstack.dropLast })
           (KTr.post_eq (ih2 _ _ _ _ _ _) hs1 heq) (Grow.of_eq rfl rfl)
       · exact HPost.mapFail (g := fun s => { s with modstack := s.modstack.dropLast })
           (KTr.post_eq (ih2 _ _ _ _ _ _) hs1 heq) (Grow.of_eq rfl rfl))

theorem step_loadModule (ih : AllK e ld fuel) :
    ∀ X s0 env ident file pos, KTr e X s0 (loadModule ld (fuel+1) env ident file pos) := by
  have ih1 := ih.eval
  intro X s0 env ident file pos
  simp only [Ckl.loadModule]; k_auto

end
end Ckl.C10S
