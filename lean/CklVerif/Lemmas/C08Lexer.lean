/-
  C08 helper lemmas (scanner part): how the automaton reads back the text that `__repr__`
  (`renderWith`) produces for strings and ints, with arbitrary continuations.
-/
import CklVerif.Lemmas.LexerSpell
namespace Ckl.Lexer

/-- state 0 never unreads -/
theorem step0_again (k : Core) (col : Int) (ch : Char) : (step0 k col ch).again = false := by
  unfold step0
  repeat' split
  all_goals rfl

/-- a character that ends a token with an unread (`pos -= 1`): the token is emitted and the same
    character is then read afresh in state 0 -/
theorem feed_unread {name : String} {σ : LexSt} {t : Char} {k' : Core} {v : List Char} {ty : TokType}
    {colf : Int → Int} (h0 : σ.core.state ≠ .s0) (hk' : k'.state = .s0)
    (hstep : ∀ col, step σ.core col t = .ok ⟨k', some (v, ty, colf col), true⟩) :
    feed name σ t = feed name
      { σ with core := k',
               out := (⟨v, ty, ⟨name, σ.startline, colf (σ.count t).column⟩⟩, σ.startOff) :: σ.out } t := by
  by_cases hn : t = '\n'
  · subst hn
    simp only [feed, LexSt.count, if_true, LexSt.capture, h0, hk', if_false, LexSt.dispatch, hstep,
      LexSt.push, step_s0 _ _ hk', step0_again]
  · simp only [feed, LexSt.count, hn, if_true, LexSt.capture, h0, hk', if_false, LexSt.dispatch, hstep,
      LexSt.push, step_s0 _ _ hk', step0_again]

/-! ### strings: states 4 / 41 -/

/-- what the letter after a backslash stands for (`x` excluded: it starts a hex escape) -/
def unesc (x : Char) : Char :=
  if x = 'n' then '\n' else if x = 'r' then '\r' else if x = 't' then '\t' else x

/-- in state 4 every character other than the quote and the backslash is appended (newline
    excluded here only because it also moves the line counter) -/
theorem accum_s4 : Accum .s4 (fun c => c ≠ '\'' ∧ c ≠ '\\' ∧ c ≠ '\n') where
  step_eq k col ch hs hc := by
    unfold step
    simp only [hs, stepStr, hc.1, hc.2.1, if_false]
  ne0 := by decide
  nonl := by simp

/-- backslash + letter (not `x`, not a raw newline) appends the character the escape stands for -/
theorem run_escape_pair {name : String} {σ : LexSt} (hs : σ.core.state = .s4) {x : Char}
    (hx : x ≠ 'x') (hn : x ≠ '\n') :
    ∃ σ', run name σ ['\\', x] = .ok σ' ∧
      σ'.core = { σ.core with token := σ.core.token ++ [unesc x] } ∧ Frame σ σ' := by
  obtain ⟨σ1, hf1, hk1, hfr1⟩ := feed_inner (name := name) (σ := σ) (c := '\\')
    (k' := { σ.core with state := .s41 }) (by rw [hs]; decide) (by decide)
    (by intro col; unfold step; simp only [hs, stepStr]; rfl)
  have hs1 : σ1.core.state = .s41 := by rw [hk1]
  obtain ⟨σ2, hf2, hk2, hfr2⟩ := feed_inner (name := name) (σ := σ1) (c := x)
    (k' := { σ1.core with token := σ1.core.token ++ [unesc x], state := .s4 })
    (by rw [hs1]; decide) hn
    (by
      intro col; unfold step; simp only [hs1, stepEsc, unesc, hx, if_false]
      by_cases h1 : x = 'n'
      · simp [h1]
      · by_cases h2 : x = 'r'
        · simp [h2]
        · by_cases h3 : x = 't'
          · simp [h3]
          · simp [h1, h2, h3])
  refine ⟨σ2, ?_, ?_, hfr1.trans hfr2⟩
  · rw [run_cons_ok _ hf1, run_cons_ok _ hf2]; rfl
  · rw [hk2, hk1]
    cases hσ : σ.core with
    | mk st tk tb => rw [hσ] at hs; simp only at hs; subst hs; rfl

/-- the text `escapeChar c` read in state 4 appends exactly `c` to the token buffer -/
theorem run_escapeChar {name : String} {σ : LexSt} (hs : σ.core.state = .s4) (c : Char) :
    ∃ σ', run name σ (escapeChar c) = .ok σ' ∧
      σ'.core = { σ.core with token := σ.core.token ++ [c] } ∧ Frame σ σ' := by
  unfold escapeChar
  split
  · rename_i h; subst h
    exact run_escape_pair hs (by decide) (by decide)
  split
  · rename_i h; subst h
    exact run_escape_pair hs (by decide) (by decide)
  split
  · rename_i h; subst h
    exact run_escape_pair (x := 'r') hs (by decide) (by decide)
  split
  · rename_i h; subst h
    exact run_escape_pair (x := 'n') hs (by decide) (by decide)
  split
  · rename_i h; subst h
    exact run_escape_pair (x := 't') hs (by decide) (by decide)
  · rename_i h1 h2 h3 h4 h5
    obtain ⟨σ1, hf, hk, hfr⟩ := feed_accum (name := name) accum_s4 hs (c := c) ⟨h2, h1, h4⟩
    exact ⟨σ1, by rw [run_cons_ok _ hf]; rfl, hk, hfr⟩

/-- the text `escapeStr s` read in state 4 appends exactly `s` -/
theorem run_escapeStr {name : String} (s : List Char) : ∀ {σ : LexSt}, σ.core.state = .s4 →
    ∃ σ', run name σ (escapeStr s) = .ok σ' ∧
      σ'.core = { σ.core with token := σ.core.token ++ s } ∧ Frame σ σ' := by
  induction s with
  | nil => intro σ _; exact ⟨σ, rfl, by simp, Frame.rfl' σ⟩
  | cons c s ih =>
    intro σ hs
    obtain ⟨σ1, hr1, hk1, hfr1⟩ := run_escapeChar (name := name) hs c
    obtain ⟨σ2, hr2, hk2, hfr2⟩ := ih (σ := σ1) (by rw [hk1]; exact hs)
    refine ⟨σ2, ?_, ?_, hfr1.trans hfr2⟩
    · show run name σ ((c :: s).flatMap escapeChar) = _
      rw [List.flatMap_cons, run_append_ok _ hr1]; exact hr2
    · rw [hk2, hk1]; simp

/-- the closing quote in state 4 emits the string token and returns to state 0 -/
theorem feed_s4_close {name : String} {σ : LexSt} (hs : σ.core.state = .s4) :
    ∃ σ' col, feed name σ '\'' = .ok σ' ∧ σ'.core = { σ.core with token := [], state := .s0 } ∧
      σ'.out = (⟨σ.core.token, .string, ⟨name, σ.startline, col⟩⟩, σ.startOff) :: σ.out ∧
      σ'.line = σ.line := by
  have h0 : σ.core.state ≠ .s0 := by rw [hs]; decide
  have hstep : ∀ col, step σ.core col '\'' = .ok (stepStr '\'' .s41 σ.core col '\'') := by
    intro col; unfold step; rw [hs]
  simp only [feed, LexSt.count, show ('\'' : Char) ≠ '\n' by decide, if_false, LexSt.capture, h0,
    LexSt.dispatch, hstep, stepStr, if_true, LexSt.push]
  exact ⟨_, _, rfl, rfl, rfl, rfl⟩

/-- **string literal**: from a token boundary, `'` `escapeStr s` `'` emits the string token with
    value `s` (line and offset of the opening quote) and returns to the same automaton
    configuration, on the same line -/
theorem run_string_literal {name : String} {σ : LexSt} (h0 : σ.core.state = .s0)
    (htok : σ.core.token = []) (s : List Char) :
    ∃ σ' col, run name σ ('\'' :: (escapeStr s ++ ['\''])) = .ok σ' ∧ σ'.core = σ.core ∧
      σ'.out = (⟨s, .string, ⟨name, σ.line, col⟩⟩, σ.pos) :: σ.out ∧ σ'.line = σ.line := by
  obtain ⟨σ1, hf1, hk1, ho1, hsl1, hso1, hl1⟩ := feed_start (name := name) (c := '\'')
    (k' := { σ.core with state := .s4 }) h0 (by decide) (by intro col; simp [step0])
  have hs1 : σ1.core.state = .s4 := by rw [hk1]
  obtain ⟨σ2, hr2, hk2, hfr2⟩ := run_escapeStr (name := name) s hs1
  have hs2 : σ2.core.state = .s4 := by rw [hk2]; exact hs1
  obtain ⟨σ3, col, hf3, hk3, ho3, hl3⟩ := feed_s4_close (name := name) hs2
  refine ⟨σ3, col, ?_, ?_, ?_, ?_⟩
  · rw [run_cons_ok _ hf1, run_append_ok _ hr2, run_cons_ok _ hf3]; rfl
  · rw [hk3, hk2, hk1]
    cases hσ : σ.core with
    | mk st tk tb => rw [hσ] at h0 htok; simp only at h0 htok; subst h0; subst htok; rfl
  · rw [ho3, hk2, hk1, hfr2.out, hfr2.startline, hfr2.startOff, ho1, hsl1, hso1]
    simp [htok]
  · rw [hl3, hfr2.line, hl1]

/-! ### ints: states 7 / 70 with an arbitrary terminator -/

theorem numEnd_props : ∀ t ∈ numEnd, t ≠ '.' ∧ t ∉ digits ∧ t ≠ '_' ∧ t ≠ 'x' ∧ t ≠ 'b' := by decide

/-- a number terminator in state 7 emits the `int` token and is then read afresh in state 0 -/
theorem feed_s7_end_gen {name : String} {σ : LexSt} {t : Char} (hs : σ.core.state = .s7)
    (ht : t ∈ numEnd) :
    ∃ col, feed name σ t = feed name
      { σ with core := { σ.core with token := [], state := .s0 },
               out := (⟨dropUnderscores σ.core.token, .int, ⟨name, σ.startline, col⟩⟩, σ.startOff)
                        :: σ.out } t := by
  obtain ⟨hdot, hdig, hu, _, _⟩ := numEnd_props t ht
  refine ⟨(σ.count t).column - len σ.core.token, ?_⟩
  apply feed_unread (colf := fun col => col - len σ.core.token) (by rw [hs]; decide) rfl
  intro col
  unfold step
  simp only [hs, step7, hdot, hdig, hu, or_self, ht, if_false, if_true]

/-- from state 7 with buffer `tk`: digits and underscores, then any number terminator `t`: the
    `int` token is emitted and the scan continues with `t` in state 0 -/
theorem run_s7_gen {name : String} {σ : LexSt} (hs : σ.core.state = .s7) {rest : List Char}
    (hrest : ∀ c ∈ rest, DigOrU c) {t : Char} (ht : t ∈ numEnd) (tail : List Char) :
    ∃ σ' col, run name σ (rest ++ t :: tail) = run name σ' (t :: tail) ∧
      σ'.core = { σ.core with token := [], state := .s0 } ∧
      σ'.out = (⟨dropUnderscores (σ.core.token ++ rest), .int, ⟨name, σ.startline, col⟩⟩, σ.startOff)
        :: σ.out ∧ σ'.line = σ.line := by
  obtain ⟨σ1, hr1, hk1, hfr1⟩ := run_accum (name := name) accum_s7 rest hs hrest
  have hs1 : σ1.core.state = .s7 := by rw [hk1]; exact hs
  obtain ⟨col, hf2⟩ := feed_s7_end_gen (name := name) hs1 ht
  refine ⟨{ σ1 with core := { σ1.core with token := [], state := .s0 },
                    out := (⟨dropUnderscores σ1.core.token, .int, ⟨name, σ1.startline, col⟩⟩, σ1.startOff)
                        :: σ1.out }, col, ?_, ?_, ?_, hfr1.line⟩
  · rw [run_append_ok _ hr1]
    simp only [run, hf2]
  · simp only [hk1]
  · simp only [hk1, hfr1.out, hfr1.startline, hfr1.startOff]

/-- decimal int literal started at a token boundary, any number terminator -/
theorem run_int_gen {name : String} {σ : LexSt} (h0 : σ.core.state = .s0)
    (htok : σ.core.token = []) {d : Char} (hd : d ∈ digits) {rest : List Char}
    (hrest : ∀ c ∈ rest, DigOrU c) {t : Char} (ht : t ∈ numEnd) (tail : List Char) :
    ∃ σ' col, run name σ (d :: (rest ++ t :: tail)) = run name σ' (t :: tail) ∧ σ'.core = σ.core ∧
      σ'.out = (⟨dropUnderscores (d :: rest), .int, ⟨name, σ.line, col⟩⟩, σ.pos) :: σ.out ∧
      σ'.line = σ.line := by
  have hcore : ({ σ.core with token := [], state := .s0 } : Core) = σ.core := by
    cases hσ : σ.core with
    | mk s tk tb => rw [hσ] at h0 htok; simp only at h0 htok; subst h0; subst htok; rfl
  by_cases hz : d = '0'
  · subst hz
    obtain ⟨σ1, hf1, hk1, ho1, hsl1, hso1, hl1⟩ := feed_start (name := name) (c := '0')
      (k' := { σ.core with state := .s70 }) h0 (by decide) (by intro col; simp [step0])
    have hs1 : σ1.core.state = .s70 := by rw [hk1]
    have hpush : run name σ1 (rest ++ t :: tail) =
        run name { σ1 with core := { σ1.core with token := σ1.core.token ++ ['0'], state := .s7 } }
          (rest ++ t :: tail) := by
      cases rest with
      | nil =>
        obtain ⟨_, _, _, hx, hb⟩ := numEnd_props t ht
        simp only [List.nil_append, run]; rw [feed_s70_push hs1 hx hb]
      | cons r rs =>
        obtain ⟨hx, hb⟩ := digOrU_ne_xb (hrest r (by simp))
        simp only [List.cons_append, run]; rw [feed_s70_push hs1 hx hb]
    obtain ⟨σ2, col, hr2, hk2, ho2, hl2⟩ := run_s7_gen (name := name)
      (σ := { σ1 with core := { σ1.core with token := σ1.core.token ++ ['0'], state := .s7 } })
      rfl hrest ht tail
    refine ⟨σ2, col, ?_, ?_, ?_, ?_⟩
    · rw [run_cons_ok _ hf1, hpush]; exact hr2
    · rw [hk2]; simp only [hk1]; exact hcore
    · rw [ho2]; simp only [hk1, htok, ho1, hsl1, hso1, List.nil_append, List.cons_append]
    · rw [hl2]; exact hl1
  · have hstart : ∀ col, step0 σ.core col d =
        ⟨{ σ.core with token := σ.core.token ++ [d], state := .s7 }, none, false⟩ := by
      intro col
      simp only [digits, List.mem_cons, List.not_mem_nil, or_false] at hd
      rcases hd with rfl | rfl | rfl | rfl | rfl | rfl | rfl | rfl | rfl | rfl <;>
        first | exact absurd rfl hz | simp [step0, digits]
    have hn : d ≠ '\n' := by intro e; subst e; revert hd; decide
    obtain ⟨σ1, hf1, hk1, ho1, hsl1, hso1, hl1⟩ := feed_start (name := name) h0 hn hstart
    obtain ⟨σ2, col, hr2, hk2, ho2, hl2⟩ := run_s7_gen (name := name) (σ := σ1) (by rw [hk1])
      hrest ht tail
    refine ⟨σ2, col, ?_, ?_, ?_, ?_⟩
    · rw [run_cons_ok _ hf1]; exact hr2
    · rw [hk2]; simp only [hk1]; exact hcore
    · rw [ho2]; simp only [hk1, htok, ho1, hsl1, hso1, List.nil_append, List.cons_append]
    · rw [hl2]; exact hl1

/-! ### the decimal numeral `Nat.toDigits 10 n` -/

theorem digitChar_mem_digits : ∀ k < 10, Nat.digitChar k ∈ digits := by decide

theorem toDigits_mem_digits (n : Nat) : ∀ c ∈ Nat.toDigits 10 n, c ∈ digits := by
  induction n using Nat.strongRecOn with
  | ind n ih =>
    rw [Nat.toDigits_eq_if (by decide)]
    split
    · intro c hc
      simp only [List.mem_singleton] at hc
      subst hc; exact digitChar_mem_digits n (by omega)
    · intro c hc
      rcases List.mem_append.mp hc with h | h
      · exact ih (n / 10) (by omega) c h
      · simp only [List.mem_singleton] at h
        subst h; exact digitChar_mem_digits _ (Nat.mod_lt _ (by decide))

theorem dropUnderscores_digits {l : List Char} (h : ∀ c ∈ l, c ∈ digits) : dropUnderscores l = l := by
  unfold dropUnderscores
  apply List.filter_eq_self.mpr
  intro c hc
  simp only [ne_eq, decide_eq_true_eq]
  exact digits_ne_underscore (h c hc)

/-- **int literal**: the decimal numeral of `n`, then a number terminator `t`: the `int` token whose
    value is the numeral is emitted, and the scan continues with `t` at a token boundary -/
theorem run_nat_literal {name : String} {σ : LexSt} (h0 : σ.core.state = .s0)
    (htok : σ.core.token = []) (n : Nat) {t : Char} (ht : t ∈ numEnd) (tail : List Char) :
    ∃ σ' col, run name σ (Nat.toDigits 10 n ++ t :: tail) = run name σ' (t :: tail) ∧
      σ'.core = σ.core ∧
      σ'.out = (⟨Nat.toDigits 10 n, .int, ⟨name, σ.line, col⟩⟩, σ.pos) :: σ.out ∧
      σ'.line = σ.line := by
  have hall := toDigits_mem_digits n
  cases hds : Nat.toDigits 10 n with
  | nil => exact absurd hds Nat.toDigits_ne_nil
  | cons d rest =>
    rw [hds] at hall
    obtain ⟨σ', col, hr, hk, ho, hl⟩ := run_int_gen (name := name) h0 htok (d := d) (hall d (by simp))
      (rest := rest) (fun c hc => Or.inl (hall c (List.mem_cons_of_mem _ hc))) ht tail
    refine ⟨σ', col, by simpa using hr, hk, ?_, hl⟩
    rw [ho, dropUnderscores_digits hall]

/-! ### operators `-`: state 10 -/

/-- `-` followed by a character other than `=` and `>`: the operator token `-` is emitted and
    the character is read afresh at a token boundary -/
theorem run_minus {name : String} {σ : LexSt} (h0 : σ.core.state = .s0)
    (htok : σ.core.token = []) {d : Char} (hd1 : d ≠ '=') (hd2 : d ≠ '>') (tail : List Char) :
    ∃ σ' col, run name σ ('-' :: d :: tail) = run name σ' (d :: tail) ∧ σ'.core = σ.core ∧
      σ'.out = (⟨['-'], .operator, ⟨name, σ.line, col⟩⟩, σ.pos) :: σ.out ∧ σ'.line = σ.line := by
  have hcore : ({ σ.core with token := [], state := .s0 } : Core) = σ.core := by
    cases hσ : σ.core with
    | mk s tk tb => rw [hσ] at h0 htok; simp only at h0 htok; subst h0; subst htok; rfl
  obtain ⟨σ1, hf1, hk1, ho1, hsl1, hso1, hl1⟩ := feed_start (name := name) (c := '-')
    (k' := { σ.core with token := σ.core.token ++ ['-'], state := .s10 }) h0 (by decide)
    (by intro col; simp [step0])
  have hs1 : σ1.core.state = .s10 := by rw [hk1]
  have ht1 : σ1.core.token = ['-'] := by rw [hk1]; simp [htok]
  have hf2 := feed_unread (name := name) (σ := σ1) (t := d)
    (k' := { σ1.core with token := [], state := .s0 }) (v := ['-']) (ty := .operator)
    (colf := fun col => col) (by rw [hs1]; decide) rfl
    (by
      intro col; unfold step
      simp only [hs1, step10, hd1, hd2, ht1, and_false, if_false])
  refine ⟨{ σ1 with core := { σ1.core with token := [], state := .s0 },
                    out := (⟨['-'], .operator, ⟨name, σ1.startline, (σ1.count d).column⟩⟩, σ1.startOff)
                        :: σ1.out }, (σ1.count d).column, ?_, ?_, ?_, ?_⟩
  · rw [run_cons_ok _ hf1]
    simp only [run, hf2]
  · simp only [hk1]; exact hcore
  · simp only [ho1, hsl1, hso1]
  · exact hl1

/-! ### decimals: states 7 / 8 -/

/-- a first digit at a token boundary, followed by a character other than `x` / `b`: the automaton
    is in state 7 with the digit in the buffer (directly, or via state 70 for a `0`) -/
theorem run_digit_start {name : String} {σ : LexSt} (h0 : σ.core.state = .s0)
    (htok : σ.core.token = []) {d : Char} (hd : d ∈ digits) {u : Char} (hx : u ≠ 'x') (hb : u ≠ 'b')
    (us : List Char) :
    ∃ σ1, run name σ (d :: u :: us) = run name σ1 (u :: us) ∧
      σ1.core = { σ.core with token := [d], state := .s7 } ∧ σ1.out = σ.out ∧
      σ1.startline = σ.line ∧ σ1.startOff = σ.pos ∧ σ1.line = σ.line := by
  by_cases hz : d = '0'
  · subst hz
    obtain ⟨σ1, hf1, hk1, ho1, hsl1, hso1, hl1⟩ := feed_start (name := name) (c := '0')
      (k' := { σ.core with state := .s70 }) h0 (by decide) (by intro col; simp [step0])
    have hs1 : σ1.core.state = .s70 := by rw [hk1]
    refine ⟨{ σ1 with core := { σ1.core with token := σ1.core.token ++ ['0'], state := .s7 } },
      ?_, ?_, ho1, hsl1, hso1, hl1⟩
    · rw [run_cons_ok _ hf1]
      simp only [run]; rw [feed_s70_push hs1 hx hb]
    · simp only [hk1, htok, List.nil_append]
  · have hstart : ∀ col, step0 σ.core col d =
        ⟨{ σ.core with token := σ.core.token ++ [d], state := .s7 }, none, false⟩ := by
      intro col
      simp only [digits, List.mem_cons, List.not_mem_nil, or_false] at hd
      rcases hd with rfl | rfl | rfl | rfl | rfl | rfl | rfl | rfl | rfl | rfl <;>
        first | exact absurd rfl hz | simp [step0, digits]
    have hn : d ≠ '\n' := by intro e; subst e; revert hd; decide
    obtain ⟨σ1, hf1, hk1, ho1, hsl1, hso1, hl1⟩ := feed_start (name := name) h0 hn hstart
    refine ⟨σ1, run_cons_ok _ hf1, ?_, ho1, hsl1, hso1, hl1⟩
    rw [hk1, htok]; rfl

theorem accum_s8 : Accum .s8 DigOrU where
  step_eq k col ch hs hc := by
    have hc' : ch ∈ digits ∨ ch = '_' := hc
    unfold step
    simp only [hs, step8, hc', if_true]
  ne0 := by decide
  nonl := accum_s7.nonl

/-- a number terminator in state 8 emits the `decimal` token and is then read afresh in state 0 -/
theorem feed_s8_end_gen {name : String} {σ : LexSt} {t : Char} (hs : σ.core.state = .s8)
    (ht : t ∈ numEnd) :
    ∃ col, feed name σ t = feed name
      { σ with core := { σ.core with token := [], state := .s0 },
               out := (⟨dropUnderscores σ.core.token, .decimal, ⟨name, σ.startline, col⟩⟩, σ.startOff)
                        :: σ.out } t := by
  obtain ⟨hdot, hdig, hu, _, _⟩ := numEnd_props t ht
  refine ⟨(σ.count t).column - len σ.core.token, ?_⟩
  apply feed_unread (colf := fun col => col - len σ.core.token) (by rw [hs]; decide) rfl
  intro col
  unfold step
  simp only [hs, step8, hdig, hu, or_self, ht, if_false, if_true]

theorem digits_ne_xb {c : Char} (h : c ∈ digits) : c ≠ 'x' ∧ c ≠ 'b' := digOrU_ne_xb (Or.inl h)

/-- **decimal literal**: digits⁺ `.` digits* followed by a number terminator `t`, started at a
    token boundary: the `decimal` token with exactly that text is emitted and the scan continues
    with `t` at a token boundary -/
theorem run_dec_gen {name : String} {σ : LexSt} (h0 : σ.core.state = .s0)
    (htok : σ.core.token = []) {a b : List Char} (hane : a ≠ []) (ha : ∀ c ∈ a, c ∈ digits)
    (hb : ∀ c ∈ b, c ∈ digits) {t : Char} (ht : t ∈ numEnd) (tail : List Char) :
    ∃ σ' col, run name σ (a ++ '.' :: (b ++ t :: tail)) = run name σ' (t :: tail) ∧
      σ'.core = σ.core ∧
      σ'.out = (⟨a ++ '.' :: b, .decimal, ⟨name, σ.line, col⟩⟩, σ.pos) :: σ.out ∧
      σ'.line = σ.line := by
  have hcore : ({ σ.core with token := [], state := .s0 } : Core) = σ.core := by
    cases hσ : σ.core with
    | mk s tk tb => rw [hσ] at h0 htok; simp only at h0 htok; subst h0; subst htok; rfl
  cases a with
  | nil => exact absurd rfl hane
  | cons d as =>
    have hd : d ∈ digits := ha d (by simp)
    have has : ∀ c ∈ as, DigOrU c := fun c hc => Or.inl (ha c (List.mem_cons_of_mem _ hc))
    have hbs : ∀ c ∈ b, DigOrU c := fun c hc => Or.inl (hb c hc)
    -- first digit
    obtain ⟨u, us, hu, hux, hub⟩ : ∃ u us, as ++ '.' :: (b ++ t :: tail) = u :: us ∧ u ≠ 'x' ∧ u ≠ 'b' := by
      cases as with
      | nil => exact ⟨'.', _, rfl, by decide, by decide⟩
      | cons e es =>
        obtain ⟨h1, h2⟩ := digits_ne_xb (ha e (by simp))
        exact ⟨e, _, rfl, h1, h2⟩
    obtain ⟨σ1, hr1, hk1, ho1, hsl1, hso1, hl1⟩ := run_digit_start (name := name) h0 htok hd hux hub us
    have hs1 : σ1.core.state = .s7 := by rw [hk1]
    -- remaining integer digits
    obtain ⟨σ2, hr2, hk2, hfr2⟩ := run_accum (name := name) accum_s7 as hs1 has
    have hs2 : σ2.core.state = .s7 := by rw [hk2]; exact hs1
    -- the point
    obtain ⟨σ3, hf3, hk3, hfr3⟩ := feed_inner (name := name) (σ := σ2) (c := '.')
      (k' := { σ2.core with token := σ2.core.token ++ ['.'], state := .s8 }) (by rw [hs2]; decide)
      (by decide) (by intro col; unfold step; simp only [hs2, step7, if_true])
    have hs3 : σ3.core.state = .s8 := by rw [hk3]
    -- fraction digits
    obtain ⟨σ4, hr4, hk4, hfr4⟩ := run_accum (name := name) accum_s8 b hs3 hbs
    have hs4 : σ4.core.state = .s8 := by rw [hk4]; exact hs3
    have ht4 : σ4.core.token = d :: as ++ '.' :: b := by
      rw [hk4, hk3, hk2, hk1]; simp
    obtain ⟨col, hf5⟩ := feed_s8_end_gen (name := name) hs4 ht
    have hfr := (hfr2.trans hfr3).trans hfr4
    refine ⟨{ σ4 with core := { σ4.core with token := [], state := .s0 },
                      out := (⟨dropUnderscores σ4.core.token, .decimal, ⟨name, σ4.startline, col⟩⟩,
                              σ4.startOff) :: σ4.out }, col, ?_, ?_, ?_, ?_⟩
    · rw [List.cons_append, hu, hr1, ← hu, run_append_ok _ hr2, run_cons_ok _ hf3,
        run_append_ok _ hr4]
      simp only [run, hf5]
    · simp only [hk4, hk3, hk2, hk1]; exact hcore
    · have hdig : ∀ c ∈ d :: as ++ '.' :: b, c ≠ '_' := by
        intro c hc
        rcases List.mem_append.mp hc with h | h
        · exact digits_ne_underscore (ha c h)
        · rcases List.mem_cons.mp h with h | h
          · subst h; decide
          · exact digits_ne_underscore (hb c h)
      have hdu : dropUnderscores (d :: as ++ '.' :: b) = d :: as ++ '.' :: b := by
        unfold dropUnderscores
        apply List.filter_eq_self.mpr
        intro c hc; simp only [ne_eq, decide_eq_true_eq]; exact hdig c hc
      simp only [ht4, hdu, hfr.out, hfr.startline, hfr.startOff, ho1, hsl1, hso1]
    · show σ4.line = σ.line
      rw [hfr.line, hl1]

/-! ### patterns: states 5 / 6 -/

/-- in state 6 with a buffer that does not end in `/`, a character other than `/` is appended -/
theorem feed_s6_plain {name : String} {σ : LexSt} {c : Char} (hs : σ.core.state = .s6)
    (hc : c ≠ '/') (hn : c ≠ '\n') :
    ∃ σ', feed name σ c = .ok σ' ∧ σ'.core = { σ.core with token := σ.core.token ++ [c] } ∧
      Frame σ σ' := by
  apply feed_inner (by rw [hs]; decide) hn
  intro col
  have hsuf : ['/', '/'].isSuffixOf (σ.core.token ++ [c]) = false := by
    rw [Bool.eq_false_iff]
    intro h
    have h' := List.isSuffixOf_iff_suffix.mp h
    obtain ⟨p, hp⟩ := h'
    have := congrArg List.getLast? hp
    simp at this
    exact hc this.symm
  unfold step
  simp only [hs, step6, hsuf, Bool.false_eq_true, if_false]

theorem run_s6_plain {name : String} (s : List Char) : ∀ {σ : LexSt}, σ.core.state = .s6 →
    (∀ c ∈ s, c ≠ '/' ∧ c ≠ '\n') →
    ∃ σ', run name σ s = .ok σ' ∧ σ'.core = { σ.core with token := σ.core.token ++ s } ∧
      Frame σ σ' := by
  induction s with
  | nil => intro σ _ _; exact ⟨σ, rfl, by simp, Frame.rfl' σ⟩
  | cons c s ih =>
    intro σ hs hc
    obtain ⟨σ1, hf, hk, hfr⟩ := feed_s6_plain (name := name) hs (hc c (by simp)).1 (hc c (by simp)).2
    obtain ⟨σ2, hr, hk2, hfr2⟩ := ih (σ := σ1) (by rw [hk]; exact hs)
      (fun x hx => hc x (List.mem_cons_of_mem _ hx))
    refine ⟨σ2, by rw [run_cons_ok _ hf]; exact hr, ?_, hfr.trans hfr2⟩
    rw [hk2, hk]; simp

/-- **pattern literal**: `//` `s` `//` for a non-empty `s` without `/` and newline emits the
    pattern token `//s//` and returns to the token boundary -/
theorem run_pattern_literal {name : String} {σ : LexSt} (h0 : σ.core.state = .s0)
    (htok : σ.core.token = []) (s : List Char) (hne : s ≠ []) (hs : ∀ c ∈ s, c ≠ '/' ∧ c ≠ '\n') :
    ∃ σ' col, run name σ ('/' :: '/' :: (s ++ ['/', '/'])) = .ok σ' ∧ σ'.core = σ.core ∧
      σ'.out = (⟨'/' :: '/' :: (s ++ ['/', '/']), .pattern, ⟨name, σ.line, col⟩⟩, σ.pos) :: σ.out ∧
      σ'.line = σ.line := by
  obtain ⟨σ1, hf1, hk1, ho1, hsl1, hso1, hl1⟩ := feed_start (name := name) (c := '/')
    (k' := { σ.core with state := .s5 }) h0 (by decide) (by intro col; simp [step0])
  have hs1 : σ1.core.state = .s5 := by rw [hk1]
  obtain ⟨σ2, hf2, hk2, hfr2⟩ := feed_inner (name := name) (σ := σ1) (c := '/')
    (k' := { σ1.core with token := σ1.core.token ++ ['/', '/'], state := .s6 })
    (by rw [hs1]; decide) (by decide) (by intro col; unfold step; simp only [hs1, step5, if_true])
  have hs2 : σ2.core.state = .s6 := by rw [hk2]
  obtain ⟨σ3, hr3, hk3, hfr3⟩ := run_s6_plain (name := name) s hs2 hs
  have hs3 : σ3.core.state = .s6 := by rw [hk3]; exact hs2
  have ht3 : σ3.core.token = '/' :: '/' :: s := by rw [hk3, hk2, hk1]; simp [htok]
  -- first closing slash: appended (the buffer ends with the last character of `s`)
  obtain ⟨σ4, hf4, hk4, hfr4⟩ := feed_inner (name := name) (σ := σ3) (c := '/')
    (k' := { σ3.core with token := σ3.core.token ++ ['/'] }) (by rw [hs3]; decide) (by decide)
    (by
      intro col
      have hsuf : ['/', '/'].isSuffixOf (σ3.core.token ++ ['/']) = false := by
        rw [Bool.eq_false_iff]
        intro h
        obtain ⟨p, hp⟩ := List.isSuffixOf_iff_suffix.mp h
        rw [ht3] at hp
        have hl : s.getLast? = some '/' := by
          have h1 : p ++ ['/', '/'] = (p ++ ['/']) ++ ['/'] := by simp
          rw [h1] at hp
          have h2 := List.append_inj_left' hp rfl
          have h3 := congrArg List.getLast? h2
          rw [List.getLast?_append] at h3
          simp only [List.getLast?_singleton, Option.some_or] at h3
          rw [show '/' :: '/' :: s = ['/', '/'] ++ s from rfl, List.getLast?_append] at h3
          cases hsl : s.getLast? with
          | none => exact absurd (List.getLast?_eq_none_iff.mp hsl) hne
          | some x => rw [hsl] at h3; simp at h3; rw [h3]
        exact (hs '/' (List.mem_of_getLast? hl)).1 rfl
      unfold step
      simp only [hs3, step6, hsuf, Bool.false_eq_true, if_false])
  have hs4 : σ4.core.state = .s6 := by rw [hk4]; exact hs3
  have ht4 : σ4.core.token = '/' :: '/' :: (s ++ ['/']) := by rw [hk4, ht3]; simp
  -- second closing slash: emits
  have hstep5 : ∀ col, step σ4.core col '/' =
      .ok ⟨{ σ4.core with token := [], state := .s0 },
        some ('/' :: '/' :: (s ++ ['/', '/']), .pattern,
          col - len ('/' :: '/' :: (s ++ ['/', '/'])) - 4 + 1), false⟩ := by
    intro col
    have e : σ4.core.token ++ ['/'] = '/' :: '/' :: (s ++ ['/', '/']) := by rw [ht4]; simp
    have hsuf : ['/', '/'].isSuffixOf (σ4.core.token ++ ['/']) = true := by
      rw [e]
      apply List.isSuffixOf_iff_suffix.mpr
      exact ⟨'/' :: '/' :: s, by simp⟩
    rw [e] at hsuf
    unfold step
    simp only [hs4, step6, e, hsuf, if_true]
  have h04 : σ4.core.state ≠ .s0 := by rw [hs4]; decide
  have hfr := (hfr2.trans hfr3).trans hfr4
  obtain ⟨σ5, col, hf5, hk5, ho5, hl5⟩ : ∃ σ5 col, feed name σ4 '/' = .ok σ5 ∧
      σ5.core = { σ4.core with token := [], state := .s0 } ∧
      σ5.out = (⟨'/' :: '/' :: (s ++ ['/', '/']), .pattern, ⟨name, σ4.startline, col⟩⟩, σ4.startOff)
        :: σ4.out ∧ σ5.line = σ4.line := by
    simp only [feed, LexSt.count, show ('/' : Char) ≠ '\n' by decide, if_false, LexSt.capture,
      h04, LexSt.dispatch, hstep5, LexSt.push]
    exact ⟨_, _, rfl, rfl, rfl, rfl⟩
  refine ⟨σ5, col, ?_, ?_, ?_, ?_⟩
  · rw [run_cons_ok _ hf1, run_cons_ok _ hf2, run_append_ok _ hr3, run_cons_ok _ hf4,
      run_cons_ok _ hf5]
    rfl
  · rw [hk5]
    simp only [hk4, hk3, hk2, hk1]
    cases hσ : σ.core with
    | mk st tk tb => rw [hσ] at h0 htok; simp only at h0 htok; subst h0; subst htok; rfl
  · rw [ho5]
    simp only [hfr.out, hfr.startline, hfr.startOff, ho1, hsl1, hso1]
  · rw [hl5, hfr.line, hl1]

/-! ### words (`TRUE`, `FALSE`, `NULL`, …): state 1 -/

/-- type of the token the scanner makes of the word `w` -/
def wordType (w : List Char) : TokType :=
  if w = ['T','R','U','E'] then .boolean
  else if w = ['F','A','L','S','E'] then .boolean
  else if w ∈ keywords then .keyword
  else .identifier

/-- characters that continue a word (the `.` is excluded because of the `...` token, the newline
    cannot occur: it is a word end) -/
def WordChar (c : Char) : Prop := c ∉ wordEnd ∧ c ≠ '.'

/-- characters that start a word in state 0 -/
def WordStart (c : Char) : Prop := c ∉ wordEnd ∧ c ∉ digits

instance : DecidablePred WordChar := fun c => by unfold WordChar; infer_instance
instance : DecidablePred WordStart := fun c => by unfold WordStart; infer_instance

theorem accum_s1 : Accum .s1 WordChar where
  step_eq k col ch hs hc := by
    have h3 : k.token ++ [ch] ≠ ['.', '.', '.'] := by
      intro h
      have := congrArg List.getLast? h
      simp at this
      exact hc.2 this
    unfold step
    simp only [hs, step1, hc.1, h3, if_false]
  ne0 := by decide
  nonl := by intro h; exact h.1 (by decide)

theorem step0_wordStart (k : Core) (col : Int) {c : Char} (hc : WordStart c) :
    step0 k col c = ⟨{ k with token := k.token ++ [c], state := .s1 }, none, false⟩ := by
  obtain ⟨h1, h2⟩ := hc
  have hws : c ∉ whitespace := by
    intro h; apply h1
    simp only [whitespace, List.mem_cons, List.not_mem_nil, or_false] at h
    rcases h with rfl | rfl | rfl | rfl <;> decide
  have h0 : c ≠ '0' := by intro e; subst e; exact h2 (by decide)
  simp only [wordEnd, List.mem_cons, List.not_mem_nil, or_false, not_or] at h1
  obtain ⟨a1, a2, a3, a4, a5, a6, a7, a8, a9, a10, a11, a12, a13, a14, a15, a16, a17, _⟩ := h1
  simp [step0, *]

/-- a word end in state 1 emits the word token and is then read afresh in state 0 -/
theorem feed_s1_end {name : String} {σ : LexSt} {t : Char} (hs : σ.core.state = .s1)
    (hne : σ.core.token ≠ []) (ht : t ∈ wordEnd) :
    ∃ col, feed name σ t = feed name
      { σ with core := { σ.core with token := [], state := .s0 },
               out := (⟨σ.core.token, wordType σ.core.token, ⟨name, σ.startline, col⟩⟩, σ.startOff)
                        :: σ.out } t := by
  have h0 : σ.core.state ≠ .s0 := by rw [hs]; decide
  unfold wordType
  by_cases h1 : σ.core.token = ['T','R','U','E']
  · refine ⟨(σ.count t).column - 4, ?_⟩
    rw [if_pos h1]
    apply feed_unread (colf := fun col => col - 4) h0 rfl
    intro col; unfold step; simp only [hs, step1, ht, h1, if_true]
  by_cases h2 : σ.core.token = ['F','A','L','S','E']
  · refine ⟨(σ.count t).column - 4, ?_⟩
    rw [if_neg h1, if_pos h2]
    apply feed_unread (colf := fun col => col - 4) h0 rfl
    intro col; unfold step; simp only [hs, step1, ht, h2, if_true]; rfl
  by_cases h3 : σ.core.token ∈ keywords
  · refine ⟨(σ.count t).column - len σ.core.token, ?_⟩
    rw [if_neg h1, if_neg h2, if_pos h3]
    apply feed_unread (colf := fun col => col - len σ.core.token) h0 rfl
    intro col; unfold step; simp only [hs, step1, ht, h1, h2, h3, if_true, if_false]
  · refine ⟨(σ.count t).column - len σ.core.token, ?_⟩
    rw [if_neg h1, if_neg h2, if_neg h3]
    apply feed_unread (colf := fun col => col - len σ.core.token) h0 rfl
    intro col; unfold step
    simp only [hs, step1, ht, h1, h2, h3, hne, ne_eq, not_false_eq_true, if_true, if_false]

/-- **word**: a word started at a token boundary and ended by any word-end character `t`: the word
    token is emitted and the scan continues with `t` at a token boundary -/
theorem run_word {name : String} {σ : LexSt} (h0 : σ.core.state = .s0) (htok : σ.core.token = [])
    {c : Char} (hc : WordStart c) {cs : List Char} (hcs : ∀ x ∈ cs, WordChar x) {t : Char}
    (ht : t ∈ wordEnd) (tail : List Char) :
    ∃ σ' col, run name σ (c :: (cs ++ t :: tail)) = run name σ' (t :: tail) ∧ σ'.core = σ.core ∧
      σ'.out = (⟨c :: cs, wordType (c :: cs), ⟨name, σ.line, col⟩⟩, σ.pos) :: σ.out ∧
      σ'.line = σ.line := by
  have hcore : ({ σ.core with token := [], state := .s0 } : Core) = σ.core := by
    cases hσ : σ.core with
    | mk s tk tb => rw [hσ] at h0 htok; simp only at h0 htok; subst h0; subst htok; rfl
  have hn : c ≠ '\n' := by intro e; subst e; exact hc.1 (by decide)
  obtain ⟨σ1, hf1, hk1, ho1, hsl1, hso1, hl1⟩ := feed_start (name := name) h0 hn
    (fun col => step0_wordStart σ.core col hc)
  have hs1 : σ1.core.state = .s1 := by rw [hk1]
  obtain ⟨σ2, hr2, hk2, hfr2⟩ := run_accum (name := name) accum_s1 cs hs1 hcs
  have hs2 : σ2.core.state = .s1 := by rw [hk2]; exact hs1
  have ht2 : σ2.core.token = c :: cs := by rw [hk2, hk1]; simp [htok]
  obtain ⟨col, hf3⟩ := feed_s1_end (name := name) hs2 (by rw [ht2]; simp) ht
  refine ⟨{ σ2 with core := { σ2.core with token := [], state := .s0 },
                    out := (⟨σ2.core.token, wordType σ2.core.token, ⟨name, σ2.startline, col⟩⟩,
                            σ2.startOff) :: σ2.out }, col, ?_, ?_, ?_, ?_⟩
  · rw [run_cons_ok _ hf1, run_append_ok _ hr2]
    simp only [run, hf3]
  · simp only [hk2, hk1]; exact hcore
  · simp only [ht2, hfr2.out, hfr2.startline, hfr2.startOff, ho1, hsl1, hso1]
  · show σ2.line = σ.line
    rw [hfr2.line, hl1]

/-! ### single-character interpunction in state 0 -/

theorem feed_ip {name : String} {σ : LexSt} (h0 : σ.core.state = .s0) {c : Char}
    (hc : c ∈ ['(', ')', '[', ']', ',', ';']) :
    ∃ σ' col, feed name σ c = .ok σ' ∧ σ'.core = σ.core ∧
      σ'.out = (⟨[c], .interpunction, ⟨name, σ.line, col⟩⟩, σ.pos) :: σ.out ∧ σ'.line = σ.line := by
  have hn : c ≠ '\n' := by intro e; subst e; revert hc; decide
  have hstep : ∀ col, step0 σ.core col c = ⟨σ.core, some ([c], .interpunction, col), false⟩ := by
    intro col
    simp only [List.mem_cons, List.not_mem_nil, or_false] at hc
    rcases hc with rfl | rfl | rfl | rfl | rfl | rfl <;> simp [step0]
  simp only [feed, LexSt.count, hn, if_false, LexSt.capture, h0, if_true, LexSt.dispatch, step_s0,
    hstep, LexSt.push]
  exact ⟨_, _, rfl, rfl, rfl, rfl⟩

end Ckl.Lexer
