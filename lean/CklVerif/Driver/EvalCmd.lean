/- driver: AST decoder, session interpreter command.

  (session FLAGS (mods (KEY bundled|user AST|(syn))…) (base NAME…) (eff NAME…) (known NAME…) (prog AST)…)
     FLAGS ::= (flags secure|insecure FUEL)
  → one line:  (session (r OUTCOME (out s:HEX) (syms s:…)) …)
     OUTCOME ::= (val RV) | (rt RV) | (syn) | (fail oof) | (fail unsupported s:HEX) | (fail host s:HEX)
-/
import CklVerif.Model.Eval
import CklVerif.Driver.AstCodec
import CklVerif.Driver.NativeSem
namespace Ckl

def decStr? : Sx → Option String
  | .atom a => if a.startsWith "s:" then (decodeStr (a.drop 2).toString).map String.ofList else none
  | _ => none

def decOptStr? : Sx → Option (Option String)
  | .atom "~" => some none
  | x => (decStr? x).map some

def decBool? : Sx → Option Bool
  | .atom "T" => some true
  | .atom "F" => some false
  | _ => none

def decNames? : Sx → Option (List String)
  | .list (.atom "N" :: xs) => xs.mapM decStr?
  | _ => none

def decOptNames? : Sx → Option (List (Option String))
  | .list (.atom "O" :: xs) => xs.mapM decOptStr?
  | _ => none

def decPos? (file : String) : Sx → Option Pos
  | .atom a =>
    if a.startsWith "@" then
      match ((a.drop 1).toString).splitOn ":" with
      | [l, c] => do some ⟨file, ← l.toNat?, ← c.toInt?⟩
      | _ => none
    else none
  | _ => none

def pairUp : List String → List (String × String)
  | a :: b :: rest => (a, b) :: pairUp rest
  | _ => []

mutual
  partial def decodeNode (file : String) : Sx → Option Node
    | .atom "~" => some .absent
    | .atom "all" => some .catchAll
    | .list (.atom tag :: rest) =>
      let (pos, fields) : Pos × List Sx := match rest with
        | p :: more => match decPos? file p with
          | some q => (q, more)
          | none => ({ file := file }, rest)
        | [] => ({ file := file }, [])
      let d := decodeNode file
      let dl := decodeNodes file
      match tag, fields with
      | "null", [] => some (.null pos)
      | "lit", [.list [.atom "v", v]] => do some (.lit (← decodeVal v) pos)
      | "id", [n] => do some (.ident (← decStr? n) pos)
      | "and", [es] => do some (.and (← dl es) pos)
      | "or", [es] => do some (.or (← dl es) pos)
      | "not", [e] => do some (.not (← d e) pos)
      | "assign", [n, e] => do some (.assign (← decStr? n) (← d e) pos)
      | "assignD", [ns, e] => do some (.assignD (← decNames? ns) (← d e) pos)
      | "block", [es, ce, ch, fin, tl] => do some (.block (← dl es) (← dl ce) (← dl ch) (← dl fin) (← decBool? tl) pos)
      | "break", [] => some (.brk pos)
      | "continue", [] => some (.cont pos)
      | "class", [n, ms] => do some (.cls (← decStr? n) (← dl ms) pos)
      | "def", [n, e, info] => do some (.defn (← decStr? n) (← d e) (← decStr? info) pos)
      | "defD", [ns, e, info] => do some (.defD (← decNames? ns) (← d e) (← decStr? info) pos)
      | "deref", [e, i, df] => do some (.deref (← d e) (← d i) (← d df) pos)
      | "derefAssign", [e, i, v] => do some (.derefAssign (← d e) (← d i) (← d v) pos)
      | "derefInvoke", [o, m, ns, as] => do some (.derefInvoke (← d o) (← decStr? m) (← decOptNames? ns) (← dl as) pos)
      | "slice", [e, a, b] => do some (.slice (← d e) (← d a) (← d b) pos)
      | "error", [e] => do some (.error (← d e) pos)
      | "for", [ids, e, b, w] => do some (.for (← decNames? ids) (← d e) (← d b) (← decStr? w) pos)
      | "call", [f, ns, as] => do some (.call (← d f) (← decOptNames? ns) (← dl as) pos)
      | "if", [cs, es, el] => do some (.ite (← dl cs) (← dl es) (← d el) pos)
      | "in", [e, c] => do some (.isIn (← d e) (← d c) pos)
      | "lambda", [ps, ds, b] => do some (.lambda (← decNames? ps) (← dl ds) (← d b) pos)
      | "list", [items] => do some (.list (← dl items) pos)
      | "compr", [.atom k, .atom sh, ve, ke, i1, l1, w1, i2, l2, w2, c] => do
          let kind ← (match k with | "list" => some ComprKind.list | "set" => some .set | "map" => some .map | _ => none)
          let shape ← (match sh with | "single" => some ComprShape.single | "product" => some .product | "parallel" => some .parallel | _ => none)
          some (.compr kind shape (← d ve) (← d ke) (← decStr? i1) (← d l1) (← decOptStr? w1)
                  ((← decOptStr? i2).getD "") (← d l2) (← decOptStr? w2) (← d c) pos)
      | "map", [ks, vs] => do some (.map (← dl ks) (← dl vs) pos)
      | "object", [ks, vs] => do some (.object (← decNames? ks) (← dl vs) pos)
      | "require", [s, n, u, syms] => do
          let sy ← (match syms with
            | .atom "~" => some none
            | x => (decNames? x).map (fun l => some (pairUp l)))
          some (.require (← d s) (← decOptStr? n) (← decBool? u) sy pos)
      | "return", [e] => do some (.ret (← d e) pos)
      | "set", [items] => do some (.set (← dl items) pos)
      | "spread", [e] => do some (.spread (← d e) pos)
      | "while", [c, b] => do some (.while (← d c) (← d b) pos)
      | _, _ => none
    | _ => none
  partial def decodeNodes (file : String) : Sx → Option (List Node)
    | .list (.atom "L" :: xs) => xs.mapM (decodeNode file)
    | _ => none
end

/-! rendering of runtime values for the protocol -/

partial def encodeRVal (s : State) (depth : Nat) : RVal → Sx
  | .null => .atom "null"
  | .bool b => .list [.atom "b", .atom (if b then "1" else "0")]
  | .int n => .list [.atom "i", .atom (toString n)]
  | .dec m e => .list [.atom "d", .atom (toString m), .atom (toString e)]
  | .str t => encodeVal (.str t)
  | .pat t => encodeVal (.pat t)
  | .date d => encodeVal (.date d)
  | .closure a => .list [.atom "fn", sxStr (fnName s (.closure a))]
  | .native n _ => .list [.atom "fn", sxStr n]
  | .node _ => .list [.atom "node"]
  | .brk _ => .list [.atom "ctl", .atom "break"]
  | .cont _ => .list [.atom "ctl", .atom "continue"]
  | .ret v _ => .list [.atom "ctl", .atom "return", encodeRVal s depth v]
  | .ref a =>
    if depth = 0 then .list [.atom "deep"] else
    match s.cell a with
    | some (.list xs) => .list (.atom "l" :: xs.map (encodeRVal s (depth - 1)))
    | some (.set xs) => .list (.atom "S" :: xs.map (encodeRVal s (depth - 1)))
    | some (.map kvs) => .list (.atom "m" :: kvs.map (fun kv => .list [encodeRVal s (depth - 1) kv.1, encodeRVal s (depth - 1) kv.2]))
    | some (.obj kvs m) => .list (.atom (if m then "module" else "obj") :: kvs.map (fun kv => .list [sxStr kv.1, encodeRVal s (depth - 1) kv.2]))
    | _ => .list [.atom "dangling"]

def encodeFail : Fail → Sx
  | .oof => .list [.atom "fail", .atom "oof"]
  | .unsupported w => .list [.atom "fail", .atom "unsupported", sxStr w]
  | .host k => .list [.atom "fail", .atom "host", sxStr k]
  | .syn e => .list [.atom "syn", sxStr e.msg, .atom (toString e.pos.line)]

/-- `Interpreter.interpret`: evaluate in the session frame, unwrap `return`, reject stray break/continue -/
def interpretProg (ld : Loader) (fuel : Nat) (senv : EnvId) (ast : Node) : EvalM RVal := do
  let r ← eval ld fuel senv ast
  match r with
  | .ret v _ => pure v
  | .brk p => throwE "Cannot use break without surrounding loop" p
  | .cont p => throwE "Cannot use continue without surrounding loop" p
  | v => pure v

/-- the base frame of an interpreter (frame 0) and its session frame (frame 1) -/
def initialState (secure : Bool) (natives : List String) : State × EnvId :=
  let base : Frame := { vars := [], parent := none }
  let s0 : State := { frames := #[base], secure := secure }
  let s1 := s0.put 0 "checkerlang_secure_mode" (.bool secure)
  let s2 := (s1.put 0 "MAXINT" (.int 9223372036854775807)).put 0 "MININT" (.int (-9223372036854775808))
  let s3 := s2.put 0 "NULL" .null
  let s4 := natives.foldl (fun (s : State) n => { (s.put 0 n (.native n s.nextInst)) with nextInst := s.nextInst + 1 }) s3
  s4.newEnv 0

def modelledNatives : List String :=
  ["add", "sub", "mul", "div", "mod", "equals", "not_equals", "less", "less_equals", "greater", "greater_equals",
   "compare", "zip", "if_null", "type", "string", "length", "identity", "is_empty", "is_null", "is_not_null",
   "list", "set", "append", "remove", "insert_at", "delete_at", "put", "range", "sum", "find", "find_last",
   "sublist", "substr", "contains", "starts_with", "ends_with", "chr", "ord", "println", "print", "sorted", "bind_native"]

def decodeModule (file : String) : Sx → Option (String × Bool × Except SynErr Node)
  | .list [k, .atom kind, body] => do
    let key ← decStr? k
    let bundled := kind == "bundled"
    match body with
    | .list [.atom "syn"] => some (key, bundled, .error { msg := "syntax error in module", pos := {} })
    | ast => do some (key, bundled, .ok (← decodeNode ("mod:" ++ file) ast))
  | _ => none

def ghostEntry (e : Pos × Nat) : Sx :=
  .atom (toString e.1.line ++ ":" ++ toString e.1.col ++ "=" ++ toString e.2)

/-- run the programs of a session one after the other on the session frame; the response rows followed by the ghost row -/
def runSessionRows (ld : Loader) (fuel : Nat) (s0 : State) (senv : EnvId) (progs : List Sx) : List Sx := Id.run do
    let step := fun (acc : State × List Sx) (p : Sx) =>
      let (s, outs) := acc
      match p with
      | .list [.atom "prog", .list [.atom "syn"]] =>
        (s, outs ++ [Sx.list [.atom "r", .list [.atom "syn"], .list [.atom "out", .atom "s:"],
                              Sx.list (.atom "syms" :: (s.localSymbols senv).map sxStr)]])
      | .list [.atom "prog", astSx] =>
        match decodeNode "f" astSx with
        | none => (s, outs ++ [Sx.list [.atom "r", .list [.atom "bad-ast"]]])
        | some ast =>
          let s := { s with out := [] }
          let (outcome, s') : Sx × State := match interpretProg ld fuel senv ast s with
            | .ok v s' => (.list [.atom "val", encodeRVal s' 8 v], s')
            | .err v _ p _ s' => (.list [.atom "rt", encodeRVal s' 8 v, .atom (toString p.line)], s')
            | .fail f s' => (encodeFail f, s')
          let syms := Sx.list (.atom "syms" :: (s'.localSymbols senv).map sxStr)
          (s', outs ++ [Sx.list [.atom "r", outcome, .list [.atom "out", .atom ("s:" ++ encodeStr s'.out)], syms]])
      | _ => (s, outs ++ [Sx.list [.atom "r", .list [.atom "bad-prog"]]])
    let (sEnd, outs) := progs.foldl step (s0, [])
    let ghost := Sx.list [.atom "ghost",
      .list (.atom "enter" :: sEnd.ghost.enter.map ghostEntry),
      .list (.atom "fin" :: sEnd.ghost.fin.map ghostEntry),
      .list (.atom "mods" :: sEnd.ghost.moduleEvals.map (fun (e : String × Nat) => Sx.list [sxStr e.1, .atom (toString e.2)])),
      .list [.atom "modstack", .atom (toString sEnd.modstack.length)]]
    return outs ++ [ghost]

/-- the loader of a `session` request: module ASTs, the regenerated native tables, and the driver's interpretation
    `driverNativeSem` / `driverNativeArgs` of the built-ins the evaluator model leaves open -/
def sessionLoader (ms : List (String × Bool × Except SynErr Node)) (eff known realBase : List String) : Loader := {
  bundled := (ms.filter (·.2.1)).map (fun m => (m.1, m.2.2)),
  user := (ms.filter (fun m => !m.2.1)).map (fun m => (m.1, m.2.2)),
  effectful := eff,
  knownNatives := known,
  baseNames := realBase.filter (fun n => !modelledNatives.contains n && !["checkerlang_secure_mode", "MAXINT", "MININT", "NULL"].contains n),
  bundledNames := ["base.ckl", "bitwise.ckl", "core.ckl", "date.ckl", "io.ckl", "legacy.ckl", "list.ckl", "math.ckl", "os.ckl",
                   "predicate.ckl", "random.ckl", "set.ckl", "stat.ckl", "string.ckl", "sys.ckl", "type.ckl"],
  nativeSem := driverNativeSem,
  nativeArgs := driverNativeArgs }

/-- the loader of a `libsetup` request (sessions on the real base environment) -/
def libLoader (ms : List (String × Bool × Except SynErr Node)) (eff known : List String) : Loader := {
  bundled := (ms.filter (·.2.1)).map (fun m => (m.1, m.2.2)),
  user := (ms.filter (fun m => !m.2.1)).map (fun m => (m.1, m.2.2)),
  effectful := eff,
  knownNatives := known,
  baseNames := [], bundledNames := [],
  nativeSem := driverNativeSem,
  nativeArgs := driverNativeArgs }

def handleEval : Sx → Option Sx
  | .list (.atom "session" :: .list [.atom "flags", .atom sec, fuelA] :: .list (.atom "mods" :: mods) ::
      .list (.atom "base" :: baseNames) :: .list (.atom "eff" :: eff) :: .list (.atom "known" :: known) :: progs) => do
    let fuel ← atomNat? fuelA
    let secure := sec == "secure"
    let ms ← mods.mapM (decodeModule "m")
    let realBase ← baseNames.mapM decStr?
    let ld : Loader := sessionLoader ms (← eff.mapM decStr?) (← known.mapM decStr?) realBase
    let (s0, senv) := initialState secure (if realBase.isEmpty then modelledNatives else modelledNatives.filter realBase.contains)
    some (.list (.atom "session" :: runSessionRows ld fuel s0 senv progs))
  | _ => none


/-! ### sessions on the REAL base environment: constants + `bind_native`, then the bundled `base.ckl` / `legacy.ckl` source (handed over
    as an AST like every other bundled module) evaluated in the base frame — `get_base_environment`.  The library code the model then
    runs IS the repository's `.ckl` source, re-read on every run. -/

structure LibSetup where
  ld : Loader
  s0 : State
  senv : EnvId
  fuel : Nat

def libSetup : Sx → Option (Except Sx LibSetup)
  | .list [.atom "libsetup", .list [.atom "flags", .atom sec, fuelA, .atom mode], .list (.atom "mods" :: mods),
      .list (.atom "eff" :: eff), .list (.atom "known" :: known)] => do
    let fuel ← atomNat? fuelA
    let secure := sec == "secure"
    let ms ← mods.mapM (decodeModule "m")
    let ld : Loader := libLoader ms (← eff.mapM decStr?) (← known.mapM decStr?)
    let (s0, senv) := initialState secure ["bind_native"]
    match ld.bundled.lookup (if mode == "legacy" then "legacy.ckl" else "base.ckl") with
    | some (.ok ast) =>
      match eval ld fuel 0 ast s0 with
      | .ok _ s' => some (.ok { ld := ld, s0 := { s' with out := [] }, senv := senv, fuel := fuel })
      | .err v m _ _ s' => some (.error (.list [.atom "libsetup", .atom "rt", encodeRVal s' 4 v, sxStr m]))
      | .fail f _ => some (.error (.list [.atom "libsetup", encodeFail f]))
    | _ => some (.error (.list [.atom "libsetup", .atom "no-base-module"]))
  | _ => none

def libSession (c : LibSetup) : Sx → Option Sx
  | .list (.atom "libsession" :: progs) => some (.list (.atom "session" :: runSessionRows c.ld c.fuel c.s0 c.senv progs))
  | _ => none

end Ckl
