import CklVerif.Lemmas.C18SrcJoin
import CklVerif.Proofs.C18

/-! C18Src — string.ckl `replace` (recursion through the environment, a NAMED argument, a parameter DEFAULT) and `esc` -/
set_option linter.unusedSimpArgs false
namespace Ckl.C18Src
open Ckl Ckl.C03 Ckl.C19Src Ckl.Gen.LibSrc
variable (ld : Loader)

/-! ### call frames: the bound arguments in any order, four parameters, a default -/

/-- the callee frame depends on the bound arguments only through `dictGet` on the parameter names -/
theorem calleeState_congr (s : State) (m : EnvId) (ps : List String) (b1 b2 : List (String × RVal))
    (h : ∀ p ∈ ps, dictGet p b1 = dictGet p b2) : calleeState s m ps b1 = calleeState s m ps b2 := by
  unfold calleeState
  generalize (s.newEnv m).1 = st
  induction ps generalizing st with
  | nil => rfl
  | cons p ps ih =>
    simp only [List.foldl_cons]
    rw [h p (by simp)]
    exact ih (fun q hq => h q (by simp [hq])) _

/-- the bound arguments of `replace` in declaration order -/
def replBound (v1 v2 v3 v4 : RVal) : List (String × RVal) := [("s", v1), ("a", v2), ("b", v3), ("start", v4)]

theorem calleeState_repl (s : State) (m : EnvId) (v1 v2 v3 v4 : RVal) :
    calleeState s m ["s", "a", "b", "start"] (replBound v1 v2 v3 v4) =
      ((((s.newEnv m).1.put s.frames.size "s" v1).put s.frames.size "a" v2).put s.frames.size "b" v3).put s.frames.size
        "start" v4 := by
  simp [calleeState, replBound, dictGet]

theorem calleeState_frame_repl (s : State) {m : EnvId} (hm : m < s.frames.size) (v1 v2 v3 v4 : RVal) :
    CallFrame (calleeState s m ["s", "a", "b", "start"] (replBound v1 v2 v3 v4)) s.frames.size m (replBound v1 v2 v3 v4) := by
  have hlt : s.frames.size < (s.newEnv m).1.frames.size := by rw [frames_size_newEnv]; omega
  rw [calleeState_repl]
  refine ⟨?_, ?_, hm⟩
  · rw [vars_put_same _ _ _ (by simp only [frames_size_put]; exact hlt),
      vars_put_same _ _ _ (by simp only [frames_size_put]; exact hlt),
      vars_put_same _ _ _ (by simp only [frames_size_put]; exact hlt), vars_put_same _ _ _ hlt, frame_newEnv_new]
    simp [dictPut, replBound]
  · rw [parent_put, parent_put, parent_put, parent_put, frame_newEnv_new]

theorem Ctx.calleeRepl {s M nats srcs m} (h : LibEnv s M nats srcs) (hm : M m) (v1 v2 v3 v4 : RVal) :
    Ctx (calleeState s m ["s", "a", "b", "start"] (replBound v1 v2 v3 v4)) M nats srcs s.frames.size m
      (replBound v1 v2 v3 v4) :=
  ⟨h.ext (calleeState_ext ..), hm, calleeState_frame_repl s (h.lt m hm) v1 v2 v3 v4,
    by rw [calleeState_size]; exact Nat.lt_succ_self _⟩

/-- from the body to `fn.execute` for `replace`, all four parameters bound (in any order) -/
theorem calls_of_body_repl {k : Nat} {v : RVal}
    (hk : 4 ≤ k) {s : State} {M nats srcs fn m} (h : LibEnv s M nats srcs) (hm : M m) (hsrc : IsSrc s fn string_replace m)
    (v1 v2 v3 v4 : RVal) (bound : List (String × RVal))
    (h1 : dictGet "s" bound = some v1) (h2 : dictGet "a" bound = some v2) (h3 : dictGet "b" bound = some v3)
    (h4 : dictGet "start" bound = some v4)
    (hb : ∀ s0, Ctx s0 M nats srcs s.frames.size m (replBound v1 v2 v3 v4) → Ext s s0 →
      ∃ s' o, Ext s s' ∧ Ev ld k s.frames.size (lamBody string_replace) s0 o ∧ postCall o = .ok v s') :
    ∃ s', Ext s s' ∧ ∀ env pos, Calls ld (k + 1) fn bound env pos s (.ok v s') := by
  obtain ⟨a, nm, rfl, hcell⟩ := hsrc
  obtain ⟨s', o, e', hev, ho⟩ := hb _ (Ctx.calleeRepl h hm v1 v2 v3 v4) (calleeState_ext s m _ _)
  refine ⟨s', e', fun env pos => ?_⟩
  have hcs : calleeState s m ["s", "a", "b", "start"] bound
      = calleeState s m ["s", "a", "b", "start"] (replBound v1 v2 v3 v4) :=
    calleeState_congr s m _ _ _ (by
      intro p hp; simp at hp
      rcases hp with rfl | rfl | rfl | rfl <;> simp [replBound, dictGet, h1, h2, h3, h4])
  rw [← ho]
  exact Calls.closure ld (ps := ["s", "a", "b", "start"]) hcell rfl hk
    (by intro p hp; simp at hp; rcases hp with rfl | rfl | rfl | rfl <;> simp [h1, h2, h3, h4])
    (by rw [hcs]; exact hev)

/-- position of the default `0` of the parameter `start` -/
def startDefault : Node := (lamDefaults string_replace).getD 3 .absent

/-- `fn.execute` of `replace` with `start` NOT bound: the default `0` is evaluated in the callee frame, and the call behaves as
    with `start = 0` -/
theorem Calls.replace_default {k : Nat} {c : Nat} {bound : List (String × RVal)} {env pos} {s : State} {m nm r}
    {v1 v2 v3 : RVal}
    (hcell : s.cell c = some (.closure m (lamParams string_replace) (lamDefaults string_replace) (lamBody string_replace) nm))
    (hk : 5 ≤ k)
    (h1 : dictGet "s" bound = some v1) (h2 : dictGet "a" bound = some v2) (h3 : dictGet "b" bound = some v3)
    (h4 : dictGet "start" bound = none)
    (hbody : Ev ld k s.frames.size (lamBody string_replace)
      (calleeState s m ["s", "a", "b", "start"] (replBound v1 v2 v3 (.int 0))) r) :
    Calls ld (k + 1) (.closure c) bound env pos s (postCall r) := by
  intro f hf; obtain ⟨g, rfl, hg⟩ := succ_of_lt hf
  obtain ⟨g5, rfl⟩ : ∃ g5, g = g5 + 5 := ⟨g - 5, by omega⟩
  have hbind : bindParams ld (g5 + 5) s.frames.size (lamParams string_replace) (lamDefaults string_replace) bound pos
      (s.newEnv m).1 = .ok () (calleeState s m ["s", "a", "b", "start"] (replBound v1 v2 v3 (.int 0))) := by
    rw [calleeState_repl]
    unfold lamParams lamDefaults string_replace
    simp only []
    rw [bindParams]
    simp only [EvalM.bind_apply, modifyS, h1]
    rw [bindParams]
    simp only [EvalM.bind_apply, modifyS, h2]
    rw [bindParams]
    simp only [EvalM.bind_apply, modifyS, h3]
    rw [bindParams]
    · simp only [EvalM.bind_apply, modifyS, h4, Ev.litInt ld (k := 0) (g5 + 1) (by omega)]
      rw [bindParams]
      · simp only [Bool.false_eq_true, if_false, EvalM.bind_apply, Ev.litInt ld (k := 0) (g5 + 1) (by omega), modifyS]
        rfl
      · intro _ _ _ _ h; cases h
    · intro h; cases h
  rw [C04.callFn_closure ld hcell hbind]
  rw [hbody (g5 + 5) (by omega)]
  cases r with
  | ok v s' => cases v <;> rfl
  | err => rfl
  | fail => rfl

/-! ### argument binding of the two call shapes -/

theorem setArgs_repl4 {x y z w : RVal} {pos : Pos} {s : State} :
    setArgs ["s", "a", "b", "start"] [none, none, none, some "start"] [x, y, z, w] pos s
      = .ok [("start", w), ("s", x), ("a", y), ("b", z)] s := by
  have hsp : addArgs ["s", "a", "b", "start"] = ⟨["s", "a", "b", "start"], none⟩ := addArgs_plain' _ (by decide)
  simp [setArgs, hsp, bindNamed, bindPositional, nameGiven, nextPositional, dictHas, dictGet, dictPut,
    EvalM.bind_apply, EvalM.pure_apply]

theorem setArgs_repl3 {x y z : RVal} {pos : Pos} {s : State} :
    setArgs ["s", "a", "b", "start"] [none, none, none] [x, y, z] pos s = .ok [("s", x), ("a", y), ("b", z)] s :=
  setArgs_pos3 (by decide) (by decide) (by decide) (addArgs_plain' _ (by decide))

theorem setArgs_find {x y w : RVal} {pos : Pos} {s : State} :
    setArgs ["obj", "part", "key", "start"] [none, none, some "start"] [x, y, w] pos s
      = .ok [("start", w), ("obj", x), ("part", y)] s :=
  setArgs_pos2_named (by decide) (by decide) (by decide) (by decide) (by decide) (addArgs_plain' _ (by decide))

/-! ### the recursion measure -/

/-- one recursion step of `replace` strictly decreases `length s - start` -/
theorem replace_measure {cs pa pb : List Char} {st : Int} (ha : pa ≠ []) (hq : Seq.find cs pa st ≠ -1) :
    (Seq.substr cs 0 (some (Seq.find cs pa st)) ++ pb ++ Seq.substr cs (Seq.find cs pa st + pa.length) none).length
      - (Seq.find cs pa st + pb.length).toNat < cs.length - st.toNat := by
  rcases C15.find_cases cs pa st with ⟨h1, _⟩ | ⟨q, h1, h2, h3, _⟩
  · exact absurd h1 hq
  · have hql : q + pa.length ≤ cs.length := h3.2
    have hapos : 0 < pa.length := List.length_pos_iff.mpr ha
    rw [h1, C18.substr_zero_some cs q (by omega)]
    have e1 : ((q : Int) + (pa.length : Int)) = ((q + pa.length : Nat) : Int) := by omega
    rw [e1, C18.substr_nat_none cs (q + pa.length) hql]
    simp only [List.length_append, List.length_take, List.length_drop]
    omega

/-- explicit fuel bound of `replace`: a constant per recursion step; at most `length s - start + 1` steps -/
def replFuel (cs : List Char) (st : Int) : Nat := 30 * (cs.length - st.toNat) + 30

/-! ### the body of `replace` -/

/-- built-ins `replace` uses -/
def replaceNats : List String := ["is_null", "equals", "find", "add", "substr", "length"]
/-- library functions `replace` uses: itself -/
def replaceSrcs : List (String × Node) := [("replace", string_replace)]

theorem rveq_int (s : State) (a b : Int) : rveq s (.int a) (.int b) = decide (a = b) := by
  simp [rveq, rveqF]

/-- the string and the start index of the recursive call -/
def replNextS (cs pa pb : List Char) (st : Int) : List Char :=
  Seq.substr cs 0 (some (Seq.find cs pa st)) ++ pb ++ Seq.substr cs (Seq.find cs pa st + pa.length) none
def replNextI (cs pa pb : List Char) (st : Int) : Int := Seq.find cs pa st + pb.length

theorem replFuel_next {cs pa pb : List Char} {st : Int} (ha : pa ≠ []) (hq : Seq.find cs pa st ≠ -1) :
    replFuel (replNextS cs pa pb st) (replNextI cs pa pb st) + 30 ≤ replFuel cs st := by
  have := replace_measure (pb := pb) ha hq
  unfold replFuel replNextS replNextI
  omega

theorem replaceM_step {cs pa pb : List Char} {st : Int} (ha : pa ≠ []) (hq : Seq.find cs pa st ≠ -1) :
    Str.replaceM cs pa pb st = Str.replaceM (replNextS cs pa pb st) pa pb (replNextI cs pa pb st) := by
  rw [C18.replaceM_unfold cs pa pb st, if_neg ha]
  simp [Str.findM, hq, replNextS, replNextI]

theorem replaceM_stop {cs pa pb : List Char} {st : Int} (ha : pa ≠ []) (hq : Seq.find cs pa st = -1) :
    Str.replaceM cs pa pb st = cs := by
  rw [C18.replaceM_unfold cs pa pb st, if_neg ha]
  simp [Str.findM, hq]

local notation "rbp" => blockPos (lamBody string_replace)

/-- position of the `return` of the guard `if c then return e` that is statement `i` of the body of `replace` -/
def replRetPos (i : Nat) : Pos :=
  match (blockStmts (lamBody string_replace)).getD i .absent with
  | .ite _ (.ret _ p :: _) _ _ => p
  | _ => default

/-- the body of `replace` on strings and an int `start`, given the recursive call (needed when the pattern is not empty and
    occurs) in every later state -/
theorem replace_body {s s0 : State} {M nats srcs m} {cs pa pb : List Char} {st : Int}
    (h : LibEnv s M nats srcs) (hm : M m)
    (ctx : Ctx s0 M nats srcs s.frames.size m (replBound (.str cs) (.str pa) (.str pb) (.int st))) (e0 : Ext s s0)
    (hn : ∀ x ∈ replaceNats, x ∈ nats) (hs : ∀ p ∈ replaceSrcs, p ∈ srcs)
    (ih : pa ≠ [] → Seq.find cs pa st ≠ -1 → ∀ (s2 : State) (fn' : RVal) (m' : EnvId) (bound' : List (String × RVal)),
      LibEnv s2 M nats srcs → M m' → IsSrc s2 fn' string_replace m' →
      dictGet "s" bound' = some (.str (replNextS cs pa pb st)) → dictGet "a" bound' = some (.str pa) →
      dictGet "b" bound' = some (.str pb) → dictGet "start" bound' = some (.int (replNextI cs pa pb st)) →
      ∃ s', Ext s2 s' ∧ ∀ env pos, Calls ld (replFuel (replNextS cs pa pb st) (replNextI cs pa pb st)) fn' bound' env pos s2
        (.ok (.str (Str.replaceM (replNextS cs pa pb st) pa pb (replNextI cs pa pb st))) s')) :
    ∃ s' o, Ext s s' ∧ Ev ld (30 * (cs.length - st.toNat) + 29) s.frames.size (lamBody string_replace) s0 o ∧
      postCall o = .ok (.str (Str.replaceM cs pa pb st)) s' := by
  unfold lamBody string_replace
  simp only []
  generalize hJ : 30 * (cs.length - st.toNat) + 29 = J
  have hcge : s.frames.size ≤ s.frames.size := Nat.le_refl _
  have ctx0 : Ctx (ghostEnter s0 rbp) M nats srcs s.frames.size m
      (replBound (.str cs) (.str pa) (.str pb) (.int st)) := ctx.ext ((Ext.refl s0).ghostEnter _)
  have e0' : Ext s (ghostEnter s0 rbp) := e0.ghostEnter _
  generalize hg : ghostEnter s0 rbp = g at ctx0 e0'
  -- statement 1: `if is_null(s) then return NULL`
  have S1 : ∀ k, 5 ≤ k → ∀ p1 p2 p3 x els p5, Ev ld k s.frames.size
      (.ite [.call (.ident "is_null" p1) [none] [.ident "s" p2] p3] [x] (.lit (.bool true) els) p5) g
      (.ok (.bool true) g) := by
    intro k hk p1 p2 p3 x els p5
    obtain ⟨i, hl⟩ := ctx0.nat (x := "is_null") (hn _ (by decide)) (by rfl)
    have A := Ev.nat1 ld (k := 0) (p := p1) (pos := p3) hl (by rfl) (by decide) (by trivial)
      (Ev.ident ld (p := p2) (ctx0.var (x := "s") (by rfl))) (pure_is_null _ _ _) rfl
    rw [wrapCall_ok] at A
    exact Ev.mono ld (Ev.ite ld (EvIf.false ld A (EvIf.else ld (Ev.litBool ld)))) hk
  -- statement 2: `if a == '' then return s`
  have C2 : ∀ p1 p2 p3 p4, Ev ld 4 s.frames.size
      (.call (.ident "equals" p1) [some "a", some "b"] [.ident "a" p2, .lit (.str []) p3] p4) g
      (.ok (.bool (pa == [])) g) := by
    intro p1 p2 p3 p4
    obtain ⟨i, hl⟩ := ctx0.nat (x := "equals") (hn _ (by decide)) (by rfl)
    have A := Ev.natAB ld (k := 0) (p := p1) (pos := p4) hl (by rfl) (by trivial) (by trivial)
      (Ev.ident ld (p := p2) (ctx0.var (x := "a") (by rfl))) (Ev.litStr ld (p := p3) (t := [])) (pure_equals _ _ _ _) rfl
    rw [wrapCall_ok] at A
    exact Ev.congr ld A (by simp [rveq_str, boolV])
  by_cases ha : pa = []
  · -- the empty pattern: `return s`
    have S2 : ∀ p1 p2 p3 p4 p5 p6 els p8, Ev ld 6 s.frames.size
        (.ite [.call (.ident "equals" p1) [some "a", some "b"] [.ident "a" p2, .lit (.str []) p3] p4]
          [.ret (.ident "s" p5) p6] els p8) g (.ok (.ret (.str cs) p6) g) := by
      intro p1 p2 p3 p4 p5 p6 els p8
      exact Ev.ite ld (EvIf.true ld (Ev.congr ld (C2 p1 p2 p3 p4) (by simp [ha]))
        (Ev.mono ld (Ev.ret ld (k := 0) (by intro h; cases h) (Ev.ident ld (p := p5) (ctx0.var (x := "s") (by rfl))))
          (by decide)))
    subst hg
    refine ⟨ghostFin (ghostEnter s0 rbp) rbp, .ok (.ret (.str cs) (replRetPos 1)) (ghostFin (ghostEnter s0 rbp) rbp), e0'.ghostFin _,
      ?h1, ?h2⟩
    case h1 =>
      exact Ev.mono ld (Ev.block ld (b := false) (pos := rbp)
        (EvBody.cons ld (S1 7 (by decide) _ _ _ _ _ _) rfl (EvBody.stop ld (Ev.mono ld (S2 _ _ _ _ _ _ _ _)
          (by decide)) rfl))) (by omega)
    case h2 => subst ha; rw [C18.replace_empty_pattern]; rfl
  have S2 : ∀ k, 6 ≤ k → ∀ p1 p2 p3 p4 x els p8, Ev ld k s.frames.size
      (.ite [.call (.ident "equals" p1) [some "a", some "b"] [.ident "a" p2, .lit (.str []) p3] p4]
        [x] (.lit (.bool true) els) p8) g (.ok (.bool true) g) := by
    intro k hk p1 p2 p3 p4 x els p8
    exact Ev.mono ld (Ev.ite ld (EvIf.false ld (Ev.congr ld (C2 p1 p2 p3 p4) (by simp [ha]))
      (EvIf.else ld (Ev.litBool ld)))) hk
  -- statement 3: `def pos = find(s, a, start = start)`
  generalize hq : Seq.find cs pa st = q
  let t3 := g.put s.frames.size "pos" (.int q)
  have S3 : ∀ k, 6 ≤ k → ∀ p1 p2 p3 p4 p5 info p6, Ev ld k s.frames.size
      (.defn "pos" (.call (.ident "find" p1) [none, none, some "start"] [.ident "s" p2, .ident "a" p3, .ident "start" p4] p5)
        info p6) g (.ok (.int q) t3) := by
    intro k hk p1 p2 p3 p4 p5 info p6
    obtain ⟨i, hl⟩ := ctx0.nat (x := "find") (hn _ (by decide)) (by rfl)
    obtain ⟨mf, hmf, hmf'⟩ := pure_find_start cs pa st (div0Value g s.frames.size) p5 g
    have A := Ev.callNative ld (k := 3) (p := p1) (pos := p5) hl
      (EvArgs.cons ld (n := none) (by trivial) (Ev.ident ld (k := 2) (p := p2) (ctx0.var (x := "s") (by rfl)))
        (EvArgs.cons ld (n := none) (by trivial) (Ev.ident ld (k := 1) (p := p3) (ctx0.var (x := "a") (by rfl)))
          (EvArgs.cons ld (n := some "start") (by trivial) (Ev.ident ld (k := 0) (p := p4) (ctx0.var (x := "start") (by rfl)))
            (EvArgs.nil ld))))
      (by rfl) setArgs_find hmf
    rw [hmf', wrapCall_ok, hq] at A
    exact Ev.mono ld (Ev.defn ld (by intro a h; cases h) A) hk
  have hclt : s.frames.size < g.frames.size := ctx0.clt
  have E3 : Ext s t3 := e0'.put hcge _ _
  have hvars3 : (t3.frame s.frames.size).vars =
      [("s", .str cs), ("a", .str pa), ("b", .str pb), ("start", .int st), ("pos", .int q)] := by
    show ((g.put _ _ _).frame _).vars = _
    rw [vars_put_same _ _ _ hclt, ctx0.fr.vars]; simp [replBound, dictPut]
  have ctx3 : Ctx t3 M nats srcs s.frames.size m
      [("s", .str cs), ("a", .str pa), ("b", .str pb), ("start", .int st), ("pos", .int q)] :=
    Ctx.ofExt h hm E3 hvars3 (by show ((g.put _ _ _).frame _).parent = _; rw [parent_put]; exact ctx0.fr.parent)
      (by show _ < (g.put _ _ _).frames.size; rw [frames_size_put]; exact hclt)
  -- statement 4: `if pos == -1 then return s`
  have C4 : ∀ p1 p2 p3 p4, Ev ld 4 s.frames.size
      (.call (.ident "equals" p1) [some "a", some "b"] [.ident "pos" p2, .lit (.int (-1)) p3] p4) t3
      (.ok (.bool (decide (q = -1))) t3) := by
    intro p1 p2 p3 p4
    obtain ⟨i, hl⟩ := ctx3.nat (x := "equals") (hn _ (by decide)) (by rfl)
    have A := Ev.natAB ld (k := 0) (p := p1) (pos := p4) hl (by rfl) (by trivial) (by trivial)
      (Ev.ident ld (p := p2) (ctx3.var (x := "pos") (by rfl))) (Ev.litInt ld (p := p3) (n := -1)) (pure_equals _ _ _ _) rfl
    rw [wrapCall_ok] at A
    exact Ev.congr ld A (by simp [rveq_int, boolV])
  by_cases hq1 : q = -1
  · -- no occurrence: `return s`
    have S4 : ∀ p1 p2 p3 p4 p5 p6 els p8, Ev ld 6 s.frames.size
        (.ite [.call (.ident "equals" p1) [some "a", some "b"] [.ident "pos" p2, .lit (.int (-1)) p3] p4]
          [.ret (.ident "s" p5) p6] els p8) t3 (.ok (.ret (.str cs) p6) t3) := by
      intro p1 p2 p3 p4 p5 p6 els p8
      exact Ev.ite ld (EvIf.true ld (Ev.congr ld (C4 p1 p2 p3 p4) (by simp [hq1]))
        (Ev.mono ld (Ev.ret ld (k := 0) (by intro h; cases h) (Ev.ident ld (p := p5) (ctx3.var (x := "s") (by rfl))))
          (by decide)))
    subst hg
    refine ⟨ghostFin t3 rbp, .ok (.ret (.str cs) (replRetPos 3)) (ghostFin t3 rbp), E3.ghostFin _, ?h1, ?h2⟩
    case h1 =>
      exact Ev.mono ld (Ev.block ld (b := false) (pos := rbp)
        (EvBody.cons ld (S1 9 (by decide) _ _ _ _ _ _) rfl
          (EvBody.cons ld (S2 8 (by decide) _ _ _ _ _ _ _) rfl
            (EvBody.cons ld (S3 7 (by decide) _ _ _ _ _ _ _) rfl
              (EvBody.stop ld (S4 _ _ _ _ _ _ _ _) rfl))))) (by omega)
    case h2 =>
      rw [replaceM_stop ha (by rw [hq, hq1])]; rfl
  have S4 : ∀ k, 6 ≤ k → ∀ p1 p2 p3 p4 x els p8, Ev ld k s.frames.size
      (.ite [.call (.ident "equals" p1) [some "a", some "b"] [.ident "pos" p2, .lit (.int (-1)) p3] p4]
        [x] (.lit (.bool true) els) p8) t3 (.ok (.bool true) t3) := by
    intro k hk p1 p2 p3 p4 x els p8
    exact Ev.mono ld (Ev.ite ld (EvIf.false ld (Ev.congr ld (C4 p1 p2 p3 p4) (by simp [hq1]))
      (EvIf.else ld (Ev.litBool ld)))) hk
  -- statement 5: the recursive call
  have hqne : Seq.find cs pa st ≠ -1 := by rw [hq]; exact hq1
  obtain ⟨fr, mr, hlr, hmr, hsrcr⟩ := ctx3.src (x := "replace") (src := string_replace) (hs _ (by simp [replaceSrcs])) (by rfl)
  obtain ⟨s5, e5, c5⟩ := ih ha hqne t3 fr mr
    [("start", .int (replNextI cs pa pb st)), ("s", .str (replNextS cs pa pb st)), ("a", .str pa), ("b", .str pb)]
    ctx3.env hmr hsrcr (by rfl) (by rfl) (by rfl) (by rfl)
  have hfuel := replFuel_next (pb := pb) ha hqne
  generalize hK' : replFuel (replNextS cs pa pb st) (replNextI cs pa pb st) = K' at c5 hfuel
  have hJ' : replFuel cs st = J + 1 := by unfold replFuel; omega
  have hK'30 : 30 ≤ K' := by rw [← hK']; unfold replFuel; omega
  obtain ⟨J0, rfl⟩ : ∃ J0, K' = J0 + 4 := ⟨K' - 4, by omega⟩
  obtain ⟨il, hll⟩ := ctx3.nat (x := "length") (hn _ (by decide)) (by rfl)
  obtain ⟨ia, hla⟩ := ctx3.nat (x := "add") (hn _ (by decide)) (by rfl)
  obtain ⟨iu, hlu⟩ := ctx3.nat (x := "substr") (hn _ (by decide)) (by rfl)
  -- `pos + length(x)` for a string parameter `x`
  have PL : ∀ (x : String) (tx : List Char), dictGet x [("s", RVal.str cs), ("a", .str pa), ("b", .str pb), ("start", .int st),
      ("pos", .int q)] = some (.str tx) → ∀ p1 p2 p3 p4 p5 p6, Ev ld 7 s.frames.size
        (.call (.ident "add" p1) [some "a", some "b"] [.ident "pos" p2, .call (.ident "length" p3) [none] [.ident x p4] p5] p6)
        t3 (.ok (.int (q + tx.length)) t3) := by
    intro x tx hx p1 p2 p3 p4 p5 p6
    obtain ⟨ml, hml, hml'⟩ := pure_length_str tx (div0Value t3 s.frames.size) p5 t3
    have A := Ev.nat1 ld (k := 0) (p := p3) (pos := p5) hll (by rfl) (by decide) (by trivial)
      (Ev.ident ld (p := p4) (ctx3.var hx)) hml hml'
    rw [wrapCall_ok] at A
    have B := Ev.natAB ld (k := 3) (p := p1) (pos := p6) hla (by rfl) (by trivial) (by trivial)
      (Ev.ident ld (p := p2) (ctx3.var (x := "pos") (by rfl))) A (pure_add _ _ _ _) (nativeAdd_int _ _ _ _)
    rw [wrapCall_ok] at B
    exact B
  have E1 : ∀ p1 p2 p3 p4 p5 p6 p7 p8 p9 p10 p11 p12 p13 p14 p15 p16 p17 p18 p19, Ev ld 15 s.frames.size
      (.call (.ident "add" p1) [some "a", some "b"]
        [.call (.ident "add" p2) [some "a", some "b"]
          [.call (.ident "substr" p3) [none, none, none] [.ident "s" p4, .lit (.int 0) p5, .ident "pos" p6] p7,
           .ident "b" p8] p9,
         .call (.ident "substr" p10) [none, none]
          [.ident "s" p11, .call (.ident "add" p12) [some "a", some "b"]
            [.ident "pos" p13, .call (.ident "length" p14) [none] [.ident "a" p15] p16] p17] p18] p19) t3
      (.ok (.str (replNextS cs pa pb st)) t3) := by
    intro p1 p2 p3 p4 p5 p6 p7 p8 p9 p10 p11 p12 p13 p14 p15 p16 p17 p18 p19
    obtain ⟨m1, hm1, hm1'⟩ := pure_substr3 cs 0 q (div0Value t3 s.frames.size) p7 t3
    have A := Ev.nat3 ld (k := 0) (p := p3) (pos := p7) hlu (by rfl) (by decide) (by decide) (by decide) (by decide)
      (by trivial) (by trivial) (by trivial)
      (Ev.ident ld (p := p4) (ctx3.var (x := "s") (by rfl))) (Ev.litInt ld (p := p5) (n := 0))
      (Ev.ident ld (p := p6) (ctx3.var (x := "pos") (by rfl))) hm1 hm1'
    rw [wrapCall_ok] at A
    have B := Ev.natAB ld (k := 5) (p := p2) (pos := p9) hla (by rfl) (by trivial) (by trivial)
      A (Ev.ident ld (p := p8) (ctx3.var (x := "b") (by rfl))) (pure_add _ _ _ _) (nativeAdd_str _ _ _ _)
    rw [wrapCall_ok] at B
    obtain ⟨m2, hm2, hm2'⟩ := pure_substr2 cs (q + pa.length) (div0Value t3 s.frames.size) p18 t3
    have C := Ev.nat2 ld (k := 7) (p := p10) (pos := p18) hlu (by rfl) (by decide) (by decide) (by trivial) (by trivial)
      (Ev.ident ld (p := p11) (ctx3.var (x := "s") (by rfl))) (PL "a" pa (by rfl) p12 p13 p14 p15 p16 p17) hm2 hm2'
    rw [wrapCall_ok] at C
    have D := Ev.natAB ld (k := 11) (p := p1) (pos := p19) hla (by rfl) (by trivial) (by trivial)
      (Ev.mono ld B (by decide)) C (pure_add _ _ _ _) (nativeAdd_str _ _ _ _)
    rw [wrapCall_ok] at D
    unfold replNextS; rw [hq]
    exact D
  have hI : replNextI cs pa pb st = q + pb.length := by unfold replNextI; rw [hq]
  have S5 : ∀ q1 q2 q3 q4 q5 q6 q7 q8 q9 q10 p1 p2 p3 p4 p5 p6 p7 p8 p9 p10 p11 p12 p13 p14 p15 p16 p17 p18 p19,
      Ev ld (J0 + 4 + 2) s.frames.size
      (.call (.ident "replace" q1) [none, none, none, some "start"]
        [.call (.ident "add" p1) [some "a", some "b"]
          [.call (.ident "add" p2) [some "a", some "b"]
            [.call (.ident "substr" p3) [none, none, none] [.ident "s" p4, .lit (.int 0) p5, .ident "pos" p6] p7,
             .ident "b" p8] p9,
           .call (.ident "substr" p10) [none, none]
            [.ident "s" p11, .call (.ident "add" p12) [some "a", some "b"]
              [.ident "pos" p13, .call (.ident "length" p14) [none] [.ident "a" p15] p16] p17] p18] p19,
         .ident "a" q2, .ident "b" q3,
         .call (.ident "add" q4) [some "a", some "b"]
            [.ident "pos" q5, .call (.ident "length" q6) [none] [.ident "b" q7] q8] q9] q10) t3
      (.ok (.str (Str.replaceM (replNextS cs pa pb st) pa pb (replNextI cs pa pb st))) s5) := by
    intro q1 q2 q3 q4 q5 q6 q7 q8 q9 q10 p1 p2 p3 p4 p5 p6 p7 p8 p9 p10 p11 p12 p13 p14 p15 p16 p17 p18 p19
    obtain ⟨c, nm, rfl, hcell⟩ := hsrcr
    have hcell' : t3.cell c = some (.closure mr ["s", "a", "b", "start"] (lamDefaults string_replace)
        (lamBody string_replace) nm) := hcell
    have R := Ev.callClosure ld (k := J0 + 4) (p := q1) (pos := q10) hlr
      (EvArgs.cons ld (n := none) (by trivial)
        (Ev.mono ld (E1 p1 p2 p3 p4 p5 p6 p7 p8 p9 p10 p11 p12 p13 p14 p15 p16 p17 p18 p19) (show 15 ≤ J0 + 3 by omega))
        (EvArgs.cons ld (n := none) (by trivial) (Ev.ident ld (k := J0 + 2) (p := q2) (ctx3.var (x := "a") (by rfl)))
          (EvArgs.cons ld (n := none) (by trivial) (Ev.ident ld (k := J0 + 1) (p := q3) (ctx3.var (x := "b") (by rfl)))
            (EvArgs.cons ld (n := some "start") (by trivial)
              (Ev.congr ld (Ev.mono ld (PL "b" pb (by rfl) q4 q5 q6 q7 q8 q9) (show 7 ≤ J0 by omega)) (by rw [hI]))
              (EvArgs.nil ld)))))
      hcell' setArgs_repl4 (c5 _ _)
    rw [wrapCall_ok] at R
    exact R
  subst hg
  refine ⟨ghostFin s5 rbp, .ok (.str (Str.replaceM (replNextS cs pa pb st) pa pb (replNextI cs pa pb st))) (ghostFin s5 rbp),
    (E3.trans e5).ghostFin _, ?_, ?_⟩
  · exact Ev.mono ld (Ev.block ld (b := false) (pos := rbp)
      (EvBody.cons ld (S1 (J0 + 10) (by omega) _ _ _ _ _ _) rfl
        (EvBody.cons ld (S2 (J0 + 9) (by omega) _ _ _ _ _ _ _) rfl
          (EvBody.cons ld (S3 (J0 + 8) (by omega) _ _ _ _ _ _ _) rfl
            (EvBody.cons ld (S4 (J0 + 7) (by omega) _ _ _ _ _ _ _) rfl
              (EvBody.cons ld (S5 _ _ _ _ _ _ _ _ _ _ _ _ _ _ _ _ _ _ _ _ _ _ _ _ _ _ _ _ _) rfl (EvBody.nil ld))))))) (by omega)
  · rw [replaceM_step ha hqne]; rfl

/-! ### `fn.execute` of `replace` -/

theorem replace_calls_aux (n : Nat) : ∀ {s : State} {M : EnvId → Prop} {nats srcs fn m} (cs pa pb : List Char) (st : Int)
    (bound : List (String × RVal)), cs.length - st.toNat ≤ n →
    LibEnv s M nats srcs → (∀ x ∈ replaceNats, x ∈ nats) → (∀ p ∈ replaceSrcs, p ∈ srcs) → M m →
    IsSrc s fn string_replace m →
    dictGet "s" bound = some (.str cs) → dictGet "a" bound = some (.str pa) → dictGet "b" bound = some (.str pb) →
    dictGet "start" bound = some (.int st) →
    ∃ s', Ext s s' ∧ ∀ env pos, Calls ld (replFuel cs st) fn bound env pos s (.ok (.str (Str.replaceM cs pa pb st)) s') := by
  induction n with
  | zero =>
    intro s M nats srcs fn m cs pa pb st bound hle h hn hs hm hsrc h1 h2 h3 h4
    exact calls_of_body_repl ld (k := 30 * (cs.length - st.toNat) + 29) (by omega) h hm hsrc _ _ _ _ bound h1 h2 h3 h4
      (fun s0 ctx e0 => replace_body ld h hm ctx e0 hn hs (fun ha hq => by
        have := replace_measure (pb := pb) ha hq
        omega))
  | succ n ihn =>
    intro s M nats srcs fn m cs pa pb st bound hle h hn hs hm hsrc h1 h2 h3 h4
    exact calls_of_body_repl ld (k := 30 * (cs.length - st.toNat) + 29) (by omega) h hm hsrc _ _ _ _ bound h1 h2 h3 h4
      (fun s0 ctx e0 => replace_body ld h hm ctx e0 hn hs (fun ha hq s2 fn' m' bound' h2' hm' hsrc' b1 b2 b3 b4 =>
        ihn (replNextS cs pa pb st) pa pb (replNextI cs pa pb st) bound'
          (by have := replace_measure (pb := pb) ha hq; unfold replNextS replNextI; omega) h2' hn hs hm' hsrc' b1 b2 b3 b4))

/-- `fn.execute(s, a, b, start)` (all four bound, in any order) of the function made from the source of `replace`, on strings and
    an int start index: the mirror `Str.replaceM`; explicit fuel bound `replFuel s start = 30 * (length s - start) + 30` -/
theorem replace_calls {s : State} {M nats srcs fn m} (h : LibEnv s M nats srcs) (hn : ∀ x ∈ replaceNats, x ∈ nats)
    (hs : ∀ p ∈ replaceSrcs, p ∈ srcs) (hm : M m) (hsrc : IsSrc s fn string_replace m) (cs pa pb : List Char) (st : Int)
    (bound : List (String × RVal))
    (h1 : dictGet "s" bound = some (.str cs)) (h2 : dictGet "a" bound = some (.str pa))
    (h3 : dictGet "b" bound = some (.str pb)) (h4 : dictGet "start" bound = some (.int st)) :
    ∃ s', Ext s s' ∧ ∀ env pos, Calls ld (replFuel cs st) fn bound env pos s (.ok (.str (Str.replaceM cs pa pb st)) s') :=
  replace_calls_aux ld _ cs pa pb st bound (Nat.le_refl _) h hn hs hm hsrc h1 h2 h3 h4

/-- `start` not given: the default `0` -/
theorem replace_calls_default {s : State} {M nats srcs fn m} (h : LibEnv s M nats srcs) (hn : ∀ x ∈ replaceNats, x ∈ nats)
    (hs : ∀ p ∈ replaceSrcs, p ∈ srcs) (hm : M m) (hsrc : IsSrc s fn string_replace m) (cs pa pb : List Char)
    (bound : List (String × RVal))
    (h1 : dictGet "s" bound = some (.str cs)) (h2 : dictGet "a" bound = some (.str pa))
    (h3 : dictGet "b" bound = some (.str pb)) (h4 : dictGet "start" bound = none) :
    ∃ s', Ext s s' ∧ ∀ env pos, Calls ld (replFuel cs 0) fn bound env pos s (.ok (.str (Str.replaceM cs pa pb 0)) s') := by
  obtain ⟨c, nm, rfl, hcell⟩ := hsrc
  obtain ⟨s', o, e', hev, ho⟩ := replace_body ld (st := 0) h hm (Ctx.calleeRepl h hm (.str cs) (.str pa) (.str pb) (.int 0))
    (calleeState_ext s m _ _) hn hs (fun ha hq s2 fn' m' bound' h2' hm' hsrc' b1 b2 b3 b4 =>
      replace_calls ld h2' hn hs hm' hsrc' _ _ _ _ bound' b1 b2 b3 b4)
  refine ⟨s', e', fun env pos => ?_⟩
  rw [← ho]
  exact Calls.replace_default ld hcell (by omega) h1 h2 h3 h4 hev

/-- `replace(NULL, a, b, start)` is NULL, whatever the other arguments are -/
theorem replace_calls_null {s : State} {M nats srcs fn m} (h : LibEnv s M nats srcs) (hn : ∀ x ∈ replaceNats, x ∈ nats)
    (hm : M m) (hsrc : IsSrc s fn string_replace m) (v2 v3 v4 : RVal)
    (bound : List (String × RVal))
    (h1 : dictGet "s" bound = some .null) (h2 : dictGet "a" bound = some v2)
    (h3 : dictGet "b" bound = some v3) (h4 : dictGet "start" bound = some v4) :
    ∃ s', Ext s s' ∧ ∀ env pos, Calls ld 8 fn bound env pos s (.ok .null s') :=
  calls_of_body_repl ld (k := 7) (by omega) h hm hsrc _ _ _ _ bound h1 h2 h3 h4 (fun s0 ctx e0 => by
    have ctx0 : Ctx (ghostEnter s0 rbp) M nats srcs s.frames.size m (replBound .null v2 v3 v4) :=
      ctx.ext ((Ext.refl s0).ghostEnter _)
    have S1 : ∀ p1 p2 p3 p4 p5 els p6, Ev ld 5 s.frames.size
        (.ite [.call (.ident "is_null" p1) [none] [.ident "s" p2] p3] [.ret (.ident "NULL" p4) p5] els p6)
        (ghostEnter s0 rbp) (.ok (.ret .null p5) (ghostEnter s0 rbp)) := by
      intro p1 p2 p3 p4 p5 els p6
      obtain ⟨i, hl⟩ := ctx0.nat (x := "is_null") (hn _ (by decide)) (by rfl)
      have A := Ev.nat1 ld (k := 0) (p := p1) (pos := p3) hl (by rfl) (by decide) (by trivial)
        (Ev.ident ld (p := p2) (ctx0.var (x := "s") (by rfl))) (pure_is_null _ _ _) rfl
      rw [wrapCall_ok] at A
      exact Ev.ite ld (EvIf.true ld A (Ev.mono ld (Ev.ret ld (k := 0) (by intro h; cases h)
        (Ev.ident ld (p := p4) (ctx0.null (by rfl)))) (by decide)))
    refine ⟨ghostFin (ghostEnter s0 rbp) rbp, .ok (.ret .null (replRetPos 0)) (ghostFin (ghostEnter s0 rbp) rbp),
      (e0.ghostEnter _).ghostFin _, ?_, rfl⟩
    unfold lamBody string_replace
    simp only []
    exact Ev.mono ld (Ev.block ld (b := false) (pos := rbp) (EvBody.stop ld (S1 _ _ _ _ _ _ _) rfl)) (by decide))

/-! ### `esc(str) = replace(replace(replace(str, '&', '&amp;'), '<', '&lt;'), '>', '&gt;')` -/

/-- built-ins / library functions `esc` uses -/
def escSrcs : List (String × Node) := [("replace", string_replace)]

/-- a three-argument call `replace(e, 'a', 'b')` (literal pattern and replacement, `start` defaulted) where `e` yields a string -/
theorem replace_call3 {s : State} {M nats srcs c m vars} (ctx : Ctx s M nats srcs c m vars)
    (hn : ∀ x ∈ replaceNats, x ∈ nats) (hs : ∀ p ∈ replaceSrcs, p ∈ srcs) (hv : dictGet "replace" vars = none)
    {k : Nat} {e : Node} {s1 : State} {x : List Char} (a b : List Char)
    (he : Ev ld k c e s (.ok (.str x) s1)) (e1 : Ext s s1) (hns : NotSpread e) :
    ∃ s2, Ext s1 s2 ∧ ∀ p1 p2 p3 p4, Ev ld (max k (replFuel x 0) + 5) c
      (.call (.ident "replace" p1) [none, none, none] [e, .lit (.str a) p2, .lit (.str b) p3] p4) s
      (.ok (.str (Str.replaceM x a b 0)) s2) := by
  obtain ⟨fr, mr, hlr, hmr, hsrcr⟩ := ctx.src (x := "replace") (src := string_replace) (hs _ (by simp [replaceSrcs])) hv
  have ctx1 := ctx.ext e1
  have hsrc1 := hsrcr.ext e1
  obtain ⟨s2, e2, c2⟩ := replace_calls_default ld ctx1.env hn hs hmr hsrc1 x a b
    [("s", .str x), ("a", .str a), ("b", .str b)] (by rfl) (by rfl) (by rfl) (by rfl)
  refine ⟨s2, e2, fun p1 p2 p3 p4 => ?_⟩
  obtain ⟨cc, nm, rfl, hcell⟩ := hsrc1
  have hcell' : s1.cell cc = some (.closure mr ["s", "a", "b", "start"] (lamDefaults string_replace)
      (lamBody string_replace) nm) := hcell
  generalize hK : max k (replFuel x 0) = K0
  have R := Ev.callClosure ld (k := K0 + 3) (p := p1) (pos := p4) hlr
    (EvArgs.cons ld (n := none) hns (Ev.mono ld he (show k ≤ K0 + 2 by omega))
      (EvArgs.cons ld (n := none) (by trivial) (Ev.litStr ld (k := K0 + 1) (p := p2) (t := a))
        (EvArgs.cons ld (n := none) (by trivial) (Ev.litStr ld (k := K0) (p := p3) (t := b)) (EvArgs.nil ld))))
    hcell' setArgs_repl3 (Calls.mono ld (c2 _ _) (by omega))
  rw [wrapCall_ok] at R
  exact R

/-- what `esc` computes: three successive replacements -/
def escM (cs : List Char) : List Char :=
  Str.replaceM (Str.replaceM (Str.replaceM cs ['&'] ['&', 'a', 'm', 'p', ';'] 0) ['<'] ['&', 'l', 't', ';'] 0)
    ['>'] ['&', 'g', 't', ';'] 0

/-- explicit fuel bound of `esc`: the three nested calls -/
def escFuel (cs : List Char) : Nat :=
  let x1 := Str.replaceM cs ['&'] ['&', 'a', 'm', 'p', ';'] 0
  let x2 := Str.replaceM x1 ['<'] ['&', 'l', 't', ';'] 0
  max (max (max 0 (replFuel cs 0) + 5) (replFuel x1 0) + 5) (replFuel x2 0) + 5 + 1

/-- first argument of a call node -/
def callArg0 : Node → Node
  | .call _ _ (a :: _) _ => a
  | _ => .absent

theorem esc_calls {s : State} {M nats srcs fn m} (h : LibEnv s M nats srcs) (hn : ∀ x ∈ replaceNats, x ∈ nats)
    (hs : ∀ p ∈ replaceSrcs, p ∈ srcs) (hm : M m) (hsrc : IsSrc s fn string_esc m) (cs : List Char) :
    ∃ s', Ext s s' ∧ ∀ env pos, Calls ld (escFuel cs) fn [("str", .str cs)] env pos s (.ok (.str (escM cs)) s') :=
  calls_of_body1 ld (src := string_esc) (r := fun s' => .ok (.str (escM cs)) s') rfl rfl rfl (by omega)
    h hm hsrc (.str cs) (fun s0 ctx e0 => by
      have he0 : Ev ld 0 s.frames.size (callArg0 (callArg0 (callArg0 (lamBody string_esc)))) s0 (.ok (.str cs) s0) :=
        Ev.ident ld (ctx.var (x := "str") (by rfl))
      obtain ⟨s1, e1, c1⟩ := replace_call3 ld ctx hn hs (by rfl) ['&'] ['&', 'a', 'm', 'p', ';'] he0 (Ext.refl _) (by trivial)
      have he1 : Ev ld _ s.frames.size (callArg0 (callArg0 (lamBody string_esc))) s0 _ := c1 _ _ _ _
      obtain ⟨s2, e2, c2⟩ := replace_call3 ld ctx hn hs (by rfl) ['<'] ['&', 'l', 't', ';'] he1 e1 (by trivial)
      have he2 : Ev ld _ s.frames.size (callArg0 (lamBody string_esc)) s0 _ := c2 _ _ _ _
      obtain ⟨s3, e3, c3⟩ := replace_call3 ld ctx hn hs (by rfl) ['>'] ['&', 'g', 't', ';'] he2 (e1.trans e2) (by trivial)
      exact ⟨s3, (e1.trans e2).trans e3, c3 _ _ _ _⟩)

end Ckl.C18Src
