import CklVerif.Lemmas.C20EvalStep

/-! C20 (evaluator part) — induction step for `callFn`, `sorted`, `require`. -/
namespace Ckl
attribute [local irreducible] ValsOK DictOK PairsOK
set_option linter.unusedSectionVars false
set_option linter.unusedVariables false

variable {P : Pos → Prop} {ld : Loader} {fuel : Nat}

theorem callFn_step (ctx : Ctx P ld) (ih : PAll P ld fuel) :
    ∀ fn bound env pos, P pos → DictOK P bound → POK P (callFn ld (fuel+1) fn bound env pos) := by
  intro fn bound env pos hp hbound
  ih_intro ih ctx
  cases fn
  case closure a =>
    unfold Ckl.callFn
    apply PosOK.getS_bind
    intro s hs
    split
    · rename_i heq
      have hc := hs.closure heq
      cases hc
      posok!
    · posok!
  case native name inst =>
    unfold Ckl.callFn
    apply PosOK.getS_bind
    intro s hs
    split
    · rename_i m heq
      refine PosOK.callPure _ hbound ?_ (fun _ => EP.nil hp) _ heq
      intro v hv
      unfold div0Value at hv
      split at hv
      · cases hv; exact hs.lookup (by assumption)
      · cases hv
    · posok!
  all_goals (unfold Ckl.callFn; posok!)

theorem nativeSorted_step (ctx : Ctx P ld) (ih : PAll P ld fuel) :
    ∀ bound env pos, P pos → DictOK P bound → POK P (nativeSorted ld (fuel+1) bound env pos) := by
  intro bound env pos hp hbound
  ih_intro ih ctx
  unfold Ckl.nativeSorted
  posok!

theorem sortedOuter_step (ctx : Ctx P ld) (ih : PAll P ld fuel) :
    ∀ cmp key senv pos arr i, P pos → ValsOK P arr.toList →
      POK P (sortedOuter ld (fuel+1) cmp key senv pos arr i) := by
  intro cmp key senv pos arr i hp harr
  ih_intro ih ctx
  unfold Ckl.sortedOuter
  posok!

theorem sortedInner_step (ctx : Ctx P ld) (ih : PAll P ld fuel) :
    ∀ cmp key senv pos arr v j, P pos → ValsOK P arr.toList → ValOK P v →
      POK P (sortedInner ld (fuel+1) cmp key senv pos arr v j) := by
  intro cmp key senv pos arr v j hp harr hv
  ih_intro ih ctx
  cases j <;> unfold Ckl.sortedInner <;> posok!

theorem call1_step (ctx : Ctx P ld) (ih : PAll P ld fuel) :
    ∀ f x env pos, P pos → ValOK P x → POK P (call1 ld (fuel+1) f x env pos) := by
  intro f x env pos hp hx
  ih_intro ih ctx
  unfold Ckl.call1
  posok!

theorem call2_step (ctx : Ctx P ld) (ih : PAll P ld fuel) :
    ∀ f x y env pos, P pos → ValOK P x → ValOK P y → POK P (call2 ld (fuel+1) f x y env pos) := by
  intro f x y env pos hp hx hy
  ih_intro ih ctx
  unfold Ckl.call2
  posok!

theorem mapState_POK {m : EvalM EnvId} (h : POK P m) (pop : State → State)
    (hpop : ∀ s, (pop s).heap = s.heap ∧ (pop s).frames = s.frames) :
    POK P (fun s1 => match m s1 with
      | .ok e s2 => .ok e (pop s2)
      | .err v msg p t s2 => .err v msg p t (pop s2)
      | .fail f s2 => .fail f (pop s2) : EvalM EnvId) := by
  constructor
  intro s1 hs1
  have := h.run s1 hs1
  cases hr : m s1 with
  | ok a s2 => rw [hr] at this; exact ⟨trivial, StOK.of_eq (hpop _).1 (hpop _).2 this.2⟩
  | err v msg p t s2 => rw [hr] at this; exact ⟨this.1, StOK.of_eq (hpop _).1 (hpop _).2 this.2⟩
  | fail f s2 => rw [hr] at this; exact StOK.of_eq (hpop _).1 (hpop _).2 this

theorem evalRequire_step (ctx : Ctx P ld) (ih : PAll P ld fuel) :
    ∀ env spec name unq syms pos, NodeOK P spec → P pos →
      POK P (evalRequire ld (fuel+1) env spec name unq syms pos) := by
  intro env spec name unq syms pos hspec hp
  ih_intro ih ctx
  have hm := fun env ident file => mapState_POK (ih.loadModule env ident file pos hp)
    (fun s => { s with modstack := s.modstack.dropLast }) (fun _ => ⟨rfl, rfl⟩)
  unfold Ckl.evalRequire
  posok!
  all_goals first | exact hm _ _ _ | skip

theorem loadModule_step (ctx : Ctx P ld) (ih : PAll P ld fuel) :
    ∀ env ident modulefile pos, P pos → POK P (loadModule ld (fuel+1) env ident modulefile pos) := by
  intro env ident modulefile pos hp
  ih_intro ih ctx
  have hl := ctx.loader
  unfold Ckl.loadModule
  posok!

end Ckl
