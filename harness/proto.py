"""Value codec: abstract values <-> ckl values <-> S-expressions of the driver protocol.

Abstract value (what generators produce, hashable tuples):
  ('null',) ('b', bool) ('i', int) ('d', float) ('s', str) ('p', str)
  ('dt', (y, mo, d, h, mi, s, us)) ('l', (items...)) ('S', (items...)) ('m', ((k, v)...))
Sets / maps list their elements in INSERTION order.
"""
import datetime
import math
from fractions import Fraction


# ---------------------------------------------------------------- sexp text

def enc_str(s):
    return "".join("%06x" % ord(c) for c in s)


def dec_str(h):
    return "".join(chr(int(h[i:i + 6], 16)) for i in range(0, len(h), 6))


def float_to_me(x):
    """exact dyadic m / 2^e of a finite float"""
    num, den = x.as_integer_ratio()
    return num, den.bit_length() - 1


def me_to_float(m, e):
    return float(Fraction(m, 2 ** e))


def to_sx(av):
    t = av[0]
    if t == 'null':
        return "null"
    if t == 'b':
        return "(b 1)" if av[1] else "(b 0)"
    if t == 'i':
        return f"(i {av[1]})"
    if t == 'd':
        m, e = float_to_me(av[1])
        return f"(d {m} {e})"
    if t == 's':
        return f"(s {enc_str(av[1])})" if av[1] else "(s)"
    if t == 'p':
        return f"(p {enc_str(av[1])})" if av[1] else "(p)"
    if t == 'dt':
        return "(dt " + " ".join(str(x) for x in av[1]) + ")"
    if t == 'l':
        return "(l" + "".join(" " + to_sx(x) for x in av[1]) + ")"
    if t == 'S':
        return "(S" + "".join(" " + to_sx(x) for x in av[1]) + ")"
    if t == 'm':
        return "(m" + "".join(f" ({to_sx(k)} {to_sx(v)})" for k, v in av[1]) + ")"
    raise ValueError(av)


def parse_sx(text):
    """parse one S-expression into nested python lists / str atoms"""
    toks = text.replace("(", " ( ").replace(")", " ) ").split()
    pos = 0

    def rd():
        nonlocal pos
        t = toks[pos]
        pos += 1
        if t == "(":
            out = []
            while toks[pos] != ")":
                out.append(rd())
            pos += 1
            return out
        return t
    r = rd()
    if pos != len(toks):
        raise ValueError("trailing tokens: " + text[:200])
    return r


def from_sx(x):
    """parsed sexp -> abstract value (sets/maps in the MODEL's enumeration order)"""
    if x == "null":
        return ('null',)
    h = x[0]
    if h == 'b':
        return ('b', x[1] == "1")
    if h == 'i':
        return ('i', int(x[1]))
    if h == 'd':
        return ('d', me_to_float(int(x[1]), int(x[2])))
    if h == 's':
        return ('s', dec_str(x[1]) if len(x) > 1 else "")
    if h == 'p':
        return ('p', dec_str(x[1]) if len(x) > 1 else "")
    if h == 'dt':
        return ('dt', tuple(int(v) for v in x[1:]))
    if h == 'l':
        return ('l', tuple(from_sx(v) for v in x[1:]))
    if h == 'S':
        return ('S', tuple(from_sx(v) for v in x[1:]))
    if h == 'm':
        return ('m', tuple((from_sx(k), from_sx(v)) for k, v in x[1:]))
    raise ValueError(x)


def sx_string(x):
    """decode a `(s HEX)` response payload"""
    return dec_str(x[1]) if len(x) > 1 else ""


# ---------------------------------------------------------------- ckl values

def to_ckl(av):
    from ckl import values as V
    t = av[0]
    if t == 'null':
        return V.NULL
    if t == 'b':
        return V.TRUE if av[1] else V.FALSE
    if t == 'i':
        return V.ValueInt(av[1])
    if t == 'd':
        return V.ValueDecimal(av[1])
    if t == 's':
        return V.ValueString(av[1])
    if t == 'p':
        return V.ValuePattern(av[1])
    if t == 'dt':
        y, mo, d, h, mi, s, us = av[1]
        return V.ValueDate(datetime.datetime(y, mo, d, h, mi, s, us))
    if t == 'l':
        r = V.ValueList()
        for x in av[1]:
            r.addItem(to_ckl(x))
        return r
    if t == 'S':
        r = V.ValueSet()
        for x in av[1]:
            r.addItem(to_ckl(x))
        return r
    if t == 'm':
        r = V.ValueMap()
        for k, v in av[1]:
            r.addItem(to_ckl(k), to_ckl(v))
        return r
    raise ValueError(av)


class NotData(Exception):
    pass


def from_ckl(v, sorted_enum=False):
    """ckl value -> abstract value.  Sets/maps in storage order, or in the
    implementation's own enumeration order when sorted_enum."""
    from ckl import values as V
    if v is V.NULL or isinstance(v, V.ValueNull):
        return ('null',)
    if isinstance(v, V.ValueBoolean):
        return ('b', bool(v.value))
    if isinstance(v, V.ValueInt):
        if not isinstance(v.value, int) or isinstance(v.value, bool):
            raise NotData(f"int with payload {type(v.value).__name__}")
        return ('i', v.value)
    if isinstance(v, V.ValueDecimal):
        if not isinstance(v.value, float):
            raise NotData(f"decimal with payload {type(v.value).__name__}")
        if math.isnan(v.value) or math.isinf(v.value):
            raise NotData("non-finite decimal")
        return ('d', v.value)
    if isinstance(v, V.ValueString):
        return ('s', v.value)
    if isinstance(v, V.ValuePattern):
        return ('p', v.value)
    if isinstance(v, V.ValueDate):
        d = v.value
        return ('dt', (d.year, d.month, d.day, d.hour, d.minute, d.second, d.microsecond))
    if isinstance(v, V.ValueList):
        return ('l', tuple(from_ckl(x, sorted_enum) for x in v.value))
    if isinstance(v, V.ValueSet):
        items = v.getSortedItems() if sorted_enum else list(v.value)
        return ('S', tuple(from_ckl(x, sorted_enum) for x in items))
    if isinstance(v, V.ValueMap):
        keys = v.getSortedKeys() if sorted_enum else list(v.value.keys())
        return ('m', tuple((from_ckl(k, sorted_enum), from_ckl(v.value[k], sorted_enum)) for k in keys))
    raise NotData(type(v).__name__)


def canon(av):
    """order-free canonical form for comparing CONTENTS: sets and map entries
    sorted by the harness's own total order on canonical forms"""
    t = av[0]
    if t == 'd':
        return ('d',) + float_to_me(av[1])
    if t == 'l':
        return ('l', tuple(canon(x) for x in av[1]))
    if t == 'S':
        return ('S', tuple(sorted((canon(x) for x in av[1]), key=repr)))
    if t == 'm':
        return ('m', tuple(sorted(((canon(k), canon(v)) for k, v in av[1]), key=repr)))
    return av


def enum_form(av):
    """canonical form keeping enumeration order (floats as exact dyadics)"""
    t = av[0]
    if t == 'd':
        return ('d',) + float_to_me(av[1])
    if t == 'l' or t == 'S':
        return (t, tuple(enum_form(x) for x in av[1]))
    if t == 'm':
        return ('m', tuple((enum_form(k), enum_form(v)) for k, v in av[1]))
    return av


def show(av):
    """short human-readable form for evidence samples / replay files"""
    t = av[0]
    if t == 'null':
        return "NULL"
    if t == 'b':
        return "TRUE" if av[1] else "FALSE"
    if t in ('i',):
        return str(av[1])
    if t == 'd':
        return repr(av[1])
    if t == 's':
        return repr(av[1])
    if t == 'p':
        return "//" + av[1] + "//"
    if t == 'dt':
        return "date(%04d-%02d-%02d %02d:%02d:%02d.%06d)" % av[1]
    if t == 'l':
        return "[" + ", ".join(show(x) for x in av[1]) + "]"
    if t == 'S':
        return "<<" + ", ".join(show(x) for x in av[1]) + ">>"
    if t == 'm':
        return "<<<" + ", ".join(f"{show(k)} => {show(v)}" for k, v in av[1]) + ">>>"
    return repr(av)
