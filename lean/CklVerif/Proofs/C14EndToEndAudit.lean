import CklVerif.Proofs.C14EndToEnd

/-! axiom audit of the C14 end-to-end theorems (at most `propext`, `Classical.choice`, `Quot.sound`) -/
open Ckl

#print axioms Ckl.C14X.erase_eq
#print axioms Ckl.C14X.nodeSim_of_erase
#print axioms Ckl.C14X.nodeSim_iff_erase
#print axioms Ckl.C14X.SrcSim.refl
#print axioms Ckl.C14X.SrcSim.symm
#print axioms Ckl.C14X.SrcSim.trans
#print axioms Ckl.C14X.SrcSim.of_ok
#print axioms Ckl.C14X.SrcSim.of_error
#print axioms Ckl.C14X.SrcSim.cases
#print axioms Ckl.C14X.srcSim_layout
#print axioms Ckl.C14X.LayoutEq.srcSim
#print axioms Ckl.C14X.LayoutEq.crlf
#print axioms Ckl.C14X.LayoutEq.comment
#print axioms Ckl.C14X.OutSimX.refl
#print axioms Ckl.C14X.OutSimX.symm
#print axioms Ckl.C14X.OutSimX.trans
#print axioms Ckl.C14X.OutSim.toX
#print axioms Ckl.C14X.outSimX_syn
#print axioms Ckl.C14X.OutSimX.cases
#print axioms Ckl.C14X.OutSimX.state
#print axioms Ckl.C14X.interpretSource_srcSim
#print axioms Ckl.C14X.interpret_layout_irrelevant
#print axioms Ckl.C14X.interpret_layoutEq_irrelevant
#print axioms Ckl.C14X.interpret_crlf_lf
#print axioms Ckl.C14X.interpret_comment_irrelevant
#print axioms Ckl.C14X.output_layout_irrelevant
#print axioms Ckl.C14X.result_layout_irrelevant
#print axioms Ckl.C14X.error_layout_irrelevant
#print axioms Ckl.C14X.syntax_error_layout_irrelevant
#print axioms Ckl.C14X.nextState_simX
#print axioms Ckl.C14X.session_layout_irrelevant
#print axioms Ckl.C14X.session_output_layout_irrelevant
#print axioms Ckl.C14X.interpretProg_lit
#print axioms Ckl.C14X.interpretSource_lit
#print axioms Ckl.C14X.interpretProg_int
#print axioms Ckl.C14X.interpretProg_str
#print axioms Ckl.C14X.interpret_int_spellings
#print axioms Ckl.C14X.interpret_string_spellings
#print axioms Ckl.C14X.interpret_quote_styles
#print axioms Ckl.C14X.nodeSim_funcCallAB
#print axioms Ckl.C14X.interpret_ne_spelling_partial
#print axioms Ckl.C14X.interpret_of_parse_sim
#print axioms Ckl.C14X.Ex.U_boundary
#print axioms Ckl.C14X.Ex.W_filler
#print axioms Ckl.C14X.erase_bridge
#print axioms Ckl.C14X.eraseL_bridge
