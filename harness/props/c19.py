"""C19 Collection and numeric library functions satisfy their defining laws."""
import collections
import math
import multiprocessing as mp
import signal
from fractions import Fraction

from harness import core, proto, libcases
from harness.props import common
from harness.props.c06 import ref_eq

_state = {}


class Alarm(BaseException):
    pass


def _on_alarm(sig, frm):
    raise Alarm()


MODULES = ["Bitwise", "Core", "Date", "IO", "List", "Math", "Predicate", "Random", "Set", "String", "Stat", "Sys", "Type"]


def _worker(job):
    legacy, chunk = job
    core.use_repo()
    from ckl.interpreter import Interpreter
    from ckl.errors import CklRuntimeError
    key = "it_legacy" if legacy else "it_modules"
    if key not in _state:
        it = _state[key] = Interpreter(True, legacy)
        if not legacy:
            # the library as a program without the legacy globals sees it: module code resolves its names in the plain base environment
            for m in MODULES:
                it.interpret(f"require {m} unqualified", "req")
        signal.signal(signal.SIGALRM, _on_alarm)
    it = _state[key]
    out = []
    for func, req, src, env in chunk:
        for k, v in env.items():
            it.environment.put(k, proto.to_ckl(v))
        signal.setitimer(signal.ITIMER_REAL, 20, 0.5)
        try:
            v = it.interpret(src, "t")
            signal.setitimer(signal.ITIMER_REAL, 0)
            try:
                out.append(('ok', proto.enum_form(proto.from_ckl(v, sorted_enum=True))))
            except proto.NotData as e:
                out.append(('notdata', str(e)))
        except CklRuntimeError as e:
            signal.setitimer(signal.ITIMER_REAL, 0)
            out.append(('err', str(getattr(e, 'msg', e))[:120]))
        except Alarm:
            signal.setitimer(signal.ITIMER_REAL, 0)
            out.append(('timeout',))
        except BaseException as e:  # noqa
            signal.setitimer(signal.ITIMER_REAL, 0)
            out.append(('host', type(e).__name__ + ": " + str(e)[:80]))
    return out


def pyv(av):
    t = av[0]
    if t in ('i', 'd', 's', 'b'):
        return av[1]
    if t == 'null':
        return None
    if t in ('l', 'S'):
        return [pyv(x) for x in av[1]]
    raise ValueError(av)


def members(av):
    return list(av[1])


def mem(x, xs):
    return any(ref_eq(x, y) for y in xs)


def reference(func, env, res):
    """check the implementation's result against the defining law; returns an error text or None"""
    if res[0] != 'ok':
        return None
    v = res[1]

    def ints(key):
        a = env.get(key)
        return a is not None and a[0] == 'i'
    try:
        if func in ('union', 'intersection', 'diff', 'symmetric_diff'):
            a, b = members(env['a']), members(env['b'])
            if v[0] != 'S':
                return "the result is not a set"
            r = list(v[1])
            rr = [proto.from_sx(proto.parse_sx(proto.to_sx(('l', ())))) for _ in ()]  # noqa
            got = [x for x in r]
            # compare by membership over the universe a ++ b ++ result
            uni = a + b
            for x in uni + [unform(y) for y in got]:
                ina, inb = mem(x, a), mem(x, b)
                want = {'union': ina or inb, 'intersection': ina and inb, 'diff': ina and not inb, 'symmetric_diff': ina != inb}[func]
                if mem(x, [unform(y) for y in got]) != want:
                    return f"membership of {proto.show(x)} in the result is {not want}, set theory says {want}"
            for i in range(len(got)):
                for j in range(i + 1, len(got)):
                    if ref_eq(unform(got[i]), unform(got[j])):
                        return "the result holds two equal elements"
            return None
        if func == 'reverse' and env['a'][0] == 'l':
            return None if [unform(x) for x in v[1]] == list(reversed(members(env['a']))) else "not the reversed list"
        if func in ('pow',) and ints('a') and ints('b') and env['b'][1] >= 0:
            return None if v == ('i', env['a'][1] ** env['b'][1]) else f"expected {env['a'][1] ** env['b'][1]}"
        if func == 'gcd' and ints('a') and ints('b'):
            return None if v == ('i', math.gcd(env['a'][1], env['b'][1])) else f"expected {math.gcd(env['a'][1], env['b'][1])}"
        if func == 'lcm' and ints('a') and ints('b'):
            return None if v == ('i', math.lcm(env['a'][1], env['b'][1])) else f"expected {math.lcm(env['a'][1], env['b'][1])}"
        if func == 'abs' and ints('a'):
            return None if v == ('i', abs(env['a'][1])) else "abs"
        if func == 'sign' and ints('a'):
            a = env['a'][1]
            return None if v == ('i', (a > 0) - (a < 0)) else "sign"
        if func == 'div' and ints('a') and ints('b') and env['b'][1] != 0:
            a, b = env['a'][1], env['b'][1]
            q = abs(a) // abs(b)
            q = -q if (a < 0) != (b < 0) else q
            return None if v == ('i', q) else f"expected {q}"
        if func == 'mod' and ints('a') and ints('b') and env['b'][1] != 0:
            a, b = env['a'][1], env['b'][1]
            if v[0] != 'i':
                return "not an int"
            r = v[1]
            return None if abs(r) < abs(b) and (a - r) % b == 0 else f"|a%b| < |b| and b | a - a%b fails for {r}"
        W = 1 << 32
        if func in ('bit_and', 'bit_or', 'bit_xor') and ints('a') and ints('b') and 0 <= env['a'][1] < W and 0 <= env['b'][1] < W:
            a, b = env['a'][1], env['b'][1]
            w = {'bit_and': a & b, 'bit_or': a | b, 'bit_xor': a ^ b}[func]
            return None if v == ('i', w) else f"expected {w}"
        if func == 'bit_not' and ints('a') and 0 <= env['a'][1] < W:
            return None if v == ('i', W - 1 - env['a'][1]) else "bit_not"
        if func in ('bit_rotate_left', 'bit_rotate_right') and ints('a') and ints('n') and 0 <= env['a'][1] < W:
            a, n = env['a'][1], env['n'][1] % 32
            w = ((a << n) | (a >> (32 - n))) & (W - 1) if func == 'bit_rotate_left' else ((a >> n) | (a << (32 - n))) & (W - 1)
            return None if v == ('i', w) else f"expected {w}"
        if func == 'bit_shift_left' and ints('a') and ints('n') and env['n'][1] >= 0:
            return None if v == ('i', env['a'][1] * 2 ** env['n'][1]) else "shift left"
        if func == 'bit_shift_right' and ints('a') and ints('n') and env['n'][1] >= 0:
            return None if v == ('i', env['a'][1] // 2 ** env['n'][1]) else "shift right"
        if func == 'sum' and env['a'][0] == 'l' and all(x[0] == 'i' for x in env['a'][1]):
            return None if v == ('i', sum(x[1] for x in env['a'][1])) else "sum"
        if func == 'prod' and env['a'][0] == 'l' and env['a'][1] and all(x[0] == 'i' for x in env['a'][1]):
            return None if v == ('i', math.prod(x[1] for x in env['a'][1])) else "prod"
        if func == 'flatten' and env['a'][0] == 'l':
            want = []
            for x in env['a'][1]:
                want += list(x[1]) if x[0] == 'l' else [x]
            return None if [unform(x) for x in v[1]] == want else "not the one-level flattening"
        if func == 'zip' and env['a'][0] == 'l' and env['b'][0] == 'l':
            want = [('l', (x, y)) for x, y in zip(env['a'][1], env['b'][1])]
            return None if [unform(x) for x in v[1]] == want else "zip"
        if func == 'pairs' and env['a'][0] == 'l':
            xs = list(env['a'][1])
            want = [('l', (x, y)) for x, y in zip(xs, xs[1:])]
            return None if [unform(x) for x in v[1]] == want else "pairs"
        if func == 'enumerate' and env['a'][0] == 'l':
            want = [('l', (('i', i), x)) for i, x in enumerate(env['a'][1])]
            return None if [unform(x) for x in v[1]] == want else "enumerate"
        if func == 'chunks' and env['a'][0] == 'l' and ints('k') and env['k'][1] > 0:
            k = env['k'][1]
            chunks = [list(c[1]) for c in v[1]]
            flat = [unform(x) for c in chunks for x in c]
            if flat != list(env['a'][1]):
                return "the chunks do not concatenate to the input"
            if any(len(c) != k for c in chunks[:-1]) or (chunks and len(chunks[-1]) > k):
                return "chunk sizes"
            return None
        if func == 'unique' and env['a'][0] == 'l' and 'key' not in str(env.get('__menu', '')):
            pass
    except (KeyError, ValueError, TypeError, IndexError):
        return None
    return None


def extra_cases(rng, scale):
    """library functions whose textbook definition is written out here (no model request): folds with non-commutative functions,
    filter / map_list / count / any / all / unique on int lists, range in its one-, two- and three-argument forms, interval"""
    out = []
    big = [2 ** 64, -2 ** 64 + 1, 2 ** 80]

    def ints(maxlen=7, lo=0):
        return ('l', tuple(('i', rng.choice(big) if rng.random() < 0.08 else rng.randint(-9, 9)) for _ in range(rng.randint(lo, maxlen))))
    for _ in range(max(1, int(1500 * scale))):
        a = ints(lo=1)
        out.append(('x_reduce_sub', None, "reduce(a, sub)", {'a': a}))
        out.append(('x_reduce_digits', None, "reduce(a, fn(acc, x) 10 * acc + x)", {'a': a}))
        out.append(('x_reduce_pair', None, "reduce(a, fn(acc, x) [acc, x])", {'a': a}))
        out.append(('x_reduce_str', None, "reduce(map_list(a, string), fn(acc, x) acc + '|' + x)", {'a': a}))
        a = ints()
        out.append(('x_filter_pos', None, "filter(a, fn(x) x > 0)", {'a': a}))
        out.append(('x_map_sq', None, "map_list(a, fn(x) x * x - 1)", {'a': a}))
        out.append(('x_count', None, "count(a, x)", {'a': a, 'x': ('i', rng.randint(-3, 3))}))
        out.append(('x_any_pos', None, "any(a, fn(x) x > 5)", {'a': a}))
        out.append(('x_all_pos', None, "all(a, fn(x) x > -5)", {'a': a}))
        out.append(('x_unique', None, "unique(a)", {'a': a}))
    for _ in range(max(1, int(1200 * scale))):
        mk = lambda: (rng.choice(['l', 'S']), tuple(('i', rng.randint(0, 6)) for _ in range(rng.randint(0, 5))))   # noqa
        a, b = mk(), mk()
        if a[0] == 'S':
            a = ('S', tuple(dict.fromkeys(a[1])))
        if b[0] == 'S':
            b = ('S', tuple(dict.fromkeys(b[1])))
        out.append(('x_setops_seq', None, "[union(a, b), intersection(a, b), diff(a, b), symmetric_diff(a, b), union(b, a), intersection(b, a), a, b]", {'a': a, 'b': b}))
    for a in range(-5, 6):
        for b in range(-5, 6):
            out.append(('x_interval', None, "interval(a, b)", {'a': ('i', a), 'b': ('i', b)}))
            out.append(('x_range2', None, "range(a, b)", {'a': ('i', a), 'b': ('i', b)}))
            for st in (-3, -1, 1, 2, 4):
                out.append(('x_range3', None, "range(a, b, s)", {'a': ('i', a), 'b': ('i', b), 's': ('i', st)}))
        out.append(('x_range1', None, "range(a)", {'a': ('i', a)}))
    return out


def extra_reference(func, env, res):
    """the textbook definition for the extra cases; None = agrees"""
    if res[0] != 'ok':
        return f"ends with {res}"
    v = res[1]
    a = [x[1] for x in env['a'][1]] if env['a'][0] == 'l' else env['a'][1]

    def form(x):
        if isinstance(x, bool):
            return ('b', x)
        if isinstance(x, int):
            return ('i', x)
        if isinstance(x, str):
            return ('s', x)
        return ('l', tuple(form(y) for y in x))
    import functools
    if func == 'x_setops_seq':
        A, B = [x[1] for x in env['a'][1]], [x[1] for x in env['b'][1]]
        sa, sb = set(A), set(B)
        S_ = lambda xs: ('S', tuple(('i', x) for x in sorted(xs)))   # noqa
        want_ = ('l', (S_(sa | sb), S_(sa & sb), S_(sa - sb), S_(sa ^ sb), S_(sa | sb), S_(sa & sb),
                       (env['a'][0], tuple(('i', x) for x in (A if env['a'][0] == 'l' else sorted(sa)))),
                       (env['b'][0], tuple(('i', x) for x in (B if env['b'][0] == 'l' else sorted(sb))))))
        return None if v == want_ else f"the definition (operands unchanged) gives {want_}"
    if func == 'x_reduce_sub':
        want = functools.reduce(lambda acc, x: acc - x, a)
    elif func == 'x_reduce_digits':
        want = functools.reduce(lambda acc, x: 10 * acc + x, a)
    elif func == 'x_reduce_pair':
        want = functools.reduce(lambda acc, x: [acc, x], a)
    elif func == 'x_reduce_str':
        want = functools.reduce(lambda acc, x: acc + '|' + x, [str(x) for x in a])
    elif func == 'x_filter_pos':
        want = [x for x in a if x > 0]
    elif func == 'x_map_sq':
        want = [x * x - 1 for x in a]
    elif func == 'x_count':
        want = sum(1 for x in a if x == env['x'][1])
    elif func == 'x_any_pos':
        want = any(x > 5 for x in a)
    elif func == 'x_all_pos':
        want = all(x > -5 for x in a)
    elif func == 'x_unique':
        want = list(dict.fromkeys(a))
    elif func == 'x_interval':
        want = list(range(a, env['b'][1] + 1))
    elif func == 'x_range2':
        want = list(range(a, env['b'][1]))
    elif func == 'x_range3':
        want = list(range(a, env['b'][1], env['s'][1]))
    elif func == 'x_range1':
        want = list(range(a))
    else:
        return None
    return None if v == form(want) else f"the definition gives {form(want)}"


def canon_model(d):
    """a model value dump in the enumeration form the implementation side is reported in (sets sorted like proto.enum_form)"""
    try:
        return proto.enum_form(proto.from_ckl(proto.to_ckl(undump(d)), sorted_enum=True))
    except Exception:  # noqa
        return d


def undump(d):
    """session dump (already enum_form for scalars) -> abstract value"""
    t = d[0]
    if t == 'd':
        return ('d', proto.me_to_float(d[1], d[2]))
    if t in ('l', 'S'):
        return (t, tuple(undump(x) for x in d[1]))
    if t == 'm':
        return ('m', tuple((undump(k), undump(v)) for k, v in d[1]))
    return d


def unform(x):
    """enum_form value -> abstract value"""
    t = x[0]
    if t == 'd':
        return ('d', proto.me_to_float(x[1], x[2]))
    if t in ('l', 'S'):
        return (t, tuple(unform(y) for y in x[1]))
    if t == 'm':
        return ('m', tuple((unform(k), unform(v)) for k, v in x[1]))
    return x


def run(ctx):
    scale = 1.0 if ctx.thorough else 0.12
    cases = libcases.gen_cases(ctx.seed, scale)
    ctx.rule = ("random lists and sets of length <= 8 over ints (incl. beyond 2^64), decimals and strings with duplicates and 1 versus 1.0 "
                "through union/intersection/diff/symmetric_diff/unique/reverse/flatten/zip/enumerate/range/interval/chunks/pairs/grouped/"
                "filter/map_list/reduce/sum/prod/count/any/all; all permutations of lists of length <= 5 through mean/median*/min/max; int "
                "arguments up to 2^80 through pow/gcd/lcm/abs/sign/div/mod; folds with non-commutative functions, filter/map_list/count/any/all/unique and range/interval against their definitions written out;  all 32-bit boundary words x shift counts -40..40 through the "
                "bitwise functions; each case in an interpreter with the legacy globals and in one that requires the modules (same answer demanded); checked against the defining laws (host ints, set theory, permutation invariance) and the Lean model; "
                "non-trivial = every case (duplicates, mixed 1/1.0 and huge ints dominate)")
    n_model = len(cases)
    cases = cases + extra_cases(ctx.rng, scale)
    chunks = [cases[i:i + 1500] for i in range(0, len(cases), 1500)]
    with mp.Pool(16) as pool:
        real = [r for res in pool.map(_worker, [(True, c) for c in chunks]) for r in res]
        plain = [r for res in pool.map(_worker, [(False, c) for c in chunks]) for r in res]
    resp = (core.run_driver([c[1] for c in cases[:n_model]]) if ctx.build.ok else [None] * n_model) + [None] * (len(cases) - n_model)
    perm_groups = collections.defaultdict(set)
    for (func, req, src, env), r, m, r2 in zip(cases, real, resp, plain):
        ctx.seen((func, req), nontrivial=True)
        ctx.count("cases_" + func)
        rp = {"op": func, "program": src, "vars": {k: proto.show(v) for k, v in env.items()}}
        if r2[0] != r[0] or (r[0] == 'ok' and r2 != r):
            ctx.violation("oracle", f"`{src}` with {rp['vars']} gives {r2} when the library is required as modules, {r} with the legacy globals", dict(rp, mode="modules"))
        if r[0] in ('host', 'timeout', 'notdata'):
            ctx.violation("oracle", f"`{src}` with {rp['vars']} ends with {r}", rp)
            continue
        why = extra_reference(func, env, r) if func.startswith("x_") else reference(func, env, r)
        if why:
            ctx.violation("oracle", f"`{src}` with {rp['vars']} gives {r[1]}: {why}", rp)
        if func in ('mean', 'median', 'median_low', 'median_high', 'min', 'max') and 'a' in env and env['a'][0] == 'l':
            key = (func, tuple(sorted(repr(proto.canon(x)) for x in env['a'][1])))
            perm_groups[key].add(r)
        if m is not None:
            mm = libcases.model_form(func, m)
            if mm[0] == 'unsupported':
                ctx.count("model_abstains")
            elif mm[0] == 'bad':
                raise RuntimeError("driver: " + m[:200])
            else:
                ctx.count("model_checked")
                same = (mm[0] == r[0] == 'err') or (mm[0] == 'ok' and r[0] == 'ok' and mm[1] == r[1])
                if not same:
                    ctx.disagreements += 1
                    ctx.violation("correspondence", f"`{src}` with {rp['vars']}: model {mm}, implementation {r}",
                                  dict(rp, correspondence="Ckl.Lib." + func + " vs implementation"))
    # ---------------- the repository's own library source, run by the model evaluator on the real base environment
    if ctx.build.ok:
        from harness import session
        idx = [i for i, c in enumerate(cases) if real[i][0] in ('ok', 'err')]
        if not ctx.thorough:
            idx = ctx.rng.sample(idx, min(len(idx), 6000))
        progs = []
        for i in idx:
            func, req, src, env = cases[i]
            progs.append(["".join(f"def {k} = {proto.to_ckl(v)}; " for k, v in env.items()) + src])
        outs, why = session.run_lib_sessions(progs, legacy=True)
        if outs is None:
            ctx.disagreements += 1
            ctx.violation("correspondence", f"the model evaluator cannot build the base environment from the bundled sources: {why[:300]}",
                          {"op": "libsetup", "correspondence": "Ckl.eval on base.ckl / legacy.ckl vs get_base_environment"})
        else:
            for i, m in zip(idx, outs):
                func, req, src, env = cases[i]
                mo = m[0][0]
                if mo[0] == 'fail':
                    ctx.count("library_source_model_abstains")
                    continue
                ctx.count("library_source_model_checked")
                r = real[i]
                same = (mo[0] == 'rt' and r[0] == 'err') or (mo[0] == 'val' and r[0] == 'ok' and canon_model(mo[1]) == r[1])
                if not same:
                    ctx.disagreements += 1
                    ctx.violation("correspondence", f"`{src}` with {({k: proto.show(v) for k, v in env.items()})}: the model evaluator running the bundled "
                                  f"library source gives {mo[:2]}, the implementation {r}",
                                  {"op": func, "program": progs[idx.index(i)][0], "correspondence": "Ckl.eval on the bundled .ckl sources vs Interpreter"})
    for (func, key), results in perm_groups.items():
        ctx.count("permutation_classes")
        if len(results) > 1:
            ctx.violation("oracle", f"{func} is not invariant under permutation of its input {key}: {sorted(results, key=repr)[:3]}",
                          {"op": func, "multiset": list(key)})
    ctx.sample({"call": "median_low([5, 1, 3])", "result": 3})
    ctx.sample({"call": "bit_rotate_left_32(2147483648, 1)", "result": 1})
    ctx.sample({"call": cases[0][2], "vars": {k: proto.show(v) for k, v in cases[0][3].items()}})
    # results of non-mutating operations are independent of their inputs (strings included); parameter defaults are per call
    from harness import progcheck as _pc
    _pc.run_templates(ctx, common.independence_cases(), "result-independence")
    common.replay_known(ctx)


def replay(ctx, payload):
    return common.generic_replay(ctx, payload)
