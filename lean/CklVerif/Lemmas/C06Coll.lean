/-
  Helper lemmas for C06: membership / lookup modulo `veq`, `dedupKeepFirst`, `assocPut`.
-/
import CklVerif.Lemmas.C06Eq

namespace Ckl

theorem memV_cons (a x : Val) (xs : List Val) : memV a (x :: xs) = (veq a x || memV a xs) := by
  simp [memV]

theorem memV_nil (a : Val) : memV a [] = false := by simp [memV]

theorem memV_eq_true_iff (a : Val) (xs : List Val) :
    memV a xs = true ↔ ∃ x ∈ xs, veq a x = true := by
  simp [memV]

theorem memV_eq_false_iff (a : Val) (xs : List Val) :
    memV a xs = false ↔ ∀ x ∈ xs, veq a x = false := by
  simp [memV]

theorem memV_congr' {a b : Val} (h : veq a b = true) (xs : List Val) : memV a xs = memV b xs := by
  induction xs with
  | nil => rfl
  | cons x xs ih => rw [memV_cons, memV_cons, ih, veq_congr_left h]

theorem lookupM_congr' {a b : Val} (h : veq a b = true) (m : List (Val × Val)) :
    lookupM a m = lookupM b m := by
  induction m with
  | nil => rfl
  | cons kv m ih =>
    obtain ⟨k, v⟩ := kv
    simp only [lookupM, ih, veq_congr_left h]

/-- filtering out the elements equal to `x` does not change membership of things not equal to `x` -/
theorem memV_filter_ne {x y : Val} (h : veq y x = false) (l : List Val) :
    memV y (l.filter (fun z => !veq x z)) = memV y l := by
  induction l with
  | nil => rfl
  | cons z l ih =>
    rw [List.filter_cons]
    split
    · rw [memV_cons, memV_cons, ih]
    · rename_i hz
      have hz' : veq x z = true := by simpa using hz
      have : veq y z = false := by
        rw [← veq_congr_right hz']; exact h
      rw [ih, memV_cons, this, Bool.false_or]

theorem dedup_mem' (x : Val) (xs : List Val) : memV x (dedupKeepFirst xs) = memV x xs := by
  induction xs with
  | nil => rfl
  | cons y ys ih =>
    simp only [dedupKeepFirst]
    rw [memV_cons, memV_cons]
    cases h : veq x y with
    | true => simp
    | false => rw [memV_filter_ne h, ih]

theorem dedup_pairwise' (xs : List Val) :
    (dedupKeepFirst xs).Pairwise (fun x y => veq x y = false) := by
  induction xs with
  | nil => exact List.Pairwise.nil
  | cons x xs ih =>
    simp only [dedupKeepFirst]
    apply List.Pairwise.cons
    · intro y hy
      have := (List.mem_filter.mp hy).2
      simpa using this
    · exact ih.filter _

/-- a list without `veq`-duplicates is left unchanged -/
theorem dedup_of_pairwise {xs : List Val} (h : xs.Pairwise (fun x y => veq x y = false)) :
    dedupKeepFirst xs = xs := by
  induction xs with
  | nil => rfl
  | cons x xs ih =>
    rw [List.pairwise_cons] at h
    simp only [dedupKeepFirst, ih h.2]
    congr 1
    rw [List.filter_eq_self]
    intro y hy
    simp [h.1 y hy]

/-! ### association lists -/

theorem assocPut_lookup_same' (k v : Val) (m : List (Val × Val)) :
    lookupM k (assocPut k v m) = some v := by
  induction m with
  | nil => simp [assocPut, lookupM, veq_refl']
  | cons kv m ih =>
    obtain ⟨k', v'⟩ := kv
    simp only [assocPut]
    split
    · rename_i h; simp [lookupM, h]
    · rename_i h; simp [lookupM, h, ih]

theorem assocPut_lookup_other' {k k' : Val} (h : veq k k' = false) (v : Val)
    (m : List (Val × Val)) : lookupM k' (assocPut k v m) = lookupM k' m := by
  have h' : veq k' k = false := by rw [veq_symm']; exact h
  induction m with
  | nil => simp [assocPut, lookupM, h']
  | cons kv m ih =>
    obtain ⟨k'', v''⟩ := kv
    simp only [assocPut]
    split
    · rename_i hk
      have : veq k' k'' = false := by
        rw [← veq_congr_right hk]; exact h'
      simp [lookupM, this]
    · simp only [lookupM, ih]

def keysOf (m : List (Val × Val)) : List Val := m.map Prod.fst

theorem keysOf_assocPut (k v : Val) (m : List (Val × Val)) :
    keysOf (assocPut k v m) = if memV k (keysOf m) then keysOf m else keysOf m ++ [k] := by
  induction m with
  | nil => simp [assocPut, keysOf, memV]
  | cons kv m ih =>
    obtain ⟨k', v'⟩ := kv
    simp only [assocPut]
    split
    · rename_i h
      simp [keysOf, memV, h]
    · rename_i h
      have h' : veq k k' = false := by simpa using h
      simp only [keysOf, List.map_cons] at ih ⊢
      rw [ih, memV_cons, h', Bool.false_or]
      split <;> rename_i hm <;> simp [hm]

theorem assocPut_keys_pairwise {k v : Val} {m : List (Val × Val)}
    (h : (keysOf m).Pairwise (fun x y => veq x y = false)) :
    (keysOf (assocPut k v m)).Pairwise (fun x y => veq x y = false) := by
  rw [keysOf_assocPut]
  split
  · exact h
  · rename_i hk
    have hk' : memV k (keysOf m) = false := by simpa using hk
    rw [memV_eq_false_iff] at hk'
    rw [List.pairwise_append]
    refine ⟨h, List.pairwise_singleton _ _, ?_⟩
    intro a ha b hb
    rw [List.mem_singleton] at hb
    subst hb
    rw [veq_symm']
    exact hk' a ha

theorem foldl_assocPut_keys_pairwise (kvs acc : List (Val × Val))
    (h : (keysOf acc).Pairwise (fun x y => veq x y = false)) :
    (keysOf (kvs.foldl (fun acc kv => assocPut kv.1 kv.2 acc) acc)).Pairwise
      (fun x y => veq x y = false) := by
  induction kvs generalizing acc with
  | nil => exact h
  | cons kv kvs ih => exact ih _ (assocPut_keys_pairwise h)

end Ckl
