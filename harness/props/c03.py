"""C03 Names resolve lexically and calls bind arguments as declared."""
import itertools

from harness import progcheck
from harness.props import common


def binding_cases():
    """argument binding and scoping laws with the result the stated rules give, written out"""
    cases = []
    # defaults are evaluated at call time, once per call: a mutable default is fresh for every call that uses it
    lits = [("[]", "append(acc, x)", lambda xs: "[" + ", ".join(xs) + "]"),
            ("[7]", "append(acc, x)", lambda xs: "[" + ", ".join(["7"] + xs) + "]"),
            ("[[]]", "append(acc[0], x)", lambda xs: "[[" + ", ".join(xs) + "]]"),
            ("<<>>", "append(acc, x)", lambda xs: "<<" + ", ".join(sorted(xs)) + ">>"),
            ("<<0>>", "append(acc, x)", lambda xs: "<<" + ", ".join(["0"] + sorted(xs)) + ">>"),
            ("<<<>>>", "acc[x] = x", lambda xs: "<<<" + ", ".join(f"{v} => {v}" for v in sorted(xs)) + ">>>" if xs else "<<<>>>"),
            ("<<<0 => 0>>>", "acc[x] = x", lambda xs: "<<<" + ", ".join(f"{v} => {v}" for v in ["0"] + sorted(xs)) + ">>>"),
            ("[1, 2]", "acc[0] = x", lambda xs: "[" + ", ".join([xs[-1] if xs else "1", "2"]) + "]"),
            ("<*n = 0*>", "acc->n = x", lambda xs: "<*n=" + (xs[-1] if xs else "0") + "*>")]
    for lit, mut, show in lits:
        for calls in itertools.product(["d", "d", "e"], repeat=3):       # d = default used, e = explicit argument
            args, want = [], []
            for k, c in enumerate(calls, 1):
                if c == "d":
                    args.append(f"f({k})")
                else:
                    args.append(f"f({k}, {lit})")
                want.append(show([str(k)]))
            for form in ("def f(x, acc = {lit}) do {mut}; acc end", "def f = fn(x, acc = {lit}) do {mut}; acc end", "def mk() fn(x, acc = {lit}) do {mut}; acc end; def f = mk()"):
                cases.append((form.format(lit=lit, mut=mut) + "; [" + ", ".join(args) + "]", ('text', "[" + ", ".join(want) + "]")))
    cases += [
        # call time, callee (definition) scope
        ("def g = 1; def f(a = g) a; def r = [f()]; g = 2; append(r, f()); r", ('text', "[1, 2]")),
        ("def mk() do def z = 10; fn(a = z) a end; def z = 1; mk()()", ('text', "10")),
        ("def mk() do def z = 10; fn(a = z) a end; def h() do def z = 99; mk()() end; h()", ('text', "10")),
        ("def f(a, b = a + 1, c = a + b) [a, b, c]; [f(1), f(1, 5), f(1, c = 0), f(b = 2, a = 4)]", ('text', "[[1, 2, 3], [1, 5, 6], [1, 2, 0], [4, 2, 6]]")),
        ("def n = 0; def tick() do n = n + 1; n end; def f(a = tick()) a; [f(), f(9), f(), n]", ('text', "[1, 9, 2, 2]")),
        # named first, positional to the remaining parameters in order, surplus to the rest parameter
        ("def f(a, b, c) [a, b, c]; [f(1, 2, 3), f(2, 3, c = 1), f(2, 3, b = 1), f(3, 2, a = 1), f(b = 1, a = 2, c = 3), f(9, c = 1, b = 2)]",
         ('text', "[[1, 2, 3], [2, 3, 1], [2, 1, 3], [1, 3, 2], [2, 1, 3], [9, 2, 1]]")),
        ("def f(a, b = 5, r...) [a, b, r...]; [f(1), f(1, 2), f(1, 2, 3), f(1, 2, 3, 4), f(1, 2, b = 0), f(1, ...[2, 3, 4])]",
         ('text', "[[1, 5, []], [1, 2, []], [1, 2, [3]], [1, 2, [3, 4]], [1, 0, [2]], [1, 2, [3, 4]]]")),
        ("def f(a, b, c) [a, b, c]; [f(...[1, 2, 3]), f(1, ...[2, 3]), f(...[1], ...[2], 3), f(...<<<'c' => 1, 'a' => 2, 'b' => 3>>>), f(1, 2, ...<<<'c' => 7>>>)]",
         ('text', "[[1, 2, 3], [1, 2, 3], [1, 2, 3], [2, 3, 1], [1, 2, 7]]")),
        ("def f(x, a) [x, a]; def o = <*m = fn(self, a) [self->v, a], v = 3*>; def p = <*_proto_ = o, v = 4*>; [1 !> f(2), o->m(5), p->m(6)]", ('text', "[[1, 2], [3, 5], [4, 6]]")),
        # every call gets fresh parameter bindings; assignment updates the nearest enclosing binding, never creates one
        ("def f(a) do a = a + 1; a end; def a = 10; [f(1), f(1), a]", ('text', "[2, 2, 10]")),
        ("def f(xs) do xs = xs + [1]; xs end; def l = [0]; [f(l), f(l), l]", ('text', "[[0, 1], [0, 1], [0]]")),
        ("def c = 0; def bump() do c = c + 1; c end; def shadow() do def c = 100; c = c + 1; c end; [bump(), shadow(), bump(), c]", ('text', "[1, 101, 2, 2]")),
        ("def f() do undefined_name = 1 end; f()", ('error', "'ERROR'")),
        # destructuring assignment follows the same rule: it updates the nearest enclosing bindings and never creates one
        ("def a = 1; def b = 2; def f() do [a, b] = [10, 20]; 0 end; f(); [a, b]", ('text', "[10, 20]")),
        ("def mk() do def p = 1; def q = 2; [fn() do [p, q] = [q, p]; 0 end, fn() [p, q]] end; def fs = mk(); fs[0](); fs[1]()", ('text', "[2, 1]")),
        ("def a = 1; def f() do def a = 5; def g() do [a] = [6]; 0 end; g(); a end; [f(), a]", ('text', "[6, 1]")),
        ("def f() do [u1, u2] = [1, 2] end; f()", ('error', "'ERROR'")),
        ("def a = 1; def f() do [a, u3] = [1, 2] end; do f() catch all a end", ('text', "1")),
        ("def x = 1; def f() do x += 5; 0 end; f(); f(); x", ('text', "11")),
        ("def l = [1, 2]; def f() do l[0] = 9; 0 end; f(); l", ('text', "[9, 2]")),
        ("def f() do def inner = 1; inner end; f(); inner", ('error', "'ERROR'")),
        ("def x = 'outer'; def show() x; def caller() do def x = 'caller'; show() end; caller()", ('text', "'outer'")),
        ("def mk(n) fn() do n = n + 1; n end; def c1 = mk(0); def c2 = mk(10); [c1(), c1(), c2(), c1()]", ('text', "[1, 2, 11, 3]")),
        # EVERY call gets its own scope, also a call of a function without parameters whose body is a single expression: a `def` in a block
        # nested in that expression stays local, does not touch an outer variable of the same name, and is not shared between recursive calls
        ("def x = 1; def f() if TRUE then do def x = 2; x end else 0; [f(), x]", ('text', "[2, 1]")),
        ("def x = 1; def f = fn() if TRUE then do def x = 2; x end else 0; [f(), f(), x]", ('text', "[2, 2, 1]")),
        ("def c = 0; def h() if c < 3 then do def mine = c; c = c + 1; h(); mine end else -1; [h(), c]", ('text', "[0, 3]")),
        ("def f() [do def t = y * 2; t end for y in [1, 2]]; def t = 'outer'; [f(), t]", ('text', "[[2, 4], 'outer']")),
        ("def o = <*m = fn(self) if TRUE then do def x = 5; x end else 0*>; def x = 1; [o->m(), x]", ('text', "[5, 1]")),
        ("def mk() fn() if TRUE then do def k = 0; k = k + 1; k end else 0; def a = mk(); [a(), a(), a()]", ('text', "[1, 1, 1]")),
        ("def x = 1; def f() do def x = 2; x end; [f(), x]", ('text', "[2, 1]")),
        # a loop variable inside a function that has the name of an outer variable hides nothing once the loop is over: a later assignment
        # to that name in the function updates the OUTER variable
        ("def g = 1; def f() do for g in [5, 6] do 0 end; g = 99; 0 end; f(); g", ('text', "99")),
        ("def g = 1; def f() do for g in [5, 6] do 0 end; g end; [f(), g]", ('text', "[1, 1]")),
        ("def g = 1; def f() do for [g, h_] in [[5, 6]] do 0 end; g = g + 1; 0 end; f(); f(); g", ('text', "3")),
        ("def g = 1; def f() do do for g in [5] do error 'x' end catch all 0 end; g = 7; 0 end; f(); g", ('text', "7")),
        ("def g = 1; def mk() fn() do for g in 'ab' do 0 end; g = g + 10; g end; def c = mk(); [c(), c(), g]", ('text', "[11, 21, 21]")),
    ]
    return cases


def run(ctx):
    ctx.rule = ("generated programs of nested function definitions, closures returned from functions (counters, curried, composed), shadowing across up to 4 levels, bounded recursion, calls mixing positional / named / default / rest / spread arguments, pipeline and method forms; every program prints a trace; non-trivial = >= 2 scopes binding the same name or a call using >= 2 binding modes; each program is run on the implementation, on a reference interpreter written from the language rules "
                "(value + printed trace must match) and on the Lean model evaluator; plus binding-law programs: mutable literal defaults (list, set, map, "
                "object, nested) mutated through element / member / append across every pattern of three calls with and without the argument, in def, "
                "lambda and closure-returning forms, call-time and definition-scope defaults, named/positional/rest/spread mixes")
    progcheck.run_profiles(ctx, ["scoping", "calls", "mixed"], 2500 if ctx.thorough else 330)
    progcheck.run_templates(ctx, binding_cases(), "binding-laws")
    common.replay_known(ctx)


def replay(ctx, payload):
    return common.generic_replay(ctx, payload)
