/-
  C02 helper lemmas: the truncating division of the repaired `FuncDiv` is `Int.tdiv`;
  characterisation of the remainders of `Int.tdiv` and `Int.fmod` (Mathlib-free).
-/
import CklVerif.Model.Natives
namespace Ckl

/-- the sign-and-magnitude quotient of the repaired `FuncDiv` is truncating division -/
theorem truncDiv_eq_tdiv (a b : Int) : truncDiv a b = Int.tdiv a b := by
  unfold truncDiv
  cases a with
  | ofNat m =>
    cases b with
    | ofNat n =>
      have h1 : ¬ ((m : Int) < 0) := by omega
      have h2 : ¬ ((n : Int) < 0) := by omega
      simp [Int.tdiv, h1, h2]
    | negSucc n => simp [Int.tdiv, Int.negSucc_lt_zero]
  | negSucc m =>
    cases b with
    | ofNat n => simp [Int.tdiv, Int.negSucc_lt_zero]
    | negSucc n => simp [Int.tdiv, Int.negSucc_lt_zero]

/-- the remainder of truncating division -/
theorem sub_tdiv_mul (a b : Int) : a - Int.tdiv a b * b = Int.tmod a b := by
  have := Int.mul_tdiv_add_tmod a b
  rw [Int.mul_comm] at this
  omega

theorem tmod_natAbs_lt (a : Int) {b : Int} (hb : b ≠ 0) : (Int.tmod a b).natAbs < b.natAbs := by
  rw [Int.natAbs_tmod]
  exact Nat.mod_lt _ (by omega)

theorem tmod_zero_or_sign (a b : Int) : Int.tmod a b = 0 ∨ (Int.tmod a b).sign = a.sign := by
  rw [Int.sign_tmod]
  by_cases h : b ∣ a
  · left; exact Int.tmod_eq_zero_of_dvd h
  · right; simp [h]

theorem fmod_natAbs_lt (a : Int) {b : Int} (hb : b ≠ 0) : (Int.fmod a b).natAbs < b.natAbs := by
  rcases Int.lt_or_gt_of_ne hb with h | h
  · have h1 := Int.fmod_lt_of_pos (-a) (b := -b) (by omega)
    have h2 := Int.fmod_nonneg_of_pos (-a) (b := -b) (by omega)
    rw [Int.neg_fmod_neg] at h1 h2
    omega
  · have h1 := Int.fmod_lt_of_pos a h
    have h2 := Int.fmod_nonneg_of_pos a h
    omega

theorem dvd_sub_fmod (a b : Int) : b ∣ a - Int.fmod a b := by
  rw [Int.fmod_def]
  exact ⟨a.fdiv b, by omega⟩

/-- the floored remainder is zero or has the sign of the divisor (Python `%`) -/
theorem fmod_zero_or_sign (a : Int) {b : Int} (hb : b ≠ 0) :
    Int.fmod a b = 0 ∨ (Int.fmod a b).sign = b.sign := by
  rcases Int.lt_or_gt_of_ne hb with h | h
  · have h1 := Int.fmod_lt_of_pos (-a) (b := -b) (by omega)
    have h2 := Int.fmod_nonneg_of_pos (-a) (b := -b) (by omega)
    rw [Int.neg_fmod_neg] at h1 h2
    by_cases h0 : Int.fmod a b = 0
    · left; exact h0
    · right
      rw [Int.sign_eq_neg_one_of_neg (by omega), Int.sign_eq_neg_one_of_neg h]
  · have h1 := Int.fmod_lt_of_pos a h
    have h2 := Int.fmod_nonneg_of_pos a h
    by_cases h0 : Int.fmod a b = 0
    · left; exact h0
    · right
      rw [Int.sign_eq_one_of_pos (by omega), Int.sign_eq_one_of_pos h]

end Ckl
