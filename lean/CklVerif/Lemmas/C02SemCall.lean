/-
  C02 (semantic half) — one binary operator call `fn(a = x, b = y)` through `eval`, `invoke`,
  `evalArgs`, `setArgs` and `callFn`, and the n-ary `and` / `or` / `not` nodes, in terms of the
  results of their operands.
-/
import CklVerif.Lemmas.C02SemNatives
import CklVerif.Lemmas.C03Args
namespace Ckl.C02S
open Ckl Ckl.C02P
variable (ld : Loader)

theorem setArgs_ab (va vb : RVal) (pos : Pos) (s : State) :
    setArgs ["a", "b"] [some "a", some "b"] [va, vb] pos s = .ok (args2 va vb) s := by
  unfold setArgs
  rw [show addArgs ["a", "b"] = ⟨["a", "b"], none⟩ from Ckl.C03.addArgs_no_rest _ (by decide)]
  simp [bindNamed, bindPositional, nameGiven, dictPut, bind, EvalM.bind', pure, EvalM.pure', args2]

def NotSpread (x : Node) : Prop := ∀ e p, x ≠ .spread e p

theorem evalArgs_cons (F : Nat) (env : EnvId) (n : Option String) (ns : List (Option String)) (x : Node)
    (as : List Node) (pos : Pos) (hx : NotSpread x) :
    evalArgs ld (F + 1) env (n :: ns) (x :: as) pos = (do
      let v ← eval ld F env x
      let (rn, rv) ← evalArgs ld F env ns as pos
      pure (n :: rn, v :: rv)) := by
  rw [evalArgs]
  exact fun e p h => hx e p h

theorem evalArgs_nil (F : Nat) (env : EnvId) (pos : Pos) :
    evalArgs ld (F + 1) env [] [] pos = pure ([], []) := by
  rw [evalArgs]
  intro n ns a as h; cases h

theorem eval_ident_some {F env name p s v} (h : s.lookup env name = some v) :
    eval ld (F + 1) env (.ident name p) s = .ok v s := by
  rw [eval, EvalM.bind_apply]
  simp only [getS, h]; rfl

theorem eval_ident_none {F env name p s} (h : s.lookup env name = none) (hb : ld.baseNames.contains name = false) :
    eval ld (F + 1) env (.ident name p) s = .err ERR ("Symbol '" ++ name ++ "' not defined") p [] s := by
  rw [eval, EvalM.bind_apply]
  simp only [getS, h, hb]; rfl

/-- **one operator call.**  `fn` resolves to the built-in of that name, which takes `a`, `b` and
    computes `f` on values; the operands `x`, `y` evaluate (in the state `s`, which they leave
    unchanged) to `rx`, `ry`: the call evaluates to `lift2 f rx ry` and leaves `s` unchanged. -/
theorem eval_call2 {F : Nat} {env : EnvId} {fn : String} {inst : Nat} {p1 p2 : Pos} {x y : Node} {s : State}
    {f : V → V → Res} {rx ry : Res}
    (hfn : s.lookup env fn = some (.native fn inst))
    (hnames : nativeArgNames fn = some ["a", "b"])
    (hx : NotSpread x) (hy : NotSpread y)
    (hcall : ∀ a b, IsN (callFn ld (F + 3) (.native fn inst) (args2 a.toR b.toR) env p2 s) (f a b) p2 s)
    (ex : Is (eval ld (F + 2) env x s) rx s) (ey : Is (eval ld (F + 1) env y s) ry s) :
    Is (eval ld (F + 5) env (.call (.ident fn p1) [some "a", some "b"] [x, y] p2) s) (lift2 f rx ry) s := by
  rw [eval, EvalM.bind_apply, eval_ident_some ld hfn]
  simp only [RVal.isFunc, Bool.not_true, Bool.false_eq_true, if_false]
  rw [invoke, EvalM.bind_apply, evalArgs_cons ld _ _ _ _ _ _ _ hx, EvalM.bind_apply]
  cases rx with
  | error =>
    obtain ⟨m, p, t, h⟩ := ex
    rw [h]; exact ⟨m, p, t, rfl⟩
  | val a =>
    simp only [Is] at ex
    rw [ex]
    simp only []
    rw [EvalM.bind_apply, evalArgs_cons ld _ _ _ _ _ _ _ hy, EvalM.bind_apply]
    cases ry with
    | error =>
      obtain ⟨m, p, t, h⟩ := ey
      rw [h]; exact ⟨m, p, t, rfl⟩
    | val b =>
      simp only [Is] at ey
      rw [ey]
      simp only []
      rw [EvalM.bind_apply, evalArgs_nil, EvalM.pure_apply]
      simp only [EvalM.pure_apply, EvalM.bind_apply, getS, hnames, List.map_nil, List.nil_append, setArgs_ab]
      have hc := hcall a b
      simp only [lift2]
      cases hr : f a b with
      | val v =>
        rw [hr] at hc; simp only [IsN] at hc
        rw [hc]; exact rfl
      | error =>
        rw [hr] at hc
        obtain ⟨m, hm⟩ := hc
        rw [hm]
        exact ⟨m, p2, _, rfl⟩

/-! ### `and`, `or`, `not` -/

theorem andSem_cons (r : Res) (rs : List Res) :
    andSem (r :: rs) = match r with
      | .val (.bool true) => andSem rs
      | .val (.bool false) => .val (.bool false)
      | _ => .error := by
  cases r with
  | error => rfl
  | val v => cases v with
    | bool b => cases b <;> rfl
    | _ => rfl

theorem orSem_cons (r : Res) (rs : List Res) :
    orSem (r :: rs) = match r with
      | .val (.bool false) => orSem rs
      | .val (.bool true) => .val (.bool true)
      | _ => .error := by
  cases r with
  | error => rfl
  | val v => cases v with
    | bool b => cases b <;> rfl
    | _ => rfl

theorem evalAnd_nil (F env pos s) : evalAnd ld (F + 1) env [] pos s = .ok (.bool true) s := by
  rw [evalAnd]; rfl

theorem evalOr_nil (F env pos s) : evalOr ld (F + 1) env [] pos s = .ok (.bool false) s := by
  rw [evalOr]; rfl

theorem evalAnd_cons {F env x xs pos s r rs} (ex : Is (eval ld F env x s) r s)
    (hrest : Is (evalAnd ld F env xs pos s) (andSem rs) s) :
    Is (evalAnd ld (F + 1) env (x :: xs) pos s) (andSem (r :: rs)) s := by
  rw [evalAnd, EvalM.bind_apply, andSem_cons]
  cases r with
  | error => obtain ⟨m, p, t, h⟩ := ex; rw [h]; exact ⟨m, p, t, rfl⟩
  | val v =>
    simp only [Is] at ex; rw [ex]
    cases v with
    | bool b => cases b
                · exact rfl
                · exact hrest
    | null => exact ⟨_, _, _, rfl⟩
    | int n => exact ⟨_, _, _, rfl⟩

theorem evalOr_cons {F env x xs pos s r rs} (ex : Is (eval ld F env x s) r s)
    (hrest : Is (evalOr ld F env xs pos s) (orSem rs) s) :
    Is (evalOr ld (F + 1) env (x :: xs) pos s) (orSem (r :: rs)) s := by
  rw [evalOr, EvalM.bind_apply, orSem_cons]
  cases r with
  | error => obtain ⟨m, p, t, h⟩ := ex; rw [h]; exact ⟨m, p, t, rfl⟩
  | val v =>
    simp only [Is] at ex; rw [ex]
    cases v with
    | bool b => cases b
                · exact hrest
                · exact rfl
    | null => exact ⟨_, _, _, rfl⟩
    | int n => exact ⟨_, _, _, rfl⟩

theorem eval_not_is {F env x pos s r} (ex : Is (eval ld F env x s) r s) :
    Is (eval ld (F + 1) env (.not x pos) s) (notSem r) s := by
  rw [eval, EvalM.bind_apply]
  cases r with
  | error => obtain ⟨m, p, t, h⟩ := ex; rw [h]; exact ⟨m, p, t, rfl⟩
  | val v =>
    simp only [Is] at ex; rw [ex]
    cases v with
    | bool b => exact rfl
    | null => exact ⟨_, _, _, rfl⟩
    | int n => exact ⟨_, _, _, rfl⟩

theorem eval_and_node (F env es pos s) : eval ld (F + 1) env (.and es pos) s = evalAnd ld F env es pos s := by
  rw [eval]

theorem eval_or_node (F env es pos s) : eval ld (F + 1) env (.or es pos) s = evalOr ld F env es pos s := by
  rw [eval]

end Ckl.C02S
