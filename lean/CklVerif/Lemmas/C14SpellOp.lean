/-
  C14 (spelling) helper lemmas, part 3 (scanner side): the list of emitted tokens is write-only,
  the operators `!=` and `<>`, and a `;` after a complete token.
-/
import CklVerif.Lemmas.C08Lexer
namespace Ckl.C14S
open Ckl Ckl.Lexer

/-! ### `out` is write-only -/

/-- the same loop variables with `ext` as additional older tokens -/
def addOut (ext : List (Token × Nat)) (σ : LexSt) : LexSt := { σ with out := σ.out ++ ext }

theorem dispatch_addOut (name : String) (ext : List (Token × Nat)) (σ : LexSt) (ch : Char) :
    (addOut ext σ).dispatch name ch =
      (σ.dispatch name ch).map (fun r => (addOut ext r.1, r.2)) := by
  unfold LexSt.dispatch
  show (match step σ.core σ.column ch with
      | .error e => Except.error ((addOut ext σ).synErr name e)
      | .ok o => .ok (({ addOut ext σ with core := o.core }).push name o.emit, o.again)) = _
  cases step σ.core σ.column ch with
  | error e =>
    simp only [Except.map]
    cases he : e.line <;> simp [LexSt.synErr, he, addOut]
  | ok o =>
    obtain ⟨oc, oe, oa⟩ := o
    cases oe with
    | none => simp [Except.map, LexSt.push, addOut]
    | some e =>
      obtain ⟨v, ty, c⟩ := e
      simp [Except.map, LexSt.push, addOut]

theorem feed_addOut (name : String) (ext : List (Token × Nat)) (σ : LexSt) (ch : Char) :
    feed name (addOut ext σ) ch = (feed name σ ch).map (addOut ext) := by
  have hcc : ∀ τ : LexSt, ((addOut ext τ).count ch).capture = addOut ext (τ.count ch).capture := by
    intro τ
    unfold LexSt.count LexSt.capture addOut
    split <;> (simp only []; split <;> rfl)
  have hcap : ∀ τ : LexSt, (addOut ext τ).capture = addOut ext τ.capture := by
    intro τ
    unfold LexSt.capture addOut
    simp only []; split <;> rfl
  unfold feed
  rw [hcc, dispatch_addOut]
  cases (σ.count ch).capture.dispatch name ch with
  | error e => rfl
  | ok r =>
    obtain ⟨σ2, b⟩ := r
    cases b with
    | false => rfl
    | true =>
      simp only [Except.map]
      rw [hcap, dispatch_addOut]
      cases σ2.capture.dispatch name ch with
      | error e => rfl
      | ok r2 => rfl

theorem run_addOut (name : String) (ext : List (Token × Nat)) (l : List Char) :
    ∀ σ : LexSt, run name (addOut ext σ) l = (run name σ l).map (addOut ext) := by
  induction l with
  | nil => intro σ; rfl
  | cons c l ih =>
    intro σ
    have hf := feed_addOut name ext σ c
    cases h : feed name σ c with
    | error e =>
      rw [h] at hf
      rw [run_cons_error _ h, run_cons_error _ hf]; rfl
    | ok σ1 =>
      rw [h] at hf
      rw [run_cons_ok _ h, run_cons_ok _ hf]
      exact ih σ1

/-- two configurations that differ only in the tokens emitted so far behave alike -/
theorem run_out_irrelevant (name : String) (σ : LexSt) (o1 o2 : List (Token × Nat)) (l : List Char) :
    (∃ e, run name { σ with out := o1 } l = .error e ∧ run name { σ with out := o2 } l = .error e) ∨
    (∃ τ, run name { σ with out := o1 } l = .ok (addOut o1 τ) ∧
      run name { σ with out := o2 } l = .ok (addOut o2 τ)) := by
  have e1 : ({ σ with out := o1 } : LexSt) = addOut o1 { σ with out := [] } := by simp [addOut]
  have e2 : ({ σ with out := o2 } : LexSt) = addOut o2 { σ with out := [] } := by simp [addOut]
  rw [e1, e2, run_addOut, run_addOut]
  cases run name { σ with out := [] } l with
  | error e => exact Or.inl ⟨e, rfl, rfl⟩
  | ok τ => exact Or.inr ⟨τ, rfl, rfl⟩

/-! ### `!=` and `<>` -/

/-- the configuration after a two-character operator read at a token boundary -/
def afterOp (name : String) (σ : LexSt) (v : List Char) (col : Int) : LexSt :=
  { σ with column := σ.column + 1 + 1, startline := σ.line, startOff := σ.pos,
           core := { σ.core with token := [], state := .s0 }, pos := σ.pos + 1 + 1,
           out := (⟨v, .operator, ⟨name, σ.line, col⟩⟩, σ.pos) :: σ.out }

theorem run_bang_eq {name : String} {σ : LexSt} (h0 : σ.core.state = .s0) (htok : σ.core.token = []) :
    run name σ ['!', '='] = .ok (afterOp name σ ['!', '='] (σ.column + 1 + 1 - 2 - 1)) := by
  simp [run, feed, LexSt.count, LexSt.capture, h0, LexSt.dispatch, step0, htok, LexSt.push,
    step, step2, afterOp, len]

theorem run_lt_gt {name : String} {σ : LexSt} (h0 : σ.core.state = .s0) (htok : σ.core.token = []) :
    run name σ ['<', '>'] = .ok (afterOp name σ ['<', '>'] (σ.column + 1 + 1 - 1)) := by
  simp [run, feed, LexSt.count, LexSt.capture, h0, LexSt.dispatch, step0, htok, LexSt.push,
    step, step2, afterOp]

/-! ### a `;` after a complete token -/

/-- outside strings, patterns and comments, and not at a token boundary, `;` and a blank are
    dispatched alike: both end the current token and are unread -/
theorem step_semi {k : Core} (col : Int) (hst : ¬ InText k.state) (h0 : k.state ≠ .s0) :
    step k col ';' = step k col ' ' ∧ ∀ o, step k col ' ' = .ok o → o.again = true := by
  obtain ⟨st, tk, tb⟩ := k
  cases st
  case s0 => exact absurd rfl h0
  case s3 | s31 | s311 | s312 | s4 | s41 | s411 | s412 | s6 | s9 => exact absurd (by simp [InText]) hst
  case s1 =>
    refine ⟨by simp [step, step1, wordEnd], ?_⟩
    intro o ho
    simp only [step, step1, wordEnd, List.mem_cons, List.not_mem_nil, or_false, Except.ok.injEq] at ho
    simp only [show (' ' : Char) ≠ '(' by decide] at ho
    revert ho
    simp
    repeat' split
    all_goals (intro h; subst h; rfl)
  case s2 =>
    refine ⟨by simp [step, step2], ?_⟩
    intro o ho
    simp [step, step2] at ho
    subst ho; rfl
  case s21 =>
    refine ⟨by simp [step, step21], ?_⟩
    intro o ho
    simp [step, step21] at ho
    subst ho; rfl
  case s5 =>
    refine ⟨by simp [step, step5], ?_⟩
    intro o ho
    simp [step, step5] at ho
    subst ho; rfl
  case s7 =>
    refine ⟨by simp [step, step7, digits, numEnd], ?_⟩
    intro o ho
    simp [step, step7, digits, numEnd] at ho
    subst ho; rfl
  case s70 =>
    refine ⟨by simp [step, step70, step7, digits, numEnd], ?_⟩
    intro o ho
    simp [step, step70, step7, digits, numEnd] at ho
    subst ho; rfl
  case s71 =>
    refine ⟨by simp [step, stepRadix, hexDigits, numEnd], ?_⟩
    intro o ho
    simp [step, stepRadix, hexDigits, numEnd] at ho
    split at ho
    · cases ho; rfl
    · cases ho
  case s72 =>
    refine ⟨by simp [step, stepRadix, numEnd], ?_⟩
    intro o ho
    simp [step, stepRadix, numEnd] at ho
    split at ho
    · cases ho; rfl
    · cases ho
  case s8 =>
    refine ⟨by simp [step, step8, digits, numEnd], ?_⟩
    intro o ho
    simp [step, step8, digits, numEnd] at ho
    subst ho; rfl
  case s10 =>
    refine ⟨by simp [step, step10], ?_⟩
    intro o ho
    simp [step, step10] at ho
    subst ho; rfl

theorem count_semi (σ : LexSt) : σ.count ';' = σ.count ' ' := by simp [LexSt.count]

theorem step0_semi (k : Core) (col : Int) :
    step0 k col ';' = ⟨k, some ([';'], .interpunction, col), false⟩ := by simp [step0]

theorem step0_blank (k : Core) (col : Int) : step0 k col ' ' = ⟨k, none, false⟩ :=
  step0_ws k col (by decide)

/-- outside strings, patterns and comments a `;` does what a blank does (it ends the current
    token, with the same error if that token is a malformed radix numeral) and, in addition, emits
    the interpunction token `;` -/
theorem feed_semi {name : String} {σ : LexSt} (hst : ¬ InText σ.core.state) :
    (∀ e, feed name σ ' ' = .error e → feed name σ ';' = .error e) ∧
    (∀ σ1, feed name σ ' ' = .ok σ1 → σ1.core.state = .s0 ∧ ∃ pos off,
      feed name σ ';' = .ok { σ1 with out := (⟨[';'], .interpunction, pos⟩, off) :: σ1.out }) := by
  by_cases h0 : σ.core.state = .s0
  · have hb : feed name σ ' ' = .ok (wsStep σ ' ') := feed_ws h0 (by decide)
    refine ⟨fun e he => (by rw [hb] at he; cases he), fun σ1 h1 => ?_⟩
    rw [hb] at h1; cases h1
    refine ⟨h0, ⟨name, σ.line, σ.column + 1⟩, σ.pos, ?_⟩
    simp [feed, LexSt.count, LexSt.capture, h0, LexSt.dispatch, step_s0, step0_semi, LexSt.push,
      wsStep]
  · have hcore : (σ.count ' ').capture.core = σ.core := by
      rw [(capture_fields _).2.2.2, (count_fields σ ' ').2.2.2.1]
    obtain ⟨hstep, hagain⟩ := step_semi (k := (σ.count ' ').capture.core)
      (σ.count ' ').capture.column (by rw [hcore]; exact hst) (by rw [hcore]; exact h0)
    unfold feed
    rw [count_semi]
    unfold LexSt.dispatch
    rw [hstep]
    cases hs : step (σ.count ' ').capture.core (σ.count ' ').capture.column ' ' with
    | error e => exact ⟨fun e' he => he, fun σ1 h1 => nomatch h1⟩
    | ok o =>
      have ha := hagain o hs
      have hs0 := step_again_state hs ha
      obtain ⟨oc, oe, oa⟩ := o
      simp only at ha hs0
      subst ha
      refine ⟨fun e he => ?_, fun σ1 h1 => ?_⟩
      · exfalso
        revert he
        cases oe with
        | none => simp [LexSt.push, LexSt.capture, hs0, step_s0, step0_blank]
        | some em => simp [LexSt.push, LexSt.capture, hs0, step_s0, step0_blank]
      · cases oe with
        | none =>
          simp [LexSt.push, LexSt.capture, hs0, step_s0, step0_blank] at h1
          subst h1
          refine ⟨hs0, ?_⟩
          simp [LexSt.push, LexSt.capture, hs0, step_s0, step0_semi]
        | some em =>
          simp [LexSt.push, LexSt.capture, hs0, step_s0, step0_blank] at h1
          subst h1
          refine ⟨hs0, ?_⟩
          simp [LexSt.push, LexSt.capture, hs0, step_s0, step0_semi]

end Ckl.C14S
