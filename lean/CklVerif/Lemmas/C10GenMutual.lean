/-
  Generic logic (see C10Gen): the simultaneous induction on the fuel over all functions of the
  evaluator.  The specification of `loadModule` (`LS`) and the push / load / pop fragment of
  `evalRequire` (`Frag`) are supplied by the instance.
-/
import CklVerif.Lemmas.C10GenNatives
namespace Ckl.Gen
open Ckl Ckl.C05

variable {I : Rel}

macro_rules | `(tactic| gtr_lemma) => `(tactic| exact GTr.callPure _ _ _ _ _ (by assumption))

/-- the containment boundary of `invoke`: hard failures of the callee become runtime errors in
    the same state -/
theorem GTr.invokeTail {s0 : State} {m : EvalM RVal} (hm : GTr I s0 m) (g : State → String) (pos : Pos) :
    GTr I s0 (fun s1 =>
      match m s1 with
      | .err v msg p t s2 => .err v msg p (t ++ [(g s2, pos)]) s2
      | .fail (.syn e) s2 => .err (.str "ERROR".toList) e.msg pos [] s2
      | .fail (.host k) s2 => .err (.str "ERROR".toList) (g s2 ++ " failed: " ++ k) pos [] s2
      | other => other) := by
  refine ⟨fun s1 hs1 => ?_⟩
  have h := hm.run s1 hs1
  revert h
  cases m s1 with
  | ok a s2 => exact id
  | err v msg p t s2 => exact id
  | fail f s2 => cases f <;> intro h <;> first | exact h | exact h trivial

/-- `for`: on an error the loop variables are removed -/
theorem GTr.wrapErrR {s0 : State} {m : EvalM RVal} (hm : GTr I s0 m) (g : State → State)
    (hg : ∀ s, obs (g s) = obs s) :
    GTr I s0 (fun s1 =>
      match m s1 with
      | .err v msg p t s2 => .err v msg p t (g s2)
      | other => other) := by
  refine ⟨fun s1 hs1 => ?_⟩
  have h := hm.run s1 hs1
  revert h
  cases m s1 with
  | ok a s2 => exact id
  | err v msg p t s2 => exact fun h => I.keep h (hg s2)
  | fail f s2 => exact id

theorem obs_restoreVars (env : EnvId) (hidden : List (String × RVal)) (s : State) : obs (restoreVars env hidden s) = obs s := by
  unfold restoreVars
  exact obs_foldl (fun s (xv : String × RVal) => s.put env xv.1 xv.2) (fun _ _ => rfl) hidden s

theorem GTr.wrapForR {s0 : State} {m : EvalM RVal} (hm : GTr I s0 m) (h g : State → State → State)
    (hh : ∀ s1 s, obs (h s1 s) = obs s) (hg : ∀ s1 s, obs (g s1 s) = obs s) :
    GTr I s0 (fun s1 =>
      match m s1 with
      | .ok v s2 => .ok v (h s1 s2)
      | .err v msg p t s2 => .err v msg p t (g s1 s2)
      | .fail (.syn e) s2 => .fail (.syn e) (g s1 s2)
      | other => other) := by
  refine ⟨fun s1 hs1 => ?_⟩
  have h' := hm.run s1 hs1
  revert h'
  cases m s1 with
  | ok a s2 => exact fun h' => I.keep h' (hh s1 s2)
  | err v msg p t s2 => exact fun h' => I.keep h' (hg s1 s2)
  | fail f s2 =>
    cases f with
    | syn e => exact fun h' hf => I.keep (h' hf) (hg s1 s2)
    | oof => exact id
    | unsupported w => exact id
    | host k => exact id

/-- `let s ← getS`, keeping the fact that `s` is the current state -/
theorem GTr.getS_bind_at {β} {s0 : State} {f : State → EvalM β}
    (hf : ∀ s, I.R s0 s → GPost I s0 (f s s)) : GTr I s0 (Ckl.getS >>= f) := ⟨fun s hs => hf s hs⟩

theorem gpost_throwE_bind {α β} {s0 s : State} (hs : I.R s0 s) (msg : String) (pos : Pos)
    (f : α → EvalM β) : GPost I s0 ((Ckl.throwE msg pos >>= f) s) := hs

section
variable (I) (ld : Loader) (LS : Nat → Prop)

/-- the push / load / pop fragment of `evalRequire`, started in a state whose load stack does
    not contain the module -/
def Frag (fuel : Nat) : Prop :=
  ∀ s0 env ident file pos (k : EnvId → EvalM RVal), (∀ e, GTr I s0 (k e)) →
    ∀ s, I.R s0 s → ¬ (s.modstack.contains ident = true) →
      GPost I s0 ((modifyS (fun s => { s with modstack := s.modstack ++ [ident] }) >>= fun _ =>
        (fun s1 =>
          match loadModule ld fuel env ident file pos s1 with
          | .ok e s2 => .ok e { s2 with modstack := s2.modstack.dropLast }
          | .err v m p t s2 => .err v m p t { s2 with modstack := s2.modstack.dropLast }
          | .fail f s2 => .fail f { s2 with modstack := s2.modstack.dropLast }) >>= k) s)

/-- the statement proved by induction on `fuel`, one field per function of the mutual block -/
structure AllG (fuel : Nat) : Prop where
  eval : ∀ s0 env n, GTr I s0 (eval ld fuel env n)
  evalAnd : ∀ s0 env es pos, GTr I s0 (evalAnd ld fuel env es pos)
  evalOr : ∀ s0 env es pos, GTr I s0 (evalOr ld fuel env es pos)
  evalIf : ∀ s0 env cs xs els pos, GTr I s0 (evalIf ld fuel env cs xs els pos)
  evalSeq : ∀ s0 env ns, GTr I s0 (evalSeq ld fuel env ns)
  evalItems : ∀ s0 env ns pos, GTr I s0 (evalItems ld fuel env ns pos)
  evalPairs : ∀ s0 env ks vs, GTr I s0 (evalPairs ld fuel env ks vs)
  evalBody : ∀ s0 env ns last, GTr I s0 (evalBody ld fuel env ns last)
  evalFinally : ∀ s0 env ns, GTr I s0 (evalFinally ld fuel env ns)
  tryHandlers : ∀ s0 env cs hs v msg p t, GTr I s0 (tryHandlers ld fuel env cs hs v msg p t)
  invoke : ∀ s0 fn pre names args env pos, GTr I s0 (invoke ld fuel fn pre names args env pos)
  evalArgs : ∀ s0 env names args pos, GTr I s0 (evalArgs ld fuel env names args pos)
  callFn : ∀ s0 fn bound env pos, GTr I s0 (callFn ld fuel fn bound env pos)
  bindParams : ∀ s0 lenv ps ds bound pos, GTr I s0 (bindParams ld fuel lenv ps ds bound pos)
  evalFor : ∀ s0 env ids e body what pos, GTr I s0 (evalFor ld fuel env ids e body what pos)
  forItems : ∀ s0 env ids xs body r pos, GTr I s0 (forItems ld fuel env ids xs body r pos)
  forListLive : ∀ s0 env ids a i body r pos, GTr I s0 (forListLive ld fuel env ids a i body r pos)
  forString : ∀ s0 env x cs body r, GTr I s0 (forString ld fuel env x cs body r)
  whileLoop : ∀ s0 env c body pos, GTr I s0 (whileLoop ld fuel env c body pos)
  comprStep : ∀ s0 lenv kind ve ke cond pos, GTr I s0 (comprStep ld fuel lenv kind ve ke cond pos)
  comprLoop : ∀ s0 lenv kind ve ke cond pos l acc, GTr I s0 (comprLoop ld fuel lenv kind ve ke cond pos l acc)
  comprProduct : ∀ s0 lenv kind ve ke cond pos x1 vs x2 ws acc,
    GTr I s0 (comprProduct ld fuel lenv kind ve ke cond pos x1 vs x2 ws acc)
  comprParallel : ∀ s0 lenv kind ve ke cond pos x1 vs x2 ws acc,
    GTr I s0 (comprParallel ld fuel lenv kind ve ke cond pos x1 vs x2 ws acc)
  nativeSorted : ∀ s0 bound env pos, GTr I s0 (nativeSorted ld fuel bound env pos)
  sortedOuter : ∀ s0 cmp key senv pos arr i, GTr I s0 (sortedOuter ld fuel cmp key senv pos arr i)
  sortedInner : ∀ s0 cmp key senv pos arr v j, GTr I s0 (sortedInner ld fuel cmp key senv pos arr v j)
  call1 : ∀ s0 f x env pos, GTr I s0 (call1 ld fuel f x env pos)
  call2 : ∀ s0 f x y env pos, GTr I s0 (call2 ld fuel f x y env pos)
  evalRequire : ∀ s0 env spec name unq syms pos, GTr I s0 (evalRequire ld fuel env spec name unq syms pos)
  loadModule : LS fuel


theorem allG_zero (h0 : LS 0) : AllG I ld LS 0 := by
  constructor
  case loadModule => exact h0
  all_goals (intros; simp only [eval, evalAnd, evalOr, evalIf, evalSeq, evalItems, evalPairs, evalBody, evalFinally,
        tryHandlers, invoke, evalArgs, callFn, bindParams, evalFor, forItems, forListLive, forString,
        whileLoop, comprStep, comprLoop, comprProduct, comprParallel, nativeSorted, sortedOuter,
        sortedInner, call1, call2, evalRequire]; exact GTr.failM _)

variable {I} {ld} {LS} {fuel : Nat}

theorem step_evalAnd (ih : AllG I ld LS fuel) : ∀ s0 env es pos, GTr I s0 (evalAnd ld (fuel+1) env es pos) := by
  have ihEval := ih.eval; have ihAnd := ih.evalAnd
  intro s0 env es pos
  cases es <;> simp only [Ckl.evalAnd] <;> gtr_auto

theorem step_evalOr (ih : AllG I ld LS fuel) : ∀ s0 env es pos, GTr I s0 (evalOr ld (fuel+1) env es pos) := by
  have ihEval := ih.eval; have ihOr := ih.evalOr
  intro s0 env es pos
  cases es <;> simp only [Ckl.evalOr] <;> gtr_auto

theorem step_evalIf (ih : AllG I ld LS fuel) :
    ∀ s0 env cs xs els pos, GTr I s0 (evalIf ld (fuel+1) env cs xs els pos) := by
  have ihEval := ih.eval; have ihIf := ih.evalIf
  intro s0 env cs xs els pos
  cases cs <;> cases xs <;> simp only [Ckl.evalIf] <;> gtr_auto

theorem step_evalSeq (ih : AllG I ld LS fuel) : ∀ s0 env ns, GTr I s0 (evalSeq ld (fuel+1) env ns) := by
  have ihEval := ih.eval; have ihSeq := ih.evalSeq
  intro s0 env ns
  cases ns <;> simp only [Ckl.evalSeq] <;> gtr_auto

theorem step_evalItems (ih : AllG I ld LS fuel) : ∀ s0 env ns pos, GTr I s0 (evalItems ld (fuel+1) env ns pos) := by
  have ihEval := ih.eval; have ihItems := ih.evalItems
  intro s0 env ns pos
  cases ns with
  | nil => simp only [Ckl.evalItems]; gtr_auto
  | cons n ns => cases n <;> simp only [Ckl.evalItems] <;> gtr_auto

theorem step_evalPairs (ih : AllG I ld LS fuel) : ∀ s0 env ks vs, GTr I s0 (evalPairs ld (fuel+1) env ks vs) := by
  have ihEval := ih.eval; have ihPairs := ih.evalPairs
  intro s0 env ks vs
  cases ks <;> cases vs <;> simp only [Ckl.evalPairs] <;> gtr_auto

theorem step_evalBody (ih : AllG I ld LS fuel) : ∀ s0 env ns last, GTr I s0 (evalBody ld (fuel+1) env ns last) := by
  have ihEval := ih.eval; have ihBody := ih.evalBody
  intro s0 env ns last
  cases ns <;> simp only [Ckl.evalBody] <;> gtr_auto

theorem step_evalFinally (ih : AllG I ld LS fuel) : ∀ s0 env ns, GTr I s0 (evalFinally ld (fuel+1) env ns) := by
  have ihEval := ih.eval; have ihFin := ih.evalFinally
  intro s0 env ns
  cases ns <;> simp only [Ckl.evalFinally] <;> gtr_auto

theorem step_tryHandlers (ih : AllG I ld LS fuel) :
    ∀ s0 env cs hs v msg p t, GTr I s0 (tryHandlers ld (fuel+1) env cs hs v msg p t) := by
  have ihEval := ih.eval; have ihTry := ih.tryHandlers
  intro s0 env cs hs v msg p t
  cases cs with
  | nil => simp only [Ckl.tryHandlers]; exact ⟨fun _ h => h⟩
  | cons c cs =>
    cases hs with
    | nil => simp only [Ckl.tryHandlers]; exact ⟨fun _ h => h⟩
    | cons h hs => cases c <;> simp only [Ckl.tryHandlers] <;> gtr_auto

theorem step_evalArgs (ih : AllG I ld LS fuel) :
    ∀ s0 env names args pos, GTr I s0 (evalArgs ld (fuel+1) env names args pos) := by
  have ihEval := ih.eval; have ihArgs := ih.evalArgs
  intro s0 env names args pos
  cases names with
  | nil => simp only [Ckl.evalArgs]; gtr_auto
  | cons n ns =>
    cases args with
    | nil => simp only [Ckl.evalArgs]; gtr_auto
    | cons a as => cases a <;> simp only [Ckl.evalArgs] <;> gtr_auto

theorem step_bindParams (ih : AllG I ld LS fuel) :
    ∀ s0 lenv ps ds bound pos, GTr I s0 (bindParams ld (fuel+1) lenv ps ds bound pos) := by
  have ihEval := ih.eval; have ihBP := ih.bindParams
  intro s0 lenv ps ds bound pos
  cases ps with
  | nil => simp only [Ckl.bindParams]; gtr_auto
  | cons p ps =>
    cases ds with
    | nil => simp only [Ckl.bindParams]; gtr_auto
    | cons d ds =>
      by_cases hd : d = Node.absent
      · subst hd; simp only [Ckl.bindParams]; gtr_auto
      · simp only [Ckl.bindParams]; gtr_auto

theorem step_evalFor (ih : AllG I ld LS fuel) :
    ∀ s0 env ids e body what pos, GTr I s0 (evalFor ld (fuel+1) env ids e body what pos) := by
  have ihEval := ih.eval; have ih1 := ih.forItems; have ih2 := ih.forListLive; have ih3 := ih.forString
  intro s0 env ids e body what pos
  simp only [Ckl.evalFor]; gtr_auto

theorem step_forItems (ih : AllG I ld LS fuel) :
    ∀ s0 env ids xs body r pos, GTr I s0 (forItems ld (fuel+1) env ids xs body r pos) := by
  have ihEval := ih.eval; have ih1 := ih.forItems
  intro s0 env ids xs body r pos
  cases xs <;> simp only [Ckl.forItems] <;> gtr_auto

theorem step_forListLive (ih : AllG I ld LS fuel) :
    ∀ s0 env ids a i body r pos, GTr I s0 (forListLive ld (fuel+1) env ids a i body r pos) := by
  have ihEval := ih.eval; have ih1 := ih.forListLive
  intro s0 env ids a i body r pos
  simp only [Ckl.forListLive]; gtr_auto

theorem step_forString (ih : AllG I ld LS fuel) :
    ∀ s0 env x cs body r, GTr I s0 (forString ld (fuel+1) env x cs body r) := by
  have ihEval := ih.eval; have ih1 := ih.forString
  intro s0 env x cs body r
  cases cs <;> simp only [Ckl.forString] <;> gtr_auto

theorem step_whileLoop (ih : AllG I ld LS fuel) :
    ∀ s0 env c body pos, GTr I s0 (whileLoop ld (fuel+1) env c body pos) := by
  have ihEval := ih.eval; have ih1 := ih.whileLoop
  intro s0 env c body pos
  simp only [Ckl.whileLoop]; gtr_auto

theorem step_comprStep (ih : AllG I ld LS fuel) :
    ∀ s0 lenv kind ve ke cond pos, GTr I s0 (comprStep ld (fuel+1) lenv kind ve ke cond pos) := by
  have ihEval := ih.eval
  intro s0 lenv kind ve ke cond pos
  by_cases hd : cond = Node.absent
  · subst hd; cases kind <;> simp only [Ckl.comprStep] <;> gtr_auto
  · cases kind <;> simp only [Ckl.comprStep] <;> gtr_auto

theorem step_comprLoop (ih : AllG I ld LS fuel) :
    ∀ s0 lenv kind ve ke cond pos l acc, GTr I s0 (comprLoop ld (fuel+1) lenv kind ve ke cond pos l acc) := by
  have ih1 := ih.comprStep; have ih2 := ih.comprLoop
  intro s0 lenv kind ve ke cond pos l acc
  match l with
  | [] => simp only [Ckl.comprLoop]; gtr_auto
  | [(x, [])] => simp only [Ckl.comprLoop]; gtr_auto
  | [(x, v :: vs)] => simp only [Ckl.comprLoop]; gtr_auto
  | _ :: _ :: _ => simp only [Ckl.comprLoop]; gtr_auto

theorem step_comprProduct (ih : AllG I ld LS fuel) :
    ∀ s0 lenv kind ve ke cond pos x1 vs x2 ws acc,
      GTr I s0 (comprProduct ld (fuel+1) lenv kind ve ke cond pos x1 vs x2 ws acc) := by
  have ih1 := ih.comprLoop; have ih2 := ih.comprProduct
  intro s0 lenv kind ve ke cond pos x1 vs x2 ws acc
  cases vs <;> simp only [Ckl.comprProduct] <;> gtr_auto

theorem step_comprParallel (ih : AllG I ld LS fuel) :
    ∀ s0 lenv kind ve ke cond pos x1 vs x2 ws acc,
      GTr I s0 (comprParallel ld (fuel+1) lenv kind ve ke cond pos x1 vs x2 ws acc) := by
  have ih1 := ih.comprStep; have ih2 := ih.comprParallel
  intro s0 lenv kind ve ke cond pos x1 vs x2 ws acc
  cases vs <;> cases ws <;> simp only [Ckl.comprParallel] <;> gtr_auto

theorem step_nativeSorted (ih : AllG I ld LS fuel) :
    ∀ s0 bound env pos, GTr I s0 (nativeSorted ld (fuel+1) bound env pos) := by
  have ih1 := ih.sortedOuter
  intro s0 bound env pos
  simp only [Ckl.nativeSorted]; gtr_auto

theorem step_sortedOuter (ih : AllG I ld LS fuel) :
    ∀ s0 cmp key senv pos arr i, GTr I s0 (sortedOuter ld (fuel+1) cmp key senv pos arr i) := by
  have ih1 := ih.sortedOuter; have ih2 := ih.sortedInner; have ih3 := ih.call1
  intro s0 cmp key senv pos arr i
  simp only [Ckl.sortedOuter]; gtr_auto

theorem step_sortedInner (ih : AllG I ld LS fuel) :
    ∀ s0 cmp key senv pos arr v j, GTr I s0 (sortedInner ld (fuel+1) cmp key senv pos arr v j) := by
  have ih2 := ih.sortedInner; have ih3 := ih.call1; have ih4 := ih.call2
  intro s0 cmp key senv pos arr v j
  cases j <;> simp only [Ckl.sortedInner] <;> gtr_auto

theorem step_call1 (ih : AllG I ld LS fuel) : ∀ s0 f x env pos, GTr I s0 (call1 ld (fuel+1) f x env pos) := by
  have ih1 := ih.callFn
  intro s0 f x env pos
  simp only [Ckl.call1]; gtr_auto

theorem step_call2 (ih : AllG I ld LS fuel) : ∀ s0 f x y env pos, GTr I s0 (call2 ld (fuel+1) f x y env pos) := by
  have ih1 := ih.callFn
  intro s0 f x y env pos
  simp only [Ckl.call2]; gtr_auto

theorem step_invoke (ih : AllG I ld LS fuel) :
    ∀ s0 fn pre names args env pos, GTr I s0 (invoke ld (fuel+1) fn pre names args env pos) := by
  have ih1 := ih.evalArgs; have ih2 := ih.callFn
  intro s0 fn pre names args env pos
  simp only [Ckl.invoke]
  gtr_auto
  all_goals exact GTr.invokeTail (ih2 _ _ _ _ _) _ _

theorem step_callFn (hN : ∀ s0 name args, GTr I s0 (ld.nativeSem name args)) (ih : AllG I ld LS fuel) :
    ∀ s0 fn bound env pos, GTr I s0 (callFn ld (fuel+1) fn bound env pos) := by
  have ih1 := ih.eval; have ih2 := ih.bindParams; have ih3 := ih.nativeSorted
  intro s0 fn bound env pos
  cases fn <;> simp only [Ckl.callFn] <;> gtr_auto


theorem step_evalRequire (hFrag : Frag I ld fuel) (ih : AllG I ld LS fuel) :
    ∀ s0 env spec name unq syms pos, GTr I s0 (evalRequire ld (fuel+1) env spec name unq syms pos) := by
  have ih1 := ih.eval
  intro s0 env spec name unq syms pos
  have tail : ∀ modulespec : String, GTr I s0 (show EvalM RVal from do
      let modulefile := if modulespec.endsWith ".ckl" then modulespec else modulespec ++ ".ckl"
      let last := (modulespec.splitOn "/").getLast!
      let ident := if last.endsWith ".ckl" then (last.dropEnd 4).toString else last
      let modulename := match name with
        | some n => if n = "" then ident else n
        | none => ident
      let s ← getS
      if s.modstack.contains ident then throwE ("Found circular module dependency (" ++ ident ++ ")") pos
      modifyS (fun s => { s with modstack := s.modstack ++ [ident] })
      let pop : State → State := fun s => { s with modstack := s.modstack.dropLast }
      let menv : EnvId ← (fun s1 =>
        match loadModule ld fuel env ident modulefile pos s1 with
        | .ok e s2 => .ok e (pop s2)
        | .err v m p t s2 => .err v m p t (pop s2)
        | .fail f s2 => .fail f (pop s2))
      let s ← getS
      let symbols := (s.localSymbols menv).filter (fun n => !n.startsWith "_")
      let valueOf := fun (n : String) => (s.lookup menv n).getD RVal.null
      if unq then do
        let exported := symbols.filter (fun n => !isModuleObj s (valueOf n))
        modifyS (fun s => exported.foldl (fun s n => s.put env n (valueOf n)) s)
        pure RVal.null
      else match syms with
      | some (sy :: sys) => do
        let table := sy :: sys
        modifyS (fun s => symbols.foldl (fun s n =>
          match table.lookup n with
          | some al => s.put env al (valueOf n)
          | none => s) s)
        pure RVal.null
      | _ => do
        let members := (symbols.filter (fun n => !isModuleObj s (valueOf n))).map (fun n => (n, valueOf n))
        let obj ← allocM (.obj (members.foldl (fun acc kv => dictPut kv.1 kv.2 acc) []) true)
        modifyS (·.put env modulename obj)
        pure RVal.null) := by
    intro modulespec
    dsimp only
    generalize (if modulespec.endsWith ".ckl" then modulespec else modulespec ++ ".ckl") = file
    generalize (if (modulespec.splitOn "/").getLast!.endsWith ".ckl"
      then ((modulespec.splitOn "/").getLast!.dropEnd 4).toString else (modulespec.splitOn "/").getLast!) = ident
    with_reducible apply GTr.getS_bind_at
    intro s hs
    by_cases hc : s.modstack.contains ident = true
    · rw [if_pos hc]; exact gpost_throwE_bind hs _ _ _
    · rw [if_neg hc]
      refine hFrag s0 env ident file pos _ (fun menv => ?_) s hs hc
      gtr_auto
  by_cases h : ∃ n p, spec = Node.ident n p
  · obtain ⟨n, p, rfl⟩ := h
    simp only [Ckl.evalRequire]
    with_reducible apply GTr.bind
    · gtr_auto
    · exact tail
  · have h' : ∀ n p, spec = Node.ident n p → False := fun n p e => h ⟨n, p, e⟩
    simp only [Ckl.evalRequire]
    with_reducible apply GTr.bind
    · gtr_auto
    · exact tail

end
end Ckl.Gen
