/-
  C02 — every predicate form `x is not P` is the negation of `x is P`: over the table REGENERATED
  from the two arms of `parse_pred_expr` on every run, the negative arm builds `NodeNot` of exactly
  the node the positive arm builds.  (On the pinned tree this failed at `list`: 'lsit'.)
-/
import CklVerif.Gen.PredTable
namespace Ckl.C02
open Ckl.Gen

theorem is_not_is_negation : ∀ row ∈ predTable, row.2.1 = row.2.2 := by decide +kernel

/-- the table is not empty (the quantifier is not vacuous) and covers the type predicates -/
theorem predTable_nonempty : predTable.length ≥ 20 := by decide +kernel

example : ("'list', 'identifier'", "func_call('equals', func_call('type', expr, None, pos), NodeLiteral(ValueString('list'), pos), pos)",
           "func_call('equals', func_call('type', expr, None, pos), NodeLiteral(ValueString('list'), pos), pos)") ∈ predTable := by decide +kernel

end Ckl.C02
