/-
  C17 — the first and the last day of EVERY year (the property names them explicitly).

  For every year y ≥ 1900, no upper bound:
  * 1 January and 31 December are valid dates, 31 December is day `yearDays y` of its year,
  * the day after 31 December y is 1 January y+1 — for `nextDay`, for the day numbers, for `toDate`
    and for `addDays` with +1 / −1 (so the year loop of `to_date` and the sum of `to_oa_date`
    agree at the boundary where one of them changes its iteration count),
  * consecutive 1 Januaries are exactly 365 or 366 day numbers apart, 366 exactly for Gregorian leap years,
  * 28 February is followed by 29 February exactly in leap years, and century years follow the 400 rule.
-/
import CklVerif.Proofs.C17

namespace Ckl.C17
open Ckl.Date

theorem monthDays_december (y : Nat) : monthDays y 11 = 31 := by
  simp [monthDays, daysPerMonth]

theorem monthDays_january (y : Nat) : monthDays y 0 = 31 := by
  simp [monthDays, daysPerMonth]

theorem validDate_jan1 {y : Nat} (hy : 1900 ≤ y) : validDate y 1 1 = true := by
  rw [validDate_iff]
  have := monthDays_january y
  refine ⟨hy, by omega, by omega, by omega, ?_⟩
  simp only [Nat.sub_self]; omega

theorem validDate_dec31 {y : Nat} (hy : 1900 ≤ y) : validDate y 12 31 = true := by
  rw [validDate_iff]
  have := monthDays_december y
  refine ⟨hy, by omega, by omega, by omega, ?_⟩
  show 31 ≤ monthDays y 11
  omega

/-- the calendar successor of 31 December is 1 January of the next year -/
theorem nextDay_dec31 (y : Nat) : nextDay y 12 31 = (y + 1, 1, 1) := by
  have h : monthDays y (12 - 1) = 31 := monthDays_december y
  simp [nextDay, h]

/-- the day number of 1 January y+1 is one more than that of 31 December y -/
theorem toOaDay_year_boundary {y : Nat} (hy : 1900 ≤ y) :
    toOaDay (y + 1) 1 1 = toOaDay y 12 31 + 1 := by
  have h := (nextDay_spec (validDate_dec31 hy)).2
  rw [nextDay_dec31] at h
  exact h

/-- `to_date` crosses the year boundary correctly, upwards … -/
theorem toDate_after_dec31 {y : Nat} (hy : 1900 ≤ y) :
    toDate (toOaDay y 12 31 + 1) = (y + 1, 1, 1) := by
  rw [← nextDay_eq_toDate (validDate_dec31 hy), nextDay_dec31]

/-- … and downwards -/
theorem toDate_before_jan1 {y : Nat} (hy : 1900 ≤ y) :
    toDate (toOaDay (y + 1) 1 1 - 1) = (y, 12, 31) := by
  rw [toOaDay_year_boundary hy, Nat.add_sub_cancel]
  exact toDate_toOaDay (validDate_dec31 hy)

/-- consecutive 1 Januaries are `yearDays y` day numbers apart -/
theorem toOaDay_jan1_succ {y : Nat} (hy : 1900 ≤ y) :
    toOaDay (y + 1) 1 1 = toOaDay y 1 1 + yearDays y := by
  simp only [toOaDay, Nat.sub_self, daysBeforeMonth_zero, daysBeforeYear_succ hy]; omega

/-- 31 December is the last day of its year: day number of 1 January plus `yearDays y - 1` -/
theorem toOaDay_dec31 {y : Nat} (hy : 1900 ≤ y) :
    toOaDay y 12 31 + 1 = toOaDay y 1 1 + yearDays y := by
  rw [← toOaDay_year_boundary hy, toOaDay_jan1_succ hy]

/-- a year has 366 day numbers exactly when it is a Gregorian leap year -/
theorem jan1_gap_leap {y : Nat} (hy : 1900 ≤ y) :
    toOaDay (y + 1) 1 1 = toOaDay y 1 1 + 366 ↔ (y % 4 = 0 ∧ (y % 100 ≠ 0 ∨ y % 400 = 0)) := by
  rw [toOaDay_jan1_succ hy, ← isLeapYear_iff]
  rcases yearDays_cases y with ⟨h1, h2⟩ | ⟨h1, h2⟩ <;> simp [h1, h2]

theorem jan1_gap_common {y : Nat} (hy : 1900 ≤ y) :
    toOaDay (y + 1) 1 1 = toOaDay y 1 1 + 365 ↔ isLeapYear y = false := by
  rw [toOaDay_jan1_succ hy]
  rcases yearDays_cases y with ⟨h1, h2⟩ | ⟨h1, h2⟩ <;> simp [h1, h2]

/-- `d + 1` on the last day of a year and `d - 1` on the first -/
theorem addDays_dec31_one {y : Nat} (hy : 1900 ≤ y) : addDays y 12 31 1 = (y + 1, 1, 1) := by
  unfold addDays
  have : ((toOaDay y 12 31 : Int) + 1).toNat = toOaDay y 12 31 + 1 := by omega
  rw [this]; exact toDate_after_dec31 hy

theorem addDays_jan1_neg_one {y : Nat} (hy : 1900 ≤ y) : addDays (y + 1) 1 1 (-1) = (y, 12, 31) := by
  unfold addDays
  have h2 := two_le_toOaDay (validDate_jan1 (y := y + 1) (by omega))
  have : ((toOaDay (y + 1) 1 1 : Int) + -1).toNat = toOaDay (y + 1) 1 1 - 1 := by omega
  rw [this]; exact toDate_before_jan1 hy

/-- a whole year forward from 1 January lands on 1 January -/
theorem addDays_jan1_year {y : Nat} (hy : 1900 ≤ y) :
    addDays y 1 1 (yearDays y) = (y + 1, 1, 1) := by
  unfold addDays
  have : ((toOaDay y 1 1 : Int) + (yearDays y : Int)).toNat = toOaDay y 1 1 + yearDays y := by omega
  rw [this, ← toOaDay_jan1_succ hy]
  exact toDate_toOaDay (validDate_jan1 (by omega))

/-! ## the leap day -/

theorem monthDays_february (y : Nat) : monthDays y 1 = if isLeapYear y then 29 else 28 := by
  cases h : isLeapYear y <;> simp [monthDays, daysPerMonth, h]

/-- 29 February exists exactly in leap years -/
theorem validDate_feb29_iff {y : Nat} (hy : 1900 ≤ y) :
    validDate y 2 29 = true ↔ isLeapYear y = true := by
  rw [validDate_iff]
  have h := monthDays_february y
  have h' : monthDays y (2 - 1) = monthDays y 1 := rfl
  cases hl : isLeapYear y <;> simp [hl] at h <;> simp [h, hy]

theorem nextDay_feb28 (y : Nat) :
    nextDay y 2 28 = if isLeapYear y then (y, 2, 29) else (y, 3, 1) := by
  have h := monthDays_february y
  have h' : monthDays y (2 - 1) = monthDays y 1 := rfl
  cases hl : isLeapYear y <;> simp [hl] at h <;> simp [nextDay, h]

/-- century years: leap only when divisible by 400 -/
theorem century_leap_iff (c : Nat) : isLeapYear (100 * c) = true ↔ c % 4 = 0 := by
  rw [isLeapYear_iff]; omega

/-- the leap rule has period 400 -/
theorem isLeapYear_period (y : Nat) : isLeapYear (y + 400) = isLeapYear y := by
  have h1 := isLeapYear_iff (y + 400)
  have h2 := isLeapYear_iff y
  cases ha : isLeapYear (y + 400) <;> cases hb : isLeapYear y <;> simp [ha, hb] at h1 h2 ⊢ <;> omega

theorem yearDays_period (y : Nat) : yearDays (y + 400) = yearDays y := by
  simp [yearDays, isLeapYear_period]

/-- the Gregorian cycle: 400 years are exactly 146 097 days -/
theorem daysBeforeYear_period {y : Nat} (hy : 1900 ≤ y) :
    daysBeforeYear (y + 400) = daysBeforeYear y + 146097 := by
  have h1 := daysBeforeYear_closed hy
  have h2 := daysBeforeYear_closed (y := y + 400) (by omega)
  omega

theorem toOaDay_period {y m d : Nat} (hy : 1900 ≤ y) :
    toOaDay (y + 400) m d = toOaDay y m d + 146097 := by
  have hm : ∀ k, daysBeforeMonth (y + 400) k = daysBeforeMonth y k := by
    intro k
    induction k with
    | zero => rfl
    | succ k ih => simp [daysBeforeMonth, ih, monthDays, isLeapYear_period]
  simp only [toOaDay, daysBeforeYear_period hy, hm]; omega

/-- … and `to_date` is periodic with it -/
theorem toDate_period {n : Nat} (h : 2 ≤ n) :
    toDate (n + 146097) = ((toDate n).1 + 400, (toDate n).2.1, (toDate n).2.2) := by
  obtain ⟨hv, ho⟩ := toDate_spec h
  generalize toDate n = r at hv ho
  obtain ⟨y, m, d⟩ := r
  simp only [validT, oaOf] at hv ho
  have hv' := hv
  rw [validDate_iff] at hv'
  obtain ⟨hy, hm1, hm12, hd1, hd⟩ := hv'
  have hv400 : validDate (y + 400) m d = true := by
    rw [validDate_iff]
    refine ⟨by omega, hm1, hm12, hd1, ?_⟩
    simpa [monthDays, isLeapYear_period] using hd
  have := toDate_toOaDay hv400
  rw [toOaDay_period hy, ho] at this
  exact this

/-! non-vacuity: the boundary of a leap year, a common year, a skipped century leap day and a kept one -/
example : nextDay 1999 12 31 = (2000, 1, 1) ∧ toOaDay 2000 1 1 = toOaDay 1999 12 31 + 1 ∧
    toOaDay 2001 1 1 = toOaDay 2000 1 1 + 366 ∧ toOaDay 1901 1 1 = toOaDay 1900 1 1 + 365 ∧
    validDate 2000 2 29 = true ∧ validDate 1900 2 29 = false ∧ validDate 2100 2 29 = false := by decide +kernel
example : toDate (45000 + 146097) = (2423, 3, 15) := by
  have := toDate_period (n := 45000) (by decide)
  rw [this]; decide

end Ckl.C17
