/-
  C18Eval — non-vacuity of `Proofs/C18Eval.lean`: instances of the theorems on a concrete state (`example`s) and
  whole programs through `parseScript` + `interpretProg` on the interpreter's initial state (`#guard`s), including
  strings with quotes, backslashes, braces and non-ASCII characters.  Tests on sample inputs, not property theorems.
-/
import CklVerif.Proofs.C18Eval
set_option linter.unusedSimpArgs false
namespace Ckl.C18Eval
open Ckl Ckl.C19Src Ckl.C15Eval Ckl.Str

def ldEx : Loader := {}
def q0 : Pos := {}

/-- `s = 'it\'s \\{x} ☃'` (quote, backslash, braces, non-ASCII), `t = '\\{'`, `e = ''`, `c = '☃'`, `n = 9731`,
    `big = 1114112`, `neg = -1`, `b = TRUE`, `d = 2.5`, and the built-ins under their own names -/
def sEx : State :=
  { frames := #[{ vars := [
      ("s", .str ['i', 't', '\'', 's', ' ', '\\', '{', 'x', '}', ' ', '☃']), ("t", .str ['\\', '{']),
      ("e", .str []), ("c", .str ['☃']), ("n", .int 9731), ("big", .int 1114112), ("neg", .int (-1)),
      ("b", .bool true), ("d", .dec 5 1),
      ("add", .native "add" 0), ("equals", .native "equals" 1), ("greater_equals", .native "greater_equals" 2),
      ("length", .native "length" 3), ("find", .native "find" 4), ("contains", .native "contains" 5),
      ("starts_with", .native "starts_with" 6), ("ends_with", .native "ends_with" 7), ("chr", .native "chr" 8),
      ("ord", .native "ord" 9), ("string", .native "string" 10)] }],
    heap := #[] }

def csS : List Char := ['i', 't', '\'', 's', ' ', '\\', '{', 'x', '}', ' ', '☃']
def csT : List Char := ['\\', '{']

theorem lk_s : sEx.lookup 0 "s" = some (.str csS) := by rfl
theorem lk_t : sEx.lookup 0 "t" = some (.str csT) := by simp [State.lookup, State.lookupF, State.frame, sEx, dictGet, csT]
theorem lk_e : sEx.lookup 0 "e" = some (.str []) := by simp [State.lookup, State.lookupF, State.frame, sEx, dictGet]
theorem lk_c : sEx.lookup 0 "c" = some (.str ['☃']) := by simp [State.lookup, State.lookupF, State.frame, sEx, dictGet]
theorem lk_n : sEx.lookup 0 "n" = some (.int 9731) := by simp [State.lookup, State.lookupF, State.frame, sEx, dictGet]
theorem lk_big : sEx.lookup 0 "big" = some (.int 1114112) := by
  simp [State.lookup, State.lookupF, State.frame, sEx, dictGet]
theorem lk_neg : sEx.lookup 0 "neg" = some (.int (-1)) := by
  simp [State.lookup, State.lookupF, State.frame, sEx, dictGet]
theorem lk_b : sEx.lookup 0 "b" = some (.bool true) := by simp [State.lookup, State.lookupF, State.frame, sEx, dictGet]
theorem lk_d : sEx.lookup 0 "d" = some (.dec 5 1) := by simp [State.lookup, State.lookupF, State.frame, sEx, dictGet]
theorem lk_add : sEx.lookup 0 "add" = some (.native "add" 0) := by
  simp [State.lookup, State.lookupF, State.frame, sEx, dictGet]
theorem lk_equals : sEx.lookup 0 "equals" = some (.native "equals" 1) := by
  simp [State.lookup, State.lookupF, State.frame, sEx, dictGet]
theorem lk_ge : sEx.lookup 0 "greater_equals" = some (.native "greater_equals" 2) := by
  simp [State.lookup, State.lookupF, State.frame, sEx, dictGet]
theorem lk_length : sEx.lookup 0 "length" = some (.native "length" 3) := by
  simp [State.lookup, State.lookupF, State.frame, sEx, dictGet]
theorem lk_find : sEx.lookup 0 "find" = some (.native "find" 4) := by
  simp [State.lookup, State.lookupF, State.frame, sEx, dictGet]
theorem lk_contains : sEx.lookup 0 "contains" = some (.native "contains" 5) := by
  simp [State.lookup, State.lookupF, State.frame, sEx, dictGet]
theorem lk_starts : sEx.lookup 0 "starts_with" = some (.native "starts_with" 6) := by
  simp [State.lookup, State.lookupF, State.frame, sEx, dictGet]
theorem lk_ends : sEx.lookup 0 "ends_with" = some (.native "ends_with" 7) := by
  simp [State.lookup, State.lookupF, State.frame, sEx, dictGet]
theorem lk_chr : sEx.lookup 0 "chr" = some (.native "chr" 8) := by
  simp [State.lookup, State.lookupF, State.frame, sEx, dictGet]
theorem lk_ord : sEx.lookup 0 "ord" = some (.native "ord" 9) := by
  simp [State.lookup, State.lookupF, State.frame, sEx, dictGet]
theorem lk_string : sEx.lookup 0 "string" = some (.native "string" 10) := by
  simp [State.lookup, State.lookupF, State.frame, sEx, dictGet]

def nS : Node := .ident "s" q0
def nT : Node := .ident "t" q0
def nE : Node := .ident "e" q0
def nC : Node := .ident "c" q0
def nN : Node := .ident "n" q0
def nBig : Node := .ident "big" q0
def nNeg : Node := .ident "neg" q0
def nB : Node := .ident "b" q0
def nD : Node := .ident "d" q0

/-! ### 5a. instances -/

-- §1 `callPure`: the hypotheses are met by the positional argument table; the conclusions computed
example : ∃ m, callPure "contains" [("obj", .str csS), ("part", .str csT)] none q0 = some m ∧
    m sEx = .ok (.bool (decide (csT <:+: csS))) sEx ∧ decide (csT <:+: csS) = true :=
  ⟨_, rfl, (native_contains (d0 := none) rfl rfl rfl).1, by decide⟩
example : ∃ m, callPure "contains" [("obj", .str csT), ("part", .str csS)] none q0 = some m ∧
    m sEx = .ok (.bool (decide (csS <:+: csT))) sEx ∧ decide (csS <:+: csT) = false :=
  ⟨_, rfl, (native_contains (d0 := none) rfl rfl rfl).1, by decide⟩
example : ∃ m m', callPure "contains" [("obj", .str csS), ("part", .str csT)] none q0 = some m ∧
    callPure "find" [("obj", .str csS), ("part", .str csT)] none q0 = some m' ∧
    ∃ r : Int, m' sEx = .ok (.int r) sEx ∧ m sEx = .ok (.bool (decide (0 ≤ r))) sEx :=
  ⟨_, _, rfl, rfl, by
    obtain ⟨r, h1, h2, _⟩ := native_contains_find (s := sEx) (cs := csS) (t := csT)
      (args := [("obj", .str csS), ("part", .str csT)]) (args' := [("obj", .str csS), ("part", .str csT)])
      (d0 := none) (d0' := none) (pos := q0) (pos' := q0) rfl rfl rfl rfl rfl rfl rfl rfl
    exact ⟨r, h1, h2⟩⟩
example : Seq.find csS csT 0 = 5 := by decide
example : ∃ m, callPure "contains" [("obj", .int 1234), ("part", .str ['2', '3'])] none q0 = some m ∧
    m sEx = .ok (.bool (decide (['2', '3'] <:+: ['1', '2', '3', '4']))) sEx :=
  ⟨_, rfl, native_contains_atom (d0 := none) (o := .int 1234) rfl rfl (by decide) rfl⟩
example : ∃ m, callPure "contains" [("obj", .str csS), ("part", .int 1)] none q0 = some m ∧
    m sEx = .err ERR "String required but got int" q0 [] sEx :=
  ⟨_, rfl, native_contains_part_not_string (d0 := none) (v := .int 1) rfl rfl rfl (fun _ h => RVal.noConfusion h)⟩
example : ∃ m, callPure "starts_with" [("str", .str csS), ("part", .str ['i', 't'])] none q0 = some m ∧
    m sEx = .ok (.bool (decide (['i', 't'] <+: csS))) sEx ∧ decide (['i', 't'] <+: csS) = true :=
  ⟨_, rfl, (native_starts_with (d0 := none) rfl rfl rfl).1, by decide⟩
example : ∃ m, callPure "ends_with" [("str", .str csS), ("part", .str [' ', '☃'])] none q0 = some m ∧
    m sEx = .ok (.bool (decide ([' ', '☃'] <:+ csS))) sEx ∧ decide ([' ', '☃'] <:+ csS) = true :=
  ⟨_, rfl, (native_ends_with (d0 := none) rfl rfl rfl).1, by decide⟩
example : ∃ m, callPure "starts_with" [("str", .int 5), ("part", .str [])] none q0 = some m ∧
    m sEx = .err ERR "String required" q0 [] sEx :=
  ⟨_, rfl, starts_with_not_string (d0 := none) (v := .int 5) (w := .str []) rfl rfl rfl (by intro h; cases h)
    (Or.inl (fun t h => RVal.noConfusion h))⟩
example : ValidCode 9731 ∧ ¬ ValidCode 55296 ∧ ¬ ValidCode (-1) ∧ ¬ ValidCode 1114112 ∧ ValidCode 1114111 := by decide
example : ∃ m m', callPure "ord" [("ch", .str ['☃', 'x'])] none q0 = some m ∧
    callPure "chr" [("n", .int ('☃').toNat)] none q0 = some m' ∧
    m sEx = .ok (.int ('☃').toNat) sEx ∧ m' sEx = .ok (.str ['☃']) sEx :=
  ⟨_, _, rfl, rfl, (native_chr_ord (d0 := none) (args' := [("n", .int ('☃').toNat)]) (d0' := none) (pos' := q0) rfl rfl rfl rfl).1,
    (native_chr_ord (args := [("ch", .str ['☃', 'x'])]) (d0 := none) (pos := q0) (d0' := none) rfl rfl rfl rfl).2.2.2⟩
example : ∃ m, callPure "chr" [("n", .int (-1))] none q0 = some m ∧
    m sEx = .err ERR "chr failed: ValueError" q0 [] sEx := ⟨_, rfl, chr_out_of_range (d0 := none) rfl rfl (by decide)⟩
example : ∃ m, callPure "chr" [("n", .int 55296)] none q0 = some m ∧
    m sEx = .fail (.unsupported "lone surrogate") sEx := ⟨_, rfl, chr_surrogate_abstains (d0 := none) rfl rfl (by decide)⟩
example : ∃ m, callPure "add" [("a", .str csT), ("b", .int (-12))] none q0 = some m ∧
    m sEx = .ok (.str (csT ++ renderInt (-12))) sEx := ⟨_, rfl, native_add_str_int (d0 := none) rfl rfl rfl⟩
example : csT ++ renderInt (-12) = ['\\', '{', '-', '1', '2'] := by decide
example : ∃ m, callPure "add" [("a", .str csT), ("b", .bool true)] none q0 = some m ∧
    m sEx = .ok (.str (csT ++ if true then ['T', 'R', 'U', 'E'] else ['F', 'A', 'L', 'S', 'E'])) sEx :=
  ⟨_, rfl, native_add_str_bool (d0 := none) (b := true) rfl rfl rfl⟩

-- §1b call nodes / operator nodes / `in` node
example : Ev ldEx 4 0 (.call (.ident "contains" q0) [none, none] [nS, nT] q0) sEx
    (.ok (.bool (decide (csT <:+: csS))) sEx) :=
  call_contains ldEx (k := 0) lk_contains (by trivial) (by trivial) (Ev.ident ldEx lk_s) (Ev.ident ldEx lk_t)
example : Ev ldEx 1 0 (.isIn nT nS q0) sEx (.ok (.bool (decide (csT <:+: csS))) sEx) :=
  (in_node_str ldEx (k := 0) (Ev.ident ldEx lk_t) (Ev.ident ldEx lk_s)).1
example : Ev ldEx 3 0 (.call (.ident "chr" q0) [none] [nN] q0) sEx (.ok (.str [Char.ofNat 9731]) sEx) := by
  have := call_chr ldEx (k := 0) (p := q0) (pos := q0) lk_chr (by trivial) (Ev.ident ldEx (p := q0) lk_n) (by decide)
  rwa [if_pos (by decide)] at this
example : Ev ldEx 3 0 (.call (.ident "chr" q0) [none] [nBig] q0) sEx
    (.err ERR "chr failed: ValueError" q0 [("chr", q0)] sEx) := by
  have := call_chr ldEx (k := 0) (p := q0) (pos := q0) lk_chr (by trivial) (Ev.ident ldEx (p := q0) lk_big) (by decide)
  rwa [if_neg (by decide)] at this
example : Ev ldEx 3 0 (.call (.ident "chr" q0) [none] [nNeg] q0) sEx
    (.err ERR "chr failed: ValueError" q0 [("chr", q0)] sEx) := by
  have := call_chr ldEx (k := 0) (p := q0) (pos := q0) lk_chr (by trivial) (Ev.ident ldEx (p := q0) lk_neg) (by decide)
  rwa [if_neg (by decide)] at this
example : Ev ldEx 3 0 (.call (.ident "ord" q0) [none] [nE] q0) sEx
    (.err ERR "ord failed: IndexError" q0 [("ord", q0)] sEx) :=
  call_ord ldEx (k := 0) lk_ord (by trivial) (Ev.ident ldEx lk_e)
example : Ev ldEx 3 0 (.call (.ident "ord" q0) [none] [nS] q0) sEx (.ok (.int ('i').toNat) sEx) :=
  call_ord ldEx (k := 0) (cs := csS) lk_ord (by trivial) (Ev.ident ldEx lk_s)
example : Ev ldEx 4 0 (Ckl.Parser.funcCallAB "add" nT nN q0) sEx (.ok (.str (csT ++ renderInt 9731)) sEx) :=
  op_add_str_int ldEx (k := 0) lk_add (by trivial) (by trivial) (Ev.ident ldEx lk_t) (Ev.ident ldEx lk_n)
example : Ev ldEx 4 0 (Ckl.Parser.funcCallAB "add" nT nD q0) sEx (.ok (.str (csT ++ decRepr 5 1)) sEx) :=
  op_add_str_atom ldEx (k := 0) lk_add (by trivial) (by trivial) (Ev.ident ldEx lk_t) (Ev.ident ldEx lk_d) rfl

-- §2 the laws, on `s` (quote, backslash, braces, non-ASCII) and `t`
example : Ev ldEx 12 0
    (Ckl.Parser.funcCallAB "equals" (.call (.ident "contains" q0) [none, none] [nS, nT] q0)
      (Ckl.Parser.funcCallAB "greater_equals" (.call (.ident "find" q0) [none, none] [nS, nT] q0)
        (.lit (.int 0) q0) q0) q0) sEx (.ok (.bool true) sEx) :=
  law_contains_find ldEx (k := 0) lk_contains lk_find lk_ge lk_equals (Ev.ident ldEx lk_s) (Ev.ident ldEx lk_t)
    (by trivial) (by trivial)
-- … also when `t` does NOT occur (`contains(t, s)`, `find(t, s) = -1`): both sides FALSE, the law still TRUE
example : Ev ldEx 12 0
    (Ckl.Parser.funcCallAB "equals" (.call (.ident "contains" q0) [none, none] [nT, nS] q0)
      (Ckl.Parser.funcCallAB "greater_equals" (.call (.ident "find" q0) [none, none] [nT, nS] q0)
        (.lit (.int 0) q0) q0) q0) sEx (.ok (.bool true) sEx) :=
  law_contains_find ldEx (k := 0) lk_contains lk_find lk_ge lk_equals (Ev.ident ldEx lk_t) (Ev.ident ldEx lk_s)
    (by trivial) (by trivial)
example : Ev ldEx 8 0 (.call (.ident "starts_with" q0) [none, none] [Ckl.Parser.funcCallAB "add" nS nT q0, nS] q0)
    sEx (.ok (.bool true) sEx) :=
  law_starts_with_append ldEx (k := 0) lk_starts lk_add (Ev.ident ldEx lk_s) (Ev.ident ldEx lk_t)
    (by trivial) (by trivial)
example : Ev ldEx 8 0 (.call (.ident "ends_with" q0) [none, none] [Ckl.Parser.funcCallAB "add" nS nT q0, nT] q0)
    sEx (.ok (.bool true) sEx) :=
  law_ends_with_append ldEx (k := 0) lk_ends lk_add (Ev.ident ldEx lk_s) (Ev.ident ldEx lk_t)
    (by trivial) (by trivial)
example : Ev ldEx 11 0
    (Ckl.Parser.funcCallAB "equals"
      (.call (.ident "length" q0) [none] [Ckl.Parser.funcCallAB "add" nS nT q0] q0)
      (Ckl.Parser.funcCallAB "add" (.call (.ident "length" q0) [none] [nS] q0)
        (.call (.ident "length" q0) [none] [nT] q0) q0) q0) sEx (.ok (.bool true) sEx) :=
  law_length_append ldEx (k := 0) lk_length lk_add lk_equals (Ev.ident ldEx lk_s) (Ev.ident ldEx lk_t)
    (by trivial) (by trivial)
example : Ev ldEx 8 0 (Ckl.Parser.funcCallAB "equals" (Ckl.Parser.funcCallAB "add" nS (.lit (.str []) q0) q0) nS q0)
    sEx (.ok (.bool true) sEx) :=
  law_add_empty ldEx (k := 0) lk_add lk_equals (Ev.ident ldEx lk_s) (Ev.litStr ldEx) (by trivial) (by trivial)
example : Ev ldEx 8 0 (Ckl.Parser.funcCallAB "equals" (Ckl.Parser.funcCallAB "add" nE nS q0) nS q0)
    sEx (.ok (.bool true) sEx) :=
  law_empty_add ldEx (k := 0) lk_add lk_equals (Ev.ident ldEx lk_s) (Ev.ident ldEx lk_e) (by trivial) (by trivial)
example : Ev ldEx 8 0
    (Ckl.Parser.funcCallAB "equals" (.isIn nT nS q0) (.call (.ident "contains" q0) [none, none] [nS, nT] q0) q0)
    sEx (.ok (.bool true) sEx) :=
  law_in_contains ldEx (k := 0) lk_contains lk_equals (Ev.ident ldEx lk_s) (Ev.ident ldEx lk_t)
    (by trivial) (by trivial)
example : Ev ldEx 8 0 (.call (.ident "contains" q0) [none, none] [Ckl.Parser.funcCallAB "add" nS nT q0, nT] q0)
    sEx (.ok (.bool true) sEx) :=
  (law_contains_append ldEx (k := 0) lk_contains lk_add (Ev.ident ldEx lk_s) (Ev.ident ldEx lk_t)
    (by trivial) (by trivial)).2
example : Ev ldEx 10 0
    (Ckl.Parser.funcCallAB "equals"
      (.call (.ident "chr" q0) [none] [.call (.ident "ord" q0) [none] [nC] q0] q0) nC q0) sEx
    (.ok (.bool true) sEx) :=
  law_chr_ord ldEx (k := 0) lk_chr lk_ord lk_equals (Ev.ident ldEx lk_c) (by trivial)
example : Ev ldEx 6 0 (.call (.ident "chr" q0) [none] [.call (.ident "ord" q0) [none] [nS] q0] q0) sEx
    (.ok (.str ['i']) sEx) :=
  law_chr_ord_first ldEx (k := 0) (rest := csS.tail) lk_chr lk_ord (Ev.ident ldEx lk_s) (by trivial)
example : Ev ldEx 10 0
    (Ckl.Parser.funcCallAB "equals"
      (.call (.ident "ord" q0) [none] [.call (.ident "chr" q0) [none] [nN] q0] q0) nN q0) sEx
    (.ok (.bool true) sEx) :=
  law_ord_chr ldEx (k := 0) lk_chr lk_ord lk_equals (Ev.ident ldEx lk_n) (by trivial) (by decide)
example : Ev ldEx 14 0
    (Ckl.Parser.funcCallAB "equals"
      (.call (.ident "length" q0) [none] [Ckl.Parser.funcCallAB "add" nS nD q0] q0)
      (Ckl.Parser.funcCallAB "add" (.call (.ident "length" q0) [none] [nS] q0)
        (.call (.ident "length" q0) [none] [.call (.ident "string" q0) [none] [nD] q0] q0) q0) q0)
    sEx (.ok (.bool true) sEx) :=
  law_length_add_render ldEx (k := 0) (v := .dec 5 1) (Or.inr (Or.inl ⟨5, 1, rfl⟩)) lk_length lk_string lk_add
    lk_equals (Ev.ident ldEx lk_s) (Ev.ident ldEx lk_d) (by trivial) (by trivial)

/-! ### 5b. whole programs: source text → `parseScript` → `interpretProg` on the initial state -/

def exSt0 : State × EnvId := initialState true modelledNatives

def runSrc (src : String) (fuel : Nat := 200) : String :=
  match parseScript src.toList "-" with
  | .error e => "syntax: " ++ e.msg
  | .ok n =>
    match interpretProg {} fuel exSt0.2 n exSt0.1 with
    | .ok v s => "ok " ++ (match rrender s v with | some t => String.ofList t | none => "?")
    | .err v m p t _ => "err " ++ (match v with | .str e => String.ofList e | _ => "?") ++ ": " ++ m ++ " @" ++
        toString p.line ++ ":" ++ toString p.col ++ " " ++ toString (t.map (·.1))
    | .fail f _ => "fail " ++ (match f with
        | .oof => "oof" | .unsupported w => "unsupported " ++ w | .host k => "host " ++ k | .syn e => "syn " ++ e.msg)

/-- the parser writes the source of each law exactly as the AST the theorem is about -/
def sameShape (src : String) (n : Node → Bool) : Bool :=
  match parseScript src.toList "-" with
  | .ok m => n m
  | .error _ => false

#guard sameShape "contains(s, t) == (find(s, t) >= 0)" fun n => match n with
  | .call (.ident "equals" _) [some "a", some "b"]
      [.call (.ident "contains" _) [none, none] [.ident "s" _, .ident "t" _] _,
       .call (.ident "greater_equals" _) [some "a", some "b"]
         [.call (.ident "find" _) [none, none] [.ident "s" _, .ident "t" _] _, .lit (.int 0) _] _] _ => true
  | _ => false
#guard sameShape "starts_with(s + t, s)" fun n => match n with
  | .call (.ident "starts_with" _) [none, none]
      [.call (.ident "add" _) [some "a", some "b"] [.ident "s" _, .ident "t" _] _, .ident "s" _] _ => true
  | _ => false
#guard sameShape "length(s + t) == length(s) + length(t)" fun n => match n with
  | .call (.ident "equals" _) [some "a", some "b"]
      [.call (.ident "length" _) [none] [.call (.ident "add" _) [some "a", some "b"] [.ident "s" _, .ident "t" _] _] _,
       .call (.ident "add" _) [some "a", some "b"]
         [.call (.ident "length" _) [none] [.ident "s" _] _, .call (.ident "length" _) [none] [.ident "t" _] _] _] _ =>
      true
  | _ => false
#guard sameShape "s + '' == s" fun n => match n with
  | .call (.ident "equals" _) [some "a", some "b"]
      [.call (.ident "add" _) [some "a", some "b"] [.ident "s" _, .lit (.str []) _] _, .ident "s" _] _ => true
  | _ => false
#guard sameShape "(t in s) == contains(s, t)" fun n => match n with
  | .call (.ident "equals" _) [some "a", some "b"]
      [.isIn (.ident "t" _) (.ident "s" _) _, .call (.ident "contains" _) [none, none] [.ident "s" _, .ident "t" _] _] _ =>
      true
  | _ => false

-- the laws on plain, quoted, backslashed, braced and non-ASCII strings (source escapes: `\'` quote, `\\` backslash)
#guard runSrc "contains('abcab', 'ca') == (find('abcab', 'ca') >= 0)" == "ok TRUE"
#guard runSrc "contains('abcab', 'cc') == (find('abcab', 'cc') >= 0)" == "ok TRUE"
#guard runSrc "[contains('abcab', 'cc'), find('abcab', 'cc'), contains('abcab', ''), find('abcab', '')]" ==
  "ok [FALSE, -1, TRUE, 0]"
#guard runSrc "def s = 'it\\'s'; def t = '\\\\{x}'; [s, t, s + t]" == "ok ['it\\'s', '\\\\{x}', 'it\\'s\\\\{x}']"
#guard runSrc "def s = 'it\\'s'; def t = '\\\\{x}'; [length(s), length(t), length(s + t)]" == "ok [4, 4, 8]"
#guard runSrc "def s = 'it\\'s'; def t = '\\\\{x}'; contains(s + t, '\\'s\\\\{') == (find(s + t, '\\'s\\\\{') >= 0)" ==
  "ok TRUE"
#guard runSrc "def s = 'it\\'s'; def t = '\\\\{x}'; [starts_with(s + t, s), ends_with(s + t, t), starts_with(s + t, t)]" ==
  "ok [TRUE, TRUE, FALSE]"
#guard runSrc "def s = 'it\\'s'; def t = '\\\\{x}'; length(s + t) == length(s) + length(t)" == "ok TRUE"
#guard runSrc "def s = 'it\\'s \\\\{x} ☃'; [s + '' == s, '' + s == s, length(s)]" == "ok [TRUE, TRUE, 11]"
#guard runSrc "def s = 'naïve — ☃'; def t = '☃'; [(t in s) == contains(s, t), t in s, contains(s, t), find(s, t)]" ==
  "ok [TRUE, TRUE, TRUE, 8]"
#guard runSrc "def s = 'naïve — ☃'; [length(s), starts_with(s, 'naï'), ends_with(s, '— ☃'), ends_with(s, 'naï')]" ==
  "ok [9, TRUE, TRUE, FALSE]"
#guard runSrc "('{' in 'ab{c}') == contains('ab{c}', '{')" == "ok TRUE"
-- chr / ord: inverse on the valid range, exact errors outside, the model's abstention on surrogates
#guard runSrc "[ord('☃'), chr(9731), chr(ord('ï')) == 'ï', ord(chr(128512)) == 128512, chr(ord('abc'))]" ==
  "ok [9731, '☃', TRUE, TRUE, 'a']"
#guard runSrc "[chr(0) == chr(0), ord(chr(0)), ord(chr(1114111)), ord('\\''), ord('\\\\'), ord('{')]" ==
  "ok [TRUE, 0, 1114111, 39, 92, 123]"
#guard runSrc "chr(-1)" == "err ERROR: chr failed: ValueError @1:4 [chr]"
#guard runSrc "chr(1114112)" == "err ERROR: chr failed: ValueError @1:4 [chr]"
#guard runSrc "chr(55296)" == "fail unsupported lone surrogate"
#guard runSrc "ord('')" == "err ERROR: ord failed: IndexError @1:4 [ord]"
#guard runSrc "[chr(NULL), ord(NULL)]" == "ok [NULL, NULL]"
#guard runSrc "chr('a')" == "err ERROR: Int required but got string @1:4 [chr]"
#guard runSrc "ord(1)" == "err ERROR: String required but got int @1:4 [ord]"
-- string + other kinds: the rendering; NULL absorbs
#guard runSrc "['a' + 12, 12 + 'a', 'x=' + 2.5, 'x=' + TRUE, FALSE + '!', 'n=' + -7]" ==
  "ok ['a12', '12a', 'x=2.5', 'x=TRUE', 'FALSE!', 'n=-7']"
#guard runSrc "['a' + NULL, NULL + 'a', 'a' + 1 + TRUE + 2.5 + NULL]" == "ok [NULL, NULL, NULL]"
#guard runSrc "[string(NULL) == '', string(12) + string('q'), string('it\\'s'), length(string('it\\'s'))]" ==
  "ok [TRUE, '12q', 'it\\'s', 4]"
#guard runSrc "length('é' + 5) == length('é') + length(string(5))" == "ok TRUE"
#guard runSrc "length('é' + 2.25) == length('é') + length(string(2.25))" == "ok TRUE"
-- the corners the theorems name
#guard runSrc "[1 in '123', '1' in '123', contains(1234, '23'), contains(NULL, 'a'), starts_with(NULL, 'a')]" ==
  "ok [FALSE, TRUE, TRUE, FALSE, FALSE]"
#guard runSrc "contains('abc', 1)" == "err ERROR: String required but got int @1:9 [contains]"
#guard runSrc "starts_with('abc', 1)" == "err ERROR: String required @1:12 [starts_with]"
#guard runSrc "ends_with(5, 'a')" == "err ERROR: String required @1:10 [ends_with]"

end Ckl.C18Eval
