/-
  C05 — the modelled built-in functions (`callPure`) never touch the block counters.
-/
import CklVerif.Lemmas.C05Helpers
namespace Ckl.C05
open Ckl

variable {s0 : State}

theorem Tr.dateResM (r : DateRes) (pos : Pos) : Tr s0 (dateResM r pos) := by
  unfold Ckl.dateResM; tr_auto
macro_rules | `(tactic| tr_lemma) => `(tactic| exact Tr.dateResM _ _)

theorem Tr.callDate (name : String) (args : List (String × RVal)) (pos : Pos) (m : EvalM RVal)
    (h : callDate name args pos = some m) : Tr s0 m := by
  unfold Ckl.callDate at h
  split at h <;> first | (injection h with h; subst h; exact Tr.dateResM _ _) | (cases h)

theorem Tr.nativeAdd (a b : RVal) (pos : Pos) : Tr s0 (nativeAdd a b pos) := by
  unfold Ckl.nativeAdd; tr_auto
macro_rules | `(tactic| tr_lemma) => `(tactic| exact Tr.nativeAdd _ _ _)

theorem Tr.nativeSub (a b : RVal) (pos : Pos) : Tr s0 (nativeSub a b pos) := by
  unfold Ckl.nativeSub; tr_auto
macro_rules | `(tactic| tr_lemma) => `(tactic| exact Tr.nativeSub _ _ _)

theorem Tr.nativeMul (a b : RVal) (pos : Pos) : Tr s0 (nativeMul a b pos) := by
  unfold Ckl.nativeMul; tr_auto
macro_rules | `(tactic| tr_lemma) => `(tactic| exact Tr.nativeMul _ _ _)

theorem Tr.nativeDiv (a b : RVal) (d : Option RVal) (pos : Pos) : Tr s0 (nativeDiv a b d pos) := by
  unfold Ckl.nativeDiv; tr_auto
macro_rules | `(tactic| tr_lemma) => `(tactic| exact Tr.nativeDiv _ _ _ _)

theorem Tr.nativeMod (a b : RVal) (pos : Pos) : Tr s0 (nativeMod a b pos) := by
  unfold Ckl.nativeMod; tr_auto
macro_rules | `(tactic| tr_lemma) => `(tactic| exact Tr.nativeMod _ _ _)


/-- every modelled pure native keeps the counters balanced -/
theorem Tr.callPure (name : String) (args : List (String × RVal)) (d : Option RVal) (pos : Pos)
    (m : EvalM RVal) (h : callPure name args d pos = some m) : Tr s0 m := by
  unfold Ckl.callPure at h
  split at h
  all_goals first | (cases h) | (exact Tr.callDate _ _ _ _ h)
  all_goals tr_auto

end Ckl.C05
