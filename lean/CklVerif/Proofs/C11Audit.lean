import CklVerif.Proofs.C11

#print axioms Ckl.C11.cntS_bumpS
#print axioms Ckl.C11.RMod.trans
#print axioms Ckl.C11.RMod.congr
#print axioms Ckl.C11.rmod_addModule
#print axioms Ckl.C11.frag
#print axioms Ckl.C11.load_step
#print axioms Ckl.C11.allMod
#print axioms Ckl.C11.modInv_evals_le_one
#print axioms Ckl.C11.modInv_evals_eq_one_iff
#print axioms Ckl.C11.module_once
#print axioms Ckl.C11.module_evaluated_at_most_once
#print axioms Ckl.C11.cached_module_is_kept
#print axioms Ckl.C11.cached_module_not_reevaluated
#print axioms Ckl.C11.default_nativeSem_keeps_modules
#print axioms Ckl.C11.nativeKeepsModules_of_abstains
#print axioms Ckl.C11.nativeKeepsModules_of_untouched
#print axioms Ckl.C11.interpret_module_once
#print axioms Ckl.C11.session_module_once
#print axioms Ckl.C11.modInv_initial
#print axioms Ckl.C11.session_modules_at_most_once
#print axioms Ckl.C11.ldAB_keeps
