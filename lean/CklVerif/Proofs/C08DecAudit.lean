/-
  C08Dec — audit: axioms of every property theorem of `Proofs/C08Dec.lean`.
-/
import CklVerif.Proofs.C08Dec
open Ckl.C08Dec

#print axioms nearestDouble_isDouble
#print axioms parseDecimal_isDouble
#print axioms decRepr_shape
#print axioms nearestDouble_of_inside
#print axioms shortestDigits_found
#print axioms shortestDigits_inside
#print axioms decRepr_roundtrip
#print axioms roundtrip_dec
#print axioms roundtrip_dec_text
#print axioms decRepr_injective
#print axioms dec_lit_eval
#print axioms roundtrip_dec_eval
#print axioms roundtrip_dec_pipeline
#print axioms roundtrip_text_dec
#print axioms list_tokens_dec
#print axioms roundtrip_data_dec
#print axioms render_injective_dec
#print axioms roundtrip_eval_dec
#print axioms roundtrip_text_list_dec
#print axioms roundtrip_value_list_dec
#print axioms data_tokens_dec
#print axioms roundtrip_parse_dec
#print axioms render_injective_all
#print axioms isDataP_of_isData'
