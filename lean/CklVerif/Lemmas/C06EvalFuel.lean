/-
  C06Eval — the fuel lemma: a value that reifies at all reifies with fuel `heap.size`
  (pigeonhole: the sets `{a | reifyF n (ref a) ≠ none}` grow with `n`, live inside
  `{0, …, heap.size - 1}`, and once two consecutive ones agree they agree for ever),
  and what follows: rendering at full strength, `HeapOK` is kept by `alloc` of a well-formed
  cell on a heap without dangling references.
-/
import CklVerif.Lemmas.C06EvalNat
namespace Ckl.C06E
open Ckl

/-! ### counting -/

theorem countP_lt_of {α : Type} {p q : α → Bool} : ∀ {l : List α},
    (∀ x ∈ l, p x = true → q x = true) → ∀ {a : α}, a ∈ l → q a = true → p a = false →
    l.countP p < l.countP q
  | [], _, _, ha, _, _ => by simp at ha
  | x :: l, hpq, a, ha, hq, hp => by
    have hmono : l.countP p ≤ l.countP q :=
      List.countP_mono_left (fun y hy => hpq y (List.mem_cons_of_mem _ hy))
    rw [List.countP_cons, List.countP_cons]
    rcases List.mem_cons.mp ha with rfl | hal
    · simp only [hq, hp, if_true, Bool.false_eq_true, if_false]; omega
    · have ih := countP_lt_of (fun y hy => hpq y (List.mem_cons_of_mem _ hy)) hal hq hp
      have hx := hpq x (by simp)
      by_cases hpx : p x = true
      · simp only [hpx, hx hpx, if_true]; omega
      · have e0 : (if p x = true then 1 else 0) = 0 := if_neg hpx
        rw [e0]; split <;> omega

section
variable (dr : DecRenderer) (h : Array Cell)

/-- fuel `n` already gives everything fuel `n + 1` gives -/
def Stable (n : Nat) : Prop :=
  ∀ (v : RVal) (w : Val), reifyF dr h (n + 1) v = some w → reifyF dr h n v = some w

theorem reifyF_nonref_fuel {n m : Nat} {v : RVal} (hv : ∀ a, v ≠ .ref a) :
    reifyF dr h n v = reifyF dr h m v := by
  cases v with
  | ref a => exact absurd rfl (hv a)
  | _ => cases n <;> cases m <;> simp [reifyF]

theorem stable_succ {n : Nat} (st : Stable dr h n) : Stable dr h (n + 1) := by
  intro v w hv
  by_cases hr : ∃ a, v = .ref a
  · obtain ⟨a, rfl⟩ := hr
    rw [reifyF_ref_succ'] at hv ⊢
    exact cellVal_mono dr st hv
  · rw [reifyF_nonref_fuel dr h (m := n + 1 + 1) (fun a ha => hr ⟨a, ha⟩)]; exact hv

theorem stable_add {n : Nat} (st : Stable dr h n) : ∀ k, Stable dr h (n + k)
  | 0 => st
  | k + 1 => stable_succ dr h (stable_add st k)

/-- once stable, every larger fuel gives nothing new -/
theorem stable_down {n : Nat} (st : Stable dr h n) : ∀ (k : Nat) (v : RVal) (w : Val),
    reifyF dr h (n + k) v = some w → reifyF dr h n v = some w
  | 0, _, _, hv => hv
  | k + 1, v, w, hv => stable_down st k v w (stable_add dr h st k v w hv)

/-- the cell `a` reifies with fuel `n` -/
def liveB (n a : Nat) : Bool := (reifyF dr h n (.ref a)).isSome

def liveCount (n : Nat) : Nat := (List.range h.size).countP (liveB dr h n)

theorem ref_lt_of_reifyF {n a : Nat} {w : Val} (hv : reifyF dr h n (.ref a) = some w) :
    a < h.size := by
  cases n with
  | zero => simp [reifyF] at hv
  | succ n =>
    rw [reifyF_ref_succ'] at hv
    rcases Nat.lt_or_ge a h.size with h1 | h1
    · exact h1
    · rw [Array.getElem?_eq_none h1] at hv; simp [cellVal] at hv

theorem liveCount_lt {n : Nat} (hn : ¬ Stable dr h n) : liveCount dr h n < liveCount dr h (n + 1) := by
  unfold Stable at hn
  simp only [not_forall] at hn
  obtain ⟨v, w, hv, hnv⟩ := hn
  by_cases hr : ∃ a, v = .ref a
  · obtain ⟨a, rfl⟩ := hr
    have ha := ref_lt_of_reifyF dr h hv
    refine countP_lt_of (a := a) ?_ (List.mem_range.mpr ha) ?_ ?_
    · intro x _ hx
      unfold liveB at hx ⊢
      obtain ⟨u, hu⟩ := Option.isSome_iff_exists.mp hx
      rw [reifyF_mono dr h n _ u hu]; rfl
    · unfold liveB; rw [hv]; rfl
    · unfold liveB
      cases hx : reifyF dr h n (.ref a) with
      | none => rfl
      | some u =>
        have := reifyF_mono dr h n _ u hx
        rw [hv] at this
        cases this
        exact absurd hx hnv
  · rw [reifyF_nonref_fuel dr h (m := n) (fun a ha => hr ⟨a, ha⟩)] at hv
    exact absurd hv hnv

theorem stable_or_count : ∀ n, Stable dr h n ∨ n ≤ liveCount dr h n
  | 0 => Or.inr (Nat.zero_le _)
  | n + 1 => by
    by_cases st : Stable dr h n
    · exact Or.inl (stable_succ dr h st)
    · rcases stable_or_count n with st' | hc
      · exact absurd st' st
      · have := liveCount_lt dr h st
        exact Or.inr (by omega)

theorem stable_of_all_live {n : Nat} (hall : ∀ a, a < h.size → liveB dr h n a = true) :
    Stable dr h n := by
  intro v w hv
  by_cases hr : ∃ a, v = .ref a
  · obtain ⟨a, rfl⟩ := hr
    have ha := ref_lt_of_reifyF dr h hv
    have hl := hall a ha
    unfold liveB at hl
    obtain ⟨u, hu⟩ := Option.isSome_iff_exists.mp hl
    have := reifyF_mono dr h n _ u hu
    rw [hv] at this
    cases this
    exact hu
  · rw [reifyF_nonref_fuel dr h (m := n + 1) (fun a ha => hr ⟨a, ha⟩)]; exact hv

/-- **pigeonhole**: fuel `heap.size` is stable -/
theorem stable_size : Stable dr h h.size := by
  rcases stable_or_count dr h h.size with st | hc
  · exact st
  · apply stable_of_all_live
    have hle : liveCount dr h h.size ≤ (List.range h.size).length := List.countP_le_length
    have heq : (List.range h.size).countP (liveB dr h h.size) = (List.range h.size).length := by
      rw [List.length_range] at hle ⊢
      unfold liveCount at hc hle
      omega
    intro a ha
    exact (List.countP_eq_length.mp heq) a (List.mem_range.mpr ha)

/-- **the fuel lemma**: a value that reifies with any fuel reifies with fuel `heap.size` -/
theorem reifyF_fuel_size {n : Nat} {v : RVal} {w : Val} (hv : reifyF dr h n v = some w) :
    reifyF dr h h.size v = some w := by
  rcases Nat.le_total n h.size with hle | hle
  · exact reifyF_mono_le dr h hle hv
  · obtain ⟨k, rfl⟩ := Nat.exists_eq_add_of_le hle
    exact stable_down dr h (stable_size dr h) k v w hv

/-- reification does not depend on the fuel, from `heap.size` on -/
theorem reifyF_fuel_indep {n m : Nat} (hn : h.size ≤ n) (hm : h.size ≤ m) (v : RVal) :
    reifyF dr h n v = reifyF dr h m v := by
  cases hv : reifyF dr h n v with
  | some w => exact (reifyF_mono_le dr h hm (reifyF_fuel_size dr h hv)).symm
  | none =>
    cases hv' : reifyF dr h m v with
    | none => rfl
    | some w =>
      have := reifyF_mono_le dr h hn (reifyF_fuel_size dr h hv')
      rw [hv] at this; cases this

end

/-- the fuel lemma on states: `reify` never needs its last unit of fuel -/
theorem reify_fuel {s : State} {v : RVal} {w : Val} (hv : reify s v = some w) :
    reifyF decRepr s.heap s.heap.size v = some w := reifyF_fuel_size decRepr s.heap hv

theorem reify_eq_fuel_size (s : State) (v : RVal) :
    reify s v = reifyF decRepr s.heap s.heap.size v :=
  reifyF_fuel_indep decRepr s.heap (Nat.le_succ _) (Nat.le_refl _) v

/-- **bridge (rendering)** at full strength -/
theorem rrender_eq_render_full {s : State} {v : RVal} {va : Val} (hv : reify s v = some va) :
    rrender s v = some (render va) := rrender_eq_render (reify_fuel hv)

/-! ### heaps without dangling references -/

/-- a reference points into a heap of size `N` -/
def RefBelow (N : Nat) : RVal → Prop
  | .ref a => a < N
  | _ => True

/-- the data content of a cell (list / set elements, map keys and values) points below `N` -/
def CellClosed (N : Nat) : Cell → Prop
  | .list xs => ∀ x ∈ xs, RefBelow N x
  | .set xs => ∀ x ∈ xs, RefBelow N x
  | .map kvs => ∀ kv ∈ kvs, RefBelow N kv.1 ∧ RefBelow N kv.2
  | _ => True

/-- no list / set / map cell holds a dangling reference -/
def HeapClosed (s : State) : Prop :=
  ∀ (a : Nat) (c : Cell), s.heap[a]? = some c → CellClosed s.heap.size c

theorem RefBelow.mono {N M : Nat} (hNM : N ≤ M) {v : RVal} (h : RefBelow N v) : RefBelow M v := by
  cases v <;> simp only [RefBelow] at h ⊢
  omega

theorem CellClosed.mono {N M : Nat} (hNM : N ≤ M) {c : Cell} (h : CellClosed N c) :
    CellClosed M c := by
  cases c <;> simp only [CellClosed] at h ⊢
  · exact fun x hx => (h x hx).mono hNM
  · exact fun x hx => (h x hx).mono hNM
  · exact fun kv hkv => ⟨(h kv hkv).1.mono hNM, (h kv hkv).2.mono hNM⟩

/-- a value that reifies is not dangling -/
theorem refBelow_of_reify {s : State} {v : RVal} {w : Val} (hv : reify s v = some w) :
    RefBelow s.heap.size v := by
  cases v with
  | ref a => exact ref_lt_of_reifyF decRepr s.heap hv
  | _ => trivial

theorem forall2_left_mem {α β : Type} {R : α → β → Prop} {xs : List α} {ys : List β}
    (h : List.Forall₂ R xs ys) : ∀ x ∈ xs, ∃ y, R x y := by
  induction h with
  | nil => intro x hx; simp at hx
  | cons hab _ ih =>
    intro x hx
    rcases List.mem_cons.mp hx with rfl | hx
    · exact ⟨_, hab⟩
    · exact ih x hx

theorem cellClosed_list_of_reifL {s : State} {xs : List RVal} {A : List Val} (hA : ReifL s xs A) :
    CellClosed s.heap.size (.list xs) := by
  intro x hx
  obtain ⟨v, hv⟩ := forall2_left_mem hA x hx
  exact refBelow_of_reify hv

theorem cellClosed_set_of_reifL {s : State} {xs : List RVal} {A : List Val} (hA : ReifL s xs A) :
    CellClosed s.heap.size (.set xs) := cellClosed_list_of_reifL hA

theorem cellClosed_map_of_reifM {s : State} {kvs : List (RVal × RVal)} {P : List (Val × Val)}
    (hP : ReifM s kvs P) : CellClosed s.heap.size (.map kvs) := by
  intro kv hkv
  obtain ⟨p, hp⟩ := forall2_left_mem hP kv hkv
  have := pairF_some hp
  exact ⟨refBelow_of_reify this.1, refBelow_of_reify this.2⟩

section
variable (dr : DecRenderer)

/-- on a heap without dangling references, a reification in the grown heap of a value of the old
    heap is a reification in the old heap -/
theorem reifyF_unpush (h : Array Cell) (c : Cell)
    (cl : ∀ (a : Nat) (c' : Cell), h[a]? = some c' → CellClosed h.size c') :
    ∀ (n : Nat) (v : RVal) (w : Val), RefBelow h.size v →
      reifyF dr (h.push c) n v = some w → reifyF dr h n v = some w := by
  intro n
  induction n with
  | zero => intro v w _ hv; cases v <;> simp_all [reifyF]
  | succ n ih =>
    intro v w hb hv
    cases v with
    | ref a =>
      simp only [RefBelow] at hb
      rw [reifyF_ref_succ'] at hv ⊢
      have : (h.push c)[a]? = h[a]? := by
        rw [Array.getElem?_push]; simp [Nat.ne_of_lt hb]
      rw [this] at hv
      cases hc : h[a]? with
      | none => rw [hc] at hv; simp [cellVal] at hv
      | some c' =>
        rw [hc] at hv
        have hcl := cl a c' hc
        cases c' <;> simp only [cellVal, Option.map_eq_some_iff, CellClosed] at hv hcl ⊢
        · obtain ⟨vs, h1, h2⟩ := hv
          exact ⟨vs, mapM_option_mono (fun x hx v hxv => ih x v (hcl x hx) hxv) h1, h2⟩
        · obtain ⟨vs, h1, h2⟩ := hv
          exact ⟨vs, mapM_option_mono (fun x hx v hxv => ih x v (hcl x hx) hxv) h1, h2⟩
        · obtain ⟨vs, h1, h2⟩ := hv
          refine ⟨vs, mapM_option_mono ?_ h1, h2⟩
          intro kv hkv p hp
          have := pairF_some (f := reifyF dr (h.push c) n) hp
          exact pairF_of (ih _ _ (hcl kv hkv).1 this.1) (ih _ _ (hcl kv hkv).2 this.2)
        · cases hv
        · cases hv
    | _ => simp_all [reifyF]

end

/-- reification in the state after `alloc`, of a value of the old state, is reification in the old
    state (uses the fuel lemma: `reify` of the grown heap has one more unit of fuel) -/
theorem reify_of_alloc {s : State} (cl : HeapClosed s) (c : Cell) {v : RVal} {w : Val}
    (hb : RefBelow s.heap.size v) (hv : reify (s.alloc c).1 v = some w) : reify s v = some w := by
  have h1 : reifyF decRepr (s.heap.push c) ((s.heap.push c).size + 1) v = some w := hv
  have h2 := reifyF_unpush decRepr s.heap c cl _ v w hb h1
  exact reifyF_mono decRepr s.heap _ v w (reifyF_fuel_size decRepr s.heap h2)

theorem reify_alloc_iff {s : State} (cl : HeapClosed s) (c : Cell) {v : RVal}
    (hb : RefBelow s.heap.size v) (w : Val) :
    reify (s.alloc c).1 v = some w ↔ reify s v = some w :=
  ⟨reify_of_alloc cl c hb, reify_alloc c⟩

theorem cellOK_pull {f g : RVal → Option Val} {N : Nat} {c : Cell} (ok : CellOK f c)
    (hcl : CellClosed N c) (pull : ∀ x, RefBelow N x → ∀ v, g x = some v → f x = some v) :
    CellOK g c := by
  cases c with
  | set xs =>
    intro vs hvs
    exact ok vs (mapM_option_mono (fun x hx v hxv => pull x (hcl x hx) v hxv) hvs)
  | map kvs =>
    intro ks hks
    refine ok ks (mapM_option_mono ?_ hks)
    intro x hx v hxv
    obtain ⟨kv, hkv, rfl⟩ := List.mem_map.mp hx
    exact pull _ (hcl kv hkv).1 v hxv
  | list _ => trivial
  | obj _ _ => trivial
  | closure _ _ _ _ _ => trivial

/-- **`HeapOK` is kept by `alloc`** of a cell that is well formed in the old state, on a heap
    without dangling references -/
theorem heapOK_alloc {s : State} (wf : HeapOK s) (cl : HeapClosed s) {c : Cell}
    (hc : CellClosed s.heap.size c) (ok : CellOK (reify s) c) : HeapOK (s.alloc c).1 := by
  intro a c' ha
  have hheap : (s.alloc c).1.heap = s.heap.push c := rfl
  rw [hheap, Array.getElem?_push] at ha
  have pull : ∀ x, RefBelow s.heap.size x → ∀ v, reify (s.alloc c).1 x = some v →
      reify s x = some v := fun x hx v hv => reify_of_alloc cl c hx hv
  split at ha
  · cases ha
    exact cellOK_pull ok hc pull
  · exact cellOK_pull (wf a c' ha) (cl a c' ha) pull

/-- … and so is the absence of dangling references -/
theorem heapClosed_alloc {s : State} (cl : HeapClosed s) {c : Cell}
    (hc : CellClosed s.heap.size c) : HeapClosed (s.alloc c).1 := by
  intro a c' ha
  have hheap : (s.alloc c).1.heap = s.heap.push c := rfl
  rw [hheap, Array.getElem?_push] at ha
  rw [hheap, Array.size_push]
  split at ha
  · cases ha; exact hc.mono (Nat.le_succ _)
  · exact (cl a c' ha).mono (Nat.le_succ _)

/-- both invariants depend on the heap only -/
theorem heapOK_of_heap_eq {s s' : State} (h : s'.heap = s.heap) (wf : HeapOK s) : HeapOK s' := by
  intro a c hc
  rw [h] at hc
  have : reify s' = reify s := by funext v; simp [reify, h]
  rw [this]; exact wf a c hc

theorem heapClosed_of_heap_eq {s s' : State} (h : s'.heap = s.heap) (cl : HeapClosed s) :
    HeapClosed s' := by
  intro a c hc
  rw [h] at hc ⊢
  exact cl a c hc

/-! ### the allocating paths of the evaluator -/

/-- a new list cell -/
theorem newList_inv {s : State} (wf : HeapOK s) (cl : HeapClosed s) {xs : List RVal}
    (hx : ∀ x ∈ xs, RefBelow s.heap.size x) :
    ∃ s', newList xs s = .ok (.ref s.heap.size) s' ∧ s'.heap = s.heap.push (.list xs) ∧
      HeapOK s' ∧ HeapClosed s' :=
  ⟨(s.alloc (.list xs)).1, rfl, rfl, heapOK_alloc wf cl hx trivial, heapClosed_alloc cl hx⟩

theorem some_inj' {α : Type} {a b : α} (h : some a = some b) : a = b := Option.some.inj h

/-- the set-literal / `set()` / set-comprehension path: items of one ordered kind -/
theorem addSet_inv {s : State} (wf : HeapOK s) (cl : HeapClosed s) {items : List RVal}
    {I : List Val} (hI : ReifL s items I) (hk : ∀ a ∈ I, ∀ b ∈ I, SameKind a b) :
    ∃ s', addSet items s = .ok (.ref s.heap.size) s' ∧ HeapOK s' ∧ HeapClosed s' ∧
      reify s' (.ref s.heap.size) = some (mkSet decRepr I) := by
  have hL : ReifL s (items.foldl (fun acc x => setAdd s x acc) [])
      (I.foldl (fun acc v => addV v acc) []) :=
    foldl_setAdd_bridge wf hI (acc := []) (Acc := []) List.Forall₂.nil
  rw [foldl_addV_eq_dedup I [] List.Pairwise.nil, List.nil_append] at hL
  refine ⟨_, addSet_eq items s, heapOK_alloc wf cl (cellClosed_set_of_reifL hL) ?_,
    heapClosed_alloc cl (cellClosed_set_of_reifL hL), ?_⟩
  · intro vs hvs
    rw [forall2_mapM hL] at hvs
    cases hvs
    exact KeysOK.dedup hk
  · rw [reify_new_set hL]
    unfold mkSet
    rw [dedup_of_pairwise (dedup_pairwise' I)]

theorem assocOfList_keys_mem {I : List (Val × Val)} {k : Val}
    (h : k ∈ (assocOfList I).map (·.1)) : k ∈ I.map (·.1) := by
  unfold assocOfList at h
  have gen : ∀ (J acc : List (Val × Val)),
      k ∈ (J.foldl (fun acc kv => assocPut kv.1 kv.2 acc) acc).map (·.1) →
      k ∈ acc.map (·.1) ∨ k ∈ J.map (·.1) := by
    intro J
    induction J with
    | nil => intro acc h; exact Or.inl h
    | cons kv J ih =>
      intro acc h
      rcases ih _ h with h1 | h1
      · rw [assocPut_keys_addV] at h1
        unfold addV at h1
        split at h1
        · exact Or.inl h1
        · rcases List.mem_append.mp h1 with h2 | h2
          · exact Or.inl h2
          · right; simp at h2; simp [h2]
      · right; simp only [List.map_cons, List.mem_cons]; exact Or.inr h1
  rcases gen I [] h with h1 | h1
  · simp at h1
  · exact h1

/-- the map-literal / map-comprehension path: keys of one ordered kind -/
theorem allocMap_inv {s : State} (wf : HeapOK s) (cl : HeapClosed s) {kvs : List (RVal × RVal)}
    {I : List (Val × Val)} (hI : ReifM s kvs I)
    (hk : ∀ a ∈ I.map (·.1), ∀ b ∈ I.map (·.1), SameKind a b) :
    HeapOK (s.alloc (.map (kvs.foldl (fun acc kv => mapPut s kv.1 kv.2 acc) []))).1 ∧
    HeapClosed (s.alloc (.map (kvs.foldl (fun acc kv => mapPut s kv.1 kv.2 acc) []))).1 ∧
    reify (s.alloc (.map (kvs.foldl (fun acc kv => mapPut s kv.1 kv.2 acc) []))).1
      (.ref s.heap.size) = some (mkMap decRepr I) := by
  have hL : ReifM s (kvs.foldl (fun acc kv => mapPut s kv.1 kv.2 acc) []) (assocOfList I) :=
    foldl_mapPut_bridge wf hI (acc := []) (Acc := []) List.Forall₂.nil
  refine ⟨heapOK_alloc wf cl (cellClosed_map_of_reifM hL) ?_,
    heapClosed_alloc cl (cellClosed_map_of_reifM hL), ?_⟩
  · intro ks hks
    rw [forall2_mapM hL.keys] at hks
    cases hks
    refine ⟨fun a ha b hb => hk a (assocOfList_keys_mem ha) b (assocOfList_keys_mem hb), ?_⟩
    exact foldl_assocPut_keys_pairwise I [] List.Pairwise.nil
  · rw [reify_new_map hL]
    unfold mkMap
    have hp : ((assocOfList I).map (·.1)).Pairwise (fun x y => veq x y = false) :=
      foldl_assocPut_keys_pairwise I [] List.Pairwise.nil
    rw [assocOfList_of_pairwise (List.pairwise_map.mp hp)]

end Ckl.C06E
