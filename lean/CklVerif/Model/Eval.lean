/-
  Layer 1 — the evaluator: `Node.evaluate` of nodes.py, `invoke`,
  `FuncLambda.execute`, `FuncSorted`, `NodeRequire`, written as one mutual,
  fuel-indexed big-step function.  Every recursive call consumes one unit of fuel;
  `Fail.oof` stands for programs that do not terminate within the fuel.
-/
import CklVerif.Model.Natives
namespace Ckl

/-- module sources as parsed by the front end: key -> AST or syntax error.
    `bundled` is keyed by the lower-cased module file (`core.ckl`), `user` by the
    base file name as on disk (`~/.ckl/modules/<name>`). -/
structure Loader where
  bundled : List (String × Except SynErr Node) := []
  user : List (String × Except SynErr Node) := []
  /-- names of natives whose class has `secure = False` (regenerated table) -/
  effectful : List String := []
  /-- every name `bind_native` knows -/
  knownNatives : List String := []
  /-- symbols of the real base environment that the model does not define (library code
      written in the language itself, unmodelled natives): using one is `unsupported` -/
  baseNames : List String := []
  /-- bundled module files that were not handed to the model -/
  bundledNames : List String := []
  /-- interpretation of the natives that are NOT modelled (about 100 of the 150 built-ins):
      an arbitrary function of name, bound arguments and state — it may fail in any way,
      including with a host exception (`Fail.host`).  The structural theorems hold for
      every interpretation.  The driver's interpretation abstains (`unsupported`). -/
  nativeSem : String → List (String × RVal) → State → Out RVal :=
    fun name _ s => .fail (.unsupported ("native " ++ name)) s
  /-- `getArgNames()` of the unmodelled natives -/
  nativeArgs : String → Option (List String) := fun _ => none

instance : Inhabited Loader := ⟨{}⟩

def Loader.find (ld : Loader) (modulefile : String) : Option (Except SynErr Node) :=
  match ld.bundled.lookup modulefile.toLower with
  | some r => some r
  | none =>
    let base := (modulefile.splitOn "/").getLast!
    ld.user.lookup base

/-! ghost counters -/

def bump (p : Pos) : List (Pos × Nat) → List (Pos × Nat)
  | [] => [(p, 1)]
  | (q, n) :: rest => if p = q then (q, n + 1) :: rest else (q, n) :: bump p rest

def ghostEnter (s : State) (p : Pos) : State := { s with ghost := { s.ghost with enter := bump p s.ghost.enter } }
def ghostFin (s : State) (p : Pos) : State := { s with ghost := { s.ghost with fin := bump p s.ghost.fin } }

def bumpS (k : String) : List (String × Nat) → List (String × Nat)
  | [] => [(k, 1)]
  | (q, n) :: rest => if k = q then (q, n + 1) :: rest else (q, n) :: bumpS k rest

/-! helpers that do not evaluate nodes -/

def isModuleObj (s : State) : RVal → Bool
  | .ref a => match s.cell a with
    | some (.obj _ true) => true
    | _ => false
  | _ => false

/-- `getDestructuringValues(value, count, pos)` -/
def destructure (v : RVal) (count : Nat) (pos : Pos) : EvalM (List RVal) := do
  match ← cellOf v with
  | some (.list xs) => pure ((List.range count).map (fun i => xs.getD i .null))
  | some (.set xs) => do
      let s ← getS
      match sortedR s xs with
      | some ys => pure ((List.range count).map (fun i => ys.getD i .null))
      | none => unsupported "sorting non-data set elements"
  | _ => do throwE ("Cannot destructure " ++ (← typeOf v)) pos

/-- bind the loop variable(s) of a `for` -/
def bindLoopVars (env : EnvId) (ids : List String) (v : RVal) (pos : Pos) : EvalM Unit := do
  match ids with
  | [x] => modifyS (·.put env x v)
  | _ => do
      let vals ← destructure v ids.length pos
      modifyS (fun s => (ids.zip vals).foldl (fun s p => s.put env p.1 p.2) s)

/-- the bindings the loop identifiers have in frame `env` itself before the loop starts (`environment.map`) -/
def hiddenVars (s : State) (env : EnvId) (ids : List String) : List (String × RVal) :=
  ids.filterMap (fun x => (dictGet x (s.frame env).vars).map (fun v => (x, v)))

/-- put the hidden bindings back -/
def restoreVars (env : EnvId) (hidden : List (String × RVal)) (s : State) : State :=
  hidden.foldl (fun s xv => s.put env xv.1 xv.2) s

def removeVars (env : EnvId) (ids : List String) : EvalM Unit :=
  modifyS (fun s => ids.foldl (fun s x => s.remove env x) s)

/-- `getSpreadValues(value, pos)` -/
def spreadValues (v : RVal) (pos : Pos) : EvalM (List RVal) := do
  let s ← getS
  match ← cellOf v with
  | some (.list xs) => pure xs
  | some (.set xs) => match sortedR s xs with
    | some ys => pure ys
    | none => unsupported "sorting non-data set elements"
  | some (.map kvs) => match sortedR s (kvs.map (·.1)) with
    | some ys => pure ys
    | none => unsupported "sorting non-data map keys"
  | _ => throwE ("Cannot spread " ++ typeName s v) pos

/-- `getCollectionValue(collection, what, pos)` (a snapshot) -/
def collectionValues (v : RVal) (what : Option String) (pos : Pos) : EvalM (List RVal) := do
  let s ← getS
  match v with
  | .str cs => pure (cs.map (fun c => .str [c]))
  | _ =>
  match ← cellOf v with
  | some (.list xs) => pure xs
  | some (.set xs) => match sortedR s xs with
    | some ys => pure ys
    | none => unsupported "sorting non-data set elements"
  | some (.map kvs) =>
    match sortedEntriesR s kvs with
    | none => unsupported "sorting non-data map keys"
    | some es =>
      if what = some "keys" then pure (es.map (·.1))
      else if what = some "values" then pure (es.map (·.2))
      else es.mapM (fun kv => newList [kv.1, kv.2])
  | some (.obj kvs _) =>
      if what = some "values" then pure (kvs.map (·.2))
      else if what = some "entries" then kvs.mapM (fun kv => newList [.str kv.1.toList, kv.2])
      else pure (kvs.map (fun kv => .str kv.1.toList))
  | _ => throwE ("Cannot iterate over " ++ typeName s v) pos

/-- `ValueObject.findOwner(key)`: first object on the `_proto_` chain having the member -/
def findOwnerF (s : State) : Nat → RVal → String → List Nat → Option (List (String × RVal))
  | 0, _, _, _ => none
  | fuel + 1, .ref a, key, seen =>
    if seen.contains a then none else
    match s.cell a with
    | some (.obj kvs _) =>
      if dictHas key kvs then some kvs
      else match dictGet "_proto_" kvs with
        | some p => findOwnerF s fuel p key (a :: seen)
        | none => none
    | _ => none
  | _, _, _, _ => none

def findOwner (s : State) (v : RVal) (key : String) : Option (List (String × RVal)) :=
  findOwnerF s (s.heap.size + 1) v key []

/-- truthiness used by `DIV_0_VALUE` -/
def div0Value (s : State) (env : EnvId) : Option RVal :=
  match s.lookup env "DIV_0_VALUE" with
  | some v => some v       -- a Value object is always truthy in Python (no __bool__/__len__)
  | none => none

/-- NodeDef: a lambda value takes the name it is defined under -/
def renameClosure (v : RVal) (name : String) : EvalM Unit := do
  match v with
  | .closure a => do
    let s ← getS
    match s.cell a with
    | some (.closure e ps ds b _) => modifyS (·.setCell a (.closure e ps ds b name))
    | _ => pure ()
  | _ => pure ()

/-- NodeAssignDestructuring: assign positionally, NULL when the collection is short -/
def assignAll (env : EnvId) : List String → List RVal → Nat → RVal → Pos → EvalM RVal
  | [], _, _, last, _ => pure last
  | x :: xs, items, i, _, pos => do
    let v := items.getD i .null
    let s ← getS
    if !s.isDefined env x then throwE ("Variable " ++ x ++ " is not defined") pos
    match s.set env x v with
    | some s' => do setS s'; assignAll env xs items (i + 1) v pos
    | none => throwE (x ++ " is not defined") {}

/-- NodeDefDestructuring -/
def defAll (env : EnvId) : List String → List RVal → Nat → RVal → EvalM RVal
  | [], _, _, last => pure last
  | x :: xs, items, i, _ => do
    let v := items.getD i .null
    modifyS (·.put env x v)
    if i < items.length then renameClosure v x
    defAll env xs items (i + 1) v

def comprResult (kind : ComprKind) (out : List (RVal × RVal)) : EvalM RVal := do
  match kind with
  | .list => newList (out.map (·.2))
  | .set => addSet (out.map (·.2))
  | .map => do
    let s ← getS
    allocM (.map (out.foldl (fun acc kv => mapPut s kv.1 kv.2 acc) []))

def fnName (s : State) : RVal → String
  | .closure a => match s.cell a with
    | some (.closure _ _ _ _ n) => n
    | _ => "?"
  | .native n _ => n
  | _ => "?"

/-- `fn.getArgNames()` -/
def fnParams (s : State) : RVal → List String
  | .closure a => match s.cell a with
    | some (.closure _ ps _ _ _) => ps
    | _ => []
  | .native n _ => (nativeArgNames n).getD []
  | _ => []

section
variable (ld : Loader)

mutual

/-- `node.evaluate(environment)` -/
def eval : Nat → EnvId → Node → EvalM RVal
  | 0, _, _ => failM .oof
  | _ + 1, _, .absent => unsupported "evaluation of an absent node"
  | _ + 1, _, .catchAll => unsupported "evaluation of catch-all marker"
  | _ + 1, _, .null _ => pure .null
  | _ + 1, _, .lit v _ =>
    match v with
    | .null => pure .null
    | .bool b => pure (.bool b)
    | .int n => pure (.int n)
    | .dec m e => pure (.dec m e)
    | .str s => pure (.str s)
    | .pat s => pure (.pat s)
    | .date d => pure (.date d)
    | _ => unsupported "container literal node"
  | _ + 1, env, .ident name pos => do
    let s ← getS
    match s.lookup env name with
    | some v => pure v
    | none =>
      if ld.baseNames.contains name then unsupported ("library symbol " ++ name)
      else throwE ("Symbol '" ++ name ++ "' not defined") pos
  | fuel + 1, env, .and es pos => evalAnd fuel env es pos
  | fuel + 1, env, .or es pos => evalOr fuel env es pos
  | fuel + 1, env, .not e pos => do
    match ← eval fuel env e with
    | .bool b => pure (.bool (!b))
    | v => do throwE ("Expected boolean but got " ++ (← typeOf v)) pos
  | fuel + 1, env, .assign name e pos => do
    let s ← getS
    if !s.isDefined env name then throwE ("Variable " ++ name ++ " is not defined") pos
    let v ← eval fuel env e
    let s ← getS
    match s.set env name v with
    | some s' => do
        setS s'
        match s'.lookup env name with
        | some r => pure r
        | none => throwE ("Symbol '" ++ name ++ "' not defined") pos
    | none => throwE (name ++ " is not defined") {}
  | fuel + 1, env, .assignD names e pos => do
    let v ← eval fuel env e
    let items ← (do
      match ← cellOf v with
      | some (.list xs) => pure xs
      | some (.set xs) => do
          let s ← getS
          match sortedR s xs with
          | some ys => pure ys
          | none => unsupported "sorting non-data set elements"
      | _ => do throwE ("Destructuring assign expects list or set but got " ++ (← typeOf v)) pos)
    assignAll env names items 0 .null pos
  | fuel + 1, env, .block es ce ch fin _ pos => fun s0 =>
    let r := evalBody fuel env es (.bool true) (ghostEnter s0 pos)
    let r' : Out RVal := match r with
      | .err v msg p t s' => tryHandlers fuel env ce ch v msg p t s'
      | other => other
    match r' with
    | .ok v s' =>
      match evalFinally fuel env fin (ghostFin s' pos) with
      | .ok _ s'' => .ok v s''
      | .err v2 m2 p2 t2 s'' => .err v2 m2 p2 t2 s''
      | .fail f s'' => .fail f s''
    | .err v m p t s' =>
      match evalFinally fuel env fin (ghostFin s' pos) with
      | .ok _ s'' => .err v m p t s''
      | .err v2 m2 p2 t2 s'' => .err v2 m2 p2 t2 s''
      | .fail f s'' => .fail f s''
    -- Python's `finally` also runs when a CklSyntaxError (require of a broken module) or a
    -- host exception passes through the block
    | .fail (.syn e) s' =>
      match evalFinally fuel env fin (ghostFin s' pos) with
      | .ok _ s'' => .fail (.syn e) s''
      | .err v2 m2 p2 t2 s'' => .err v2 m2 p2 t2 s''
      | .fail f s'' => .fail f s''
    | .fail (.host k) s' =>
      match evalFinally fuel env fin (ghostFin s' pos) with
      | .ok _ s'' => .fail (.host k) s''
      | .err v2 m2 p2 t2 s'' => .err v2 m2 p2 t2 s''
      | .fail f s'' => .fail f s''
    | .fail f s' => .fail f s'
  | _ + 1, _, .brk pos => pure (.brk pos)
  | _ + 1, _, .cont pos => pure (.cont pos)
  | fuel + 1, env, .cls name members _ => do
    let vals ← evalSeq fuel env members
    let keys := members.map (fun m => match m with | .defn n _ _ _ => n | _ => "")
    let obj ← allocM (.obj ((keys.zip vals).foldl (fun acc kv => dictPut kv.1 kv.2 acc) []) false)
    modifyS (·.put env name obj)
    pure obj
  | fuel + 1, env, .defn name e _ _ => do
    let v ← eval fuel env e
    modifyS (·.put env name v)
    renameClosure v name
    pure v
  | fuel + 1, env, .defD names e _ pos => do
    let v ← eval fuel env e
    let items ← (do
      match ← cellOf v with
      | some (.list xs) => pure xs
      | some (.set xs) => do
          let s ← getS
          match sortedR s xs with
          | some ys => pure ys
          | none => unsupported "sorting non-data set elements"
      | _ => do throwE ("Destructuring def expects list or set but got " ++ (← typeOf v)) pos)
    defAll env names items 0 .null
  | fuel + 1, env, .deref e idxN dflt pos => do
    let idx ← eval fuel env idxN
    let v ← eval fuel env e
    if v.isNull then return .null
    match v with
    | .str s => do
      if !(dflt matches .absent) then throwE "Default value not allowed in string dereference" pos
      let i ← getIndex idx pos
      match Seq.deref s i with
      | some c => pure (.str [c])
      | none => throwE "Index out of bounds" pos
    | _ =>
    match ← cellOf v with
    | some (.list xs) => do
      if !(dflt matches .absent) then throwE "Default value not allowed in list dereference" pos
      let i ← getIndex idx pos
      match Seq.deref xs i with
      | some x => pure x
      | none => throwE "Index out of bounds" pos
    | some (.map kvs) => do
      let s ← getS
      match mapGet s idx kvs with
      | some x => pure x
      | none =>
        if dflt matches .absent then throwE "Map does not contain key" pos
        else eval fuel env dflt
    | some (.obj _ _) => do
      let member ← asStringM idx pos
      let s ← getS
      match findOwner s v (String.ofList member) with
      | some kvs => pure ((dictGet (String.ofList member) kvs).getD .null)
      | none => if dflt matches .absent then pure .null else eval fuel env dflt
    | _ => throwE "Cannot dereference value" pos
  | fuel + 1, env, .derefAssign e idxN vN pos => do
    let idx ← eval fuel env idxN
    let c ← eval fuel env e
    let v ← eval fuel env vN
    match c with
    | .str _ => unsupported "in-place string element assignment"
    | .ref a =>
      match ← cellOf c with
      | some (.list xs) => do
        let i ← getIndex idx pos
        let n : Int := xs.length
        let j := if i < 0 then i + n else i
        if j < 0 ∨ j ≥ n then throwE "Index out of bounds" pos
        modifyS (·.setCell a (.list (xs.set j.toNat v)))
        pure c
      | some (.map kvs) => do
        let s ← getS
        modifyS (·.setCell a (.map (mapPut s idx v kvs)))
        pure c
      | some (.obj kvs m) => do
        let member ← asStringM idx pos
        modifyS (·.setCell a (.obj (dictPut (String.ofList member) v kvs) m))
        pure c
      | _ => throwE "Cannot deref-assign" pos
    | _ => throwE "Cannot deref-assign" pos
  | fuel + 1, env, .derefInvoke objN member names args pos => do
    let o ← eval fuel env objN
    match ← cellOf o with
    | some (.obj _ isMod) => do
      let s ← getS
      match findOwner s o member with
      | none => throwE ("Member " ++ member ++ " not found") pos
      | some kvs =>
        let fn := (dictGet member kvs).getD .null
        if !fn.isFunc then throwE ("Member " ++ member ++ " is not a function") pos
        else if isMod then invoke fuel fn [] names args env pos
        else invoke fuel fn [o] names args env pos
    | some (.map kvs) => do
      let s ← getS
      match mapGet s (.str member.toList) kvs with
      | none => throwE ("Member " ++ member ++ " not found") pos
      | some fn =>
        if !fn.isFunc then throwE (member ++ " is not a function") pos
        else invoke fuel fn [] names args env pos
    | _ => throwE "Cannot deref-invoke" pos
  | fuel + 1, env, .slice e startN stopN pos => do
    let v ← eval fuel env e
    let st ← eval fuel env startN
    let en ← (if stopN matches .absent then pure none else do pure (some (← eval fuel env stopN)))
    if v.isNull then return .null
    let bounds : EvalM (Int × Option Int) := do
      let a ← getIndex st pos
      match en with
      | some x => do pure (a, some (← getIndex x pos))
      | none => pure (a, none)
    match v with
    | .str s => do let (a, b) ← bounds; pure (.str (Seq.slice s a b))
    | _ =>
    match ← cellOf v with
    | some (.list xs) => do let (a, b) ← bounds; newList (Seq.slice xs a b)
    | _ => throwE "Cannot slice" pos
  | fuel + 1, env, .error e pos => do
    let v ← eval fuel env e
    throwV v "" pos
  | fuel + 1, env, .for ids e body what pos => fun s0 =>
    -- `NodeFor.evaluate`: a loop variable hides a variable of the same name in the same frame for the duration of the
    -- loop only; the hidden bindings are put back when the loop ends or is aborted by an error
    let hidden := hiddenVars s0 env ids
    match evalFor fuel env ids e body what pos s0 with
    | .ok v s' => .ok v (restoreVars env hidden s')
    | .err v m p t s' => .err v m p t (restoreVars env hidden (ids.foldl (fun s x => s.remove env x) s'))
    -- a syntax error raised at run time (the body required a module that does not parse) is cleaned up after like a runtime error (repair e939333)
    | .fail (.syn e) s' => .fail (.syn e) (restoreVars env hidden (ids.foldl (fun s x => s.remove env x) s'))
    | other => other
  | fuel + 1, env, .call fnN names args pos => do
    let fn ← eval fuel env fnN
    if !fn.isFunc then throwE ("Expected def but got " ++ (← typeOf fn)) pos
    invoke fuel fn [] names args env pos
  | fuel + 1, env, .ite conds exprs els pos => evalIf fuel env conds exprs els pos
  | fuel + 1, env, .isIn e cN _ => do
    let v ← eval fuel env e
    let c ← eval fuel env cN
    let s ← getS
    match c with
    | .str t => match v with
      | .str x => pure (.bool (decide (0 ≤ Seq.find t x 0)))
      | _ => pure (.bool false)
    | _ =>
    match ← cellOf c with
    | some (.list xs) => pure (.bool (memR s v xs))
    | some (.set xs) => pure (.bool (memR s v xs))
    | some (.map kvs) => pure (.bool (mapGet s v kvs).isSome)
    | some (.obj kvs _) => match v with
      | .str x => pure (.bool (dictHas (String.ofList x) kvs))
      | _ => pure (.bool false)
    | _ => pure (.bool false)
  | _ + 1, env, .lambda params defaults body _ =>
    fun s => let (s', a) := s.alloc (.closure env params defaults body "lambda"); .ok (.closure a) s'
  | fuel + 1, env, .list items pos => do
    let vs ← evalItems fuel env items pos
    newList vs
  | fuel + 1, env, .set items _ => do
    let vs ← evalSeq fuel env items
    addSet vs
  | fuel + 1, env, .map keys values _ => do
    let kvs ← evalPairs fuel env keys values
    let s ← getS
    allocM (.map (kvs.foldl (fun acc kv => mapPut s kv.1 kv.2 acc) []))
  | fuel + 1, env, .object keys values _ => do
    let vs ← evalSeq fuel env values
    allocM (.obj ((keys.zip vs).foldl (fun acc kv => dictPut kv.1 kv.2 acc) []) false)
  | fuel + 1, env, .compr kind shape ve ke id1 l1 w1 id2 l2 w2 cond pos => do
    let s ← getS
    let (s', lenv) := s.newEnv env
    setS s'
    let c1 ← eval fuel env l1
    match shape with
    | .single => do
      let vals ← collectionValues c1 w1 pos
      let out ← comprLoop fuel lenv kind ve ke cond pos [(id1, vals)] []
      comprResult kind out
    | .product => do
      let c2 ← eval fuel env l2
      let v1 ← collectionValues c1 w1 pos
      let v2 ← collectionValues c2 w2 pos
      let out ← comprProduct fuel lenv kind ve ke cond pos id1 v1 id2 v2 []
      comprResult kind out
    | .parallel => do
      let c2 ← eval fuel env l2
      let v1 ← collectionValues c1 w1 pos
      let v2 ← collectionValues c2 w2 pos
      let n := max v1.length v2.length
      let pad := fun (l : List RVal) => l ++ List.replicate (n - l.length) RVal.null
      let out ← comprParallel fuel lenv kind ve ke cond pos id1 (pad v1) id2 (pad v2) []
      comprResult kind out
  | fuel + 1, env, .require spec name unq syms pos => evalRequire fuel env spec name unq syms pos
  | fuel + 1, env, .ret e pos => do
    if e matches .absent then pure (.ret .null pos)
    else do let v ← eval fuel env e; pure (.ret v pos)
  | fuel + 1, env, .spread e _ => eval fuel env e
  | fuel + 1, env, .while c body pos => do
    match ← eval fuel env c with
    | .bool b => if b then whileLoop fuel env c body pos else pure (.bool true)
    | v => do throwE ("Expected boolean condition but got " ++ (← typeOf v)) pos

/-- NodeAnd: clauses left to right, stop at the first FALSE -/
def evalAnd : Nat → EnvId → List Node → Pos → EvalM RVal
  | 0, _, _, _ => failM .oof
  | _ + 1, _, [], _ => pure (.bool true)
  | fuel + 1, env, e :: es, pos => do
    match ← eval fuel env e with
    | .bool b => if b then evalAnd fuel env es pos else pure (.bool false)
    | v => do throwE ("Expected boolean but got " ++ (← typeOf v)) pos

def evalOr : Nat → EnvId → List Node → Pos → EvalM RVal
  | 0, _, _, _ => failM .oof
  | _ + 1, _, [], _ => pure (.bool false)
  | fuel + 1, env, e :: es, pos => do
    match ← eval fuel env e with
    | .bool b => if b then pure (.bool true) else evalOr fuel env es pos
    | v => do throwE ("Expected boolean but got " ++ (← typeOf v)) pos

/-- NodeIf: the first branch whose condition is TRUE -/
def evalIf : Nat → EnvId → List Node → List Node → Node → Pos → EvalM RVal
  | 0, _, _, _, _, _ => failM .oof
  | fuel + 1, env, c :: cs, x :: xs, els, pos => do
    match ← eval fuel env c with
    | .bool b => if b then eval fuel env x else evalIf fuel env cs xs els pos
    | v => do throwE ("Expected boolean condition value but got " ++ (← typeOf v)) pos
  | fuel + 1, env, _, _, els, _ => eval fuel env els

/-- evaluate nodes left to right -/
def evalSeq : Nat → EnvId → List Node → EvalM (List RVal)
  | 0, _, _ => failM .oof
  | _ + 1, _, [] => pure []
  | fuel + 1, env, n :: ns => do
    let v ← eval fuel env n
    let vs ← evalSeq fuel env ns
    pure (v :: vs)

/-- list literal items, spreads expanded in place -/
def evalItems : Nat → EnvId → List Node → Pos → EvalM (List RVal)
  | 0, _, _, _ => failM .oof
  | _ + 1, _, [], _ => pure []
  | fuel + 1, env, n :: ns, pos => do
    match n with
    | .spread e _ => do
      let v ← eval fuel env e
      let xs ← spreadValues v pos
      let rest ← evalItems fuel env ns pos
      pure (xs ++ rest)
    | _ => do
      let v ← eval fuel env n
      let rest ← evalItems fuel env ns pos
      pure (v :: rest)

def evalPairs : Nat → EnvId → List Node → List Node → EvalM (List (RVal × RVal))
  | 0, _, _, _ => failM .oof
  | fuel + 1, env, k :: ks, v :: vs => do
    let kv ← eval fuel env k
    let vv ← eval fuel env v
    let rest ← evalPairs fuel env ks vs
    pure ((kv, vv) :: rest)
  | _ + 1, _, _, _ => pure []

/-- block statements: stop at the first control value and return it -/
def evalBody : Nat → EnvId → List Node → RVal → EvalM RVal
  | 0, _, _, _ => failM .oof
  | _ + 1, _, [], last => pure last
  | fuel + 1, env, n :: ns, _ => do
    let v ← eval fuel env n
    if v.isReturn || v.isBreak || v.isContinue then pure v
    else evalBody fuel env ns v

/-- finally part: all statements, values discarded -/
def evalFinally : Nat → EnvId → List Node → EvalM Unit
  | 0, _, _ => failM .oof
  | _ + 1, _, [] => pure ()
  | fuel + 1, env, n :: ns => do
    let _ ← eval fuel env n
    evalFinally fuel env ns

/-- catch clauses in order; the first whose value equals the error value (or `all`) handles -/
def tryHandlers : Nat → EnvId → List Node → List Node → RVal → String → Pos → List (String × Pos) → EvalM RVal
  | 0, _, _, _, _, _, _, _ => failM .oof
  | fuel + 1, env, c :: cs, h :: hs, v, msg, p, t => do
    if c matches .catchAll then eval fuel env h
    else do
      let cv ← eval fuel env c
      let s ← getS
      if rveq s v cv then eval fuel env h
      else tryHandlers fuel env cs hs v msg p t
  | _ + 1, _, _, _, v, msg, p, t => fun s => .err v msg p t s

/-- the `invoke` function of nodes.py; `pre` are already evaluated leading positional
    arguments (the receiver of a method call) -/
def invoke : Nat → RVal → List RVal → List (Option String) → List Node → EnvId → Pos → EvalM RVal
  | 0, _, _, _, _, _, _ => failM .oof
  | fuel + 1, fn, pre, names, args, env, pos => do
    let (ns, vs) ← evalArgs fuel env names args pos
    let s ← getS
    let paramNames : List String ← (match fn with
      | .closure a => match s.cell a with
        | some (.closure _ ps _ _ _) => pure ps
        | _ => pure []
      | .native n _ => match nativeArgNames n with
        | some l => pure l
        | none => match ld.nativeArgs n with
          | some l => pure l
          | none => unsupported ("native " ++ n)
      | _ => pure [])
    let bound ← setArgs paramNames (pre.map (fun _ => none) ++ ns) (pre ++ vs) pos
    fun s1 =>
      match callFn fuel fn bound env pos s1 with
      | .err v m p t s2 => .err v m p (t ++ [(fnName s2 fn, pos)]) s2
      | .fail (.syn e) s2 => .err (.str "ERROR".toList) e.msg pos [] s2
      -- the containment boundary of `invoke`: no host exception leaves a function call
      | .fail (.host k) s2 => .err (.str "ERROR".toList) (fnName s2 fn ++ " failed: " ++ k) pos [] s2
      | other => other

/-- argument evaluation left to right; spreads expand lists/sets in place and maps
    into named arguments (string keys) -/
def evalArgs : Nat → EnvId → List (Option String) → List Node → Pos → EvalM (List (Option String) × List RVal)
  | 0, _, _, _, _ => failM .oof
  | fuel + 1, env, n :: ns, a :: as, pos => do
    match a with
    | .spread e _ => do
      let v ← eval fuel env e
      let s ← getS
      match ← cellOf v with
      | some (.map kvs) =>
        match sortedEntriesR s kvs with
        | none => unsupported "sorting non-data map keys"
        | some es => do
          let names := es.map (fun kv => match kv.1 with | .str k => some (String.ofList k) | _ => none)
          let (rn, rv) ← evalArgs fuel env ns as pos
          pure (names ++ rn, es.map (·.2) ++ rv)
      | _ => do
        let xs ← spreadValues v pos
        let (rn, rv) ← evalArgs fuel env ns as pos
        pure (xs.map (fun _ => none) ++ rn, xs ++ rv)
    | _ => do
      let v ← eval fuel env a
      let (rn, rv) ← evalArgs fuel env ns as pos
      pure (n :: rn, v :: rv)
  | _ + 1, _, _, _, _ => pure ([], [])

/-- `fn.execute(args_, environment, pos)` -/
def callFn : Nat → RVal → List (String × RVal) → EnvId → Pos → EvalM RVal
  | 0, _, _, _, _ => failM .oof
  | fuel + 1, .closure a, bound, _, pos => do
    let s ← getS
    match s.cell a with
    | some (.closure cenv params defaults body _) => do
      let (s', lenv) := s.newEnv cenv
      setS s'
      bindParams fuel lenv params defaults bound pos
      let r ← eval fuel lenv body
      match r with
      | .ret v _ => pure v
      | .brk p => throwE "Cannot use break without surrounding loop" p
      | .cont p => throwE "Cannot use continue without surrounding loop" p
      | v => pure v
    | _ => unsupported "dangling closure"
  | fuel + 1, .native name _, bound, env, pos => do
    let s ← getS
    match callPure name bound (div0Value s env) pos with
    | some m => m
    | none =>
      if name = "sorted" then nativeSorted fuel bound env pos
      else if name = "bind_native" then do
        let n ← argGet bound "native" pos
        match n with
        | .str nm => do
          let nm := String.ofList nm
          let alias ← (if dictHas "alias" bound then do
            match ← argGet bound "alias" pos with
            | .str a => pure (some (String.ofList a))
            | v => do throwE ("String required but got " ++ (← typeOf v)) pos
            else pure none)
          if !ld.knownNatives.contains nm then throwE ("Unknown native " ++ nm) {}
          else if s.secure && ld.effectful.contains nm then pure .null
          else do
            let inst := s.nextInst
            modifyS (fun s => { s with nextInst := s.nextInst + 1 })
            match alias with
            | some al => modifyS (·.put env al (.native nm inst))
            | none => pure ()
            modifyS (·.put env nm (.native nm inst))
            pure .null
        | v => do throwE ("String required but got " ++ (← typeOf v)) pos
      else ld.nativeSem name bound
  | _ + 1, _, _, _, _ => unsupported "call of a non-function"

/-- parameters in declaration order: bound value, else default evaluated in the callee frame -/
def bindParams : Nat → EnvId → List String → List Node → List (String × RVal) → Pos → EvalM Unit
  | 0, _, _, _, _, _ => failM .oof
  | fuel + 1, lenv, p :: ps, d :: ds, bound, pos => do
    match dictGet p bound with
    | some v => modifyS (·.put lenv p v)
    | none =>
      if d matches .absent then throwE ("Missing argument " ++ p) pos
      else do
        let v ← eval fuel lenv d
        modifyS (·.put lenv p v)
    bindParams fuel lenv ps ds bound pos
  | _ + 1, _, _, _, _, _ => pure ()

/-- `for` statement proper (NodeFor.evaluateLoop) -/
def evalFor : Nat → EnvId → List String → Node → Node → String → Pos → EvalM RVal
  | 0, _, _, _, _, _, _ => failM .oof
  | fuel + 1, env, ids, e, body, what, pos => do
    let lst ← eval fuel env e
    match lst with
    | .str cs => forString fuel env (ids.headD "") cs body (.bool true)
    | .ref a =>
      match ← cellOf lst with
      | some (.list _) => do
        let r ← forListLive fuel env ids a 0 body (.bool true) pos
        match ← cellOf lst with
        | some (.list xs) => if xs.isEmpty then pure () else removeVars env ids
        | _ => pure ()
        pure r
      | some (.set xs) => do
        let s ← getS
        match sortedR s xs with
        | none => unsupported "sorting non-data set elements"
        | some ys => do
          let r ← forItems fuel env ids ys body (.bool true) pos
          if ys.isEmpty then pure () else removeVars env ids
          pure r
      | some (.map kvs) => do
        let s ← getS
        match sortedEntriesR s kvs with
        | none => unsupported "sorting non-data map keys"
        | some es => do
          let items ← es.mapM (fun kv =>
            if what = "keys" then pure kv.1
            else if what = "entries" then newList [kv.1, kv.2]
            else pure kv.2)
          let r ← forItems fuel env ids items body (.bool true) pos
          if es.isEmpty then pure () else removeVars env ids
          pure r
      | some (.obj kvs _) => do
        let items ← kvs.mapM (fun kv =>
          if what = "keys" then pure (RVal.str kv.1.toList)
          else if what = "entries" then newList [.str kv.1.toList, kv.2]
          else pure kv.2)
        let r ← forItems fuel env ids items body (.bool true) pos
        if kvs.isEmpty then pure () else removeVars env ids
        pure r
      | _ => throwE "Cannot iterate" pos
    | v => do throwE ("Cannot iterate over " ++ (← typeOf v)) pos

/-- iteration over a snapshot -/
def forItems : Nat → EnvId → List String → List RVal → Node → RVal → Pos → EvalM RVal
  | 0, _, _, _, _, _, _ => failM .oof
  | _ + 1, _, _, [], _, result, _ => pure result
  | fuel + 1, env, ids, x :: xs, body, _, pos => do
    bindLoopVars env ids x pos
    let r ← eval fuel env body
    if r.isBreak then pure (.bool true)
    else if r.isReturn then pure r
    else if r.isContinue then forItems fuel env ids xs body (.bool true) pos
    else forItems fuel env ids xs body r pos

/-- iteration over the live list cell: elements appended by the body are visited -/
def forListLive : Nat → EnvId → List String → Nat → Nat → Node → RVal → Pos → EvalM RVal
  | 0, _, _, _, _, _, _, _ => failM .oof
  | fuel + 1, env, ids, a, i, body, result, pos => do
    let s ← getS
    match s.cell a with
    | some (.list xs) =>
      match xs[i]? with
      | none => pure result
      | some x => do
        bindLoopVars env ids x pos
        let r ← eval fuel env body
        if r.isBreak then pure (.bool true)
        else if r.isReturn then pure r
        else if r.isContinue then forListLive fuel env ids a (i + 1) body (.bool true) pos
        else forListLive fuel env ids a (i + 1) body r pos
    | _ => pure result

/-- iteration over the characters of a string: the variable is removed after every
    iteration that ends normally, and stays after break / return -/
def forString : Nat → EnvId → String → List Char → Node → RVal → EvalM RVal
  | 0, _, _, _, _, _ => failM .oof
  | _ + 1, _, _, [], _, result => pure result
  | fuel + 1, env, x, c :: cs, body, _ => do
    modifyS (·.put env x (.str [c]))
    let r ← eval fuel env body
    if r.isBreak then pure (.bool true)
    else if r.isReturn then pure r
    else do
      modifyS (·.remove env x)
      forString fuel env x cs body (if r.isContinue then .bool true else r)

/-- body, then re-test of the condition before every further iteration -/
def whileLoop : Nat → EnvId → Node → Node → Pos → EvalM RVal
  | 0, _, _, _, _ => failM .oof
  | fuel + 1, env, c, body, pos => do
    let r ← eval fuel env body
    if r.isBreak then pure (.bool true)
    else if r.isReturn then pure r
    else do
      let r' := if r.isContinue then RVal.bool true else r
      match ← eval fuel env c with
      | .bool b => if b then whileLoop fuel env c body pos else pure r'
      | v => do throwE ("Expected boolean condition but got " ++ (← typeOf v)) pos

/-- one comprehension step in the local frame: the condition first, then (only if it holds) key and value -/
def comprStep : Nat → EnvId → ComprKind → Node → Node → Node → Pos → EvalM (Option (RVal × RVal))
  | 0, _, _, _, _, _, _ => failM .oof
  | fuel + 1, lenv, kind, ve, ke, cond, pos => do
    -- the filter is tested first; key and value are only evaluated for elements that pass it (repair 3dd0891)
    let pass ← (if cond matches .absent then pure true
      else do
        match ← eval fuel lenv cond with
        | .bool b => pure b
        | c => do throwE ("Condition must be boolean but got " ++ (← typeOf c)) pos)
    if pass then do
      let k ← (if kind matches .map then eval fuel lenv ke else pure .null)
      let v ← eval fuel lenv ve
      pure (some (k, v))
    else pure none

/-- single-variable comprehension (the list of (identifier, values) has one entry) -/
def comprLoop : Nat → EnvId → ComprKind → Node → Node → Node → Pos → List (String × List RVal) →
    List (RVal × RVal) → EvalM (List (RVal × RVal))
  | 0, _, _, _, _, _, _, _, _ => failM .oof
  | fuel + 1, lenv, kind, ve, ke, cond, pos, [(x, v :: vs)], acc => do
    modifyS (·.put lenv x v)
    let r ← comprStep fuel lenv kind ve ke cond pos
    comprLoop fuel lenv kind ve ke cond pos [(x, vs)] (match r with | some kv => acc ++ [kv] | none => acc)
  | _ + 1, _, _, _, _, _, _, _, acc => pure acc

def comprProduct : Nat → EnvId → ComprKind → Node → Node → Node → Pos → String → List RVal → String → List RVal →
    List (RVal × RVal) → EvalM (List (RVal × RVal))
  | 0, _, _, _, _, _, _, _, _, _, _, _ => failM .oof
  | _ + 1, _, _, _, _, _, _, _, [], _, _, acc => pure acc
  | fuel + 1, lenv, kind, ve, ke, cond, pos, x1, v :: vs, x2, ws, acc => do
    modifyS (·.put lenv x1 v)
    let acc' ← comprLoop fuel lenv kind ve ke cond pos [(x2, ws)] acc
    comprProduct fuel lenv kind ve ke cond pos x1 vs x2 ws acc'

def comprParallel : Nat → EnvId → ComprKind → Node → Node → Node → Pos → String → List RVal → String → List RVal →
    List (RVal × RVal) → EvalM (List (RVal × RVal))
  | 0, _, _, _, _, _, _, _, _, _, _, _ => failM .oof
  | fuel + 1, lenv, kind, ve, ke, cond, pos, x1, v :: vs, x2, w :: ws, acc => do
    modifyS (·.put lenv x1 v)
    modifyS (·.put lenv x2 w)
    let r ← comprStep fuel lenv kind ve ke cond pos
    comprParallel fuel lenv kind ve ke cond pos x1 vs x2 ws (match r with | some kv => acc ++ [kv] | none => acc)
  | _ + 1, _, _, _, _, _, _, _, _, _, _, acc => pure acc

/-- `FuncSorted.execute`: insertion sort calling `key` and `cmp` -/
def nativeSorted : Nat → List (String × RVal) → EnvId → Pos → EvalM RVal
  | 0, _, _, _ => failM .oof
  | fuel + 1, bound, env, pos => do
    let s ← getS
    let (s', senv) := s.newEnv env
    setS s'
    let lstV ← asListArg (← argGet bound "lst" pos) pos
    let some xs ← listItems lstV | unsupported "sorted: list expected"
    let lookupFn := fun (param dflt : String) => do
      if dictHas param bound then do
        let f ← argGet bound param pos
        if f.isFunc then pure f else do throwE ("Func required but got " ++ (← typeOf f)) pos
      else do
        let s ← getS
        match s.lookup env dflt with
        | some f => pure f
        | none => throwE ("Symbol '" ++ dflt ++ "' not defined") pos
    let cmp ← lookupFn "cmp" "compare"
    let key ← lookupFn "key" "identity"
    let out ← sortedOuter fuel cmp key senv pos xs.toArray 0
    newList out.toList

def sortedOuter : Nat → RVal → RVal → EnvId → Pos → Array RVal → Nat → EvalM (Array RVal)
  | 0, _, _, _, _, _, _ => failM .oof
  | fuel + 1, cmp, key, senv, pos, arr, i =>
    if i ≥ arr.size then pure arr
    else do
      let v ← call1 fuel key (arr.getD i .null) senv pos
      let arr' ← sortedInner fuel cmp key senv pos arr v i
      sortedOuter fuel cmp key senv pos arr' (i + 1)

/-- `for j in range(i - 1, -1, -1)`: `jp1 = j + 1` -/
def sortedInner : Nat → RVal → RVal → EnvId → Pos → Array RVal → RVal → Nat → EvalM (Array RVal)
  | 0, _, _, _, _, _, _, _ => failM .oof
  | _ + 1, _, _, _, _, arr, _, 0 => pure arr
  | fuel + 1, cmp, key, senv, pos, arr, v, j + 1 => do
    let v2 ← call1 fuel key (arr.getD j .null) senv pos
    let c ← call2 fuel cmp v v2 senv pos
    let neg ← (match c with
      | .int n => pure (decide (n < 0))
      | .dec m _ => pure (decide (m < 0))
      | .bool _ => pure false
      | _ => throwE "sorted failed: TypeError" pos)
    if neg then
      let a := arr.getD (j + 1) .null
      let b := arr.getD j .null
      sortedInner fuel cmp key senv pos ((arr.setIfInBounds (j + 1) b).setIfInBounds j a) v j
    else pure arr

/-- `f.execute(Args(pos).addArg(f.getArgNames()[0], x), env, pos)` -/
def call1 : Nat → RVal → RVal → EnvId → Pos → EvalM RVal
  | 0, _, _, _, _ => failM .oof
  | fuel + 1, f, x, env, pos => do
    let s ← getS
    match fnParams s f with
    | p :: _ => callFn fuel f [(p, x)] env pos
    | [] => throwE "sorted failed: IndexError" pos

def call2 : Nat → RVal → RVal → RVal → EnvId → Pos → EvalM RVal
  | 0, _, _, _, _, _ => failM .oof
  | fuel + 1, f, x, y, env, pos => do
    let s ← getS
    match fnParams s f with
    | p :: q :: _ => callFn fuel f (dictPut q y [(p, x)]) env pos
    | _ => throwE "sorted failed: IndexError" pos

/-- NodeRequire.evaluate -/
def evalRequire : Nat → EnvId → Node → Option String → Bool → Option (List (String × String)) → Pos → EvalM RVal
  | 0, _, _, _, _, _, _ => failM .oof
  | fuel + 1, env, spec, name, unq, syms, pos => do
    let modulespec : String ← (match spec with
      | .ident n _ => do
        let s ← getS
        match s.lookup env n with
        | some v =>
          if isModuleObj s v then pure n
          else match v with
            | .str t => pure (String.ofList t)
            | _ => throwE "Expected string or identifier modulespec" pos
        | none => pure n
      | other => do
        match ← eval fuel env other with
        | .str t => pure (String.ofList t)
        | _ => throwE "Expected string or identifier modulespec" pos)
    let modulefile := if modulespec.endsWith ".ckl" then modulespec else modulespec ++ ".ckl"
    let last := (modulespec.splitOn "/").getLast!
    let ident := if last.endsWith ".ckl" then (last.dropEnd 4).toString else last
    let modulename := match name with
      | some n => if n = "" then ident else n
      | none => ident
    let s ← getS
    if s.modstack.contains ident then throwE ("Found circular module dependency (" ++ ident ++ ")") pos
    modifyS (fun s => { s with modstack := s.modstack ++ [ident] })
    let pop : State → State := fun s => { s with modstack := s.modstack.dropLast }
    let menv : EnvId ← (fun s1 =>
      match loadModule fuel env ident modulefile pos s1 with
      | .ok e s2 => .ok e (pop s2)
      | .err v m p t s2 => .err v m p t (pop s2)
      | .fail f s2 => .fail f (pop s2))
    let s ← getS
    let symbols := (s.localSymbols menv).filter (fun n => !n.startsWith "_")
    let valueOf := fun (n : String) => (s.lookup menv n).getD .null
    if unq then do
      -- module objects the module itself required are not re-exported (as in the qualified form)
      let exported := symbols.filter (fun n => !isModuleObj s (valueOf n))
      modifyS (fun s => exported.foldl (fun s n => s.put env n (valueOf n)) s)
      pure .null
    else match syms with
    | some (sy :: sys) => do
      let table := sy :: sys
      modifyS (fun s => symbols.foldl (fun s n =>
        match table.lookup n with
        | some al => s.put env al (valueOf n)
        | none => s) s)
      pure .null
    | _ => do
      let members := (symbols.filter (fun n => !isModuleObj s (valueOf n))).map (fun n => (n, valueOf n))
      let obj ← allocM (.obj (members.foldl (fun acc kv => dictPut kv.1 kv.2 acc) []) true)
      modifyS (·.put env modulename obj)
      pure .null

/-- look the module up in the cache or read, parse and evaluate it once -/
def loadModule : Nat → EnvId → String → String → Pos → EvalM EnvId
  | 0, _, _, _, _ => failM .oof
  | fuel + 1, env, ident, modulefile, pos => do
    let s ← getS
    match s.modules.lookup ident with
    | some e => pure e
    | none => do
      let (s', menv) := s.newEnv (s.base env)
      setS s'
      match ld.find modulefile with
      | none =>
        if ld.bundledNames.contains modulefile.toLower then unsupported ("bundled module " ++ modulefile)
        else throwE ("Module " ++ ((modulefile.splitOn "/").getLast!.dropEnd 4).toString ++ " not found") pos
      | some (.error e) => failM (.syn e)
      | some (.ok ast) => do
        let _ ← eval fuel menv ast
        modifyS (fun s => { s with modules := s.modules ++ [(ident, menv)],
                                   ghost := { s.ghost with moduleEvals := bumpS ident s.ghost.moduleEvals } })
        pure menv

end

end

/-! non-recursive helpers referenced above -/

end Ckl
