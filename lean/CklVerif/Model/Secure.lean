/-
  Layer 1 — secure mode: `bind_native` / `bind_native_fun` / `add` of functions.py over the
  native table that is REGENERATED from /repo on every run (`Gen/NativeTable.lean`).
-/
import CklVerif.Gen.NativeTable
namespace Ckl.Secure
open Ckl.Gen

/-- a native is effectful when its class references an OS primitive or is flagged `secure = False` -/
def _root_.Ckl.Gen.NativeInfo.effectful (n : NativeInfo) : Bool := !n.effects.isEmpty || !n.secure

def findNative (name : String) : Option NativeInfo := natives.find? (fun n => n.name == name)

/-- names bound by `bind_native(name, alias)` in an interpreter whose base frame has
    `checkerlang_secure_mode = secure`: `none` = "Unknown native" error, `some []` = silently skipped
    (`bind_native_fun` returns without binding), otherwise the bound names with the native's info -/
def bindNative (secure : Bool) (name : String) (alias : Option String) : Option (List (String × NativeInfo)) :=
  match findNative name with
  | none => none
  | some n =>
    if secure && !n.secure then some []
    else
      let names := (if n.aliasPassed then (match alias with | some a => [a] | none => []) else []) ++ [n.name]
      some (names.map (fun x => (x, n)))

/-- an abstract frame content: the natives bound so far (under any names) -/
abbrev Bound := List (String × NativeInfo)

/-- program-level operations that can bind function values in a secure interpreter:
    binding a native under a name/alias (arbitrary strings), and copying an existing
    binding under another name (`def`, assignment, loop variables, parameter passing, `require`
    of a module whose frame was built by the same operations) -/
inductive Op where
  | bind (name : String) (alias : Option String)
  | copy (src dst : String)

def step (secure : Bool) (b : Bound) : Op → Bound
  | .bind name alias => match bindNative secure name alias with
    | some l => l ++ b
    | none => b
  | .copy src dst => match b.lookup src with
    | some n => (dst, n) :: b
    | none => b

def run (secure : Bool) (ops : List Op) : Bound := ops.foldl (step secure) []

end Ckl.Secure
