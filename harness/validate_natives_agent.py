#!/venv/bin/python
"""Validate the driver's interpretation of the unmodelled built-ins (CklVerif/Driver/NativeSem.lean) against the real
interpreter.

For every interpreted native: sweep argument tuples through `Interpreter(True, True)` and through the Lean driver (a
`session` request: first program `bind_native(...)` of the natives under test, then one program per call) and report
every disagreement where the driver did not abstain.

  PYTHONPATH=/verif /venv/bin/python -m harness.validate_natives_agent [--only name,name] [--verbose] [--random N [SEED]] [--c19 SEED]
"""
import itertools
import os
import subprocess
import sys
import time

sys.path.insert(0, __import__('os').environ.get('CKL_REPO', '/repo') + '/src')
sys.path.insert(0, '/verif')

from harness import session as S      # noqa: E402
from harness import core              # noqa: E402

DRIVER = core.DRIVER
BATCH = 250
ABST_SAMPLES = int(os.environ.get("ABST_SAMPLES", "6"))
FUEL = 20000


def ckl_str(x):
    from ckl.values import ValueString
    return repr(ValueString(x))


# ---------------------------------------------------------------------------------------------- argument pools (source text)

INTS = [0, 1, -1, 2, 3, 5, 6, 7, 31, 32, 33, 63, 64, -32, -33, 255, 1000, -1000, 2 ** 31, 2 ** 32 - 1, 2 ** 32, 2 ** 32 + 5,
        -2 ** 32 - 7, 2 ** 53, 2 ** 53 + 1, -2 ** 53 - 1, 2 ** 64, 2 ** 64 + 3, -2 ** 64 - 1, 10 ** 30, 4096, 4097, 65536, 65537,
        1048576, 1048577, 16, 25, 144, 12345678987654321 ** 2]
# only for the one-argument conversions (huge results of shifts / powers of these would take minutes to print)
HUGE_INTS = [2 ** 53 + 3, 2 ** 54 + 2, 2 ** 54 + 6, -(2 ** 54 + 6), 2 ** 1024, 2 ** 1024 - 2 ** 970, 2 ** 1024 - 2 ** 970 - 1, -(2 ** 1024), 2 ** 1023,
             (2 ** 53 - 1) * 2 ** 971, 10 ** 400]
SMALL_INTS = [0, 1, -1, 2, 3, 5, 31, 32, 33, -32, 64, 100, -100, 2 ** 32 + 5, -2 ** 32 - 7, 2 ** 64 + 3, -2 ** 64 - 1]
STRS = ['', 'a', 'abc', 'aa', 'aaab', 'abc\n', 'abc\n\n', 'ab12Z', 'toolongword', '42', 'hello\n', 'ABC', 'Hello World', '  padded  ', '\t x \n', 'a,b,,c', ',a,', 'one two  three', ' lead', 'trail\t \t',
        'line1\nline2\r\nline3', '\u00e4\u00f6\u00fc \u00df', '\u01c5x', '\u2003em\u2003', '\x1c', '\x1f1\x1f', '\x0b\x0cz\x85', '\u00a0nb\u00a0',
        '12', ' 42 ', '\t42\n', '-7', '+3', '- 3', '+-3', '1_000', '1__0', '_1', '1_', '0x10', '1.5', '1e3', '007', '-0', '+0', 'TRUE', 'true',
        'tRuE', 'FALSE', '1', '0', 'a.b', 'a+b', 'aab', '{x}', 'no {brace', 'a{b}c', '{', 'x}y{', '{1}', '{12#5}|', "{'x'#-4}|", '{255#x}', '{255#04x}', '{12#.2}', '{007}', '{"dq"}', '{}', '{ 1 }', '{1}{2}', "{'{1}'}", "{'a'}{'{'}",
        '{12#-5}|{3#05}', "a{'b c'}d{0}", "{'it\\'s'}", '{0#a}', '{1#0}', '{1#-}', '{1#-03}', "{''}", '{"}', "{'a'#3x}", '{12#x}{13#3}', '{-1}', '{1.5}', '{1#5.}',
        '9007199254740993', '9007199254740992',
        '-9007199254740992', '0.1', '.5', '5.', '.', '-.5', '+1.25', ' 3.14159 ', '0.0', '-0.0', '00.10', '1.5.2', '1 .5', '123456789.123456789', '0.000001',
        '9007199254740993.0', '9007199254740992.5', '4.35', '2.675', '1.0000000000000002220446049250313', '1.00000000000000011102230246251565', '9007199254740995', '18014398509481990', '1' + '0' * 308, '1' + '0' * 309, '-' + '9' * 400, '\u0661\u0662', '1' * 30, '(a)[b]{c}?*+-|^$\\.&~# \t\n\r\x0b\x0c', 'a\\b', "it's", 'a  b\t\tc', 'a\r\nb\nc\n',
        'inf', 'nan', '', 'I\u0130\u0131i', '\u017f', 'stra\u00dfe']
PATS = ['', ',', ', ', 'a', 'ab', '\\.', '\\+', 'a\\.b', '[ \\t]+', '[ \\t\\r\\n]+', '\\r?\\n', 'a+', 'a*', 'a?', 'a+b', 'a*b', 'a?a', '[ab]+c?',
        'x*y+', ' +', '\\t', '\\n+', '[,;]', '[,;]+ ?', 'a|b', '(a)', '^a', 'a$', '.', 'a{2}', '[a-c]', '[^a]', '\\d+', '\\s', 'a+?', 'a++', '[', 'a\\',
        '\\', '[]', '[]a]', 'TRUE', 'l+', 'l+o', 'o w', '[lo]+', 'b,', 'e1?', '[a-c]+', '[^,]+', '.+', 'a.c', '[0-9]+', '[a-]', '[-a]', '[z-a]', '1.5', '.*', '[^]a]', '[^\\n]+', '.\\n', '[A-Za-z]+ ?', '[\\t-\\r]+', 'l.', '[^a-k]l', '^a', 'a$', '^a+b$', '^.*2.*$', '^[a-zA-Z0-9]{1,5}$', '^[0-9]{2}$', 'a{2}', 'a{2,}', 'a{1,2}b', 'a{,2}', 'a{}', 'a{2}?', 'a{2}+', 'a{3,2}', 'l{2}o', '^$', '^', '$', 'a\\$', 'a\\\\$', '^.*l{2}.*$', 'x{0}a', '[a-c]{2,3}$', 'a{0,1}a', '.*\\n$', '^.*e$', 'e1\\n$', 'a{1000}', 'a{1001}', 'a{1,0}']
OTHERS = ['NULL', 'TRUE', 'FALSE', '1.5', '-0.5', '0.25', '2.5', '3.5', '-2.5', '-0.25', '4.0', '0.0', '6.25', '0.1', '123456789012345680000.0',
          '[]', '[1, 2]', "['a']", '<<>>', '<<1>>', '<<<>>>', "<<<'a' => 1>>>", '<*a=1*>', '<**>', 'fn(x) x', 'add', '//a+//', '//,//', '//[ \\t]+//']
ILL = ['NULL', 'TRUE', '1.5', '[1, 2]', '<<1>>', "<<<'a' => 1>>>", '<*a=1*>', 'fn(x) x', 'add', '//a+//', "'abc'", '7']


def ints(xs):
    return [str(x) if x >= 0 else f"({x})" for x in xs]


def strs(xs):
    return [ckl_str(x) for x in xs]


INT_POOL = ints(INTS)
STR_POOL = strs(STRS)
PAT_POOL = strs(PATS) + ['//' + p + '//' for p in PATS if p and '/' not in p and '\n' not in p and p not in ('[', 'a\\', '\\', '[]', '(a', 'a++')]
ALL_POOL = ints([0, 1, -1, 7, 2 ** 53, 2 ** 53 + 1, -2 ** 64 - 1, 25, 16]) + STR_POOL + OTHERS


def uniq(xs):
    seen = set()
    out = []
    for x in xs:
        if x not in seen:
            seen.add(x)
            out.append(x)
    return out


def calls(name, pools, names=None, extra=()):
    """all calls name(args) for args in the product of the pools, plus calls with fewer arguments, plus named variants"""
    out = []
    for k in range(0, len(pools) + 1):
        if k < len(pools):
            sub = [p[:4] for p in pools[:k]]          # a few calls with missing arguments
        else:
            sub = pools
        for tup in itertools.product(*sub):
            out.append(f"{name}({', '.join(tup)})")
    if names:
        first = [p[0] for p in pools]
        out.append(f"{name}({', '.join(n + ' = ' + v for n, v in zip(names, first))})")
        out.append(f"{name}({', '.join(n + ' = ' + v for n, v in reversed(list(zip(names, first))))})")
        out.append(f"{name}(nosuch = 1)")
        out.append(f"{name}({', '.join(first)}, 1)")          # too many arguments
    out.extend(extra)
    return uniq(out)


def build_cases():
    c = {}
    two_int = [uniq(INT_POOL + ILL), uniq(INT_POOL + ILL)]
    for n in ('bit_and', 'bit_or', 'bit_xor'):
        c[n] = calls(n, two_int, ['a', 'b'])
    c['bit_not'] = calls('bit_not', [uniq(INT_POOL + ILL)], ['a'])
    for n in ('bit_rotate_left', 'bit_rotate_right', 'bit_shift_left', 'bit_shift_right'):
        c[n] = calls(n, two_int, ['a', 'n'])
    c['pow'] = calls('pow', [uniq(INT_POOL + ILL + OTHERS[:12]), uniq(ints([0, 1, 2, 3, 5, 10, 64, 100, 4096, 4097, -1, -2, -3, -1000, 2 ** 53 + 1, -2 ** 53 - 1, 2 ** 64, -2 ** 64 - 1]) + ILL + OTHERS[:12])],
                     ['x', 'y'])
    for n in ('int', 'decimal', 'boolean', 'is_not_empty', 'pattern'):
        c[n] = calls(n, [uniq(INT_POOL + ints(HUGE_INTS) + STR_POOL + OTHERS + (PAT_POOL if n == 'pattern' else []))], ['obj'])
    for n in ('if_empty', 'if_null_or_empty'):
        c[n] = calls(n, [uniq(ALL_POOL), ["'dflt'", '[9]', 'NULL', 'add', 'fn(x) x', '5']], ['a', 'b'])
    for n, p in (('trim', 'str'), ('upper', 'str'), ('lower', 'str'), ('escape_pattern', 's')):
        c[n] = calls(n, [uniq(STR_POOL + strs(PATS) + ILL)], [p])
    c['matches'] = calls('matches', [uniq(STR_POOL + ILL[:6]), uniq(PAT_POOL + ILL)], ['str', 'pattern'])
    c['split'] = calls('split', [uniq(STR_POOL + ILL[:6]), uniq(PAT_POOL + ILL)], ['str', 'delim'])
    sp2s = strs(['', 'a=1,b=2', 'a=1,,b', 'k:v;k2:v2', ' a b , c ', 'x']) + ['NULL', '5']
    sp2p = strs([',', '=', ';', ':', ' +', '[,;]', '', 'a|b']) + ['//,//', 'NULL', '5']
    c['split2'] = calls('split2', [sp2s, sp2p, sp2p], ['str', 'sep1', 'sep2'])
    c['s'] = calls('s', [uniq(STR_POOL + ILL[:6]), ints([0, 1, 2, 5, -1, -2, -3, -5, -7, -100, 100]) + ["'x'", 'NULL', '1.5']], ['str', 'start'])
    nums = uniq(INT_POOL + ints(HUGE_INTS) + OTHERS + ["'4'", "''"] + ['2.25', '-4', '(-4.0)', '0.5', '1.5', '-1.5', '-3.5', '4503599627370497.5', '1e+22' if False else '10000000000000000000000.0',
                                               '0.49999999999999994', '-0.4', '(-0.5)', '(-0.0)'])
    c['sqrt'] = calls('sqrt', [nums], ['x'])
    c['round'] = calls('round', [nums, ints([0, 1, 2, -1, 300, 301, 2 ** 64]) + ['NULL', "'a'", '0.0']], ['x', 'digits'])
    for n in ('floor', 'ceiling', 'acos', 'asin', 'atan', 'cos', 'exp', 'log', 'sin', 'tan'):
        c[n] = calls(n, [uniq(['NULL', "'a'", '[]', 'TRUE', 'add', '//a//', '0', '1', '0.5', '2.5'])], ['x'])
    c['atan2'] = calls('atan2', [['NULL', "'a'", '[]', '1', '0.5'], ['NULL', "'a'", '<<>>', '1', '2.5']], ['y', 'x'])
    return c


def random_cases(n, seed):
    """random calls: patterns from the regular-expression fragment against random texts, random integers, numeric strings"""
    import random
    rng = random.Random(seed)
    alpha = "ab,;. \t\n1-"

    def rtext(maxlen=8):
        return "".join(rng.choice(alpha) for _ in range(rng.randint(0, maxlen)))

    def ritem():
        k = rng.random()
        if k < 0.45:
            c = rng.choice("ab,;1 ")
            return c
        if k < 0.6:
            return rng.choice(["\\.", "\\t", "\\n", "\\-", "\\ ", "\\+", "."])
        members = []
        for _ in range(rng.randint(1, 3)):
            m = rng.choice(["a", "b", ",", ";", " ", "1", "\\t", "\\n", "\\.", "a-b", "0-9", " -1", ","])
            members.append(m)
        return "[" + ("^" if rng.random() < 0.25 else "") + "".join(members) + "]"

    def rpat():
        body = "".join(ritem() + rng.choice(["", "", "", "+", "*", "?", "{2}", "{1,2}", "{0,1}", "{1,}", "{0}"]) for _ in range(rng.randint(1, 4)))
        return ("^" if rng.random() < 0.15 else "") + body + ("$" if rng.random() < 0.2 else "")

    def rint():
        k = rng.random()
        if k < 0.4:
            return rng.randint(-70, 70)
        if k < 0.7:
            return rng.randint(-2 ** 33, 2 ** 33)
        return rng.randint(-2 ** 70, 2 ** 70)

    def rnumstr():
        body = "".join(rng.choice("0123456789_") for _ in range(rng.randint(0, 6)))
        return rng.choice(["", " ", "\t", "\n "]) + rng.choice(["", "", "+", "-"]) + body + rng.choice(["", "", " ", "\n", "x", ".0"])

    c = {}
    lit = lambda x: f"({x})" if x < 0 else str(x)       # noqa: E731
    c['matches'] = uniq(f"matches({ckl_str(rtext())}, {ckl_str(rpat())})" for _ in range(n))
    c['split'] = uniq(f"split({ckl_str(rtext(12))}, {ckl_str(rpat())})" for _ in range(n)) + uniq(f"split({ckl_str(rtext(12))})" for _ in range(n // 10))
    c['split2'] = uniq(f"split2({ckl_str(rtext(12))}, {ckl_str(rpat())}, {ckl_str(rpat())})" for _ in range(n // 4))
    c['pattern'] = uniq(f"pattern({ckl_str(rpat())})" for _ in range(n // 4))
    c['trim'] = uniq(f"trim({ckl_str(rtext())})" for _ in range(n // 10))
    c['escape_pattern'] = uniq(f"escape_pattern({ckl_str(rtext() + rpat())})" for _ in range(n // 10))
    c['int'] = uniq(f"int({ckl_str(rnumstr())})" for _ in range(n // 4))
    c['decimal'] = uniq(f"decimal({ckl_str(rnumstr())})" for _ in range(n // 4))
    def rbig():
        b = rng.randint(50, 120)
        n = rng.randint(2 ** b, 2 ** (b + 1))
        k = rng.random()
        if k < 0.5:          # near a rounding tie
            sh = n.bit_length() - 53
            n = ((n >> sh) << sh) + (1 << (sh - 1)) + rng.choice([-1, 0, 0, 1]) if sh > 0 else n
        return n if rng.random() < 0.7 else -n
    c['decimal'] += uniq(f"decimal({lit(rbig())})" for _ in range(n // 4)) + uniq(f"decimal('{rbig()}')" for _ in range(n // 8))
    c['round'] = uniq(f"round({lit(rbig())})" for _ in range(n // 8))
    def rdec():
        a = "".join(rng.choice("0123456789") for _ in range(rng.randint(0, 18)))
        b = "".join(rng.choice("0123456789") for _ in range(rng.randint(0, 20)))
        return rng.choice(["", "", " ", "-", "+"]) + a + "." + b + rng.choice(["", "", " ", "\n"])
    c['decimal'] += uniq(f"decimal({ckl_str(rdec())})" for _ in range(n // 2))
    c['boolean'] = uniq(f"boolean({ckl_str(rng.choice(['true', 'TRUE', 'tRue', 'True ', '1', '0', '01', 'false', '']))})" for _ in range(20))
    for nm in ('bit_and', 'bit_or', 'bit_xor'):
        c[nm] = uniq(f"{nm}({lit(rint())}, {lit(rint())})" for _ in range(n // 4))
    c['bit_not'] = uniq(f"bit_not({lit(rint())})" for _ in range(n // 8))
    for nm in ('bit_rotate_left', 'bit_rotate_right'):
        c[nm] = uniq(f"{nm}({lit(rint())}, {lit(rint())})" for _ in range(n // 4))
    for nm in ('bit_shift_left', 'bit_shift_right'):
        c[nm] = uniq(f"{nm}({lit(rint())}, {lit(rng.randint(-3, 200))})" for _ in range(n // 4))
    c['pow'] = uniq(f"pow({lit(rint())}, {lit(rng.randint(-5, 40))})" for _ in range(n // 4))
    c['sqrt'] = uniq(f"sqrt({lit(rng.randint(-3, 50) ** 2 + rng.choice([0, 0, 1]))})" for _ in range(n // 10)) + \
        uniq(f"sqrt({rng.randint(0, 300) ** 2 / 2 ** rng.randint(0, 12)!r})" for _ in range(n // 10))
    c['round'] += uniq(f"round({lit(rng.randint(-4000, 4000)) if False else '(' + repr(rng.randint(-4000, 4000) / 2 ** rng.randint(0, 6)) + ')'})" for _ in range(n // 4))
    return c


def resource_risk(prog):
    """calls the real interpreter would need huge memory / time for: skipped on both sides"""
    import re
    m = re.match(r"(bit_shift_left|pow)\((.*)\)$", prog)
    if not m:
        return False
    nums = [int(x) for x in re.findall(r"-?\d+", m.group(2)) if len(x) < 80]
    if m.group(1) == 'bit_shift_left':
        return any(abs(n) > 2 ** 21 for n in nums[1:]) or len(nums) > 1 and abs(nums[1]) > 2 ** 21
    if len(nums) >= 2:
        x, y = nums[0], nums[1]
        return y > 100000 and abs(x) > 1
    return False


def run_driver(lines):
    data = "\n".join(lines) + "\n"
    r = subprocess.run([DRIVER], input=data, capture_output=True, text=True, timeout=3000)
    out = r.stdout.split("\n")
    if out and out[-1] == "":
        out.pop()
    if r.returncode != 0 or len(out) != len(lines):
        raise RuntimeError(f"driver failure rc={r.returncode}: {len(out)} responses for {len(lines)} requests: {r.stderr[-2000:]}")
    return out


LIB_PROGS = [
    # string library on top of split / trim / upper / lower / escape_pattern / matches
    "lines('a\\nb\\r\\nc')", "lines('')", "lines('one')", "words('  a b\\tc\\n d ')", "words('')", "words('x')", "unlines(lines('a\\nb'))",
    "split('a b  c')", "split('a,b,,c', ',')", "split('abc', '')", "split(' lead', ' ')", "split2('a=1,b=2', ',', '=')",
    "trim('  x y  ')", "str_trim(' a ')", "upper('abc')", "lower('ABC z')", "escape_pattern('a.b*c')",
    "str_matches('aab', 'a+b')", "str_matches('xab', 'a+b')", "str_matches('abc', //[a-c]+//)", "matches('a1', //a[0-9]//)",
    "replace('a.b.c', '.', '-')", "join(split('a b c'), '+')", "reverse('abc')", "[trim(x) for x in split(' a , b ,c', ',')]",
    "grep(['1:2', '12:2', '123:3'], //2//)", "s('no placeholder')", "s('{1+1}')", "sprintf('{0} {1}', 1, 2)",
    "is_numerical('12')" if False else "is_string('12')", "int('12') + 1", "int(' -7 ')", "int('x')", "int(2.75)", "int(TRUE)", "int([1, 2, 3])",
    "decimal(3)", "decimal('4')", "decimal(TRUE) + 0.5", "boolean('true')", "boolean(0)", "boolean([])", "boolean('yes')",
    "is_not_empty([])", "is_not_empty('a')", "is_not_empty(<<1>>)", "if_empty('', 'd')", "if_empty('x', 'd')", "if_null_or_empty(NULL, [1])",
    # bit functions
    "bit_and_32(12, 10)", "bit_or_32(12, 10)", "bit_xor_32(12, 10)", "bit_not_32(0)", "bit_rotate_left_32(1, 33)", "bit_rotate_right_32(1, 1)",
    "bit_shift_left(1, 40)", "bit_shift_right(-16, 2)", "bit_shift_left(1, -1)", "bit_and_32(1, 'a')",
    "require Bitwise; Bitwise->bit_and(6, 3)" if False else "bit_and_32(6, 3) + bit_or_32(6, 3)",
    # numbers
    "pow(2, 10)", "pow(-3, 3)", "pow(2, -2)", "pow(0, -1)", "pow(2, 0.5)", "pow(NULL, 2)", "abs(-5)", "sign(-3)", "gcd(12, 18)", "lcm(4, 6)",
    "is_even(4)", "is_odd(4)", "round(2.5)", "round(3.5)", "round(-2.5)", "round(7)", "round(2.25, 1)", "sqrt(16)", "sqrt(2.25)", "sqrt(2)", "sqrt(-1)",
    "floor(2.5)", "ceiling(2.5)", "floor(NULL)", "log2(8)", "sum([1, 2, 3])", "max([1, 5, 3])", "mean([1, 2, 3, 4])", "median([1, 3, 2])",
    "[pow(2, n) for n in range(5)]", "reduce([1, 2, 3, 4], fn(a, b) bit_xor_32(a, b))", "map_list(['1', '2'], int)", "[int(x) for x in split('1 2 3')]",
    "sum([int(x) for x in split('10,20,30', ',')])", "sorted(split('b a c'))", "def f(x) upper(trim(x)); f(' ab ')",
    "pattern('a+')", "pattern('(')", "pattern(5)", "type(pattern('a'))", "string(pattern('a.c'))",
]


def lib_phase(legacy):
    """the repository's own library source on the real base environment (libsetup / libsession) against the implementation"""
    progs = [p for p in LIB_PROGS]
    sess = S.ImplSession(secure=True, legacy=legacy)
    try:
        impl = [sess.run(p, limit=20) for p in progs]
    finally:
        sess.close()
    # one program per session on the model side too would hide nothing: the programs above define at most `f`
    resp = run_driver([S.lib_setup_request(legacy, True, 400000), S.lib_session_request(progs)])
    if resp[0] != "(libsetup ok)":
        print(f"library phase (legacy={legacy}): the base environment could not be built in the model: {resp[0][:300]}")
        return 1, 0, 0, 0
    model, _ = S.parse_model_session(resp[1])
    n_abst = n_ok = 0
    bad = []
    abst = []
    for p, i_res, m_res in zip(progs, impl, model):
        mo = m_res[0]
        if mo[0] == 'fail' and mo[1] in ('unsupported', 'oof'):
            n_abst += 1
            abst.append((p, mo[2] if len(mo) > 2 else mo[1]))
            continue
        d = S.compare(i_res, m_res)
        if d is None:
            n_ok += 1
        else:
            bad.append((p, d))
    print(f"library phase (legacy={legacy}): {len(progs)} programs, {n_ok} agree, {n_abst} abstain, {len(bad)} DISAGREE")
    for p, why in abst:
        print(f"    abstains: {p!r}  ({why})")
    for p, d in bad:
        print(f"    DISAGREE: {p!r}\n        {d[:300]}")
    return len(bad), len(progs), n_ok, n_abst


def c19_phase(seed):
    """the harness's C19 cases (collection / numeric library calls on random arguments) through the repository's own library
    source, evaluated by the model evaluator on the real base environment with THIS driver"""
    import collections
    from harness import proto, libcases
    from harness.props import c19
    core.DRIVER = DRIVER
    cases = libcases.gen_cases(seed, 1)
    real = c19._worker((True, cases))
    idx = [i for i, c in enumerate(cases) if real[i][0] in ('ok', 'err')]
    progs = [["".join(f"def {k} = {proto.to_ckl(v)}; " for k, v in cases[i][3].items()) + cases[i][2]] for i in idx]
    sys.set_int_max_str_digits(0)
    outs, why = S.run_lib_sessions(progs, legacy=True)
    if outs is None:
        print("C19 phase: libsetup failed:", why[:300])
        return 1
    abst = collections.Counter()
    chk = 0
    bad = []
    for i, m in zip(idx, outs):
        func, _req, src, env = cases[i]
        mo = m[0][0]
        if mo[0] == 'fail':
            abst[(mo[1], mo[2] if len(mo) > 2 else '')] += 1
            continue
        chk += 1
        r = real[i]
        same = (mo[0] == 'rt' and r[0] == 'err') or (mo[0] == 'val' and r[0] == 'ok' and c19.canon_model(mo[1]) == r[1])
        if not same:
            bad.append((src, env, mo[:2], r))
    print(f"C19 phase (seed {seed}): {len(cases)} cases, {chk} checked, {sum(abst.values())} abstained, {len(bad)} DISAGREE")
    for k, v in sorted(abst.items(), key=lambda kv: -kv[1])[:12]:
        print(f"    abstains {v:6d}  {k}")
    for b in bad[:20]:
        print("    DISAGREE", str(b)[:400])
    return len(bad)


def main():
    if '--c19' in sys.argv:
        i = sys.argv.index('--c19')
        return 1 if c19_phase(int(sys.argv[i + 1]) if len(sys.argv) > i + 1 else 1) else 0
    only = None
    verbose = '--verbose' in sys.argv
    if '--only' in sys.argv:
        only = set(sys.argv[sys.argv.index('--only') + 1].split(','))
    cases = build_cases()
    if '--random' in sys.argv:
        i = sys.argv.index('--random')
        nrand = int(sys.argv[i + 1])
        seed = int(sys.argv[i + 2]) if len(sys.argv) > i + 2 and sys.argv[i + 2].isdigit() else 1
        cases = random_cases(nrand, seed)
    if only:
        cases = {k: v for k, v in cases.items() if k in only}
    natives = sorted(cases)
    bind = "; ".join(f"bind_native('{n}')" for n in natives)
    flat = []
    skipped = {}
    for n in natives:
        for p in cases[n]:
            if resource_risk(p):
                skipped[n] = skipped.get(n, 0) + 1
                continue
            flat.append((n, p))
    print(f"{len(flat)} calls over {len(natives)} natives", flush=True)
    batches = [flat[i:i + BATCH] for i in range(0, len(flat), BATCH)]
    t0 = time.time()
    impl_results = []
    requests = []
    for bi, batch in enumerate(batches):
        progs = [bind] + [p for _, p in batch]
        sess = S.ImplSession(secure=True, legacy=True)
        try:
            impl_results.append([sess.run(p, limit=20) for p in progs])
        finally:
            sess.close()
        requests.append(S.model_request(progs, secure=True, fuel=FUEL, legacy=True))
        if bi % 10 == 0:
            print(f"  implementation: batch {bi + 1}/{len(batches)}  ({time.time() - t0:.0f}s)", flush=True)
    print(f"driver: {len(requests)} sessions", flush=True)
    responses = run_driver(requests)
    # only now (all implementation runs are over): the responses hold ints with more than 4300 digits
    sys.set_int_max_str_digits(0)
    stats = {n: {'checked': 0, 'abstained': 0, 'agree_val': 0, 'agree_err': 0, 'bad': 0} for n in natives}
    bad = []
    abst_samples = {n: [] for n in natives}
    for batch, impl, resp in zip(batches, impl_results, responses):
        model, _ghost = S.parse_model_session(resp)
        if len(model) != len(impl):
            raise RuntimeError("row count mismatch")
        d0 = S.compare(impl[0], model[0])
        if d0 is not None or model[0][0][0] != 'val':
            bad.append(('<bind>', 'bind_native prelude', d0 or str(model[0][0]), impl[0][0], model[0][0]))
        for (n, p), i_res, m_res in zip(batch, impl[1:], model[1:]):
            st = stats[n]
            st['checked'] += 1
            mo = m_res[0]
            if mo[0] == 'fail' and mo[1] == 'unsupported':
                st['abstained'] += 1
                if len(abst_samples[n]) < ABST_SAMPLES:
                    abst_samples[n].append((p, i_res[0][:2]))
                continue
            d = S.compare(i_res, m_res)
            if d is None:
                st['agree_val' if mo[0] == 'val' else 'agree_err'] += 1
            else:
                st['bad'] += 1
                bad.append((n, p, d, i_res[0], mo))
    print()
    print(f"{'native':18s} {'checked':>8s} {'abstained':>9s} {'values':>8s} {'errors':>8s} {'DISAGREE':>8s} {'skipped':>8s}")
    tot = {'checked': 0, 'abstained': 0, 'agree_val': 0, 'agree_err': 0, 'bad': 0}
    for n in natives:
        st = stats[n]
        for k in tot:
            tot[k] += st[k]
        print(f"{n:18s} {st['checked']:8d} {st['abstained']:9d} {st['agree_val']:8d} {st['agree_err']:8d} {st['bad']:8d} {skipped.get(n, 0):8d}")
    print(f"{'TOTAL':18s} {tot['checked']:8d} {tot['abstained']:9d} {tot['agree_val']:8d} {tot['agree_err']:8d} {tot['bad']:8d} {sum(skipped.values()):8d}")
    if verbose:
        print("\nsamples of abstentions:")
        for n in natives:
            for p, io in abst_samples[n]:
                print(f"  {n}: {p[:90]!r}  -> implementation {str(io)[:90]}")
    print(f"\n{len(bad)} disagreement(s)")
    for n, p, d, io, mo in bad[:60]:
        print(f"  {n}: {p[:140]!r}\n      {d[:300]}")
    nbad_lib = 0
    if only is None and '--random' not in sys.argv:
        print()
        for legacy in (True, False):
            nbad_lib += lib_phase(legacy)[0]
    return 1 if bad or nbad_lib else 0


if __name__ == '__main__':
    sys.exit(main())
