import CklVerif.Lemmas.C19SrcLoad

/-! C19Src (D4) — the MULTI-FRAME library state: one module frame per module (parent: the base frame 0), every function re-exported
    into frame 0 the way `require <Module> unqualified` does (`evalRequire`, branch `unq`, of `Model/Eval.lean`).

    What is modelled, precisely.  The driver's `libSetup` evaluates the AST of `legacy.ckl` (14 × `require X unqualified`) in frame 0;
    `evalRequire` → `loadModule` creates the module frame `s.newEnv (s.base env)` (= `newEnv 0`), evaluates the module AST in it, then
    `put`s every local symbol of the module frame (not starting with `_`, not a module object) into the requiring frame 0.
    The ASTs of the 16 modules are not available inside Lean — only the translated `def` nodes of `Gen/LibSrc.lean`.  So here a
    "module" is the toplevel block `modAst_D4 defs` of its generated `def` nodes; `loadMod_D4` does for it what
    `loadModule` + the `unq` branch of `evalRequire` do: fresh frame with parent 0, `eval` of the block in that frame (the REAL `eval`),
    then `exportUnq_D4` — a verbatim copy of the export code.  NOT modelled: the string computations of `evalRequire` on the module
    name, the module cache / `modstack`, the other statements of the real modules (their own `require … import […]` lines, whose
    imported names ARE local symbols of the module frame and are re-exported as well; constants; the remaining functions). -/
namespace Ckl.C19Src
open Ckl Ckl.C03 Ckl.Gen.LibSrc
variable (ld : Loader)

theorem notUnderscore_D4 (p : String) (h : ¬ ("_".toList <+: p.toList)) : p.startsWith "_" = false := by
  cases hb : p.startsWith "_" with
  | false => rfl
  | true =>
    exfalso; apply h
    have : p.toSlice.startsWith "_" = true := hb
    rw [String.Slice.startsWith_string_iff] at this
    simpa using this

/-- the export step of `require … unqualified`: copied from the `unq` branch of `evalRequire` (`Model/Eval.lean`) -/
def exportUnq_D4 (env menv : EnvId) (s : State) : State :=
  let symbols := (s.localSymbols menv).filter (fun n => !n.startsWith "_")
  let valueOf := fun (n : String) => (s.lookup menv n).getD .null
  let exported := symbols.filter (fun n => !isModuleObj s (valueOf n))
  exported.foldl (fun s n => s.put env n (valueOf n)) s

/-- a module made of generated definitions: the toplevel block of its `def` nodes -/
def modAst_D4 (defs : List Node) : Node := .block defs [] [] [] true default

/-- `loadModule` + unqualified export for one module, from the base frame 0: fresh module frame `s.frames.size` with parent 0,
    the module AST evaluated in it, every local symbol re-exported into frame 0 -/
def loadMod_D4 (fuel : Nat) (defs : List Node) (s : State) : Option State :=
  match eval ld fuel s.frames.size (modAst_D4 defs) (s.newEnv 0).1 with
  | .ok _ s2 => some (exportUnq_D4 0 s.frames.size s2)
  | _ => none

/-- the modules one after the other (the `require X unqualified;` lines of `legacy.ckl`) -/
def loadMods_D4 (fuel : Nat) : List (List Node) → State → Option State
  | [], s => some s
  | defs :: rest, s => (loadMod_D4 ld fuel defs s).bind (loadMods_D4 fuel rest)

/-- the module frames: consecutive frame numbers from `n` -/
def framesFrom_D4 (n : Nat) : List (List Node) → List (EnvId × List Node)
  | [] => []
  | d :: r => (n, d) :: framesFrom_D4 (n + 1) r

/-! ### dictionaries -/

theorem mem_keys_iff_D4 {β} (x : String) (d : List (String × β)) : x ∈ d.map (·.1) ↔ dictGet x d ≠ none := by
  induction d with
  | nil => simp [dictGet]
  | cons kv rest ih =>
    obtain ⟨k, v⟩ := kv
    by_cases h : x = k
    · subst h; simp [dictGet]
    · simp [dictGet, h, ih]

/-- a fold of `put`s into frame 0 (the export loop): only frame 0 changes; a name that is exported gets its value, the others stay -/
theorem foldPut0_spec_D4 (f : String → RVal) (ns : List String) : ∀ (s : State), 0 < s.frames.size →
    (ns.foldl (fun s n => s.put 0 n (f n)) s).frames.size = s.frames.size ∧
    (∀ i, i ≠ 0 → (ns.foldl (fun s n => s.put 0 n (f n)) s).frame i = s.frame i) ∧
    (ns.foldl (fun s n => s.put 0 n (f n)) s).heap = s.heap ∧
    (ns.foldl (fun s n => s.put 0 n (f n)) s).out = s.out ∧
    (∀ x, x ∉ ns → dictGet x ((ns.foldl (fun s n => s.put 0 n (f n)) s).frame 0).vars = dictGet x (s.frame 0).vars) ∧
    (∀ x ∈ ns, dictGet x ((ns.foldl (fun s n => s.put 0 n (f n)) s).frame 0).vars = some (f x)) := by
  induction ns with
  | nil => intro s _; exact ⟨rfl, fun _ _ => rfl, rfl, rfl, fun _ _ => rfl, fun x hx => by cases hx⟩
  | cons n ns ih =>
    intro s hs
    have hsz : (s.put 0 n (f n)).frames.size = s.frames.size := frames_size_put s 0 n _
    have hfr : ((s.put 0 n (f n)).frame 0).vars = dictPut n (f n) (s.frame 0).vars := vars_put_same s n _ hs
    obtain ⟨h1, h2, h3, h4, h5, h6⟩ := ih (s.put 0 n (f n)) (by rw [hsz]; exact hs)
    rw [List.foldl_cons]
    refine ⟨by rw [h1, hsz], ?_, by rw [h3]; rfl, by rw [h4]; rfl, ?_, ?_⟩
    · intro i hi; rw [h2 i hi, frame_put_other s n _ hi]
    · intro x hx
      have hx' : x ≠ n ∧ x ∉ ns := by simpa using hx
      rw [h5 x hx'.2, hfr]
      exact dictGet_dictPut_other (Ne.symm hx'.1) _ _
    · intro x hx
      by_cases hxs : x ∈ ns
      · exact h6 x hxs
      · have hxn : x = n := by
          rcases List.mem_cons.mp hx with h | h
          · exact h
          · exact absurd h hxs
        subst hxn
        rw [h5 x hxs, hfr]
        exact dictGet_dictPut_same _ _ _

/-! ### the invariant of the multi-frame state -/

/-- `L` lists the loaded modules as (module frame, definitions).  Frame 0 holds `NULL` and the built-ins `nats`; every module frame
    has parent 0, binds exactly the names of its definitions — each to a closure cell made from the definition and closed over the
    module frame — and a definition whose name no OTHER module defines is bound to the same value in frame 0 (the export; a name that
    several modules define is bound in frame 0 to the version of the module loaded last — nothing is claimed about it). -/
structure ModInv_D4 (s : State) (nats : List String) (L : List (EnvId × List Node)) : Prop where
  pos0 : 0 < s.frames.size
  null : dictGet "NULL" (s.frame 0).vars = some .null
  nat : ∀ x ∈ nats, ∃ i, dictGet x (s.frame 0).vars = some (.native x i)
  lt : ∀ p ∈ L, p.1 < s.frames.size
  ne0 : ∀ p ∈ L, p.1 ≠ 0
  inj : ∀ p ∈ L, ∀ q ∈ L, p.1 = q.1 → p = q
  parent : ∀ p ∈ L, (s.frame p.1).parent = some 0
  disj : ∀ p ∈ L, ∀ x ∈ "NULL" :: nats, x ∉ p.2.map defName
  own : ∀ p ∈ L, ∀ x, x ∉ p.2.map defName → dictGet x (s.frame p.1).vars = none
  src : ∀ p ∈ L, ∀ d ∈ p.2, ∃ a nm, dictGet (defName d) (s.frame p.1).vars = some (.closure a) ∧
      s.cell a = some (.closure p.1 (lamParams d) (lamDefaults d) (lamBody d) nm)
  exp : ∀ p ∈ L, ∀ d ∈ p.2, (∀ q ∈ L, q.1 ≠ p.1 → defName d ∉ q.2.map defName) →
      dictGet (defName d) (s.frame 0).vars = dictGet (defName d) (s.frame p.1).vars

/-- what a module must satisfy to be loaded: generated `def name(params) body` nodes, pairwise different names, none of them `NULL` or
    one of the built-ins `nats`, none starting with `_` (those are not exported) -/
structure ModOk_D4 (nats : List String) (defs : List Node) : Prop where
  all : ∀ d ∈ defs, IsDefLam d
  nodup : (defs.map defName).Nodup
  disj : ∀ x ∈ "NULL" :: nats, x ∉ defs.map defName
  pub : ∀ d ∈ defs, (defName d).startsWith "_" = false

/-- **one module**: loading it keeps the invariant, with the new module frame `s.frames.size` added -/
theorem loadMod_step_D4 {s : State} {nats : List String} {L : List (EnvId × List Node)} (inv : ModInv_D4 s nats L)
    (defs : List Node) (ok : ModOk_D4 nats defs) :
    ∃ s', (∀ fuel, defs.length + 2 < fuel → loadMod_D4 ld fuel defs s = some s') ∧
      ModInv_D4 s' nats (L ++ [(s.frames.size, defs)]) ∧
      s'.frames.size = s.frames.size + 1 ∧
      (∀ i, i < s.frames.size → i ≠ 0 → s'.frame i = s.frame i) ∧
      s.heap.size ≤ s'.heap.size ∧ (∀ a, a < s.heap.size → s'.cell a = s.cell a) ∧ s'.out = s.out ∧
      (∀ x, x ∉ defs.map defName → dictGet x (s'.frame 0).vars = dictGet x (s.frame 0).vars) := by
  have hm0 : s.frames.size ≠ 0 := Nat.ne_of_gt inv.pos0
  have h0m : (0 : Nat) ≠ s.frames.size := Ne.symm hm0
  -- the fresh module frame
  have hsz1 : (ghostEnter (s.newEnv 0).1 default).frames.size = s.frames.size + 1 := frames_size_newEnv s 0
  have hfrm1 : (ghostEnter (s.newEnv 0).1 default).frame s.frames.size = { vars := [], parent := some 0 } :=
    frame_newEnv_new s 0
  have hfro1 : ∀ i, i < s.frames.size → (ghostEnter (s.newEnv 0).1 default).frame i = s.frame i :=
    fun i hi => frame_newEnv_old s 0 hi
  -- the definitions
  obtain ⟨v, s2, hev, hpar, hfr, hsz, hhp, hcell, hout, hget, hsrc⟩ :=
    load_defs_aux ld s.frames.size defs ok.all ok.nodup (ghostEnter (s.newEnv 0).1 default)
      (by rw [hsz1]; exact Nat.lt_succ_self _) (.bool true)
  have hblock := Ev.block ld (b := true) (pos := default) (s := (s.newEnv 0).1) hev
  -- the module frame after the definitions
  have hown2 : ∀ x, x ∉ defs.map defName → dictGet x (s2.frame s.frames.size).vars = none := by
    intro x hx; rw [hget x hx, hfrm1]; rfl
  have hsz2 : (ghostFin s2 default).frames.size = s.frames.size + 1 := by
    show s2.frames.size = _; rw [hsz, hsz1]
  have hlook : ∀ d ∈ defs, ∀ a, dictGet (defName d) (s2.frame s.frames.size).vars = some (.closure a) →
      ((ghostFin s2 default).lookup s.frames.size (defName d)).getD .null = .closure a := by
    intro d _ a ha
    have : (ghostFin s2 default).lookup s.frames.size (defName d) = some (.closure a) :=
      lookupF_res (s := ghostFin s2 default) (Or.inl ha) _ (by rw [hsz2]; omega)
    rw [this]; rfl
  -- the exported names are exactly the names of the definitions
  have hexp : ∀ x, x ∈ (((ghostFin s2 default).localSymbols s.frames.size).filter (fun n => !n.startsWith "_")).filter
      (fun n => !isModuleObj (ghostFin s2 default) (((ghostFin s2 default).lookup s.frames.size n).getD .null))
      ↔ x ∈ defs.map defName := by
    intro x
    constructor
    · intro hx
      have hx1 := (List.mem_filter.mp (List.mem_filter.mp hx).1).1
      have hx2 : dictGet x (s2.frame s.frames.size).vars ≠ none := (mem_keys_iff_D4 x _).mp hx1
      exact Classical.byContradiction (fun hn => hx2 (hown2 x hn))
    · intro hx
      obtain ⟨d, hd, rfl⟩ := List.mem_map.mp hx
      obtain ⟨a, nm, h1, _⟩ := hsrc d hd
      refine List.mem_filter.mpr ⟨List.mem_filter.mpr ⟨?_, ?_⟩, ?_⟩
      · exact (mem_keys_iff_D4 _ _).mpr (by
          show dictGet (defName d) (s2.frame s.frames.size).vars ≠ none
          rw [h1]; exact fun h => by cases h)
      · rw [ok.pub d hd]; rfl
      · rw [hlook d hd a h1]; rfl
  obtain ⟨e1, e2, e3, e4, e5, e6⟩ := foldPut0_spec_D4
    (fun n => ((ghostFin s2 default).lookup s.frames.size n).getD .null)
    ((((ghostFin s2 default).localSymbols s.frames.size).filter (fun n => !n.startsWith "_")).filter
      (fun n => !isModuleObj (ghostFin s2 default) (((ghostFin s2 default).lookup s.frames.size n).getD .null)))
    (ghostFin s2 default) (by rw [hsz2]; omega)
  -- the final state
  refine ⟨exportUnq_D4 0 s.frames.size (ghostFin s2 default), ?_, ?_⟩
  · intro fuel hf
    unfold loadMod_D4 modAst_D4
    rw [hblock fuel (by omega)]
  have hcell3 : ∀ a, (exportUnq_D4 0 s.frames.size (ghostFin s2 default)).cell a = s2.cell a := by
    intro a
    show (exportUnq_D4 0 s.frames.size (ghostFin s2 default)).heap[a]? = s2.heap[a]?
    unfold exportUnq_D4; rw [e3]; rfl
  have A : ∀ i, i < s.frames.size → i ≠ 0 → (exportUnq_D4 0 s.frames.size (ghostFin s2 default)).frame i = s.frame i := by
    intro i hi hi0
    unfold exportUnq_D4
    rw [e2 i hi0]
    show s2.frame i = _
    rw [hfr i (Nat.ne_of_lt hi), hfro1 i hi]
  have Bm : (exportUnq_D4 0 s.frames.size (ghostFin s2 default)).frame s.frames.size = s2.frame s.frames.size := by
    unfold exportUnq_D4; rw [e2 _ hm0]; rfl
  have C : ∀ x, x ∉ defs.map defName →
      dictGet x ((exportUnq_D4 0 s.frames.size (ghostFin s2 default)).frame 0).vars = dictGet x (s.frame 0).vars := by
    intro x hx
    unfold exportUnq_D4
    rw [e5 x (fun h => hx ((hexp x).mp h))]
    show dictGet x (s2.frame 0).vars = _
    rw [hfr 0 h0m, hfro1 0 inv.pos0]
  have D : ∀ d ∈ defs, ∃ a nm,
      dictGet (defName d) ((exportUnq_D4 0 s.frames.size (ghostFin s2 default)).frame s.frames.size).vars = some (.closure a) ∧
      dictGet (defName d) ((exportUnq_D4 0 s.frames.size (ghostFin s2 default)).frame 0).vars = some (.closure a) ∧
      (exportUnq_D4 0 s.frames.size (ghostFin s2 default)).cell a
        = some (.closure s.frames.size (lamParams d) (lamDefaults d) (lamBody d) nm) := by
    intro d hd
    obtain ⟨a, nm, h1, h2⟩ := hsrc d hd
    refine ⟨a, nm, by rw [Bm]; exact h1, ?_, by rw [hcell3]; exact h2⟩
    unfold exportUnq_D4
    rw [e6 _ ((hexp _).mpr (List.mem_map.mpr ⟨d, hd, rfl⟩))]
    exact congrArg some (hlook d hd a h1)
  have G : (exportUnq_D4 0 s.frames.size (ghostFin s2 default)).frames.size = s.frames.size + 1 := by
    unfold exportUnq_D4; rw [e1, hsz2]
  have hcellOld : ∀ a, a < s.heap.size → (exportUnq_D4 0 s.frames.size (ghostFin s2 default)).cell a = s.cell a := by
    intro a ha; rw [hcell3, hcell a ha]; rfl
  have hmem : ∀ p, p ∈ L ++ [(s.frames.size, defs)] → p ∈ L ∨ p = (s.frames.size, defs) := by
    intro p hp; simpa using hp
  have hnotin : ∀ p ∈ L, p.1 ≠ s.frames.size := fun p hp => Nat.ne_of_lt (inv.lt p hp)
  refine ⟨⟨?_, ?_, ?_, ?_, ?_, ?_, ?_, ?_, ?_, ?_, ?_⟩, G, A, ?_, hcellOld, ?_, C⟩
  · rw [G]; omega
  · rw [C _ (ok.disj _ List.mem_cons_self)]; exact inv.null
  · intro x hx
    obtain ⟨i, hi⟩ := inv.nat x hx
    exact ⟨i, by rw [C _ (ok.disj _ (List.mem_cons_of_mem _ hx))]; exact hi⟩
  · intro p hp
    rcases hmem p hp with hp | rfl
    · rw [G]; exact Nat.lt_succ_of_lt (inv.lt p hp)
    · rw [G]; exact Nat.lt_succ_self _
  · intro p hp
    rcases hmem p hp with hp | rfl
    · exact inv.ne0 p hp
    · exact hm0
  · intro p hp q hq hpq
    rcases hmem p hp with hp | rfl <;> rcases hmem q hq with hq | rfl
    · exact inv.inj p hp q hq hpq
    · exact absurd hpq (hnotin p hp)
    · exact absurd hpq.symm (hnotin q hq)
    · rfl
  · intro p hp
    rcases hmem p hp with hp | rfl
    · rw [A _ (inv.lt p hp) (inv.ne0 p hp)]; exact inv.parent p hp
    · show ((exportUnq_D4 0 s.frames.size (ghostFin s2 default)).frame s.frames.size).parent = some 0
      rw [Bm, hpar, hfrm1]
  · intro p hp
    rcases hmem p hp with hp | rfl
    · exact inv.disj p hp
    · exact ok.disj
  · intro p hp x hx
    rcases hmem p hp with hp | rfl
    · rw [A _ (inv.lt p hp) (inv.ne0 p hp)]; exact inv.own p hp x hx
    · show dictGet x ((exportUnq_D4 0 s.frames.size (ghostFin s2 default)).frame s.frames.size).vars = none
      rw [Bm]; exact hown2 x hx
  · intro p hp d hd
    rcases hmem p hp with hp | rfl
    · obtain ⟨a, nm, h1, h2⟩ := inv.src p hp d hd
      have ha : a < s.heap.size := by
        refine Nat.lt_of_not_le (fun hn => ?_)
        simp [State.cell, Array.getElem?_eq_none hn] at h2
      exact ⟨a, nm, by rw [A _ (inv.lt p hp) (inv.ne0 p hp)]; exact h1, by rw [hcellOld a ha]; exact h2⟩
    · obtain ⟨a, nm, h1, _, h3⟩ := D d hd
      exact ⟨a, nm, h1, h3⟩
  · intro p hp d hd huniq
    rcases hmem p hp with hp | rfl
    · have hnew : defName d ∉ defs.map defName :=
        huniq (s.frames.size, defs) (List.mem_append_right _ List.mem_cons_self) (Ne.symm (hnotin p hp))
      rw [C _ hnew, A _ (inv.lt p hp) (inv.ne0 p hp)]
      exact inv.exp p hp d hd (fun q hq hne => huniq q (List.mem_append_left _ hq) hne)
    · obtain ⟨a, nm, h1, h2, _⟩ := D d hd
      show dictGet (defName d) ((exportUnq_D4 0 s.frames.size (ghostFin s2 default)).frame 0).vars
        = dictGet (defName d) ((exportUnq_D4 0 s.frames.size (ghostFin s2 default)).frame s.frames.size).vars
      rw [h1, h2]
  · have : s.heap.size ≤ s2.heap.size := hhp
    show s.heap.size ≤ (exportUnq_D4 0 s.frames.size (ghostFin s2 default)).heap.size
    unfold exportUnq_D4; rw [e3]; exact this
  · unfold exportUnq_D4; rw [e4]
    show s2.out = s.out
    rw [hout]; rfl

end Ckl.C19Src
