import CklVerif.Lemmas.C20EvalM

/-!
  C20 (evaluator part) — the invariant for every helper program of `Eval.lean` that does not evaluate
  nodes.

  Every error these programs raise carries the position they were given (`pos`); the only other
  position is the default `{}` in `assignAll`.  Every value they return or store was given to them or
  read from the state.
-/
namespace Ckl
attribute [local irreducible] ValsOK DictOK PairsOK
set_option linter.unusedSectionVars false
set_option linter.unusedVariables false

macro_rules | `(tactic| posok_lib) => `(tactic| (apply PosOK.argGet <;> first | vok | eok))
macro_rules | `(tactic| posok_lib) => `(tactic| (apply PosOK.getIndex <;> first | vok | eok))
macro_rules | `(tactic| posok_lib) => `(tactic| (apply PosOK.asStringM <;> first | vok | eok))
macro_rules | `(tactic| posok_lib) => `(tactic| (apply PosOK.setArgs <;> first | vok | eok))

section
variable {E : String → Pos → List (String × Pos) → Prop} {P : Pos → Prop}

namespace PosOK

theorem addSet {items : List RVal} (hi : ValsOK P items) : PosOK E P (addSet items) := by
  unfold Ckl.addSet; posok

theorem destructure {v : RVal} (hv : ValOK P v) (count : Nat) {pos : Pos} (h : ∀ msg, E msg pos []) :
    PosOK E P (destructure v count pos) := by
  unfold Ckl.destructure; posok

theorem bindLoopVars (env : EnvId) (ids : List String) {v : RVal} (hv : ValOK P v) {pos : Pos}
    (h : ∀ msg, E msg pos []) : PosOK E P (bindLoopVars env ids v pos) := by
  unfold Ckl.bindLoopVars
  split
  · posok
  · refine bind (destructure hv _ h) (fun vals hvals => ?_)
    apply PosOK.modifyS
    intro s hs
    apply StOK.foldl hs
    intro s' p hp hs'
    exact hs'.put _ _ (ValsOK.of_mem hvals (List.of_mem_zip hp).2)

theorem removeVars (env : EnvId) (ids : List String) : PosOK E P (removeVars env ids) := by
  unfold Ckl.removeVars; posok

theorem spreadValues {v : RVal} (hv : ValOK P v) {pos : Pos} (h : ∀ msg, E msg pos []) :
    PosOK E P (spreadValues v pos) := by
  unfold Ckl.spreadValues; posok

theorem collectionValues {v : RVal} (hv : ValOK P v) (what : Option String) {pos : Pos} (h : ∀ msg, E msg pos []) :
    PosOK E P (collectionValues v what pos) := by
  unfold Ckl.collectionValues; posok

theorem renameClosure (v : RVal) (name : String) : PosOK E P (renameClosure v name) := by
  constructor
  intro s hs
  cases v with
  | closure a =>
    simp only [Ckl.renameClosure, EvalM.bind_apply, Ckl.getS]
    cases hc : s.cell a with
    | none => exact ⟨trivial, hs⟩
    | some c =>
      cases c with
      | closure e ps ds b n => exact ⟨trivial, hs.setCell a (hs.closure hc)⟩
      | _ => exact ⟨trivial, hs⟩
  | _ => exact ⟨trivial, hs⟩

theorem assignAll (env : EnvId) (xs : List String) {items : List RVal} (hi : ValsOK P items) (i : Nat) {last : RVal}
    (hl : ValOK P last) {pos : Pos} (h : ∀ msg, E msg pos []) (h0 : ∀ x : String, E (x ++ " is not defined") {} []) :
    PosOK E P (assignAll env xs items i last pos) := by
  induction xs generalizing i last with
  | nil => unfold Ckl.assignAll; exact pure hl
  | cons x xs ih =>
    unfold Ckl.assignAll
    posok
    all_goals exact ih _ (hi.getD _)

theorem defAll (env : EnvId) (xs : List String) {items : List RVal} (hi : ValsOK P items) (i : Nat) {last : RVal}
    (hl : ValOK P last) : PosOK E P (defAll env xs items i last) := by
  induction xs generalizing i last with
  | nil => unfold Ckl.defAll; exact pure hl
  | cons x xs ih =>
    unfold Ckl.defAll
    have := fun v n => renameClosure (E := E) (P := P) v n
    posok
    all_goals first | exact ih _ (hi.getD _) | exact this _ _

theorem comprResult (kind : ComprKind) {out : List (RVal × RVal)} (ho : PairsOK P out) :
    PosOK E P (comprResult kind out) := by
  unfold Ckl.comprResult
  have := fun xs (h : ValsOK P xs) => addSet (E := E) (P := P) h
  posok
  all_goals exact this _ ho.vals

end PosOK
end

macro_rules | `(tactic| posok_lib) => `(tactic| (apply PosOK.addSet <;> first | vok | eok))
macro_rules | `(tactic| posok_lib) => `(tactic| (apply PosOK.destructure <;> first | vok | eok))
macro_rules | `(tactic| posok_lib) => `(tactic| (apply PosOK.bindLoopVars <;> first | vok | eok))
macro_rules | `(tactic| posok_lib) => `(tactic| (apply PosOK.removeVars <;> first | vok | eok))
macro_rules | `(tactic| posok_lib) => `(tactic| (apply PosOK.spreadValues <;> first | vok | eok))
macro_rules | `(tactic| posok_lib) => `(tactic| (apply PosOK.collectionValues <;> first | vok | eok))
macro_rules | `(tactic| posok_lib) => `(tactic| (apply PosOK.renameClosure <;> first | vok | eok))
macro_rules | `(tactic| posok_lib) => `(tactic| (apply PosOK.assignAll <;> first | vok | eok))
macro_rules | `(tactic| posok_lib) => `(tactic| (apply PosOK.defAll <;> first | vok | eok))
macro_rules | `(tactic| posok_lib) => `(tactic| (apply PosOK.comprResult <;> first | vok | eok))

end Ckl
