import CklVerif.Lemmas.C19SrcMapList
import CklVerif.Lemmas.C19SrcLoad

/-!
  C19Src — list.ckl `map_list(lst, f)`: the source is a guard (`if type(lst) == 'func' then [f, lst] = [lst, f]`) followed by the LIST
  COMPREHENSION `[f(element) for element in lst]`.  For a list cell and a function value `f` whose call on every element `v` yields
  `g v` and only extends the state: a FRESH list cell holding `xs.map g`; argument cell unchanged (`Ext`).
-/
namespace Ckl.C19Src
open Ckl Ckl.C03 Ckl.Gen.LibSrc
variable (ld : Loader)

/-- **`map_list` (general)**: `f` any function value `fv` such that the call node `f(element)` on every element `v` of the list, in
    every state extending `s`, ends normally with `g v` and only extends the state (`CallNode1_L1`, fuel bound `kf`).
    Result: a reference to a FRESH cell holding `xs.map g`; `Ext`; fuel bound `kf + xs.length + 13`. -/
theorem map_list_src {s : State} {M nats srcs fn m} (h : LibEnv s M nats srcs) (hn : ∀ x ∈ mapListNats, x ∈ nats) (hm : M m)
    (hsrc : IsSrc s fn list_map_list m) (a : Nat) (xs : List RVal) (fv : RVal) (g : RVal → RVal) (kf : Nat)
    (hc : s.cell a = some (.list xs))
    (hf : ∀ v ∈ xs, ∀ st, Ext s st → ∃ st', CallNode1_L1 ld kf fv v st (g v) st' ∧ Ext st st') :
    ∃ s' b, Ext s s' ∧ s.heap.size ≤ b ∧ s'.cell b = some (.list (xs.map g)) ∧ s'.cell a = some (.list xs) ∧
      ∀ fuel env pos, kf + xs.length + 13 < fuel →
        callFn ld fuel fn [("lst", .ref a), ("f", fv)] env pos s = .ok (.ref b) s' := by
  obtain ⟨r, s', ⟨e, hr, hcr⟩, c⟩ := map_list_calls ld h hn hm hsrc a xs fv g kf hc hf
  exact ⟨s', r, e, hr, hcr, by rw [e.cell a (cell_lt hc)]; exact hc, fun fuel env pos hf => c env pos fuel hf⟩

/-- **`map_list` with a built-in** `f = .native nm i` whose first parameter `q` is positional and whose pure meaning on every element
    `v` is `g v` (state unchanged): the fresh cell holds `xs.map g`; fuel bound `xs.length + 16`. -/
theorem map_list_src_native {s : State} {M nats srcs fn m} (h : LibEnv s M nats srcs) (hn : ∀ x ∈ mapListNats, x ∈ nats)
    (hm : M m) (hsrc : IsSrc s fn list_map_list m) (a : Nat) (xs : List RVal) (hc : s.cell a = some (.list xs))
    {nm : String} (i : Nat) {q : String} {rest : List String} (g : RVal → RVal)
    (hps : nativeArgNames nm = some (q :: rest)) (hsp : ∀ p ∈ q :: rest, ¬ ("...".toList <:+ p.toList))
    (hsem : ∀ v ∈ xs, ∀ (st : State) d pos, ∃ mm, callPure nm [(q, v)] d pos = some mm ∧ mm st = .ok (g v) st) :
    ∃ s' b, Ext s s' ∧ s.heap.size ≤ b ∧ s'.cell b = some (.list (xs.map g)) ∧ s'.cell a = some (.list xs) ∧
      ∀ fuel env pos, xs.length + 16 < fuel →
        callFn ld fuel fn [("lst", .ref a), ("f", .native nm i)] env pos s = .ok (.ref b) s' := by
  obtain ⟨s', b, e, hb, hcb, hca, c⟩ := map_list_src ld h hn hm hsrc a xs (.native nm i) g 3 hc (fun v hv st _ =>
    ⟨st, CallNode1_L1.native ld hps hsp (hsem v hv st), Ext.refl st⟩)
  exact ⟨s', b, e, hb, hcb, hca, fun fuel env pos hf => c fuel env pos (by omega)⟩

/-- … stated through the mirror `Lib.mapListM` -/
theorem map_list_src_eq_mirror {s : State} {M nats srcs fn m} (h : LibEnv s M nats srcs) (hn : ∀ x ∈ mapListNats, x ∈ nats)
    (hm : M m) (hsrc : IsSrc s fn list_map_list m) (a : Nat) (xs : List RVal) (hc : s.cell a = some (.list xs))
    {nm : String} (i : Nat) {q : String} {rest : List String} (g : RVal → RVal)
    (hps : nativeArgNames nm = some (q :: rest)) (hsp : ∀ p ∈ q :: rest, ¬ ("...".toList <:+ p.toList))
    (hsem : ∀ v ∈ xs, ∀ (st : State) d pos, ∃ mm, callPure nm [(q, v)] d pos = some mm ∧ mm st = .ok (g v) st) :
    ∃ s' b, Ext s s' ∧ s.heap.size ≤ b ∧ s'.cell b = some (.list (Lib.mapListM g xs)) ∧
      ∀ fuel env pos, xs.length + 16 < fuel →
        callFn ld fuel fn [("lst", .ref a), ("f", .native nm i)] env pos s = .ok (.ref b) s' := by
  rw [mapListM_eq_map]
  obtain ⟨s', b, e, hb, hcb, _, c⟩ := map_list_src_native ld h hn hm hsrc a xs hc i g hps hsp hsem
  exact ⟨s', b, e, hb, hcb, c⟩

/-- instance: `map_list(lst, is_null)` — the built-in `is_null` has the pure meaning `.bool v.isNull` on every value -/
theorem map_list_src_is_null {s : State} {M nats srcs fn m} (h : LibEnv s M nats srcs) (hn : ∀ x ∈ mapListNats, x ∈ nats)
    (hm : M m) (hsrc : IsSrc s fn list_map_list m) (a : Nat) (xs : List RVal) (hc : s.cell a = some (.list xs)) (i : Nat) :
    ∃ s' b, Ext s s' ∧ s.heap.size ≤ b ∧ s'.cell b = some (.list (xs.map (fun v => .bool v.isNull))) ∧
      s'.cell a = some (.list xs) ∧
      ∀ fuel env pos, xs.length + 16 < fuel →
        callFn ld fuel fn [("lst", .ref a), ("f", .native "is_null" i)] env pos s = .ok (.ref b) s' :=
  map_list_src_native ld h hn hm hsrc a xs hc i (q := "obj") (rest := []) (fun v => .bool v.isNull) (by rfl) (by decide)
    (fun v _ st d pos => ⟨_, rfl, by simp [argGet, dictGet, EvalM.bind_apply, EvalM.pure_apply, boolV]⟩)

/-! ### the hypotheses are satisfiable -/

def mapLoadNats : List String := ["type", "equals", "is_null"]

example : ∀ x ∈ mapListNats, x ∈ mapLoadNats := by decide

/-- the driver's initial state with the built-ins `mapLoadNats`, the generated definition loaded in the session frame, one list cell -/
example (secure : Bool) : ∃ (s : State) (f : RVal) (a : Nat),
    LibEnv s (· = 1) mapLoadNats [("map_list", list_map_list)] ∧ IsSrc s f list_map_list 1 ∧
    s.cell a = some (.list [.int 1, .null, .str ['x']]) := by
  obtain ⟨v, s1, _, hlib, _⟩ := load_defs_libEnv default [list_map_list]
    (by intro d hd; simp at hd; subst hd; exact ⟨_, _, _, _, _, _, _, rfl⟩) (by decide) mapLoadNats (by decide)
    (initialState secure mapLoadNats).1 1 (by rw [initialState_frames_size]; exact Nat.lt_succ_self 1)
    (initialState_null secure mapLoadNats (by decide)) (fun x hx => initialState_nat secure mapLoadNats hx) .null
  have e : Ext s1 (s1.alloc (.list [.int 1, .null, .str ['x']])).1 := (Ext.refl s1).alloc _
  obtain ⟨f, m', _, hm', hf⟩ := hlib.src 1 rfl ("map_list", list_map_list) (List.mem_map.mpr ⟨list_map_list, by simp, rfl⟩)
  subst hm'
  exact ⟨_, f, s1.heap.size, (show LibEnv s1 (· = 1) mapLoadNats [("map_list", list_map_list)] from hlib).ext e, hf.ext e,
    cell_alloc_new _ _⟩

example : ([.int 1, .null, .str ['x']] : List RVal).map (fun v => RVal.bool v.isNull) = [.bool false, .bool true, .bool false] := rfl

end Ckl.C19Src
