/-
  C08 (full data literals) — scanner part: the delimiters `<<`, `>>`, `<<<`, `>>>`, `=>`, and the
  combinators that lift "the text of every item scans to its tokens" to comma-separated
  sequences, list / set / map brackets (with the blank rule of `delimited`) and map entries.
-/
import CklVerif.Lemmas.C08FullDefs
namespace Ckl.C08F
open Ckl Ckl.Lexer Ckl.C08

theorem core_reset {σ : LexSt} (h0 : σ.core.state = .s0) (htok : σ.core.token = []) :
    ({ σ.core with token := [], state := .s0 } : Core) = σ.core := by
  cases hσ : σ.core with
  | mk s tk tb => rw [hσ] at h0 htok; simp only at h0 htok; subst h0; subst htok; rfl

/-- `xx` (`x` one of `<`, `>`) followed by a character other than `x`: the interpunction token
    `xx` is emitted and the character is read afresh at a token boundary -/
theorem run_double {name : String} {σ : LexSt} (h0 : σ.core.state = .s0)
    (htok : σ.core.token = []) {x : Char} (hx : x = '<' ∨ x = '>') {d : Char} (hd : d ≠ x)
    (tail : List Char) :
    ∃ σ', run name σ (x :: x :: d :: tail) = run name σ' (d :: tail) ∧ σ'.core = σ.core ∧
      outTV σ' = outTV σ ++ [([x, x], ip)] := by
  have hxn : x ≠ '\n' := by rcases hx with rfl | rfl <;> decide
  obtain ⟨σ1, hf1, hk1, ho1, hsl1, hso1, hl1⟩ := feed_start (name := name) (c := x)
    (k' := { σ.core with token := σ.core.token ++ [x], state := .s2 }) h0 hxn
    (by intro col; rcases hx with rfl | rfl <;> simp [step0])
  have hs1 : σ1.core.state = .s2 := by rw [hk1]
  have ht1 : σ1.core.token = [x] := by rw [hk1]; simp [htok]
  obtain ⟨σ2, hf2, hk2, hfr2⟩ := feed_inner (name := name) (σ := σ1) (c := x)
    (k' := { σ1.core with token := σ1.core.token ++ [x], state := .s21 }) (by rw [hs1]; decide) hxn
    (by intro col; unfold step; rcases hx with rfl | rfl <;> simp [hs1, step2, ht1])
  have hs2 : σ2.core.state = .s21 := by rw [hk2]
  have ht2 : σ2.core.token = [x, x] := by rw [hk2]; simp [ht1]
  have hf3 := feed_unread (name := name) (σ := σ2) (t := d)
    (k' := { σ2.core with token := [], state := .s0 }) (v := [x, x]) (ty := .interpunction)
    (colf := fun col => col - 2) (by rw [hs2]; decide) rfl
    (by
      intro col; unfold step
      rcases hx with rfl | rfl <;> simp [hs2, step21, ht2, hd, len])
  refine ⟨{ σ2 with core := { σ2.core with token := [], state := .s0 },
                    out := (⟨[x, x], .interpunction, ⟨name, σ2.startline, (σ2.count d).column - 2⟩⟩,
                      σ2.startOff) :: σ2.out }, ?_, ?_, ?_⟩
  · rw [run_cons_ok _ hf1, run_cons_ok _ hf2]
    simp only [run, hf3]
  · simp only [hk2, hk1]; exact core_reset h0 htok
  · rw [outTV_push (σ := σ) (tok := ⟨[x, x], .interpunction, ⟨name, σ2.startline, (σ2.count d).column - 2⟩⟩)
      (o := σ2.startOff) (by simp only [hfr2.out, ho1])]
    rfl

/-- a transition inside a token that emits the token without unreading -/
theorem feed_emit {name : String} {σ : LexSt} {c : Char} {k' : Core} {v : List Char} {ty : TokType}
    {colf : Int → Int} (h0 : σ.core.state ≠ .s0) (hn : c ≠ '\n')
    (hstep : ∀ col, step σ.core col c = .ok ⟨k', some (v, ty, colf col), false⟩) :
    ∃ σ' col, feed name σ c = .ok σ' ∧ σ'.core = k' ∧
      σ'.out = (⟨v, ty, ⟨name, σ.startline, col⟩⟩, σ.startOff) :: σ.out := by
  simp only [feed, LexSt.count, hn, if_false, LexSt.capture, h0, LexSt.dispatch, hstep, LexSt.push]
  exact ⟨_, _, rfl, rfl, rfl⟩

/-- `<<<` / `>>>`: emitted with the third character, no look-ahead -/
theorem run_triple {name : String} {σ : LexSt} (h0 : σ.core.state = .s0)
    (htok : σ.core.token = []) {x : Char} (hx : x = '<' ∨ x = '>') (tail : List Char) :
    ∃ σ', run name σ (x :: x :: x :: tail) = run name σ' tail ∧ σ'.core = σ.core ∧
      outTV σ' = outTV σ ++ [([x, x, x], ip)] := by
  have hxn : x ≠ '\n' := by rcases hx with rfl | rfl <;> decide
  obtain ⟨σ1, hf1, hk1, ho1, hsl1, hso1, hl1⟩ := feed_start (name := name) (c := x)
    (k' := { σ.core with token := σ.core.token ++ [x], state := .s2 }) h0 hxn
    (by intro col; rcases hx with rfl | rfl <;> simp [step0])
  have hs1 : σ1.core.state = .s2 := by rw [hk1]
  have ht1 : σ1.core.token = [x] := by rw [hk1]; simp [htok]
  obtain ⟨σ2, hf2, hk2, hfr2⟩ := feed_inner (name := name) (σ := σ1) (c := x)
    (k' := { σ1.core with token := σ1.core.token ++ [x], state := .s21 }) (by rw [hs1]; decide) hxn
    (by intro col; unfold step; rcases hx with rfl | rfl <;> simp [hs1, step2, ht1])
  have hs2 : σ2.core.state = .s21 := by rw [hk2]
  have ht2 : σ2.core.token = [x, x] := by rw [hk2]; simp [ht1]
  obtain ⟨σ3, col, hf3, hk3, ho3⟩ := feed_emit (name := name) (σ := σ2) (c := x)
    (k' := { σ2.core with token := [], state := .s0 }) (v := [x, x, x]) (ty := .interpunction)
    (colf := fun col => col - 3) (by rw [hs2]; decide) hxn
    (by intro col; unfold step; rcases hx with rfl | rfl <;> simp [hs2, step21, ht2])
  refine ⟨σ3, ?_, ?_, ?_⟩
  · rw [run_cons_ok _ hf1, run_cons_ok _ hf2, run_cons_ok _ hf3]
  · simp only [hk3, hk2, hk1]; exact core_reset h0 htok
  · rw [outTV_push (σ := σ) (by rw [ho3, hfr2.out, ho1])]
    rfl

/-- `=>` at a token boundary -/
theorem run_arrow {name : String} {σ : LexSt} (h0 : σ.core.state = .s0)
    (htok : σ.core.token = []) (tail : List Char) :
    ∃ σ', run name σ ('=' :: '>' :: tail) = run name σ' tail ∧ σ'.core = σ.core ∧
      outTV σ' = outTV σ ++ [(['=', '>'], ip)] := by
  obtain ⟨σ1, hf1, hk1, ho1, hsl1, hso1, hl1⟩ := feed_start (name := name) (c := '=')
    (k' := { σ.core with token := σ.core.token ++ ['='], state := .s2 }) h0 (by decide)
    (by intro col; simp [step0])
  have hs1 : σ1.core.state = .s2 := by rw [hk1]
  have ht1 : σ1.core.token = ['='] := by rw [hk1]; simp [htok]
  obtain ⟨σ3, col, hf3, hk3, ho3⟩ := feed_emit (name := name) (σ := σ1) (c := '>')
    (k' := { σ1.core with token := [], state := .s0 }) (v := ['=', '>']) (ty := .interpunction)
    (colf := fun col => col - len ['=', '>'] - 1) (by rw [hs1]; decide) (by decide)
    (by intro col; unfold step; simp [hs1, step2, ht1])
  refine ⟨σ3, ?_, ?_, ?_⟩
  · rw [run_cons_ok _ hf1, run_cons_ok _ hf3]
  · simp only [hk3, hk1]; exact core_reset h0 htok
  · rw [outTV_push (σ := σ) (by rw [ho3, ho1])]
    rfl

/-! ### the scanning predicates -/

/-- `Pre pre tks`: at a token boundary the text `pre` makes the scanner emit exactly `tks` and
    leaves it at a token boundary, whatever follows -/
def Pre (pre : List Char) (tks : List TV) : Prop :=
  ∀ (name : String) (σ : LexSt), σ.core.state = .s0 → σ.core.token = [] → ∀ rest : List Char,
  ∃ σ', run name σ (pre ++ rest) = run name σ' rest ∧ σ'.core = σ.core ∧ outTV σ' = outTV σ ++ tks

/-- `Scans txt tks`: at a token boundary the text `txt`, followed by a number terminator `t`
    (which must not be `>` when `txt` ends with `>`: `>>` + `>` would read as `>>>`), makes the
    scanner emit exactly `tks`; `t` is then read at a token boundary -/
def Scans (txt : List Char) (tks : List TV) : Prop :=
  ∀ (name : String) (σ : LexSt), σ.core.state = .s0 → σ.core.token = [] →
  ∀ (t : Char), t ∈ numEnd → (txt.getLast? = some '>' → t ≠ '>') → ∀ tail : List Char,
  ∃ σ', run name σ (txt ++ t :: tail) = run name σ' (t :: tail) ∧ σ'.core = σ.core ∧
    outTV σ' = outTV σ ++ tks

theorem Pre.nil : Pre [] [] := fun _ σ _ _ _ => ⟨σ, rfl, rfl, by simp⟩

theorem Pre.append {a b : List Char} {ta tb : List TV} (ha : Pre a ta) (hb : Pre b tb) :
    Pre (a ++ b) (ta ++ tb) := by
  intro name σ h0 htok rest
  obtain ⟨σ1, hr1, hk1, ho1⟩ := ha name σ h0 htok (b ++ rest)
  obtain ⟨σ2, hr2, hk2, ho2⟩ := hb name σ1 (by rw [hk1]; exact h0) (by rw [hk1]; exact htok) rest
  exact ⟨σ2, by rw [List.append_assoc, hr1, hr2], by rw [hk2, hk1], by rw [ho2, ho1, List.append_assoc]⟩

theorem Pre.punct {c : Char} (hc : c ∈ ['(', ')', '[', ']', ',', ';']) : Pre [c] [([c], ip)] := by
  intro name σ h0 _ rest
  obtain ⟨σ1, hf1, hk1, ho1⟩ := feed_ip_tv (name := name) (c := c) h0 hc
  exact ⟨σ1, by rw [List.singleton_append, run_cons_ok _ hf1], hk1, ho1⟩

theorem Pre.blank : Pre [' '] [] := by
  intro name σ h0 _ rest
  obtain ⟨σ1, hf1, hk1, ho1⟩ := feed_blank_tv (name := name) (σ := σ) h0
  exact ⟨σ1, by rw [List.singleton_append, run_cons_ok _ hf1], hk1, by rw [ho1]; simp⟩

/-- an optional blank -/
def optb (p : Prop) [Decidable p] : List Char := if p then [' '] else []

theorem Pre.optb (p : Prop) [Decidable p] : Pre (optb p) [] := by
  unfold C08F.optb; split
  · exact Pre.blank
  · exact Pre.nil

theorem Pre.triple {x : Char} (hx : x = '<' ∨ x = '>') : Pre [x, x, x] [([x, x, x], ip)] := by
  intro name σ h0 htok rest
  exact run_triple h0 htok hx rest

theorem Pre.arrow : Pre [' ', '=', '>', ' '] [(['=', '>'], ip)] := by
  have h : Pre ([' '] ++ (['=', '>'] ++ [' '])) ([] ++ ([(['=', '>'], ip)] ++ [])) :=
    Pre.blank.append (Pre.append (a := ['=', '>']) (fun name σ h0 htok rest => run_arrow h0 htok rest) Pre.blank)
  simpa using h

theorem Pre.comma : Pre [',', ' '] [([','], ip)] := by
  have h : Pre ([','] ++ [' ']) ([([','], ip)] ++ []) := (Pre.punct (c := ',') (by decide)).append Pre.blank
  simpa using h

theorem Scans.nil : Scans [] [] := fun _ σ _ _ _ _ _ _ => ⟨σ, rfl, rfl, by simp⟩

theorem getLast?_append_of_some {a b : List Char} {c : Char} (h : b.getLast? = some c) :
    (a ++ b).getLast? = some c := by
  rw [List.getLast?_append, h]; rfl

/-- a prefix in front of a scanned text -/
theorem Scans.pre {a b : List Char} {ta tb : List TV} (ha : Pre a ta) (hb : Scans b tb)
    : Scans (a ++ b) (ta ++ tb) := by
  intro name σ h0 htok t ht hlast tail
  obtain ⟨σ1, hr1, hk1, ho1⟩ := ha name σ h0 htok (b ++ t :: tail)
  obtain ⟨σ2, hr2, hk2, ho2⟩ := hb name σ1 (by rw [hk1]; exact h0) (by rw [hk1]; exact htok) t ht
    (fun h => hlast (getLast?_append_of_some h)) tail
  exact ⟨σ2, by rw [List.append_assoc, hr1, hr2], by rw [hk2, hk1], by rw [ho2, ho1, List.append_assoc]⟩

/-- two scanned texts in a row: the second one starts with a terminator of the first -/
theorem Scans.seq {a b : List Char} {ta tb : List TV} (ha : Scans a ta) (hb : Scans b tb)
    (hhead : ∀ c ∈ b.head?, c ∈ numEnd ∧ (a.getLast? = some '>' → c ≠ '>')) :
    Scans (a ++ b) (ta ++ tb) := by
  intro name σ h0 htok t ht hlast tail
  cases b with
  | nil =>
    obtain ⟨σ1, hr1, hk1, ho1⟩ := ha name σ h0 htok t ht (by simpa using hlast) tail
    obtain ⟨σ2, hr2, hk2, ho2⟩ := hb name σ1 (by rw [hk1]; exact h0) (by rw [hk1]; exact htok) t ht
      (by simp) tail
    refine ⟨σ2, ?_, by rw [hk2, hk1], by rw [ho2, ho1, List.append_assoc]⟩
    rw [List.append_nil, hr1]; simpa using hr2
  | cons c b' =>
    obtain ⟨hc1, hc2⟩ := hhead c (by simp)
    obtain ⟨σ1, hr1, hk1, ho1⟩ := ha name σ h0 htok c hc1 hc2 (b' ++ t :: tail)
    obtain ⟨σ2, hr2, hk2, ho2⟩ := hb name σ1 (by rw [hk1]; exact h0) (by rw [hk1]; exact htok) t ht
      (fun h => hlast (getLast?_append_of_some h)) tail
    refine ⟨σ2, ?_, by rw [hk2, hk1], by rw [ho2, ho1, List.append_assoc]⟩
    rw [List.append_assoc, List.cons_append, hr1, ← List.cons_append, hr2]

/-- a suffix (that starts with a terminator) behind a scanned text -/
theorem Scans.suf {a : List Char} {c : Char} {suf : List Char} {ta ts : List TV} (ha : Scans a ta)
    (hs : Pre (c :: suf) ts) (hc : c ∈ numEnd) (hc' : a.getLast? = some '>' → c ≠ '>') :
    Scans (a ++ c :: suf) (ta ++ ts) := by
  have hb : Scans (c :: suf) ts := by
    have := Scans.pre hs Scans.nil
    simpa using this
  exact Scans.seq ha hb (by intro x hx; simp at hx; subst hx; exact ⟨hc, hc'⟩)

/-! ### comma-separated sequences -/

/-- every item preceded by `, ` -/
def joinT (xs : List (List Char)) : List Char := xs.flatMap (fun y => ',' :: ' ' :: y)

theorem joinSep_cons (x : List Char) (xs : List (List Char)) :
    joinSep [',', ' '] (x :: xs) = x ++ joinT xs := by
  induction xs generalizing x with
  | nil => simp [joinSep, joinT]
  | cons y ys ih =>
    have := ih y
    simp only [joinSep, this, joinT, List.flatMap_cons]
    simp

theorem scans_joinT {txts : List (List Char)} {tkss : List (List TV)}
    (h : List.Forall₂ Scans txts tkss) :
    Scans (joinT txts) (tkss.flatMap (fun y => ([','], ip) :: y)) := by
  induction h with
  | nil => simpa [joinT] using Scans.nil
  | @cons x tk xs tks hx _ ih =>
    have e1 : joinT (x :: xs) = ([',', ' '] ++ x) ++ joinT xs := by simp [joinT]
    have e2 : (tk :: tks).flatMap (fun y => ([','], ip) :: y)
        = ([([','], ip)] ++ tk) ++ tks.flatMap (fun y => ([','], ip) :: y) := by simp
    rw [e1, e2]
    refine Scans.seq (Scans.pre Pre.comma hx) ih ?_
    intro c hc
    cases xs with
    | nil => simp [joinT] at hc
    | cons y ys =>
      simp [joinT] at hc; subst hc
      exact ⟨by decide, fun _ => by decide⟩

theorem scans_joinSep {txts : List (List Char)} {tkss : List (List TV)}
    (h : List.Forall₂ Scans txts tkss) : Scans (joinSep [',', ' '] txts) (sepToks tkss) := by
  cases h with
  | nil => simpa [joinSep, sepToks] using Scans.nil
  | @cons x tk xs tks hx hxs =>
    rw [joinSep_cons, sepToks]
    refine Scans.seq hx (scans_joinT hxs) ?_
    intro c hc
    cases xs with
    | nil => simp [joinT] at hc
    | cons y ys =>
      simp [joinT] at hc; subst hc
      exact ⟨by decide, fun _ => by decide⟩

/-! ### brackets -/

theorem scans_list {content : List Char} {tks : List TV} (h : Scans content tks) :
    Scans ('[' :: (content ++ [']'])) ((['['], ip) :: (tks ++ [([']'], ip)])) := by
  have h1 : Scans (content ++ ']' :: []) (tks ++ [([']'], ip)]) :=
    Scans.suf h (Pre.punct (by decide)) (by decide) (fun _ => by decide)
  have h2 := Scans.pre (Pre.punct (c := '[') (by decide)) h1
  simpa using h2

/-- an entry `key => value` of a map -/
theorem scans_entry {k v : List Char} {tk tv' : List TV} (hk : Scans k tk) (hv : Scans v tv') :
    Scans (k ++ [' ', '=', '>', ' '] ++ v) (tk ++ (['=', '>'], ip) :: tv') := by
  have h1 : Scans ([' ', '=', '>', ' '] ++ v) ([(['=', '>'], ip)] ++ tv') := Scans.pre Pre.arrow hv
  have h2 := Scans.seq hk h1 (by
    intro c hc; simp at hc; subst hc; exact ⟨by decide, fun _ => by decide⟩)
  simpa using h2

theorem delimited_eq (o content c : List Char) :
    delimited o content c = o ++ (optb (content.head? = some '<') ++
      (content ++ (optb (content.getLast? = some '>') ++ c))) := by
  unfold delimited optb
  split <;> split <;> simp

/-- `delimited`: an opener that needs a following character other than `<` (or none at all), the
    content with the blanks of the blank rule, and a closer that starts with `>` and needs a
    following character other than `>` -/
theorem scans_delimited {o c' content : List Char} {tks : List TV} {tko tkc : TV}
    (hopen : ∀ (name : String) (σ : LexSt), σ.core.state = .s0 → σ.core.token = [] →
      ∀ (d : Char) (rest : List Char), d ≠ '<' →
      ∃ σ', run name σ (o ++ d :: rest) = run name σ' (d :: rest) ∧ σ'.core = σ.core ∧
        outTV σ' = outTV σ ++ [tko])
    (hclose : ∀ (name : String) (σ : LexSt), σ.core.state = .s0 → σ.core.token = [] →
      ∀ (d : Char) (rest : List Char), d ≠ '>' →
      ∃ σ', run name σ ('>' :: c' ++ d :: rest) = run name σ' (d :: rest) ∧ σ'.core = σ.core ∧
        outTV σ' = outTV σ ++ [tkc])
    (hc' : ('>' :: c').getLast? = some '>')
    (h : Scans content tks) : Scans (delimited o content ('>' :: c')) (tko :: (tks ++ [tkc])) := by
  intro name σ h0 htok t ht hlast tail
  have ht' : t ≠ '>' := by
    apply hlast
    rw [delimited_eq, ← List.append_assoc, ← List.append_assoc, ← List.append_assoc]
    exact getLast?_append_of_some hc'
  -- the text after the content
  obtain ⟨tt, rt, hrt, htt1, htt2⟩ : ∃ tt rt,
      optb (content.getLast? = some '>') ++ ('>' :: c') ++ t :: tail = tt :: rt ∧ tt ∈ numEnd ∧
      (content.getLast? = some '>' → tt ≠ '>') := by
    unfold optb; split
    · exact ⟨' ', _, rfl, by decide, fun _ => by decide⟩
    · rename_i hn; exact ⟨'>', _, rfl, by decide, fun h => absurd h hn⟩
  -- the text after the opener
  obtain ⟨d, rd, hrd, hd⟩ : ∃ d rd,
      optb (content.head? = some '<') ++ (content ++ tt :: rt) = d :: rd ∧ d ≠ '<' := by
    unfold optb; split
    · exact ⟨' ', _, rfl, by decide⟩
    · rename_i hn
      cases content with
      | nil =>
        refine ⟨tt, rt, rfl, ?_⟩
        simp [optb] at hrt
        rw [← hrt.1]; decide
      | cons x xs => exact ⟨x, _, rfl, fun e => hn (by simp [e])⟩
  obtain ⟨σ1, hr1, hk1, ho1⟩ := hopen name σ h0 htok d rd hd
  obtain ⟨σ2, hr2, hk2, ho2⟩ := Pre.optb (content.head? = some '<') name σ1 (by rw [hk1]; exact h0)
    (by rw [hk1]; exact htok) (content ++ tt :: rt)
  obtain ⟨σ3, hr3, hk3, ho3⟩ := h name σ2 (by rw [hk2, hk1]; exact h0) (by rw [hk2, hk1]; exact htok)
    tt htt1 htt2 rt
  obtain ⟨σ4, hr4, hk4, ho4⟩ := Pre.optb (content.getLast? = some '>') name σ3
    (by rw [hk3, hk2, hk1]; exact h0) (by rw [hk3, hk2, hk1]; exact htok) ('>' :: c' ++ t :: tail)
  obtain ⟨σ5, hr5, hk5, ho5⟩ := hclose name σ4 (by rw [hk4, hk3, hk2, hk1]; exact h0)
    (by rw [hk4, hk3, hk2, hk1]; exact htok) t tail ht'
  refine ⟨σ5, ?_, by rw [hk5, hk4, hk3, hk2, hk1], ?_⟩
  · have e : delimited o content ('>' :: c') ++ t :: tail
        = o ++ (optb (content.head? = some '<') ++ (content ++
            (optb (content.getLast? = some '>') ++ ('>' :: c') ++ t :: tail))) := by
      rw [delimited_eq]; simp
    rw [e, hrt, hrd, hr1, ← hrd, hr2, hr3, ← hrt]
    rw [List.append_assoc, hr4, hr5]
  · rw [ho5, ho4, ho3, ho2, ho1]; simp

theorem scans_set {content : List Char} {tks : List TV} (h : Scans content tks) :
    Scans (delimited ['<', '<'] content ['>', '>'])
      ((['<', '<'], ip) :: (tks ++ [(['>', '>'], ip)])) := by
  refine scans_delimited (o := ['<', '<']) (c' := ['>']) ?_ ?_ rfl h
  · intro name σ h0 htok d rest hd
    exact run_double h0 htok (Or.inl rfl) hd rest
  · intro name σ h0 htok d rest hd
    exact run_double h0 htok (Or.inr rfl) hd rest

theorem scans_map {content : List Char} {tks : List TV} (h : Scans content tks) :
    Scans (delimited ['<', '<', '<'] content ['>', '>', '>'])
      ((['<', '<', '<'], ip) :: (tks ++ [(['>', '>', '>'], ip)])) := by
  refine scans_delimited (o := ['<', '<', '<']) (c' := ['>', '>']) ?_ ?_ rfl h
  · intro name σ h0 htok d rest _
    exact run_triple h0 htok (Or.inl rfl) (d :: rest)
  · intro name σ h0 htok d rest _
    exact run_triple h0 htok (Or.inr rfl) (d :: rest)

/-! ### every data value -/

theorem scans_scalar (dr : DecRenderer) (v : Val)
    (hv : v = .null ∨ (∃ b, v = .bool b) ∨ (∃ n, v = .int n) ∨ (∃ s, v = .str s)) :
    Scans (renderWith dr v) (dataToks v) := by
  intro name σ h0 htok t ht _ tail
  exact scalar_tokens dr name v hv σ h0 htok t ht tail

mutual
  theorem scans_val (dr : DecRenderer) : ∀ v, IsData' dr v → Scans (renderWith dr v) (tokensOf v)
    | .null, _ => scans_scalar dr .null (Or.inl rfl)
    | .bool true, _ => scans_scalar dr (.bool true) (Or.inr (Or.inl ⟨_, rfl⟩))
    | .bool false, _ => scans_scalar dr (.bool false) (Or.inr (Or.inl ⟨_, rfl⟩))
    | .int n, _ => scans_scalar dr (.int n) (Or.inr (Or.inr (Or.inl ⟨n, rfl⟩)))
    | .str s, _ => scans_scalar dr (.str s) (Or.inr (Or.inr (Or.inr ⟨s, rfl⟩)))
    | .list xs, h => by
      simp only [renderWith, tokensOf]
      exact scans_list (scans_joinSep (scans_vals dr xs (by simpa [IsData'] using h)))
    | .set xs, h => by
      simp only [renderWith, tokensOf]
      exact scans_set (scans_joinSep (scans_vals dr xs (by simp only [IsData'] at h; exact h.1)))
    | .map kvs, h => by
      simp only [renderWith, tokensOf]
      exact scans_map (scans_joinSep (scans_entries dr kvs (by simp only [IsData'] at h; exact h.1)))
    | .dec _ _, h => by simp [IsData'] at h
    | .pat _, h => by simp [IsData'] at h
    | .date _, h => by simp [IsData'] at h
  theorem scans_vals (dr : DecRenderer) : ∀ xs, IsDataL' dr xs →
      List.Forall₂ Scans (renderL dr xs) (tokensLs xs)
    | [], _ => by simp [renderL, tokensLs]
    | x :: xs, h => by
      simp only [IsDataL'] at h
      simp only [renderL, tokensLs]
      exact List.Forall₂.cons (scans_val dr x h.1) (scans_vals dr xs h.2)
  theorem scans_entries (dr : DecRenderer) : ∀ kvs, IsDataM' dr kvs →
      List.Forall₂ Scans (renderM dr kvs) (tokensMs kvs)
    | [], _ => by simp [renderM, tokensMs]
    | (k, v) :: rest, h => by
      simp only [IsDataM'] at h
      simp only [renderM, tokensMs]
      exact List.Forall₂.cons (scans_entry (scans_val dr k h.2.1) (scans_val dr v h.2.2.1))
        (scans_entries dr rest h.2.2.2)
end

end Ckl.C08F
