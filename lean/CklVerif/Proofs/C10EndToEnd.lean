/-
  C10, end to end — a failed `interpret` call leaves no residue, stated over SOURCE TEXTS.

  * `syntax_error_no_residue`: a call whose text does not scan / does not parse leaves the state EXACTLY as it was
    — for every loader, fuel and session frame: nothing was evaluated;
  * sessions (lists of texts handed to one interpreter, `runSessionSrc`): a rejected text can be dropped from the
    session (`session_rejected_text_skipped`), the session is the AST session of the accepted texts
    (`runSessionSrc_eq_runSession`), it only stops where the model abstains (`session_total`);
  * `modstack_empty_between_calls_src` (from `C10.modstack_empty_between_calls`), `session_bindings_persist_src`,
    `session_never_shrinks_src`, `definition_survives_failed_call_src`, `failed_call_same_error_again_src`
    (from `Proofs/C10Sess.lean`, `Proofs/C10SessGhost.lean`).
-/
import CklVerif.Lemmas.E2EBase
import CklVerif.Proofs.C10
import CklVerif.Proofs.C10SessGhost
import CklVerif.Proofs.C01Parser
import CklVerif.Lemmas.E2EDefErr
namespace Ckl.E2E
open Ckl Ckl.C05 Ckl.C10S

/-! ### a rejected text leaves no residue -/

/-- **syntax_error_no_residue.**  If the front end rejects the text with the syntax error `e` (the scanner or the
    parser), the call ends with exactly that error in exactly the state it started in — the same for every loader,
    fuel and session frame, because nothing is evaluated — and the session continues from that very state. -/
theorem syntax_error_no_residue {src : List Char} {file : String} {e : SynErr} (h : parseScript src file = .error e)
    (ld : Loader) (fuel : Nat) (senv : EnvId) (s : State) :
    interpretSource ld fuel senv src file s = .fail (.syn e) s ∧
    finalState (interpretSource ld fuel senv src file s) = s ∧
    nextState (interpretSource ld fuel senv src file s) = some s := by
  rw [interpretSource_error h]; exact ⟨rfl, rfl, rfl⟩

/-- the two ways the front end rejects a text -/
theorem scan_error_no_residue {src : List Char} {file : String} {e : SynErr} (h : Lexer.scan src file = .error e)
    (ld : Loader) (fuel : Nat) (senv : EnvId) (s : State) :
    interpretSource ld fuel senv src file s = .fail (.syn e) s :=
  (syntax_error_no_residue (parseScript_of_scan_error h) ld fuel senv s).1

theorem parse_error_no_residue {src : List Char} {file : String} {toks : List Token} {e : SynErr}
    (hs : Lexer.scan src file = .ok toks) (hp : Parser.parse file toks = .error e)
    (ld : Loader) (fuel : Nat) (senv : EnvId) (s : State) :
    interpretSource ld fuel senv src file s = .fail (.syn e) s :=
  (syntax_error_no_residue ((parseScript_of_scan_ok hs).trans hp) ld fuel senv s).1

/-- conversely: whenever `interpret` ends with a syntax error in a state other than the one it started in, the text
    was accepted by the front end and the error was raised during evaluation (`require` of a broken module) -/
theorem syntax_error_residue_only_from_evaluation {ld : Loader} {fuel : Nat} {senv : EnvId} {src : List Char}
    {file : String} {s s' : State} {e : SynErr} (h : interpretSource ld fuel senv src file s = .fail (.syn e) s')
    (hne : s' ≠ s) : ∃ ast, parseScript src file = .ok ast ∧ interpretProg ld fuel senv ast s = .fail (.syn e) s' := by
  cases hp : parseScript src file with
  | ok ast => rw [interpretSource_ok hp] at h; exact ⟨ast, rfl, h⟩
  | error e' => rw [interpretSource_error hp] at h; cases h; exact absurd rfl hne

/-- a rejected text is rejected with the same error again, in every state -/
theorem rejected_text_same_error_again {ld : Loader} {fuel : Nat} {senv : EnvId} {src : List Char} {file : String}
    {s : State} {e : SynErr} (hp : parseScript src file = .error e) (ld' : Loader) (fuel' : Nat) (s2 : State) :
    interpretSource ld fuel senv src file s = .fail (.syn e) s ∧
    interpretSource ld' fuel' senv src file s2 = .fail (.syn e) s2 :=
  ⟨interpretSource_error hp s, interpretSource_error hp s2⟩

/-! ### sessions of source texts and sessions of ASTs -/

theorem nextState_eq_C10 (o : Out RVal) : nextState o = C10.nextState o := by
  cases o with
  | ok a s => rfl
  | err v m p t s => rfl
  | fail f s => cases f <;> rfl

theorem finalState_eq_stOf {α : Type} (o : Out α) : finalState o = stOf o := by cases o <;> rfl

theorem abstains_iff {α : Type} (o : Out α) : Abstains o ↔ C10S.Abstains o := by
  cases o with
  | ok a s => simp [Abstains, kind, C10S.Abstains]
  | err v m p t s => simp [Abstains, kind, C10S.Abstains]
  | fail f s => cases f <;> simp [Abstains, kind, C10S.Abstains]

/-- the session of texts is the session (`C10.runSession`) of the ASTs of the accepted texts: rejected texts
    contribute nothing -/
theorem runSessionSrc_eq_runSession (ld : Loader) (fuel : Nat) (senv : EnvId) (file : String) :
    ∀ (texts : List (List Char)) (s : State),
      runSessionSrc ld fuel senv file texts s = C10.runSession ld fuel senv (parsedTexts file texts) s := by
  intro texts
  induction texts with
  | nil => intro s; rfl
  | cons src rest ih =>
    intro s
    simp only [runSessionSrc, parsedTexts]
    cases hp : parseScript src file with
    | error e =>
      rw [interpretSource_error hp]
      exact ih s
    | ok ast =>
      rw [interpretSource_ok hp]
      simp only [C10.runSession, nextState_eq_C10]
      cases C10.nextState (interpretProg ld fuel senv ast s) with
      | none => rfl
      | some s1 => exact ih s1

/-- **session_rejected_text_skipped**: a text that the front end rejects can be removed from a session without
    changing the state the session ends in — a failed middle call leaves no residue -/
theorem session_rejected_text_skipped (ld : Loader) (fuel : Nat) (senv : EnvId) (file : String)
    (pre post : List (List Char)) {bad : List Char} {e : SynErr} (hbad : parseScript bad file = .error e) (s : State) :
    runSessionSrc ld fuel senv file (pre ++ bad :: post) s = runSessionSrc ld fuel senv file (pre ++ post) s := by
  rw [runSessionSrc_append, runSessionSrc_append]
  cases runSessionSrc ld fuel senv file pre s with
  | none => rfl
  | some s1 =>
    show runSessionSrc ld fuel senv file (bad :: post) s1 = _
    simp only [runSessionSrc, (syntax_error_no_residue hbad ld fuel senv s1).2.2]

/-- **session_total**: a session of texts stops (`none`) only where the MODEL abstains — out of fuel or an
    unsupported construct in one of the calls; every other outcome of a call (a value, a runtime error, a syntax
    error of the front end or of a required module) hands a state on to the next call -/
theorem session_total (ld : Loader) (fuel : Nat) (senv : EnvId) (file : String) :
    ∀ (texts : List (List Char)) (s : State),
      (∃ s', runSessionSrc ld fuel senv file texts s = some s') ∨
      (∃ pre src post s1, texts = pre ++ src :: post ∧ runSessionSrc ld fuel senv file pre s = some s1 ∧
        Abstains (interpretSource ld fuel senv src file s1)) := by
  intro texts
  induction texts with
  | nil => intro s; exact Or.inl ⟨s, rfl⟩
  | cons src rest ih =>
    intro s
    cases hn : nextState (interpretSource ld fuel senv src file s) with
    | none => exact Or.inr ⟨[], src, rest, s, rfl, rfl, nextState_eq_none.1 hn⟩
    | some s1 =>
      rcases ih s1 with ⟨s', h⟩ | ⟨pre, x, post, s2, h1, h2, h3⟩
      · exact Or.inl ⟨s', by simp only [runSessionSrc, hn, h]⟩
      · refine Or.inr ⟨src :: pre, x, post, s2, by rw [h1]; rfl, ?_, h3⟩
        simp only [runSessionSrc, hn, h2]

/-- if no call abstains, the session runs to its end -/
theorem session_completes (ld : Loader) (fuel : Nat) (senv : EnvId) (file : String) (texts : List (List Char)) (s : State)
    (h : ∀ pre src post s1, texts = pre ++ src :: post → runSessionSrc ld fuel senv file pre s = some s1 →
      ¬ Abstains (interpretSource ld fuel senv src file s1)) :
    ∃ s', runSessionSrc ld fuel senv file texts s = some s' := by
  rcases session_total ld fuel senv file texts s with h1 | ⟨pre, src, post, s1, h1, h2, h3⟩
  · exact h1
  · exact absurd h3 (h pre src post s1 h1 h2)

/-! ### the module load stack -/

/-- **modstack_empty_between_calls_src** (`C10.modstack_empty_between_calls` over texts): starting with an empty
    module load stack, the stack is empty again after ANY session of texts — calls that fail in a `require` (a
    module that does not parse, a missing module, a runtime error inside a module) and rejected texts included -/
theorem modstack_empty_between_calls_src {ld : Loader} (hNat : C10.NativeKeepsModstack ld) {fuel : Nat} {senv : EnvId}
    {file : String} {texts : List (List Char)} {s s' : State} (h0 : s.modstack = [])
    (h : runSessionSrc ld fuel senv file texts s = some s') : s'.modstack = [] := by
  rw [runSessionSrc_eq_runSession] at h
  exact C10.modstack_empty_between_calls hNat h0 h

/-- one call: the load stack after the call is the load stack before it, whatever the text -/
theorem interpret_modstack_src {ld : Loader} (hNat : C10.NativeKeepsModstack ld) {fuel : Nat} {senv : EnvId}
    {src : List Char} {file : String} {s s' : State} (h : nextState (interpretSource ld fuel senv src file s) = some s') :
    s'.modstack = s.modstack := by
  cases hp : parseScript src file with
  | error e => rw [(syntax_error_no_residue hp ld fuel senv s).2.2] at h; cases h; rfl
  | ok ast =>
    rw [interpretSource_ok hp, nextState_eq_C10] at h
    exact C10.interpret_modstack hNat (C10.nextState_ends h)

/-- … so a later `require` never reports a circular dependency because of an earlier, failed call -/
theorem no_stale_circular_dependency_src {ld : Loader} (hNat : C10.NativeKeepsModstack ld) {fuel : Nat} {senv : EnvId}
    {file : String} {texts : List (List Char)} {s s' : State} (h0 : s.modstack = [])
    (h : runSessionSrc ld fuel senv file texts s = some s') (ident : String) : s'.modstack.contains ident = false := by
  rw [modstack_empty_between_calls_src hNat h0 h]; rfl

/-! ### bindings persist -/

/-- one call with which the model does not abstain loses nothing: no binding of the session frame, no frame, no
    heap cell -/
theorem interpretSource_mono {ld : Loader} (hN : NativeGrows ld) (fuel : Nat) (senv : EnvId) (src : List Char)
    (file : String) (s : State) (hna : ¬ Abstains (interpretSource ld fuel senv src file s)) :
    Mono senv (fun _ => False) s (finalState (interpretSource ld fuel senv src file s)) := by
  cases hp : parseScript src file with
  | error e => rw [(syntax_error_no_residue hp ld fuel senv s).2.1]; exact Mono.refl s
  | ok ast =>
    rw [interpretSource_ok hp] at hna ⊢
    rw [finalState_eq_stOf, stOf_interpretProg]
    exact eval_mono hN fuel senv ast s (abstains_interpretProg (fun h => hna ((abstains_iff _).2 h)))

theorem runSessionSrc_mono {ld : Loader} (hN : NativeGrows ld) (fuel : Nat) (senv : EnvId) (file : String) :
    ∀ (texts : List (List Char)) (s s' : State), runSessionSrc ld fuel senv file texts s = some s' →
      Mono senv (fun _ => False) s s' := by
  intro texts
  induction texts with
  | nil => intro s s' h; cases h; exact Mono.refl s
  | cons src rest ih =>
    intro s s' h
    simp only [runSessionSrc] at h
    cases hn : nextState (interpretSource ld fuel senv src file s) with
    | none => rw [hn] at h; cases h
    | some s1 =>
      rw [hn] at h
      obtain ⟨hs1, hna⟩ := nextState_eq_some hn
      have h1 := interpretSource_mono hN fuel senv src file s hna
      rw [← hs1] at h1
      exact h1.trans (ih s1 s' h)

/-- **session_bindings_persist_src** (`C10S.session_bindings_persist` over texts): across any session of texts on
    one interpreter — texts the front end rejects and calls that end with a runtime error included — EVERY name bound
    in the session frame stays bound, and visible to a lookup from the session frame -/
theorem session_bindings_persist_src {ld : Loader} (hN : NativeGrows ld) {fuel : Nat} {senv : EnvId} {file : String}
    {texts : List (List Char)} {s s' : State} (h : runSessionSrc ld fuel senv file texts s = some s')
    {x : String} (hx : x ≠ "") (hb : dictHas x (s.frame senv).vars = true) :
    dictHas x (s'.frame senv).vars = true ∧ s'.isDefined senv x = true := by
  have := (runSessionSrc_mono hN fuel senv file texts s s' h).bound x hx (fun h => h) hb
  exact ⟨this, isDefined_of_dictHas this⟩

/-- across any session of texts nothing is deallocated -/
theorem session_never_shrinks_src {ld : Loader} (hN : NativeGrows ld) {fuel : Nat} {senv : EnvId} {file : String}
    {texts : List (List Char)} {s s' : State} (h : runSessionSrc ld fuel senv file texts s = some s') :
    NeverShrinks s s' :=
  NeverShrinks.of_mono (runSessionSrc_mono hN fuel senv file texts s s' h)

/-! ### a definition made by a call that fails later on -/

/-- the final state of a top-level block without handlers and `finally` part (what the parser delivers for a text
    of several statements): the state in which its statement sequence ended, with the block's ghost counter -/
theorem toplevel_block_final_state (ld : Loader) (F : Nat) (env : EnvId) (es : List Node) (tl : Bool) (pos : Pos)
    (s : State) (hna : ¬ C10S.Abstains (evalBody ld (F + 1) env es (.bool true) (ghostEnter s pos))) :
    stOf (eval ld (F + 2) env (.block es [] [] [] tl pos) s) =
      ghostFin (stOf (evalBody ld (F + 1) env es (.bool true) (ghostEnter s pos))) pos := by
  simp only [eval]
  cases hb : evalBody ld (F + 1) env es (.bool true) (ghostEnter s pos) with
  | ok v s1 => simp only [C10S.evalFinally_nil ld]; rfl
  | err v m p t s1 => simp only [C10S.tryHandlers_none ld, C10S.evalFinally_nil ld]; rfl
  | fail f s1 =>
    cases f with
    | oof => rw [hb] at hna; exact absurd trivial hna
    | unsupported w => rw [hb] at hna; exact absurd trivial hna
    | host k => simp only [C10S.evalFinally_nil ld]; rfl
    | syn e => simp only [C10S.evalFinally_nil ld]; rfl

/-- **definition_survives_failed_call_src** (`C10S.definition_survives_failed_call` over texts).  The text `src`
    is a sequence of statements (its AST is the top-level block `pre ++ [def x = e] ++ post`); the statements `pre`
    ran completely, then `def x = e` succeeded; whatever the rest `post` of that call does — in particular: fail with
    a runtime error — and whatever the later texts `texts` of the session are and do (rejected by the front end,
    failing, succeeding): `x` is still defined in the session frame afterwards. -/
theorem definition_survives_failed_call_src {ld : Loader} (hN : NativeGrows ld) {F fuel : Nat} {senv : EnvId}
    {file : String} {src : List Char} {pre post : List Node} {x : String} {e : Node} {info : String} {pos bpos : Pos}
    {tl : Bool} {s s1 s2 s' : State} {v v1 : RVal} {texts : List (List Char)}
    (he : senv < s.frames.size) (hx : x ≠ "")
    (hp : parseScript src file = .ok (.block (pre ++ .defn x e info pos :: post) [] [] [] tl bpos))
    (hpre : RanAll ld (F + 1) senv pre (.bool true) (ghostEnter s bpos) v s1)
    (hdef : eval ld (F + 1 - pre.length - 1) senv (.defn x e info pos) s1 = .ok v1 s2)
    (hna : ¬ Abstains (interpretSource ld (F + 2) senv src file s))
    (hrun : runSessionSrc ld fuel senv file texts (finalState (interpretSource ld (F + 2) senv src file s)) = some s') :
    s'.isDefined senv x = true := by
  -- `x` is bound after the definition
  have hm0 : senv < (ghostEnter s bpos).frames.size := he
  have hm1 := (evalBody_post hN (F + 1) senv pre (.bool true) (ghostEnter s bpos) (fun _ => True)).all
  rw [hpre.1] at hm1
  have he1 : senv < s1.frames.size := Nat.lt_of_lt_of_le hm0 hm1.frames
  have hd := def_persists hN he1 hdef
  have hb2 : dictHas x (s2.frame senv).vars = true := by simp only [dictHas, hd.1]; rfl
  -- the rest of the statement sequence runs from `s2`
  obtain ⟨hlt, heq⟩ := evalBody_append ld pre (F + 1) senv (.defn x e info pos :: post) (.bool true)
    (ghostEnter s bpos) v s1 hpre
  obtain ⟨g, hg⟩ : ∃ g, F + 1 - pre.length = g + 1 := ⟨F + 1 - pre.length - 1, by omega⟩
  have hg' : g = F + 1 - pre.length - 1 := by omega
  rw [hg, evalBody_cons, hg', hdef] at heq
  -- the call does not abstain, so neither does its statement sequence
  rw [interpretSource_ok hp] at hna hrun
  have hna1 : ¬ C10S.Abstains (eval ld (F + 2) senv (.block (pre ++ .defn x e info pos :: post) [] [] [] tl bpos) s) :=
    abstains_interpretProg (fun h => hna ((abstains_iff _).2 h))
  have hnab : ¬ C10S.Abstains (evalBody ld (F + 1) senv (pre ++ .defn x e info pos :: post) (.bool true)
      (ghostEnter s bpos)) := by
    intro hab
    apply hna1
    simp only [eval]
    cases hb : evalBody ld (F + 1) senv (pre ++ .defn x e info pos :: post) (.bool true) (ghostEnter s bpos) with
    | ok v s1 => rw [hb] at hab; exact hab.elim
    | err v m p t s1 => rw [hb] at hab; exact hab.elim
    | fail f s1 =>
      cases f with
      | oof => exact trivial
      | unsupported w => exact trivial
      | host k => rw [hb] at hab; exact hab.elim
      | syn e => rw [hb] at hab; exact hab.elim
  -- `x` is still bound when the statement sequence has ended
  have hb3 : dictHas x ((stOf (evalBody ld (F + 1) senv (pre ++ .defn x e info pos :: post) (.bool true)
      (ghostEnter s bpos))).frame senv).vars = true := by
    rw [heq] at hnab ⊢
    by_cases hc : isCtl v1 = true
    · simp only [hc, if_true]; exact hb2
    · simp only [hc] at hnab ⊢
      exact (evalBody_mono hN _ senv post v1 s2 hnab).bound x hx (fun h => h) hb2
  -- … hence in the state the call leaves
  have hfin : dictHas x ((finalState (interpretProg ld (F + 2) senv
      (.block (pre ++ .defn x e info pos :: post) [] [] [] tl bpos) s)).frame senv).vars = true := by
    rw [finalState_eq_stOf, stOf_interpretProg, toplevel_block_final_state ld F senv _ tl bpos s hnab]
    exact hb3
  exact (session_bindings_persist_src hN hrun hx hfin).2

/-! ### a failed call repeated -/

/-- one `interpret` call as the driver runs it: the output buffer is reset first (`C10S.Session.step`) -/
def stepSrc (ld : Loader) (fuel : Nat) (senv : EnvId) (file : String) (src : List Char) (s : State) : Out RVal :=
  interpretSource ld fuel senv src file { s with out := [] }

theorem stepSrc_of_parse {ld : Loader} {fuel : Nat} {senv : EnvId} {file : String} {src : List Char} {ast : Node}
    (hp : parseScript src file = .ok ast) (s : State) :
    stepSrc ld fuel senv file src s = Session.step ld fuel senv ast s := by
  unfold stepSrc Session.step; rw [interpretSource_ok hp]

/-- **failed_call_same_error_again_src** (`C10S.failed_call_same_error_again` over texts).  A call on the text
    `src` fails with a runtime error from state `s` and leaves `s'`.  If the text changed nothing before failing —
    `s'` and `s` agree on everything but the output buffer — repeating the call fails with the same error value,
    message, position and trace and leaves the same state again. -/
theorem failed_call_same_error_again_src {ld : Loader} {fuel : Nat} {senv : EnvId} {file : String} {src : List Char}
    {s s' : State} {v : RVal} {m : String} {p : Pos} {t : List (String × Pos)}
    (h : stepSrc ld fuel senv file src s = .err v m p t s') (hsame : { s' with out := [] } = { s with out := [] }) :
    stepSrc ld fuel senv file src s' = .err v m p t s' := by
  unfold stepSrc at h ⊢
  rw [hsame]; exact h

/-- the full form (`C10S.failed_call_same_error_again_ghost`): `s'` may also differ from `s` in the ghost counters
    of the model, as it does for every text of several statements -/
theorem failed_call_same_error_again_ghost_src {ld : Loader} (hN : NativeGhostFree ld) {fuel : Nat} {senv : EnvId}
    {file : String} {src : List Char} {s s' : State} {v : RVal} {m : String} {p : Pos} {t : List (String × Pos)}
    (h : stepSrc ld fuel senv file src s = .err v m p t s') (hsame : SameButGhostOut s' s) :
    ∃ s'', stepSrc ld fuel senv file src s' = .err v m p t s'' ∧ er s'' = er s' := by
  cases hp : parseScript src file with
  | error e => unfold stepSrc at h; rw [interpretSource_error hp] at h; cases h
  | ok ast =>
    rw [stepSrc_of_parse hp] at h ⊢
    exact failed_call_same_error_again_ghost hN h hsame

/-- the outcome of a call is a function of the loader, the text, the file name and the state -/
theorem interpret_deterministic {ld : Loader} {fuel : Nat} {senv : EnvId} {file : String} {src : List Char} {s : State}
    {o₁ o₂ : Out RVal} (h₁ : interpretSource ld fuel senv src file s = o₁)
    (h₂ : interpretSource ld fuel senv src file s = o₂) : o₁ = o₂ := h₁.symm.trans h₂

/-! ### non-vacuity -/

namespace Ex10
def st0 : State × EnvId := initialState true modelledNatives
def sess (texts : List String) : Option State := runSessionSrc C05.ldBroken 100 st0.2 "t.ckl" (texts.map String.toList) st0.1

-- a rejected text leaves the state as it is: the session with it ends in the same bindings as the one without
#guard (match sess ["def x = 1", "def y = (", "x + 1"], sess ["def x = 1", "x + 1"] with
  | some a, some b => a.isDefined st0.2 "x" && !a.isDefined st0.2 "y" && (a.frame st0.2).vars.length == (b.frame st0.2).vars.length
  | _, _ => false)
-- a session with a failing middle call (runtime error after the definition of `y`), then a rejected text, then a
-- call that uses both definitions
#guard (match sess ["def x = 1", "def y = 2; error 'boom'; def z = 3", "1 +"] with
  | some a => (match interpretSource C05.ldBroken 100 st0.2 "x + y".toList "t.ckl" a with
      | .ok (.int 3) a' => !a'.isDefined st0.2 "z" | _ => false)
  | none => false)
-- failed `require`s (a module that does not parse; a module that does not exist) and the load stack
#guard (match sess ["require broken", "require missing", "1 +", "require broken"] with
  | some a => a.modstack.isEmpty | none => false)
-- the same failing call twice: the same error
#guard (match stepSrc {} 100 st0.2 "t.ckl" "error 'boom'".toList st0.1 with
  | .err v m p t s' => (match stepSrc {} 100 st0.2 "t.ckl" "error 'boom'".toList s' with
      | .err v' m' p' t' _ => m == m' && p == p' && t.length == t'.length &&
          (match v, v' with | .str a, .str b => a == b | _, _ => false)
      | _ => false)
  | _ => false)

example : C10.NativeKeepsModstack C05.ldBroken := C10.ldBroken_keeps
example : NativeGrows ({} : Loader) := default_nativeGrows
example {texts s'} (h : runSessionSrc C05.ldBroken 100 st0.2 "t.ckl" texts st0.1 = some s') (h0 : st0.1.modstack = []) :
    s'.modstack = [] := modstack_empty_between_calls_src C10.ldBroken_keeps h0 h

/-- `1 +` is rejected (explicit character list) -/
def onePlus : List Char := ['1', '+']
theorem onePlus_scan : Lexer.scan onePlus "f" = .ok [⟨['1'], .int, ⟨"f", 1, 1⟩⟩, ⟨['+'], .operator, ⟨"f", 1, 3⟩⟩] := by
  with_unfolding_all rfl
theorem onePlus_rejected : ∃ e, parseScript onePlus "f" = .error e := by
  obtain ⟨e, he⟩ := C01.parse_one_plus_error
  exact ⟨e, (parseScript_of_scan_ok onePlus_scan).trans he⟩
example (ld : Loader) (fuel : Nat) (senv : EnvId) (s : State) :
    ∃ e, interpretSource ld fuel senv onePlus "f" s = .fail (.syn e) s := by
  obtain ⟨e, he⟩ := onePlus_rejected
  exact ⟨e, (syntax_error_no_residue he ld fuel senv s).1⟩
example (ld : Loader) (fuel : Nat) (senv : EnvId) (pre post : List (List Char)) (s : State) :
    runSessionSrc ld fuel senv "f" (pre ++ onePlus :: post) s = runSessionSrc ld fuel senv "f" (pre ++ post) s := by
  obtain ⟨e, he⟩ := onePlus_rejected
  exact session_rejected_text_skipped ld fuel senv "f" pre post he s

/-! an instance of `definition_survives_failed_call_src`: the text `def x = 1; error 2` (scanned and parsed in the
    kernel, `Lemmas/E2EDefErr.lean`) on a fresh interpreter (base frame 0, session frame 1), followed by any texts -/
def sI : State := (initialState true []).1
/-- … after `def x = 1` inside the top-level block -/
def sX : State := (ghostEnter sI ⟨"f", 1, 1⟩).put 1 "x" (.int 1)

theorem defErr_outcome : interpretSource {} 5 1 defErrText "f" sI
    = .err (.int 2) "" ⟨"f", 1, 12⟩ [] (ghostFin sX ⟨"f", 1, 1⟩) := by
  rw [interpretSource_ok defErr_parseScript]; with_unfolding_all rfl

example {texts : List (List Char)} {s' : State}
    (h : runSessionSrc {} 50 1 "f" texts (finalState (interpretSource {} 5 1 defErrText "f" sI)) = some s') :
    s'.isDefined 1 "x" = true :=
  definition_survives_failed_call_src (F := 3) (pre := []) (post := [nErr2]) (x := "x") (e := .lit (.int 1) ⟨"f", 1, 9⟩)
    (info := "") (pos := ⟨"f", 1, 1⟩) (bpos := ⟨"f", 1, 1⟩) (tl := true) (s := sI)
    (s1 := ghostEnter sI ⟨"f", 1, 1⟩) (s2 := sX) (v := .bool true) (v1 := .int 1)
    default_nativeGrows (by decide) (by decide) defErr_parseScript
    ⟨by with_unfolding_all rfl, fun h => absurd rfl h⟩ (by with_unfolding_all rfl)
    (by rw [defErr_outcome]; simp [Abstains, kind]) h
-- the hypothesis on the later texts is met, e.g. by a rejected text followed by a use of `x`
#guard (runSessionSrc {} 50 1 "f" ["1 +".toList, "x".toList] (finalState (interpretSource {} 5 1 defErrText "f" sI))).isSome
end Ex10

end Ckl.E2E
