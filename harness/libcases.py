#!/venv/bin/python
"""Validation of the Lean model of the collection / numeric library functions (C19)
against the real interpreter.   usage: validate_lib.py [seed] [scale]
Every real-interpreter call runs in a worker process under an alarm; the whole run under `timeout`."""
import sys, os, random, itertools, subprocess, signal, collections, time
from harness import proto
from multiprocessing import Pool



def gen_cases(SEED, SCALE):
    """(func, driver request, program text, variables) for the C19 correspondence and oracle"""
    g = {"SEED": SEED, "SCALE": SCALE, "random": random, "itertools": itertools, "proto": proto}
    exec(_GEN_SOURCE, g)
    return g["CASES"]


_GEN_SOURCE = r'''
rnd = random.Random(SEED)

I = lambda n: ('i', n)
D = lambda x: ('d', x)
S = lambda s: ('s', s)
L = lambda *xs: ('l', tuple(xs))

BIG = [2**64, 2**64 + 1, -2**64, 2**80, -2**80 + 3, 2**63 - 1]

def r_int():
    c = rnd.random()
    if c < 0.6:
        return I(rnd.randint(-3, 4))
    if c < 0.8:
        return I(rnd.randint(-40, 40))
    return I(rnd.choice(BIG))

def r_num():
    c = rnd.random()
    if c < 0.6:
        return r_int()
    return D(rnd.choice([1.0, 2.0, 0.0, -1.0, 0.5, 3.0, 4.0, -2.0, 2.5, 18446744073709551616.0]))

def r_str():
    return S(rnd.choice(['', 'a', 'b', 'ab', 'ba', 'A', "x'y", '1']))

def r_intlist(maxlen=4):
    return L(*[r_int() for _ in range(rnd.randint(0, maxlen))])

def r_any(depth=1):
    c = rnd.random()
    if c < 0.45:
        return r_num()
    if c < 0.65:
        return r_str()
    if c < 0.72:
        return ('b', rnd.random() < 0.5)
    if c < 0.76:
        return ('null',)
    if depth > 0:
        return L(*[r_any(depth - 1) for _ in range(rnd.randint(0, 3))])
    return r_int()

def r_list(gen, maxlen=8):
    return L(*[gen() for _ in range(rnd.randint(0, maxlen))])

def r_set(gen, maxlen=8):
    return ('S', tuple(gen() for _ in range(rnd.randint(0, maxlen))))

def r_coll_homog():
    """a list or a set with elements of one kind (numeric incl. 1 vs 1.0, strings, int lists)"""
    gen = rnd.choice([r_num, r_num, r_int, r_str, r_intlist])
    return (r_list if rnd.random() < 0.5 else r_set)(gen)

def r_coll_pair():
    gen = rnd.choice([r_num, r_num, r_int, r_str, r_intlist])
    mk = lambda: (r_list if rnd.random() < 0.5 else r_set)(gen)
    return mk(), mk()

CASES = []   # (func, request, src, env)

def add(func, req, src, **env):
    CASES.append((func, req, src, env))

def n(k):
    return max(1, int(k * SCALE))

sx = proto.to_sx

# ------------------------------------------------------------------ sets
for op, name in [('union', 'union'), ('intersection', 'intersection'), ('diff', 'diff'), ('symdiff', 'symmetric_diff')]:
    for _ in range(n(2500)):
        a, b = r_coll_pair()
        add(name, f"(lib {op} {sx(a)} {sx(b)})", f"{name}(a, b)", a=a, b=b)
    for _ in range(n(500)):          # mixed kinds, lists only
        a, b = r_list(r_any, 6), r_list(r_any, 6)
        add(name, f"(lib {op} {sx(a)} {sx(b)})", f"{name}(a, b)", a=a, b=b)

# ------------------------------------------------------------------ unique / filter / map / grouped with the menu
UN = {'id': 'identity', 'neg': 'fn(x) 0 - x', 'mod3': 'fn(x) x % 3', 'first': 'fn(x) x[0]', 'isEven': 'is_even'}
def gen_for_key(k):
    if k == 'id':
        return rnd.choice([lambda: r_list(r_any), lambda: r_list(r_num), lambda: r_list(r_str)])()
    if k == 'neg':
        return r_list(r_num)
    if k == 'mod3':
        return r_list(r_int)
    if k == 'first':
        return r_list(lambda: rnd.choice([L(r_num(), r_str()), L(r_num()), r_intlist(3), r_str(), L(r_int(), r_int())]))
    if k == 'isEven':
        return r_list(r_any)
for k in ['id', 'neg', 'mod3', 'first', 'isEven']:
    for _ in range(n(1200)):
        a = gen_for_key(k)
        add('unique', f"(lib unique {k} {sx(a)})", f"unique(a, key = {UN[k]})", a=a)
    for _ in range(n(500)):
        a = gen_for_key(k)
        add('map_list', f"(lib map {k} {sx(a)})", f"map_list(a, {UN[k]})", a=a)
    for _ in range(n(500)):
        a = gen_for_key(k)
        add('filter', f"(lib filter isEven {k} {sx(a)})", f"filter(a, is_even, key = {UN[k]})", a=a)
CMP = {'compare': 'compare', 'near': 'fn(a, b) if abs(a - b) <= 1 then 0 else 1', 'never': 'fn(a, b) 1'}
for c in CMP:
    for k in (['id', 'neg', 'mod3', 'first'] if c == 'compare' else ['id', 'neg', 'mod3']):
        for _ in range(n(500)):
            a = r_list(r_int) if c == 'near' else gen_for_key(k)
            if a[0] == 'S':
                continue
            add('grouped', f"(lib grouped {c} {k} {sx(a)})", f"grouped(a, cmp = {CMP[c]}, key = {UN[k]})", a=a)
# sorted-then-grouped inputs (long runs)
for _ in range(n(600)):
    a = L(*sorted([r_int() for _ in range(rnd.randint(0, 8))], key=lambda v: v[1]))
    add('grouped', f"(lib grouped compare id {sx(a)})", "grouped(a)", a=a)

# ------------------------------------------------------------------ plain list functions
for _ in range(n(1500)):
    a = r_list(r_any)
    add('reverse', f"(lib reverse {sx(a)})", "require List; List->reverse(a)", a=a)
    add('flatten', f"(lib flatten {sx(a)})", "flatten(a)", a=a)
    add('enumerate', f"(lib enumerate {sx(a)})", "enumerate(a)", a=a)
    add('pairs', f"(lib pairs {sx(a)})", "pairs(a)", a=a)
    add('first', f"(lib first {sx(a)})", "first(a)", a=a)
    add('last', f"(lib last {sx(a)})", "last(a)", a=a)
    add('rest', f"(lib rest {sx(a)})", "rest(a)", a=a)
    b = r_list(r_any)
    add('zip', f"(lib zip {sx(a)} {sx(b)})", "zip(a, b)", a=a, b=b)
    x = rnd.choice(a[1]) if a[1] and rnd.random() < 0.7 else r_any()
    add('count', f"(lib count {sx(a)} {sx(x)})", "count(a, x)", a=a, x=x)
    k = rnd.randint(-1, 9)
    add('chunks', f"(lib chunks {sx(a)} (i {k}))", "chunks(a, k)", a=a, k=I(k))
for _ in range(n(800)):
    a = r_list(r_num)
    x = r_num()
    add('count', f"(lib count {sx(a)} {sx(x)})", "count(a, x)", a=a, x=x)
for ln in range(0, 9):
    for k in range(-1, 11):
        a = L(*[I(i) for i in range(ln)])
        add('chunks', f"(lib chunks {sx(a)} (i {k}))", "chunks(a, k)", a=a, k=I(k))
for _ in range(n(1500)):
    a = r_list(r_int)
    for f, src in [('add', 'add'), ('mul', 'mul'), ('max2', 'max')]:
        add('reduce', f"(lib reduce {f} {sx(a)})", f"reduce(a, {src})", a=a)
    add('sum', f"(lib sum {sx(a)})", "sum(a)", a=a)
    add('prod', f"(lib prod {sx(a)})", "prod(a)", a=a)
    add('any', f"(lib any isEven {sx(a)})", "any(a, is_even)", a=a)
    add('all', f"(lib all isEven {sx(a)})", "all(a, is_even)", a=a)
for _ in range(n(500)):
    a = r_list(r_any)
    add('sum', f"(lib sum {sx(a)})", "sum(a)", a=a)
    add('any', f"(lib any isEven {sx(a)})", "any(a, is_even)", a=a)
    add('all', f"(lib all isEven {sx(a)})", "all(a, is_even)", a=a)
    b = r_list(lambda: ('b', rnd.random() < 0.5), 5)
    add('any', f"(lib any id {sx(b)})", "any(b)", b=b)
    add('all', f"(lib all id {sx(b)})", "all(b)", b=b)

# ------------------------------------------------------------------ permutations (Heap's algorithm): all lengths 0..6, duplicates, mixed values
for ln in range(0, 7):
    a = L(*[I(i) for i in range(ln)])
    add('permutations', f"(lib permutations {sx(a)})", "permutations(a)", a=a)
for _ in range(n(150)):
    a = r_list(r_any, 5)
    add('permutations', f"(lib permutations {sx(a)})", "permutations(a)", a=a)

# ------------------------------------------------------------------ range / interval
for a in range(-6, 7):
    for b in range(-6, 7):
        for s in range(-4, 5):
            add('range', f"(lib range (i {a}) (i {b}) (i {s}))", "range(a, b, s)", a=I(a), b=I(b), s=I(s))
        add('interval', f"(lib interval (i {a}) (i {b}))", "interval(a, b)", a=I(a), b=I(b))
for _ in range(n(600)):
    base = rnd.choice(BIG)
    a = base + rnd.randint(-20, 20); b = base + rnd.randint(-20, 20); s = rnd.choice([1, 2, 3, 7, -1, -2, -5, 0, 2**70, -2**70])
    add('range', f"(lib range (i {a}) (i {b}) (i {s}))", "range(a, b, s)", a=I(a), b=I(b), s=I(s))
    add('interval', f"(lib interval (i {a}) (i {b}))", "interval(a, b)", a=I(a), b=I(b))

# ------------------------------------------------------------------ statistics: all permutations of lists of length <= 5
BASES = [[], [5], [1, 2], [2, 2], [2, -3], [1, 2, 3], [1, 1, 2], [7, 7, 7], [3, 1, 2, 2], [1, 2, 3, 4], [-1, -1, 4, 4],
         [2**70, -2**70, 3, 3], [1, 2, 3, 4, 5], [1, 1, 2, 2, 3], [-1, 2**64, 2**64 + 1, 0, 7], [0, 0, 0, 1, -1],
         [2**80, 2**80 + 2, 5, -2**80, 1], [10, 20, 30, 41], [2**64 + 1, 2**64 + 2],
         # ints next to decimals whose text order differs from the numeric order
         [2.5, 10], [-1.5, -1], [9.5, 10, 1], [1, 2.5, 10, 0.5], [100, 20.5, 3], [10, 9.5, 100.25, 2], [-10, -9.5, -100.5]]
for _ in range(n(12)):
    BASES.append([rnd.randint(-9, 9) for _ in range(rnd.randint(3, 5))])
for base in BASES:
    for p in sorted(set(itertools.permutations(base))):
        a = L(*[(I(x) if isinstance(x, int) else D(x)) for x in p])
        for f in ['mean', 'median', 'median_low', 'median_high', 'min', 'max']:
            add(f, f"(lib {f} {sx(a)})", f"{f}(a)", a=a)

# ------------------------------------------------------------------ integer functions
POOL = [0, 1, -1, 2, -2, 3, -3, 7, -7, 12, -12, 18, 30, -30, 2**31, -2**31, 2**32, -2**32, 2**64 - 1, -(2**64 - 1), 2**64, -2**64,
        2**80, -2**80, 2**80 - 1, -(2**80 - 1), 3**40, -3**40, 6 * 2**70, -(6 * 2**70)]
for _ in range(n(24)):
    POOL.append(rnd.randint(-2**80, 2**80))
for a in POOL:
    for b in POOL:
        for f in ['gcd', 'lcm', 'div', 'mod']:
            add(f, f"(lib {f} (i {a}) (i {b}))", f"{f}(a, b)", a=I(a), b=I(b))
    for f in ['abs', 'sign', 'is_even', 'is_odd']:
        add(f, f"(lib {f} (i {a}))", f"{f}(a)", a=I(a))
    for e in list(range(0, 8)) + [13, 31, 64]:
        add('pow', f"(lib pow (i {a}) (i {e}))", "pow(a, b)", a=I(a), b=I(e))
# consecutive Fibonacci numbers: the worst case of the recursive gcd
fib = [1, 1]
while fib[-1] < 2**80:
    fib.append(fib[-1] + fib[-2])
for i in range(2, len(fib) - 1, 3):
    add('gcd', f"(lib gcd (i {fib[i+1]}) (i {fib[i]}))", "gcd(a, b)", a=I(fib[i + 1]), b=I(fib[i]))
    add('lcm', f"(lib lcm (i {fib[i+1]}) (i {-fib[i]}))", "lcm(a, b)", a=I(fib[i + 1]), b=I(-fib[i]))

# ------------------------------------------------------------------ bit functions
WORDS = [0, 1, 2, 0x7FFFFFFF, 0x80000000, 0xFFFFFFFF, 0xAAAAAAAA, 0x55555555, 0x12345678]
EXTRA = [-1, -2, -0x80000000, -0xFFFFFFFF, -0x12345678, 2**32, 2**32 + 5, 2**40 + 0x12345678, -2**40 - 3, 2**64 + 0xAAAAAAAA, -2**64, -(2**70) + 0x55555555]
for a in WORDS + EXTRA:
    for b in WORDS + EXTRA:
        for f in ['bit_and', 'bit_or', 'bit_xor']:
            add(f, f"(lib {f} (i {a}) (i {b}))", f"{f}(a, b)", a=I(a), b=I(b))
    add('bit_not', f"(lib bit_not (i {a}))", "bit_not(a)", a=I(a))
for _ in range(n(600)):
    a = rnd.randint(-2**70, 2**70); b = rnd.randint(-2**70, 2**70)
    if rnd.random() < 0.5:
        a = rnd.randint(-2**33, 2**33)
    for f in ['bit_and', 'bit_or', 'bit_xor']:
        add(f, f"(lib {f} (i {a}) (i {b}))", f"{f}(a, b)", a=I(a), b=I(b))
    add('bit_not', f"(lib bit_not (i {a}))", "bit_not(a)", a=I(a))
for a in WORDS + EXTRA:
    for c in list(range(-40, 41)) + [64, 65, 95, 96, 97, -64, -65, 2**40 + 3, -2**40 - 3]:
        for f, name in [('rotl', 'bit_rotate_left'), ('rotr', 'bit_rotate_right')]:
            add(name, f"(lib {f} (i {a}) (i {c}))", f"{name}(a, n)", a=I(a), n=I(c))
        if c <= 100:
            for f, name in [('shl', 'bit_shift_left'), ('shr', 'bit_shift_right')]:
                add(name, f"(lib {f} (i {a}) (i {c}))", f"{name}(a, n)", a=I(a), n=I(c))


'''


def model_form(func, line):
    x = proto.parse_sx(line)
    if x == ['err']:
        return ('err',)
    if x == ['unsupported']:
        return ('unsupported',)
    if x[0] != 'ok':
        return ('bad', line[:100])
    y = x[1]
    if isinstance(y, list) and y and y[0] == 'q':
        num, den = int(y[1]), int(y[2])
        return ('ok', proto.enum_form(('d', float(num) / float(den))))
    return ('ok', proto.enum_form(proto.from_sx(y)))

