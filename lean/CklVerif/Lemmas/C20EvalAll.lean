import CklVerif.Lemmas.C20EvalEval

/-! C20 (evaluator part) — the induction on the fuel. -/
namespace Ckl
set_option linter.unusedVariables false

variable {P : Pos → Prop} {ld : Loader} {fuel : Nat}

theorem pAll_zero (P : Pos → Prop) (ld : Loader) : PAll P ld 0 := by
  constructor <;> intros <;> first
    | (unfold Ckl.eval; exact PosOK.failM _)
    | (unfold Ckl.evalAnd; exact PosOK.failM _)
    | (unfold Ckl.evalOr; exact PosOK.failM _)
    | (unfold Ckl.evalIf; exact PosOK.failM _)
    | (unfold Ckl.evalSeq; exact PosOK.failM _)
    | (unfold Ckl.evalItems; exact PosOK.failM _)
    | (unfold Ckl.evalPairs; exact PosOK.failM _)
    | (unfold Ckl.evalBody; exact PosOK.failM _)
    | (unfold Ckl.evalFinally; exact PosOK.failM _)
    | (unfold Ckl.tryHandlers; exact PosOK.failM _)
    | (unfold Ckl.invoke; exact PosOK.failM _)
    | (unfold Ckl.evalArgs; exact PosOK.failM _)
    | (unfold Ckl.callFn; exact PosOK.failM _)
    | (unfold Ckl.bindParams; exact PosOK.failM _)
    | (unfold Ckl.evalFor; exact PosOK.failM _)
    | (unfold Ckl.forItems; exact PosOK.failM _)
    | (unfold Ckl.forListLive; exact PosOK.failM _)
    | (unfold Ckl.forString; exact PosOK.failM _)
    | (unfold Ckl.whileLoop; exact PosOK.failM _)
    | (unfold Ckl.comprStep; exact PosOK.failM _)
    | (unfold Ckl.comprLoop; exact PosOK.failM _)
    | (unfold Ckl.comprProduct; exact PosOK.failM _)
    | (unfold Ckl.comprParallel; exact PosOK.failM _)
    | (unfold Ckl.nativeSorted; exact PosOK.failM _)
    | (unfold Ckl.sortedOuter; exact PosOK.failM _)
    | (unfold Ckl.sortedInner; exact PosOK.failM _)
    | (unfold Ckl.call1; exact PosOK.failM _)
    | (unfold Ckl.call2; exact PosOK.failM _)
    | (unfold Ckl.evalRequire; exact PosOK.failM _)
    | (unfold Ckl.loadModule; exact PosOK.failM _)

theorem pAll_succ (ctx : Ctx P ld) (ih : PAll P ld fuel) : PAll P ld (fuel + 1) where
  eval := eval_step ctx ih
  evalAnd := evalAnd_step ctx ih
  evalOr := evalOr_step ctx ih
  evalIf := evalIf_step ctx ih
  evalSeq := evalSeq_step ctx ih
  evalItems := evalItems_step ctx ih
  evalPairs := evalPairs_step ctx ih
  evalBody := evalBody_step ctx ih
  evalFinally := evalFinally_step ctx ih
  tryHandlers := tryHandlers_step ctx ih
  invoke := invoke_step ctx ih
  evalArgs := evalArgs_step ctx ih
  callFn := callFn_step ctx ih
  bindParams := bindParams_step ctx ih
  evalFor := evalFor_step ctx ih
  forItems := forItems_step ctx ih
  forListLive := forListLive_step ctx ih
  forString := forString_step ctx ih
  whileLoop := whileLoop_step ctx ih
  comprStep := comprStep_step ctx ih
  comprLoop := comprLoop_step ctx ih
  comprProduct := comprProduct_step ctx ih
  comprParallel := comprParallel_step ctx ih
  nativeSorted := nativeSorted_step ctx ih
  sortedOuter := sortedOuter_step ctx ih
  sortedInner := sortedInner_step ctx ih
  call1 := call1_step ctx ih
  call2 := call2_step ctx ih
  evalRequire := evalRequire_step ctx ih
  loadModule := loadModule_step ctx ih

/-- the evaluator invariant holds for every function of the mutual block at every fuel -/
theorem pAll (ctx : Ctx P ld) : ∀ fuel, PAll P ld fuel
  | 0 => pAll_zero P ld
  | fuel + 1 => pAll_succ ctx (pAll ctx fuel)

end Ckl
