/-
  Layer 1 — the value model.

  `Val` is the tree of *data* values of the language (NULL, booleans, ints,
  decimals, strings, patterns, dates, lists, sets, maps).  It mirrors the
  hand-written `__eq__`, `__lt__`, `__repr__` methods of `src/ckl/values.py`.

  Modelling decisions (see DESIGN.md §3):
  * ints are `Int` (CPython ints are unbounded);
  * a decimal is the exact dyadic rational `m / 2^e` that the IEEE double
    denotes; equality and order between ints and decimals are exact, as in
    CPython (`int.__eq__(float)` compares exactly);
  * strings are lists of code points;
  * a set / map is stored in its enumeration order (the order
    `getSortedItems` / `getSortedKeys` produce); `mkSet` / `mkMap` build that
    order from an arbitrary (hash) order.
-/
namespace Ckl

structure DT where
  y  : Nat
  mo : Nat
  d  : Nat
  h  : Nat
  mi : Nat
  s  : Nat
  us : Nat
deriving DecidableEq, Repr, Inhabited

inductive Val where
  | null
  | bool (b : Bool)
  | int (n : Int)
  | dec (m : Int) (e : Nat)
  | str (s : List Char)
  | pat (s : List Char)
  | date (d : DT)
  | list (xs : List Val)
  | set (xs : List Val)
  | map (kvs : List (Val × Val))
deriving Inhabited, Repr

namespace Val

def typeName : Val → String
  | null => "null"
  | bool _ => "boolean"
  | int _ => "int"
  | dec _ _ => "decimal"
  | str _ => "string"
  | pat _ => "pattern"
  | date _ => "date"
  | list _ => "list"
  | set _ => "set"
  | map _ => "map"

def isNumerical : Val → Bool
  | int _ => true
  | dec _ _ => true
  | _ => false

def isAtomic : Val → Bool
  | list _ => false
  | set _ => false
  | map _ => false
  | _ => true

end Val

/-! ### numbers: exact dyadic comparison -/

/-- `a / 2^p < b / 2^q`, by cross multiplication. -/
def numLt (a : Int) (p : Nat) (b : Int) (q : Nat) : Bool :=
  decide (a * (2 : Int) ^ q < b * (2 : Int) ^ p)

def numEq (a : Int) (p : Nat) (b : Int) (q : Nat) : Bool :=
  decide (a * (2 : Int) ^ q = b * (2 : Int) ^ p)

/-- numerator and binary exponent of a numerical value -/
def Val.num? : Val → Option (Int × Nat)
  | .int n => some (n, 0)
  | .dec m e => some (m, e)
  | _ => none

/-! ### strings: code-point lexicographic order (CPython `str.__lt__`) -/

def strLt : List Char → List Char → Bool
  | [], [] => false
  | [], _ :: _ => true
  | _ :: _, [] => false
  | a :: as, b :: bs =>
    if a.toNat < b.toNat then true
    else if b.toNat < a.toNat then false
    else strLt as bs

/-! ### dates: `datetime.__lt__` is lexicographic on the fields -/

def DT.toList (d : DT) : List Nat := [d.y, d.mo, d.d, d.h, d.mi, d.s, d.us]

def natListLt : List Nat → List Nat → Bool
  | [], [] => false
  | [], _ :: _ => true
  | _ :: _, [] => false
  | a :: as, b :: bs => if a < b then true else if b < a then false else natListLt as bs

def DT.lt (a b : DT) : Bool := natListLt a.toList b.toList

/-! ### equality (`__eq__`) -/

mutual
  def veq : Val → Val → Bool
    | .null, .null => true
    | .bool a, .bool b => a == b
    | .int a, .int b => decide (a = b)
    | .int a, .dec m e => numEq a 0 m e
    | .dec m e, .int b => numEq m e b 0
    | .dec m e, .dec m' e' => numEq m e m' e'
    | .str a, .str b => a == b
    | .pat a, .pat b => a == b
    | .date a, .date b => a == b
    | .list a, .list b => veqL a b
    | .set a, .set b => veqL a b
    | .map a, .map b => veqM a b
    | _, _ => false
  def veqL : List Val → List Val → Bool
    | [], [] => true
    | x :: xs, y :: ys => veq x y && veqL xs ys
    | _, _ => false
  def veqM : List (Val × Val) → List (Val × Val) → Bool
    | [], [] => true
    | (k, v) :: xs, (k', v') :: ys => veq k k' && veq v v' && veqM xs ys
    | _, _ => false
end

/-! ### rendering (`__repr__`) -/

def escapeChar (c : Char) : List Char :=
  if c = '\\' then ['\\', '\\']
  else if c = '\'' then ['\\', '\'']
  else if c = '\r' then ['\\', 'r']
  else if c = '\n' then ['\\', 'n']
  else if c = '\t' then ['\\', 't']
  else [c]

def escapeStr (s : List Char) : List Char := s.flatMap escapeChar

def natDigits (n : Nat) : List Char := Nat.toDigits 10 n

def renderInt (n : Int) : List Char :=
  if n < 0 then '-' :: natDigits n.natAbs else natDigits n.natAbs

def pad2 (n : Nat) : List Char :=
  if n < 10 then '0' :: natDigits n else natDigits n

def pad4 (n : Nat) : List Char :=
  (List.replicate (4 - (natDigits n).length) '0') ++ natDigits n

/-- `strftime("%Y%m%d%H%M%S")` (glibc does not pad `%Y`; years ≥ 1000 only) -/
def renderDate (d : DT) : List Char :=
  natDigits d.y ++ pad2 d.mo ++ pad2 d.d ++ pad2 d.h ++ pad2 d.mi ++ pad2 d.s

def joinSep (sep : List Char) : List (List Char) → List Char
  | [] => []
  | [x] => x
  | x :: xs => x ++ sep ++ joinSep sep xs

/-- `delimited(opening, content, closing)` of values.py -/
def delimited (o : List Char) (content : List Char) (c : List Char) : List Char :=
  let o' := if content.head? = some '<' then o ++ [' '] else o
  let c' := if content.getLast? = some '>' then ' ' :: c else c
  o' ++ content ++ c'

/-- The decimal renderer is a parameter: CPython's `repr(float)` (shortest
    round-trip digits) is supplied by `DecRepr.decRepr`; theorems that do not
    depend on it quantify over it. -/
abbrev DecRenderer := Int → Nat → List Char

section render
variable (dr : DecRenderer)

mutual
  def renderWith : Val → List Char
    | .null => ['N', 'U', 'L', 'L']
    | .bool true => ['T', 'R', 'U', 'E']
    | .bool false => ['F', 'A', 'L', 'S', 'E']
    | .int n => renderInt n
    | .dec m e => dr m e
    | .str s => '\'' :: (escapeStr s ++ ['\''])
    | .pat s => '/' :: '/' :: (s ++ ['/', '/'])
    | .date d => renderDate d
    | .list xs => '[' :: (joinSep [',', ' '] (renderL xs) ++ [']'])
    | .set xs => delimited ['<', '<'] (joinSep [',', ' '] (renderL xs)) ['>', '>']
    | .map kvs => delimited ['<', '<', '<'] (joinSep [',', ' '] (renderM kvs)) ['>', '>', '>']
  def renderL : List Val → List (List Char)
    | [] => []
    | x :: xs => renderWith x :: renderL xs
  def renderM : List (Val × Val) → List (List Char)
    | [] => []
    | (k, v) :: xs => (renderWith k ++ [' ', '=', '>', ' '] ++ renderWith v) :: renderM xs
end

/-! ### order (`__lt__`) -/

def sameOrdKind : Val → Val → Bool
  | .bool _, .bool _ => true
  | .str _, .str _ => true
  | .pat _, .pat _ => true
  | .date _, .date _ => true
  | .list _, .list _ => true
  | a, b => a.isNumerical && b.isNumerical

mutual
  /-- `a.__lt__(b)`: typed comparison inside a kind, rendered text across kinds
      (and for NULL, sets, maps). -/
  def vltWith : Val → Val → Bool
    | .bool a, .bool b => !a && b
    | .int a, .int b => decide (a < b)
    | .int a, .dec m e => numLt a 0 m e
    | .dec m e, .int b => numLt m e b 0
    | .dec m e, .dec m' e' => numLt m e m' e'
    | .str a, .str b => strLt a b
    | .pat a, .pat b => strLt a b
    | .date a, .date b => a.lt b
    | .list a, .list b => vltL a b
    | a, b => strLt (renderWith dr a) (renderWith dr b)
  /-- CPython list ordering: first position where the elements differ by `==`
      decides by `<`; otherwise the shorter list is smaller. -/
  def vltL : List Val → List Val → Bool
    | [], [] => false
    | [], _ :: _ => true
    | _ :: _, [] => false
    | x :: xs, y :: ys => if veq x y then vltL xs ys else vltWith x y
end

end render

end Ckl
