/-
  Rendering of decimals.  CPython's `repr(float)` yields the shortest digit
  string that reads back to the same double; `ValueDecimal.__repr__` then
  expands it to positional notation.  `decRepr m e` computes that text for the
  double whose exact value is `m / 2^e`, in exact integer arithmetic.
  No theorem depends on it except through explicit hypotheses.
-/
import CklVerif.Model.Value
namespace Ckl

/-- bit length -/
def bitLen (n : Nat) : Nat := if n = 0 then 0 else Nat.log2 n + 1

/-- the binary64 decomposition `M * 2^E` of the positive dyadic `a / 2^e`
    (`2^52 ≤ M < 2^53`, or `E = -1074` for subnormals) -/
def toBin64 (a : Nat) (e : Nat) : Nat × Int :=
  let L := bitLen a
  let E : Int := (L : Int) - 53 - (e : Int)
  if E ≥ -1074 then
    if L ≤ 53 then (a * 2 ^ (53 - L), E) else (a / 2 ^ (L - 53), E)
  else
    -- subnormal: scale so that E = -1074
    let sh : Int := -(e : Int) + 1074
    (if sh ≥ 0 then a * 2 ^ sh.toNat else a / 2 ^ (-sh).toNat, -1074)

/-- rational `n * 2^x` as a pair (num, den) of naturals -/
def pow2Rat (n : Nat) (x : Int) : Nat × Nat :=
  if x ≥ 0 then (n * 2 ^ x.toNat, 1) else (n, 2 ^ (-x).toNat)

def ratLe (a b : Nat × Nat) : Bool := a.1 * b.2 ≤ b.1 * a.2
def ratLt (a b : Nat × Nat) : Bool := a.1 * b.2 < b.1 * a.2

/-- |a - b| as rational -/
def ratDist (a b : Nat × Nat) : Nat × Nat :=
  let x := a.1 * b.2; let y := b.1 * a.2
  ((if x ≥ y then x - y else y - x), a.2 * b.2)

/-- decimal `c * 10^x` as rational -/
def pow10Rat (c : Nat) (x : Int) : Nat × Nat :=
  if x ≥ 0 then (c * 10 ^ x.toNat, 1) else (c, 10 ^ (-x).toNat)

/-- smallest k with v < 10^k  (v = num/den > 0), searched upward from a lower bound -/
def decPt (v : Nat × Nat) : Int := Id.run do
  -- start from a safe lower bound
  let mut k : Int := -400
  for _ in [0:800] do
    if ratLt v (pow10Rat 1 k) then return k
    k := k + 1
  return k

/-- floor (v * 10^s) -/
def scaleFloor (v : Nat × Nat) (s : Int) : Nat :=
  if s ≥ 0 then v.1 * 10 ^ s.toNat / v.2 else v.1 / (v.2 * 10 ^ (-s).toNat)

/-- shortest digits and decimal point position of the positive double a/2^e -/
def shortestDigits (a : Nat) (e : Nat) : List Char × Int := Id.run do
  let v : Nat × Nat := (a, 2 ^ e)
  let (M, E) := toBin64 a e
  -- neighbours
  let lowNbr : Nat × Nat :=
    if M = 2 ^ 52 ∧ E > -1074 then pow2Rat (2 ^ 53 - 1) (E - 1) else pow2Rat (M - 1) E
  let highNbr : Nat × Nat := pow2Rat (M + 1) E
  -- interval ends (midpoints): (x + v) / 2
  let mid (x : Nat × Nat) : Nat × Nat := (x.1 * v.2 + v.1 * x.2, 2 * x.2 * v.2)
  let lo := mid lowNbr
  let hi := mid highNbr
  let incl := M % 2 = 0
  let inside (c : Nat × Nat) : Bool :=
    if incl then ratLe lo c && ratLe c hi else ratLt lo c && ratLt c hi
  let k := decPt v
  for n in [1:18] do
    let s : Int := (n : Int) - k
    let f := scaleFloor v s
    let c1 := pow10Rat f (-s)
    let c2 := pow10Rat (f + 1) (-s)
    let ok1 := f > 0 && inside c1
    let ok2 := inside c2
    if ok1 || ok2 then
      let pick :=
        if ok1 && ok2 then
          -- nearest; an exact tie goes to the even digit (dtoa's round-half-even)
          (if ratLt (ratDist c1 v) (ratDist c2 v) then f
           else if ratLt (ratDist c2 v) (ratDist c1 v) then f + 1
           else if f % 2 = 0 then f else f + 1)
        else if ok1 then f else f + 1
      -- strip trailing zeros; adjust the decimal point when f+1 rolled over
      let ds := Nat.toDigits 10 pick
      let kk : Int := k + ((ds.length : Int) - (n : Int))
      let ds' := (ds.reverse.dropWhile (· = '0')).reverse
      return (if ds' = [] then ['0'] else ds', kk)
  return (Nat.toDigits 10 (scaleFloor v (17 - k)), k)

def decRepr (m : Int) (e : Nat) : List Char :=
  if m = 0 then ['0', '.', '0']
  else
    let (ds, k) := shortestDigits m.natAbs e
    let sign : List Char := if m < 0 then ['-'] else []
    let body : List Char :=
      if k ≤ 0 then '0' :: '.' :: (List.replicate (-k).toNat '0' ++ ds)
      else if k.toNat ≥ ds.length then ds ++ List.replicate (k.toNat - ds.length) '0' ++ ['.', '0']
      else ds.take k.toNat ++ '.' :: ds.drop k.toNat
    sign ++ body

def render (v : Val) : List Char := renderWith decRepr v
def vlt (a b : Val) : Bool := vltWith decRepr a b

end Ckl
