/-
  driver handler of the string library (C18): `(str OP ARG…)`.
  Strings are atoms `s:HEX` (six hex digits per code point), ints decimal atoms,
  lists of strings `(L s:… s:…)`.  Answers `(ok V)` with V = `s:HEX` | int | `T`/`F` | `(L …)`,
  `(err)` where the real function raises the runtime error, `(unsupported)` outside the model.
-/
import CklVerif.Driver.Codec
import CklVerif.Model.Str
namespace Ckl
open Sx

namespace StrCmd

def decS? : Sx → Option (List Char)
  | .atom a => if a.startsWith "s:" then decodeStr (a.drop 2).toString else none
  | _ => none

def decL? : Sx → Option (List (List Char))
  | .list (.atom "L" :: xs) => xs.mapM decS?
  | _ => none

def sxS (s : List Char) : Sx := .atom ("s:" ++ encodeStr s)
def sxB (b : Bool) : Sx := .atom (if b then "T" else "F")
def sxI (n : Int) : Sx := .atom (toString n)
def sxL (xs : List (List Char)) : Sx := .list (.atom "L" :: xs.map sxS)

def ok (x : Sx) : Sx := .list [.atom "ok", x]
def err : Sx := .list [.atom "err"]
def unsup : Sx := .list [.atom "unsupported"]

def ofRes {α : Type} (f : α → Sx) : Str.Res α → Sx
  | .ok a => ok (f a)
  | .err => err
  | .unsup => unsup

/-- `asString().value` of a value: strings and patterns are their text, the rest is `str(v)` -/
def asStringM : Val → List Char
  | .str s => s
  | .pat s => s
  | v => render v

/-- binding `(name value)`: value = `s:HEX`, a `Val` S-expression, or the atom `err` -/
def decBinding? : Sx → Option (List Char × Str.Res (List Char))
  | .list [n, .atom "err"] => do some (← decS? n, .err)
  | .list [n, v] => do
      let n ← decS? n
      match decS? v with
      | some s => some (n, .ok s)
      | none => do let v ← decodeVal v; some (n, .ok (asStringM v))
  | _ => none

/-- evaluator of placeholders: exactly the bound names; everything else is not modelled -/
def evOf (bs : List (List Char × Str.Res (List Char))) (var : List Char) : Str.Res (List Char) :=
  match bs.find? (fun b => b.1 == var) with
  | some b => b.2
  | none => .unsup

end StrCmd

open StrCmd in
def handleStr : Sx → Option Sx
  | .list (.atom "str" :: .atom op :: args) =>
    match op, args with
    | "contains", [s, t] => do some (ok (sxB (Str.containsM (← decS? s) (← decS? t))))
    | "starts", [s, t] => do some (ok (sxB (Str.startsWithM (← decS? s) (← decS? t))))
    | "ends", [s, t] => do some (ok (sxB (Str.endsWithM (← decS? s) (← decS? t))))
    | "in", [s, t] => do some (ok (sxB (Str.inM (← decS? s) (← decS? t))))
    | "find", [s, t, st] => do some (ok (sxI (Str.findM (← decS? s) (← decS? t) (← atomInt? st))))
    | "replace", [s, a, b] => do some (ok (sxS (Str.replaceM (← decS? s) (← decS? a) (← decS? b) 0)))
    | "replace", [s, a, b, st] => do
        some (ok (sxS (Str.replaceM (← decS? s) (← decS? a) (← decS? b) (← atomInt? st))))
    | "join", [sep, xs] => do some (ok (sxS (Str.joinM (← decS? sep) (← decL? xs))))
    | "unlines", [xs] => do some (ok (sxS (Str.unlinesM (← decL? xs))))
    | "unwords", [xs] => do some (ok (sxS (Str.unwordsM (← decL? xs))))
    | "split", [s, pat] => do some (ofRes sxL (Str.splitM (← decS? s) (← decS? pat)))
    | "splitlit", [s, sep] => do some (ok (sxL (Str.splitLit (← decS? s) (← decS? sep))))
    | "escape", [s] => do some (ok (sxS (Str.escapeM (← decS? s))))
    | "reverse", [s] => do some (ok (sxS (Str.reverseM (← decS? s))))
    | "trim", [s] => do some (ok (sxS (Str.trimM (← decS? s))))
    | "upper", [s] => do
        let s ← decS? s
        some (if Str.isAscii s then ok (sxS (Str.upperM s)) else unsup)
    | "lower", [s] => do
        let s ← decS? s
        some (if Str.isAscii s then ok (sxS (Str.lowerM s)) else unsup)
    | "chr", [n] => do some (ofRes sxS (Str.chrM (← atomInt? n)))
    | "ord", [s] => do some (ofRes sxI (Str.ordM (← decS? s)))
    | "length", [s] => do some (ok (sxI (Str.lengthM (← decS? s))))
    | "concat", [a, b] => do some (ok (sxS (Str.concat (← decS? a) (← decS? b))))
    | "s", t :: bs => do
        let t ← decS? t
        let bs ← bs.mapM decBinding?
        some (ofRes sxS (Str.sM (evOf bs) Str.noRound t))
    | _, _ => none
  | _ => none

end Ckl
