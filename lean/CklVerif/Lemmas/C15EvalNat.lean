/-
  C15Eval — the natives `substr`, `sublist`, `find`, `find_last`, `length`, `add` (on two strings / two list
  cells) through `callPure`, for ANY argument table that binds the named parameters (whatever the order, whatever
  else is bound), any `DIV_0_VALUE`, any call position and any state.
-/
import CklVerif.Lemmas.C15EvalBase
set_option linter.unusedSimpArgs false
namespace Ckl.C15Eval
open Ckl

section
variable {args : List (String × RVal)} {d0 : Option RVal} {pos : Pos} {m : EvalM RVal} {s : State}

theorem dictHas_some {β} {k : String} {d : List (String × β)} {v : β} (h : dictGet k d = some v) :
    dictHas k d = true := by simp [dictHas, h]
theorem dictHas_none {β} {k : String} {d : List (String × β)} (h : dictGet k d = none) :
    dictHas k d = false := by simp [dictHas, h]

/-! ### `substr` -/

theorem substr_str_to {cs : List Char} {a b : Int}
    (h : callPure "substr" args d0 pos = some m)
    (h1 : dictGet "str" args = some (.str cs)) (h2 : dictGet "startidx" args = some (.int a))
    (h3 : dictGet "endidx" args = some (.int b)) :
    m s = .ok (.str (Seq.substr cs a (some b))) s := by
  unfold callPure at h
  injection h with h; subst h
  simp only [argGet_of_dictGet pos h1, argGet_of_dictGet pos h2, argGet_of_dictGet pos h3, pure_bind]
  simp only [dictHas_some h3, RVal.isNull, Bool.false_eq_true, if_false, if_true, EvalM.pure_apply]
  rfl

theorem substr_str_star {cs : List Char} {a : Int}
    (h : callPure "substr" args d0 pos = some m)
    (h1 : dictGet "str" args = some (.str cs)) (h2 : dictGet "startidx" args = some (.int a))
    (h3 : dictGet "endidx" args = none) :
    m s = .ok (.str (Seq.substr cs a none)) s := by
  unfold callPure at h
  injection h with h; subst h
  simp only [argGet_of_dictGet pos h1, argGet_of_dictGet pos h2, pure_bind]
  simp only [dictHas_none h3, RVal.isNull, Bool.false_eq_true, if_false, if_true, EvalM.pure_apply]
  rfl

theorem substr_null
    (h : callPure "substr" args d0 pos = some m) (h1 : dictGet "str" args = some .null) :
    m s = .ok .null s := by
  unfold callPure at h
  injection h with h; subst h
  simp only [argGet_of_dictGet pos h1, pure_bind]
  simp only [RVal.isNull, if_true, EvalM.pure_apply]
  rfl

/-- the operand is neither NULL nor a string: the runtime error, naming the type -/
theorem substr_not_string {v : RVal}
    (h : callPure "substr" args d0 pos = some m) (h1 : dictGet "str" args = some v)
    (hn : v ≠ .null) (hs : ∀ cs, v ≠ .str cs) :
    m s = .err ERR ("String required but got " ++ typeName s v) pos [] s := by
  unfold callPure at h
  injection h with h; subst h
  simp only [argGet_of_dictGet pos h1, pure_bind]
  cases v <;> first | exact absurd rfl hn | exact absurd rfl (hs _) | rfl

/-- a start index that is not an int: the runtime error "Int required" -/
theorem substr_start_not_int {cs : List Char} {v : RVal}
    (h : callPure "substr" args d0 pos = some m)
    (h1 : dictGet "str" args = some (.str cs)) (h2 : dictGet "startidx" args = some v)
    (h3 : dictGet "endidx" args = none) (hv : ∀ a, v ≠ .int a) :
    m s = .err ERR "Int required" pos [] s := by
  unfold callPure at h
  injection h with h; subst h
  simp only [argGet_of_dictGet pos h1, argGet_of_dictGet pos h2, pure_bind]
  simp only [dictHas_none h3, RVal.isNull, Bool.false_eq_true, if_false, if_true, EvalM.pure_apply]
  cases v <;> first | exact absurd rfl (hv _) | rfl

/-! ### `sublist` -/

theorem sublist_to {c : Nat} {xs : List RVal} {a b : Int}
    (h : callPure "sublist" args d0 pos = some m)
    (h1 : dictGet "lst" args = some (.ref c)) (hc : s.cell c = some (.list xs))
    (h2 : dictGet "startidx" args = some (.int a)) (h3 : dictGet "endidx" args = some (.int b)) :
    m s = .ok (.ref s.heap.size) (s.alloc (.list (Seq.substr xs a (some b)))).1 := by
  unfold callPure at h
  injection h with h; subst h
  simp only [argGet_of_dictGet pos h1, argGet_of_dictGet pos h2, argGet_of_dictGet pos h3, pure_bind]
  simp only [dictHas_some h3, (show (RVal.ref c).isNull = false from rfl), Bool.false_eq_true, if_false, if_true, listItems, EvalM.bind_apply, cellOf, hc, EvalM.pure_apply]
  rfl

theorem sublist_star {c : Nat} {xs : List RVal} {a : Int}
    (h : callPure "sublist" args d0 pos = some m)
    (h1 : dictGet "lst" args = some (.ref c)) (hc : s.cell c = some (.list xs))
    (h2 : dictGet "startidx" args = some (.int a)) (h3 : dictGet "endidx" args = none) :
    m s = .ok (.ref s.heap.size) (s.alloc (.list (Seq.substr xs a none))).1 := by
  unfold callPure at h
  injection h with h; subst h
  simp only [argGet_of_dictGet pos h1, argGet_of_dictGet pos h2, pure_bind]
  simp only [dictHas_none h3, (show (RVal.ref c).isNull = false from rfl), Bool.false_eq_true, if_false, if_true, listItems, EvalM.bind_apply, cellOf, hc, EvalM.pure_apply]
  rfl

theorem sublist_null
    (h : callPure "sublist" args d0 pos = some m) (h1 : dictGet "lst" args = some .null) :
    m s = .ok .null s := by
  unfold callPure at h
  injection h with h; subst h
  simp only [argGet_of_dictGet pos h1, pure_bind]
  simp only [RVal.isNull, if_true, EvalM.pure_apply]
  rfl

/-- a string is not a list for `sublist` -/
theorem sublist_of_string {cs : List Char}
    (h : callPure "sublist" args d0 pos = some m) (h1 : dictGet "lst" args = some (.str cs)) :
    m s = .err ERR "List required but got string" pos [] s := by
  unfold callPure at h
  injection h with h; subst h
  simp only [argGet_of_dictGet pos h1, pure_bind]
  simp only [RVal.isNull, Bool.false_eq_true, if_false, EvalM.pure_apply]
  rfl

/-! ### `find` -/

theorem find_str {cs t : List Char}
    (h : callPure "find" args d0 pos = some m)
    (h1 : dictGet "obj" args = some (.str cs)) (h2 : dictGet "part" args = some (.str t))
    (hk : dictGet "key" args = none) (h3 : dictGet "start" args = none) :
    m s = .ok (.int (Seq.find cs t 0)) s := by
  unfold callPure at h
  injection h with h; subst h
  simp only [argGet_of_dictGet pos h1, argGet_of_dictGet pos h2, pure_bind]
  simp only [dictHas_none hk, dictHas_none h3, RVal.isNull, Bool.false_eq_true, if_false, EvalM.pure_apply]
  rfl

theorem find_str_start {cs t : List Char} {st : Int}
    (h : callPure "find" args d0 pos = some m)
    (h1 : dictGet "obj" args = some (.str cs)) (h2 : dictGet "part" args = some (.str t))
    (hk : dictGet "key" args = none) (h3 : dictGet "start" args = some (.int st)) :
    m s = .ok (.int (Seq.find cs t st)) s := by
  unfold callPure at h
  injection h with h; subst h
  simp only [argGet_of_dictGet pos h1, argGet_of_dictGet pos h2, argGet_of_dictGet pos h3, pure_bind]
  simp only [dictHas_none hk, dictHas_some h3, RVal.isNull, Bool.false_eq_true, if_false, if_true, EvalM.pure_apply]
  rfl

/-- on a list cell the elements are compared with `rveq` in the current state (the `equals` of the language):
    element on the left, searched item on the right -/
theorem find_list {c : Nat} {xs : List RVal} {x : RVal}
    (h : callPure "find" args d0 pos = some m)
    (h1 : dictGet "obj" args = some (.ref c)) (hc : s.cell c = some (.list xs))
    (h2 : dictGet "part" args = some x)
    (hk : dictGet "key" args = none) (h3 : dictGet "start" args = none) :
    m s = .ok (.int (Seq.findList (fun y z => rveq s y z) xs x 0)) s := by
  unfold callPure at h
  injection h with h; subst h
  simp only [argGet_of_dictGet pos h1, argGet_of_dictGet pos h2, pure_bind]
  simp only [dictHas_none hk, dictHas_none h3, (show (RVal.ref c).isNull = false from rfl), Bool.false_eq_true, if_false, listItems, EvalM.bind_apply, cellOf, hc, EvalM.pure_apply, getS, EvalM.pure_apply]

theorem find_list_start {c : Nat} {xs : List RVal} {x : RVal} {st : Int}
    (h : callPure "find" args d0 pos = some m)
    (h1 : dictGet "obj" args = some (.ref c)) (hc : s.cell c = some (.list xs))
    (h2 : dictGet "part" args = some x)
    (hk : dictGet "key" args = none) (h3 : dictGet "start" args = some (.int st)) :
    m s = .ok (.int (Seq.findList (fun y z => rveq s y z) xs x st)) s := by
  unfold callPure at h
  injection h with h; subst h
  simp only [argGet_of_dictGet pos h1, argGet_of_dictGet pos h2, argGet_of_dictGet pos h3, pure_bind]
  simp only [dictHas_none hk, dictHas_some h3, (show (RVal.ref c).isNull = false from rfl), Bool.false_eq_true, if_false, if_true, listItems, EvalM.bind_apply, cellOf, hc, EvalM.pure_apply, getS, EvalM.pure_apply]

theorem find_null
    (h : callPure "find" args d0 pos = some m) (h1 : dictGet "obj" args = some .null) :
    m s = .ok .null s := by
  unfold callPure at h
  injection h with h; subst h
  simp only [argGet_of_dictGet pos h1, pure_bind]
  simp only [RVal.isNull, if_true, EvalM.pure_apply]
  rfl

/-! ### `find_last` -/

theorem find_last_str {cs t : List Char}
    (h : callPure "find_last" args d0 pos = some m)
    (h1 : dictGet "obj" args = some (.str cs)) (h2 : dictGet "part" args = some (.str t))
    (hk : dictGet "key" args = none) (h3 : dictGet "start" args = none) :
    m s = .ok (.int (Seq.findLast cs t none)) s := by
  unfold callPure at h
  injection h with h; subst h
  simp only [argGet_of_dictGet pos h1, argGet_of_dictGet pos h2, pure_bind]
  simp only [dictHas_none hk, dictHas_none h3, RVal.isNull, Bool.false_eq_true, if_false, EvalM.pure_apply]
  rfl

theorem find_last_str_start {cs t : List Char} {st : Int}
    (h : callPure "find_last" args d0 pos = some m)
    (h1 : dictGet "obj" args = some (.str cs)) (h2 : dictGet "part" args = some (.str t))
    (hk : dictGet "key" args = none) (h3 : dictGet "start" args = some (.int st)) :
    m s = .ok (.int (Seq.findLast cs t (some st))) s := by
  unfold callPure at h
  injection h with h; subst h
  simp only [argGet_of_dictGet pos h1, argGet_of_dictGet pos h2, argGet_of_dictGet pos h3, pure_bind]
  simp only [dictHas_none hk, dictHas_some h3, RVal.isNull, Bool.false_eq_true, if_false, if_true, EvalM.pure_apply]
  rfl

theorem find_last_list {c : Nat} {xs : List RVal} {x : RVal}
    (h : callPure "find_last" args d0 pos = some m)
    (h1 : dictGet "obj" args = some (.ref c)) (hc : s.cell c = some (.list xs))
    (h2 : dictGet "part" args = some x)
    (hk : dictGet "key" args = none) (h3 : dictGet "start" args = none) :
    m s = .ok (.int (Seq.findLastList (fun y z => rveq s y z) xs x none)) s := by
  unfold callPure at h
  injection h with h; subst h
  simp only [argGet_of_dictGet pos h1, argGet_of_dictGet pos h2, pure_bind]
  simp only [dictHas_none hk, dictHas_none h3, (show (RVal.ref c).isNull = false from rfl), Bool.false_eq_true, if_false, listItems, EvalM.bind_apply, cellOf, hc, EvalM.pure_apply, getS, EvalM.pure_apply]

theorem find_last_list_start {c : Nat} {xs : List RVal} {x : RVal} {st : Int}
    (h : callPure "find_last" args d0 pos = some m)
    (h1 : dictGet "obj" args = some (.ref c)) (hc : s.cell c = some (.list xs))
    (h2 : dictGet "part" args = some x)
    (hk : dictGet "key" args = none) (h3 : dictGet "start" args = some (.int st)) :
    m s = .ok (.int (Seq.findLastList (fun y z => rveq s y z) xs x (some st))) s := by
  unfold callPure at h
  injection h with h; subst h
  simp only [argGet_of_dictGet pos h1, argGet_of_dictGet pos h2, argGet_of_dictGet pos h3, pure_bind]
  simp only [dictHas_none hk, dictHas_some h3, (show (RVal.ref c).isNull = false from rfl), Bool.false_eq_true, if_false, if_true, listItems, EvalM.bind_apply, cellOf, hc, EvalM.pure_apply, getS, EvalM.pure_apply]

/-! ### `length` -/

theorem length_str {cs : List Char}
    (h : callPure "length" args d0 pos = some m) (h1 : dictGet "obj" args = some (.str cs)) :
    m s = .ok (.int cs.length) s := by
  unfold callPure at h
  injection h with h; subst h
  simp only [argGet_of_dictGet pos h1, pure_bind]
  rfl

theorem length_list {c : Nat} {xs : List RVal}
    (h : callPure "length" args d0 pos = some m) (h1 : dictGet "obj" args = some (.ref c))
    (hc : s.cell c = some (.list xs)) :
    m s = .ok (.int xs.length) s := by
  unfold callPure at h
  injection h with h; subst h
  simp only [argGet_of_dictGet pos h1, pure_bind]
  simp only [EvalM.bind_apply, cellOf, hc, EvalM.pure_apply]

/-! ### `add` (the `+` operator) on two strings / two list cells -/

theorem add_str_str {x y : List Char}
    (h : callPure "add" args d0 pos = some m)
    (h1 : dictGet "a" args = some (.str x)) (h2 : dictGet "b" args = some (.str y)) :
    m s = .ok (.str (x ++ y)) s := by
  unfold callPure at h
  injection h with h; subst h
  simp only [argGet_of_dictGet pos h1, argGet_of_dictGet pos h2, pure_bind]
  rfl

/-- `l1 + l2`: a fresh cell holding the concatenation; both operand cells unchanged -/
theorem add_list_list {a b : Nat} {xs ys : List RVal}
    (h : callPure "add" args d0 pos = some m)
    (h1 : dictGet "a" args = some (.ref a)) (h2 : dictGet "b" args = some (.ref b))
    (ha : s.cell a = some (.list xs)) (hb : s.cell b = some (.list ys)) :
    m s = .ok (.ref s.heap.size) (s.alloc (.list (xs ++ ys))).1 := by
  unfold callPure at h
  injection h with h; subst h
  simp only [argGet_of_dictGet pos h1, argGet_of_dictGet pos h2, pure_bind]
  unfold nativeAdd
  simp only [EvalM.bind_apply, getS, cellOf, ha, hb, RVal.isNull, RVal.isNumerical, RVal.isInt, RVal.isDecimal,
    Bool.or_self, Bool.false_eq_true, if_false, Bool.and_self, isColl, if_true, EvalM.pure_apply]
  rfl

/-! ### `equals` (the `==` operator) -/

theorem equals_eq {x y : RVal}
    (h : callPure "equals" args d0 pos = some m)
    (h1 : dictGet "a" args = some x) (h2 : dictGet "b" args = some y) :
    m s = .ok (.bool (rveq s x y)) s := by
  unfold callPure at h
  injection h with h; subst h
  simp only [argGet_of_dictGet pos h1, argGet_of_dictGet pos h2, pure_bind]
  rfl

end
end Ckl.C15Eval
