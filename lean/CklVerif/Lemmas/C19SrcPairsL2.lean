import CklVerif.Lemmas.C19SrcPairsRulesL2

/-!
  C19Src (worker L2) — core.ckl `pairs(lst)`:
  `def result = []; for index in range(length(lst)-1) do append(result, [lst[index], lst[index + 1]]); end; return result`
  (the loop runs over the FRESH cell `range` allocates; every iteration allocates a two-element list cell).
-/
namespace Ckl.C19Src
open Ckl Ckl.C03 Ckl.Gen.LibSrc
variable (ld : Loader)

def pairsNats : List String := ["range", "sub", "length", "append", "add"]

/-- the loop invariant of `pairs`: before the iteration with index `i` the result cell `b` holds references to the cells `cs`
    (fresh, pairwise different, neither `b` nor the range cell `rc`) whose contents are the first `i` pairs -/
structure PairsInv_L2 (s : State) (c m : EnvId) (a b rc : Nat) (xs : List RVal) (i : Nat) (st : State) (cs : List Nat) :
    Prop where
  ext : Ext s st
  parent : (st.frame c).parent = some m
  clt : c < st.frames.size
  vars : (st.frame c).vars = [("lst", .ref a), ("result", .ref b)] ∨
    ∃ w, (st.frame c).vars = [("lst", .ref a), ("result", .ref b), ("index", w)]
  cellr : st.cell rc = some (.list (rangeL_L2 ((xs.length : Int) - 1)))
  cellb : st.cell b = some (.list (cs.map .ref))
  cells : cs.map st.cell = ((pairsL_L2 xs).take i).map (fun ch => some (.list ch))
  fresh : ∀ ci ∈ cs, s.heap.size ≤ ci ∧ ci ≠ b ∧ ci ≠ rc
  nodup : cs.Nodup
  rb : rc ≠ b
  bge : s.heap.size ≤ b

/-- one iteration: `append(result, [lst[index], lst[index + 1]])` -/
theorem pairs_step_L2 {s st : State} {M nats srcs m} {a b rc : Nat} {xs : List RVal} {cs : List Nat} {i : Nat} {v : RVal}
    (h : LibEnv s M nats srcs) (hm : M m) (hn : ∀ x ∈ pairsNats, x ∈ nats) (hc : s.cell a = some (.list xs))
    (inv : PairsInv_L2 s s.frames.size m a b rc xs i st cs) (hv : (rangeL_L2 ((xs.length : Int) - 1))[i]? = some v)
    (p1 p2 p3 p4 p5 p6 p7 p8 p9 p10 p11 p12 p13 : Pos) :
    ∃ r st', Ev ld 12 s.frames.size
        (.call (.ident "append" p1) [none, none] [.ident "result" p2,
          .list [.deref (.ident "lst" p3) (.ident "index" p4) .absent p5,
            .deref (.ident "lst" p6) (.call (.ident "add" p7) [some "a", some "b"] [.ident "index" p8, .lit (.int 1) p9] p10)
              .absent p11] p12] p13)
        (st.put s.frames.size "index" v) (.ok r st') ∧ isCtl r = false ∧
      PairsInv_L2 s s.frames.size m a b rc xs (i + 1) st' (cs ++ [st.heap.size]) := by
  have hcge : s.frames.size ≤ s.frames.size := Nat.le_refl _
  have ha : a < s.heap.size := cell_lt hc
  obtain ⟨rfl, hi⟩ := rangeL_getElem_L2 _ _ _ hv
  have hi1 : i + 1 < xs.length := by omega
  obtain ⟨x, hx⟩ : ∃ x, xs[i]? = some x := ⟨xs[i], List.getElem?_eq_getElem (by omega)⟩
  obtain ⟨y, hy⟩ : ∃ y, xs[i + 1]? = some y := ⟨xs[i + 1], List.getElem?_eq_getElem hi1⟩
  generalize hsu : st.put s.frames.size "index" (.int (i : Int)) = su
  have hsuc : ∀ z, su.cell z = st.cell z := by intro z; rw [← hsu]; rfl
  have hsuh : su.heap.size = st.heap.size := by rw [← hsu]; rfl
  have hvars : (su.frame s.frames.size).vars = [("lst", .ref a), ("result", .ref b), ("index", .int (i : Int))] := by
    rw [← hsu, vars_put_same _ _ _ inv.clt]
    rcases inv.vars with h | ⟨w, h⟩ <;> rw [h] <;> simp [dictPut]
  have hpar : (su.frame s.frames.size).parent = some m := by rw [← hsu, parent_put]; exact inv.parent
  have eu : Ext s su := by rw [← hsu]; exact inv.ext.put hcge _ _
  have hcltu : s.frames.size < su.frames.size := by rw [← hsu, frames_size_put]; exact inv.clt
  have cu : Ctx su M nats srcs s.frames.size m [("lst", .ref a), ("result", .ref b), ("index", .int (i : Int))] :=
    Ctx.ofExt h hm eu hvars hpar hcltu
  have hca : su.cell a = some (.list xs) := by rw [eu.cell a ha]; exact hc
  have hblt : b < su.heap.size := by rw [hsuh]; exact cell_lt inv.cellb
  have hrlt : rc < su.heap.size := by rw [hsuh]; exact cell_lt inv.cellr
  obtain ⟨j1, hadd⟩ := cu.nat (x := "add") (hn _ (by decide)) (by rfl)
  obtain ⟨j2, happ⟩ := cu.nat (x := "append") (hn _ (by decide)) (by rfl)
  have D1 := Ev.derefList ld (k := 0) (pos := p5) (Ev.ident ld (p := p4) (cu.var (x := "index") (by rfl)))
    (Ev.ident ld (p := p3) (cu.var (x := "lst") (by rfl))) hca
  rw [derefOut_nat_L2 xs i x hx] at D1
  have ADD := Ev.natAB ld (k := 0) (p := p7) (pos := p10) hadd (by rfl) (by trivial) (by trivial)
    (Ev.ident ld (p := p8) (cu.var (x := "index") (by rfl))) (Ev.litInt ld (p := p9) (n := 1)) (pure_add _ _ _ _)
    (nativeAdd_int _ _ _ _)
  rw [wrapCall_ok, show (i : Int) + 1 = ((i + 1 : Nat) : Int) by omega] at ADD
  have D2 := Ev.derefList ld (k := 4) (pos := p11) ADD (Ev.ident ld (p := p6) (cu.var (x := "lst") (by rfl))) hca
  rw [derefOut_nat_L2 xs (i + 1) y hy] at D2
  have L := Ev.list2_L2 ld (k := 5) (pos := p12) (by trivial) (by trivial) (Ev.mono ld D1 (by decide)) D2
  have hcb1 : (su.alloc (.list [x, y])).1.cell b = some (.list (cs.map .ref)) := by
    rw [cell_alloc_old _ _ hblt, hsuc]; exact inv.cellb
  obtain ⟨mm, hm1, hm2⟩ := append_list b (cs.map .ref) (.ref su.heap.size)
    (div0Value (su.alloc (.list [x, y])).1 s.frames.size) p13 _ hcb1
  have AP := Ev.nat2 ld (k := 8) (p := p1) (pos := p13) happ (by rfl) (by decide) (by decide) (by trivial) (by trivial)
    (Ev.ident ld (p := p2) (cu.var (x := "result") (by rfl))) L hm1 hm2
  rw [wrapCall_ok] at AP
  refine ⟨_, _, AP, rfl, ?_⟩
  rw [← hsuh]
  refine ⟨(eu.alloc _).setCell inv.bge _, ?_, ?_, Or.inr ⟨.int (i : Int), ?_⟩, ?_, ?_, ?_, ?_, ?_, inv.rb, inv.bge⟩
  · rw [frame_setCell, frame_alloc]; exact hpar
  · exact hcltu
  · rw [frame_setCell, frame_alloc]; exact hvars
  · rw [cell_step_old_L2 su b _ _ hrlt inv.rb, hsuc]; exact inv.cellr
  · rw [cell_step_b_L2 su b _ _ hblt]; simp
  · rw [List.take_add_one, pairsL_getElem_L2 xs i x y hx hy, List.map_append, List.map_append]
    congr 1
    · rw [← inv.cells]
      apply List.map_congr_left
      intro ci hci
      rw [cell_step_old_L2 su b _ _ (by rw [hsuh]; exact cells_some_L2 inv.cells hci) (inv.fresh ci hci).2.1, hsuc]
    · exact congrArg (fun x => [x]) (cell_step_new_L2 su b _ _ hblt)
  · intro ci hci
    rcases List.mem_append.mp hci with hci | hci
    · exact inv.fresh ci hci
    · simp at hci; subst hci
      exact ⟨by rw [hsuh]; exact inv.ext.hsize, by omega, by omega⟩
  · rw [List.nodup_append]
    refine ⟨inv.nodup, by simp, ?_⟩
    intro z hz w hw
    simp at hw; subst hw
    have := cells_some_L2 inv.cells hz
    omega

/-- the body of `pairs` on a list cell (all positions generic) -/
theorem pairs_block_L2 {s s0 : State} {M nats srcs m} {a : Nat} {xs : List RVal}
    (h : LibEnv s M nats srcs) (hm : M m)
    (ctx : Ctx s0 M nats srcs s.frames.size m [("lst", .ref a)]) (e0 : Ext s s0)
    (hn : ∀ x ∈ pairsNats, x ∈ nats) (hc : s.cell a = some (.list xs))
    {d1 d2 r1 r2 r3 r4 r5 r6 r7 r8 p1 p2 p3 p4 p5 p6 p7 p8 p9 p10 p11 p12 p13 fp z1 bp : Pos} {info what : String}
    {bb : Bool} :
    ∃ s' cs, Ext s s' ∧ Ev ld (xs.length + 19) s.frames.size
      (.block [.defn "result" (.list [] d1) info d2,
        .for ["index"] (.call (.ident "range" r1) [none] [.call (.ident "sub" r2) [some "a", some "b"]
            [.call (.ident "length" r3) [none] [.ident "lst" r4] r5, .lit (.int 1) r6] r7] r8)
          (.call (.ident "append" p1) [none, none] [.ident "result" p2,
            .list [.deref (.ident "lst" p3) (.ident "index" p4) .absent p5,
              .deref (.ident "lst" p6) (.call (.ident "add" p7) [some "a", some "b"] [.ident "index" p8, .lit (.int 1) p9] p10)
                .absent p11] p12] p13) what fp,
        .ident "result" z1] [] [] [] bb bp) s0 (.ok (.ref s0.heap.size) s') ∧
      ChResult_L2 s s' s0.heap.size cs (pairsL_L2 xs) := by
  have hcge : s.frames.size ≤ s.frames.size := Nat.le_refl _
  have ha : a < s.heap.size := cell_lt hc
  have ctx0 : Ctx (ghostEnter s0 bp) M nats srcs s.frames.size m [("lst", .ref a)] :=
    ctx.ext ((Ext.refl s0).ghostEnter _)
  have e0' : Ext s (ghostEnter s0 bp) := e0.ghostEnter _
  -- statement 1: `def result = []`
  generalize hb : s0.heap.size = b
  have hbg : (ghostEnter s0 bp).heap.size = b := hb
  generalize ht1 : ((ghostEnter s0 bp).alloc (.list [])).1.put s.frames.size "result" (.ref b) = t1
  have S1 : Ev ld 2 s.frames.size (.defn "result" (.list [] d1) info d2) (ghostEnter s0 bp) (.ok (.ref b) t1) := by
    have := Ev.defn ld (k := 1) (name := "result") (info := info) (pos := d2) (by intro a h; cases h)
      (Ev.listNil ld (k := 0) (env := s.frames.size) (pos := d1) (s := ghostEnter s0 bp))
    rw [hbg, ht1] at this; exact this
  have hclt0 : s.frames.size < (ghostEnter s0 bp).frames.size := ctx0.clt
  have E1 : Ext s t1 := by rw [← ht1]; exact (e0'.alloc _).put hcge _ _
  have hvars1 : (t1.frame s.frames.size).vars = [("lst", .ref a), ("result", .ref b)] := by
    rw [← ht1, vars_put_same ((ghostEnter s0 bp).alloc (.list [])).1 "result" (.ref b) hclt0, frame_alloc, ctx0.fr.vars]; rfl
  have hpar1 : (t1.frame s.frames.size).parent = some m := by
    rw [← ht1, parent_put, frame_alloc]; exact ctx0.fr.parent
  have hclt1 : s.frames.size < t1.frames.size := by
    rw [← ht1, frames_size_put]; exact hclt0
  have hcb1 : t1.cell b = some (.list []) := by
    rw [← ht1, cell_put, ← hbg]; exact cell_alloc_new _ _
  have hsz1 : t1.heap.size = b + 1 := by
    rw [← ht1, heap_put, heap_size_alloc, hbg]
  have ctx1 : Ctx t1 M nats srcs s.frames.size m [("lst", .ref a), ("result", .ref b)] :=
    Ctx.ofExt h hm E1 hvars1 hpar1 hclt1
  have hbge : s.heap.size ≤ b := by rw [← hbg]; exact e0'.hsize
  have hca1 : t1.cell a = some (.list xs) := by rw [E1.cell a ha]; exact hc
  -- the iterated expression `range(length(lst) - 1)`
  obtain ⟨j1, hlen⟩ := ctx1.nat (x := "length") (hn _ (by decide)) (by rfl)
  obtain ⟨j2, hsub⟩ := ctx1.nat (x := "sub") (hn _ (by decide)) (by rfl)
  obtain ⟨j3, hrng⟩ := ctx1.nat (x := "range") (hn _ (by decide)) (by rfl)
  obtain ⟨mm1, hm11, hm12⟩ := length_list a xs (div0Value t1 s.frames.size) r5 t1 hca1
  have A1 := Ev.nat1 ld (k := 0) (p := r3) (pos := r5) hlen (by rfl) (by decide) (by trivial)
    (Ev.ident ld (p := r4) (ctx1.var (x := "lst") (by rfl))) hm11 hm12
  rw [wrapCall_ok] at A1
  have A2 := Ev.natAB ld (k := 3) (p := r2) (pos := r7) hsub (by rfl) (by trivial) (by trivial)
    A1 (Ev.litInt ld (p := r6) (n := 1)) (pure_sub _ _ _ _) (nativeSub_int _ _ _ _)
  rw [wrapCall_ok] at A2
  obtain ⟨mm3, hm31, hm32⟩ := range_int_L2 ((xs.length : Int) - 1) (div0Value t1 s.frames.size) r8 t1
  have A3 := Ev.nat1 ld (k := 7) (p := r1) (pos := r8) hrng (by rfl) (by decide) (by trivial) A2 hm31 hm32
  rw [wrapCall_ok, hsz1] at A3
  generalize ht2 : (t1.alloc (.list (rangeL_L2 ((xs.length : Int) - 1)))).1 = t2 at A3
  have E2 : Ext s t2 := by rw [← ht2]; exact E1.alloc _
  have hcr2 : t2.cell (b + 1) = some (.list (rangeL_L2 ((xs.length : Int) - 1))) := by
    rw [← ht2, ← hsz1]; exact cell_alloc_new _ _
  have inv0 : PairsInv_L2 s s.frames.size m a b (b + 1) xs 0 t2 [] := by
    refine ⟨E2, ?_, ?_, Or.inl ?_, hcr2, ?_, rfl, ?_, List.nodup_nil, by omega, hbge⟩
    · rw [← ht2, frame_alloc]; exact hpar1
    · rw [← ht2]; exact hclt1
    · rw [← ht2, frame_alloc]; exact hvars1
    · rw [← ht2, cell_alloc_old _ _ (by omega)]; exact hcb1
    · intro ci hci; simp at hci
  -- the loop
  obtain ⟨r, st, ⟨hctl, cs, inv⟩, hloop⟩ := forListLive_inv ld (kb := 12) (env := s.frames.size) (x := "index") (a := b + 1)
    (pos := fp)
    (body := .call (.ident "append" p1) [none, none] [.ident "result" p2,
            .list [.deref (.ident "lst" p3) (.ident "index" p4) .absent p5,
              .deref (.ident "lst" p6) (.call (.ident "add" p7) [some "a", some "b"] [.ident "index" p8, .lit (.int 1) p9] p10)
                .absent p11] p12] p13)
    (rangeL_L2 ((xs.length : Int) - 1))
    (fun i r st => isCtl r = false ∧ ∃ cs, PairsInv_L2 s s.frames.size m a b (b + 1) xs i st cs)
    (fun i r st hI => by obtain ⟨_, cs, inv⟩ := hI; exact inv.cellr)
    (fun i r st v hI hv => by
      obtain ⟨_, cs, inv⟩ := hI
      obtain ⟨r', s', h1, h2, h3⟩ := pairs_step_L2 ld h hm hn hc inv hv p1 p2 p3 p4 p5 p6 p7 p8 p9 p10 p11 p12 p13
      exact ⟨r', s', h1, h2, h2, _, h3⟩)
    (rangeL_L2 ((xs.length : Int) - 1)).length 0 (.bool true) t2 (by omega) ⟨rfl, [], inv0⟩
  have hrl : (rangeL_L2 ((xs.length : Int) - 1)).length = xs.length - 1 := by
    simp [rangeL_L2]
  have hF := Ev.forList ld (k := 10) (kl := 12 + (rangeL_L2 ((xs.length : Int) - 1)).length + 1) (what := what) (x := "index")
    (pos := fp) (by rw [hvars1]; rfl) A3 hcr2 hloop inv.cellr
  rw [hrl] at hF
  rw [hrl, ← pairsL_length_L2 xs] at inv
  have hcells : cs.map st.cell = (pairsL_L2 xs).map (fun ch => some (.list ch)) := by
    have := inv.cells; rwa [List.take_length] at this
  -- the state after the `for` node
  have hfin : ∀ t3, (t3 = st ∨ t3 = st.remove s.frames.size "index") →
      Ext s t3 ∧ (∀ z, t3.cell z = st.cell z) ∧
      ∃ vars, CallFrame t3 s.frames.size m vars ∧ dictGet "result" vars = some (.ref b) := by
    intro t3 ht3
    rcases ht3 with rfl | rfl
    · refine ⟨inv.ext, fun _ => rfl, (t3.frame s.frames.size).vars, callFrame_self inv.parent (h.lt m hm), ?_⟩
      rcases inv.vars with h | ⟨w, h⟩ <;> rw [h] <;> rfl
    · refine ⟨inv.ext.remove hcge _, fun _ => rfl, ((st.remove s.frames.size "index").frame s.frames.size).vars,
        callFrame_self (by rw [frame_remove_same _ _ inv.clt]; exact inv.parent) (h.lt m hm), ?_⟩
      rw [frame_remove_same _ _ inv.clt]
      rcases inv.vars with h | ⟨w, h⟩ <;> rw [h] <;> rfl
  obtain ⟨E3, hcell3, vars3, hfr3, hres3⟩ := hfin (if (rangeL_L2 ((xs.length : Int) - 1)).isEmpty then st
      else st.remove s.frames.size "index") (by cases (rangeL_L2 ((xs.length : Int) - 1)).isEmpty <;> simp)
  generalize (if (rangeL_L2 ((xs.length : Int) - 1)).isEmpty then st else st.remove s.frames.size "index") = t3
    at hF E3 hcell3 hfr3
  have S3 : Ev ld (xs.length + 15) s.frames.size (.ident "result" z1) t3 (.ok (.ref b) t3) :=
    Ev.ident ld (lookup_local hfr3 hres3)
  refine ⟨ghostFin t3 bp, cs, E3.ghostFin _, ?_, ⟨hbge, ?_, ?_, ?_, inv.nodup⟩⟩
  · exact Ev.block ld (b := bb) (pos := bp)
      (EvBody.cons ld (Ev.mono ld S1 (by omega)) rfl
        (EvBody.cons ld (Ev.mono ld hF (by omega)) hctl
          (EvBody.cons ld S3 rfl (EvBody.nil ld))))
  · show t3.cell b = _
    rw [hcell3]; exact inv.cellb
  · rw [← hcells]
    apply List.map_congr_left
    intro ci _
    show t3.cell ci = _
    exact hcell3 ci
  · intro ci hci
    exact ⟨(inv.fresh ci hci).1, (inv.fresh ci hci).2.1⟩

/-! ### `fn.execute` of `pairs` -/

/-- **`pairs(lst)` on a list cell** (any length): the value is a reference to the cell at the OLD heap size (fresh), which holds
    references to fresh, pairwise different cells whose contents are `[xs[i], xs[i+1]]`, `i = 0 … length - 2` -/
theorem pairs_calls_list {s : State} {M nats srcs fn m} (h : LibEnv s M nats srcs) (hn : ∀ x ∈ pairsNats, x ∈ nats)
    (hm : M m) (hsrc : IsSrc s fn core_pairs m) (a : Nat) (xs : List RVal) (hc : s.cell a = some (.list xs)) :
    ∃ s' cs, Ext s s' ∧ ChResult_L2 s s' s.heap.size cs (pairsL_L2 xs) ∧
      ∀ env pos, Calls ld (xs.length + 20) fn [("lst", .ref a)] env pos s (.ok (.ref s.heap.size) s') := by
  obtain ⟨c0, nm, rfl, hcell⟩ := hsrc
  have hb : ∃ s' cs, Ext s s' ∧ Ev ld (xs.length + 19) s.frames.size (lamBody core_pairs)
      (calleeState s m ["lst"] [("lst", .ref a)])
      (.ok (.ref (calleeState s m ["lst"] [("lst", .ref a)]).heap.size) s') ∧
      ChResult_L2 s s' (calleeState s m ["lst"] [("lst", .ref a)]).heap.size cs (pairsL_L2 xs) := by
    unfold lamBody core_pairs
    exact pairs_block_L2 ld h hm (Ctx.callee1 h hm "lst" (.ref a)) (calleeState_ext ..) hn hc
  obtain ⟨s', cs, e', hev, hres⟩ := hb
  rw [calleeState_heap] at hev hres
  refine ⟨s', cs, e', hres, fun env pos => ?_⟩
  have hcell' : s.cell c0 = some (.closure m ["lst"] [.absent] (lamBody core_pairs) nm) := hcell
  exact Calls.closure ld (env := env) (pos := pos) hcell' rfl (by simp)
    (by intro p hp; simp at hp; subst hp; simp [dictGet]) hev

end Ckl.C19Src
