/-
  C16 helper library: the predicate "this computation only allocates" (`Allocates`: every heap
  cell that existed before is unchanged afterwards), its closure under the monad operations of
  `EvalM`, and the fact for the helper programs of the natives.
-/
import CklVerif.Lemmas.C13NoHost
namespace Ckl

/-- every pre-existing heap cell is unchanged; new cells may have been allocated -/
def HeapPrefixEq (s s' : State) : Prop := ∀ a, a < s.heap.size → s'.heap[a]? = s.heap[a]?

theorem HeapPrefixEq.refl (s : State) : HeapPrefixEq s s := fun _ _ => rfl

theorem HeapPrefixEq.size_le {s s' : State} (h : HeapPrefixEq s s') : s.heap.size ≤ s'.heap.size := by
  rcases Nat.lt_or_ge s'.heap.size s.heap.size with hlt | hge
  · have := h s'.heap.size hlt
    rw [Array.getElem?_eq_none (Nat.le_refl _), Array.getElem?_eq_getElem hlt] at this
    cases this
  · exact hge

theorem HeapPrefixEq.trans {a b c : State} (h1 : HeapPrefixEq a b) (h2 : HeapPrefixEq b c) :
    HeapPrefixEq a c := by
  intro x hx
  rw [h2 x (Nat.lt_of_lt_of_le hx h1.size_le), h1 x hx]

theorem HeapPrefixEq.of_heap_eq {s s' : State} (h : s'.heap = s.heap) : HeapPrefixEq s s' := by
  intro a _; rw [h]

theorem HeapPrefixEq.alloc (s : State) (c : Cell) : HeapPrefixEq s (s.alloc c).1 := by
  intro a ha
  simp only [State.alloc]
  rw [Array.getElem?_push_lt ha, Array.getElem?_eq_getElem ha]

/-- the final state of an outcome -/
def Out.st {α} : Out α → State
  | .ok _ s => s
  | .err _ _ _ _ s => s
  | .fail _ s => s

/-- the computation only allocates: it changes no pre-existing heap cell, whatever its outcome -/
structure Allocates {α} (m : EvalM α) : Prop where
  run : ∀ s, HeapPrefixEq s (m s).st

namespace Allocates

theorem pure {α} (a : α) : Allocates (Pure.pure a : EvalM α) := ⟨fun s => HeapPrefixEq.refl s⟩

theorem bind {α β} {m : EvalM α} {f : α → EvalM β} (hm : Allocates m) (hf : ∀ a, Allocates (f a)) :
    Allocates (m >>= f) := by
  constructor
  intro s
  rw [EvalM.bind_apply]
  have := hm.run s
  cases h : m s with
  | ok a s1 => rw [h] at this; exact this.trans ((hf a).run s1)
  | err v msg p t s1 => rw [h] at this; exact this
  | fail k s1 => rw [h] at this; exact this

theorem map {α β} {m : EvalM α} (g : α → β) (hm : Allocates m) : Allocates (g <$> m) := by
  rw [map_eq_pure_bind]; exact bind hm (fun a => pure _)

theorem getS : Allocates getS := ⟨fun s => HeapPrefixEq.refl s⟩
theorem throwV {α} (v : RVal) (msg : String) (pos : Pos) : Allocates (throwV v msg pos : EvalM α) :=
  ⟨fun s => HeapPrefixEq.refl s⟩
theorem throwE {α} (msg : String) (pos : Pos) : Allocates (throwE msg pos : EvalM α) :=
  ⟨fun s => HeapPrefixEq.refl s⟩
theorem unsupported {α} (w : String) : Allocates (unsupported w : EvalM α) := ⟨fun s => HeapPrefixEq.refl s⟩
theorem failM {α} (f : Fail) : Allocates (failM f : EvalM α) := ⟨fun s => HeapPrefixEq.refl s⟩
theorem allocM (c : Cell) : Allocates (allocM c) := ⟨fun s => HeapPrefixEq.alloc s c⟩
theorem newList (xs : List RVal) : Allocates (newList xs) := allocM _
theorem cellOf (v : RVal) : Allocates (cellOf v) := by
  constructor; intro s; unfold Ckl.cellOf; split <;> exact HeapPrefixEq.refl s
theorem typeOf (v : RVal) : Allocates (typeOf v) := ⟨fun s => HeapPrefixEq.refl s⟩
/-- writing to the output does not touch the heap -/
theorem write (f : State → List Char) : Allocates (modifyS (fun s => s.write (f s))) :=
  ⟨fun _ => HeapPrefixEq.of_heap_eq rfl⟩

theorem mapM {α β} (f : α → EvalM β) (hf : ∀ a, Allocates (f a)) (xs : List α) : Allocates (xs.mapM f) := by
  induction xs with
  | nil => rw [List.mapM_nil]; exact pure _
  | cons x xs ih =>
    rw [List.mapM_cons]
    exact bind (hf x) (fun _ => bind ih (fun _ => pure _))

end Allocates

/-- one decomposition step for goals `Allocates (do …)` -/
macro "alloc_step" : tactic => `(tactic| first
  | exact Allocates.pure _
  | exact Allocates.getS
  | exact Allocates.throwV _ _ _
  | exact Allocates.throwE _ _
  | exact Allocates.unsupported _
  | exact Allocates.failM _
  | exact Allocates.allocM _
  | exact Allocates.newList _
  | exact Allocates.cellOf _
  | exact Allocates.typeOf _
  | exact Allocates.write _
  | apply_assumption (exfalso := false) (symm := false)
  | apply Allocates.bind
  | (apply Allocates.mapM; intro _)
  | intro _
  | dsimp only
  | split)

macro "alloc!" : tactic => `(tactic| repeat' alloc_step)

namespace Allocates

theorem argGet (args : List (String × RVal)) (name : String) (pos : Pos) : Allocates (argGet args name pos) := by
  unfold Ckl.argGet; alloc!
theorem getIndex (idx : RVal) (pos : Pos) : Allocates (getIndex idx pos) := by
  unfold Ckl.getIndex; alloc!
theorem asStringM (v : RVal) (pos : Pos) : Allocates (asStringM v pos) := by
  unfold Ckl.asStringM; alloc!
theorem addSet (items : List RVal) : Allocates (addSet items) := by
  unfold Ckl.addSet; alloc!
theorem floatResult (x : Float) (pos : Pos) (w : String) : Allocates (floatResult x pos w) := by
  unfold Ckl.floatResult; alloc!
theorem listItems (v : RVal) : Allocates (listItems v) := by unfold Ckl.listItems; alloc!
theorem collAsList (c : Cell) : Allocates (collAsList c) := by unfold Ckl.collAsList; alloc!
theorem cmpLt (a b : RVal) : Allocates (cmpLt a b) := by unfold Ckl.cmpLt; alloc!
theorem cmpGt (a b : RVal) : Allocates (cmpGt a b) := by
  unfold Ckl.cmpGt; have := cmpLt a b; alloc!
theorem asListArg (v : RVal) (pos : Pos) : Allocates (asListArg v pos) := by
  unfold Ckl.asListArg; have := fun c => collAsList c; alloc!
theorem asSetArg (v : RVal) (pos : Pos) : Allocates (asSetArg v pos) := by
  unfold Ckl.asSetArg; have := fun xs => addSet xs; alloc!
theorem dateResM (r : DateRes) (pos : Pos) : Allocates (dateResM r pos) := by
  unfold Ckl.dateResM; alloc!
theorem callDate (name : String) (args : List (String × RVal)) (pos : Pos) (m : EvalM RVal)
    (h : callDate name args pos = some m) : Allocates m := by
  unfold Ckl.callDate at h
  split at h <;> first | (injection h with h; subst h; exact dateResM _ _) | (cases h)
theorem nativeAdd (a b : RVal) (pos : Pos) : Allocates (nativeAdd a b pos) := by
  unfold Ckl.nativeAdd
  have := fun r p => dateResM r p
  have := fun c => collAsList c
  have := fun x p w => floatResult x p w
  have := fun xs => addSet xs
  have := fun v p => asStringM v p
  alloc!
theorem nativeSub (a b : RVal) (pos : Pos) : Allocates (nativeSub a b pos) := by
  unfold Ckl.nativeSub
  have := fun r p => dateResM r p
  have := fun c => collAsList c
  have := fun x p w => floatResult x p w
  alloc!
theorem nativeMul (a b : RVal) (pos : Pos) : Allocates (nativeMul a b pos) := by
  unfold Ckl.nativeMul
  have := fun x p w => floatResult x p w
  alloc!
theorem nativeDiv (a b : RVal) (d) (pos : Pos) : Allocates (nativeDiv a b d pos) := by
  unfold Ckl.nativeDiv
  have := fun x p w => floatResult x p w
  alloc!
theorem nativeMod (a b : RVal) (pos : Pos) : Allocates (nativeMod a b pos) := by
  unfold Ckl.nativeMod
  alloc!

theorem destructure (v : RVal) (count : Nat) (pos : Pos) : Allocates (destructure v count pos) := by
  unfold Ckl.destructure; alloc!
theorem spreadValues (v : RVal) (pos : Pos) : Allocates (spreadValues v pos) := by
  unfold Ckl.spreadValues; alloc!
theorem collectionValues (v : RVal) (what : Option String) (pos : Pos) :
    Allocates (collectionValues v what pos) := by
  unfold Ckl.collectionValues; alloc!
theorem comprResult (kind : ComprKind) (out : List (RVal × RVal)) : Allocates (comprResult kind out) := by
  unfold Ckl.comprResult
  have := fun xs => addSet xs
  alloc!

end Allocates
end Ckl
