import CklVerif.Lemmas.C13Step

/-! C13: the induction step for `eval` itself, and the induction on the fuel. -/
namespace Ckl
variable {ld : Loader} {fuel : Nat}

theorem fin_NH {β} (o : Out Unit) (ho : o.NH) (k : State → Out β) (hk : ∀ s, (k s).NH) :
    (match (generalizing := false) o with
      | .ok _ s'' => k s''
      | .err v2 m2 p2 t2 s'' => .err v2 m2 p2 t2 s''
      | .fail f s'' => .fail f s'' : Out β).NH := by
  cases o with
  | ok a s => exact hk s
  | err => exact Out.NH_err _ _ _ _ _
  | fail f s => exact Out.NH_fail_of ho

theorem block_fin_NH (o : Out RVal) (ho : o.NH) (fin : State → Out Unit) (hf : ∀ s, (fin s).NH)
    (g : State → State) :
    (match (generalizing := false) o with
    | .ok v s' =>
      match fin (g s') with
      | .ok _ s'' => .ok v s''
      | .err v2 m2 p2 t2 s'' => .err v2 m2 p2 t2 s''
      | .fail f s'' => .fail f s''
    | .err v m p t s' =>
      match fin (g s') with
      | .ok _ s'' => .err v m p t s''
      | .err v2 m2 p2 t2 s'' => .err v2 m2 p2 t2 s''
      | .fail f s'' => .fail f s''
    | .fail (.syn e) s' =>
      match fin (g s') with
      | .ok _ s'' => .fail (.syn e) s''
      | .err v2 m2 p2 t2 s'' => .err v2 m2 p2 t2 s''
      | .fail f s'' => .fail f s''
    | .fail (.host k) s' =>
      match fin (g s') with
      | .ok _ s'' => .fail (.host k) s''
      | .err v2 m2 p2 t2 s'' => .err v2 m2 p2 t2 s''
      | .fail f s'' => .fail f s''
    | .fail f s' => .fail f s' : Out RVal).NH := by
  cases o with
  | ok v s' => exact fin_NH (fin (g s')) (hf _) (fun s'' => .ok v s'') (fun _ => Out.NH_ok _ _)
  | err v m p t s' => exact fin_NH (fin (g s')) (hf _) (fun s'' => .err v m p t s'') (fun _ => Out.NH_err _ _ _ _ _)
  | fail f s' =>
    cases f with
    | host k => exact absurd ho (by simp)
    | syn e => exact fin_NH (fin (g s')) (hf _) (fun s'' => .fail (.syn e) s'') (fun _ => Out.NH_syn _ _)
    | oof => exact Out.NH_oof _
    | unsupported w => exact Out.NH_unsupported _ _

theorem block_step (ih : NHAll ld fuel) : ∀ env es ce ch fin tl pos, NoHost (eval ld (fuel+1) env (.block es ce ch fin tl pos)) := by
  intro env es ce ch fin tl pos
  unfold Ckl.eval
  refine NoHost.ofFun (fun s0 => ?_)
  dsimp only
  have hb := (ih.evalBody env es (.bool true)).nh (ghostEnter s0 pos)
  have hf := fun s => (ih.evalFinally env fin).nh s
  refine block_fin_NH _ ?_ (evalFinally ld fuel env fin) hf (fun s => ghostFin s pos)
  cases hr : evalBody ld fuel env es (.bool true) (ghostEnter s0 pos) with
  | err v msg p t s' => exact (ih.tryHandlers env ce ch v msg p t).nh s'
  | ok a s => rw [hr] at hb; exact hb
  | fail f s => rw [hr] at hb; exact hb

theorem for_step (ih : NHAll ld fuel) :
    ∀ env ids e body what pos, NoHost (eval ld (fuel+1) env (.for ids e body what pos)) := by
  intro env ids e body what pos
  unfold Ckl.eval
  refine NoHost.ofFun (fun s0 => ?_)
  have hb := (ih.evalFor env ids e body what pos).nh s0
  cases hr : evalFor ld fuel env ids e body what pos s0 with
  | ok a s => exact Out.NH_ok _ _
  | err => exact Out.NH_err _ _ _ _ _
  | fail f s =>
    cases f with
    | syn e => exact Out.NH_syn _ _
    | host k => rw [hr] at hb; exact hb
    | oof => exact Out.NH_oof _
    | unsupported w => exact Out.NH_unsupported _ _

theorem lambda_step : ∀ env a b c d, NoHost (eval ld (fuel+1) env (.lambda a b c d)) := by
  intro env a b c d
  unfold Ckl.eval
  exact NoHost.ofFun (fun s0 => Out.NH_ok _ _)

theorem eval_step (ih : NHAll ld fuel) : ∀ env n, NoHost (eval ld (fuel+1) env n) := by
  intro env n
  ih_intro ih
  cases n
  case block es ce ch fin tl pos => exact block_step ih env es ce ch fin tl pos
  case «for» ids e body what pos => exact for_step ih env ids e body what pos
  case lambda a b c d => exact lambda_step env a b c d
  all_goals (unfold Ckl.eval; nohost!)

/-- fuel 0: every function is out of fuel -/
theorem nhAll_zero (ld : Loader) : NHAll ld 0 := by
  constructor <;> intros <;> first
    | (unfold Ckl.eval; exact NoHost.failOof)
    | (unfold Ckl.evalAnd; exact NoHost.failOof)
    | (unfold Ckl.evalOr; exact NoHost.failOof)
    | (unfold Ckl.evalIf; exact NoHost.failOof)
    | (unfold Ckl.evalSeq; exact NoHost.failOof)
    | (unfold Ckl.evalItems; exact NoHost.failOof)
    | (unfold Ckl.evalPairs; exact NoHost.failOof)
    | (unfold Ckl.evalBody; exact NoHost.failOof)
    | (unfold Ckl.evalFinally; exact NoHost.failOof)
    | (unfold Ckl.tryHandlers; exact NoHost.failOof)
    | (unfold Ckl.invoke; exact NoHost.failOof)
    | (unfold Ckl.evalArgs; exact NoHost.failOof)
    | (unfold Ckl.bindParams; exact NoHost.failOof)
    | (unfold Ckl.evalFor; exact NoHost.failOof)
    | (unfold Ckl.forItems; exact NoHost.failOof)
    | (unfold Ckl.forListLive; exact NoHost.failOof)
    | (unfold Ckl.forString; exact NoHost.failOof)
    | (unfold Ckl.whileLoop; exact NoHost.failOof)
    | (unfold Ckl.comprStep; exact NoHost.failOof)
    | (unfold Ckl.comprLoop; exact NoHost.failOof)
    | (unfold Ckl.comprProduct; exact NoHost.failOof)
    | (unfold Ckl.comprParallel; exact NoHost.failOof)
    | (unfold Ckl.evalRequire; exact NoHost.failOof)
    | (unfold Ckl.loadModule; exact NoHost.failOof)

theorem nhAll_succ (ih : NHAll ld fuel) : NHAll ld (fuel + 1) where
  eval := eval_step ih
  evalAnd := evalAnd_step ih
  evalOr := evalOr_step ih
  evalIf := evalIf_step ih
  evalSeq := evalSeq_step ih
  evalItems := evalItems_step ih
  evalPairs := evalPairs_step ih
  evalBody := evalBody_step ih
  evalFinally := evalFinally_step ih
  tryHandlers := tryHandlers_step ih
  invoke := invoke_step ih
  evalArgs := evalArgs_step ih
  bindParams := bindParams_step ih
  evalFor := evalFor_step ih
  forItems := forItems_step ih
  forListLive := forListLive_step ih
  forString := forString_step ih
  whileLoop := whileLoop_step ih
  comprStep := comprStep_step ih
  comprLoop := comprLoop_step ih
  comprProduct := comprProduct_step ih
  comprParallel := comprParallel_step ih
  evalRequire := evalRequire_step ih
  loadModule := loadModule_step ih

/-- no node-reachable function of the evaluator ever ends in a host failure -/
theorem nhAll (ld : Loader) : ∀ fuel, NHAll ld fuel
  | 0 => nhAll_zero ld
  | fuel + 1 => nhAll_succ (nhAll ld fuel)

end Ckl
