import CklVerif.Lemmas.C19SrcMisc

/-! C19Src (D4) — math.ckl `sign` / `abs` on DECIMAL arguments `.dec m e` (value `m / 2^e`), where the model's comparison is the
    exact dyadic one (`numLt`, `numEq` of `Model/Value.lean`).  `abs` of a NEGATIVE decimal computes `0 - n` through `nativeSub` on
    `Float` — not covered (opaque arithmetic). -/
namespace Ckl.C19Src
open Ckl Ckl.C03 Ckl.Gen.LibSrc
variable (ld : Loader)

/-- the exact sign of the dyadic `m / 2^e`, through the model's comparisons with the int `0`
    (`n < 0`, and `n > 0` as `total_ordering` derives it: `not (n < 0) and n != 0`) -/
def decSign_D4 (m : Int) (e : Nat) : Int :=
  if numLt m e 0 0 then -1 else if (!numLt m e 0 0 && !numEq m e 0 0) then 1 else 0

/-- `numLt m e 0 0` reads `m < 0` (the denominator `2^e` is positive) -/
theorem numLt_zero_D4 (m : Int) (e : Nat) : numLt m e 0 0 = decide (m < 0) := by
  simp [numLt]

/-- `numEq m e 0 0` reads `m = 0` -/
theorem numEq_zero_D4 (m : Int) (e : Nat) : numEq m e 0 0 = decide (m = 0) := by
  simp [numEq]

/-- the reading: the sign of `m / 2^e` is the sign of the numerator -/
theorem decSign_eq_sign_D4 (m : Int) (e : Nat) : decSign_D4 m e = m.sign := by
  unfold decSign_D4
  rw [numLt_zero_D4, numEq_zero_D4]
  by_cases h1 : m < 0
  · simp [h1, Int.sign_eq_neg_one_of_neg h1]
  · by_cases h2 : m = 0
    · subst h2; simp
    · have : 0 < m := by omega
      simp [h1, h2, Int.sign_eq_one_of_pos this]

/-- `n < 0` on a decimal, in the call frame: the exact comparison -/
theorem less_zero_dec_D4 {s : State} {M nats srcs c m'} {m : Int} {e : Nat}
    (ctx : Ctx s M nats srcs c m' [("n", .dec m e)])
    (hn : ∀ x ∈ mathNats, x ∈ nats) (k : Nat) (p1 p2 p3 p4 : Pos) :
    Ev ld (k + 4) c (.call (.ident "less" p1) [some "a", some "b"] [.ident "n" p2, .lit (.int 0) p3] p4) s
      (.ok (.bool (numLt m e 0 0)) s) := by
  obtain ⟨i, hl⟩ := ctx.nat (x := "less") (hn _ (by decide)) (by rfl)
  refine Ev.congr ld (Ev.natAB ld (k := k) hl (by rfl) (by trivial) (by trivial)
    (Ev.ident ld (ctx.var (x := "n") (by rfl))) (Ev.litInt ld) (pure_less _ _ _ _) rfl) ?_
  simp [EvalM.bind_apply, cmpLt_dec_int, EvalM.pure_apply, boolV]

/-- `n > 0` on a decimal, in the call frame -/
theorem greater_zero_dec_D4 {s : State} {M nats srcs c m'} {m : Int} {e : Nat}
    (ctx : Ctx s M nats srcs c m' [("n", .dec m e)])
    (hn : ∀ x ∈ mathNats, x ∈ nats) (k : Nat) (p1 p2 p3 p4 : Pos) :
    Ev ld (k + 4) c (.call (.ident "greater" p1) [some "a", some "b"] [.ident "n" p2, .lit (.int 0) p3] p4) s
      (.ok (.bool (!numLt m e 0 0 && !numEq m e 0 0)) s) := by
  obtain ⟨i, hl⟩ := ctx.nat (x := "greater") (hn _ (by decide)) (by rfl)
  refine Ev.congr ld (Ev.natAB ld (k := k) hl (by rfl) (by trivial) (by trivial)
    (Ev.ident ld (ctx.var (x := "n") (by rfl))) (Ev.litInt ld) (pure_greater _ _ _ _) rfl) ?_
  simp [EvalM.bind_apply, cmpGt_dec_int, EvalM.pure_apply, boolV]

/-- the body of `sign` on a decimal -/
theorem sign_body_dec {s : State} {M nats srcs c m'} {m : Int} {e : Nat}
    (ctx : Ctx s M nats srcs c m' [("n", .dec m e)])
    (hn : ∀ x ∈ mathNats, x ∈ nats) (hs : ∀ p ∈ mathSrcs, p ∈ srcs) :
    ∃ s', Ext s s' ∧ Ev ld 20 c (lamBody math_sign) s (.ok (.int (decSign_D4 m e)) s') := by
  obtain ⟨g1, s1, e1, g2⟩ := guards ld (.dec m e) ctx hn hs
  have ctx1 := ctx.ext e1
  refine ⟨s1, e1, ?_⟩
  refine Ev.ite ld (EvIf.false ld (g1 _ _ _) (EvIf.false ld (g2 _ _ _ _) ?_))
  by_cases hlt : numLt m e 0 0 = true
  · refine EvIf.true ld (s1 := s1) (Ev.congr ld (less_zero_dec_D4 ld ctx1 hn 12 _ _ _ _) (by simp [hlt])) ?_
    refine Ev.congr ld (Ev.litInt ld) ?_
    simp [decSign_D4, hlt]
  · rw [Bool.not_eq_true] at hlt
    refine EvIf.false ld (s1 := s1) (Ev.congr ld (less_zero_dec_D4 ld ctx1 hn 12 _ _ _ _) (by rw [hlt])) ?_
    by_cases heq : numEq m e 0 0 = true
    · refine EvIf.false ld (s1 := s1) (Ev.congr ld (greater_zero_dec_D4 ld ctx1 hn 11 _ _ _ _)
        (by rw [hlt, heq]; rfl)) ?_
      refine EvIf.else ld (Ev.congr ld (Ev.litInt ld) ?_)
      simp [decSign_D4, hlt, heq]
    · rw [Bool.not_eq_true] at heq
      refine EvIf.true ld (s1 := s1) (Ev.congr ld (greater_zero_dec_D4 ld ctx1 hn 11 _ _ _ _)
        (by rw [hlt, heq]; rfl)) ?_
      refine Ev.congr ld (Ev.litInt ld) ?_
      simp [decSign_D4, hlt, heq]

/-- `fn.execute(n = decimal)` of the function made from the source of `sign` -/
theorem sign_calls_dec {s : State} {M nats srcs fn m'} (h : LibEnv s M nats srcs) (hn : ∀ x ∈ mathNats, x ∈ nats)
    (hs : ∀ p ∈ mathSrcs, p ∈ srcs) (hm : M m') (hsrc : IsSrc s fn math_sign m') (m : Int) (e : Nat) :
    ∃ s', Ext s s' ∧ ∀ env pos, Calls ld 21 fn [("n", .dec m e)] env pos s (.ok (.int (decSign_D4 m e)) s') :=
  calls_of_body1 ld (src := math_sign) (r := fun s' => .ok (.int (decSign_D4 m e)) s') rfl rfl rfl (by decide)
    h hm hsrc (.dec m e) (fun _ ctx _ => sign_body_dec ld ctx hn hs)

/-- the body of `abs` on a decimal that is NOT negative: the `else` branch, the argument itself -/
theorem abs_body_dec_nonneg {s : State} {M nats srcs c m'} {m : Int} {e : Nat}
    (ctx : Ctx s M nats srcs c m' [("n", .dec m e)]) (hnn : numLt m e 0 0 = false)
    (hn : ∀ x ∈ mathNats, x ∈ nats) (hs : ∀ p ∈ mathSrcs, p ∈ srcs) :
    ∃ s', Ext s s' ∧ Ev ld 20 c (lamBody math_abs) s (.ok (.dec m e) s') := by
  obtain ⟨g1, s1, e1, g2⟩ := guards ld (.dec m e) ctx hn hs
  have ctx1 := ctx.ext e1
  refine ⟨s1, e1, ?_⟩
  refine Ev.ite ld (EvIf.false ld (g1 _ _ _) (EvIf.false ld (g2 _ _ _ _) ?_))
  refine EvIf.false ld (s1 := s1) (Ev.congr ld (less_zero_dec_D4 ld ctx1 hn 12 _ _ _ _) (by rw [hnn])) ?_
  exact EvIf.else ld (Ev.ident ld (ctx1.var (x := "n") (by rfl)))

theorem abs_calls_dec_nonneg {s : State} {M nats srcs fn m'} (h : LibEnv s M nats srcs) (hn : ∀ x ∈ mathNats, x ∈ nats)
    (hs : ∀ p ∈ mathSrcs, p ∈ srcs) (hm : M m') (hsrc : IsSrc s fn math_abs m') (m : Int) (e : Nat)
    (hnn : numLt m e 0 0 = false) :
    ∃ s', Ext s s' ∧ ∀ env pos, Calls ld 21 fn [("n", .dec m e)] env pos s (.ok (.dec m e) s') :=
  calls_of_body1 ld (src := math_abs) (r := fun s' => .ok (.dec m e) s') rfl rfl rfl (by decide)
    h hm hsrc (.dec m e) (fun _ ctx _ => abs_body_dec_nonneg ld ctx hnn hn hs)

end Ckl.C19Src
