"""Generates MANIFEST.json from the table below (python -m harness.manifest_gen)."""
import json
import os

VERIF = os.path.dirname(os.path.dirname(os.path.abspath(__file__)))

CLAIMED = {
    "C06": ("6/C06", "Theorems (Lean 4, all values at any nesting depth): the code model of __eq__ (veq) is reflexive, symmetric and transitive, never "
            "relates values of different kinds, is exact rational equality between ints and decimals, and membership / map lookup / set "
            "construction (dedupKeepFirst, assocPut) cannot distinguish equal representatives; equal numbers have the same hash payload "
            "(normNum). Tied to ckl.values by an all-pairs correspondence run over generated values and by an independent reference "
            "equality (Fraction arithmetic, order-free containers) evaluated on the implementation, including hash congruence, all "
            "insertion orders of up to 5 elements and interpreted programs.",
            "Sets and maps are modelled in their enumeration order (canonical form built by mkSet/mkMap); values mixing dates with numbers "
            "inside one collection and -0.0 are outside the generators (DESIGN.md section 8); NaN is the recorded finding C06:nan-reflexivity."),
    "C07": ("6/C07", "Theorems (Lean 4, all values): on values of one kind the code model of __lt__ is irreflexive, asymmetric, transitive and trichotomous "
            "with ==; numeric order is the order of the rationals, strings are code-point lexicographic (proper prefix first), FALSE<TRUE, dates "
            "chronological, lists element-wise; compare/<=/>/>= are consistent; FuncSorted's insertion sort (sortedM) returns a sorted permutation "
            "and is stable for every strict weak order; any sorted permutation under a strict total order equals the model's (so CPython's "
            "sorted agrees); min/max return the first extremal element; set enumeration is independent of insertion order. Tied to the code "
            "by all-pairs correspondence per kind, exhaustive sorted() runs on lists with duplicate keys, and a reference order oracle.",
            "Cross-kind comparison (through rendered text) is mirrored but outside the theorems, as the property says 'values of one kind'."),
    "C15": ("6/C15", "Theorems (Lean 4, all lists and all integer indices): deref/slice/substr/find/find_last/insert_at/delete_at of the code model equal the "
            "textbook sequence operations (clamped contiguous run, least/greatest occurrence, one-position insert/delete) and the identities "
            "s[0 to k] + s[k to *] = s; tied to the code by an exhaustive small-domain correspondence run (all sequences of length <= 4/6 over "
            "3 symbols x all indices in [-9,9]) and an executable statement of the property on the implementation's own results.",
            "The model of Python's slice/find/rfind/list.insert/del (Layer 0) is validated by the same exhaustive runs, not proved; "
            "string indices by non-int values (kept int()/bool/decimal coercion) are not modelled."),
    "C17": ("6/C17", "Theorems (Lean 4, every year >= 1900, no upper bound): toDate and toOaDay of the code model are mutually inverse, the day number grows "
            "by exactly one per calendar day under the Gregorian rule, strictly monotone, anchors 1900-01-01=2 and 1970-01-01=25569, (d+n)-n=d, "
            "(d+n)-d=n, both while-loops terminate with explicit measures; tied to ckl.date by correspondence on the boundary days of every year "
            "(quick) / every calendar day 1900..9999 (thorough) and by datetime.date ordinals as an independent oracle.",
            "PARTIAL for the time of day: the code computes it in binary floating point and rounds to the millisecond; the model carries integer "
            "milliseconds, the float arithmetic is validated by correspondence (all seconds of sample days), not proved."),
}

PENDING = {}


def main():
    props = [json.loads(l) for l in open(os.path.join(VERIF, "properties.jsonl"))]
    checks = []
    na = []
    for p in props:
        pid = p["id"]
        if pid in CLAIMED:
            ref, text, note = CLAIMED[pid]
            checks.append({
                "property_id": pid,
                "quick_cmd": f"./check {pid} quick",
                "thorough_cmd": f"./check {pid} thorough",
                "evidence_file": f"/verif/evidence/{pid}.json",
                "replay_cmd_template": f"./check {pid} --replay {{path}}",
                "engine": "lean4-model+correspondence",
                "level_claimed": {"category": "proof", "text": text, "design_ref": "DESIGN.md section " + ref},
                "level_note": "Trusted base T1-T6 of DESIGN.md section 3 (Lean kernel; axioms propext, Classical.choice, Quot.sound; CPython primitive "
                              "behaviour; the correspondence harness). " + note,
                "technique": "Lean 4 theorems over a hand-written executable model + differential correspondence check against the implementation",
            })
        else:
            na.append({"property_id": pid, "reason": PENDING.get(pid, "check not built yet in this session (model slice pending); see DESIGN.md section 9 for the order of work")})
    man = {
        "version": 1,
        "setup_cmd": "./check --setup",
        "hooks": {
            "guard": "CKL_VERIF",
            "enable": "no hooks are needed: every observation point is reachable from outside (parse_script, Interpreter.interpret, ckl.values, audit hooks)",
            "baseline_off_cmd": "cd /repo && /venv/bin/python -m pytest -ra -q -p no:cacheprovider --timeout=900 --continue-on-collection-errors",
            "source_commits": [],
            "add_only": True,
        },
        "engines": [{"name": "lean4-model+correspondence", "path": "/verif/lean", "serves_properties": sorted(CLAIMED),
                     "kind_free_text": "Lean 4.33 lake project (executable model, theorems, compiled line-protocol driver) + Python harness (/verif/check)"}],
        "checks": checks,
        "notes": "Genuine defects of the pinned tree were repaired by unguarded 'fix:' commits in /repo (see known_findings.json, DESIGN.md section 7).",
        "not_applicable": na,
    }
    with open(os.path.join(VERIF, "MANIFEST.json"), "w") as fh:
        json.dump(man, fh, indent=1)
    print("claimed", sorted(CLAIMED), "not claimed", [x["property_id"] for x in na])


if __name__ == "__main__":
    main()
