import CklVerif.Proofs.C02GenSyntax
open Ckl.C02G
#print axioms add_mul_tables_agree
#print axioms peeks_agree
#print axioms relops_agree
#print axioms rel_functions_agree
#print axioms compound_assign_agree
#print axioms tower_agree
#print axioms tower_arity
