import CklVerif.Lemmas.C19SrcType

/-! C19Src — math.ckl: `abs`, `sign` -/
namespace Ckl.C19Src
open Ckl Ckl.C03 Ckl.Gen.LibSrc
variable (ld : Loader)

/-- built-ins `abs` and `sign` use (directly or through `is_numeric`) -/
def mathNats : List String := ["is_null", "less", "greater", "sub", "add", "type", "equals"]
/-- library functions `abs` and `sign` use -/
def mathSrcs : List (String × Node) :=
  [("is_numeric", type_is_numeric), ("is_int", type_is_int), ("is_decimal", type_is_decimal)]

theorem mathNats_type {nats : List String} (hn : ∀ x ∈ mathNats, x ∈ nats) : ∀ x ∈ typeNats, x ∈ nats := by
  intro x hx; apply hn; simp [typeNats] at hx; rcases hx with rfl | rfl <;> decide
theorem mathSrcs_numeric {srcs : List (String × Node)} (hs : ∀ p ∈ mathSrcs, p ∈ srcs) : ∀ p ∈ numericSrcs, p ∈ srcs := by
  intro p hp; apply hs; simp [numericSrcs] at hp; rcases hp with rfl | rfl <;> simp [mathSrcs]

/-- the first two tests of `abs` / `sign`: `is_null(n)` and `not is_numeric(n)` -/
theorem guards {s : State} {M nats srcs c m} (v : RVal)
    (ctx : Ctx s M nats srcs c m [("n", v)]) (hn : ∀ x ∈ mathNats, x ∈ nats) (hs : ∀ p ∈ mathSrcs, p ∈ srcs)
    :
    (∀ p1 p2 p3, Ev ld 18 c (.call (.ident "is_null" p1) [none] [.ident "n" p2] p3) s (.ok (.bool v.isNull) s)) ∧
    ∃ s1, Ext s s1 ∧ ∀ p4 p5 p6 p7,
      Ev ld 17 c (.not (.call (.ident "is_numeric" p4) [none] [.ident "n" p5] p6) p7) s (.ok (.bool (!v.isNumerical)) s1) := by
  constructor
  · intro p1 p2 p3
    obtain ⟨i, hl⟩ := ctx.nat (x := "is_null") (hn _ (by decide)) (by rfl)
    exact Ev.nat1 ld (k := 15) hl (by rfl) (by decide) (by trivial)
      (Ev.ident ld (ctx.var (x := "n") (by rfl))) (pure_is_null _ _ _) rfl
  · obtain ⟨f1, m1, hl1, hm1, hsrc1⟩ := ctx.src (x := "is_numeric") (src := type_is_numeric) (hs _ (by simp [mathSrcs])) (by rfl)
    obtain ⟨s1, e1, c1⟩ := is_numeric_calls ld ctx.env (mathNats_type hn) (mathSrcs_numeric hs) hm1 hsrc1 v
    refine ⟨s1, e1, fun p4 p5 p6 p7 => ?_⟩
    have E1 := Ev.callSrc1 ld (k := 13) (p := p4) hl1 hsrc1 rfl (by decide) (by trivial)
      (Ev.ident ld (p := p5) (ctx.var (x := "n") (by rfl))) (Calls.mono ld (c1 c p6) (by decide))
    rw [wrapCall_ok] at E1
    exact Ev.not ld E1

/-- `n < 0` on ints, in the call frame -/
theorem less_zero_int {s : State} {M nats srcs c m} {n : Int} (ctx : Ctx s M nats srcs c m [("n", .int n)])
    (hn : ∀ x ∈ mathNats, x ∈ nats) (k : Nat) (p1 p2 p3 p4 : Pos) :
    Ev ld (k + 4) c (.call (.ident "less" p1) [some "a", some "b"] [.ident "n" p2, .lit (.int 0) p3] p4) s
      (.ok (.bool (decide (n < 0))) s) := by
  obtain ⟨i, hl⟩ := ctx.nat (x := "less") (hn _ (by decide)) (by rfl)
  refine Ev.congr ld (Ev.natAB ld (k := k) hl (by rfl) (by trivial) (by trivial)
    (Ev.ident ld (ctx.var (x := "n") (by rfl))) (Ev.litInt ld) (pure_less _ _ _ _) rfl) ?_
  simp [EvalM.bind_apply, cmpLt_int, EvalM.pure_apply, boolV]

/-- the body of `abs` on an int -/
theorem abs_body_int {s : State} {M nats srcs c m} {n : Int} (ctx : Ctx s M nats srcs c m [("n", .int n)])
    (hn : ∀ x ∈ mathNats, x ∈ nats) (hs : ∀ p ∈ mathSrcs, p ∈ srcs) :
    ∃ s', Ext s s' ∧ Ev ld 20 c (lamBody math_abs) s (.ok (.int n.natAbs) s') := by
  obtain ⟨g1, s1, e1, g2⟩ := guards ld (.int n) ctx hn hs
  have ctx1 := ctx.ext e1
  refine ⟨s1, e1, ?_⟩
  refine Ev.ite ld (EvIf.false ld (g1 _ _ _) (EvIf.false ld (g2 _ _ _ _) ?_))
  by_cases hlt : n < 0
  · refine EvIf.true ld (s1 := s1) (Ev.congr ld (less_zero_int ld ctx1 hn 12 _ _ _ _) (by simp [hlt])) ?_
    obtain ⟨i, hl⟩ := ctx1.nat (x := "sub") (hn _ (by decide)) (by rfl)
    refine Ev.congr ld (Ev.natAB ld (k := 12) hl (by rfl) (by trivial) (by trivial)
      (Ev.litInt ld) (Ev.ident ld (ctx1.var (x := "n") (by rfl))) (pure_sub _ _ _ _) (nativeSub_int _ _ _ _)) ?_
    simp only [wrapCall_ok]
    congr 2; omega
  · refine EvIf.false ld (s1 := s1) (Ev.congr ld (less_zero_int ld ctx1 hn 12 _ _ _ _) (by simp [hlt])) ?_
    refine EvIf.else ld (Ev.congr ld (Ev.ident ld (ctx1.var (x := "n") (by rfl))) ?_)
    congr 2; omega

/-- `fn.execute(n = int)` of the function made from the source of `abs`: |n| -/
theorem abs_calls_int {s : State} {M nats srcs fn m} (h : LibEnv s M nats srcs) (hn : ∀ x ∈ mathNats, x ∈ nats)
    (hs : ∀ p ∈ mathSrcs, p ∈ srcs) (hm : M m) (hsrc : IsSrc s fn math_abs m) (n : Int) :
    ∃ s', Ext s s' ∧ ∀ env pos, Calls ld 21 fn [("n", .int n)] env pos s (.ok (.int n.natAbs) s') :=
  calls_of_body1 ld (src := math_abs) (r := fun s' => .ok (.int n.natAbs) s') rfl rfl rfl (by decide)
    h hm hsrc (.int n) (fun _ ctx _ => abs_body_int ld ctx hn hs)

/-- the shared head of `abs` and `sign`: `if is_null(n) then NULL if not is_numeric(n) then error(…) …` on NULL -/
theorem abs_calls_null {s : State} {M nats srcs fn m} (h : LibEnv s M nats srcs) (hn : ∀ x ∈ mathNats, x ∈ nats)
    (hm : M m) (hsrc : IsSrc s fn math_abs m) :
    ∃ s', Ext s s' ∧ ∀ env pos, Calls ld 21 fn [("n", .null)] env pos s (.ok .null s') :=
  calls_of_body1 ld (src := math_abs) (r := fun s' => .ok .null s') rfl rfl rfl (by decide)
    h hm hsrc .null (fun s0 ctx _ => ⟨s0, Ext.refl _, by
      obtain ⟨i, hl⟩ := ctx.nat (x := "is_null") (hn _ (by decide)) (by rfl)
      exact Ev.ite ld (EvIf.true ld (Ev.nat1 ld (k := 15) hl (by rfl) (by decide) (by trivial)
        (Ev.ident ld (ctx.var (x := "n") (by rfl))) (pure_is_null _ _ _) rfl)
        (Ev.ident ld (ctx.null (by rfl))))⟩)

/-- `n > 0` on ints, in the call frame -/
theorem greater_zero_int {s : State} {M nats srcs c m} {n : Int} (ctx : Ctx s M nats srcs c m [("n", .int n)])
    (hn : ∀ x ∈ mathNats, x ∈ nats) (k : Nat) (p1 p2 p3 p4 : Pos) :
    Ev ld (k + 4) c (.call (.ident "greater" p1) [some "a", some "b"] [.ident "n" p2, .lit (.int 0) p3] p4) s
      (.ok (.bool (decide (0 < n))) s) := by
  obtain ⟨i, hl⟩ := ctx.nat (x := "greater") (hn _ (by decide)) (by rfl)
  refine Ev.congr ld (Ev.natAB ld (k := k) hl (by rfl) (by trivial) (by trivial)
    (Ev.ident ld (ctx.var (x := "n") (by rfl))) (Ev.litInt ld) (pure_greater _ _ _ _) rfl) ?_
  simp [EvalM.bind_apply, cmpGt_int, EvalM.pure_apply, boolV]

/-- the body of `sign` on an int -/
theorem sign_body_int {s : State} {M nats srcs c m} {n : Int} (ctx : Ctx s M nats srcs c m [("n", .int n)])
    (hn : ∀ x ∈ mathNats, x ∈ nats) (hs : ∀ p ∈ mathSrcs, p ∈ srcs) :
    ∃ s', Ext s s' ∧ Ev ld 20 c (lamBody math_sign) s (.ok (.int n.sign) s') := by
  obtain ⟨g1, s1, e1, g2⟩ := guards ld (.int n) ctx hn hs
  have ctx1 := ctx.ext e1
  refine ⟨s1, e1, ?_⟩
  refine Ev.ite ld (EvIf.false ld (g1 _ _ _) (EvIf.false ld (g2 _ _ _ _) ?_))
  by_cases hlt : n < 0
  · refine EvIf.true ld (s1 := s1) (Ev.congr ld (less_zero_int ld ctx1 hn 12 _ _ _ _) (by simp [hlt])) ?_
    refine Ev.congr ld (Ev.litInt ld) ?_
    rw [Int.sign_eq_neg_one_of_neg hlt]
  · refine EvIf.false ld (s1 := s1) (Ev.congr ld (less_zero_int ld ctx1 hn 12 _ _ _ _) (by simp [hlt])) ?_
    by_cases hgt : 0 < n
    · refine EvIf.true ld (s1 := s1) (Ev.congr ld (greater_zero_int ld ctx1 hn 11 _ _ _ _) (by simp [hgt])) ?_
      refine Ev.congr ld (Ev.litInt ld) ?_
      rw [Int.sign_eq_one_of_pos hgt]
    · refine EvIf.false ld (s1 := s1) (Ev.congr ld (greater_zero_int ld ctx1 hn 11 _ _ _ _) (by simp [hgt])) ?_
      refine EvIf.else ld (Ev.congr ld (Ev.litInt ld) ?_)
      have : n = 0 := by omega
      subst this; rfl

/-- `fn.execute(n = int)` of the function made from the source of `sign`: sgn n -/
theorem sign_calls_int {s : State} {M nats srcs fn m} (h : LibEnv s M nats srcs) (hn : ∀ x ∈ mathNats, x ∈ nats)
    (hs : ∀ p ∈ mathSrcs, p ∈ srcs) (hm : M m) (hsrc : IsSrc s fn math_sign m) (n : Int) :
    ∃ s', Ext s s' ∧ ∀ env pos, Calls ld 21 fn [("n", .int n)] env pos s (.ok (.int n.sign) s') :=
  calls_of_body1 ld (src := math_sign) (r := fun s' => .ok (.int n.sign) s') rfl rfl rfl (by decide)
    h hm hsrc (.int n) (fun _ ctx _ => sign_body_int ld ctx hn hs)

theorem sign_calls_null {s : State} {M nats srcs fn m} (h : LibEnv s M nats srcs) (hn : ∀ x ∈ mathNats, x ∈ nats)
    (hm : M m) (hsrc : IsSrc s fn math_sign m) :
    ∃ s', Ext s s' ∧ ∀ env pos, Calls ld 21 fn [("n", .null)] env pos s (.ok .null s') :=
  calls_of_body1 ld (src := math_sign) (r := fun s' => .ok .null s') rfl rfl rfl (by decide)
    h hm hsrc .null (fun s0 ctx _ => ⟨s0, Ext.refl _, by
      obtain ⟨i, hl⟩ := ctx.nat (x := "is_null") (hn _ (by decide)) (by rfl)
      exact Ev.ite ld (EvIf.true ld (Ev.nat1 ld (k := 15) hl (by rfl) (by decide) (by trivial)
        (Ev.ident ld (ctx.var (x := "n") (by rfl))) (pure_is_null _ _ _) rfl)
        (Ev.ident ld (ctx.null (by rfl))))⟩)

/-! ### the error branch: a non-NULL, non-numeric argument -/

/-- position of the `error(…)` node in the second branch of the `if` chain of `abs` / `sign` -/
def errPos : Node → Pos
  | .ite _ (_ :: .error _ p :: _) _ _ => p
  | _ => default

/-- the text of the error value -/
def notNumericalMsg (tn : String) : List Char :=
  ("argument is not numerical (".toList ++ tn.toList) ++ [')']

/-- `error("argument is not numerical (" + type(n) + ")")` in the call frame -/
theorem error_branch {s : State} {M nats srcs c m} (v : RVal) (ctx : Ctx s M nats srcs c m [("n", v)])
    (hn : ∀ x ∈ mathNats, x ∈ nats) (p : Pos) (q1 q2 q3 q4 q5 q6 q7 q8 q9 : Pos) :
    Ev ld 17 c (.error (.call (.ident "add" q1) [some "a", some "b"]
        [.call (.ident "add" q2) [some "a", some "b"]
          [.lit (.str "argument is not numerical (".toList) q3, .call (.ident "type" q4) [none] [.ident "n" q5] q6] q7,
         .lit (.str [')']) q8] q9) p) s
      (.err (.str (notNumericalMsg (typeName s v))) "" p [] s) := by
  obtain ⟨i, hadd⟩ := ctx.nat (x := "add") (hn _ (by decide)) (by rfl)
  obtain ⟨j, hty⟩ := ctx.nat (x := "type") (hn _ (by decide)) (by rfl)
  have T : Ev ld 8 c (.call (.ident "type" q4) [none] [.ident "n" q5] q6) s (.ok (.str (typeName s v).toList) s) :=
    Ev.nat1 ld (k := 5) hty (by rfl) (by decide) (by trivial) (Ev.ident ld (ctx.var (x := "n") (by rfl)))
      (pure_type _ _ _) rfl
  have A1 := Ev.natAB ld (k := 8) (p := q2) (pos := q7) hadd (by rfl) (by trivial) (by trivial)
    (Ev.litStr ld (p := q3) (t := "argument is not numerical (".toList)) T (pure_add _ _ _ _) (nativeAdd_str _ _ _ _)
  rw [wrapCall_ok] at A1
  have A2 := Ev.natAB ld (k := 12) (p := q1) (pos := q9) hadd (by rfl) (by trivial) (by trivial)
    A1 (Ev.litStr ld (p := q8) (t := [')'])) (pure_add _ _ _ _) (nativeAdd_str _ _ _ _)
  rw [wrapCall_ok] at A2
  exact Ev.error ld A2

/-- the body of `abs` on a value that is neither NULL nor numeric: the runtime error whose VALUE is the message -/
theorem abs_body_err {s : State} {M nats srcs c m} (v : RVal) (h0 : v.isNull = false) (h1 : v.isNumerical = false)
    (ctx : Ctx s M nats srcs c m [("n", v)]) (hn : ∀ x ∈ mathNats, x ∈ nats) (hs : ∀ p ∈ mathSrcs, p ∈ srcs) :
    ∃ s', Ext s s' ∧ Ev ld 20 c (lamBody math_abs) s
      (.err (.str (notNumericalMsg (typeName s' v))) "" (errPos (lamBody math_abs)) [] s') := by
  obtain ⟨g1, s1, e1, g2⟩ := guards ld v ctx hn hs
  have ctx1 := ctx.ext e1
  refine ⟨s1, e1, ?_⟩
  rw [h0] at g1; rw [h1] at g2
  exact Ev.ite ld (EvIf.false ld (g1 _ _ _) (EvIf.true ld (g2 _ _ _ _) (error_branch ld v ctx1 hn _ _ _ _ _ _ _ _ _ _)))

theorem sign_body_err {s : State} {M nats srcs c m} (v : RVal) (h0 : v.isNull = false) (h1 : v.isNumerical = false)
    (ctx : Ctx s M nats srcs c m [("n", v)]) (hn : ∀ x ∈ mathNats, x ∈ nats) (hs : ∀ p ∈ mathSrcs, p ∈ srcs) :
    ∃ s', Ext s s' ∧ Ev ld 20 c (lamBody math_sign) s
      (.err (.str (notNumericalMsg (typeName s' v))) "" (errPos (lamBody math_sign)) [] s') := by
  obtain ⟨g1, s1, e1, g2⟩ := guards ld v ctx hn hs
  have ctx1 := ctx.ext e1
  refine ⟨s1, e1, ?_⟩
  rw [h0] at g1; rw [h1] at g2
  exact Ev.ite ld (EvIf.false ld (g1 _ _ _) (EvIf.true ld (g2 _ _ _ _) (error_branch ld v ctx1 hn _ _ _ _ _ _ _ _ _ _)))

theorem abs_calls_err {s : State} {M nats srcs fn m} (h : LibEnv s M nats srcs) (hn : ∀ x ∈ mathNats, x ∈ nats)
    (hs : ∀ p ∈ mathSrcs, p ∈ srcs) (hm : M m) (hsrc : IsSrc s fn math_abs m)
    (v : RVal) (h0 : v.isNull = false) (h1 : v.isNumerical = false) :
    ∃ s', Ext s s' ∧ ∀ env pos, Calls ld 21 fn [("n", v)] env pos s
      (.err (.str (notNumericalMsg (typeName s' v))) "" (errPos (lamBody math_abs)) [] s') :=
  calls_of_body1 ld (src := math_abs)
    (r := fun s' => .err (.str (notNumericalMsg (typeName s' v))) "" (errPos (lamBody math_abs)) [] s') rfl rfl rfl (by decide)
    h hm hsrc v (fun _ ctx _ => abs_body_err ld v h0 h1 ctx hn hs)

theorem sign_calls_err {s : State} {M nats srcs fn m} (h : LibEnv s M nats srcs) (hn : ∀ x ∈ mathNats, x ∈ nats)
    (hs : ∀ p ∈ mathSrcs, p ∈ srcs) (hm : M m) (hsrc : IsSrc s fn math_sign m)
    (v : RVal) (h0 : v.isNull = false) (h1 : v.isNumerical = false) :
    ∃ s', Ext s s' ∧ ∀ env pos, Calls ld 21 fn [("n", v)] env pos s
      (.err (.str (notNumericalMsg (typeName s' v))) "" (errPos (lamBody math_sign)) [] s') :=
  calls_of_body1 ld (src := math_sign)
    (r := fun s' => .err (.str (notNumericalMsg (typeName s' v))) "" (errPos (lamBody math_sign)) [] s') rfl rfl rfl (by decide)
    h hm hsrc v (fun _ ctx _ => sign_body_err ld v h0 h1 ctx hn hs)

end Ckl.C19Src
