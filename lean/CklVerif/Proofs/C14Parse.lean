/-
  C14 (parser half) and C20 (parser half).

  C14: changing only the layout of a program never changes its meaning.  The scanner half
  (`Proofs/C14Lexer.lean`) shows that a layout change leaves the (value, type) sequence of the
  tokens alone and only moves their positions.  Here: the parser looks at token positions only to
  copy them into the AST (and into syntax errors).

  The core statement is *equivariance* (`parse_equivariant`): for every renaming `f : Pos → Pos`,
  parsing the tokens with renamed positions yields the AST (or the syntax error) of the original
  tokens with every position renamed by `f` — same shape, same names, same literals, same message.
  It is proved by the very well-founded induction the parser model is defined by: one simulation
  lemma per production (49 mutually recursive functions, `Lemmas/C14ParseSim{A,B,C,D}.lean`),
  assembled in `Lemmas/C14ParseMain.lean` (`hyp_all`).

  Consequences:
    * `parse_pos_irrelevant`   (C14) token lists that agree up to positions give ASTs that agree up
                               to positions, or syntax errors with the same message and `eof` flag;
    * `parse_layout_irrelevant` (C14) with the scanner theorem: white space / comments inserted at a
                               token boundary change the AST of `parseScript` only in its positions;
    * `positions_from_tokens`  (C20) every position in the AST (and the position of a syntax error) is
                               the position of one of the input tokens — the parser never invents one;
    * no production lets a position influence the *shape* of the AST (no finding).

  No error message of the parser embeds a position (`tokRepr` prints value and type only).
-/
import CklVerif.Lemmas.C14ParseMain
import CklVerif.Lemmas.C14ParsePositions
import CklVerif.Lemmas.C14ParseLex
import CklVerif.Lemmas.C02ParseEqns
import CklVerif.Proofs.C14Lexer
import CklVerif.Model.Front
namespace Ckl.C14P
open Ckl Ckl.Parser

/-- the same tokens up to positions -/
def TokSim (ts ts' : List Token) : Prop :=
  ts.map (fun t => (t.value, t.type)) = ts'.map (fun t => (t.value, t.type))

/-- `C02P.erase` (all positions set to `default`) -/
abbrev erase := C02P.erase

/-! ### equivariance -/

/-- **parse_equivariant**: renaming the positions of the tokens by `f` renames the positions of the
    AST / of the syntax error by `f` and changes nothing else.  (For the empty token list the AST
    is `null` at the start `⟨file, 1, 1⟩` of the file, so `f` has to fix that position.) -/
theorem parse_equivariant (f : Pos → Pos) (validRe : List Char → Bool) (file : String) (ts : List Token)
    (h0 : ts = [] → f ⟨file, 1, 1⟩ = ⟨file, 1, 1⟩) :
    parseWith validRe file (ts.map (tokMap f)) =
      match parseWith validRe file ts with
      | .ok n => .ok (mapPos f n)
      | .error e => .error (mapErr f e) :=
  parseWith_equivariant f validRe file ts h0

/-- **production_equivariant**: the same for every single production of the parser, for lexer
    states with arbitrary `prev` and contexts with arbitrary `endPos` (fields of `Hyp`, e.g.
    `(production_equivariant f k).pExpression`) -/
theorem production_equivariant (f : Pos → Pos) (k : Nat) : Hyp f k := hyp_all f k

/-! ### C14: positions are irrelevant -/

/-- what is left of a parse outcome when positions are forgotten -/
def outcome (r : Except SynErr Node) : Except (String × Bool) Node :=
  match r with
  | .ok n => .ok (erase n)
  | .error e => .error (e.msg, e.eof)

theorem tokSim_map {ts ts' : List Token} (h : TokSim ts ts') :
    ts.map (tokMap fun _ => default) = ts'.map (tokMap fun _ => default) := by
  have key : ∀ l : List Token, l.map (tokMap fun _ => default) =
      (l.map (fun t => (t.value, t.type))).map (fun p => (⟨p.1, p.2, default⟩ : Token)) := by
    intro l; simp [List.map_map, Function.comp_def, tokMap]
  rw [key, key, h]

/-- token lists that agree up to positions have the same outcome up to positions -/
theorem outcome_eq (validRe : List Char → Bool) (file : String) {ts ts' : List Token} (h : TokSim ts ts') :
    outcome (parseWith validRe file ts) = outcome (parseWith validRe file ts') := by
  cases ts with
  | nil =>
    cases ts' with
    | nil => rfl
    | cons t' tl' => simp [TokSim] at h
  | cons t0 tl =>
    cases ts' with
    | nil => simp [TokSim] at h
    | cons t0' tl' =>
      have e1 := parse_equivariant (fun _ => default) validRe file (t0 :: tl) (by intro h; cases h)
      have e2 := parse_equivariant (fun _ => default) validRe file (t0' :: tl') (by intro h; cases h)
      rw [tokSim_map h] at e1
      rw [e1] at e2
      revert e2
      cases parseWith validRe file (t0 :: tl) with
      | ok n =>
        cases parseWith validRe file (t0' :: tl') with
        | ok n' =>
          intro e2
          simp only [Except.ok.injEq] at e2
          simp only [outcome, erase, erase_eq_mapPos, e2]
        | error e' => intro e2; cases e2
      | error e =>
        cases parseWith validRe file (t0' :: tl') with
        | ok n' => intro e2; cases e2
        | error e' =>
          intro e2
          simp only [Except.error.injEq, mapErr, SynErr.mk.injEq] at e2
          simp only [outcome, e2.1, e2.2.2]

/-- **parse_pos_irrelevant** (flagship, C14): if two token lists agree up to positions, then
    * if one parses to `n`, the other parses to some `n'` that differs from `n` only in positions;
    * if one fails with the syntax error `e`, the other fails with an error with the same message
      and `eof` flag (no message of the parser embeds a position). -/
theorem parse_pos_irrelevant (validRe : List Char → Bool) (file : String) {ts ts' : List Token}
    (h : TokSim ts ts') :
    (∀ n, parseWith validRe file ts = .ok n →
      ∃ n', parseWith validRe file ts' = .ok n' ∧ erase n = erase n') ∧
    (∀ e, parseWith validRe file ts = .error e →
      ∃ e', parseWith validRe file ts' = .error e' ∧ e.msg = e'.msg ∧ e.eof = e'.eof) := by
  have ho := outcome_eq validRe file h
  constructor
  · intro n hn
    rw [hn] at ho
    cases h' : parseWith validRe file ts' with
    | ok n' => rw [h'] at ho; simp only [outcome, Except.ok.injEq] at ho; exact ⟨n', rfl, ho⟩
    | error e' => rw [h'] at ho; cases ho
  · intro e he
    rw [he] at ho
    cases h' : parseWith validRe file ts' with
    | ok n' => rw [h'] at ho; cases ho
    | error e' =>
      rw [h'] at ho
      simp only [outcome, Except.error.injEq, Prod.mk.injEq] at ho
      exact ⟨e', rfl, ho.1, ho.2⟩

/-! ### C14: layout is irrelevant (`parseScript`) -/

/-- what is left of the outcome of `parseScript` when positions are forgotten: the AST up to
    positions, or the message of the syntax error (of the scanner or of the parser) -/
def scriptOutcome (r : Except SynErr Node) : Except String Node :=
  match r with
  | .ok n => .ok (erase n)
  | .error e => .error e.msg

/-- **parse_layout_irrelevant** (C14): under exactly the hypotheses of `C14.layout_insertion`
    — `u` ends at a token boundary (after `u` the scanner automaton is in state 0) and `w` is a
    filler made of white-space characters and complete comments `#…⏎` — the programs
    `u ++ w ++ v` and `u ++ v` parse to ASTs that are equal up to positions, or both are rejected
    with the same message. -/
theorem parse_layout_irrelevant (validRe : List Char → Bool) (name : String) (u w v : List Char)
    (hu : C14.AtBoundary name u) (hw : Lexer.Filler w) :
    scriptOutcome (parseScriptWith validRe (u ++ w ++ v) name) =
      scriptOutcome (parseScriptWith validRe (u ++ v) name) := by
  have hl := Lexer.layout_insertion_msg name u w v hu hw
  unfold parseScriptWith
  revert hl
  cases Lexer.scan (u ++ w ++ v) name with
  | error e =>
    cases Lexer.scan (u ++ v) name with
    | error e' =>
      intro hl
      simp only [Lexer.scanTV, Except.error.injEq] at hl
      simp only [bind, Except.bind, scriptOutcome, hl]
    | ok l' => intro hl; cases hl
  | ok l =>
    cases Lexer.scan (u ++ v) name with
    | error e' => intro hl; cases hl
    | ok l' =>
      intro hl
      simp only [Lexer.scanTV, Except.ok.injEq] at hl
      have hts : TokSim l l' := hl
      have ho := outcome_eq validRe name hts
      simp only [bind, Except.bind]
      revert ho
      cases parseWith validRe name l <;> cases parseWith validRe name l' <;> intro ho <;>
        simp only [outcome, Except.ok.injEq, Except.error.injEq, Prod.mk.injEq, reduceCtorEq] at ho <;>
        simp only [scriptOutcome, ho]

/-- the same, spelled out for `parseScript` -/
theorem parseScript_layout (name : String) (u w v : List Char) (hu : C14.AtBoundary name u)
    (hw : Lexer.Filler w) :
    (∀ n, parseScript (u ++ w ++ v) name = .ok n →
      ∃ n', parseScript (u ++ v) name = .ok n' ∧ erase n = erase n') ∧
    (∀ e, parseScript (u ++ w ++ v) name = .error e →
      ∃ e', parseScript (u ++ v) name = .error e' ∧ e.msg = e'.msg) := by
  have ho := parse_layout_irrelevant (fun _ => true) name u w v hu hw
  unfold parseScript
  constructor
  · intro n hn
    rw [hn] at ho
    cases h' : parseScriptWith (fun _ => true) (u ++ v) name with
    | ok n' => rw [h'] at ho; simp only [scriptOutcome, Except.ok.injEq] at ho; exact ⟨n', rfl, ho⟩
    | error e' => rw [h'] at ho; cases ho
  · intro e he
    rw [he] at ho
    cases h' : parseScriptWith (fun _ => true) (u ++ v) name with
    | ok n' => rw [h'] at ho; cases ho
    | error e' =>
      rw [h'] at ho
      simp only [scriptOutcome, Except.error.injEq] at ho
      exact ⟨e', rfl, ho⟩

/-! ### C20: the parser never invents a position -/

/-- a renaming that fixes the positions of all tokens leaves the token list alone -/
theorem map_tokMap_fixed (f : Pos → Pos) (ts : List Token) (h : ∀ t ∈ ts, f t.pos = t.pos) :
    ts.map (tokMap f) = ts := by
  induction ts with
  | nil => rfl
  | cons t tl ih =>
    simp only [List.map_cons, List.cons.injEq]
    refine ⟨?_, ih (fun t' ht' => h t' (List.mem_cons_of_mem _ ht'))⟩
    obtain ⟨v, ty, p⟩ := t
    simp only [tokMap, Token.mk.injEq, true_and]
    exact h _ (List.mem_cons_self ..)

/-- the renaming that is the identity on the token positions and collapses every other position
    onto the first token's position -/
def collapse (t0 : Token) (tl : List Token) (q : Pos) : Pos :=
  if q ∈ (t0 :: tl).map (·.pos) then q else t0.pos

theorem collapse_fixed {t0 : Token} {tl : List Token} {q : Pos} (h : collapse t0 tl q = q) :
    q ∈ (t0 :: tl).map (·.pos) := by
  unfold collapse at h
  split at h
  · assumption
  · rw [← h]; simp

theorem collapse_tokens (t0 : Token) (tl : List Token) :
    (t0 :: tl).map (tokMap (collapse t0 tl)) = t0 :: tl := by
  apply map_tokMap_fixed
  intro t ht
  unfold collapse
  rw [if_pos (List.mem_map_of_mem ht)]

/-- **positions_from_tokens** (C20): every position that occurs in the parsed AST is the position
    of one of the input tokens; the only exception is the empty program, whose AST is `null` at
    the start `⟨file, 1, 1⟩` of the file.  (Inside the productions the model also uses `St.prev`
    — the position of the previously consumed token, at the start the first token's position —
    and `Ctx.endPos` — the last token's position —, see `production_equivariant`; at top level
    both are token positions.) -/
theorem positions_from_tokens (validRe : List Char → Bool) (file : String) (ts : List Token) (n : Node)
    (h : parseWith validRe file ts = .ok n) :
    ∀ p ∈ positions n, p ∈ ts.map (·.pos) ∨ (ts = [] ∧ p = ⟨file, 1, 1⟩) := by
  cases ts with
  | nil =>
    simp only [parseWith, parseCore, Except.ok.injEq] at h
    subst h
    intro p hp
    simp only [positions, List.mem_singleton] at hp
    exact Or.inr ⟨rfl, hp⟩
  | cons t0 tl =>
    intro p hp
    left
    have he := parse_equivariant (collapse t0 tl) validRe file (t0 :: tl) (by intro h; cases h)
    rw [collapse_tokens, h] at he
    simp only [Except.ok.injEq] at he
    exact collapse_fixed (positions_fixed _ n he.symm p hp)

/-- … and the position of a syntax error is the position of one of the input tokens -/
theorem error_position_from_tokens (validRe : List Char → Bool) (file : String) (ts : List Token) (e : SynErr)
    (h : parseWith validRe file ts = .error e) : e.pos ∈ ts.map (·.pos) := by
  cases ts with
  | nil => simp [parseWith, parseCore] at h
  | cons t0 tl =>
    have he := parse_equivariant (collapse t0 tl) validRe file (t0 :: tl) (by intro h; cases h)
    rw [collapse_tokens, h] at he
    simp only [Except.error.injEq, mapErr] at he
    have : collapse t0 tl e.pos = e.pos := by
      have := congrArg SynErr.pos he
      exact this.symm
    exact collapse_fixed this

/-! ### C20 inside the productions: token positions, `St.prev`, `Ctx.endPos` -/

/-- the identity on `S`, everything else is sent to `q0` -/
def collapseTo (S : List Pos) (q0 : Pos) (q : Pos) : Pos := if q ∈ S then q else q0

theorem collapseTo_fixed {S : List Pos} {q0 q : Pos} (h0 : q0 ∈ S) (h : collapseTo S q0 q = q) : q ∈ S := by
  unfold collapseTo at h
  split at h
  · assumption
  · rw [← h]; exact h0

/-- the positions a production may use: `St.prev`, `Ctx.endPos` and the positions of the remaining tokens -/
def allowed (c : Ctx) (st : St) : List Pos := st.prev :: c.endPos :: st.toks.map (·.pos)

theorem allowed_rel (c : Ctx) (st : St) :
    CRel (collapseTo (allowed c st) st.prev) c c ∧ SRel (collapseTo (allowed c st) st.prev) st st := by
  have hfix : ∀ q ∈ allowed c st, collapseTo (allowed c st) st.prev q = q := by
    intro q hq; unfold collapseTo; rw [if_pos hq]
  refine ⟨⟨(hfix _ (by simp [allowed])).symm, rfl⟩, ⟨(hfix _ (by simp [allowed])).symm, ?_⟩⟩
  exact (map_tokMap_fixed _ _ (fun t ht => hfix _ (by
    simp only [allowed, List.mem_cons, List.mem_map]
    exact Or.inr (Or.inr ⟨t, ht, rfl⟩)))).symm

/-- a run that is related to itself under `collapseTo S` has all its positions in `S` -/
theorem positions_of_self_rel {c : Ctx} {st : St} {n : Nat} {r : R Node n}
    (h : ERel (collapseTo (allowed c st) st.prev) (OLt (collapseTo (allowed c st) st.prev)
      (NR (collapseTo (allowed c st) st.prev))) r r) :
    (∀ o, r = .ok o → ∀ p ∈ positions o.val, p ∈ allowed c st) ∧
    (∀ e, r = .error e → e.val.pos ∈ allowed c st) := by
  have h0 : st.prev ∈ allowed c st := by simp [allowed]
  constructor
  · intro o ho p hp
    subst ho
    exact collapseTo_fixed h0 (positions_fixed _ o.val h.1.symm p hp)
  · intro e he
    subst he
    exact collapseTo_fixed h0 h.2.symm

/-- **production_positions** (C20, per production): in a statement, an expression, a block or a bare
    block parsed from the lexer state `st` in the context `c`, every position of the AST — and the
    position of a syntax error — is `St.prev`, `Ctx.endPos` or the position of one of the remaining
    tokens.  (The same follows for each of the 49 productions from `production_equivariant`.) -/
theorem production_positions (c : Ctx) (st : St) :
    ((∀ o, pStatement c st = .ok o → ∀ p ∈ positions o.val, p ∈ allowed c st) ∧
      (∀ e, pStatement c st = .error e → e.val.pos ∈ allowed c st)) ∧
    ((∀ o, pExpression c st = .ok o → ∀ p ∈ positions o.val, p ∈ allowed c st) ∧
      (∀ e, pExpression c st = .error e → e.val.pos ∈ allowed c st)) ∧
    ((∀ o, pBlock c st = .ok o → ∀ p ∈ positions o.val, p ∈ allowed c st) ∧
      (∀ e, pBlock c st = .error e → e.val.pos ∈ allowed c st)) ∧
    (∀ tl, (∀ o, pBareBlock c tl st = .ok o → ∀ p ∈ positions o.val, p ∈ allowed c st) ∧
      (∀ e, pBareBlock c tl st = .error e → e.val.pos ∈ allowed c st)) := by
  obtain ⟨hc, hs⟩ := allowed_rel c st
  have H := hyp_at (collapseTo (allowed c st) st.prev) st.toks.length
  exact ⟨positions_of_self_rel (H.pStatement hc hs (by omega)),
    positions_of_self_rel (H.pExpression hc hs (by omega)),
    positions_of_self_rel (H.pBlock hc hs (by omega)),
    fun tl => positions_of_self_rel (H.pBareBlock tl hc hs (by omega))⟩

/-! ### non-vacuity: `def f(x) do x + 1; end; f(2)` in two layouts -/

/-- the tokens of `def f(x) do x + 1; end; f(2)` written on one line -/
def ex1 : List Token :=
  [⟨c!"def", .keyword, ⟨"-", 1, 1⟩⟩, ⟨c!"f", .identifier, ⟨"-", 1, 5⟩⟩, ⟨c!"(", .interpunction, ⟨"-", 1, 6⟩⟩,
   ⟨c!"x", .identifier, ⟨"-", 1, 7⟩⟩, ⟨c!")", .interpunction, ⟨"-", 1, 8⟩⟩, ⟨c!"do", .keyword, ⟨"-", 1, 10⟩⟩,
   ⟨c!"x", .identifier, ⟨"-", 1, 13⟩⟩, ⟨c!"+", .operator, ⟨"-", 1, 16⟩⟩, ⟨c!"1", .int, ⟨"-", 1, 17⟩⟩,
   ⟨c!";", .interpunction, ⟨"-", 1, 18⟩⟩, ⟨c!"end", .keyword, ⟨"-", 1, 20⟩⟩, ⟨c!";", .interpunction, ⟨"-", 1, 23⟩⟩,
   ⟨c!"f", .identifier, ⟨"-", 1, 25⟩⟩, ⟨c!"(", .interpunction, ⟨"-", 1, 26⟩⟩, ⟨c!"2", .int, ⟨"-", 1, 27⟩⟩,
   ⟨c!")", .interpunction, ⟨"-", 1, 28⟩⟩]

/-- the tokens of the same program written on five lines, with a comment
    (`def f(x) do⏎  x + 1;   # body⏎end;⏎⏎f(2)`), as the scanner model positions them -/
def ex2 : List Token :=
  [⟨c!"def", .keyword, ⟨"-", 1, 1⟩⟩, ⟨c!"f", .identifier, ⟨"-", 1, 5⟩⟩, ⟨c!"(", .interpunction, ⟨"-", 1, 6⟩⟩,
   ⟨c!"x", .identifier, ⟨"-", 1, 7⟩⟩, ⟨c!")", .interpunction, ⟨"-", 1, 8⟩⟩, ⟨c!"do", .keyword, ⟨"-", 1, -2⟩⟩,
   ⟨c!"x", .identifier, ⟨"-", 2, 3⟩⟩, ⟨c!"+", .operator, ⟨"-", 2, 6⟩⟩, ⟨c!"1", .int, ⟨"-", 2, 7⟩⟩,
   ⟨c!";", .interpunction, ⟨"-", 2, 8⟩⟩, ⟨c!"end", .keyword, ⟨"-", 3, 1⟩⟩, ⟨c!";", .interpunction, ⟨"-", 3, 4⟩⟩,
   ⟨c!"f", .identifier, ⟨"-", 5, 1⟩⟩, ⟨c!"(", .interpunction, ⟨"-", 5, 2⟩⟩, ⟨c!"2", .int, ⟨"-", 5, 3⟩⟩,
   ⟨c!")", .interpunction, ⟨"-", 5, 4⟩⟩]

/-- the hypothesis of `parse_pos_irrelevant` holds for the two layouts … -/
theorem ex_tokSim : TokSim ex1 ex2 := by unfold TokSim; decide

/-- … whose positions do differ -/
example : ex1.map (·.pos) ≠ ex2.map (·.pos) := by decide

/-- the two token lists are what the scanner model produces for the two layouts -/
example : (Lexer.scan c!"def f(x) do x + 1; end; f(2)" "-").toOption.map
    (fun l => l.map fun t => (t.value, t.type, t.pos)) = some (ex1.map fun t => (t.value, t.type, t.pos)) := by
  decide
example : (Lexer.scan c!"def f(x) do\n  x + 1;   # body\nend;\n\nf(2)" "-").toOption.map
    (fun l => l.map fun t => (t.value, t.type, t.pos)) = some (ex2.map fun t => (t.value, t.type, t.pos)) := by
  decide

-- `#eval (parse "-" ex1).toOption.map (fun n => repr (erase n))` shows the common AST up to positions:
--   block [defn "f" (lambda ["x"] [absent] (call (ident "add") [a, b] [ident "x", lit 1])) "", call (ident "f") [none] [lit 2]]

/-- the flagship applied: both layouts have the same outcome up to positions -/
example : outcome (parse "-" ex1) = outcome (parse "-" ex2) := outcome_eq _ _ ex_tokSim

/-- the hypothesis of `parse_equivariant` is met by a non-trivial renaming (shift every line by 7) -/
example : parse "-" (ex1.map (tokMap fun p => { p with line := p.line + 7 })) =
    match parse "-" ex1 with
    | .ok n => .ok (mapPos (fun p => { p with line := p.line + 7 }) n)
    | .error e => .error (mapErr (fun p => { p with line := p.line + 7 }) e) :=
  parse_equivariant _ _ _ _ (by intro h; cases h)

/-- the premise `parseWith … = .ok n` of the first half of `parse_pos_irrelevant` is met: a one-token
    program parses, wherever the token is -/
theorem parse_single_ident (validRe : List Char → Bool) (file : String) (p : Pos) :
    parseWith validRe file [⟨c!"x", .identifier, p⟩] = .ok (.ident "x" p) := by
  let t : Token := ⟨c!"x", .identifier, p⟩
  have hf : ∀ k, C02P.Follow k [] := fun k => C02P.Follow.nil k
  apply C02P.parseWith_of_or validRe file t [] (.ident "x" p) p rfl rfl
  generalize (⟨endPosOf file [t], validRe⟩ : Ctx) = c
  have h7 : C02P.plain (pPrimary c false ⟨t.pos, [t]⟩) = .ok (.ident "x" p, ⟨p, []⟩) :=
    C02P.pPrimary_ident c false t.pos t [] rfl (hf 7)
  have h6 := C02P.pPred_of_primary c false _ _ _ _ h7 (hf 7)
  have h5 : C02P.plain (pUnary c ⟨t.pos, [t]⟩) = .ok (.ident "x" p, ⟨p, []⟩) := by
    rw [C02P.pUnary_plain c t.pos t [] (by simp [t])]; exact h6
  have h4 : C02P.plain (pMul c ⟨t.pos, [t]⟩) = .ok (.ident "x" p, ⟨p, []⟩) := by
    rw [C02P.pMul_plain, h5]; exact C02P.mulLoop_stop c p [] _ (hf 5)
  have h3 : C02P.plain (pAdd c ⟨t.pos, [t]⟩) = .ok (.ident "x" p, ⟨p, []⟩) := by
    rw [C02P.pAdd_plain, h4]; exact C02P.addLoop_stop c p [] _ (hf 4)
  have h2 : C02P.plain (pRel c ⟨t.pos, [t]⟩) = .ok (.ident "x" p, ⟨p, []⟩) := by
    rw [C02P.pRel_plain, h3]; simp [Except.bind, C02P.relGuard_stop p [] (hf 3)]
  have h1 : C02P.plain (pNot c ⟨t.pos, [t]⟩) = .ok (.ident "x" p, ⟨p, []⟩) := by
    rw [C02P.pNot_plain c t.pos t [] (by simp [t, C02P.sp, C02P.notSp])]; exact h2
  have h0 : C02P.plain (pAnd c ⟨t.pos, [t]⟩) = .ok (.ident "x" p, ⟨p, []⟩) := by
    rw [C02P.pAnd_plain, h1]; simp [Except.bind, (C02P.and_stop (q := p) (hf 1)).1]
  rw [C02P.pOr_plain, h0]; simp [Except.bind, (C02P.or_stop (q := p) (hf 0)).1]

example : ∃ n', parse "-" [⟨c!"x", .identifier, ⟨"-", 3, 9⟩⟩] = .ok n' ∧
    erase (.ident "x" ⟨"-", 1, 1⟩) = erase n' :=
  (parse_pos_irrelevant (fun _ => true) "-"
    (ts := [⟨c!"x", .identifier, ⟨"-", 1, 1⟩⟩]) (ts' := [⟨c!"x", .identifier, ⟨"-", 3, 9⟩⟩]) rfl).1 _
    (parse_single_ident _ _ _)

/-- `positions_from_tokens` on it: the only position of the AST is the token's -/
example : ∀ q ∈ positions (.ident "x" ⟨"-", 3, 9⟩),
    q ∈ ([⟨c!"x", .identifier, ⟨"-", 3, 9⟩⟩] : List Token).map (·.pos) ∨
      (([⟨c!"x", .identifier, ⟨"-", 3, 9⟩⟩] : List Token) = [] ∧ q = ⟨"-", 1, 1⟩) :=
  positions_from_tokens (fun _ => true) "-" [⟨c!"x", .identifier, ⟨"-", 3, 9⟩⟩] _ (parse_single_ident _ _ _)

/-- the hypotheses of `parse_layout_irrelevant` are met: `def f(x) do ` ends at a token boundary,
    and a line break, an indentation and a comment line are a filler -/
example : C14.AtBoundary "-" c!"def f(x) do " := by
  intro σ h; have : σ = _ := (Except.ok.inj h).symm; subst this; decide

example : Lexer.Filler c!"\n  # body\n  " :=
  .ws (by decide) (.ws (by decide) (.ws (by decide) (.comment (body := c!" body") (by decide)
    (.ws (by decide) (.ws (by decide) .nil)))))

end Ckl.C14P
