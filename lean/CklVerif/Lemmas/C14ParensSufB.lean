/-
  C14 (redundant parentheses) — suffix lemmas, part B: primary expressions and the list / set /
  map / object literals and comprehensions.
-/
import CklVerif.Lemmas.C14ParensSufHyp
namespace Ckl.C14X
open Ckl Ckl.Parser

local notation "kw" => (some TokType.keyword)
local notation "ip" => (some TokType.interpunction)
local notation "op" => (some TokType.operator)
local notation "idt" => (some TokType.identifier)

set_option linter.unusedSimpArgs false
set_option linter.unusedVariables false

variable {ts : List Token}

theorem suf_pPrimary (c : Ctx) (um : Bool) (st : St) (H : Suf (st.toks.length * 16 + 1))
    (hs : st.toks <:+ ts) : SufP (fun o => o.st.toks <:+ ts) (pPrimary c um st) := by
  rw [pPrimary]
  sif hb : (!st.hasNext)
  · serr
  · sb (next_suf hs) with t s1 h1 hs1
    sif hp : (t.value == c!"(" && t.type == .interpunction)
    · sbh (H.pBareBlock c false s1 (by omega)) hs1 with r s2 h2 hs2
      sbs (expect_suf hs2 _ _) with s3 h3 hs3
      sbh (H.postfixLoop c true true s3 _ (by omega)) hs3 with r' s4 h4 hs4
      sok hs4
    · have hkw : SufP (fun o => o.st.toks <:+ ts)
          (if (t.value == c!"do" && t.type == .keyword) = true then pBlock c st
            else leLt h1 (pPrimaryKw c t s1)) := by
        sif hd : (t.value == c!"do" && t.type == .keyword)
        · exact SufLt.to (H.pBlock c st (by omega)) hs
        · exact suf_leLt (SufLe.to (H.pPrimaryKw c t s1 (by omega)) hs1)
      obtain ⟨tv, tty, tp⟩ := t
      cases tty <;> dsimp only at hkw ⊢
      case identifier =>
        smif hs1 c!"=" op with s2 h2 hs2
        · stab (matchOpTable_suf hs1 compoundOps) with fn s2 h2 hs2
          · exact suf_leLt (SufLe.to (H.postfixLoop c true true s1 _ (by omega)) hs1)
          · sbh (H.pExpression c s2 (by omega)) hs2 with v s3 h3 hs3
            sany n
            sok hs3
        · sbh (H.pExpression c s2 (by omega)) hs2 with e s3 h3 hs3
          sany n
          sok hs3
      case string =>
        exact suf_leLt (SufLe.to (H.postfixLoop c false true s1 _ (by omega)) hs1)
      case int =>
        cases parseIntLit tv with
        | none => serr
        | some n => exact suf_leLt (SufLe.to (H.postfixLoop c false false s1 _ (by omega)) hs1)
      case decimal =>
        rcases parseDecimal tv with _ | ⟨m, e⟩
        · serr
        · exact suf_leLt (SufLe.to (H.postfixLoop c false false s1 _ (by omega)) hs1)
      case boolean =>
        exact suf_leLt (SufLe.to (H.postfixLoop c false false s1 _ (by omega)) hs1)
      case pattern =>
        sif hv : c.validRe ((tv.take (tv.length - 2)).drop 2)
        · exact suf_leLt (SufLe.to (H.postfixLoop c false false s1 _ (by omega)) hs1)
        · serr
      case keyword => exact hkw
      case operator => exact hkw
      case interpunction => exact hkw

theorem suf_pPrimaryKw (c : Ctx) (t : Token) (st : St) (H : Suf (st.toks.length * 16 + 15))
    (hs : st.toks <:+ ts) : SufP (fun o => o.st.toks <:+ ts) (pPrimaryKw c t st) := by
  rw [pPrimaryKw]
  dsimp only
  sif h1 : (t.type == .keyword)
  · sif h2 : (t.value == c!"fn")
    · exact suf_ltLe (SufLt.to (H.pFn c _ st (by omega)) hs)
    sif h3 : (t.value == c!"break")
    · sok hs
    sif h4 : (t.value == c!"continue")
    · sok hs
    sif h5 : (t.value == c!"return")
    · sif hp : st.peekn 1 c!";" ip
      · sok hs
      · sbh (H.pExpression c st (by omega)) hs with e s1 h1 hs1
        sok hs1
    sif h6 : (t.value == c!"error")
    · sbh (H.pExpression c st (by omega)) hs with e s1 h1 hs1
      sok hs1
    · serr
  sif h2 : (t.type == .interpunction)
  · sif h3 : (t.value == c!"[")
    · sbh (H.pListLiteral c _ st (by omega)) hs with r s1 h1 hs1
      sif hp : s1.peekn 1 c!"=" op
      · cases r with
        | list items p =>
          dsimp only
          cases identNames items with
          | error e => serr
          | ok names =>
            dsimp only
            sbs (expect_suf hs1 _ _) with s2 h2 hs2
            sbh (H.pExpression c s2 (by omega)) hs2 with e s3 h3 hs3
            sany n
            sok hs3
        | _ => serr
      · sok hs1
    sif h4 : (t.value == c!"<<")
    · exact suf_ltLe (SufLt.to (H.pSetLiteral c _ st (by omega)) hs)
    sif h5 : (t.value == c!"<<<")
    · exact suf_ltLe (SufLt.to (H.pMapLiteral c _ st (by omega)) hs)
    sif h6 : (t.value == c!"<*")
    · exact suf_ltLe (SufLt.to (H.pObjectLiteral c _ st (by omega)) hs)
    sif h7 : (t.value == c!"...")
    · sb (next_suf hs) with t2 s1 h1 hs1
      sif h8 : (t2.value == c!"[" && t2.type == .interpunction)
      · sbh (H.pListLiteral c _ s1 (by omega)) hs1 with r s2 h2 hs2
        sok hs2
      sif h9 : (t2.value == c!"<<<" && t2.type == .interpunction)
      · sbh (H.pMapLiteral c _ s1 (by omega)) hs1 with r s2 h2 hs2
        sok hs2
      sif h10 : (t2.type == .identifier)
      · sok hs1
      · serr
    · serr
  · serr

theorem suf_pListLiteral (c : Ctx) (tpos : Pos) (st : St) (H : Suf (st.toks.length * 16 + 11))
    (hs : st.toks <:+ ts) : SufP (fun o => o.st.toks <:+ ts) (pListLiteral c tpos st) := by
  rw [pListLiteral]
  smif hs c!"]" ip with s1 h1 hs1
  · sbh (H.pExpression c st (by omega)) hs with e s1 h1 hs1
    smif hs1 c!"for" kw with s2 h2 hs2
    · sbh (H.listLoop c s1 _ _ (by omega)) hs1 with items s2 h2 hs2
      sbs (expect_suf hs2 _ _) with s3 h3 hs3
      sbh (H.postfixLoop c false true s3 _ (by omega)) hs3 with r s4 h4 hs4
      sok hs4
    · sbh (H.pComprRest c .list true c!"]" tpos _ _ s2 (by omega)) hs2 with r s3 h3 hs3
      sok hs3
  · exact suf_leLt (SufLe.to (H.postfixLoop c false true s1 _ (by omega)) hs1)

theorem suf_listLoop (c : Ctx) (st : St) (items : List Node) (pending : Option Node)
    (H : Suf (st.toks.length * 16 + 0)) (hs : st.toks <:+ ts) :
    SufP (fun o => o.st.toks <:+ ts) (listLoop c st items pending) := by
  rw [listLoop]
  sif hb : st.peekn 1 c!"]" ip
  · sok hs
  · sbs (expect_suf hs _ _) with s1 h1 hs1
    sif hb2 : s1.peekn 1 c!"]" ip
    · sok hs1
    · sbh (H.pExpression c s1 (by omega)) hs1 with e s2 h2 hs2
      sbh (H.listLoop c s2 _ _ (by omega)) hs2 with r s3 h3 hs3
      sok hs3

theorem suf_comprClause (c : Ctx) (st : St) (H : Suf (st.toks.length * 16 + 0)) (hs : st.toks <:+ ts) :
    SufP (fun o => o.st.toks <:+ ts) (comprClause c st) := by
  rw [comprClause]
  sb (matchIdentifier_suf hs) with name s1 h1 hs1
  sbs (expect_suf hs1 _ _) with s2 h2 hs2
  swhat hs2 with what s3 h3 hs3
  sbh (H.pOr c s3 (by omega)) hs3 with l s4 h4 hs4
  sok hs4

theorem suf_comprFinish (c : Ctx) (mk : Node → Node) (closer : List Char) (st : St)
    (H : Suf (st.toks.length * 16 + 0)) (hs : st.toks <:+ ts) :
    SufP (fun o => o.st.toks <:+ ts) (comprFinish c mk closer st) := by
  rw [comprFinish]
  sbrLe ts with cond s1 h1 hs1
  · smif hs c!"if" kw with s h hs'
    · sok hs
    · exact suf_ltLe (SufLt.to (H.pOr c s (by omega)) hs')
  sbs (expect_suf hs1 _ _) with s2 h2 hs2
  sbh (H.postfixLoop c false true s2 _ (by omega)) hs2 with r s3 h3 hs3
  sok hs3

theorem suf_pComprRest (c : Ctx) (kind : ComprKind) (multi : Bool) (closer : List Char) (tpos : Pos)
    (v ke : Node) (st : St) (H : Suf (st.toks.length * 16 + 1)) (hs : st.toks <:+ ts) :
    SufP (fun o => o.st.toks <:+ ts) (pComprRest c kind multi closer tpos v ke st) := by
  rw [pComprRest]
  sbh (H.comprClause c st (by omega)) hs with r1 s1 h1 hs1
  obtain ⟨id1, what1, l1⟩ := r1
  dsimp only
  smifg multi hs1 c!"for" kw with s2 h2 hs2
  · smifg2 multi hs1 c!"also" kw c!"for" kw with s2 h2 hs2
    · sbh (H.comprFinish c _ closer s1 (by omega)) hs1 with r s4 h4 hs4
      sok hs4
    · sbh (H.comprClause c s2 (by omega)) hs2 with r2 s3 h3 hs3
      obtain ⟨id2, what2, l2⟩ := r2
      dsimp only
      sbh (H.comprFinish c _ closer s3 (by omega)) hs3 with r s4 h4 hs4
      sok hs4
  · sbh (H.comprClause c s2 (by omega)) hs2 with r2 s3 h3 hs3
    obtain ⟨id2, what2, l2⟩ := r2
    dsimp only
    sbh (H.comprFinish c _ closer s3 (by omega)) hs3 with r s4 h4 hs4
    sok hs4

theorem suf_pSetLiteral (c : Ctx) (tpos : Pos) (st : St) (H : Suf (st.toks.length * 16 + 11))
    (hs : st.toks <:+ ts) : SufP (fun o => o.st.toks <:+ ts) (pSetLiteral c tpos st) := by
  rw [pSetLiteral]
  smif hs c!">>" ip with s1 h1 hs1
  · sbh (H.pExpression c st (by omega)) hs with e s1 h1 hs1
    smif hs1 c!"for" kw with s2 h2 hs2
    · sbs (sepUnless_suf hs1 _) with s2 h2 hs2
      sbh (H.setLoop c s2 _ (by omega)) hs2 with items s3 h3 hs3
      sbs (expect_suf hs3 _ _) with s4 h4 hs4
      sbh (H.postfixLoop c false true s4 _ (by omega)) hs4 with r s5 h5 hs5
      sok hs5
    · sbh (H.pComprRest c .set true c!">>" tpos _ _ s2 (by omega)) hs2 with r s3 h3 hs3
      sok hs3
  · exact suf_leLt (SufLe.to (H.postfixLoop c false true s1 _ (by omega)) hs1)

theorem suf_setLoop (c : Ctx) (st : St) (items : List Node) (H : Suf (st.toks.length * 16 + 11))
    (hs : st.toks <:+ ts) : SufP (fun o => o.st.toks <:+ ts) (setLoop c st items) := by
  rw [setLoop]
  sif hb : st.peekn 1 c!">>" ip
  · sok hs
  · sbh (H.pExpression c st (by omega)) hs with e s1 h1 hs1
    sbs (sepUnless_suf hs1 _) with s2 h2 hs2
    sbh (H.setLoop c s2 _ (by omega)) hs2 with r s3 h3 hs3
    sok hs3

theorem suf_pMapLiteral (c : Ctx) (tpos : Pos) (st : St) (H : Suf (st.toks.length * 16 + 11))
    (hs : st.toks <:+ ts) : SufP (fun o => o.st.toks <:+ ts) (pMapLiteral c tpos st) := by
  rw [pMapLiteral]
  smif hs c!">>>" ip with s1 h1 hs1
  · sbh (H.pExpression c st (by omega)) hs with k s1 h1 hs1
    sbs (expect_suf hs1 _ _) with s2 h2 hs2
    sbh (H.pExpression c s2 (by omega)) hs2 with v s3 h3 hs3
    smif hs3 c!"for" kw with s4 h4 hs4
    · sbs (sepUnless_suf hs3 _) with s4 h4 hs4
      sbh2 (H.mapLoop c s4 _ _ (by omega)) hs4 with ks vs s5 h5 hs5
      sbs (expect_suf hs5 _ _) with s6 h6 hs6
      sbh (H.postfixLoop c false true s6 _ (by omega)) hs6 with r s7 h7 hs7
      sok hs7
    · sbh (H.pComprRest c .map false c!">>>" tpos _ _ s4 (by omega)) hs4 with r s5 h5 hs5
      sok hs5
  · exact suf_leLt (SufLe.to (H.postfixLoop c false true s1 _ (by omega)) hs1)

theorem suf_mapLoop (c : Ctx) (st : St) (ks vs : List Node) (H : Suf (st.toks.length * 16 + 11))
    (hs : st.toks <:+ ts) : SufP (fun o => o.st.toks <:+ ts) (mapLoop c st ks vs) := by
  rw [mapLoop]
  sif hb : st.peekn 1 c!">>>" ip
  · sok hs
  · sbh (H.pExpression c st (by omega)) hs with k s1 h1 hs1
    sbs (expect_suf hs1 _ _) with s2 h2 hs2
    sbh (H.pExpression c s2 (by omega)) hs2 with v s3 h3 hs3
    sbs (sepUnless_suf hs3 _) with s4 h4 hs4
    sbh (H.mapLoop c s4 _ _ (by omega)) hs4 with r s5 h5 hs5
    sok hs5

theorem suf_pObjectLiteral (c : Ctx) (tpos : Pos) (st : St) (H : Suf (st.toks.length * 16 + 1))
    (hs : st.toks <:+ ts) : SufP (fun o => o.st.toks <:+ ts) (pObjectLiteral c tpos st) := by
  rw [pObjectLiteral]
  sbh2 (H.objLoop c st _ _ (by omega)) hs with ks vs s1 h1 hs1
  sbs (expect_suf hs1 _ _) with s2 h2 hs2
  sbh (H.postfixLoop c false true s2 _ (by omega)) hs2 with r s3 h3 hs3
  sok hs3

theorem suf_objLoop (c : Ctx) (st : St) (ks : List String) (vs : List Node)
    (H : Suf (st.toks.length * 16 + 0)) (hs : st.toks <:+ ts) :
    SufP (fun o => o.st.toks <:+ ts) (objLoop c st ks vs) := by
  rw [objLoop]
  sif hb : st.peekn 1 c!"*>" ip
  · sok hs
  · sb (matchIdentifier_suf hs) with key s1 h1 hs1
    sbrLt ts with v s2 h2 hs2
    · sif hp : s1.peekn 1 c!"(" ip
      · exact SufLt.to (H.pFn c _ s1 (by omega)) hs1
      · sbs (expect_suf hs1 _ _) with sa ha hsa
        sbh (H.pExpression c sa (by omega)) hsa with v sb hb hsb
        sok hsb
    sbs (sepUnless_suf hs2 _) with s3 h3 hs3
    sbh (H.objLoop c s3 _ _ (by omega)) hs3 with r s4 h4 hs4
    sok hs4

end Ckl.C14X
