import CklVerif.Proofs.C19Src
import CklVerif.Lemmas.C19SrcD4Dec
import CklVerif.Lemmas.C19SrcD4Lib

/-! # C19Src (D4) — (A) `sign` / `abs` of math.ckl on DECIMAL arguments; (B) the MULTI-FRAME library state satisfies `LibEnv`

  (A) A decimal is `.dec m e`, the dyadic number `m / 2^e`; the model compares it with the int `0` EXACTLY (`numLt m e 0 0`,
      `numEq m e 0 0`, `Model/Value.lean`).  `sign` is proved for every decimal, `abs` for every decimal that is not negative
      (`abs` of a negative decimal computes `0 - n` through `nativeSub` on `Float`: not covered).  `is_zero` / `is_negative` /
      `is_positive` of predicate.ckl already cover every value (`is_zero_src`, … of `Proofs/C19Src.lean`); here only the reading of
      their value functions on decimals (`m = 0`, `m < 0`, `0 < m`) is added.  `is_even` / `is_odd` on decimals: `nativeMod` is
      `unsupported` in the model — nothing to state.

  (B) see `Lemmas/C19SrcD4Mods.lean` for what exactly is modelled: one frame per module (parent 0), the REAL `eval` on the block of
      the module's generated `def` nodes, then a verbatim copy of the export loop of `require … unqualified`.  -/
namespace Ckl.C19Src
open Ckl Ckl.C03 Ckl.Gen.LibSrc Ckl.Lib
variable (ld : Loader)

/-! ## A  decimals -/

/-- **`sign` on every decimal**: `-1`, `0` or `1` according to the exact comparisons of the model with the int `0`
    (`decSign_D4 m e = if numLt m e 0 0 then -1 else if !numLt m e 0 0 && !numEq m e 0 0 then 1 else 0`) -/
theorem sign_src_dec {s : State} {M nats srcs fn m'} (h : LibEnv s M nats srcs) (hn : ∀ x ∈ mathNats, x ∈ nats)
    (hs : ∀ p ∈ mathSrcs, p ∈ srcs) (hm : M m') (hsrc : IsSrc s fn math_sign m') (m : Int) (e : Nat) :
    ∃ s', Ext s s' ∧ ∀ fuel env pos, 21 < fuel →
      callFn ld fuel fn [("n", .dec m e)] env pos s = .ok (.int (decSign_D4 m e)) s' :=
  let ⟨s', e', c⟩ := sign_calls_dec ld h hn hs hm hsrc m e; ⟨s', e', fun fuel env pos hf => c env pos fuel hf⟩

/-- the reading: the sign of `m / 2^e` is the sign of its numerator — `-1` iff `m < 0`, `0` iff `m = 0`, `1` iff `0 < m` -/
theorem sign_src_dec_numerator {s : State} {M nats srcs fn m'} (h : LibEnv s M nats srcs) (hn : ∀ x ∈ mathNats, x ∈ nats)
    (hs : ∀ p ∈ mathSrcs, p ∈ srcs) (hm : M m') (hsrc : IsSrc s fn math_sign m') (m : Int) (e : Nat) :
    ∃ s', Ext s s' ∧ ∀ fuel env pos, 21 < fuel →
      callFn ld fuel fn [("n", .dec m e)] env pos s = .ok (.int m.sign) s' := by
  rw [← decSign_eq_sign_D4 m e]; exact sign_src_dec ld h hn hs hm hsrc m e

/-- **`abs` on a decimal that is NOT negative** (`numLt m e 0 0 = false`, i.e. `0 ≤ m`): the argument itself -/
theorem abs_src_dec_nonneg {s : State} {M nats srcs fn m'} (h : LibEnv s M nats srcs) (hn : ∀ x ∈ mathNats, x ∈ nats)
    (hs : ∀ p ∈ mathSrcs, p ∈ srcs) (hm : M m') (hsrc : IsSrc s fn math_abs m') (m : Int) (e : Nat)
    (hnn : numLt m e 0 0 = false) :
    ∃ s', Ext s s' ∧ ∀ fuel env pos, 21 < fuel →
      callFn ld fuel fn [("n", .dec m e)] env pos s = .ok (.dec m e) s' :=
  let ⟨s', e', c⟩ := abs_calls_dec_nonneg ld h hn hs hm hsrc m e hnn; ⟨s', e', fun fuel env pos hf => c env pos fuel hf⟩

/-- the same with the hypothesis read on the numerator -/
theorem abs_src_dec_numerator {s : State} {M nats srcs fn m'} (h : LibEnv s M nats srcs) (hn : ∀ x ∈ mathNats, x ∈ nats)
    (hs : ∀ p ∈ mathSrcs, p ∈ srcs) (hm : M m') (hsrc : IsSrc s fn math_abs m') (m : Int) (e : Nat) (hnn : 0 ≤ m) :
    ∃ s', Ext s s' ∧ ∀ fuel env pos, 21 < fuel →
      callFn ld fuel fn [("n", .dec m e)] env pos s = .ok (.dec m e) s' :=
  abs_src_dec_nonneg ld h hn hs hm hsrc m e (by rw [numLt_zero_D4]; simpa using hnn)

/-- the value functions of `is_zero_src` / `is_negative_src` / `is_positive_src` on a decimal, read on the numerator -/
theorem predicates_dec_numerator_D4 (m : Int) (e : Nat) :
    isZeroV (.dec m e) = decide (m = 0) ∧ isNegativeV (.dec m e) = decide (m < 0) ∧
    isPositiveVal (.dec m e) = decide (0 < m) := by
  refine ⟨numEq_zero_D4 m e, numLt_zero_D4 m e, ?_⟩
  show (!numLt m e 0 0 && !numEq m e 0 0) = decide (0 < m)
  rw [numLt_zero_D4, numEq_zero_D4]
  by_cases h1 : m < 0
  · simp [h1]; omega
  · by_cases h2 : m = 0
    · simp [h2]
    · simp [h1, h2]; omega

/-- non-vacuity: 2.5 = 5 / 2^1, −0.75 = −3 / 2^2, 0.0 = 0 / 2^0 -/
example : decSign_D4 5 1 = 1 ∧ decSign_D4 (-3) 2 = -1 ∧ decSign_D4 0 0 = 0 ∧ numLt 5 1 0 0 = false ∧ numLt 0 3 0 0 = false :=
  ⟨by decide, by decide, by decide, by decide, by decide⟩

/-- the hypotheses are those of `sign_src_int` (met by `exState`, `libEnv_satisfiable`): `sign(2.5) = 1` in `exState` -/
example : ∃ s', Ext exState s' ∧ ∀ fuel env pos, 21 < fuel →
    callFn ld fuel (.closure 4) [("n", .dec 5 1)] env pos exState = .ok (.int 1) s' :=
  sign_src_dec ld exState_libEnv (fun _ h => h) (fun _ h => h) rfl exState_sign 5 1

/-! ## B  the multi-frame library state -/

/-- **Loading modules establishes the environment hypothesis for ALL module frames.**  From a state with the invariant `ModInv_D4`
    (base frame 0 with `NULL` and the built-ins `nats`; module frames `L` loaded so far), loading the modules `mods` — each the block
    of its generated `def` nodes, evaluated by the real `eval` in its OWN fresh frame with parent 0, then re-exported into frame 0 as
    `require … unqualified` does — succeeds for every fuel above `modsFuel_D4 mods` (sum of the lengths + 2) and yields a state where
    `LibEnv` holds with `M` = the set of all module frames and `srcs` = all definitions whose name only one module defines; every
    function value is closed over its own module frame.  Frames other than 0 that existed, old cells and the output are unchanged;
    frame 0 changes only at the names the modules define. -/
theorem loadMods_establishes_libEnv_D4 {nats : List String} (mods : List (List Node)) (hok : ∀ defs ∈ mods, ModOk_D4 nats defs)
    (s : State) (L : List (EnvId × List Node)) (inv : ModInv_D4 s nats L) :
    ∃ s', (∀ fuel, modsFuel_D4 mods < fuel → loadMods_D4 ld fuel mods s = some s') ∧
      LibEnv s' (modFrames_D4 (L ++ framesFrom_D4 s.frames.size mods)) nats
        (uniqSrcs_D4 (L ++ framesFrom_D4 s.frames.size mods)) ∧
      s'.frames.size = s.frames.size + mods.length ∧
      (∀ i, i < s.frames.size → i ≠ 0 → s'.frame i = s.frame i) ∧
      (∀ a, a < s.heap.size → s'.cell a = s.cell a) ∧ s'.out = s.out ∧
      (∀ x, (∀ defs ∈ mods, x ∉ defs.map defName) → dictGet x (s'.frame 0).vars = dictGet x (s.frame 0).vars) := by
  obtain ⟨s', h1, h2, h3, h4, _, h6, h7, h8⟩ := loadMods_inv_D4 ld mods hok s L inv
  exact ⟨s', h1, h2.libEnv, h3, h4, h6, h7, h8⟩

/-- the 48 definitions of `Gen/LibSrc.lean` whose name one module only defines (all but `reverse` of list.ckl and of string.ckl) -/
def libSrcs_D4 : List (String × Node) :=
  [("non_zero", core_non_zero), ("non_empty", core_non_empty), ("const", core_const), ("any", core_any), ("all", core_all),
   ("pairs", core_pairs), ("chunks", core_chunks),
   ("first", list_first), ("first_n", list_first_n), ("last", list_last), ("last_n", list_last_n), ("rest", list_rest),
   ("reverse_list", list_reverse_list), ("reduce", list_reduce), ("prod", list_prod), ("append_all", list_append_all),
   ("for_each", list_for_each), ("filter", list_filter), ("flatten", list_flatten), ("unique", list_unique), ("map_list", list_map_list),
   ("abs", math_abs), ("sign", math_sign), ("is_even", math_is_even), ("is_odd", math_is_odd), ("gcd", math_gcd), ("lcm", math_lcm),
   ("is_zero", predicate_is_zero), ("is_negative", predicate_is_negative), ("is_positive", predicate_is_positive),
   ("union", set_union), ("intersection", set_intersection), ("diff", set_diff), ("symmetric_diff", set_symmetric_diff),
   ("replace", string_replace), ("join", string_join), ("q", string_q), ("esc", string_esc),
   ("is_list", type_is_list), ("is_string", type_is_string), ("is_int", type_is_int), ("is_decimal", type_is_decimal),
   ("is_numeric", type_is_numeric), ("is_boolean", type_is_boolean), ("is_set", type_is_set), ("is_map", type_is_map),
   ("is_object", type_is_object), ("is_func", type_is_func)]

theorem libSrcs_eq_D4 : uniqSrcs_D4 libFrames_D4 = libSrcs_D4 := by rfl

/-- the module frames of the library state: the session frame 1 and the seven module frames 2 … 8 -/
theorem libFrames_mem_D4 (m : EnvId) : modFrames_D4 libFrames_D4 m ↔ 1 ≤ m ∧ m ≤ 8 := by
  unfold modFrames_D4
  rw [libFrames_eq_D4]
  constructor
  · rintro ⟨p, hp, rfl⟩
    simp only [List.mem_cons, List.not_mem_nil, or_false] at hp
    rcases hp with rfl | rfl | rfl | rfl | rfl | rfl | rfl | rfl <;> decide
  · rintro ⟨h1, h2⟩
    have hk : ∀ k : Nat, 1 ≤ k → k ≤ 8 → k = 1 ∨ k = 2 ∨ k = 3 ∨ k = 4 ∨ k = 5 ∨ k = 6 ∨ k = 7 ∨ k = 8 := by
      intro k a b; omega
    have := hk m h1 h2
    rcases this with rfl | rfl | rfl | rfl | rfl | rfl | rfl | rfl
    · exact ⟨(1, []), by simp, rfl⟩
    · exact ⟨(2, coreDefs_D4), by simp, rfl⟩
    · exact ⟨(3, listDefs_D4), by simp, rfl⟩
    · exact ⟨(4, mathDefs_D4), by simp, rfl⟩
    · exact ⟨(5, predicateDefs_D4), by simp, rfl⟩
    · exact ⟨(6, setDefs_D4), by simp, rfl⟩
    · exact ⟨(7, stringDefs_D4), by simp, rfl⟩
    · exact ⟨(8, typeDefs_D4), by simp, rfl⟩

/-- **The multi-frame library state satisfies `LibEnv`.**  The driver's `initialState` (base frame 0: constants + the built-ins
    `natives`; session frame 1), then the seven modules of `Gen/LibSrc.lean` loaded in the order of `legacy.ckl` — core in frame 2,
    list 3, math 4, predicate 5, set 6, string 7, type 8, each with parent 0 — and re-exported into frame 0: for every fuel above
    `modsFuel_D4 libMods_D4 = 52` the loading succeeds, and in the resulting state `LibEnv` holds with `M` = {session frame 1, module
    frames 2 … 8}, the built-ins `natives` and the 48 definitions `libSrcs_D4`. -/
theorem libState_libEnv_D4 (secure : Bool) (natives : List String) (hnull : "NULL" ∉ natives)
    (hdisj : ∀ x ∈ "NULL" :: natives, x ∉ libNames_D4) :
    ∃ s', (∀ fuel, 52 < fuel → loadMods_D4 ld fuel libMods_D4 (initialState secure natives).1 = some s') ∧
      LibEnv s' (fun m => 1 ≤ m ∧ m ≤ 8) natives libSrcs_D4 ∧ s'.frames.size = 9 ∧
      s'.frame 1 = { vars := [], parent := some 0 } ∧ s'.out = (initialState secure natives).1.out := by
  obtain ⟨s', h1, h2, h3, h4, h5⟩ := libState_modInv_D4 ld secure natives hnull hdisj
  refine ⟨s', h1, ?_, h3, h4, h5⟩
  have := h2.libEnv
  rw [libSrcs_eq_D4] at this
  have hM : modFrames_D4 libFrames_D4 = (fun m => 1 ≤ m ∧ m ≤ 8) := funext (fun m => propext (libFrames_mem_D4 m))
  rw [hM] at this; exact this

example : modsFuel_D4 libMods_D4 = 52 := by decide

theorem loadNats_disj_D4 : ∀ x ∈ "NULL" :: loadNats, x ∉ libNames_D4 := by
  rw [libNames_eq_D4]; decide

theorem libSrcs_math_D4 : ∀ p ∈ mathSrcs, p ∈ libSrcs_D4 := by
  intro p hp
  simp only [mathSrcs, List.mem_cons, List.not_mem_nil, or_false] at hp
  rcases hp with rfl | rfl | rfl <;> simp [libSrcs_D4]

/-- the module frames with the NAMES they define -/
def libFrameNames_D4 : List (Nat × List String) :=
  [(1, []), (2, ["non_zero", "non_empty", "const", "any", "all", "pairs", "chunks"]),
   (3, ["first", "first_n", "last", "last_n", "rest", "reverse_list", "reverse", "reduce", "prod", "append_all", "for_each",
        "filter", "flatten", "unique", "map_list"]),
   (4, ["abs", "sign", "is_even", "is_odd", "gcd", "lcm"]), (5, ["is_zero", "is_negative", "is_positive"]),
   (6, ["union", "intersection", "diff", "symmetric_diff"]), (7, ["reverse", "replace", "join", "q", "esc"]),
   (8, ["is_list", "is_string", "is_int", "is_decimal", "is_numeric", "is_boolean", "is_set", "is_map", "is_object", "is_func"])]

theorem libFrameNames_eq_D4 : libFrames_D4.map (fun p => ((p.1 : Nat), p.2.map defName)) = libFrameNames_D4 := rfl

/-- a name that no module frame other than `k` defines (decidable on the table of names) -/
theorem libFrames_uniq_D4 {x : String} {k : Nat} (h : ∀ r ∈ libFrameNames_D4, r.1 ≠ k → x ∉ r.2) :
    ∀ q ∈ libFrames_D4, q.1 ≠ k → x ∉ q.2.map defName := by
  intro q hq hne
  have : ((q.1 : Nat), q.2.map defName) ∈ libFrameNames_D4 := by
    rw [← libFrameNames_eq_D4]; exact List.mem_map.mpr ⟨q, hq, rfl⟩
  exact h _ this hne

/-- in the library state, `name` resolves — from the base frame 0 and from the session frame 1 — to a function value made from the
    generated definition `d` and closed over the frame `m` of ITS module -/
theorem libState_resolves_D4 {s' : State} {natives : List String} (inv : ModInv_D4 s' natives libFrames_D4)
    (hfr1 : s'.frame 1 = { vars := [], parent := some 0 }) (hsz : s'.frames.size = 9)
    {p : EnvId × List Node} (hp : p ∈ libFrames_D4) {d : Node} (hd : d ∈ p.2)
    (hu : ∀ q ∈ libFrames_D4, q.1 ≠ p.1 → defName d ∉ q.2.map defName) :
    ∃ fn, dictGet (defName d) (s'.frame 0).vars = some fn ∧ s'.lookup 1 (defName d) = some fn ∧ IsSrc s' fn d p.1 := by
  obtain ⟨fn, h1, h2⟩ := inv.base hp hd hu
  refine ⟨fn, h1, ?_, h2⟩
  have hres : Res s' 1 (defName d) fn := Or.inr ⟨by rw [hfr1]; rfl, by rw [hfr1], h1⟩
  exact lookupF_res hres _ (by rw [hsz]; decide)

/-- **End to end through TWO module frames, no hypothesis left**: build the library state (driver's initial state with the 15
    built-ins `loadNats`, seven modules in seven frames, re-exported into frame 0).  Then `abs` is bound in the base frame 0 — and
    resolves from the session frame 1 — to a function `fn` closed over the MATH frame 4, and calling it on any int `n` returns `|n|`
    (fuel > 21), changing nothing that existed.  The call evaluates `is_numeric(n)`: not bound in frame 4, found through frame 0,
    a function closed over the TYPE frame 8, which in turn calls `is_int` / `is_decimal` of frame 8. -/
theorem libState_abs_D4 (secure : Bool) (n : Int) :
    ∃ s1, (∀ fuel, 52 < fuel → loadMods_D4 ld fuel libMods_D4 (initialState secure loadNats).1 = some s1) ∧
      ∃ fn, dictGet "abs" (s1.frame 0).vars = some fn ∧ s1.lookup 1 "abs" = some fn ∧ IsSrc s1 fn math_abs 4 ∧
        dictGet "abs" (s1.frame 8).vars = none ∧ dictGet "is_numeric" (s1.frame 4).vars = none ∧
        (∃ g, dictGet "is_numeric" (s1.frame 0).vars = some g ∧ IsSrc s1 g type_is_numeric 8) ∧
        ∃ s', Ext s1 s' ∧ ∀ fuel env pos, 21 < fuel →
          callFn ld fuel fn [("n", .int n)] env pos s1 = .ok (.int (n.natAbs : Int)) s' := by
  obtain ⟨s1, h1, inv, hsz, hfr1, _⟩ := libState_modInv_D4 ld secure loadNats (by decide) loadNats_disj_D4
  have hlib : LibEnv s1 (modFrames_D4 libFrames_D4) loadNats libSrcs_D4 := by
    have := inv.libEnv; rwa [libSrcs_eq_D4] at this
  have hmath : ((4 : EnvId), mathDefs_D4) ∈ libFrames_D4 := by rw [libFrames_eq_D4]; simp
  have htype : ((8 : EnvId), typeDefs_D4) ∈ libFrames_D4 := by rw [libFrames_eq_D4]; simp
  obtain ⟨fn, hb, hl, hsrc⟩ := libState_resolves_D4 inv hfr1 hsz hmath (d := math_abs) (by simp [mathDefs_D4])
    (libFrames_uniq_D4 (x := "abs") (k := 4) (by decide))
  obtain ⟨g, hg1, hg2⟩ := inv.base htype (d := type_is_numeric) (by simp [typeDefs_D4])
    (libFrames_uniq_D4 (x := "is_numeric") (k := 8) (by decide))
  refine ⟨s1, h1, fn, hb, hl, hsrc, ?_, ?_, ⟨g, hg1, hg2⟩, ?_⟩
  · exact inv.own _ htype "abs" (by show "abs" ∉ typeDefs_D4.map defName; rw [typeNames_D4]; decide)
  · exact inv.own _ hmath "is_numeric" (by show "is_numeric" ∉ mathDefs_D4.map defName; rw [mathNames_D4]; decide)
  · exact abs_src_int ld hlib (by decide) libSrcs_math_D4 ⟨_, hmath, rfl⟩ hsrc n

/-- the same for `sign` on DECIMALS (part A on the multi-frame state): `sign(m / 2^e) = sgn m` -/
theorem libState_sign_dec_D4 (secure : Bool) (m : Int) (e : Nat) :
    ∃ s1, (∀ fuel, 52 < fuel → loadMods_D4 ld fuel libMods_D4 (initialState secure loadNats).1 = some s1) ∧
      ∃ fn, s1.lookup 1 "sign" = some fn ∧ IsSrc s1 fn math_sign 4 ∧
        ∃ s', Ext s1 s' ∧ ∀ fuel env pos, 21 < fuel →
          callFn ld fuel fn [("n", .dec m e)] env pos s1 = .ok (.int m.sign) s' := by
  obtain ⟨s1, h1, inv, hsz, hfr1, _⟩ := libState_modInv_D4 ld secure loadNats (by decide) loadNats_disj_D4
  have hlib : LibEnv s1 (modFrames_D4 libFrames_D4) loadNats libSrcs_D4 := by
    have := inv.libEnv; rwa [libSrcs_eq_D4] at this
  have hmath : ((4 : EnvId), mathDefs_D4) ∈ libFrames_D4 := by rw [libFrames_eq_D4]; simp
  obtain ⟨fn, _, hl, hsrc⟩ := libState_resolves_D4 inv hfr1 hsz hmath (d := math_sign) (by simp [mathDefs_D4])
    (libFrames_uniq_D4 (x := "sign") (k := 4) (by decide))
  exact ⟨s1, h1, fn, hl, hsrc, sign_src_dec_numerator ld hlib (by decide) libSrcs_math_D4 ⟨_, hmath, rfl⟩ hsrc m e⟩

/-- the side condition is real: `reverse` is defined by list.ckl (frame 3) AND string.ckl (frame 7); in the library state each of the
    two frames sees its own version, and frame 0 (hence every other frame) the one of string.ckl, which is loaded later -/
example : libNames_D4.count "reverse" = 2 ∧ ("reverse", list_reverse) ∉ libSrcs_D4 ∧ ("reverse", string_reverse) ∉ libSrcs_D4 := by
  refine ⟨by rw [libNames_eq_D4]; decide, ?_, ?_⟩ <;> simp [libSrcs_D4]

/-! ### TESTS (executed checks, not theorems): the state `loadMods_D4` builds, run with the driver's `sessionLoader` and fuel 53 -/

/- TEST: 9 frames; `abs` in frame 0 is a closure over the math frame 4, `is_numeric` in frame 0 a closure over the type frame 8 and not
    bound in frame 4; `reverse` in frame 0 is the version of string.ckl (frame 7), in the list frame 3 the one of list.ckl -/
#guard (match loadMods_D4 (sessionLoader [] [] [] []) 53 libMods_D4 (initialState false loadNats).1 with
  | some s => s.frames.size == 9 &&
      (match dictGet "abs" (s.frame 0).vars, dictGet "is_numeric" (s.frame 0).vars, dictGet "is_numeric" (s.frame 4).vars with
       | some (.closure a), some (.closure b), none =>
         (match s.cell a, s.cell b with | some (.closure 4 _ _ _ _), some (.closure 8 _ _ _ _) => true | _, _ => false)
       | _, _, _ => false) &&
      (match dictGet "reverse" (s.frame 0).vars, dictGet "reverse" (s.frame 3).vars with
       | some (.closure a), some (.closure b) =>
         (match s.cell a, s.cell b with | some (.closure 7 _ _ _ _), some (.closure 3 _ _ _ _) => true | _, _ => false)
       | _, _ => false)
  | none => false)

/- TEST: the call node `abs(-7)` evaluated in the session frame 1 of that state gives 7 -/
#guard (match loadMods_D4 (sessionLoader [] [] [] []) 53 libMods_D4 (initialState false loadNats).1 with
  | some s => (match eval (sessionLoader [] [] [] []) 100 1
        (.call (.ident "abs" default) [none] [.lit (.int (-7)) default] default) s with
      | .ok (.int 7) _ => true | _ => false)
  | none => false)

end Ckl.C19Src
