/-
  C19 — the loops with a counter or a moving window: `range`, `interval`, `chunks`, `grouped`.
-/
import CklVerif.Model.Lib
namespace Ckl.C19
open Ckl Ckl.Lib

/-! ### range -/

theorem rangeUp_length {step : Int} (hs : 0 < step) (e i : Int) :
    (rangeUp step e i).length = ((e - i + step - 1) / step).toNat := by
  fun_induction rangeUp step e i with
  | case1 i h ih =>
    rw [List.length_cons, ih]
    have e1 : e - i + step - 1 = (e - i - 1) + 1 * step := by omega
    have e2 : e - (i + step) + step - 1 = e - i - 1 := by omega
    rw [e1, e2, Int.add_mul_ediv_right _ _ (by omega)]
    have : 0 ≤ (e - i - 1) / step := Int.ediv_nonneg (by omega) (by omega)
    omega
  | case2 i h =>
    have hi : e ≤ i := by
      by_cases h' : i < e
      · exact absurd ⟨hs, h'⟩ h
      · omega
    have : (e - i + step - 1) / step < 1 := Int.ediv_lt_of_lt_mul hs (by omega)
    simp only [List.length_nil]
    omega

theorem rangeUp_getElem? {step : Int} (e i : Int) (k : Nat) (hk : k < (rangeUp step e i).length) :
    (rangeUp step e i)[k]? = some (i + k * step) := by
  fun_induction rangeUp step e i generalizing k with
  | case1 i h ih =>
    cases k with
    | zero => simp
    | succ k =>
      rw [List.getElem?_cons_succ, ih k (by simpa using hk)]
      congr 1
      push_cast
      rw [Int.add_mul]
      omega
  | case2 i h => simp at hk

theorem rangeDown_eq_rangeUp (step e i : Int) :
    rangeDown step e i = (rangeUp (-step) (-e) (-i)).map (fun x => -x) := by
  fun_induction rangeDown step e i with
  | case1 i h ih =>
    rw [rangeUp, if_pos (by omega), List.map_cons, Int.neg_neg, ih, Int.neg_add]
  | case2 i h =>
    rw [rangeUp, if_neg (by omega)]
    rfl

theorem rangeM_pos_length {step : Int} (hs : 0 < step) (a b : Int) :
    (rangeM a b step).length = ((b - a + step - 1) / step).toNat := by
  unfold rangeM
  rw [if_pos hs, rangeUp_length hs]

theorem rangeM_pos_getElem? {step : Int} (hs : 0 < step) (a b : Int) (k : Nat)
    (hk : k < (rangeM a b step).length) : (rangeM a b step)[k]? = some (a + k * step) := by
  unfold rangeM at hk ⊢
  rw [if_pos hs] at hk ⊢
  exact rangeUp_getElem? b a k hk

theorem rangeM_neg_length {step : Int} (hs : step < 0) (a b : Int) :
    (rangeM a b step).length = ((a - b + (-step) - 1) / (-step)).toNat := by
  unfold rangeM
  rw [if_neg (by omega), if_pos hs, rangeDown_eq_rangeUp, List.length_map, rangeUp_length (by omega)]
  congr 2
  omega

theorem rangeM_neg_getElem? {step : Int} (hs : step < 0) (a b : Int) (k : Nat)
    (hk : k < (rangeM a b step).length) : (rangeM a b step)[k]? = some (a + k * step) := by
  unfold rangeM at hk ⊢
  rw [if_neg (by omega), if_pos hs, rangeDown_eq_rangeUp] at hk ⊢
  rw [List.length_map] at hk
  rw [List.getElem?_map, rangeUp_getElem? _ _ k hk]
  simp only [Option.map_some, Option.some.injEq]
  rw [Int.neg_add, Int.neg_neg, Int.mul_neg, Int.neg_neg]

theorem rangeM_zero (a b : Int) : rangeM a b 0 = [] := by
  simp [rangeM]

theorem intervalM_length (a b : Int) : (intervalM a b).length = (b + 1 - a).toNat := by
  unfold intervalM
  rw [rangeM_pos_length (by decide)]
  simp

theorem intervalM_getElem? (a b : Int) (k : Nat) (hk : k < (intervalM a b).length) :
    (intervalM a b)[k]? = some (a + k) := by
  unfold intervalM at hk ⊢
  rw [rangeM_pos_getElem? (by decide) a (b + 1) k hk, Int.mul_one]

/-! ### chunks -/

theorem chunksGo_flatten {α} (k : Nat) (xs : List α) : (chunksGo k xs).flatten = xs := by
  fun_induction chunksGo k xs with
  | case1 xs h ih => rw [List.flatten_cons, ih, List.take_append_drop]
  | case2 xs h => simp

theorem chunksGo_nil {α} (k : Nat) : chunksGo k ([] : List α) = [[]] := by
  rw [chunksGo, if_neg (by simp)]

/-- the shape of the result: full chunks of length `k`, then one last chunk of length `1..k`
    (of length `0` exactly when the input is empty) -/
theorem chunksGo_shape {α} {k : Nat} (hk : 0 < k) (xs : List α) :
    ∃ init last, chunksGo k xs = init ++ [last] ∧ (∀ c ∈ init, c.length = k) ∧
      last.length ≤ k ∧ (xs ≠ [] → 0 < last.length) ∧ (xs = [] → init = [] ∧ last = []) := by
  fun_induction chunksGo k xs with
  | case1 xs h ih =>
    obtain ⟨init, last, e, h1, h2, h3, _⟩ := ih
    refine ⟨xs.take k :: init, last, by rw [e]; rfl, ?_, h2, ?_, ?_⟩
    · intro c hc
      rcases List.mem_cons.mp hc with rfl | hc
      · rw [List.length_take]; omega
      · exact h1 c hc
    · intro _
      apply h3
      intro hd
      have := congrArg List.length hd
      rw [List.length_drop, List.length_nil] at this
      omega
    · intro hx; subst hx; simp at h
  | case2 xs h =>
    refine ⟨[], xs, rfl, by simp, ?_, ?_, ?_⟩
    · by_cases h' : xs.length > k
      · exact absurd ⟨hk, h'⟩ h
      · omega
    · intro hx
      exact List.length_pos_iff.mpr hx
    · intro hx; exact ⟨rfl, hx⟩

/-- number of chunks -/
theorem chunksGo_length {α} {k : Nat} (hk : 0 < k) (xs : List α) :
    (chunksGo k xs).length = if xs = [] then 1 else (xs.length + k - 1) / k := by
  fun_induction chunksGo k xs with
  | case1 xs h ih =>
    have hne : xs ≠ [] := by intro hx; subst hx; simp at h
    have hd : xs.drop k ≠ [] := by
      intro hd
      have := congrArg List.length hd
      rw [List.length_drop, List.length_nil] at this
      omega
    rw [List.length_cons, ih, if_neg hne, if_neg hd, List.length_drop]
    have e : xs.length + k - 1 = (xs.length - k + k - 1) + k := by omega
    rw [e, Nat.add_div_right _ hk]
  | case2 xs h =>
    have hle : xs.length ≤ k := by
      by_cases h' : xs.length > k
      · exact absurd ⟨hk, h'⟩ h
      · omega
    simp only [List.length_cons, List.length_nil]
    split
    · rfl
    · rename_i hne
      have : 0 < xs.length := List.length_pos_iff.mpr hne
      have : (xs.length + k - 1) / k = 1 := by
        apply Nat.div_eq_of_lt_le <;> omega
      omega

/-- `sublist(obj, 0, k)` and `sublist(obj, k)` are `take` / `drop` in the loop's regime -/
theorem substr_zero_eq_take {α} (xs : List α) (k : Nat) (hk : k ≤ xs.length) :
    Seq.substr xs 0 (some (k : Int)) = xs.take k := by
  simp only [Seq.substr, Seq.pySlice, Option.getD_some]
  have h1 : ¬ ((0 : Int) < 0) := by omega
  have h2 : ¬ ((0 : Int) > (xs.length : Int)) := by omega
  have h3 : ¬ ((k : Int) < 0) := by omega
  have h4 : ¬ ((k : Int) > (xs.length : Int)) := by omega
  simp only [h1, h2, h3, h4, if_false]
  simp

theorem substr_eq_drop {α} (xs : List α) (k : Nat) (hk : k ≤ xs.length) :
    Seq.substr xs (k : Int) none = xs.drop k := by
  simp only [Seq.substr, Seq.pySlice, Option.getD_none]
  have h1 : ¬ ((k : Int) < 0) := by omega
  have h2 : ¬ ((k : Int) > (xs.length : Int)) := by omega
  have h3 : ¬ ((xs.length : Int) < 0) := by omega
  have h4 : ¬ ((xs.length : Int) > (xs.length : Int)) := by omega
  simp only [h1, h2, h3, h4, if_false]
  simp only [Int.toNat_natCast]
  rw [List.take_of_length_le]
  rw [List.length_drop]
  omega

/-! ### grouped -/

theorem groupedGo_flatten {α β} (eq0 : β → β → Bool) (key : α → β) (xs : List α) (ck : β)
    (grp : List α) (res : List (List α)) :
    (groupedGo eq0 key xs ck grp res).flatten = res.flatten ++ grp ++ xs := by
  induction xs generalizing ck grp res with
  | nil =>
    unfold groupedGo
    split
    · simp
    · rename_i h
      have : grp = [] := by
        cases grp with
        | nil => rfl
        | cons a t => simp at h
      subst this; simp
  | cons x xs ih =>
    unfold groupedGo
    split
    · rw [ih]; simp
    · rw [ih]; simp

theorem groupedGo_nonempty {α β} (eq0 : β → β → Bool) (key : α → β) (xs : List α) (ck : β)
    (grp : List α) (res : List (List α)) (hres : ∀ g ∈ res, g ≠ []) (hgrp : grp ≠ []) :
    ∀ g ∈ groupedGo eq0 key xs ck grp res, g ≠ [] := by
  induction xs generalizing ck grp res with
  | nil =>
    unfold groupedGo
    split
    · intro g hg
      rcases List.mem_append.mp hg with hg | hg
      · exact hres g hg
      · rw [List.mem_singleton] at hg; subst hg; exact hgrp
    · exact hres
  | cons x xs ih =>
    unfold groupedGo
    split
    · apply ih
      · intro g hg
        rcases List.mem_append.mp hg with hg | hg
        · exact hres g hg
        · rw [List.mem_singleton] at hg; subst hg; exact hgrp
      · simp
    · apply ih _ _ _ hres
      simp

end Ckl.C19
