/-
  C15Eval — call nodes: positional calls of the sequence natives and the operators `+`, `==` through
  `eval` / `invoke` / `evalArgs` / `setArgs` / `callFn`, for all fuel above an explicit bound.
-/
import CklVerif.Lemmas.C15EvalNat
import CklVerif.Lemmas.C19SrcNat
set_option linter.unusedSimpArgs false
namespace Ckl.C15Eval
open Ckl Ckl.C19Src

variable (ld : Loader)

theorem EvArgs.mono {k k' env names args pos s r} (h : EvArgs ld k env names args pos s r) (hk : k ≤ k') :
    EvArgs ld k' env names args pos s r := fun f hf => h f (by omega)

/-- one positional argument -/
theorem evArgs1 {k env pos s a1 v1 s1} (n1 : Option String) (hn1 : NotSpread a1)
    (h1 : Ev ld k env a1 s (.ok v1 s1)) :
    EvArgs ld (k + 1) env [n1] [a1] pos s (.ok ([n1], [v1]) s1) :=
  EvArgs.cons ld hn1 h1 (EvArgs.nil ld)

theorem evArgs2 {k env pos s a1 a2 v1 v2 s1 s2} (n1 n2 : Option String) (hn1 : NotSpread a1) (hn2 : NotSpread a2)
    (h1 : Ev ld k env a1 s (.ok v1 s1)) (h2 : Ev ld k env a2 s1 (.ok v2 s2)) :
    EvArgs ld (k + 2) env [n1, n2] [a1, a2] pos s (.ok ([n1, n2], [v1, v2]) s2) :=
  EvArgs.cons ld hn1 (h1.mono ld (Nat.le_succ k)) (evArgs1 ld n2 hn2 h2)

theorem evArgs3 {k env pos s a1 a2 a3 v1 v2 v3 s1 s2 s3} (n1 n2 n3 : Option String)
    (hn1 : NotSpread a1) (hn2 : NotSpread a2) (hn3 : NotSpread a3)
    (h1 : Ev ld k env a1 s (.ok v1 s1)) (h2 : Ev ld k env a2 s1 (.ok v2 s2))
    (h3 : Ev ld k env a3 s2 (.ok v3 s3)) :
    EvArgs ld (k + 3) env [n1, n2, n3] [a1, a2, a3] pos s (.ok ([n1, n2, n3], [v1, v2, v3]) s3) :=
  EvArgs.cons ld hn1 (h1.mono ld (by omega)) (evArgs2 ld n2 n3 hn2 hn3 h2 h3)

/-! ### positional calls of a pure native bound to an identifier -/

theorem Ev.callPos1 {k env fname p pos s nm i a1 v1 s1 p1 rest m}
    (hfn : s.lookup env fname = some (.native nm i)) (hn1 : NotSpread a1)
    (h1 : Ev ld k env a1 s (.ok v1 s1))
    (hps : nativeArgNames nm = some (p1 :: rest)) (hsp : addArgs (p1 :: rest) = ⟨p1 :: rest, none⟩)
    (hpure : callPure nm [(p1, v1)] (div0Value s1 env) pos = some m) :
    Ev ld (k + 3) env (.call (.ident fname p) [none] [a1] pos) s (wrapCall (.native nm i) pos (m s1)) :=
  Ev.callNative ld hfn (evArgs1 ld none hn1 h1) hps (setArgs_pos1 hsp) hpure

theorem Ev.callPos2 {k env fname p pos s nm i a1 a2 v1 v2 s1 s2 p1 p2 rest m}
    (hfn : s.lookup env fname = some (.native nm i)) (hn1 : NotSpread a1) (hn2 : NotSpread a2)
    (h1 : Ev ld k env a1 s (.ok v1 s1)) (h2 : Ev ld k env a2 s1 (.ok v2 s2))
    (hps : nativeArgNames nm = some (p1 :: p2 :: rest)) (hne : p1 ≠ p2)
    (hsp : addArgs (p1 :: p2 :: rest) = ⟨p1 :: p2 :: rest, none⟩)
    (hpure : callPure nm [(p1, v1), (p2, v2)] (div0Value s2 env) pos = some m) :
    Ev ld (k + 4) env (.call (.ident fname p) [none, none] [a1, a2] pos) s
      (wrapCall (.native nm i) pos (m s2)) :=
  Ev.callNative ld hfn (evArgs2 ld none none hn1 hn2 h1 h2) hps (setArgs_pos2 hne hsp) hpure

theorem Ev.callPos3 {k env fname p pos s nm i a1 a2 a3 v1 v2 v3 s1 s2 s3 p1 p2 p3 rest m}
    (hfn : s.lookup env fname = some (.native nm i)) (hn1 : NotSpread a1) (hn2 : NotSpread a2) (hn3 : NotSpread a3)
    (h1 : Ev ld k env a1 s (.ok v1 s1)) (h2 : Ev ld k env a2 s1 (.ok v2 s2)) (h3 : Ev ld k env a3 s2 (.ok v3 s3))
    (hps : nativeArgNames nm = some (p1 :: p2 :: p3 :: rest)) (h12 : p1 ≠ p2) (h13 : p1 ≠ p3) (h23 : p2 ≠ p3)
    (hsp : addArgs (p1 :: p2 :: p3 :: rest) = ⟨p1 :: p2 :: p3 :: rest, none⟩)
    (hpure : callPure nm [(p1, v1), (p2, v2), (p3, v3)] (div0Value s3 env) pos = some m) :
    Ev ld (k + 5) env (.call (.ident fname p) [none, none, none] [a1, a2, a3] pos) s
      (wrapCall (.native nm i) pos (m s3)) :=
  Ev.callNative ld hfn (evArgs3 ld none none none hn1 hn2 hn3 h1 h2 h3) hps (setArgs_pos3 h12 h13 h23 hsp) hpure

/-- the binary operators: the parser writes `x op y` as `fn(a = x, b = y)` -/
theorem Ev.callAB {k env fname p pos s nm i a1 a2 v1 v2 s1 s2 m}
    (hfn : s.lookup env fname = some (.native nm i)) (hn1 : NotSpread a1) (hn2 : NotSpread a2)
    (h1 : Ev ld k env a1 s (.ok v1 s1)) (h2 : Ev ld k env a2 s1 (.ok v2 s2))
    (hps : nativeArgNames nm = some ["a", "b"])
    (hpure : callPure nm [("a", v1), ("b", v2)] (div0Value s2 env) pos = some m) :
    Ev ld (k + 4) env (.call (.ident fname p) [some "a", some "b"] [a1, a2] pos) s
      (wrapCall (.native nm i) pos (m s2)) :=
  Ev.callNative ld hfn (evArgs2 ld (some "a") (some "b") hn1 hn2 h1 h2) hps setArgs_ab hpure

theorem addArgs_seq3 (a b c : String) (h : ∀ p ∈ [a, b, c], ¬ ("...".toList <:+ p.toList)) :
    addArgs [a, b, c] = ⟨[a, b, c], none⟩ := addArgs_plain' _ h

/-! ### nodes whose value only depends on the frames (identifiers, literals) -/

/-- `n` evaluates to `v`, leaving the state alone, in every state that has the frames of `s` (whatever its heap):
    identifiers and literals are such nodes -/
def FrameConst (k : Nat) (env : EnvId) (n : Node) (v : RVal) (s : State) : Prop :=
  ∀ st : State, st.frames = s.frames → Ev ld k env n st (.ok v st)

theorem FrameConst.self {k env n v s} (h : FrameConst ld k env n v s) : Ev ld k env n s (.ok v s) := h s rfl

theorem FrameConst.ident {k env x p v s} (h : s.lookup env x = some v) :
    FrameConst ld k env (.ident x p) v s := by
  intro st hst
  exact Ev.ident ld (by rw [C16.lookup_frames hst]; exact h)

theorem FrameConst.litInt {k env n p s} : FrameConst ld k env (.lit (.int n) p) (.int n) s :=
  fun _ _ => Ev.litInt ld

theorem FrameConst.litStr {k env t p s} : FrameConst ld k env (.lit (.str t) p) (.str t) s :=
  fun _ _ => Ev.litStr ld

theorem alloc_frames (s : State) (c : Cell) : (s.alloc c).1.frames = s.frames := rfl
theorem setCell_frames (s : State) (a : Nat) (c : Cell) : (s.setCell a c).frames = s.frames := rfl

theorem lookup_alloc (s : State) (c : Cell) (env : EnvId) (x : String) :
    (s.alloc c).1.lookup env x = s.lookup env x := C16.lookup_frames (alloc_frames s c) env x

/-! ### heap facts -/

theorem cell_alloc_old {s : State} {a : Nat} {c : Cell} (d : Cell) (h : s.cell a = some c) :
    (s.alloc d).1.cell a = some c := by
  have ha : a < s.heap.size := by
    rcases Nat.lt_or_ge a s.heap.size with h1 | h1
    · exact h1
    · simp [State.cell, Array.getElem?_eq_none h1] at h
  simp only [State.alloc, State.cell, Array.getElem?_push, Nat.ne_of_lt ha, if_false]
  exact h

theorem cell_alloc_new (s : State) (d : Cell) : (s.alloc d).1.cell s.heap.size = some d := by
  simp [State.alloc, State.cell]

theorem alloc_heap_size (s : State) (d : Cell) : (s.alloc d).1.heap.size = s.heap.size + 1 := by
  simp [State.alloc]

theorem cell_lt {s : State} {a : Nat} {c : Cell} (h : s.cell a = some c) : a < s.heap.size := by
  rcases Nat.lt_or_ge a s.heap.size with h1 | h1
  · exact h1
  · simp [State.cell, Array.getElem?_eq_none h1] at h

/-- writing back the content a cell already has changes nothing -/
theorem setCell_same {s : State} {a : Nat} {c : Cell} (h : s.cell a = some c) : s.setCell a c = s := by
  have ha := cell_lt h
  cases s with
  | mk frames heap modules modstack out nextInst secure ghost =>
    simp only [State.setCell, State.mk.injEq, and_true, true_and]
    simp only [State.cell] at h
    apply Array.ext
    · simp
    · intro i h1 h2
      rw [Array.getElem_setIfInBounds]
      split
      · next hi => subst hi; rw [Array.getElem?_eq_getElem h2] at h; exact (Option.some.inj h).symm
      · rfl

theorem setCell_setCell (s : State) (a : Nat) (c d : Cell) : (s.setCell a c).setCell a d = s.setCell a d := by
  simp [State.setCell]

theorem cell_setCell_self {s : State} {a : Nat} {c : Cell} (d : Cell) (h : s.cell a = some c) :
    (s.setCell a d).cell a = some d := by
  have ha := cell_lt h
  simp [State.setCell, State.cell, ha]

/-! ### `equals` of a value with itself -/

/-- the values that `equals` itself: everything except the node values (`parse` results) and the control signals,
    which `__eq__` never equates — not even with themselves, unless they are the same cell of a container -/
def SelfEq : RVal → Prop
  | .node _ | .brk _ | .cont _ | .ret _ _ => False
  | _ => True

theorem rveqF_self (h : Array Cell) (n : Nat) (x : RVal) (hx : SelfEq x) : rveqF h (n + 1) x x = true := by
  cases x <;> first | exact absurd hx id | simp [rveqF, numEq]

/-- a list cell equals another list cell with the same content (elements being `SelfEq`) -/
theorem rveq_list_same {s : State} {a b : Nat} {xs : List RVal} (ha : s.cell a = some (.list xs))
    (hb : s.cell b = some (.list xs)) (hx : ∀ x ∈ xs, SelfEq x) : rveq s (.ref a) (.ref b) = true := by
  have hlt := cell_lt ha
  unfold rveq
  obtain ⟨n, hn⟩ : ∃ n, s.heap.size = n + 1 := ⟨s.heap.size - 1, by omega⟩
  rw [hn]
  simp only [rveqF]
  simp only [State.cell] at ha hb
  by_cases hab : a = b
  · simp [hab]
  · simp only [beq_iff_eq, hab, if_false, ha, hb, beq_self_eq_true, Bool.true_and, List.all_eq_true]
    intro p hp
    have : p.1 = p.2 ∧ p.1 ∈ xs := by
      clear ha hb
      induction xs with
      | nil => simp at hp
      | cons y ys ih =>
        simp only [List.zip_cons_cons, List.mem_cons] at hp
        rcases hp with rfl | hp
        · exact ⟨rfl, by simp⟩
        · have := ih (fun x hx' => hx x (by simp [hx'])) hp
          exact ⟨this.1, by simp [this.2]⟩
    rw [← this.1]
    exact rveqF_self _ _ _ (hx _ this.2)

/-! ### `delete_at` after `insert_at` at the same index, for EVERY index -/

/-- for every int `i` (in range from the front, in range from the end, or out of range either way), deleting at `i`
    what `insert_at` did at `i` restores the list; the removed element is the inserted one exactly when `i` was in
    range for the insertion (`-(n+1) ≤ i ≤ n`) -/
theorem deleteAt_insertAt_all {α : Type} (l : List α) (i : Int) (v : α) :
    Seq.deleteAt (Seq.insertAt l i v) i =
      (if -((l.length : Int) + 1) ≤ i ∧ i ≤ l.length then some v else none, l) := by
  by_cases hr : -((l.length : Int) + 1) ≤ i ∧ i ≤ l.length
  · rw [if_pos hr]
    have hp := (C15.insertPos_in_range_iff (l.length : Int) i (by omega)).mpr hr
    have hlen := C15.insertAt_length l i v hp.1 hp.2
    have hs := C15.insertAt_getElem_self l i v hp.1 hp.2
    have he := C15.insertAt_eraseIdx l i v hp.1 hp.2
    have hadj : C15.adj ((Seq.insertAt l i v).length : Int) i = C15.insertPos l.length i := by
      unfold C15.adj C15.insertPos
      rw [hlen]
      split <;> push_cast <;> omega
    have h0 : 0 ≤ C15.adj ((Seq.insertAt l i v).length : Int) i := by rw [hadj]; exact hp.1
    have h1 : C15.adj ((Seq.insertAt l i v).length : Int) i < ((Seq.insertAt l i v).length : Int) := by
      rw [hadj, hlen]; push_cast; omega
    rw [C15.deleteAt_in_range _ i h0 h1, hadj, hs, he]
  · rw [if_neg hr]
    have hout : (l.length : Int) < i ∨ i < -((l.length : Int) + 1) := by omega
    rw [C15.insertAt_out_of_range l i v hout, C15.deleteAt_out_of_range l i (by omega)]

end Ckl.C15Eval
