/- driver: `(parsesrc s:HEX [bad-pattern s:HEX …])` → `(ast <with positions>)` | `(syn s:MSG LINE T|F)`;
   patterns listed after the source are the ones `re.compile` rejects (computed by the harness). -/
import CklVerif.Model.Front
import CklVerif.Driver.AstCodec
import CklVerif.Driver.EvalCmd
namespace Ckl
open Sx

def handleFront : Sx → Option Sx
  | .list (.atom "parsesrc" :: src :: bad) => do
    let s ← decStr? src
    let badPats ← bad.mapM decStr?
    let validRe := fun (p : List Char) => !badPats.contains (String.ofList p)
    match parseScriptWith validRe s.toList "f" with
    | .ok n => some (.list [.atom "ast", encodeNode true n])
    | .error e => some (.list [.atom "syn", sxStr e.msg, .atom (toString e.pos.line), .atom (if e.eof then "T" else "F")])
  | _ => none

end Ckl
