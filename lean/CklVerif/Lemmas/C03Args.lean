import CklVerif.Lemmas.C13NoHost
import CklVerif.Lemmas.C03Env

/-!
  C03 helper library: argument binding (`addArgs`, `bindNamed`, `bindPositional`,
  `setArgs` of `EvalBase.lean`) against a declarative specification.
-/
namespace Ckl.C03

/-! ### dicts built from lists of pairs (`dict(pairs)`, last value wins, first slot kept) -/

/-- `for k, v in l: d[k] = v` -/
def putAll {β} (d : List (String × β)) (l : List (String × β)) : List (String × β) :=
  l.foldl (fun d kv => dictPut kv.1 kv.2 d) d

/-- `dict(l)` -/
def dictOfPairs {β} (l : List (String × β)) : List (String × β) := putAll [] l

theorem putAll_nil_left {β} (l : List (String × β)) : putAll [] l = dictOfPairs l := rfl

def keys {β} (d : List (String × β)) : List String := d.map (·.1)

@[simp] theorem putAll_nil {β} (d : List (String × β)) : putAll d [] = d := rfl
@[simp] theorem putAll_cons {β} (d : List (String × β)) (kv) (l : List (String × β)) :
    putAll d (kv :: l) = putAll (dictPut kv.1 kv.2 d) l := rfl
theorem putAll_append {β} (d l1 l2 : List (String × β)) :
    putAll d (l1 ++ l2) = putAll (putAll d l1) l2 := by
  simp [putAll, List.foldl_append]

theorem dictGet_append {β} (k : String) (l1 l2 : List (String × β)) :
    dictGet k (l1 ++ l2) = (dictGet k l1).or (dictGet k l2) := by
  induction l1 with
  | nil => simp [dictGet]
  | cons kv r ih =>
    obtain ⟨k', v'⟩ := kv
    by_cases h : k = k'
    · simp [dictGet, h]
    · simp [dictGet, h, ih]

theorem dictGet_dictPut_or {β} (k k' : String) (v : β) (d : List (String × β)) :
    dictGet k (dictPut k' v d) = (dictGet k [(k', v)]).or (dictGet k d) := by
  rw [dictGet_dictPut]
  by_cases h : k = k' <;> simp [dictGet, h]

/-- reading a key after a sequence of puts: the LAST pair with that key wins -/
theorem dictGet_putAll {β} (k : String) (l : List (String × β)) :
    ∀ d, dictGet k (putAll d l) = (dictGet k l.reverse).or (dictGet k d) := by
  induction l with
  | nil => intro d; simp [dictGet]
  | cons kv r ih =>
    intro d
    rw [putAll_cons, ih, List.reverse_cons, dictGet_append, dictGet_dictPut_or, Option.or_assoc]

theorem dictGet_dictOfPairs {β} (k : String) (l : List (String × β)) :
    dictGet k (dictOfPairs l) = dictGet k l.reverse := by
  simp [dictOfPairs, dictGet_putAll, dictGet]

theorem dictGet_mem {β} {k : String} {v : β} {l : List (String × β)} (h : dictGet k l = some v) :
    (k, v) ∈ l := by
  induction l with
  | nil => simp [dictGet] at h
  | cons kv r ih =>
    obtain ⟨k', v'⟩ := kv
    by_cases h1 : k = k'
    · simp [dictGet, h1] at h; simp [h1, h]
    · simp [dictGet, h1] at h; simp [ih h]

theorem mem_keys_iff_has {β} (k : String) (d : List (String × β)) :
    k ∈ keys d ↔ dictHas k d = true := by
  induction d with
  | nil => simp [keys, dictHas, dictGet]
  | cons kv r ih =>
    obtain ⟨k', v'⟩ := kv
    by_cases h1 : k = k'
    · simp [keys, dictHas, dictGet, h1]
    · have : k ∈ List.map (fun x => x.fst) r ↔ dictHas k r = true := ih
      simp [keys, dictHas, dictGet, h1, this]

theorem dictHas_of_mem {β} {k : String} {v : β} {l : List (String × β)} (h : (k, v) ∈ l) :
    dictHas k l = true := by
  rw [← mem_keys_iff_has]
  exact List.mem_map.2 ⟨(k, v), h, rfl⟩

theorem dictHas_putAll {β} (k : String) (l d : List (String × β)) :
    dictHas k (putAll d l) = (dictHas k l || dictHas k d) := by
  have hrev : dictHas k l.reverse = dictHas k l := by
    rw [Bool.eq_iff_iff, ← mem_keys_iff_has, ← mem_keys_iff_has]
    simp [keys]
  rw [← hrev]
  simp only [dictHas, dictGet_putAll]
  cases dictGet k l.reverse <;> simp

theorem keys_putAll_of_has {β} (l : List (String × β)) :
    ∀ d : List (String × β), (∀ kv ∈ l, dictHas kv.1 d = true) → keys (putAll d l) = keys d := by
  induction l with
  | nil => intro d _; rfl
  | cons kv r ih =>
    intro d h
    rw [putAll_cons, ih]
    · exact keys_dictPut_of_has _ _ _ (h kv (by simp))
    · intro kv' hkv'
      rw [dictHas_dictPut, h kv' (by simp [hkv'])]
      simp

theorem keys_nodup_dictPut {β} (k : String) (v : β) (d : List (String × β)) (h : (keys d).Nodup) :
    (keys (dictPut k v d)).Nodup := by
  cases hh : dictHas k d with
  | true => unfold keys; rw [keys_dictPut_of_has _ _ _ hh]; exact h
  | false =>
    rw [dictPut_of_not_has _ _ _ hh]
    have : k ∉ keys d := by rw [mem_keys_iff_has, hh]; simp
    simp only [keys, List.map_append, List.map_cons, List.map_nil]
    rw [List.nodup_append]
    refine ⟨h, by simp, ?_⟩
    intro a ha b hb
    simp at hb
    subst hb
    intro hab; subst hab
    exact this ha

theorem keys_nodup_putAll {β} (l : List (String × β)) :
    ∀ d : List (String × β), (keys d).Nodup → (keys (putAll d l)).Nodup := by
  induction l with
  | nil => intro d h; exact h
  | cons kv r ih => intro d h; exact ih _ (keys_nodup_dictPut _ _ _ h)

/-- dicts are determined by their key order and their lookups -/
theorem dict_ext {β} : ∀ (d1 d2 : List (String × β)), keys d1 = keys d2 → (keys d1).Nodup →
    (∀ k, dictGet k d1 = dictGet k d2) → d1 = d2 := by
  intro d1
  induction d1 with
  | nil => intro d2 hk _ _; cases d2 with
    | nil => rfl
    | cons _ _ => simp [keys] at hk
  | cons kv r ih =>
    intro d2 hk hn hg
    cases d2 with
    | nil => simp [keys] at hk
    | cons kv2 r2 =>
      obtain ⟨k, v⟩ := kv
      obtain ⟨k2, v2⟩ := kv2
      simp only [keys, List.map_cons, List.cons.injEq] at hk
      obtain ⟨hk1, hk2⟩ := hk
      subst hk1
      have hv : v = v2 := by
        have := hg k
        simpa [dictGet] using this
      subst hv
      simp only [keys, List.map_cons, List.nodup_cons] at hn
      have hr : r = r2 := by
        apply ih r2 hk2 hn.2
        intro k'
        by_cases h1 : k' = k
        · subst h1
          have h3 : dictHas k' r = false := by
            rw [Bool.eq_false_iff, ne_eq, ← mem_keys_iff_has]; exact hn.1
          have h4 : dictHas k' r2 = false := by
            rw [Bool.eq_false_iff, ne_eq, ← mem_keys_iff_has]
            show ¬ k' ∈ List.map (·.1) r2
            rw [← hk2]; exact hn.1
          rw [(dictHas_false_iff _ _).1 h3, (dictHas_false_iff _ _).1 h4]
        · have := hg k'
          simpa [dictGet, h1] using this
      rw [hr]

/-- replaying the puts `N` on a dict that already contains them (plus puts on other keys) is
    the identity: pass 2 of `setArgs` re-binds the named arguments to the same values -/
theorem putAll_replay {β} (N Z : List (String × β))
    (hdis : ∀ z ∈ Z, dictHas z.1 (dictOfPairs N) = false) :
    putAll (putAll (dictOfPairs N) Z) N = putAll (dictOfPairs N) Z := by
  have hhasN : ∀ kv ∈ N, dictHas kv.1 (putAll (dictOfPairs N) Z) = true := by
    intro kv hkv
    rw [dictHas_putAll]
    have : dictHas kv.1 (dictOfPairs N) = true := by
      unfold dictOfPairs
      rw [dictHas_putAll, dictHas_of_mem (v := kv.2) hkv]; rfl
    simp [this]
  apply dict_ext
  · exact keys_putAll_of_has N _ hhasN
  · rw [keys_putAll_of_has N _ hhasN]
    exact keys_nodup_putAll Z _ (keys_nodup_putAll N _ (by simp [keys]))
  · intro k
    rw [dictGet_putAll k N]
    cases hN : dictGet k N.reverse with
    | none => simp
    | some v =>
      rw [dictGet_putAll k Z, dictGet_dictOfPairs, hN]
      cases hZ : dictGet k Z.reverse with
      | none => simp
      | some w =>
        have hm : (k, w) ∈ Z := by simpa using dictGet_mem hZ
        have := hdis _ hm
        rw [dictHas_false_iff, dictGet_dictOfPairs, hN] at this
        cases this

/-- a pair list with distinct keys is its own dict -/
theorem dictOfPairs_of_nodup {β} (l : List (String × β)) (h : (keys l).Nodup) : dictOfPairs l = l := by
  have : ∀ (l d : List (String × β)), (keys (d ++ l)).Nodup → putAll d l = d ++ l := by
    intro l
    induction l with
    | nil => intro d _; simp
    | cons kv r ih =>
      intro d hn
      have hnot : dictHas kv.1 d = false := by
        rw [Bool.eq_false_iff, ne_eq, ← mem_keys_iff_has]
        intro hmem
        simp only [keys, List.map_append, List.map_cons] at hn
        rw [List.nodup_append] at hn
        exact hn.2.2 _ hmem _ (by simp) rfl
      rw [putAll_cons, dictPut_of_not_has _ _ _ hnot, ih]
      · simp
      · simpa using hn
  simpa [dictOfPairs] using this l [] (by simpa using h)

/-! ### `addArgs` -/

theorem addArgs_fold (names : List String) : ∀ (acc : List String) (r : Option String),
    names.foldl (fun sp n => if n.endsWith "..." then { sp with restArgName := some n }
                             else { sp with argNames := sp.argNames ++ [n] }) (⟨acc, r⟩ : ArgSpec)
      = ⟨acc ++ names.filter (fun n => !n.endsWith "..."),
          ((names.filter (fun n => n.endsWith "...")).getLast?).or r⟩ := by
  induction names with
  | nil => intro acc r; simp
  | cons n ns ih =>
    intro acc r
    by_cases h : n.endsWith "..." = true
    · simp only [List.foldl_cons, h, if_true, ih]
      simp only [h, Bool.not_true, List.filter_cons_of_neg, Bool.false_eq_true, not_false_eq_true,
        List.filter_cons_of_pos, List.getLast?_cons]
      cases (List.filter (fun n => n.endsWith "...") ns).getLast? <;> simp
    · simp only [List.foldl_cons, h, ih]
      simp [h]

/-- full characterisation of `addArgs`: the ordinary parameters in order, and the LAST name
    ending in "..." as the rest parameter -/
theorem addArgs_eq (names : List String) :
    addArgs names = ⟨names.filter (fun n => !n.endsWith "..."),
                     (names.filter (fun n => n.endsWith "...")).getLast?⟩ := by
  unfold addArgs
  rw [addArgs_fold]
  simp

theorem addArgs_no_rest (params : List String) (h : ∀ p ∈ params, p.endsWith "..." = false) :
    addArgs params = ⟨params, none⟩ := by
  rw [addArgs_eq]
  have h1 : params.filter (fun n => !n.endsWith "...") = params := by
    rw [List.filter_eq_self]; intro a ha; simp [h a ha]
  have h2 : params.filter (fun n => n.endsWith "...") = [] := by
    rw [List.filter_eq_nil_iff]; intro a ha; simp [h a ha]
  rw [h1, h2]; rfl

theorem addArgs_with_rest (init : List String) (last : String)
    (h : ∀ p ∈ init, p.endsWith "..." = false) (hl : last.endsWith "..." = true) :
    addArgs (init ++ [last]) = ⟨init, some last⟩ := by
  rw [addArgs_eq]
  have h1 : init.filter (fun n => !n.endsWith "...") = init := by
    rw [List.filter_eq_self]; intro a ha; simp [h a ha]
  have h2 : init.filter (fun n => n.endsWith "...") = [] := by
    rw [List.filter_eq_nil_iff]; intro a ha; simp [h a ha]
  simp [List.filter_append, h1, h2, hl]

/-! ### the declarative specification -/

/-- the actual arguments as (name or none, value); `None` and `""` both mean "positional" -/
def actualsOf (names : List (Option String)) (values : List RVal) : List (Option String × RVal) :=
  (names.zip values).map (fun nv => (nameGiven nv.1, nv.2))

/-- the named actuals, in call order -/
def namedOf (acts : List (Option String × RVal)) : List (String × RVal) :=
  acts.filterMap (fun nv => nv.1.map (fun n => (n, nv.2)))

/-- the leading positional actuals (those before the first named one) -/
def frontVals (acts : List (Option String × RVal)) : List RVal :=
  (acts.takeWhile (·.1.isNone)).map (·.2)

/-- the actuals from the first named one on -/
def backActs (acts : List (Option String × RVal)) : List (Option String × RVal) :=
  acts.dropWhile (·.1.isNone)

/-- the parameters not yet bound in `args`, in declaration order (a repeated parameter name
    counts once) -/
def freeParams (params : List String) (args : List (String × RVal)) : List String :=
  (params.filter (fun p => !dictHas p args)).eraseDups

/-- Specification of `setArgs` for ordinary parameters `params` and optional rest parameter:
    named arguments go to their parameters first (an unknown name is an error; a repeated
    name: the last value wins); then the leading positionals go, in order, to the still
    unbound parameters in declaration order; surplus positionals go to the rest list, or are
    "Too many arguments" without a rest parameter; a positional after a named one is an error.
    Result: the bindings (as a dict in insertion order) and the rest list. -/
def bindSpec (params : List String) (rest : Option String) (acts : List (Option String × RVal)) :
    Except String (List (String × RVal) × List RVal) :=
  let named := namedOf acts
  match named.find? (fun nv => !params.contains nv.1) with
  | some nv => .error ("Argument " ++ nv.1 ++ " is unknown")
  | none =>
    let free := freeParams params (dictOfPairs named)
    let front := frontVals acts
    if rest.isNone && decide (free.length < front.length) then .error "Too many arguments"
    else if (backActs acts).any (·.1.isNone) then
      .error "Positional arguments need to be placed before named arguments"
    else .ok (dictOfPairs (named ++ free.zip front), front.drop free.length)

theorem bindSpec_unknown {params : List String} {rest : Option String} {acts : List (Option String × RVal)}
    {nv : String × RVal} (h : (namedOf acts).find? (fun nv => !params.contains nv.1) = some nv) :
    bindSpec params rest acts = .error ("Argument " ++ nv.1 ++ " is unknown") := by
  unfold bindSpec
  simp only [h]

theorem bindSpec_known {params : List String} {rest : Option String} {acts : List (Option String × RVal)}
    (h : (namedOf acts).find? (fun nv => !params.contains nv.1) = none) :
    bindSpec params rest acts =
      if rest.isNone && decide ((freeParams params (dictOfPairs (namedOf acts))).length < (frontVals acts).length)
      then .error "Too many arguments"
      else if (backActs acts).any (·.1.isNone) then
        .error "Positional arguments need to be placed before named arguments"
      else .ok (dictOfPairs (namedOf acts ++ (freeParams params (dictOfPairs (namedOf acts))).zip (frontVals acts)),
                (frontVals acts).drop (freeParams params (dictOfPairs (namedOf acts))).length) := by
  unfold bindSpec
  simp only [h]

/-- how a `bindSpec` result shows up as the outcome of `setArgs` in state `s`: an error message
    becomes `throwE`; without rest parameter the bindings are returned and the state is
    untouched; with a rest parameter `rn` the rest list is allocated as a fresh list cell
    (address `s.heap.size`) and bound under `rn` -/
def setArgsResult (rest : Option String) (pos : Pos) (s : State) :
    Except String (List (String × RVal) × List RVal) → Out (List (String × RVal))
  | .error m => throwE m pos s
  | .ok (d, r) =>
    match rest with
    | none => .ok d s
    | some rn => .ok (dictPut rn (.ref s.heap.size) d) (s.alloc (.list r)).1

@[simp] theorem setArgsResult_error (rest pos s m) : setArgsResult rest pos s (.error m) = throwE m pos s := rfl
@[simp] theorem setArgsResult_ok_none (pos s d r) : setArgsResult none pos s (.ok (d, r)) = .ok d s := rfl
@[simp] theorem setArgsResult_ok_some (rn pos s d r) :
    setArgsResult (some rn) pos s (.ok (d, r)) = .ok (dictPut rn (.ref s.heap.size) d) (s.alloc (.list r)).1 := rfl


@[simp] theorem actualsOf_nil_left (vs) : actualsOf [] vs = [] := by simp [actualsOf]
@[simp] theorem actualsOf_nil_right (ns) : actualsOf ns [] = [] := by simp [actualsOf]
@[simp] theorem actualsOf_cons (n ns v vs) :
    actualsOf (n :: ns) (v :: vs) = (nameGiven n, v) :: actualsOf ns vs := by simp [actualsOf]

@[simp] theorem namedOf_nil : namedOf [] = [] := rfl
@[simp] theorem namedOf_cons_none (v l) : namedOf ((none, v) :: l) = namedOf l := by simp [namedOf]
@[simp] theorem namedOf_cons_some (n v l) : namedOf ((some n, v) :: l) = (n, v) :: namedOf l := by
  simp [namedOf]

@[simp] theorem frontVals_nil : frontVals [] = [] := rfl
@[simp] theorem frontVals_cons_none (v l) : frontVals ((none, v) :: l) = v :: frontVals l := by
  simp [frontVals, List.takeWhile]
@[simp] theorem frontVals_cons_some (n v l) : frontVals ((some n, v) :: l) = [] := by
  simp [frontVals, List.takeWhile]

@[simp] theorem backActs_nil : backActs [] = [] := rfl
@[simp] theorem backActs_cons_none (v l) : backActs ((none, v) :: l) = backActs l := by
  simp [backActs, List.dropWhile]
@[simp] theorem backActs_cons_some (n v l) : backActs ((some n, v) :: l) = (some n, v) :: l := by
  simp [backActs, List.dropWhile]

theorem namedOf_backActs (acts : List (Option String × RVal)) : namedOf (backActs acts) = namedOf acts := by
  induction acts with
  | nil => rfl
  | cons a r ih =>
    obtain ⟨n, v⟩ := a
    cases n with
    | none => simp [ih]
    | some n => simp

/-! ### `nextPositional` and the free parameters -/

theorem head?_eraseDups {α} [BEq α] (l : List α) : l.eraseDups.head? = l.head? := by
  cases l with
  | nil => rfl
  | cons a r => rw [List.eraseDups_cons]; rfl

theorem nextPositional_eq_head (params : List String) (args : List (String × RVal)) :
    nextPositional params args = (freeParams params args).head? := by
  unfold nextPositional freeParams
  rw [head?_eraseDups, List.head?_filter]

theorem freeParams_step {params : List String} {args : List (String × RVal)} {p : String} {F : List String}
    (v : RVal) (h : freeParams params args = p :: F) :
    freeParams params (dictPut p v args) = F := by
  unfold freeParams at h ⊢
  have hf : params.filter (fun q => !dictHas q (dictPut p v args))
      = (params.filter (fun q => !dictHas q args)).filter (fun q => !q == p) := by
    rw [List.filter_filter]
    congr 1
    funext q
    rw [dictHas_dictPut]
    by_cases hq : q = p <;> simp [hq]
  rw [hf]
  cases hL : params.filter (fun q => !dictHas q args) with
  | nil => rw [hL] at h; simp at h
  | cons a L' =>
    rw [hL, List.eraseDups_cons] at h
    simp only [List.cons.injEq] at h
    obtain ⟨rfl, rfl⟩ := h
    simp

theorem eraseDups_of_nodup {α} [BEq α] [LawfulBEq α] (l : List α) (h : l.Nodup) : l.eraseDups = l := by
  induction l with
  | nil => rfl
  | cons a r ih =>
    rw [List.nodup_cons] at h
    rw [List.eraseDups_cons]
    have : r.filter (fun b => !b == a) = r := by
      rw [List.filter_eq_self]
      intro b hb
      have : b ≠ a := by intro hab; subst hab; exact h.1 hb
      simp [this]
    rw [this, ih h.2]

theorem freeParams_nil_args (params : List String) (h : params.Nodup) : freeParams params [] = params := by
  unfold freeParams
  have : params.filter (fun p => !dictHas p ([] : List (String × RVal))) = params := by
    rw [List.filter_eq_self]; intro a _; rfl
  rw [this, eraseDups_of_nodup _ h]

/-! ### all-positional calls -/

theorem actualsOf_positional (values : List RVal) :
    actualsOf (values.map (fun _ => none)) values = values.map (fun v => (none, v)) := by
  induction values with
  | nil => rfl
  | cons v vs ih => simp [nameGiven, ih]

theorem namedOf_positional (vs : List RVal) : namedOf (vs.map (fun v => (none, v))) = [] := by
  induction vs with
  | nil => rfl
  | cons v vs ih => simpa using ih

theorem frontVals_positional (vs : List RVal) : frontVals (vs.map (fun v => (none, v))) = vs := by
  induction vs with
  | nil => rfl
  | cons v vs ih => simpa using ih

theorem backActs_positional (vs : List RVal) :
    backActs (vs.map (fun v => ((none : Option String), v))) = [] := by
  induction vs with
  | nil => rfl
  | cons v vs ih => simpa using ih

theorem keys_zip_nodup {β} (l : List String) (h : l.Nodup) : ∀ vs : List β, (keys (l.zip vs)).Nodup := by
  induction l with
  | nil => intro vs; simp [keys]
  | cons a r ih =>
    intro vs
    cases vs with
    | nil => simp [keys]
    | cons v vs =>
      rw [List.nodup_cons] at h
      simp only [keys, List.zip_cons_cons, List.map_cons, List.nodup_cons]
      refine ⟨?_, ih h.2 vs⟩
      intro hmem
      obtain ⟨kv, hkv, rfl⟩ := List.mem_map.1 hmem
      exact h.1 (List.of_mem_zip (a := kv.1) (b := kv.2) hkv).1

theorem freeParams_nil_args' (params : List String) (h : params.Nodup) :
    freeParams params (dictOfPairs ([] : List (String × RVal))) = params := freeParams_nil_args params h

/-! ### pass 1: `bindNamed` -/

theorem bindNamed_spec (sp : ArgSpec) (pos : Pos) : ∀ (names : List (Option String)) (values : List RVal)
    (args : List (String × RVal)) (s : State),
    bindNamed sp pos names values args s =
      match (namedOf (actualsOf names values)).find? (fun nv => !sp.argNames.contains nv.1) with
      | some nv => throwE ("Argument " ++ nv.1 ++ " is unknown") pos s
      | none => .ok (putAll args (namedOf (actualsOf names values))) s := by
  intro names
  induction names with
  | nil => intro values args s; simp [bindNamed]; rfl
  | cons n ns ih =>
    intro values args s
    cases values with
    | nil => simp [bindNamed]; rfl
    | cons v vs =>
      rw [bindNamed, actualsOf_cons]
      cases hn : nameGiven n with
      | none => simp only [namedOf_cons_none]; exact ih vs args s
      | some name =>
        simp only [namedOf_cons_some, List.find?_cons]
        by_cases hc : sp.argNames.contains name = true
        · simp only [hc, if_true, Bool.not_true, putAll_cons]
          exact ih vs _ s
        · simp only [hc, if_false, Bool.false_eq_true]
          simp

/-! ### pass 2: `bindPositional` -/

/-- after the first named argument: only named arguments may follow -/
theorem bindPositional_back (sp : ArgSpec) (pos : Pos) : ∀ (names : List (Option String)) (values : List RVal)
    (args : List (String × RVal)) (rest : List RVal) (s : State),
    (∀ nv ∈ namedOf (actualsOf names values), sp.argNames.contains nv.1 = true) →
    bindPositional sp pos names values true args rest s =
      if (actualsOf names values).any (·.1.isNone) then
        throwE "Positional arguments need to be placed before named arguments" pos s
      else .ok (putAll args (namedOf (actualsOf names values)), rest) s := by
  intro names
  induction names with
  | nil => intro values args rest s _; simp [bindPositional]; rfl
  | cons n ns ih =>
    intro values args rest s hk
    cases values with
    | nil => simp [bindPositional]; rfl
    | cons v vs =>
      rw [bindPositional, actualsOf_cons]
      rw [actualsOf_cons] at hk
      cases hn : nameGiven n with
      | none => simp
      | some name =>
        rw [hn] at hk
        simp only [namedOf_cons_some, List.mem_cons, forall_eq_or_imp] at hk
        simp only [hk.1, if_true, namedOf_cons_some, putAll_cons, List.any_cons, Option.isNone_some,
          Bool.false_or]
        exact ih vs _ rest s hk.2

/-- the whole of pass 2, started before any named argument was seen -/
theorem bindPositional_spec (sp : ArgSpec) (pos : Pos) : ∀ (names : List (Option String)) (values : List RVal)
    (args : List (String × RVal)) (rest : List RVal) (s : State),
    (∀ nv ∈ namedOf (actualsOf names values), sp.argNames.contains nv.1 = true) →
    bindPositional sp pos names values false args rest s =
      if sp.restArgName.isNone &&
          decide ((freeParams sp.argNames args).length < (frontVals (actualsOf names values)).length) then
        throwE "Too many arguments" pos s
      else if (backActs (actualsOf names values)).any (·.1.isNone) then
        throwE "Positional arguments need to be placed before named arguments" pos s
      else .ok (putAll (putAll args ((freeParams sp.argNames args).zip (frontVals (actualsOf names values))))
                  (namedOf (backActs (actualsOf names values))),
                rest ++ (frontVals (actualsOf names values)).drop (freeParams sp.argNames args).length) s := by
  intro names
  induction names with
  | nil => intro values args rest s _; simp [bindPositional]; rfl
  | cons n ns ih =>
    intro values args rest s hk
    cases values with
    | nil => simp [bindPositional]; rfl
    | cons v vs =>
      rw [bindPositional, actualsOf_cons]
      rw [actualsOf_cons] at hk
      cases hn : nameGiven n with
      | none =>
        rw [hn] at hk
        simp only [namedOf_cons_none] at hk
        simp only [Bool.false_eq_true, if_false, frontVals_cons_none, backActs_cons_none,
          List.length_cons]
        rw [nextPositional_eq_head]
        cases hF : freeParams sp.argNames args with
        | nil =>
          simp only [List.head?_nil, List.length_nil, List.zip_nil_left, putAll_nil, List.drop_zero]
          by_cases hr : sp.restArgName.isNone = true
          · simp [hr]
          · simp only [hr, if_false, Bool.false_and, Bool.false_eq_true]
            rw [ih vs args (rest ++ [v]) s hk, hF]
            simp [hr]
        | cons p F =>
          simp only [List.head?_cons, List.length_cons, List.zip_cons_cons, putAll_cons,
            List.drop_succ_cons]
          rw [ih vs _ rest s hk, freeParams_step v hF]
          simp
      | some name =>
        rw [hn] at hk
        simp only [namedOf_cons_some, List.mem_cons, forall_eq_or_imp] at hk
        simp only [hk.1, if_true, frontVals_cons_some, backActs_cons_some, List.length_nil,
          Nat.not_lt_zero, decide_false, Bool.and_false, Bool.false_eq_true, if_false,
          List.zip_nil_right, putAll_nil, namedOf_cons_some, putAll_cons, List.any_cons,
          Option.isNone_some, Bool.false_or, List.drop_nil, List.append_nil]
        exact bindPositional_back sp pos ns vs _ rest s hk.2

end Ckl.C03
